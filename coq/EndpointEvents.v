(* What the receiving endpoint hands to its session (Event::Input) against what the sending endpoint was handed
   (send_input): every Input event of a link run carries a frame of the stream and the value the sender's frame
   has for that player - through the delta/RLE codec, acknowledgements, retransmissions, loss, duplication and
   reordering.  (The link invariant of EndpointLink.v speaks about the frames the receiver STORES; this file
   carries it to the events the session SEES.) *)
From GGRS Require Import Base Consts TimeSync Codec Endpoint EndpointSpec EndpointProofs EndpointSafety EndpointLink.
From Coq Require Import ZifyBool ZifyNat ZifyN.
Ltac Zify.zify_post_hook ::= Z.div_mod_to_equations.
Open Scope Z_scope.

Lemma input_events_nth : forall fr vals hs evs, input_events fr vals hs = Ok evs ->
  forall k v h, In (EvInput k v h) evs -> k = fr /\ exists a, nth_error vals a = Some v /\ nth_error hs a = Some h.
Proof.
  induction vals as [|v0 vals IH]; intros hs evs H k v h Hin; cbn [input_events] in H.
  - inversion H; subst. destruct Hin.
  - destruct hs as [|h0 hs']; [discriminate|].
    destruct (input_events fr vals hs') as [r| |] eqn:E; try discriminate. inversion H; subst.
    destruct Hin as [X|X].
    + inversion X; subst. split; [reflexivity|]. exists O. split; reflexivity.
    + destruct (IH _ _ E _ _ _ X) as (A & a & B & C). split; [exact A|]. exists (S a). split; assumption.
Qed.

(* the events of the accept loop: each comes from one input of the packet, split per player handle *)
Lemma eps_accept_events : forall dbg start inputs i s b s',
  accept_inputs dbg start i inputs s = Ok (b, s') ->
  u_handles s' = u_handles s /\
  exists evs, u_event_queue s' = u_event_queue s ++ evs /\
    forall k v h, In (EvInput k v h) evs -> exists j inp vals a,
      nth_error inputs j = Some inp /\ ts_i32_arith dbg (start + i + Z.of_nat j) = Ok k /\
      to_player_inputs (length (u_handles s)) inp = Some vals /\ nth_error vals a = Some v /\
      nth_error (u_handles s) a = Some h.
Proof.
  induction inputs as [|inp rest IH]; intros i s b s' H; cbn [accept_inputs] in H.
  - inversion H; subst. split; [reflexivity|]. exists []. rewrite app_nil_r. split; [reflexivity|intros k v h []].
  - destruct (ts_i32_arith dbg (start + i)) as [fr| |] eqn:Ef; try discriminate.
    destruct (fr <=? last_recv_frame s) eqn:Ele.
    + apply IH in H. destruct H as (Hh & evs & G1 & G2). split; [exact Hh|]. exists evs. split; [exact G1|].
      intros k v h X. destruct (G2 k v h X) as (j & inp0 & vals & a & A1 & A2 & A3 & A4 & A5).
      exists (S j), inp0, vals, a. split; [exact A1|]. split; [rewrite <- A2; f_equal; lia|]. split; [exact A3|]. split; assumption.
    + destruct (to_player_inputs (length (u_handles s)) inp) as [vals|] eqn:Et.
      * destruct (input_events fr vals (u_handles s)) as [evs0| |] eqn:Ee; try discriminate.
        set (s1 := set_event_queue (u_event_queue s ++ evs0)
                     (set_recv_inputs (ainsert fr inp (u_recv_inputs s)) s)) in *.
        assert (H1 : u_handles s1 = u_handles s) by reflexivity.
        assert (Q1 : u_event_queue s1 = u_event_queue s ++ evs0) by reflexivity.
        apply IH in H. destruct H as (Hh & evs & G1 & G2). split; [congruence|].
        exists (evs0 ++ evs). split; [rewrite G1, Q1, app_assoc; reflexivity|].
        intros k v h X. apply in_app_iff in X. destruct X as [X|X].
        -- destruct (input_events_nth _ _ _ _ Ee _ _ _ X) as (-> & a & B & C).
           exists O, inp, vals, a. split; [reflexivity|]. split; [rewrite <- Ef; f_equal; lia|]. split; [exact Et|]. split; assumption.
        -- destruct (G2 k v h X) as (j & inp0 & vals0 & a & A1 & A2 & A3 & A4 & A5). rewrite H1 in A3, A5.
           exists (S j), inp0, vals0, a. split; [exact A1|]. split; [rewrite <- A2; f_equal; lia|]. split; [exact A3|]. split; assumption.
      * inversion H; subst. split; [reflexivity|]. exists []. rewrite app_nil_r. split; [reflexivity|intros k v h []].
Qed.

Lemma resumed_pre_no_input : forall s k v h, ~ In (EvInput k v h) (resumed_pre s).
Proof. intros s k v h X. unfold resumed_pre in X. destruct (resumed_cond s); [destruct X as [X|[]]; discriminate|destruct X]. Qed.

Lemma touch_no_input : forall now s k v h, In (EvInput k v h) (u_event_queue (eps_touch now s)) -> In (EvInput k v h) (u_event_queue s).
Proof.
  intros now s k v h X.
  destruct (eps_touch_fields now s) as (_&_&_&_&_&_&_&_&_&_&_&_&_&_&_&_&_&_&_&_&_&_&_&_&_&_&_&_&_&_&_&Tq).
  rewrite Tq in X. apply in_app_iff in X. destruct X as [X|X]; [exact X|]. exfalso. exact (resumed_pre_no_input _ _ _ _ X).
Qed.

Lemma header_no_input : forall now st dr af s s2, eps_header st dr af (eps_touch now s) = Ok s2 ->
  forall k v h, In (EvInput k v h) (u_event_queue s2) -> In (EvInput k v h) (u_event_queue s).
Proof.
  intros now st dr af s s2 Eh k v h X. destruct (eps_header_touch _ _ _ _ _ _ Eh) as (Ho & _).
  destruct Ho as (_&_&_&_&_&_&_&_&_&_&_&_&_&_&_&_&_&_&_&_&_&_&_&_&_&_&_&_&_&Hq). rewrite Hq in X.
  apply in_app_iff in X. destruct X as [X|X]; [exact X|]. exfalso.
  apply in_app_iff in X. destruct X as [X|X]; [exact (resumed_pre_no_input _ _ _ _ X)|].
  destruct (dr && _ && _); [destruct X as [X|[]]; discriminate|destruct X].
Qed.

(* one Input packet: every Input event it adds comes from a frame of the decoded payload *)
Lemma handle_input_events : forall dbg now nonce m st dr sf af bytes s s',
  m_body m = Input st dr sf af bytes -> handle_message dbg now nonce m s = Ok s' ->
  forall k v h, In (EvInput k v h) (u_event_queue s') -> In (EvInput k v h) (u_event_queue s) \/
    exists s2 ref ins j inp vals a, eps_header st dr af (eps_touch now s) = Ok s2 /\ 0 <= sf /\
      alookup (eps_decode_frame s2 sf) (u_recv_inputs s2) = Some ref /\ Codec.decode dbg ref bytes = Ok ins /\
      nth_error ins j = Some inp /\ ts_i32_arith dbg (sf + 0 + Z.of_nat j) = Ok k /\
      to_player_inputs (length (u_handles s)) inp = Some vals /\ nth_error vals a = Some v /\
      nth_error (u_handles s) a = Some h.
Proof.
  intros dbg now nonce m st dr sf af bytes s s' Hb H k v h X.
  pose proof (eps_input_exits _ _ _ _ _ _ _ _ _ _ _ Hb H) as E.
  destruct E as [ | |s2 Eh|s2 Eh|s2 ref Eh|s2 ref ins s4 Eh Hs El Ed Ea|s2 ref ins s4 w lo Eh Hs El Ed Ea Ew Elo].
  - left. exact X.
  - left. exact (touch_no_input _ _ _ _ _ X).
  - left. exact (header_no_input _ _ _ _ _ _ Eh _ _ _ X).
  - left. apply (header_no_input _ _ _ _ _ _ Eh). exact X.
  - left. apply (header_no_input _ _ _ _ _ _ Eh). exact X.
  - destruct (eps_accept_events _ _ _ _ _ _ _ Ea) as (_ & evs & G1 & G2).
    rewrite G1 in X. apply in_app_iff in X. destruct X as [X|X].
    + left. apply (header_no_input _ _ _ _ _ _ Eh). exact X.
    + right. destruct (G2 _ _ _ X) as (j & inp & vals & a & A1 & A2 & A3 & A4 & A5).
      assert (Hh2 : u_handles (set_last_input_recv now s2) = u_handles s).
      { destruct (eps_header_touch _ _ _ _ _ _ Eh) as (Ho & _). change (u_handles (set_last_input_recv now s2)) with (u_handles s2). apply Ho. }
      rewrite Hh2 in A3, A5. exists s2, ref, ins, j, inp, vals, a. repeat (split; [assumption|]). assumption.
  - change (u_event_queue (set_recv_inputs (aretain_ge (Z.min lo (sf - 1)) (u_recv_inputs s4)) (send_input_ack now s4)))
      with (u_event_queue s4) in X.
    destruct (eps_accept_events _ _ _ _ _ _ _ Ea) as (_ & evs & G1 & G2).
    rewrite G1 in X. apply in_app_iff in X. destruct X as [X|X].
    + left. apply (header_no_input _ _ _ _ _ _ Eh). exact X.
    + right. destruct (G2 _ _ _ X) as (j & inp & vals & a & A1 & A2 & A3 & A4 & A5).
      assert (Hh2 : u_handles (set_last_input_recv now s2) = u_handles s).
      { destruct (eps_header_touch _ _ _ _ _ _ Eh) as (Ho & _). change (u_handles (set_last_input_recv now s2)) with (u_handles s2). apply Ho. }
      rewrite Hh2 in A3, A5. exists s2, ref, ins, j, inp, vals, a. repeat (split; [assumption|]). assumption.
Qed.

(* a poll hands out what was queued, plus timer events - never an Input event of its own *)
Lemma poll_running_inputs : forall now cs s s', poll_running now cs s = Ok s' ->
  forall k v h, In (EvInput k v h) (u_event_queue s') -> In (EvInput k v h) (u_event_queue s).
Proof.
  intros now cs s s' H. unfold poll_running, poll_running_gen in H. cbn [fix_quiet_dead current_code] in H.
  cbv zeta in H.
  match type of H with match ?X with _ => _ end = _ => destruct X as [s1| |] eqn:E1; try discriminate end.
  assert (Q1 : u_event_queue s1 = u_event_queue s).
  { destruct (u_last_input_recv s + RUNNING_RETRY_INTERVAL <? now).
    - destruct (send_pending_output now cs s) as [t| |] eqn:Et; try discriminate. inversion E1; subst s1.
      apply eps_send_pending_output_shape in Et. destruct Et as [(_ & ->)|(f & b & r & _ & ->)]; fsimpl; reflexivity.
    - inversion E1; subst. reflexivity. }
  clear E1.
  match type of H with match ?X with _ => _ end = _ => destruct X as [s2| |] eqn:E2; try discriminate end.
  assert (Q2 : u_event_queue s2 = u_event_queue s).
  { destruct (u_last_quality_report s1 + QUALITY_REPORT_INTERVAL <? now).
    - unfold send_quality_report in E2. cbv zeta in E2.
      destruct (ts_report_frame_advantage _) as [adv| |]; try discriminate. inversion E2; subst s2. fsimpl. exact Q1.
    - inversion E2; subst s2. exact Q1. }
  clear E2 Q1 s1.
  set (s3 := if u_last_send_time s2 + KEEP_ALIVE_INTERVAL <? now then send_keep_alive now s2 else s2) in *.
  assert (Q3 : u_event_queue s3 = u_event_queue s).
  { subst s3. destruct (u_last_send_time s2 + KEEP_ALIVE_INTERVAL <? now); fsimpl; exact Q2. }
  clearbody s3. clear Q2 s2.
  inversion H; subst s'; clear H. intros k v h X.
  destruct (negb (u_notify_sent s3) && negb (u_event_sent s3) && (u_last_recv_time s3 + u_notify_start s3 <? now));
    destruct (negb (u_event_sent _) && (u_last_recv_time _ + u_timeout _ <? now)); fsimpl; unfold push_event in X; fsimpl;
    repeat (apply in_app_iff in X; destruct X as [X|X]; [|destruct X as [X|[]]; discriminate X]);
    rewrite Q3 in X; exact X.
Qed.

(* the Input events of a queue, in order *)
Definition inputs_of (q : list event) : list event := filter is_input q.
Lemma inputs_of_app : forall a b, inputs_of (a ++ b) = inputs_of a ++ inputs_of b.
Proof. intros. unfold inputs_of. apply filter_app. Qed.
Lemma inputs_of_In : forall q k v h, In (EvInput k v h) q <-> In (EvInput k v h) (inputs_of q).
Proof. intros q k v h. unfold inputs_of. rewrite filter_In. cbn [is_input]. tauto. Qed.
Lemma inputs_of_resumed : forall s, inputs_of (resumed_pre s) = [].
Proof. intros s. unfold resumed_pre. destruct (resumed_cond s); reflexivity. Qed.

(* anything but an Input packet adds no Input event *)
Lemma handle_other_inputs : forall dbg now nonce m s s',
  (forall st dr sf af bytes, m_body m <> Input st dr sf af bytes) ->
  handle_message dbg now nonce m s = Ok s' ->
  inputs_of (u_event_queue s') = inputs_of (u_event_queue s).
Proof.
  intros dbg now nonce m s s' Hni H. rewrite eps_handle_unfold in H.
  destruct (passes_filters s m); cbn [negb] in H; [|inversion H; subst; reflexivity].
  cbv zeta in H.
  destruct (eps_touch_fields now s) as (_&_&_&T4&_&_&_&_&_&_&_&_&_&_&_&_&T17&T18&_&_&_&_&_&_&_&_&_&_&_&_&_&Tq).
  set (t := eps_touch now s) in *.
  assert (Tq' : inputs_of (u_event_queue t) = inputs_of (u_event_queue s)).
  { rewrite Tq, inputs_of_app, inputs_of_resumed, app_nil_r. reflexivity. }
  destruct (m_body m) as [n|n|st dr sf af bytes|f|adv ping|pong|c f|] eqn:Eb.
  - inversion H; subst s'. fsimpl. exact Tq'.
  - unfold on_sync_reply in H.
    destruct (negb (pstate_eqb (u_state t) PSynchronizing)) eqn:E1; [inversion H; subst s'; exact Tq'|].
    destruct (negb (zmem n (u_sync_requests t))) eqn:E2; [inversion H; subst s'; exact Tq'|].
    fsimpl.
    destruct ((u_sync_remaining t <=? 0) && dbg); [discriminate|].
    destruct (0 <? (u_sync_remaining t - 1) mod 4294967296).
    + destruct ((NUM_SYNC_PACKETS <? _) && dbg); [discriminate|]. inversion H; subst s'. fsimpl. unfold push_event. fsimpl.
      rewrite ?inputs_of_app. cbn [inputs_of filter is_input]. rewrite ?app_nil_r. exact Tq'.
    + inversion H; subst s'. fsimpl. unfold push_event. fsimpl.
      rewrite ?inputs_of_app. cbn [inputs_of filter is_input]. rewrite ?app_nil_r. exact Tq'.
  - exfalso. eapply Hni. reflexivity.
  - inversion H; subst s'. rewrite <- Tq'. f_equal. unfold pop_pending_output. destruct (pop_pending _ _ _). reflexivity.
  - inversion H; subst s'. fsimpl. exact Tq'.
  - inversion H; subst s'. fsimpl. exact Tq'.
  - destruct (eps_on_checksum_report_effect _ _ _ _ _ H) as (pcs & -> & _). fsimpl. exact Tq'.
  - inversion H; subst s'. exact Tq'.
Qed.

Section LinkEvents.
Variable dbg : bool.
Variable nh : nat.
Variable f0 : Z.
Variable hs : list Z.      (* the receiver's player handles: the sender's local players, in order *)

(* an Input event is justified by the stream: its frame is a frame the sender was handed, and its value is the
   chunk of that frame's bytes at the position of the player the event names *)
Definition ev_justified (sent : list ibytes) (e : event) : Prop :=
  match e with
  | EvInput k v h => exists b vals a, In (k, b) sent /\ to_player_inputs nh b = Some vals /\
                       nth_error vals a = Some v /\ nth_error hs a = Some h
  | _ => True
  end.

Lemma ev_justified_mono : forall sent x e, ev_justified sent e -> ev_justified (sent ++ x) e.
Proof.
  intros sent x [t0 c0| |k v h| |t0| ] H; try exact I; cbn [ev_justified] in *.
  destruct H as (b & vals & a & A & B). exists b, vals, a. split; [apply in_app_iff; left; exact A|exact B].
Qed.

Lemma epl_receive_events : forall R sent m st dr start ack bytes now nonce R',
  0 <= f0 -> 4 * Z.of_nat nh <= 65535 -> epl_sent_ok nh f0 sent -> epl_receiver_ok nh R sent -> u_handles R = hs ->
  m_body m = Input st dr start ack bytes -> epl_packet_ok nh f0 R sent m ->
  handle_message dbg now nonce m R = Ok R' ->
  forall k v h, In (EvInput k v h) (u_event_queue R') ->
    In (EvInput k v h) (u_event_queue R) \/ ev_justified sent (EvInput k v h).
Proof.
  intros R sent m st dr start ack bytes now nonce R' H0 Hnh Hsent HR Hhs Hb Hp H k v h X.
  destruct (handle_input_events _ _ _ _ _ _ _ _ _ _ _ Hb H k v h X)
    as [Y|(s2 & ref & ins & j & inp & vals & a & Eh & Hs & El & Ed & Ej & Ek & Et & Ev & Ehd)]; [left; exact Y|right].
  pose proof HR as (_ & _ & _ & Hh & _).
  destruct (eps_header_touch _ _ _ _ _ _ Eh) as (Ho & _).
  assert (Hri : u_recv_inputs s2 = u_recv_inputs R) by apply Ho.
  assert (Edf : eps_decode_frame s2 start = eps_decode_frame R start).
  { unfold eps_decode_frame. rewrite (eps_last_recv_frame_ext _ _ Hri). reflexivity. }
  rewrite Edf, Hri in El.
  destruct (epl_decode_packet dbg nh f0 R sent st dr start ack bytes ref ins m H0 Hnh Hsent HR Hb Hp El Ed)
    as (a0 & frames & c & Es & Est & Hne & ->).
  destruct Hsent as (Hc & _ & Hmax).
  rewrite nth_error_map in Ej. unfold ibytes in *. destruct (nth_error frames j) as [[kx vx]|] eqn:Ejf; [|cbn in Ej; discriminate].
  cbn in Ej. inversion Ej; subst vx.
  rewrite Es in Hc. apply epl_consec_app in Hc. destruct Hc as (_ & Hc). apply epl_consec_app in Hc. destruct Hc as (Hc & _).
  pose proof (epl_nth_error_consec nh f0 _ _ _ _ Hc Ejf) as Ekx. cbn [fst] in Ekx.
  assert (Hjl : (j < length frames)%nat) by (apply nth_error_Some; rewrite Ejf; discriminate).
  rewrite Es, !app_length in Hmax.
  rewrite (eps_i32_exact dbg (start + 0 + Z.of_nat j)) in Ek by (unfold TS_I32_MIN; lia).
  assert (Ekk : k = kx) by (inversion Ek; unfold ibytes in *; lia). subst kx.
  cbn [ev_justified]. exists inp, vals, a. split.
  - rewrite Es. apply in_app_iff. right. apply in_app_iff. left. rewrite Ekk. exact (nth_error_In _ _ Ejf).
  - rewrite Hh in Et. rewrite Hhs in Ehd. split; [exact Et|]. split; [exact Ev|exact Ehd].
Qed.

(* the invariant: every Input event waiting in the receiver's queue is justified by the stream *)
Definition epl_events_ok (R : ep) (sent : list ibytes) : Prop :=
  u_handles R = hs /\ Forall (ev_justified sent) (u_event_queue R).

Lemma Forall_inputs : forall sent q, (forall k v h, In (EvInput k v h) q -> ev_justified sent (EvInput k v h)) ->
  Forall (ev_justified sent) q.
Proof.
  intros sent q H. apply Forall_forall. intros [t0 c0| |k v h| |t0| ] Hin; try exact I. apply H. exact Hin.
Qed.

Theorem epl_events_step : forall S R sent S' R' sent',
  epl_inv nh f0 S R sent -> epl_events_ok R sent -> epl_step dbg nh f0 (S, R, sent) (S', R', sent') ->
  epl_events_ok R' sent'.
Proof.
  intros S R sent S' R' sent' HI (Hhs & HE) Hstep.
  pose proof HI as (H0 & Hnh1 & Hnh & Hsent & HS & HR & Hle & HPS & HPR).
  rewrite Forall_forall in HE.
  inversion Hstep; subst.
  - (* the sender is handed the next frame *)
    split; [exact Hhs|]. apply Forall_forall. intros e Hin. apply ev_justified_mono. exact (HE e Hin).
  - split; [exact Hhs|]. apply Forall_forall. exact HE.
  - (* the receiver is polled: its queue is handed over *)
    match goal with X : step dbg (OPoll _ _ _) R = Ok _ |- _ => rename X into Hp end.
    eps_unstep Hp. destruct (poll now nonce cs R) as [[evs t]| |] eqn:E; inversion Hp; subst.
    destruct (eps_poll_effect _ _ _ _ _ _ E) as (Hc & _ & _ & _ & Hq). eps_core_inj Hc.
    split; [congruence|]. rewrite Hq. constructor.
  - (* a packet of the sender arrives *)
    match goal with X : step dbg (OMessage _ _ _) R = Ok _ |- _ => rename X into Hm end.
    match goal with X : In m (u_send_queue S') |- _ => rename X into Hin end.
    eps_unstep Hm. destruct (handle_message dbg now nonce m R) as [t| |] eqn:E; inversion Hm; subst.
    rewrite Forall_forall in HPS. pose proof (HPS m Hin) as Hpk.
    destruct (m_body m) as [n0|n0|st dr sf af bytes|f|adv ping|pong|c f|] eqn:Eb.
    all: try (assert (Hni : forall st dr sf af bytes, m_body m <> Input st dr sf af bytes) by (intros; rewrite Eb; discriminate);
              destruct (epl_other_keeps dbg _ _ _ _ _ Hni E) as (_ & Hh & _);
              split; [congruence|]; apply Forall_inputs; intros k v h X;
              apply inputs_of_In in X; rewrite (handle_other_inputs _ _ _ _ _ _ Hni E) in X; apply inputs_of_In in X;
              exact (HE _ X)).
    pose proof (eps_input_exits _ _ _ _ _ _ _ _ _ _ _ Eb E) as Xe.
    destruct (eps_input_exit_effect _ _ _ _ _ _ _ _ _ Xe) as (_ & _ & _ & Hh & _).
    split; [congruence|]. apply Forall_inputs. intros k v h X.
    destruct (epl_receive_events R sent' m st dr sf af bytes now nonce R' H0 Hnh Hsent HR Hhs Eb Hpk E k v h X) as [Y|Y];
      [exact (HE _ Y)|exact Y].
  - split; [exact Hhs|]. apply Forall_forall. exact HE.
Qed.

Theorem epl_events_steps : forall x y, epl_steps dbg nh f0 x y ->
  epl_inv nh f0 (fst (fst x)) (snd (fst x)) (snd x) -> epl_events_ok (snd (fst x)) (snd x) ->
  epl_events_ok (snd (fst y)) (snd y).
Proof.
  intros x y H. induction H as [x|[[S R] sent] [[S1 R1] sent1] z H1 H2 IH]; intros HI HE; [exact HE|].
  cbn [fst snd] in *. apply IH.
  - exact (epl_inv_step dbg nh f0 _ _ _ _ _ _ HI H1).
  - exact (epl_events_step _ _ _ _ _ _ HI HE H1).
Qed.

(* what a poll of the receiver hands to its session: the Input events among it are justified *)
Theorem epl_poll_hands_out_justified : forall R sent now nonce cs R' out,
  epl_events_ok R sent -> step dbg (OPoll now nonce cs) R = Ok (R', out) ->
  forall k v h, In (EvInput k v h) out -> ev_justified sent (EvInput k v h).
Proof.
  intros R sent now nonce cs R' out (Hhs & HE) Hp k v h X. rewrite Forall_forall in HE.
  eps_unstep Hp. destruct (poll now nonce cs R) as [[evs t]| |] eqn:E; inversion Hp; subst.
  unfold poll, poll_gen in E. cbv zeta in E. change (poll_running_gen current_code) with poll_running in E.
  apply HE.
  destruct (u_state R) eqn:Es.
  - inversion E; subst. exact X.
  - destruct (u_last_sync_request_time R + SYNC_RETRY_INTERVAL <? now); inversion E; subst; revert X; fsimpl; intro X; exact X.
  - destruct (poll_running now cs R) as [t1| |] eqn:Et; try discriminate. inversion E; subst.
    exact (poll_running_inputs _ _ _ _ Et _ _ _ X).
  - destruct (u_shutdown_timeout R <? now); inversion E; subst; exact X.
  - inversion E; subst. exact X.
Qed.

(* it holds as long as no Input event has been queued: in particular when both endpoints have just become Running *)
Lemma epl_events_ok_initial : forall R, u_handles R = hs -> (forall k v h, ~ In (EvInput k v h) (u_event_queue R)) ->
  epl_events_ok R [].
Proof.
  intros R Hh Hn. split; [exact Hh|]. apply Forall_inputs. intros k v h X. exfalso. exact (Hn k v h X).
Qed.

End LinkEvents.

(* ---------- the bytes of a frame against the values the sending session passed ---------- *)
(* the values send_input serialises, in handle order: those of the players 0 .. num_players-1 the map mentions *)
Definition sent_values (hs : list Z) (inputs : list (Z * (Z * Z))) : list Z :=
  flat_map (fun h => match alookup h inputs with Some (_, v) => [v] | None => [] end) hs.

Lemma le_value_bytes : forall v rest, 0 <= v < 4294967296 -> le_value (le_bytes v ++ rest) = Some v.
Proof.
  intros v rest Hv. unfold le_bytes. cbn [app le_value]. f_equal.
  rewrite !Z2N.id by (apply Z.mod_pos_bound; lia). lia.
Qed.

Lemma from_inputs_go_bytes : forall hs inputs frame acc f b,
  from_inputs_go hs inputs frame acc = Ok (f, b) -> b = acc ++ concat (map le_bytes (sent_values hs inputs)).
Proof.
  induction hs as [|h r IH]; intros inputs frame acc f b H; cbn [from_inputs_go sent_values flat_map] in *.
  - inversion H; subst. cbn. rewrite app_nil_r. reflexivity.
  - destruct (alookup h inputs) as [[f0 v]|] eqn:E.
    + destruct ((frame =? NULL) || (f0 =? NULL) || (frame =? f0)); [|discriminate].
      apply IH in H. rewrite H. cbn [app map concat]. fold (sent_values r inputs). rewrite <- app_assoc. reflexivity.
    + apply IH in H. exact H.
Qed.

Lemma player_values_concat : forall vs rest, Forall (fun v => 0 <= v < 4294967296) vs ->
  player_values (length vs) 4 (concat (map le_bytes vs) ++ rest) = Some vs.
Proof.
  induction vs as [|v vs IH]; intros rest H; cbn [length player_values map concat]; [reflexivity|].
  inversion H as [|? ? Hv Hvs]; subst.
  assert (E1 : firstn 4 ((le_bytes v ++ concat (map le_bytes vs)) ++ rest) = le_bytes v) by reflexivity.
  assert (E2 : skipn 4 ((le_bytes v ++ concat (map le_bytes vs)) ++ rest) = concat (map le_bytes vs) ++ rest) by reflexivity.
  rewrite E1, E2. replace (le_bytes v) with (le_bytes v ++ []) by apply app_nil_r.
  rewrite (le_value_bytes v [] Hv), (IH rest Hvs). reflexivity.
Qed.

Lemma concat_le_length : forall vs, length (concat (map le_bytes vs)) = (4 * length vs)%nat.
Proof. induction vs as [|v vs IH]; cbn [map concat length]; [reflexivity|]. rewrite app_length, IH. cbn [le_bytes length]. lia. Qed.

(* what the receiver decodes from a frame's bytes is what the sender's session passed, value by value *)
Theorem to_player_inputs_from_inputs : forall np inputs f b,
  from_inputs np inputs = Ok (f, b) ->
  let vs := sent_values (map Z.of_nat (seq 0 (Z.to_nat np))) inputs in
  vs <> [] -> Forall (fun v => 0 <= v < 4294967296) vs ->
  to_player_inputs (length vs) b = Some vs.
Proof.
  intros np inputs f b H vs Hne Hr. unfold from_inputs in H. apply from_inputs_go_bytes in H. cbn [app] in H.
  fold vs in H. subst b. unfold to_player_inputs.
  destruct (length vs) as [|n] eqn:El; [destruct vs; [congruence|discriminate]|].
  rewrite concat_le_length, El.
  assert ((Z.of_nat (4 * S n) mod Z.of_nat (S n) =? 0) = true) as ->.
  { apply Z.eqb_eq. rewrite Nat2Z.inj_mul. apply Z_mod_mult. }
  assert (Z.to_nat (Z.of_nat (4 * S n) / Z.of_nat (S n)) = 4%nat) as ->.
  { rewrite Nat2Z.inj_mul, Z.div_mul by lia. reflexivity. }
  rewrite <- El. rewrite <- (app_nil_r (concat (map le_bytes vs))). apply player_values_concat. exact Hr.
Qed.
