(* C05 (link half): a lost acknowledgement cannot wedge the receiver; the handshake makes progress.
   Two endpoints S (sender) and R (receiver) of the model Endpoint.v (src/network/protocol.rs, current code),
   connected by a network that may lose, duplicate, delay and reorder.  Every top-level name is prefixed [epl_].
   Statements are collected in props/C05.v. *)
From Coq Require Import ZArith List Bool Lia.
From Coq Require Import ZifyBool ZifyNat ZifyN.
From GGRS Require Import Base Consts TimeSync Codec CodecProofs Endpoint EndpointSpec EndpointProofs EndpointSafety.
Open Scope Z_scope.

(* ====================================================================================== *)
(* (a) re-acknowledgement, and the base frame of a handled packet is never dropped         *)
(* ====================================================================================== *)
Lemma epl_body_fields : forall dbg now sf bytes s2 s',
  eps_body dbg now sf bytes s2 = Ok s' -> 0 <= sf ->
  u_pending_output s' = u_pending_output s2 /\ u_last_acked s' = u_last_acked s2 /\ u_state s' = u_state s2 /\
  u_magic s' = u_magic s2 /\ u_remote_magic s' = u_remote_magic s2.
Proof.
  intros dbg now sf bytes s2 s' H Hs. unfold eps_body in H. cbv zeta in H.
  assert (Hmin : TS_I32_MIN <= sf + 0) by (unfold TS_I32_MIN; lia).
  destruct (alookup _ (u_recv_inputs s2)) as [ref|].
  - destruct (Codec.decode dbg ref bytes) as [inputs| |]; try discriminate.
    + destruct (accept_inputs dbg sf 0 inputs (set_last_input_recv now s2)) as [[[|] s4]| |] eqn:Ea; try discriminate.
      * destruct (eps_accept_spec _ _ _ _ _ _ _ Ea Hmin) as (A & _). eps_others_inj A.
        destruct (ts_i32_arith dbg _) as [w| |]; try discriminate.
        destruct (ts_i32_arith dbg _) as [lo| |]; try discriminate. inversion H; subst. fsimpl. auto.
      * destruct (eps_accept_spec _ _ _ _ _ _ _ Ea Hmin) as (A & _). eps_others_inj A. inversion H; subst. auto.
    + inversion H; subst. fsimpl. auto.
  - destruct (sf <=? last_recv_frame s2); inversion H; subst; fsimpl; auto.
Qed.

(* the repair b2421d6, first half: an Input packet whose base frame (start_frame - 1) the receiver no longer
   keeps and whose start_frame is not beyond last_recv_frame is answered with InputAck(last_recv_frame) *)
Lemma epl_reack : forall dbg now nonce m st dr sf af bytes R,
  m_body m = Input st dr sf af bytes -> passes_filters R m = true -> eps_wf R ->
  dr = true \/ Z.of_nat (length st) = u_num_players R -> 0 <= sf ->
  alookup (sf - 1) (u_recv_inputs R) = None -> sf <= last_recv_frame R ->
  exists R', handle_message dbg now nonce m R = Ok R' /\
    u_send_queue R' = u_send_queue R ++ [mkMsg (u_magic R) (InputAck (last_recv_frame R))] /\
    u_recv_inputs R' = u_recv_inputs R /\ u_state R' = u_state R.
Proof.
  intros dbg now nonce m st dr sf af bytes R Hb Hp Hw Hd Hs Hl Hle.
  rewrite (eps_handle_input_ok_header _ _ _ _ _ _ _ _ _ _ Hb Hp Hd Hs).
  destruct (eps_header_ok_touch now st dr af R Hw Hd) as (s2 & Eh). rewrite Eh.
  destruct (eps_header_touch _ _ _ _ _ _ Eh) as (Ho & _).
  destruct (eps_header_only_lrf _ _ _ _ _ _ Ho) as (Elrf & _).
  unfold eps_header_only in Ho. destruct Ho as (H1 & H2 & H3 & _ & _ & _ & H7 & _).
  unfold eps_body. cbv zeta. rewrite Elrf, H1.
  assert ((last_recv_frame R =? NULL) = false) as -> by (unfold NULL; lia).
  rewrite Hl. assert ((sf <=? last_recv_frame R) = true) as -> by lia.
  eexists. split; [reflexivity|]. fsimpl. rewrite H2, H7, Elrf. auto.
Qed.

(* second half: whatever a packet with start_frame [sf] makes the receiver do, the entry [sf - 1] (the base the
   sender encoded it against) is still there afterwards.  So a sender that keeps encoding against frame A is
   served by a receiver that once decoded a packet based on A, until the sender's base moves. *)
Lemma epl_base_never_dropped : forall dbg now nonce m st dr sf af bytes R R' b,
  m_body m = Input st dr sf af bytes -> handle_message dbg now nonce m R = Ok R' ->
  eps_ri_ok R -> eps_window_ok R ->
  alookup (sf - 1) (u_recv_inputs R) = Some b -> alookup (sf - 1) (u_recv_inputs R') = Some b.
Proof.
  intros dbg now nonce m st dr sf af bytes R R' b Hb H Hok Hw Hl.
  pose proof (eps_input_exits _ _ _ _ _ _ _ _ _ _ _ Hb H) as X.
  assert (Hhdr : forall s2, eps_header st dr af (eps_touch now R) = Ok s2 ->
            u_recv_inputs s2 = u_recv_inputs R /\ u_max_prediction s2 = u_max_prediction R).
  { intros s2 Eh. destruct (eps_header_touch _ _ _ _ _ _ Eh) as (Ho & _). split; apply Ho. }
  destruct X as [ | |s2 Eh|s2 Eh|s2 ref Eh|s2 ref ins s4 Eh Hs El Ed Ea|s2 ref ins s4 w lo Eh Hs El Ed Ea Ew Elo].
  - exact Hl.
  - pose proof (eps_touch_fields now R) as T. unfold eps_only_touched in T.
    destruct T as (_&_&_&_&_&_&_&_&_&_&_&_&_&_&_&_&_&_&_&T20&_). rewrite T20. exact Hl.
  - rewrite (proj1 (Hhdr _ Eh)). exact Hl.
  - fsimpl. rewrite (proj1 (Hhdr _ Eh)). exact Hl.
  - fsimpl. rewrite (proj1 (Hhdr _ Eh)). exact Hl.
  - destruct (Hhdr _ Eh) as (E1 & E2). set (s3 := set_last_input_recv now s2) in *.
    assert (Hok3 : eps_ri_ok s3) by (eapply eps_ri_ok_ext; [|exact Hok]; exact E1).
    pose proof (eps_accept_ri_ok _ _ _ _ _ _ Ea Hs Hok3) as (N4 & _).
    apply eps_alookup_nodup; [exact N4|]. eapply eps_accept_keeps; [exact Ea|].
    change (u_recv_inputs s3) with (u_recv_inputs s2). rewrite E1. apply eps_alookup_in. exact Hl.
  - destruct (Hhdr _ Eh) as (E1 & E2). set (s3 := set_last_input_recv now s2) in *.
    assert (Hok3 : eps_ri_ok s3) by (eapply eps_ri_ok_ext; [|exact Hok]; exact E1).
    assert (Hw3 : eps_window_ok s3) by (unfold eps_window_ok in *; change (u_max_prediction s3) with (u_max_prediction s2); rewrite E2; exact Hw).
    destruct (eps_complete_exit_ri dbg now sf ins s3 s4 w lo ref Hok3 Hw3 Hs El Ea Ew Elo) as (_ & _ & _ & _ & _ & _ & K).
    apply K; [|lia]. change (u_recv_inputs s3) with (u_recv_inputs s2). rewrite E1. apply eps_alookup_in. exact Hl.
Qed.

(* ====================================================================================== *)
(* (b) an acknowledgement moves the sender's base                                          *)
(* ====================================================================================== *)
(* consecutive frames starting at f *)
Fixpoint epl_consec (f : Z) (po : list ibytes) : Prop :=
  match po with [] => True | x :: r => fst x = f /\ epl_consec (f + 1) r end.

Lemma epl_consec_app : forall a b f, epl_consec f (a ++ b) <-> epl_consec f a /\ epl_consec (f + Z.of_nat (length a)) b.
Proof.
  induction a as [|x a IH]; intros b f; cbn [app epl_consec length].
  - replace (f + Z.of_nat 0) with f by lia. tauto.
  - rewrite IH. replace (f + 1 + Z.of_nat (length a)) with (f + Z.of_nat (S (length a))) by lia. tauto.
Qed.

Lemma epl_consec_in : forall po f x, epl_consec f po -> In x po -> f <= fst x < f + Z.of_nat (length po).
Proof.
  induction po as [|y r IH]; intros f x H Hi; [destruct Hi|]. cbn [epl_consec length] in *. destruct H as (H1 & H2).
  destruct Hi as [->|Hi]; [lia|]. specialize (IH _ _ H2 Hi). lia.
Qed.

Lemma epl_consec_unique : forall po f k b b', epl_consec f po -> In (k, b) po -> In (k, b') po -> b = b'.
Proof.
  induction po as [|y r IH]; intros f k b b' H H1 H2; [destruct H1|]. cbn [epl_consec] in H. destruct H as (Hy & Hr).
  destruct H1 as [->|H1], H2 as [E|H2].
  - inversion E. reflexivity.
  - pose proof (epl_consec_in _ _ _ Hr H2). cbn [fst] in *. lia.
  - subst y. pose proof (epl_consec_in _ _ _ Hr H1). cbn [fst] in *. lia.
  - eapply IH; eauto.
Qed.

Lemma epl_last_default : forall {A : Type} (l : list A) x d d', last (x :: l) d = last (x :: l) d'.
Proof. induction l as [|y l IH]; intros x d d'; [reflexivity|]. cbn [last] in *. apply (IH y). Qed.

Lemma epl_pop_all_below : forall pre a rest la, Forall (fun x => fst x <= a) pre ->
  pop_pending a (pre ++ rest) la = pop_pending a rest (last pre la).
Proof.
  induction pre as [|x pre IH]; intros a rest la F; cbn [app]; [reflexivity|].
  inversion F as [|? ? F1 F2]; subst. cbn [pop_pending]. assert ((fst x <=? a) = true) as -> by lia.
  rewrite IH by exact F2. f_equal. destruct pre as [|p pre]; [reflexivity|]. apply (epl_last_default pre p).
Qed.

Lemma epl_pop_stops : forall a po la, match po with [] => True | x :: _ => a < fst x end -> pop_pending a po la = (po, la).
Proof. intros a [|x r] la H; cbn [pop_pending]; [reflexivity|]. assert ((fst x <=? a) = false) as -> by lia. reflexivity. Qed.

(* popping up to a frame that is pending: exactly the entries up to it go, it becomes last_acked_input *)
Lemma epl_pop_consec : forall f pre a b post la,
  epl_consec f (pre ++ (a, b) :: post) -> pop_pending a (pre ++ (a, b) :: post) la = (post, (a, b)).
Proof.
  intros f pre a b post la H. apply epl_consec_app in H. destruct H as (H1 & H2). cbn [epl_consec fst] in H2.
  destruct H2 as (Ha & H3).
  rewrite epl_pop_all_below.
  - cbn [pop_pending fst]. assert ((a <=? a) = true) as -> by lia. apply epl_pop_stops.
    destruct post as [|y r]; [exact I|]. cbn [epl_consec] in H3. lia.
  - apply Forall_forall. intros x Hx. pose proof (epl_consec_in _ _ _ H1 Hx). lia.
Qed.

(* the Input packet send_pending_output would queue now *)
Definition epl_packet (cs : list status) (s : ep) : option message :=
  match u_pending_output s with
  | [] => None
  | (f, _) :: _ =>
    Some (mkMsg (u_magic s) (Input cs (pstate_eqb (u_state s) PDisconnected) f (last_recv_frame s)
                                   (Codec.encode (snd (u_last_acked s)) (map snd (u_pending_output s)))))
  end.

Lemma epl_hd_packet : forall cs s fr, hd_error (u_pending_output s) = Some fr ->
  epl_packet cs s = Some (mkMsg (u_magic s) (Input cs (pstate_eqb (u_state s) PDisconnected) (fst fr) (last_recv_frame s)
                                                  (Codec.encode (snd (u_last_acked s)) (map snd (u_pending_output s))))).
Proof.
  intros cs s fr H. unfold epl_packet. destruct (u_pending_output s) as [|[f y] r]; cbn in H; [discriminate|].
  inversion H. reflexivity.
Qed.

Lemma epl_send_pending_output_packet : forall now cs s t,
  send_pending_output now cs s = Ok t ->
  match epl_packet cs s with
  | None => t = s
  | Some m => u_send_queue t = u_send_queue s ++ [m] /\ eps_others t =
               eps_others (set_send_queue (u_send_queue s ++ [m]) (set_last_send_time now s)) /\
               u_recv_inputs t = u_recv_inputs s /\ u_event_queue t = u_event_queue s
  end.
Proof.
  intros now cs s t H. apply eps_send_pending_output_shape in H. unfold epl_packet.
  destruct H as [(E & ->)|(f & b & r & E & ->)]; rewrite E; [reflexivity|]. rewrite <- E. fsimpl. auto.
Qed.

(* an InputAck (or the ack_frame of an Input packet) for a pending frame: the next packet starts right above
   it and is encoded against its bytes *)
Lemma epl_ack_moves_base : forall dbg now nonce m S f0 pre a b post,
  u_pending_output S = pre ++ (a, b) :: post -> epl_consec f0 (u_pending_output S) ->
  passes_filters S m = true -> m_body m = InputAck a ->
  exists S', handle_message dbg now nonce m S = Ok S' /\
    u_pending_output S' = post /\ u_last_acked S' = (a, b) /\
    forall cs, epl_packet cs S' =
      match post with
      | [] => None
      | _ => Some (mkMsg (u_magic S) (Input cs (pstate_eqb (u_state S) PDisconnected) (a + 1) (last_recv_frame S)
                                            (Codec.encode b (map snd post))))
      end.
Proof.
  intros dbg now nonce m S f0 pre a b post Hpo Hc Hp Hb.
  rewrite eps_handle_unfold, Hp, Hb. cbn [negb]. cbv zeta. eexists. split; [reflexivity|].
  pose proof (eps_touch_fields now S) as T. unfold eps_only_touched in T.
  destruct T as (T1&T2&T3&T4&T5&T6&T7&T8&T9&T10&T11&T12&T13&T14&T15&T16&T17&T18&T19&T20&_).
  destruct (eps_pop_pending_output_fields a (eps_touch now S)) as (F1 & _ & _ & F4 & _).
  rewrite T17, T18, Hpo in F1. rewrite Hpo in Hc. rewrite (epl_pop_consec f0 pre a b post _ Hc) in F1.
  inversion F1 as [[Q1 Q2]]. split; [reflexivity|]. split; [reflexivity|].
  intro cs. unfold epl_packet. rewrite Q1, Q2. destruct post as [|[f x] r]; [reflexivity|].
  apply epl_consec_app in Hc. destruct Hc as (_ & Hc). cbn [epl_consec fst] in Hc. destruct Hc as (Ha & Hf & _).
  assert (Efa : f = a + 1) by lia. clear Ha Hf. subst f.
  assert (E1 : u_magic (pop_pending_output a (eps_touch now S)) = u_magic S)
    by (unfold pop_pending_output; destruct (pop_pending _ _ _); fsimpl; exact T14).
  assert (E2 : u_state (pop_pending_output a (eps_touch now S)) = u_state S)
    by (unfold pop_pending_output; destruct (pop_pending _ _ _); fsimpl; exact T4).
  assert (E3 : last_recv_frame (pop_pending_output a (eps_touch now S)) = last_recv_frame S)
    by (apply eps_last_recv_frame_ext; rewrite F4; exact T20).
  rewrite E1, E2, E3. reflexivity.
Qed.

(* the same for the ack_frame of an Input packet that is not dropped before its header is processed *)
Lemma epl_input_ack_pops : forall dbg now nonce m st dr sf af bytes S S',
  m_body m = Input st dr sf af bytes -> passes_filters S m = true ->
  dr = true \/ Z.of_nat (length st) = u_num_players S -> 0 <= sf ->
  handle_message dbg now nonce m S = Ok S' ->
  (u_pending_output S', u_last_acked S') = pop_pending af (u_pending_output S) (u_last_acked S).
Proof.
  intros dbg now nonce m st dr sf af bytes S S' Hb Hp Hd Hs H.
  rewrite (eps_handle_input_ok_header _ _ _ _ _ _ _ _ _ _ Hb Hp Hd Hs) in H.
  destruct (eps_header st dr af (eps_touch now S)) as [s2| |] eqn:Eh; try discriminate.
  destruct (eps_header_touch _ _ _ _ _ _ Eh) as (Ho & _).
  destruct (epl_body_fields _ _ _ _ _ _ H Hs) as (A & B & _). rewrite A, B.
  unfold eps_header_only in Ho. tauto.
Qed.

(* ====================================================================================== *)
(* (c) the S -> R link                                                                     *)
(* ====================================================================================== *)
Definition epl_plain (b : body) : bool :=
  match b with Input _ _ _ _ _ | InputAck _ => false | _ => true end.

(* messages appended to the send queue, each satisfying P *)
Definition epl_app (P : message -> Prop) (s s' : ep) : Prop :=
  exists q, u_send_queue s' = u_send_queue s ++ q /\ Forall P q.

Lemma epl_app_refl : forall P s s', u_send_queue s' = u_send_queue s -> epl_app P s s'.
Proof. intros P s s' E. exists []. rewrite app_nil_r. split; [exact E|constructor]. Qed.

Lemma epl_app_trans : forall P a b c, epl_app P a b -> epl_app P b c -> epl_app P a c.
Proof.
  intros P a b c (q1 & E1 & F1) (q2 & E2 & F2). exists (q1 ++ q2). rewrite E2, E1, app_assoc.
  split; [reflexivity|]. apply Forall_app. auto.
Qed.

Lemma epl_app_one : forall (P : message -> Prop) s s' m, u_send_queue s' = u_send_queue s ++ [m] -> P m -> epl_app P s s'.
Proof. intros P s s' m E H. exists [m]. split; [exact E|]. constructor; [exact H|constructor]. Qed.

(* what a poll queues: the retransmission of pending_output (if due) and packets without acknowledgement *)
Lemma epl_poll_messages : forall now nonce cs s out s',
  poll now nonce cs s = Ok (out, s') ->
  epl_app (fun m => epl_packet cs s = Some m \/ epl_plain (m_body m) = true) s s'.
Proof.
  intros now nonce cs s out s' H. unfold poll, poll_gen in H. cbv zeta in H.
  set (P := fun m => epl_packet cs s = Some m \/ epl_plain (m_body m) = true).
  destruct (u_state s) eqn:Es.
  - inversion H; subst. apply epl_app_refl. reflexivity.
  - destruct (u_last_sync_request_time s + SYNC_RETRY_INTERVAL <? now); inversion H; subst; fsimpl.
    + eapply epl_app_one; [reflexivity|]. right. reflexivity.
    + apply epl_app_refl. reflexivity.
  - unfold poll_running_gen in H. cbn [fix_quiet_dead current_code] in H. cbv zeta in H.
    match type of H with match match ?X with _ => _ end with _ => _ end = _ => destruct X as [s1| |] eqn:E1; try discriminate end.
    assert (A1 : epl_app P s s1).
    { destruct (u_last_input_recv s + RUNNING_RETRY_INTERVAL <? now).
      - destruct (send_pending_output now cs s) as [t| |] eqn:Et; try discriminate. inversion E1; subst s1.
        apply epl_send_pending_output_packet in Et. destruct (epl_packet cs s) as [m|] eqn:Ep.
        + destruct Et as (Q & _). eapply epl_app_one; [fsimpl; exact Q|]. left. reflexivity.
        + subst t. apply epl_app_refl. reflexivity.
      - inversion E1; subst. apply epl_app_refl. reflexivity. }
    match type of H with match match ?X with _ => _ end with _ => _ end = _ => destruct X as [s2| |] eqn:E2; try discriminate end.
    assert (A2 : epl_app P s1 s2).
    { destruct (u_last_quality_report s1 + QUALITY_REPORT_INTERVAL <? now).
      - unfold send_quality_report in E2. cbv zeta in E2.
        destruct (ts_report_frame_advantage _) as [adv| |]; try discriminate. inversion E2; subst s2.
        eapply epl_app_one; [fsimpl; reflexivity|]. right. reflexivity.
      - inversion E2; subst. apply epl_app_refl. reflexivity. }
    set (s3 := if u_last_send_time s2 + KEEP_ALIVE_INTERVAL <? now then send_keep_alive now s2 else s2) in *.
    assert (A3 : epl_app P s2 s3).
    { subst s3. destruct (u_last_send_time s2 + KEEP_ALIVE_INTERVAL <? now).
      - eapply epl_app_one; [fsimpl; reflexivity|]. right. reflexivity.
      - apply epl_app_refl. reflexivity. }
    clearbody s3. inversion H; subst s'. eapply epl_app_trans; [exact A1|]. eapply epl_app_trans; [exact A2|].
    eapply epl_app_trans; [exact A3|]. apply epl_app_refl.
    destruct (negb (u_notify_sent s3) && negb (u_event_sent s3) && (u_last_recv_time s3 + u_notify_start s3 <? now));
      fsimpl; destruct (negb (u_event_sent _) && _); reflexivity.
  - destruct (u_shutdown_timeout s <? now); inversion H; subst; apply epl_app_refl; reflexivity.
  - inversion H; subst. apply epl_app_refl. reflexivity.
Qed.

(* what handling anything but an Input packet queues: packets without acknowledgement *)
Lemma epl_other_messages : forall dbg now nonce m s s',
  (forall st dr sf af bytes, m_body m <> Input st dr sf af bytes) ->
  handle_message dbg now nonce m s = Ok s' ->
  epl_app (fun x => epl_plain (m_body x) = true) s s'.
Proof.
  intros dbg now nonce m s s' Hni H. rewrite eps_handle_unfold in H.
  destruct (passes_filters s m); cbn [negb] in H; [|inversion H; subst; apply epl_app_refl; reflexivity].
  cbv zeta in H. pose proof (eps_touch_fields now s) as T. unfold eps_only_touched in T.
  destruct T as (_&_&T3&_). set (t := eps_touch now s) in *.
  destruct (m_body m) as [n|n|st dr sf af bytes|f|adv ping|pong|c f|] eqn:Eb.
  - inversion H; subst. eapply epl_app_one; [fsimpl; rewrite T3; reflexivity|reflexivity].
  - unfold on_sync_reply in H.
    destruct (negb (pstate_eqb (u_state t) PSynchronizing)); [inversion H; subst; apply epl_app_refl; exact T3|].
    destruct (negb (zmem n (u_sync_requests t))); [inversion H; subst; apply epl_app_refl; exact T3|].
    fsimpl. destruct ((u_sync_remaining t <=? 0) && dbg); [discriminate|].
    destruct (0 <? (u_sync_remaining t - 1) mod 4294967296).
    + destruct ((NUM_SYNC_PACKETS <? _) && dbg); [discriminate|]. inversion H; subst.
      eapply epl_app_one; [fsimpl; rewrite T3; reflexivity|reflexivity].
    + inversion H; subst. apply epl_app_refl. fsimpl. exact T3.
  - exfalso. eapply Hni. reflexivity.
  - inversion H; subst. apply epl_app_refl. unfold pop_pending_output. destruct (pop_pending _ _ _). fsimpl. exact T3.
  - inversion H; subst. eapply epl_app_one; [fsimpl; rewrite T3; reflexivity|reflexivity].
  - inversion H; subst. apply epl_app_refl. fsimpl. exact T3.
  - destruct (eps_on_checksum_report_effect _ _ _ _ _ H) as (pcs & -> & _). apply epl_app_refl. fsimpl. exact T3.
  - inversion H; subst. apply epl_app_refl. exact T3.
Qed.

(* the acknowledgement an Input packet is answered with carries last_recv_frame of the state afterwards *)
Lemma epl_input_exit_ack : forall dbg now st dr sf af bytes s s',
  eps_input_exit dbg now st dr sf af bytes s s' -> eps_ri_ok s -> eps_window_ok s ->
  u_send_queue s' = u_send_queue s \/
  u_send_queue s' = u_send_queue s ++ [mkMsg (u_magic s) (InputAck (last_recv_frame s'))].
Proof.
  intros dbg now st dr sf af bytes s s' H Hok Hw.
  assert (Hhdr : forall s2, eps_header st dr af (eps_touch now s) = Ok s2 ->
            u_recv_inputs s2 = u_recv_inputs s /\ u_max_prediction s2 = u_max_prediction s /\
            u_send_queue s2 = u_send_queue s /\ u_magic s2 = u_magic s).
  { intros s2 Eh. destruct (eps_header_touch _ _ _ _ _ _ Eh) as (Ho & _). unfold eps_header_only in Ho. tauto. }
  destruct H as [ | |s2 Eh|s2 Eh|s2 ref Eh|s2 ref ins s4 Eh Hs El Ed Ea|s2 ref ins s4 w lo Eh Hs El Ed Ea Ew Elo].
  - left. reflexivity.
  - left. apply (eps_touch_fields now s).
  - left. apply (Hhdr _ Eh).
  - right. destruct (Hhdr _ Eh) as (_ & _ & A & B). fsimpl. rewrite A, B. reflexivity.
  - left. fsimpl. apply (Hhdr _ Eh).
  - left. assert (Hmin : TS_I32_MIN <= sf + 0) by (unfold TS_I32_MIN; lia).
    destruct (eps_accept_spec _ _ _ _ _ _ _ Ea Hmin) as (A & _). eps_others_inj A.
    rewrite O3. apply (Hhdr _ Eh).
  - right. destruct (Hhdr _ Eh) as (E1 & E2 & E3 & E4). set (s3 := set_last_input_recv now s2) in *.
    assert (Hok3 : eps_ri_ok s3) by (eapply eps_ri_ok_ext; [|exact Hok]; exact E1).
    assert (Hw3 : eps_window_ok s3) by (unfold eps_window_ok in *; change (u_max_prediction s3) with (u_max_prediction s2); rewrite E2; exact Hw).
    destruct (eps_complete_exit_ri dbg now sf ins s3 s4 w lo ref Hok3 Hw3 Hs El Ea Ew Elo) as (_ & B & _).
    cbv zeta in B. rewrite B. assert (Hmin : TS_I32_MIN <= sf + 0) by (unfold TS_I32_MIN; lia).
    destruct (eps_accept_spec _ _ _ _ _ _ _ Ea Hmin) as (A & _). eps_others_inj A. fsimpl.
    rewrite O3, O15, E3, E4. reflexivity.
Qed.

(* ---------- the link state and its invariant (DESIGN.md A.3) ---------- *)
Definition epl_zeros (nh : nat) : list N := repeat 0%N (4 * nh).

Section Link.
Variable dbg : bool.
Variable nh : nat.    (* inputs per frame of the stream S -> R: |handles R| = local players of S *)
Variable f0 : Z.      (* first frame of the stream *)

(* [sent]: everything S was asked to send, in order *)
Definition epl_sent_ok (sent : list ibytes) : Prop :=
  epl_consec f0 sent /\ Forall (fun x => length (snd x) = (4 * nh)%nat) sent /\
  f0 + Z.of_nat (length sent) - 1 <= TS_I32_MAX.

(* pending_output is the suffix of [sent] above last_acked_input, which is the entry before it (blank before the
   first acknowledgement) *)
Definition epl_sender_ok (S : ep) (sent : list ibytes) : Prop :=
  u_state S = PRunning /\
  (length (u_pending_output S) <= N.to_nat PENDING_OUTPUT_SIZE + 1)%nat /\
  exists acked, sent = acked ++ u_pending_output S /\
    ((acked = [] /\ u_last_acked S = (NULL, epl_zeros nh)) \/ (exists pre, acked = pre ++ [u_last_acked S])).

(* R's stored frames carry S's bytes; the key -1 (if still there) is the blank input *)
Definition epl_receiver_ok (R : ep) (sent : list ibytes) : Prop :=
  u_state R = PRunning /\ eps_inv R /\ eps_window_ok R /\ length (u_handles R) = nh /\
  (forall k b, In (k, b) (u_recv_inputs R) -> (k = NULL /\ b = epl_zeros nh) \/ In (k, b) sent).

(* every Input packet S ever queued: a segment of [sent] encoded against the entry before it (blank for a
   segment that starts at the beginning); a packet with a non-blank base is never ahead of last_recv_frame(R) + 1 *)
Definition epl_packet_ok (R : ep) (sent : list ibytes) (m : message) : Prop :=
  match m_body m with
  | Input st dr start ack bytes =>
    exists a frames c base, sent = a ++ frames ++ c /\ frames <> [] /\
      (length frames <= N.to_nat PENDING_OUTPUT_SIZE + 1)%nat /\
      start = f0 + Z.of_nat (length a) /\ bytes = Codec.encode base (map snd frames) /\
      ((a = [] /\ base = epl_zeros nh) \/
       (exists pre, a = pre ++ [(start - 1, base)]) /\ start - 1 <= last_recv_frame R)
  | _ => True
  end.

Definition epl_packet_is (R : ep) (sent : list ibytes) (start : Z) (bytes : list N)
                         (a frames c : list ibytes) (base : list N) : Prop :=
  sent = a ++ frames ++ c /\ frames <> [] /\
  (length frames <= N.to_nat PENDING_OUTPUT_SIZE + 1)%nat /\
  start = f0 + Z.of_nat (length a) /\ bytes = Codec.encode base (map snd frames) /\
  ((a = [] /\ base = epl_zeros nh) \/
   (exists pre, a = pre ++ [(start - 1, base)]) /\ start - 1 <= last_recv_frame R).

(* every acknowledgement R ever queued (InputAck, or the ack_frame of an Input packet of the other direction) *)
Definition epl_ack_value_ok (R : ep) (sent : list ibytes) (r : Z) : Prop :=
  r <= last_recv_frame R /\ (r = NULL \/ exists b, In (r, b) sent).
Definition epl_ack_ok (R : ep) (sent : list ibytes) (m : message) : Prop :=
  match m_body m with
  | InputAck r => epl_ack_value_ok R sent r
  | Input _ _ _ r _ => epl_ack_value_ok R sent r
  | _ => True
  end.

(* send queues are never drained in the link model: they are the sets of packets ever sent, any of which the
   network may deliver at any time, any number of times *)
Definition epl_inv (S R : ep) (sent : list ibytes) : Prop :=
  0 <= f0 /\ (1 <= nh)%nat /\ 4 * Z.of_nat nh <= 65535 /\
  epl_sent_ok sent /\ epl_sender_ok S sent /\ epl_receiver_ok R sent /\
  fst (u_last_acked S) <= last_recv_frame R /\
  Forall (epl_packet_ok R sent) (u_send_queue S) /\ Forall (epl_ack_ok R sent) (u_send_queue R).

(* ---------- monotonicity ---------- *)
Lemma epl_packet_ok_mono : forall R R' sent x m,
  last_recv_frame R <= last_recv_frame R' -> epl_packet_ok R sent m -> epl_packet_ok R' (sent ++ x) m.
Proof.
  intros R R' sent x m L H. unfold epl_packet_ok in *. destruct (m_body m); try exact I.
  destruct H as (a & frames & c & base & E & Hn & Hl & Hs & Hb & Hbase).
  exists a, frames, (c ++ x), base. rewrite E, <- !app_assoc. split; [reflexivity|]. repeat (split; [assumption|]).
  destruct Hbase as [Hbase|(Hbase & Hle)]; [left; exact Hbase|right; split; [exact Hbase|lia]].
Qed.

Lemma epl_ack_ok_mono : forall R R' sent x m,
  last_recv_frame R <= last_recv_frame R' -> epl_ack_ok R sent m -> epl_ack_ok R' (sent ++ x) m.
Proof.
  intros R R' sent x m L H. unfold epl_ack_ok, epl_ack_value_ok in *.
  destruct (m_body m); try exact I; destruct H as (H1 & H2); (split; [lia|]);
    (destruct H2 as [H2|(b & H2)]; [left; exact H2|right; exists b; apply in_app_iff; left; exact H2]).
Qed.

Lemma epl_plain_packet_ok : forall R sent m, epl_plain (m_body m) = true -> epl_packet_ok R sent m /\ epl_ack_ok R sent m.
Proof. intros R sent m H. unfold epl_packet_ok, epl_ack_ok. destruct (m_body m); try discriminate; auto. Qed.

(* ---------- the current packet of a good sender is a good packet ---------- *)
Lemma epl_consec_length_fst : forall l f x, epl_consec f (l ++ [x]) -> fst x = f + Z.of_nat (length l).
Proof. intros l f x H. apply epl_consec_app in H. destruct H as (_ & H). cbn in H. tauto. Qed.

Lemma epl_current_packet_ok : forall cs S R sent m,
  epl_sent_ok sent -> epl_sender_ok S sent -> fst (u_last_acked S) <= last_recv_frame R ->
  epl_packet cs S = Some m -> epl_packet_ok R sent m.
Proof.
  intros cs S R sent m (Hc & _ & _) (_ & Hlen & acked & Es & Hla) Hle Hp. unfold epl_packet in Hp.
  destruct (u_pending_output S) as [|[f x] r] eqn:Epo; [discriminate|]. inversion Hp; subst m. clear Hp.
  unfold epl_packet_ok. cbn [m_body].
  rewrite Es in Hc. apply epl_consec_app in Hc. destruct Hc as (Hc1 & Hc2). cbn [epl_consec fst] in Hc2.
  exists acked, ((f, x) :: r), [], (snd (u_last_acked S)). rewrite app_nil_r.
  split; [exact Es|]. split; [discriminate|]. split; [exact Hlen|]. split; [tauto|]. split; [reflexivity|].
  destruct Hla as [(-> & Ela)|(pre & Ea)].
  - left. rewrite Ela. auto.
  - right. subst acked. pose proof (epl_consec_length_fst _ _ _ Hc1) as Ef. rewrite app_length in Hc2. cbn [length] in Hc2.
    assert (E : f - 1 = fst (u_last_acked S)) by lia. split; [|lia].
    exists pre. rewrite E. destruct (u_last_acked S); reflexivity.
Qed.

(* ---------- the sender pops ---------- *)
Lemma epl_sender_pop : forall S sent r po' la',
  0 <= f0 -> epl_sent_ok sent -> epl_sender_ok S sent -> (r = NULL \/ exists b, In (r, b) sent) ->
  pop_pending r (u_pending_output S) (u_last_acked S) = (po', la') ->
  (length po' <= length (u_pending_output S))%nat /\
  (exists acked, sent = acked ++ po' /\
     ((acked = [] /\ la' = (NULL, epl_zeros nh)) \/ (exists pre, acked = pre ++ [la']))) /\
  (la' = u_last_acked S \/ fst la' = r).
Proof.
  intros S sent r po' la' H0 (Hc & _ & _) (_ & _ & acked & Es & Hla) Hr Hp.
  assert (Hsame : (po', la') = (u_pending_output S, u_last_acked S) ->
            (length po' <= length (u_pending_output S))%nat /\
            (exists acked, sent = acked ++ po' /\
               ((acked = [] /\ la' = (NULL, epl_zeros nh)) \/ (exists pre, acked = pre ++ [la']))) /\
            (la' = u_last_acked S \/ fst la' = r)).
  { intro E. inversion E; subst. split; [lia|]. split; [exists acked; auto|auto]. }
  destruct (u_pending_output S) as [|[f x] rest] eqn:Epo.
  { cbn in Hp. apply Hsame. congruence. }
  rewrite Es in Hc. pose proof Hc as Hc0. apply epl_consec_app in Hc. destruct Hc as (Hc1 & Hc2).
  pose proof Hc2 as Hc3. cbn [epl_consec fst] in Hc3. destruct Hc3 as (Ef & _).
  destruct (Z_lt_le_dec r f) as [Hlt|Hge].
  { rewrite epl_pop_stops in Hp by (cbn [fst]; exact Hlt). apply Hsame. congruence. }
  destruct Hr as [->|(b & Hin)]; [unfold NULL in Hge; lia|].
  rewrite Es in Hin. apply in_app_iff in Hin. destruct Hin as [Hin|Hin].
  { pose proof (epl_consec_in _ _ _ Hc1 Hin). cbn [fst] in *. lia. }
  apply in_split in Hin. destruct Hin as (pre & post & Esplit). rewrite Esplit in Hc2, Hp.
  rewrite (epl_pop_consec _ pre r b post _ Hc2) in Hp. inversion Hp; subst po' la'.
  split. { rewrite Esplit, app_length. cbn [length]. lia. }
  split; [|right; reflexivity].
  exists (acked ++ pre ++ [(r, b)]). split; [rewrite Es, Esplit, <- !app_assoc; reflexivity|].
  right. exists (acked ++ pre). rewrite app_assoc. reflexivity.
Qed.

(* ---------- the receiver handles a packet of the stream ---------- *)
Lemma epl_step_message : forall now nonce m s s',
  handle_message dbg now nonce m s = Ok s' -> step dbg (OMessage now nonce m) s = Ok (s', []).
Proof.
  intros now nonce m s s' H. unfold step. cbn [step_gen].
  change (handle_message_gen current_code) with handle_message. rewrite H. reflexivity.
Qed.

Lemma epl_step_message_inv : forall now nonce m s s' out,
  step dbg (OMessage now nonce m) s = Ok (s', out) -> handle_message dbg now nonce m s = Ok s' /\ out = [].
Proof.
  intros now nonce m s s' out H. eps_unstep H.
  destruct (handle_message dbg now nonce m s); inversion H; subst. auto.
Qed.

Lemma epl_wire_size_uniform : forall n (l : list (list N)),
  Forall (fun i => length i = n) l -> wire_size l = (length l * (2 + n))%nat.
Proof.
  induction l as [|x l IH]; intro F; [reflexivity|]. inversion F as [|? ? F1 F2]; subst.
  cbn [wire_size length]. rewrite (IH F2). lia.
Qed.

Lemma epl_nth_error_consec : forall frames f j x, epl_consec f frames -> nth_error frames j = Some x ->
  fst x = f + Z.of_nat j.
Proof.
  induction frames as [|y r IH]; intros f j x H Hn; [destruct j; discriminate|]. cbn [epl_consec] in H.
  destruct H as (H1 & H2). destruct j as [|j]; cbn [nth_error] in Hn.
  - inversion Hn; subst. lia.
  - rewrite (IH _ _ _ H2 Hn). lia.
Qed.

(* what R decodes from a good packet is what S encoded *)
Lemma epl_decode_packet : forall R sent st dr start ack bytes ref ins m,
  0 <= f0 -> 4 * Z.of_nat nh <= 65535 ->
  epl_sent_ok sent -> epl_receiver_ok R sent -> m_body m = Input st dr start ack bytes -> epl_packet_ok R sent m ->
  alookup (eps_decode_frame R start) (u_recv_inputs R) = Some ref -> Codec.decode dbg ref bytes = Ok ins ->
  exists a frames c, sent = a ++ frames ++ c /\ start = f0 + Z.of_nat (length a) /\ frames <> [] /\ ins = map snd frames.
Proof.
  intros R sent st dr start ack bytes ref ins m H0 Hnh (Hc & Hlen & Hmax) (_ & _ & _ & _ & R1) Hb Hp El Ed.
  unfold epl_packet_ok in Hp. rewrite Hb in Hp.
  destruct Hp as (a & frames & c & base & Es & Hne & Hl & Hst & Hby & Hbase).
  exists a, frames, c. split; [exact Es|]. split; [exact Hst|]. split; [exact Hne|].
  assert (Hge : forall k b, In (k, b) sent -> f0 <= k).
  { intros k b X. pose proof (epl_consec_in _ _ _ Hc X). cbn [fst] in *. lia. }
  assert (Eref : ref = base).
  { apply eps_alookup_in in El. destruct (R1 _ _ El) as [(Ek & Er)|Hin].
    - (* the blank entry *)
      destruct Hbase as [(_ & ->)|((pre & Ea) & Hle)]; [exact Er|]. exfalso.
      assert (Hin : In (start - 1, base) sent) by (rewrite Es, Ea; apply in_app_iff; left; apply in_app_iff; right; left; reflexivity).
      specialize (Hge _ _ Hin). unfold eps_decode_frame in Ek.
      destruct (last_recv_frame R =? NULL) eqn:En; unfold NULL in *; lia.
    - unfold eps_decode_frame in Hin. destruct (last_recv_frame R =? NULL) eqn:En.
      + specialize (Hge _ _ Hin). unfold NULL in *. lia.
      + destruct Hbase as [(-> & _)|((pre & Ea) & Hle)].
        * specialize (Hge _ _ Hin). cbn [length] in Hst. lia.
        * assert (Hin2 : In (start - 1, base) sent) by (rewrite Es, Ea; apply in_app_iff; left; apply in_app_iff; right; left; reflexivity).
          eapply epl_consec_unique; eauto. }
  subst ref bytes.
  assert (Hfl : Forall (fun i => length i = (4 * nh)%nat) (map snd frames)).
  { apply Forall_forall. intros i Hi. apply in_map_iff in Hi. destruct Hi as (x & <- & Hx).
    rewrite Forall_forall in Hlen. apply Hlen. rewrite Es. apply in_app_iff. right. apply in_app_iff. left. exact Hx. }
  rewrite (codec_roundtrip eps_cap_ok) in Ed.
  - inversion Ed. reflexivity.
  - eapply Forall_impl; [|exact Hfl]. intros i Hi. cbn beta in Hi. lia.
  - rewrite (epl_wire_size_uniform _ _ Hfl), map_length. unfold MAX_DECODED_LEN, PENDING_OUTPUT_SIZE in *.
    assert (Hx : Z.of_nat (length frames) * (2 + 4 * Z.of_nat nh) <= 129 * 65537)
      by (apply Z.mul_le_mono_nonneg; unfold ibytes in *; lia).
    rewrite Nat2N.inj_mul. apply N2Z.inj_le. rewrite N2Z.inj_mul, !nat_N_Z. rewrite Nat2Z.inj_add, Nat2Z.inj_mul. exact Hx.
  - rewrite map_length. unfold MAX_DECODED_INPUTS, PENDING_OUTPUT_SIZE, ibytes in *. lia.
Qed.

Lemma epl_receive_packet : forall R sent m st dr start ack bytes now nonce R',
  0 <= f0 -> 4 * Z.of_nat nh <= 65535 ->
  epl_sent_ok sent -> epl_receiver_ok R sent -> m_body m = Input st dr start ack bytes -> epl_packet_ok R sent m ->
  handle_message dbg now nonce m R = Ok R' ->
  epl_receiver_ok R' sent /\ last_recv_frame R <= last_recv_frame R' /\
  (u_send_queue R' = u_send_queue R \/
   u_send_queue R' = u_send_queue R ++ [mkMsg (u_magic R) (InputAck (last_recv_frame R'))]).
Proof.
  intros R sent m st dr start ack bytes now nonce R' H0 Hnh Hsent HR Hb Hp H.
  pose proof HR as (Hst & Hinv & Hw & Hh & R1).
  pose proof (eps_input_exits _ _ _ _ _ _ _ _ _ _ _ Hb H) as X.
  destruct (eps_input_exit_effect _ _ _ _ _ _ _ _ _ X) as (A1&_&_&A4&A5&_).
  pose proof Hinv as (_ & _ & Hri). specialize (Hri Hw).
  destruct (eps_input_exit_ri _ _ _ _ _ _ _ _ _ X Hw Hri) as (Hri' & Hmono).
  split; [|split; [exact Hmono|exact (epl_input_exit_ack _ _ _ _ _ _ _ _ _ X Hri Hw)]].
  split; [congruence|]. split; [eapply eps_inv_step; [exact Hinv|apply epl_step_message; exact H]|].
  split; [unfold eps_window_ok in *; rewrite A5; exact Hw|]. split; [congruence|].
  (* the stored frames *)
  assert (Hhdr : forall s2, eps_header st dr ack (eps_touch now R) = Ok s2 -> u_recv_inputs s2 = u_recv_inputs R).
  { intros s2 Eh. destruct (eps_header_touch _ _ _ _ _ _ Eh) as (Ho & _). apply Ho. }
  assert (Hnew : forall s2 ref ins s4 b, eps_header st dr ack (eps_touch now R) = Ok s2 -> 0 <= start ->
            alookup (eps_decode_frame s2 start) (u_recv_inputs s2) = Some ref -> Codec.decode dbg ref bytes = Ok ins ->
            accept_inputs dbg start 0 ins (set_last_input_recv now s2) = Ok (b, s4) ->
            forall k v, In (k, v) (u_recv_inputs s4) -> (k = NULL /\ v = epl_zeros nh) \/ In (k, v) sent).
  { intros s2 ref ins s4 b Eh Hs El Ed Ea k v Hin.
    assert (Hmin : TS_I32_MIN <= start + 0) by (unfold TS_I32_MIN; lia).
    destruct (eps_accept_spec _ _ _ _ _ _ _ Ea Hmin) as (_ & _ & _ & D & _).
    destruct (D _ _ Hin) as [Hold|(_ & _ & j & Hj & Hk)].
    { apply R1. change (u_recv_inputs (set_last_input_recv now s2)) with (u_recv_inputs s2) in Hold.
      rewrite (Hhdr _ Eh) in Hold. exact Hold. }
    right. rewrite (Hhdr _ Eh) in El.
    assert (Edf : eps_decode_frame s2 start = eps_decode_frame R start).
    { unfold eps_decode_frame. rewrite (eps_last_recv_frame_ext _ _ (Hhdr _ Eh)). reflexivity. }
    rewrite Edf in El.
    destruct (epl_decode_packet R sent st dr start ack bytes ref ins m H0 Hnh Hsent HR Hb Hp El Ed)
      as (a & frames & c & Es & Est & Hne & ->).
    destruct Hsent as (Hc & _ & Hmax).
    rewrite nth_error_map in Hj. unfold ibytes in *. destruct (nth_error frames j) as [[kx vx]|] eqn:Ej; [|cbn in Hj; discriminate].
    cbn in Hj. inversion Hj; subst vx.
    rewrite Es in Hc. apply epl_consec_app in Hc. destruct Hc as (_ & Hc). apply epl_consec_app in Hc. destruct Hc as (Hc & _).
    pose proof (epl_nth_error_consec _ _ _ _ Hc Ej) as Ekx. cbn [fst] in Ekx.
    assert (Hjl : (j < length frames)%nat) by (apply nth_error_Some; rewrite Ej; discriminate).
    rewrite Es, !app_length in Hmax.
    rewrite (eps_i32_exact dbg (start + 0 + Z.of_nat j)) in Hk by (unfold TS_I32_MIN; lia).
    assert (Ek0 : k = start + 0 + Z.of_nat j) by congruence.
    assert (Ekk : k = kx) by (unfold ibytes in *; lia). rewrite Ekk. clear Ek0 Hk Hin Ekk.
    rewrite Es. apply in_app_iff. right. apply in_app_iff. left. exact (nth_error_In _ _ Ej). }
  destruct X as [ | |s2 Eh|s2 Eh|s2 ref Eh|s2 ref ins s4 Eh Hs El Ed Ea|s2 ref ins s4 w lo Eh Hs El Ed Ea Ew Elo].
  - exact R1.
  - rewrite (proj1 (proj2 (proj2 (proj2 (proj2 (proj2 (proj2 (proj2 (proj2 (proj2 (proj2 (proj2 (proj2 (proj2 (proj2 (proj2 (proj2 (proj2 (proj2 (proj2 (eps_touch_fields now R))))))))))))))))))))). exact R1.
  - rewrite (Hhdr _ Eh). exact R1.
  - fsimpl. rewrite (Hhdr _ Eh). exact R1.
  - fsimpl. rewrite (Hhdr _ Eh). exact R1.
  - eapply Hnew; eauto.
  - fsimpl. intros k v Hin. unfold aretain_ge in Hin. apply filter_In in Hin. destruct Hin as (Hin & _).
    eapply Hnew; eauto.
Qed.

(* ---------- anything but an Input packet: recv_inputs untouched, pending_output at most popped ---------- *)
Lemma epl_other_keeps : forall now nonce m s s',
  (forall st dr sf af bytes, m_body m <> Input st dr sf af bytes) ->
  handle_message dbg now nonce m s = Ok s' ->
  u_recv_inputs s' = u_recv_inputs s /\ u_handles s' = u_handles s /\ u_max_prediction s' = u_max_prediction s /\
  u_magic s' = u_magic s /\
  (u_state s' = u_state s \/ (u_state s = PSynchronizing /\ u_state s' = PRunning)) /\
  ((u_pending_output s', u_last_acked s') = (u_pending_output s, u_last_acked s) \/
   exists r, m_body m = InputAck r /\
     (u_pending_output s', u_last_acked s') = pop_pending r (u_pending_output s) (u_last_acked s)).
Proof.
  intros now nonce m s s' Hn H. destruct (eps_handle_other_effect _ _ _ _ _ _ Hn H) as (_ & _ & C & D).
  assert (Hcore : forall t, eps_core t = eps_core s ->
     u_recv_inputs t = u_recv_inputs s /\ u_handles t = u_handles s /\ u_max_prediction t = u_max_prediction s /\
     u_magic t = u_magic s /\ (u_pending_output t, u_last_acked t) = (u_pending_output s, u_last_acked s)).
  { intros t X. eps_core_inj X. repeat split; congruence. }
  destruct (m_body m) eqn:Eb;
    try (destruct (Hcore _ D) as (X1 & X2 & X3 & X4 & X5); repeat (split; [assumption|]); left; exact X5).
  - destruct D as [D|D]; [destruct (Hcore _ D) as (X1 & X2 & X3 & X4 & X5); repeat (split; [assumption|]); left; exact X5|].
    destruct (eps_pop_pending_output_fields ack_frame s) as (F1&_&_&F4&F5&_&_&F8). eps_core_inj D.
    assert (Em : u_magic (pop_pending_output ack_frame s) = u_magic s)
      by (unfold pop_pending_output; destruct (pop_pending _ _ _); reflexivity).
    repeat (split; [first [congruence | exact C]|]). right. exists ack_frame. split; [reflexivity|]. rewrite C6, C7. exact F1.
  - destruct D as [D|(t & D1 & D2)]; [destruct (Hcore _ D) as (X1 & X2 & X3 & X4 & X5); repeat (split; [assumption|]); left; exact X5|].
    destruct (eps_on_checksum_report_effect _ _ _ _ _ D1) as (pcs & -> & _). fsimpl.
    destruct (Hcore _ D2) as (X1 & X2 & X3 & X4 & X5). repeat (split; [assumption|]). left. exact X5.
Qed.

(* ---------- the steps of the link ---------- *)
Inductive epl_step : ep * ep * list ibytes -> ep * ep * list ibytes -> Prop :=
(* the session hands S the next frame (while S has at most PENDING_OUTPUT_SIZE unacknowledged inputs:
   the sessions disconnect an endpoint that exceeds it) *)
| epl_step_send : forall S R sent now inputs cs S' out b,
    from_inputs (u_num_players S) inputs = Ok (f0 + Z.of_nat (length sent), b) -> length b = (4 * nh)%nat ->
    f0 + Z.of_nat (length sent) <= TS_I32_MAX ->
    (length (u_pending_output S) <= N.to_nat PENDING_OUTPUT_SIZE)%nat ->
    step dbg (OSendInput now inputs cs) S = Ok (S', out) ->
    epl_step (S, R, sent) (S', R, sent ++ [(f0 + Z.of_nat (length sent), b)])
(* either endpoint is polled at any time (retry timers, quality reports, keep-alives) *)
| epl_step_poll_s : forall S R sent now nonce cs S' out,
    step dbg (OPoll now nonce cs) S = Ok (S', out) -> epl_step (S, R, sent) (S', R, sent)
| epl_step_poll_r : forall S R sent now nonce cs R' out,
    step dbg (OPoll now nonce cs) R = Ok (R', out) -> epl_step (S, R, sent) (S, R', sent)
(* the network delivers any packet ever sent, at any time, any number of times (loss = never) *)
| epl_step_deliver_sr : forall S R sent now nonce m R' out,
    In m (u_send_queue S) -> step dbg (OMessage now nonce m) R = Ok (R', out) -> epl_step (S, R, sent) (S, R', sent)
| epl_step_deliver_rs : forall S R sent now nonce m S' out,
    In m (u_send_queue R) -> step dbg (OMessage now nonce m) S = Ok (S', out) -> epl_step (S, R, sent) (S', R, sent).

Lemma epl_forall_app_new : forall (P : message -> Prop) s s',
  Forall P (u_send_queue s) -> epl_app P s s' -> Forall P (u_send_queue s').
Proof. intros P s s' F (q & E & Fq). rewrite E. apply Forall_app. auto. Qed.

Lemma epl_lrf_value_ok : forall R sent, epl_receiver_ok R sent -> epl_ack_value_ok R sent (last_recv_frame R).
Proof.
  intros R sent (_ & (_ & _ & Hri) & Hw & _ & R1). destruct (eps_ri_ok_lrf _ (Hri Hw)) as (_ & K & _).
  split; [lia|]. unfold eps_keys in K. apply in_map_iff in K. destruct K as ([k b] & Ek & K). cbn in Ek. subst k.
  destruct (R1 _ _ K) as [(E & _)|E]; [left; exact E|right; eauto].
Qed.

Theorem epl_inv_step : forall S R sent S' R' sent',
  epl_inv S R sent -> epl_step (S, R, sent) (S', R', sent') -> epl_inv S' R' sent'.
Proof.
  intros S R sent S' R' sent' HI Hstep.
  pose proof HI as (H0 & Hn1 & Hn2 & Hsent & HS & HR & H3 & M1 & M2).
  inversion Hstep; subst; clear Hstep.
  - (* send_input *)
    match goal with H : step _ (OSendInput _ _ _) _ = _ |- _ => rename H into Hstp end.
    match goal with H : from_inputs _ _ = _ |- _ => rename H into Hfrom end.
    match goal with H : length b = _ |- _ => rename H into Hlenb end.
    eps_unstep Hstp.
    destruct (send_input now inputs cs S) as [t| |] eqn:E; inversion Hstp; subst; clear Hstp.
    pose proof HS as (Srun & Slen & acked & Es & Hla).
    apply eps_send_input_effect in E. destruct E as [(X & _)|(_ & Srun' & data & Ed & Ec & _ & _ & fr & Ehd & Eq)]; [congruence|].
    rewrite Hfrom in Ed. inversion Ed; subst data. clear Ed. eps_core_inj Ec. fsimpl.
    set (x := (f0 + Z.of_nat (length sent), b)) in *.
    assert (Hsent' : epl_sent_ok (sent ++ [x])).
    { destruct Hsent as (Hc & Hl & Hm). split; [|split].
      - apply epl_consec_app. split; [exact Hc|]. cbn. auto.
      - apply Forall_app. split; [exact Hl|]. constructor; [exact Hlenb|constructor].
      - rewrite app_length. cbn [length]. lia. }
    assert (HS' : epl_sender_ok S' (sent ++ [x])).
    { split; [exact Srun'|]. rewrite C6. split; [rewrite app_length; cbn [length]; lia|].
      exists acked. split; [rewrite Es, app_assoc; reflexivity|]. rewrite C7. exact Hla. }
    assert (HR' : epl_receiver_ok R' (sent ++ [x])).
    { destruct HR as (A & B & C & D & R1). repeat (split; [assumption|]). intros k v X.
      destruct (R1 _ _ X) as [Y|Y]; [left; exact Y|right; apply in_app_iff; left; exact Y]. }
    split; [exact H0|]. split; [exact Hn1|]. split; [exact Hn2|]. split; [exact Hsent'|]. split; [exact HS'|].
    split; [exact HR'|]. split; [rewrite C7; exact H3|]. split.
    + rewrite Eq. apply Forall_app. split.
      * eapply Forall_impl; [|exact M1]. intros m Hm. eapply epl_packet_ok_mono; [|exact Hm]. lia.
      * constructor; [|constructor]. apply (epl_current_packet_ok cs S' R' (sent ++ [x])); [exact Hsent'|exact HS'|rewrite C7; exact H3|].
        rewrite (epl_hd_packet cs S' fr) by (rewrite C6; exact Ehd).
        rewrite C5, C6, C7, Srun'. cbn [pstate_eqb].
        assert (last_recv_frame S' = last_recv_frame S) as -> by (apply eps_last_recv_frame_ext; exact C9).
        reflexivity.
    + eapply Forall_impl; [|exact M2]. intros m Hm. eapply epl_ack_ok_mono; [|exact Hm]. lia.
  - (* S polls *)
    match goal with H : step _ (OPoll _ _ _) _ = _ |- _ => rename H into Hstp end. eps_unstep Hstp.
    destruct (poll now nonce cs S) as [[evs t]| |] eqn:E; inversion Hstp; subst; clear Hstp.
    pose proof (epl_poll_messages _ _ _ _ _ _ E) as Hmsg.
    apply eps_poll_effect in E. destruct E as (Ec & _ & _ & Est & _). eps_core_inj Ec.
    pose proof HS as (Srun & Slen & acked & Es & Hla).
    assert (Srun' : u_state S' = PRunning) by (destruct Est as [X|(X & _)]; congruence).
    split; [exact H0|]. split; [exact Hn1|]. split; [exact Hn2|]. split; [exact Hsent|]. split.
    { split; [exact Srun'|]. rewrite C6, C7. split; [exact Slen|]. exists acked. auto. }
    split; [exact HR|]. split; [rewrite C7; exact H3|]. split; [|exact M2].
    eapply epl_forall_app_new; [exact M1|]. destruct Hmsg as (q & Eq & Fq). exists q. split; [exact Eq|].
    eapply Forall_impl; [|exact Fq]. intros m [Hm|Hm].
    + eapply epl_current_packet_ok; eauto.
    + apply epl_plain_packet_ok. exact Hm.
  - (* R polls *)
    match goal with H : step _ (OPoll _ _ _) _ = _ |- _ => rename H into Hstp end. pose proof Hstp as Hstp0. eps_unstep Hstp.
    destruct (poll now nonce cs R) as [[evs t]| |] eqn:E; inversion Hstp; subst; clear Hstp.
    pose proof (epl_poll_messages _ _ _ _ _ _ E) as Hmsg.
    apply eps_poll_effect in E. destruct E as (Ec & _ & _ & Est & _). eps_core_inj Ec.
    pose proof HR as (Rrun & Rinv & Rw & Rh & R1).
    assert (Rrun' : u_state R' = PRunning) by (destruct Est as [X|(X & _)]; congruence).
    assert (Elrf : last_recv_frame R' = last_recv_frame R) by (apply eps_last_recv_frame_ext; exact C9).
    assert (HR' : epl_receiver_ok R' sent').
    { split; [exact Rrun'|]. split; [eapply eps_inv_step; eauto|]. split; [unfold eps_window_ok in *; rewrite C3; exact Rw|].
      split; [congruence|]. rewrite C9. exact R1. }
    split; [exact H0|]. split; [exact Hn1|]. split; [exact Hn2|]. split; [exact Hsent|]. split; [exact HS|].
    split; [exact HR'|]. split; [rewrite Elrf; exact H3|]. split.
    + eapply Forall_impl; [|exact M1]. intros m Hm. rewrite <- (app_nil_r sent'). eapply epl_packet_ok_mono; [|exact Hm]. lia.
    + assert (M2' : Forall (epl_ack_ok R' sent') (u_send_queue R)).
      { eapply Forall_impl; [|exact M2]. intros m Hm. rewrite <- (app_nil_r sent'). eapply epl_ack_ok_mono; [|exact Hm]. lia. }
      destruct Hmsg as (q & Eq & Fq). rewrite Eq. apply Forall_app. split; [exact M2'|].
      eapply Forall_impl; [|exact Fq]. intros m [Hm|Hm]; [|apply epl_plain_packet_ok; exact Hm].
      unfold epl_packet in Hm. destruct (u_pending_output R) as [|[f y] r]; [discriminate|]. inversion Hm; subst m.
      unfold epl_ack_ok. cbn [m_body]. rewrite <- Elrf. apply epl_lrf_value_ok. exact HR'.
  - (* a packet of S reaches R *)
    match goal with H : step _ (OMessage _ _ _) _ = _ |- _ => rename H into Hstp end.
    match goal with H : In _ (u_send_queue _) |- _ => rename H into Hin end.
    destruct (epl_step_message_inv _ _ _ _ _ _ Hstp) as (H & ->).
    rewrite Forall_forall in M1. specialize (M1 _ Hin).
    destruct (eps_input_body_dec m) as [(st & dr & sf & af & bytes & Eb)|Hni].
    + destruct (epl_receive_packet R sent' m st dr sf af bytes now nonce R' H0 Hn2 Hsent HR Eb M1 H) as (HR' & Hmono & Hq).
      split; [exact H0|]. split; [exact Hn1|]. split; [exact Hn2|]. split; [exact Hsent|]. split; [exact HS|].
      split; [exact HR'|]. split; [lia|]. split.
      * apply Forall_forall. intros x Hx. rewrite <- (app_nil_r sent'). eapply epl_packet_ok_mono; [exact Hmono|].
        destruct HI as (_&_&_&_&_&_&_&M1'&_). rewrite Forall_forall in M1'. apply M1'. exact Hx.
      * assert (M2' : Forall (epl_ack_ok R' sent') (u_send_queue R)).
        { eapply Forall_impl; [|exact M2]. intros y Hy. rewrite <- (app_nil_r sent'). eapply epl_ack_ok_mono; [exact Hmono|exact Hy]. }
        destruct Hq as [Hq|Hq]; rewrite Hq; [exact M2'|]. apply Forall_app. split; [exact M2'|].
        constructor; [|constructor]. unfold epl_ack_ok. cbn [m_body]. apply epl_lrf_value_ok. exact HR'.
    + destruct (epl_other_keeps _ _ _ _ _ Hni H) as (K1 & K2 & K3 & K4 & K5 & _).
      pose proof HR as (Rrun & Rinv & Rw & Rh & R1).
      assert (Elrf : last_recv_frame R' = last_recv_frame R) by (apply eps_last_recv_frame_ext; exact K1).
      assert (HR' : epl_receiver_ok R' sent').
      { split; [destruct K5 as [X|(X & _)]; congruence|]. split; [eapply eps_inv_step; eauto|].
        split; [unfold eps_window_ok in *; rewrite K3; exact Rw|]. split; [congruence|]. rewrite K1. exact R1. }
      split; [exact H0|]. split; [exact Hn1|]. split; [exact Hn2|]. split; [exact Hsent|]. split; [exact HS|].
      split; [exact HR'|]. split; [rewrite Elrf; exact H3|]. split.
      * apply Forall_forall. intros x Hx. rewrite <- (app_nil_r sent'). eapply (epl_packet_ok_mono R R'); [rewrite Elrf; lia|].
        destruct HI as (_&_&_&_&_&_&_&M1'&_). rewrite Forall_forall in M1'. apply M1'. exact Hx.
      * assert (M2' : Forall (epl_ack_ok R' sent') (u_send_queue R)).
        { eapply Forall_impl; [|exact M2]. intros y Hy. rewrite <- (app_nil_r sent'). eapply (epl_ack_ok_mono R R'); [rewrite Elrf; lia|exact Hy]. }
        destruct (epl_other_messages _ _ _ _ _ _ Hni H) as (q & Eq & Fq). rewrite Eq. apply Forall_app. split; [exact M2'|].
        eapply Forall_impl; [|exact Fq]. intros y Hy. apply epl_plain_packet_ok. exact Hy.
  - (* a packet of R reaches S *)
    match goal with H : step _ (OMessage _ _ _) _ = _ |- _ => rename H into Hstp end.
    match goal with H : In _ (u_send_queue _) |- _ => rename H into Hin end.
    destruct (epl_step_message_inv _ _ _ _ _ _ Hstp) as (H & ->).
    rewrite Forall_forall in M2. specialize (M2 _ Hin).
    pose proof HS as (Srun & Slen & acked & Es & Hla).
    (* what happens to pending_output / last_acked_input, the state and the send queue *)
    assert (Hall : u_state S' = PRunning /\
              ((u_pending_output S', u_last_acked S') = (u_pending_output S, u_last_acked S) \/
               exists r, epl_ack_value_ok R' sent' r /\
                 (u_pending_output S', u_last_acked S') = pop_pending r (u_pending_output S) (u_last_acked S)) /\
              epl_app (fun x => forall st dr sf af bytes, m_body x <> Input st dr sf af bytes) S S').
    { destruct (eps_input_body_dec m) as [(st & dr & sf & af & bytes & Eb)|Hni].
      - pose proof (eps_input_exits _ _ _ _ _ _ _ _ _ _ _ Eb H) as X.
        destruct (eps_input_exit_effect _ _ _ _ _ _ _ _ _ X) as (A1&_&_&_&_&_&_&_&_&_&A11&A12).
        split; [congruence|]. split.
        + destruct A11 as [A11|A11]; [left; exact A11|right]. exists af. split; [|exact A11].
          unfold epl_ack_ok in M2. rewrite Eb in M2. exact M2.
        + destruct A12 as [A12|(f & A12)]; [apply epl_app_refl; exact A12|].
          eapply epl_app_one; [exact A12|]. intros; discriminate.
      - destruct (epl_other_keeps _ _ _ _ _ Hni H) as (_ & _ & _ & _ & K5 & K6).
        split; [destruct K5 as [X|(X & _)]; congruence|]. split.
        + destruct K6 as [K6|(r & Eb & K6)]; [left; exact K6|right]. exists r. split; [|exact K6].
          unfold epl_ack_ok in M2. rewrite Eb in M2. exact M2.
        + destruct (epl_other_messages _ _ _ _ _ _ Hni H) as (q & Eq & Fq). exists q. split; [exact Eq|].
          eapply Forall_impl; [|exact Fq]. intros y Hy. cbn beta in Hy. destruct (m_body y); first [(cbn in Hy; discriminate Hy) | (intros; discriminate)]. }
    destruct Hall as (Srun' & Hpop & Happ).
    assert (HS' : epl_sender_ok S' sent' /\ fst (u_last_acked S') <= last_recv_frame R').
    { destruct Hpop as [Hpop|(r & (Hr1 & Hr2) & Hpop)].
      - inversion Hpop as [[Q1 Q2]]. split; [|rewrite Q2; exact H3]. split; [exact Srun'|]. rewrite Q1, Q2.
        split; [exact Slen|]. exists acked. auto.
      - symmetry in Hpop. destruct (epl_sender_pop S sent' r _ _ H0 Hsent HS Hr2 Hpop) as (L & A & B).
        split; [|destruct B as [->|B]; [exact H3|lia]]. split; [exact Srun'|]. split; [lia|exact A]. }
    destruct HS' as (HS' & H3').
    split; [exact H0|]. split; [exact Hn1|]. split; [exact Hn2|]. split; [exact Hsent|]. split; [exact HS'|].
    split; [exact HR|]. split; [exact H3'|]. split.
    + destruct Happ as (q & Eq & Fq). rewrite Eq. apply Forall_app. split; [exact M1|].
      eapply Forall_impl; [|exact Fq]. intros y Hy. unfold epl_packet_ok. destruct (m_body y) eqn:Ey; try exact I.
      exfalso. cbn beta in Hy. eapply Hy. exact Ey.
    + destruct HI as (_&_&_&_&_&_&_&_&M2'). exact M2'.
Qed.

(* ---------- every reachable link state ---------- *)
Inductive epl_steps : ep * ep * list ibytes -> ep * ep * list ibytes -> Prop :=
| epl_steps_refl : forall x, epl_steps x x
| epl_steps_cons : forall x y z, epl_step x y -> epl_steps y z -> epl_steps x z.

Theorem epl_inv_steps : forall x y, epl_steps x y ->
  epl_inv (fst (fst x)) (snd (fst x)) (snd x) -> epl_inv (fst (fst y)) (snd (fst y)) (snd y).
Proof.
  induction 1 as [|[[S R] sent] [[S1 R1] sent1] z Hs _ IH]; intro HI; [exact HI|].
  apply IH. cbn [fst snd] in *. eapply epl_inv_step; eauto.
Qed.

(* R always keeps the entry of last_recv_frame (the pruning threshold never exceeds it) *)
Lemma epl_receiver_keeps_last : forall S R sent, epl_inv S R sent ->
  exists b, alookup (last_recv_frame R) (u_recv_inputs R) = Some b /\
    -1 <= last_recv_frame R <= f0 + Z.of_nat (length sent) - 1 /\
    (last_recv_frame R = NULL \/ In (last_recv_frame R, b) sent).
Proof.
  intros S R sent (H0 & _ & _ & (Hc & _ & _) & _ & HR & _).
  pose proof HR as (_ & (_ & _ & Hri) & Hw & _ & R1). specialize (Hri Hw).
  destruct (eps_ri_ok_lrf _ Hri) as (L & K & _).
  unfold eps_keys in K. apply in_map_iff in K. destruct K as ([k b] & Ek & K). cbn in Ek. subst k.
  exists b. split; [apply eps_alookup_nodup; [apply Hri|exact K]|].
  destruct (R1 _ _ K) as [(E & _)|E].
  - split; [rewrite E; unfold NULL; lia|left; exact E].
  - pose proof (epl_consec_in _ _ _ Hc E) as X. cbn [fst] in X. split; [lia|right; exact E].
Qed.

(* ---------- a good packet at a good receiver: re-acknowledged or decoded up to its last frame ---------- *)
Lemma epl_shape_ok : forall bs, length bs = (4 * nh)%nat -> (1 <= nh)%nat -> to_player_inputs nh bs <> None.
Proof.
  intros bs Hl Hn. unfold to_player_inputs. destruct nh as [|k] eqn:En; [lia|]. rewrite <- En in *.
  assert (Em : Z.of_nat (length bs) mod Z.of_nat nh = 0) by (rewrite Hl; replace (Z.of_nat (4 * nh)) with (4 * Z.of_nat nh) by lia; apply Z_mod_mult).
  rewrite Em. cbn [Z.eqb].
  assert (Ed : Z.to_nat (Z.of_nat (length bs) / Z.of_nat nh) = 4%nat).
  { rewrite Hl. replace (Z.of_nat (4 * nh)) with (4 * Z.of_nat nh) by lia. rewrite Z_div_mult by lia. reflexivity. }
  rewrite Ed. clear Em Ed En k.
  revert bs Hl. induction nh as [|n IH]; intros bs Hl; cbn [player_values]; [discriminate|].
  destruct bs as [|b0 [|b1 [|b2 [|b3 rest]]]]; cbn [length] in Hl; try lia.
  cbn [firstn le_value skipn].
  destruct n as [|n']; [cbn [player_values]; discriminate|].
  specialize (IH ltac:(lia) rest ltac:(lia)).
  destruct (player_values (S n') 4 rest); [discriminate|congruence].
Qed.

Lemma epl_accept_lrf : forall start ins i s s',
  accept_inputs dbg start i ins s = Ok (true, s') ->
  start + i + Z.of_nat (length ins) - 1 <= TS_I32_MAX -> TS_I32_MIN <= start + i -> ins <> [] ->
  last_recv_frame s' = Z.max (last_recv_frame s) (start + i + Z.of_nat (length ins) - 1).
Proof.
  induction ins as [|inp rest IH]; intros i s s' H Hov Hlo Hne; [congruence|].
  cbn [accept_inputs] in H. cbn [length] in Hov.
  rewrite (eps_i32_exact dbg (start + i)) in H by lia.
  assert (Hrest : forall t, accept_inputs dbg start (i + 1) rest t = Ok (true, s') ->
            last_recv_frame t = Z.max (last_recv_frame s) (start + i) ->
            last_recv_frame s' = Z.max (last_recv_frame s) (start + i + Z.of_nat (length (inp :: rest)) - 1)).
  { intros t Ht Lt. destruct rest as [|x rest'].
    - cbn [accept_inputs] in Ht. inversion Ht; subst. cbn [length]. rewrite Lt. f_equal. lia.
    - rewrite (IH _ _ _ Ht) by (cbn [length] in *; try lia; discriminate). rewrite Lt. cbn [length]. lia. }
  destruct (start + i <=? last_recv_frame s) eqn:Ele.
  - apply (Hrest s H). lia.
  - apply Z.leb_gt in Ele.
    destruct (to_player_inputs (length (u_handles s)) inp) as [vals|]; [|discriminate].
    destruct (input_events (start + i) vals (u_handles s)) as [evs| |]; try discriminate.
    eapply Hrest; [exact H|]. rewrite eps_lrf_eq. fsimpl. rewrite eps_lrf_ainsert_new; [lia|]. rewrite <- eps_lrf_eq. exact Ele.
Qed.

Lemma epl_decode_packet_ok : forall R sent start bytes ref a frames c base,
  0 <= f0 -> 4 * Z.of_nat nh <= 65535 ->
  epl_sent_ok sent -> epl_receiver_ok R sent -> epl_packet_is R sent start bytes a frames c base ->
  alookup (eps_decode_frame R start) (u_recv_inputs R) = Some ref ->
  Codec.decode dbg ref bytes = Ok (map snd frames).
Proof.
  intros R sent start bytes ref a frames c base H0 Hnh (Hc & Hlen & Hmax) (_ & _ & _ & _ & R1) Hp El.
  destruct Hp as (Es & Hne & Hl & Hst & Hby & Hbase).
  assert (Hge : forall k b, In (k, b) sent -> f0 <= k).
  { intros k b X. pose proof (epl_consec_in _ _ _ Hc X). cbn [fst] in *. lia. }
  assert (Eref : ref = base).
  { apply eps_alookup_in in El. destruct (R1 _ _ El) as [(Ek & Er)|Hin].
    - destruct Hbase as [(_ & ->)|((pre & Ea) & Hle)]; [exact Er|]. exfalso.
      assert (Hin : In (start - 1, base) sent) by (rewrite Es, Ea; apply in_app_iff; left; apply in_app_iff; right; left; reflexivity).
      specialize (Hge _ _ Hin). unfold eps_decode_frame in Ek.
      destruct (last_recv_frame R =? NULL) eqn:En; unfold NULL in *; lia.
    - unfold eps_decode_frame in Hin. destruct (last_recv_frame R =? NULL) eqn:En.
      + specialize (Hge _ _ Hin). unfold NULL in *. lia.
      + destruct Hbase as [(-> & _)|((pre & Ea) & Hle)].
        * specialize (Hge _ _ Hin). cbn [length] in Hst. lia.
        * assert (Hin2 : In (start - 1, base) sent) by (rewrite Es, Ea; apply in_app_iff; left; apply in_app_iff; right; left; reflexivity).
          eapply epl_consec_unique; eauto. }
  subst ref bytes.
  assert (Hfl : Forall (fun i => length i = (4 * nh)%nat) (map snd frames)).
  { apply Forall_forall. intros i Hi. apply in_map_iff in Hi. destruct Hi as (x & <- & Hx).
    rewrite Forall_forall in Hlen. apply Hlen. rewrite Es. apply in_app_iff. right. apply in_app_iff. left. exact Hx. }
  apply (codec_roundtrip eps_cap_ok).
  - eapply Forall_impl; [|exact Hfl]. intros i Hi. cbn beta in Hi. lia.
  - rewrite (epl_wire_size_uniform _ _ Hfl), map_length. unfold MAX_DECODED_LEN, PENDING_OUTPUT_SIZE in *.
    assert (Hx : Z.of_nat (length frames) * (2 + 4 * Z.of_nat nh) <= 129 * 65537)
      by (apply Z.mul_le_mono_nonneg; unfold ibytes in *; lia).
    rewrite Nat2N.inj_mul. apply N2Z.inj_le. rewrite N2Z.inj_mul, !nat_N_Z. rewrite Nat2Z.inj_add, Nat2Z.inj_mul. exact Hx.
  - rewrite map_length. unfold MAX_DECODED_INPUTS, PENDING_OUTPUT_SIZE, ibytes in *. lia.
Qed.

(* the compatibility of the two configurations that progress (not safety) needs: R accepts S's packets *)
Definition epl_accepts (R : ep) (m : message) (st : list status) : Prop :=
  passes_filters R m = true /\ Z.of_nat (length st) = u_num_players R.

Lemma epl_handle_good_packet : forall R sent m st start ack bytes now nonce a frames c base,
  0 <= f0 -> (1 <= nh)%nat -> 4 * Z.of_nat nh <= 65535 ->
  epl_sent_ok sent -> epl_receiver_ok R sent -> m_body m = Input st false start ack bytes ->
  epl_packet_is R sent start bytes a frames c base -> epl_accepts R m st ->
  exists R1, handle_message dbg now nonce m R = Ok R1 /\
    ((alookup (start - 1) (u_recv_inputs R) = None /\ 0 <= start <= last_recv_frame R /\
      u_recv_inputs R1 = u_recv_inputs R /\
      u_send_queue R1 = u_send_queue R ++ [mkMsg (u_magic R) (InputAck (last_recv_frame R))]) \/
     (last_recv_frame R1 = Z.max (last_recv_frame R) (start + Z.of_nat (length frames) - 1) /\
      u_send_queue R1 = u_send_queue R ++ [mkMsg (u_magic R) (InputAck (last_recv_frame R1))])).
Proof.
  intros R sent m st start ack bytes now nonce a frames c base H0 Hn1 Hn2 Hsent HR Hb Hp (Hpass & Hcs).
  pose proof HR as (Rrun & Rinv & Rw & Rh & R1). pose proof Rinv as (Rwf & _ & Rri). specialize (Rri Rw).
  pose proof Hsent as (Hc & Hlen & Hmax).
  assert (Hge : forall k b, In (k, b) sent -> f0 <= k <= f0 + Z.of_nat (length sent) - 1).
  { intros k b X. pose proof (epl_consec_in _ _ _ Hc X). cbn [fst] in *. lia. }
  destruct (eps_ri_ok_lrf _ Rri) as (L & K & Mx).
  (* the frames of the packet *)
  pose proof Hp as (Es & Hne & Hl & Hst & Hby & Hbase).
  assert (Hs : 0 <= start) by lia.
  assert (Hend : start + Z.of_nat (length frames) - 1 <= TS_I32_MAX).
  { rewrite Es, !app_length in Hmax. lia. }
  rewrite (eps_handle_input_ok_header _ _ _ _ _ _ _ _ _ _ Hb Hpass (or_intror Hcs) Hs).
  destruct (eps_header_ok_touch now st false ack R Rwf (or_intror Hcs)) as (s2 & Eh). rewrite Eh.
  destruct (eps_header_touch _ _ _ _ _ _ Eh) as (Ho & _).
  destruct (eps_header_only_lrf _ _ _ _ _ _ Ho) as (Elrf & Edf).
  assert (Eri : u_recv_inputs s2 = u_recv_inputs R) by apply Ho.
  assert (Esq : u_send_queue s2 = u_send_queue R) by apply Ho.
  assert (Emg : u_magic s2 = u_magic R) by apply Ho.
  assert (Emp : u_max_prediction s2 = u_max_prediction R) by apply Ho.
  assert (Ehd : u_handles s2 = u_handles R) by apply Ho.
  unfold eps_body. cbv zeta. fold (eps_decode_frame s2 start). rewrite Edf, Eri, Elrf.
  destruct (alookup (eps_decode_frame R start) (u_recv_inputs R)) as [ref|] eqn:El.
  - (* decoded *)
    pose proof (epl_decode_packet_ok R sent start bytes ref a frames c base H0 Hn2 Hsent HR Hp El) as Ed.
    rewrite Ed. set (s3 := set_last_input_recv now s2).
    assert (Hmin : TS_I32_MIN <= start + 0) by (unfold TS_I32_MIN; lia).
    destruct (eps_accept_total dbg start (map snd frames) 0 s3) as (bb & s4 & Eacc);
      [intros _; rewrite map_length; unfold ibytes in *; lia|exact Hmin|].
    rewrite Eacc.
    assert (bb = true).
    { destruct bb; [reflexivity|]. exfalso.
      destruct (eps_accept_false _ _ _ _ _ _ Eacc) as (pre & bad & post & fr & E1 & E2 & _ & _ & E5).
      destruct (eps_accept_spec _ _ _ _ _ _ _ E2 Hmin) as (A & _). eps_others_inj A.
      change (u_handles s3) with (u_handles s2) in O2. rewrite O2, Ehd, Rh in E5.
      apply (epl_shape_ok bad); [|exact Hn1|exact E5].
      assert (Hin : In bad (map snd frames)) by (rewrite E1; apply in_app_iff; right; left; reflexivity).
      apply in_map_iff in Hin. destruct Hin as (x & <- & Hx). rewrite Forall_forall in Hlen. apply Hlen.
      rewrite Es. apply in_app_iff. right. apply in_app_iff. left. exact Hx. }
    subst bb.
    assert (Hok3 : eps_ri_ok s3) by (eapply eps_ri_ok_ext; [|exact Rri]; exact Eri).
    assert (Hw3 : eps_window_ok s3) by (unfold eps_window_ok in *; change (u_max_prediction s3) with (u_max_prediction s2); rewrite Emp; exact Rw).
    assert (El3 : alookup (eps_decode_frame s3 start) (u_recv_inputs s3) = Some ref).
    { change (u_recv_inputs s3) with (u_recv_inputs s2). rewrite Eri.
      assert (eps_decode_frame s3 start = eps_decode_frame R start) as ->; [|exact El].
      unfold eps_decode_frame. change (last_recv_frame s3) with (last_recv_frame s2). rewrite Elrf. reflexivity. }
    change (last_recv_frame (send_input_ack now s4)) with (last_recv_frame s4).
    change (u_max_prediction (send_input_ack now s4)) with (u_max_prediction s4).
    change (u_recv_inputs (send_input_ack now s4)) with (u_recv_inputs s4).
    destruct (eps_accept_spec _ _ _ _ _ _ _ Eacc Hmin) as (A & _). eps_others_inj A.
    pose proof (eps_accept_ri_ok _ _ _ _ _ _ Eacc Hs Hok3) as Hok4.
    destruct (eps_ri_ok_lrf _ Hok4) as (L4 & _).
    change (u_max_prediction s3) with (u_max_prediction s2) in O20.
    assert (Hw4 : 0 <= u_max_prediction s4 <= EPS_MAX_WINDOW) by (rewrite O20, Emp; exact Rw).
    unfold EPS_MAX_WINDOW in Hw4.
    rewrite (eps_wrap_small (u_max_prediction s4)) by (unfold TS_I32_MIN, TS_I32_MAX; lia).
    rewrite (eps_i32_exact dbg (2 * u_max_prediction s4)) by (unfold TS_I32_MIN, TS_I32_MAX; lia).
    rewrite (eps_i32_exact dbg (last_recv_frame s4 - 2 * u_max_prediction s4)) by (unfold TS_I32_MIN, TS_I32_MAX in *; lia).
    eexists. split; [reflexivity|]. right.
    destruct (eps_complete_exit_ri dbg now start (map snd frames) s3 s4 (2 * u_max_prediction s4)
                (last_recv_frame s4 - 2 * u_max_prediction s4) ref Hok3 Hw3 Hs El3 Eacc) as (_ & B & _).
    { rewrite (eps_wrap_small (u_max_prediction s4)) by (unfold TS_I32_MIN, TS_I32_MAX; lia).
      apply eps_i32_exact. unfold TS_I32_MIN, TS_I32_MAX; lia. }
    { apply eps_i32_exact. unfold TS_I32_MIN, TS_I32_MAX in *; lia. }
    cbv zeta in B. rewrite B. split.
    + assert (Elr : last_recv_frame s4 = Z.max (last_recv_frame s3) (start + 0 + Z.of_nat (length (map snd frames)) - 1)).
      { apply (epl_accept_lrf start (map snd frames) 0 s3 s4 Eacc).
        - rewrite map_length. unfold ibytes in *. lia.
        - exact Hmin.
        - destruct frames; [congruence|discriminate]. }
      rewrite Elr, map_length. change (last_recv_frame s3) with (last_recv_frame s2). rewrite Elrf, Z.add_0_r. reflexivity.
    + fsimpl. rewrite O3, O15. change (u_send_queue s3) with (u_send_queue s2). change (u_magic s3) with (u_magic s2).
      rewrite Esq, Emg. reflexivity.
  - (* the base is gone: the packet is stale, re-acknowledge *)
    assert (Hstale : start <= last_recv_frame R /\ alookup (start - 1) (u_recv_inputs R) = None).
    { unfold eps_decode_frame in El. destruct (last_recv_frame R =? NULL) eqn:En.
      - (* nothing received yet: the blank entry is there *)
        exfalso. apply Z.eqb_eq in En. rewrite En in K. apply eps_alookup_none in El. contradiction.
      - split; [|exact El]. apply Z.eqb_neq in En.
        destruct Hbase as [(-> & _)|((pre & Ea) & Hle)].
        + (* a packet from the very beginning: last_recv_frame is a frame of the stream *)
          cbn [length] in Hst. unfold eps_keys in K. apply in_map_iff in K. destruct K as ([k b] & Ek & K). cbn in Ek.
          destruct (R1 _ _ K) as [(E & _)|E]; [congruence|]. specialize (Hge _ _ E). lia.
        + destruct (Z.eq_dec (start - 1) (last_recv_frame R)) as [Eq|Nq]; [|lia].
          exfalso. rewrite <- Eq in K. apply eps_alookup_none in El. contradiction. }
    destruct Hstale as (Hle & Hnone).
    assert ((start <=? last_recv_frame R) = true) as -> by lia.
    eexists. split; [reflexivity|]. left. split; [exact Hnone|]. split; [lia|]. fsimpl. split; [exact Eri|]. rewrite Esq, Emg, Elrf. reflexivity.
Qed.

(* ---------- the exchange: retransmission, answer, next packet ---------- *)
Lemma epl_current_packet_is : forall cs S R sent m,
  epl_sent_ok sent -> epl_sender_ok S sent -> fst (u_last_acked S) <= last_recv_frame R ->
  epl_packet cs S = Some m ->
  exists start bytes acked, m = mkMsg (u_magic S) (Input cs false start (last_recv_frame S) bytes) /\
    sent = acked ++ u_pending_output S /\ u_pending_output S <> [] /\
    epl_packet_is R sent start bytes acked (u_pending_output S) [] (snd (u_last_acked S)).
Proof.
  intros cs S R sent m (Hc & _ & _) (Srun & Hlen & acked & Es & Hla) Hle Hp. unfold epl_packet in Hp.
  destruct (u_pending_output S) as [|[f x] r] eqn:Epo; [discriminate|]. inversion Hp; subst m. clear Hp.
  rewrite Srun. cbn [pstate_eqb].
  exists f, (Codec.encode (snd (u_last_acked S)) (map snd ((f, x) :: r))), acked.
  split; [reflexivity|]. split; [exact Es|]. split; [discriminate|].
  rewrite Es in Hc. apply epl_consec_app in Hc. destruct Hc as (Hc1 & Hc2). cbn [epl_consec fst] in Hc2.
  unfold epl_packet_is. rewrite app_nil_r.
  split; [exact Es|]. split; [discriminate|]. split; [exact Hlen|]. split; [tauto|]. split; [reflexivity|].
  destruct Hla as [(-> & Ela)|(pre & Ea)].
  - left. rewrite Ela. auto.
  - right. subst acked. pose proof (epl_consec_length_fst _ _ _ Hc1) as Ef. rewrite app_length in Hc2. cbn [length] in Hc2.
    assert (E : f - 1 = fst (u_last_acked S)) by lia. split; [|lia].
    exists pre. rewrite E. destruct (u_last_acked S); reflexivity.
Qed.

Lemma epl_passes_running : forall X m, u_state X = PRunning ->
  (u_remote_magic X = 0 \/ u_remote_magic X = m_magic m) -> passes_filters X m = true.
Proof.
  intros X m Hr Hm. unfold passes_filters. rewrite Hr. cbn [pstate_eqb negb andb orb].
  destruct Hm as [-> | ->]; [reflexivity|]. rewrite Z.eqb_refl. cbn [negb andb]. rewrite andb_false_r. reflexivity.
Qed.

(* the configurations fit: each side accepts the other's packets (magic numbers), and S is polled with as many
   connection statuses as R expects *)
Definition epl_compat (S R : ep) (cs : list status) : Prop :=
  (u_remote_magic R = 0 \/ u_remote_magic R = u_magic S) /\
  (u_remote_magic S = 0 \/ u_remote_magic S = u_magic R) /\
  Z.of_nat (length cs) = u_num_players R.

(* what R queued while handling one packet *)
Definition epl_reply (R R1 : ep) : option message := nth_error (u_send_queue R1) (length (u_send_queue R)).

(* S's current packet reaches R; R's answer (if any) reaches S; S's next packet (if any) reaches R *)
Definition epl_exchange (t1 t2 t3 : Z) (cs : list status) (S R : ep) : res (ep * ep) :=
  match epl_packet cs S with
  | None => Ok (S, R)
  | Some P =>
    match handle_message dbg t1 0 P R with
    | Ok R1 =>
      match (match epl_reply R R1 with Some A => handle_message dbg t2 0 A S | None => Ok S end) with
      | Ok S1 =>
        match epl_packet cs S1 with
        | None => Ok (S1, R1)
        | Some P' =>
          match handle_message dbg t3 0 P' R1 with Ok R2 => Ok (S1, R2) | Err => Err | Panic => Panic end
        end
      | Err => Err
      | Panic => Panic
      end
    | Err => Err
    | Panic => Panic
    end
  end.

Lemma epl_last_frame : forall sent acked po, epl_consec f0 sent -> sent = acked ++ po -> po <> [] ->
  exists pre b, po = pre ++ [(f0 + Z.of_nat (length sent) - 1, b)].
Proof.
  intros sent acked po Hc Es Hne. destruct (exists_last Hne) as (pre & [k b] & Ep). exists pre, b. rewrite Ep. repeat f_equal.
  rewrite Es, Ep, app_assoc in Hc. pose proof (epl_consec_length_fst _ _ _ Hc) as E. cbn [fst] in E.
  rewrite Es, Ep, !app_length. cbn [length]. rewrite app_length in E. lia.
Qed.

Lemma epl_handle_ack : forall now nonce X r mg,
  passes_filters X (mkMsg mg (InputAck r)) = true ->
  exists X1, handle_message dbg now nonce (mkMsg mg (InputAck r)) X = Ok X1 /\
    (u_pending_output X1, u_last_acked X1) = pop_pending r (u_pending_output X) (u_last_acked X) /\
    u_state X1 = u_state X /\ u_magic X1 = u_magic X /\ u_recv_inputs X1 = u_recv_inputs X /\
    u_remote_magic X1 = u_remote_magic X.
Proof.
  intros now nonce X r mg Hp. rewrite eps_handle_unfold, Hp. cbn [negb m_body]. cbv zeta.
  eexists. split; [reflexivity|].
  pose proof (eps_touch_fields now X) as T. unfold eps_only_touched in T.
  destruct T as (T1&T2&T3&T4&T5&T6&T7&T8&T9&T10&T11&T12&T13&T14&T15&T16&T17&T18&T19&T20&_).
  destruct (eps_pop_pending_output_fields r (eps_touch now X)) as (F1 & _ & _ & F4 & _).
  rewrite T17, T18 in F1. split; [exact F1|].
  assert (G : forall Y, u_state (pop_pending_output r Y) = u_state Y /\ u_magic (pop_pending_output r Y) = u_magic Y /\
                        u_recv_inputs (pop_pending_output r Y) = u_recv_inputs Y /\
                        u_remote_magic (pop_pending_output r Y) = u_remote_magic Y)
    by (intro Y; unfold pop_pending_output; destruct (pop_pending r (u_pending_output Y) (u_last_acked Y)); fsimpl; repeat split).
  destruct (G (eps_touch now X)) as (G1 & G2 & G3 & G4). rewrite G1, G2, G3, G4, T4, T14, T20, T15. auto.
Qed.

Theorem epl_exchange_reaches_newest : forall S R sent cs t1 t2 t3,
  epl_inv S R sent -> epl_compat S R cs -> u_pending_output S <> [] ->
  exists S1 R2, epl_exchange t1 t2 t3 cs S R = Ok (S1, R2) /\
    last_recv_frame R2 = f0 + Z.of_nat (length sent) - 1.
Proof.
  intros S R sent cs t1 t2 t3 HI (Cm1 & Cm2 & Ccs) Hpo.
  pose proof HI as (H0 & Hn1 & Hn2 & Hsent & HS & HR & H3 & M1 & M2).
  pose proof HS as (Srun & Slen & acked0 & Es0 & Hla0). pose proof HR as (Rrun & Rinv & Rw & Rh & R1).
  pose proof Hsent as (Hc & Hlen & Hmax).
  unfold epl_exchange.
  destruct (epl_packet cs S) as [P|] eqn:EP.
  2:{ unfold epl_packet in EP. destruct (u_pending_output S) as [|[f x] r]; [congruence|discriminate]. }
  destruct (epl_current_packet_is cs S R sent P Hsent HS H3 EP) as (start & bytes & acked & -> & Es & _ & Pis).
  assert (Pok : epl_packet_ok R sent (mkMsg (u_magic S) (Input cs false start (last_recv_frame S) bytes))).
  { unfold epl_packet_ok. cbn [m_body]. exists acked, (u_pending_output S), [], (snd (u_last_acked S)). exact Pis. }
  assert (Pacc : epl_accepts R (mkMsg (u_magic S) (Input cs false start (last_recv_frame S) bytes)) cs).
  { split; [apply epl_passes_running; [exact Rrun|exact Cm1]|exact Ccs]. }
  set (P := mkMsg (u_magic S) (Input cs false start (last_recv_frame S) bytes)) in *.
  destruct (epl_handle_good_packet R sent P cs start (last_recv_frame S) bytes t1 0 acked (u_pending_output S) [] _
              H0 Hn1 Hn2 Hsent HR eq_refl Pis Pacc) as (R1' & EH & Hcase).
  rewrite EH.
  destruct (epl_receive_packet R sent P cs false start (last_recv_frame S) bytes t1 0 R1' H0 Hn2 Hsent HR eq_refl Pok EH)
    as (HR1 & Hmono & _).
  pose proof Pis as (_ & _ & _ & Hst & _).
  (* the newest frame is the last entry of pending_output *)
  destruct (epl_last_frame sent acked (u_pending_output S) Hc Es Hpo) as (pre & bn & Epo).
  set (newest := f0 + Z.of_nat (length sent) - 1) in *.
  assert (Hend : start + Z.of_nat (length (u_pending_output S)) - 1 = newest).
  { subst newest. rewrite Es, app_length. lia. }
  assert (Hlrf_le : last_recv_frame R <= newest).
  { destruct (epl_receiver_keeps_last S R sent HI) as (_ & _ & X & _). exact (proj2 X). }
  assert (HpassS : forall r, passes_filters S (mkMsg (u_magic R) (InputAck r)) = true).
  { intro r. apply epl_passes_running; [exact Srun|exact Cm2]. }
  destruct Hcase as [(Hnone & Hrange & Eri & Esq)|(Elrf1 & Esq)].
  - (* stale base: R re-acknowledges last_recv_frame(R) =: r *)
    set (r := last_recv_frame R) in *.
    assert (Erep : epl_reply R R1' = Some (mkMsg (u_magic R) (InputAck r))).
    { unfold epl_reply. rewrite Esq, nth_error_app2, Nat.sub_diag by lia. reflexivity. }
    rewrite Erep.
    destruct (epl_handle_ack t2 0 S r (u_magic R) (HpassS r)) as (S1 & ES1 & Epop & Est1 & Emg1 & Eri1 & Erm1).
    rewrite ES1.
    (* r is a pending frame *)
    destruct (epl_receiver_keeps_last S R sent HI) as (br & _ & _ & Hin).
    destruct Hin as [Hin|Hin]; [unfold NULL in *; fold r in Hin; lia|]. fold r in Hin.
    rewrite Es in Hin. apply in_app_iff in Hin. destruct Hin as [Hin|Hin].
    { rewrite Es in Hc. apply epl_consec_app in Hc. destruct Hc as (Hc1 & _).
      pose proof (epl_consec_in _ _ _ Hc1 Hin) as X. cbn [fst] in X. lia. }
    apply in_split in Hin. destruct Hin as (p1 & post & Esplit).
    assert (Hcpo : epl_consec start (u_pending_output S)).
    { rewrite Es in Hc. apply epl_consec_app in Hc. destruct Hc as (_ & Hc2). rewrite Hst. exact Hc2. }
    rewrite Esplit in Epop, Hcpo. rewrite (epl_pop_consec _ p1 r br post _ Hcpo) in Epop. inversion Epop as [[Q1 Q2]].
    assert (Elrf1 : last_recv_frame R1' = r) by (apply eps_last_recv_frame_ext; exact Eri).
    destruct post as [|[f1 x1] post'] eqn:Epost.
    + (* r was the newest frame *)
      unfold epl_packet. rewrite Q1. eexists. eexists. split; [reflexivity|]. rewrite Elrf1.
      rewrite Esplit, app_length in Hend. cbn [length] in Hend.
      apply epl_consec_app in Hcpo. destruct Hcpo as (_ & Hcpo). cbn [epl_consec fst] in Hcpo. lia.
    + (* S's next packet starts at r + 1, encoded against the bytes of r, which R still keeps *)
      assert (HS1 : epl_sender_ok S1 sent).
      { split; [congruence|]. rewrite Q1, Q2. split; [rewrite Esplit, app_length in Slen; cbn [length] in *; lia|].
        exists (acked ++ p1 ++ [(r, br)]). split; [rewrite Es, Esplit, <- !app_assoc; reflexivity|].
        right. exists (acked ++ p1). rewrite app_assoc. reflexivity. }
      assert (H31 : fst (u_last_acked S1) <= last_recv_frame R1') by (rewrite Q2, Elrf1; cbn [fst]; lia).
      destruct (epl_packet cs S1) as [P'|] eqn:EP'.
      2:{ unfold epl_packet in EP'. rewrite Q1 in EP'. discriminate. }
      destruct (epl_current_packet_is cs S1 R1' sent P' Hsent HS1 H31 EP') as (start' & bytes' & acked' & -> & Es' & _ & Pis').
      assert (Pacc' : epl_accepts R1' (mkMsg (u_magic S1) (Input cs false start' (last_recv_frame S1) bytes')) cs).
      { destruct HR1 as (Rrun1 & _). split.
        - apply epl_passes_running; [exact Rrun1|]. cbn [m_magic]. rewrite Emg1.
          assert (u_remote_magic R1' = u_remote_magic R) as ->; [|exact Cm1].
          pose proof (eps_input_exits dbg t1 0 P cs false start (last_recv_frame S) bytes R R1' eq_refl EH) as X.
          destruct (eps_input_exit_effect _ _ _ _ _ _ _ _ _ X) as (_&_&_&_&_&_&_&A8&_). exact A8.
        - pose proof (eps_input_exits dbg t1 0 P cs false start (last_recv_frame S) bytes R R1' eq_refl EH) as X.
          destruct (eps_input_exit_effect _ _ _ _ _ _ _ _ _ X) as (_&_&A3&_). rewrite A3. exact Ccs. }
      set (P' := mkMsg (u_magic S1) (Input cs false start' (last_recv_frame S1) bytes')) in *.
      destruct (epl_handle_good_packet R1' sent P' cs start' (last_recv_frame S1) bytes' t3 0 acked' (u_pending_output S1) [] _
                  H0 Hn1 Hn2 Hsent HR1 eq_refl Pis' Pacc') as (R2 & EH2 & Hcase2).
      rewrite EH2. exists S1, R2. split; [reflexivity|].
      pose proof Pis' as (_ & _ & _ & Hst' & _).
      assert (Hst2 : start' = r + 1).
      { rewrite Q1 in Es'. assert (Hl : length acked' = length (acked ++ p1 ++ [(r, br)])).
        { apply (f_equal (@length _)) in Es'. rewrite Es, Esplit, !app_length in Es'. rewrite !app_length. cbn [length] in *. lia. }
        rewrite Hst', Hl, !app_length. cbn [length].
        apply epl_consec_app in Hcpo. destruct Hcpo as (_ & Hcpo). cbn [epl_consec fst] in Hcpo. lia. }
      assert (Hend2 : start' + Z.of_nat (length (u_pending_output S1)) - 1 = newest).
      { rewrite Q1, Hst2. rewrite Esplit, app_length in Hend. cbn [length] in *.
        apply epl_consec_app in Hcpo. destruct Hcpo as (_ & Hcpo). cbn [epl_consec fst] in Hcpo. lia. }
      destruct Hcase2 as [(Hnone2 & _)|(Elrf2 & _)].
      * (* impossible: r = last_recv_frame(R1) is a key of recv_inputs(R1) *)
        exfalso. rewrite Hst2 in Hnone2. replace (r + 1 - 1) with r in Hnone2 by lia.
        pose proof HR1 as (_ & (_ & _ & Hri1) & Hw1 & _). destruct (eps_ri_ok_lrf _ (Hri1 Hw1)) as (_ & K1 & _).
        rewrite Elrf1 in K1. apply eps_alookup_none in Hnone2. contradiction.
      * rewrite Elrf2, Hend2, Elrf1. lia.
  - (* decoded at once: R has everything up to the newest frame and says so *)
    assert (Elrf : last_recv_frame R1' = newest) by (rewrite Elrf1, Hend; lia).
    assert (Erep : epl_reply R R1' = Some (mkMsg (u_magic R) (InputAck newest))).
    { unfold epl_reply. rewrite Esq, nth_error_app2, Nat.sub_diag by lia. cbn [nth_error]. rewrite Elrf. reflexivity. }
    rewrite Erep.
    destruct (epl_handle_ack t2 0 S newest (u_magic R) (HpassS newest)) as (S1 & ES1 & Epop & _).
    rewrite ES1.
    assert (Hcpo : epl_consec start (u_pending_output S)).
    { rewrite Es in Hc. apply epl_consec_app in Hc. destruct Hc as (_ & Hc2). rewrite Hst. exact Hc2. }
    rewrite Epo in Epop, Hcpo. rewrite (epl_pop_consec _ pre newest bn [] _ Hcpo) in Epop. inversion Epop as [[Q1 Q2]].
    unfold epl_packet. rewrite Q1. exists S1, R1'. split; [reflexivity|exact Elrf].
Qed.

(* S's retry timer: a poll more than RUNNING_RETRY_INTERVAL after the last input packet was sent or received
   queues the current packet again *)
Lemma epl_retry_fires : forall now nonce cs S out S' P,
  u_state S = PRunning -> u_last_input_recv S + RUNNING_RETRY_INTERVAL < now ->
  poll now nonce cs S = Ok (out, S') -> epl_packet cs S = Some P ->
  In P (u_send_queue S') /\ epl_packet cs S' = Some P.
Proof.
  intros now nonce cs S out S' P Hr Hdue H EP. split.
  - unfold poll, poll_gen in H. cbv zeta in H. rewrite Hr in H.
    unfold poll_running_gen in H. cbn [fix_quiet_dead current_code] in H. cbv zeta in H.
    assert ((u_last_input_recv S + RUNNING_RETRY_INTERVAL <? now) = true) as E0 by lia. rewrite E0 in H.
    destruct (send_pending_output now cs S) as [t| |] eqn:Et; try discriminate.
    apply epl_send_pending_output_packet in Et. rewrite EP in Et. destruct Et as (Q & _).
    set (s1 := set_last_input_recv now t) in *.
    assert (A1 : In P (u_send_queue s1)) by (subst s1; fsimpl; rewrite Q; apply in_app_iff; right; left; reflexivity).
    clearbody s1.
    match type of H with match match ?X with _ => _ end with _ => _ end = _ => destruct X as [s2| |] eqn:E2; try discriminate end.
    assert (A2 : In P (u_send_queue s2)).
    { destruct (u_last_quality_report s1 + QUALITY_REPORT_INTERVAL <? now).
      - unfold send_quality_report in E2. cbv zeta in E2.
        destruct (ts_report_frame_advantage _) as [adv| |]; try discriminate. inversion E2; subst s2. fsimpl.
        apply in_app_iff. left. exact A1.
      - inversion E2; subst. exact A1. }
    set (s3 := if u_last_send_time s2 + KEEP_ALIVE_INTERVAL <? now then send_keep_alive now s2 else s2) in *.
    assert (A3 : In P (u_send_queue s3)).
    { subst s3. destruct (u_last_send_time s2 + KEEP_ALIVE_INTERVAL <? now); [fsimpl; apply in_app_iff; left|]; exact A2. }
    clearbody s3. inversion H; subst S'.
    destruct (negb (u_notify_sent s3) && negb (u_event_sent s3) && (u_last_recv_time s3 + u_notify_start s3 <? now));
      fsimpl; destruct (negb (u_event_sent _) && _); fsimpl; exact A3.
  - apply eps_poll_effect in H. destruct H as (Ec & _ & _ & Est & _). eps_core_inj Ec.
    rewrite <- EP. unfold epl_packet. rewrite C6, C7, C5.
    assert (last_recv_frame S' = last_recv_frame S) as -> by (apply eps_last_recv_frame_ext; exact C9).
    destruct Est as [-> |(X & _)]; [reflexivity|congruence].
Qed.

(* ---------- where the link starts ---------- *)
Lemma epl_inv_initial : forall S R,
  0 <= f0 -> (1 <= nh)%nat -> 4 * Z.of_nat nh <= 65535 -> f0 - 1 <= TS_I32_MAX ->
  u_state S = PRunning -> u_pending_output S = [] -> u_last_acked S = (NULL, epl_zeros nh) ->
  u_state R = PRunning -> eps_inv R -> eps_window_ok R -> length (u_handles R) = nh ->
  u_recv_inputs R = [(NULL, epl_zeros nh)] ->
  Forall (fun m => epl_plain (m_body m) = true) (u_send_queue S) ->
  Forall (fun m => epl_plain (m_body m) = true) (u_send_queue R) ->
  epl_inv S R [].
Proof.
  intros S R H0 Hn1 Hn2 Hm Srun Spo Sla Rrun Rinv Rw Rh Rri FS FR.
  split; [exact H0|]. split; [exact Hn1|]. split; [exact Hn2|]. split.
  { split; [exact I|]. split; [constructor|]. cbn [length]. lia. }
  split. { split; [exact Srun|]. rewrite Spo. split; [cbn; lia|]. exists []. split; [reflexivity|]. left. auto. }
  split. { split; [exact Rrun|]. split; [exact Rinv|]. split; [exact Rw|]. split; [exact Rh|].
           rewrite Rri. intros k b [X|[]]. inversion X; subst. left. auto. }
  split. { rewrite Sla, eps_lrf_eq, Rri. cbn. lia. }
  split; (eapply Forall_impl; [|eassumption]); intros m Hp; apply epl_plain_packet_ok; exact Hp.
Qed.

End Link.

(* ====================================================================================== *)
(* (d) the handshake makes progress                                                        *)
(* ====================================================================================== *)
Lemma epl_sync_request_answered : forall dbg now nonce B mg n,
  passes_filters B (mkMsg mg (SyncRequest n)) = true ->
  exists B', handle_message dbg now nonce (mkMsg mg (SyncRequest n)) B = Ok B' /\
    u_send_queue B' = u_send_queue B ++ [mkMsg (u_magic B) (SyncReply n)] /\
    u_state B' = u_state B /\ u_magic B' = u_magic B /\ u_remote_magic B' = u_remote_magic B.
Proof.
  intros dbg now nonce B mg n Hp. rewrite eps_handle_unfold, Hp. cbn [negb m_body]. cbv zeta.
  eexists. split; [reflexivity|].
  pose proof (eps_touch_fields now B) as T. unfold eps_only_touched in T.
  destruct T as (T1&T2&T3&T4&T5&T6&T7&T8&T9&T10&T11&T12&T13&T14&T15&_). fsimpl. rewrite T3, T14. auto.
Qed.

(* a SyncRequest is accepted by every endpoint that is not shut down and does not know another magic *)
Lemma epl_sync_request_passes : forall B mg n,
  u_state B <> PShutdown -> (u_remote_magic B = 0 \/ u_remote_magic B = mg) ->
  passes_filters B (mkMsg mg (SyncRequest n)) = true.
Proof.
  intros B mg n Hs Hm. unfold passes_filters. cbn [m_magic m_body is_handshake negb]. rewrite andb_false_r.
  assert (pstate_eqb (u_state B) PShutdown = false) as -> by (destruct (u_state B); try reflexivity; congruence).
  destruct Hm as [-> | ->]; [reflexivity|]. rewrite Z.eqb_refl. cbn [negb]. rewrite andb_false_r. reflexivity.
Qed.

(* a reply to an outstanding request is a matched round trip: one fewer remaining, a fresh request goes out, and
   the last one makes the endpoint Running with the replier's magic *)
Lemma epl_sync_reply_matched : forall dbg now nonce A mg n,
  u_state A = PSynchronizing -> u_remote_magic A = 0 -> zmem n (u_sync_requests A) = true ->
  1 <= u_sync_remaining A <= NUM_SYNC_PACKETS ->
  exists A', handle_message dbg now nonce (mkMsg mg (SyncReply n)) A = Ok A' /\
    match_of A (OMessage now nonce (mkMsg mg (SyncReply n))) = [(n, mg)] /\
    u_sync_remaining A' = u_sync_remaining A - 1 /\ u_magic A' = u_magic A /\
    ((1 < u_sync_remaining A /\ u_state A' = PSynchronizing /\ u_remote_magic A' = 0 /\
      zmem nonce (u_sync_requests A') = true /\
      In (mkMsg (u_magic A) (SyncRequest nonce)) (u_send_queue A')) \/
     (u_sync_remaining A = 1 /\ u_state A' = PRunning /\ u_remote_magic A' = mg)).
Proof.
  intros dbg now nonce A mg n Hs Hm Hz Hr.
  assert (Hp : passes_filters A (mkMsg mg (SyncReply n)) = true).
  { unfold passes_filters. rewrite Hs, Hm. reflexivity. }
  rewrite eps_handle_unfold, Hp. cbn [negb m_body m_magic]. cbv zeta.
  pose proof (eps_touch_fields now A) as T. unfold eps_only_touched in T.
  destruct T as (T1&T2&T3&T4&T5&T6&T7&T8&T9&T10&T11&T12&T13&T14&T15&_).
  unfold on_sync_reply. rewrite T4, T6, Hs, Hz. cbn [pstate_eqb negb]. fsimpl. rewrite T5.
  assert ((u_sync_remaining A <=? 0) = false) as -> by lia. cbn [andb].
  assert (Em : (u_sync_remaining A - 1) mod 4294967296 = u_sync_remaining A - 1)
    by (apply Z.mod_small; unfold NUM_SYNC_PACKETS in *; lia).
  rewrite Em.
  assert (Hmo : match_of A (OMessage now nonce (mkMsg mg (SyncReply n))) = [(n, mg)]).
  { unfold match_of. cbn [m_body m_magic]. rewrite Hp, Hs, Hz. reflexivity. }
  destruct (0 <? u_sync_remaining A - 1) eqn:Epos.
  - assert ((NUM_SYNC_PACKETS <? u_sync_remaining A - 1) = false) as -> by lia. cbn [andb].
    eexists. split; [reflexivity|]. split; [exact Hmo|]. fsimpl. split; [reflexivity|]. split; [exact T14|].
    left. split; [lia|]. split; [rewrite T4; exact Hs|]. split; [rewrite T15; exact Hm|]. split.
    + rewrite zmem_zinsert, Z.eqb_refl. reflexivity.
    + rewrite T14. apply in_app_iff. right. left. reflexivity.
  - eexists. split; [reflexivity|]. split; [exact Hmo|]. fsimpl. split; [reflexivity|]. split; [exact T14|].
    right. split; [lia|]. auto.
Qed.

(* the retry: a poll more than SYNC_RETRY_INTERVAL after the last request sends a fresh one *)
Lemma epl_sync_retry : forall now nonce cs A,
  u_state A = PSynchronizing -> u_last_sync_request_time A + SYNC_RETRY_INTERVAL < now ->
  exists out A', poll now nonce cs A = Ok (out, A') /\
    u_state A' = PSynchronizing /\ u_sync_remaining A' = u_sync_remaining A /\ u_remote_magic A' = u_remote_magic A /\
    u_magic A' = u_magic A /\ zmem nonce (u_sync_requests A') = true /\
    In (mkMsg (u_magic A) (SyncRequest nonce)) (u_send_queue A').
Proof.
  intros now nonce cs A Hs Hdue. unfold poll, poll_gen. cbv zeta. rewrite Hs.
  assert ((u_last_sync_request_time A + SYNC_RETRY_INTERVAL <? now) = true) as -> by lia.
  eexists. eexists. split; [reflexivity|]. fsimpl. repeat (split; [first [assumption|reflexivity]|]).
  split; [rewrite zmem_zinsert, Z.eqb_refl; reflexivity|]. apply in_app_iff. right. left. reflexivity.
Qed.

(* one fault-free round trip: A's outstanding request n reaches B, B's reply reaches A *)
Definition epl_round_trip (dbg : bool) (t fresh n : Z) (A B : ep) : res (ep * ep) :=
  match handle_message dbg t 0 (mkMsg (u_magic A) (SyncRequest n)) B with
  | Ok B' =>
    match handle_message dbg t fresh (mkMsg (u_magic B) (SyncReply n)) A with
    | Ok A' => Ok (A', B')
    | Err => Err
    | Panic => Panic
    end
  | Err => Err
  | Panic => Panic
  end.

(* B answers A's handshake *)
Definition epl_answers (A B : ep) : Prop :=
  u_state B <> PShutdown /\ (u_remote_magic B = 0 \/ u_remote_magic B = u_magic A).

Theorem epl_round_trip_progress : forall dbg t fresh n A B,
  u_state A = PSynchronizing -> u_remote_magic A = 0 -> zmem n (u_sync_requests A) = true ->
  1 <= u_sync_remaining A <= NUM_SYNC_PACKETS -> epl_answers A B ->
  exists A' B', epl_round_trip dbg t fresh n A B = Ok (A', B') /\
    In (mkMsg (u_magic B) (SyncReply n)) (u_send_queue B') /\
    match_of A (OMessage t fresh (mkMsg (u_magic B) (SyncReply n))) = [(n, u_magic B)] /\
    u_sync_remaining A' = u_sync_remaining A - 1 /\ u_magic A' = u_magic A /\ u_magic B' = u_magic B /\
    epl_answers A' B' /\
    ((1 < u_sync_remaining A /\ u_state A' = PSynchronizing /\ u_remote_magic A' = 0 /\
      zmem fresh (u_sync_requests A') = true) \/
     (u_sync_remaining A = 1 /\ u_state A' = PRunning /\ u_remote_magic A' = u_magic B)).
Proof.
  intros dbg t fresh n A B Hs Hm Hz Hr (Hb1 & Hb2). unfold epl_round_trip.
  destruct (epl_sync_request_answered dbg t 0 B (u_magic A) n (epl_sync_request_passes B _ n Hb1 Hb2))
    as (B' & -> & Q & S1 & M1 & RM1).
  destruct (epl_sync_reply_matched dbg t fresh A (u_magic B) n Hs Hm Hz Hr) as (A' & -> & Mo & Rem & Mg & Hcase).
  exists A', B'. split; [reflexivity|]. split; [rewrite Q; apply in_app_iff; right; left; reflexivity|].
  split; [exact Mo|]. split; [exact Rem|]. split; [exact Mg|]. split; [exact M1|].
  split; [unfold epl_answers; rewrite S1, RM1, Mg; auto|].
  destruct Hcase as [(C1 & C2 & C3 & C4 & _)|C]; [left; auto|right; exact C].
Qed.

(* hence: as many fault-free round trips as remain reach Running *)
Fixpoint epl_round_trips (dbg : bool) (t : Z) (n : Z) (fresh : list Z) (A B : ep) : res (ep * ep) :=
  match fresh with
  | [] => Ok (A, B)
  | f :: r =>
    match epl_round_trip dbg t f n A B with
    | Ok (A', B') => epl_round_trips dbg t f r A' B'
    | Err => Err
    | Panic => Panic
    end
  end.

Theorem epl_handshake_completes : forall dbg t fresh n A B,
  u_state A = PSynchronizing -> u_remote_magic A = 0 -> zmem n (u_sync_requests A) = true ->
  1 <= u_sync_remaining A <= NUM_SYNC_PACKETS -> epl_answers A B ->
  Z.of_nat (length fresh) = u_sync_remaining A ->
  exists A' B', epl_round_trips dbg t n fresh A B = Ok (A', B') /\
    u_state A' = PRunning /\ u_remote_magic A' = u_magic B /\ u_sync_remaining A' = 0.
Proof.
  intros dbg t fresh. induction fresh as [|f r IH]; intros n A B Hs Hm Hz Hr Hb Hl; [cbn [length] in Hl; lia|].
  cbn [epl_round_trips].
  destruct (epl_round_trip_progress dbg t f n A B Hs Hm Hz Hr Hb) as (A' & B' & -> & _ & _ & Rem & MgA & MgB & Hb' & Hcase).
  destruct Hcase as [(C1 & C2 & C3 & C4)|(C1 & C2 & C3)].
  - destruct (IH f A' B' C2 C3 C4) as (A2 & B2 & E & X1 & X2 & X3); [lia|exact Hb'|cbn [length] in Hl; lia|].
    exists A2, B2. split; [exact E|]. split; [exact X1|]. split; [congruence|exact X3].
  - assert (r = []) by (destruct r; [reflexivity|cbn [length] in Hl; lia]). subst r. cbn [epl_round_trips].
    exists A', B'. split; [reflexivity|]. split; [exact C2|]. split; [exact C3|lia].
Qed.

(* the count of matched round trips (EndpointSpec.matched) *)
Lemma epl_matches_app : forall dbg a b s s1 e1,
  run dbg s a = Ok (s1, e1) -> matches dbg s (a ++ b) = matches dbg s a ++ matches dbg s1 b.
Proof.
  induction a as [|o a IH]; intros b s s1 e1 H; cbn [app matches].
  - inversion H; subst. reflexivity.
  - apply eps_run_cons in H. destruct H as (s2 & e2 & e3 & H1 & H2 & _). rewrite H1.
    rewrite (IH b _ _ _ H2), app_assoc. reflexivity.
Qed.

(* never decreases, whatever else arrives: stray, duplicate and foreign replies add nothing and remove nothing *)
Lemma epl_matched_monotone : forall dbg a b s, matched dbg s a <= matched dbg s (a ++ b).
Proof.
  intros dbg a b s. unfold matched.
  assert (H : exists x, matches dbg s (a ++ b) = matches dbg s a ++ x).
  { revert s. induction a as [|o a IH]; intro s; cbn [app matches]; [eexists; reflexivity|].
    destruct (step dbg o s) as [[s1 e1]| |].
    - destruct (IH s1) as (x & ->). exists x. rewrite app_assoc. reflexivity.
    - exists []. rewrite !app_nil_r. reflexivity.
    - exists []. rewrite !app_nil_r. reflexivity. }
  destruct H as (x & ->). rewrite app_length. lia.
Qed.

(* in every reachable Synchronizing state: k = NUM_SYNC_PACKETS - remaining round trips matched so far, the
   peer's magic still unknown; the reply of a fault-free round trip makes it k + 1 *)
Lemma epl_matched_synchronizing : forall now0 magic handles np lp mp timeout notify fps desync dbg ops A evs,
  let s0 := ep_new now0 magic handles np lp mp timeout notify fps desync in
  run dbg s0 ops = Ok (A, evs) -> u_state A = PSynchronizing ->
  matched dbg s0 ops = NUM_SYNC_PACKETS - u_sync_remaining A /\
  1 <= u_sync_remaining A <= NUM_SYNC_PACKETS /\ u_remote_magic A = 0 /\
  forall t fresh mg n A', zmem n (u_sync_requests A) = true ->
    handle_message dbg t fresh (mkMsg mg (SyncReply n)) A = Ok A' ->
    matched dbg s0 (ops ++ [OMessage t fresh (mkMsg mg (SyncReply n))]) = matched dbg s0 ops + 1.
Proof.
  intros now0 magic handles np lp mp timeout notify fps desync dbg ops A evs s0 H Hs.
  pose proof (reach_inv1 now0 magic handles np lp mp timeout notify fps desync dbg ops A evs H) as (_ & (HA & HB & HC & HD) & Hst).
  unfold st_facts in Hst. cbv zeta in Hst. rewrite Hs in Hst. destruct Hst as (_ & M & R & _).
  fold s0 in M, HC. unfold matched.
  assert (Hm0 : u_remote_magic A = 0) by (apply HC; lia).
  split; [exact M|]. split; [exact R|]. split; [exact Hm0|].
  intros t fresh mg n A' Hz HA'. rewrite (epl_matches_app dbg ops _ s0 A evs H). cbn [matches].
  assert (match_of A (OMessage t fresh (mkMsg mg (SyncReply n))) = [(n, mg)]) as ->.
  { unfold match_of. cbn [m_body m_magic]. unfold passes_filters. rewrite Hs, Hm0, Hz. reflexivity. }
  rewrite !app_length. cbn [length app].
  destruct (step dbg _ A) as [[? ?]| |]; cbn [length app]; lia.
Qed.

(* ====================================================================================== *)
(* the code before b2421d6                                                                 *)
(* ====================================================================================== *)
(* on_input as it was: retain(k >= last_recv_frame - 2 * max_prediction), and a packet whose base frame is
   missing is dropped silently *)
Definition epl_on_input_old (dbg : bool) (now : Z) (st : list status) (disc_req : bool) (start ack : Z)
                            (bytes : list N) (s : ep) : res ep :=
  if negb disc_req && negb (Z.of_nat (length st) =? u_num_players s) then Ok s
  else if start <? 0 then Ok s
  else
    match eps_header st disc_req ack s with
    | Ok s2 =>
      let decode_frame := if last_recv_frame s2 =? NULL then NULL else start - 1 in
      match alookup decode_frame (u_recv_inputs s2) with
      | Some ref =>
        let s3 := set_last_input_recv now s2 in
        match Codec.decode dbg ref bytes with
        | Ok inputs =>
          match accept_inputs dbg start 0 inputs s3 with
          | Ok (true, s4) =>
            let s5 := send_input_ack now s4 in
            let lrf := last_recv_frame s5 in
            match ts_i32_arith dbg (2 * ts_wrap_i32 (u_max_prediction s5)) with
            | Ok w =>
              match ts_i32_arith dbg (lrf - w) with
              | Ok lo => Ok (set_recv_inputs (aretain_ge lo (u_recv_inputs s5)) s5)
              | Err => Err
              | Panic => Panic
              end
            | Err => Err
            | Panic => Panic
            end
          | Ok (false, s4) => Ok s4
          | Err => Err
          | Panic => Panic
          end
        | Err => Ok s3
        | Panic => Panic
        end
      | None => Ok s2
      end
    | Err => Err
    | Panic => Panic
    end.

(* handle_message with that on_input (only Input packets matter here) *)
Definition epl_handle_message_old (dbg : bool) (now nonce : Z) (m : message) (s : ep) : res ep :=
  match m_body m with
  | Input st dr sf af bytes =>
    if negb (passes_filters s m) then Ok s else epl_on_input_old dbg now st dr sf af bytes (eps_touch now s)
  | _ => handle_message dbg now nonce m s
  end.

(* the two variants agree wherever the repair does not apply: the current on_input is the old one except for the
   pruning threshold and the re-acknowledgement (definitional check on the model of the current code) *)
Lemma epl_on_input_current : forall dbg now st dr start ack bytes s,
  on_input dbg now st dr start ack bytes s =
  if negb dr && negb (Z.of_nat (length st) =? u_num_players s) then Ok s
  else if start <? 0 then Ok s
  else match eps_header st dr ack s with Ok s2 => eps_body dbg now start bytes s2 | Err => Err | Panic => Panic end.
Proof. exact eps_on_input_unfold. Qed.

(* the history: window 0, S = (local player 0), R = (receives player 0); both Running after the handshake *)
Definition epl_w_newR : ep := ep_new 0 7 [0] 2 1 0 2000 500 60 None.
Definition epl_w_handshakeR : list op :=
  [OSynchronize 0 100;
   OMessage 0 101 (mkMsg 9 (SyncReply 100)); OMessage 0 102 (mkMsg 9 (SyncReply 101));
   OMessage 0 103 (mkMsg 9 (SyncReply 102)); OMessage 0 104 (mkMsg 9 (SyncReply 103));
   OMessage 0 105 (mkMsg 9 (SyncReply 104))].

Definition epl_is_input_msg (m : message) : bool := match m_body m with Input _ _ _ _ _ => true | _ => false end.
(* the Input packet S queued last *)
Definition epl_newest_packet (s : ep) : option message :=
  last (map Some (filter epl_is_input_msg (u_send_queue s))) None.

(* (S: last_acked frame, |pending_output|, number of Input packets sent so far;
    R: last_recv_frame, |recv_inputs|, |send_queue|) *)
Definition epl_obs (S R : ep) : Z * nat * nat * Z * nat * nat :=
  (fst (u_last_acked S), length (u_pending_output S), length (filter epl_is_input_msg (u_send_queue S)),
   last_recv_frame R, length (u_recv_inputs R), length (u_send_queue R)).

(* S sends frame 0; R handles it (its InputAck is lost); S sends frame 1; R handles that packet; S's retry timer
   fires twice (polls at 300 and 600) and R handles each retransmission.  [h] is R's packet handler. *)
Definition epl_wedge_history (h : Z -> message -> ep -> res ep) : res (list (Z * nat * nat * Z * nat * nat)) :=
  res_bind (run true eps_w_new0 w_handshake) (fun x0 => let S0 := fst x0 in
  res_bind (run true epl_w_newR epl_w_handshakeR) (fun y0 => let R0 := fst y0 in
  res_bind (step true (OSendInput 10 [(0, (0, 5))] w_status) S0) (fun x1 => let S1 := fst x1 in
  match epl_newest_packet S1 with None => Err | Some P0 =>
  res_bind (h 11 P0 R0) (fun R1 =>
  res_bind (step true (OSendInput 20 [(0, (1, 6))] w_status) S1) (fun x2 => let S2 := fst x2 in
  match epl_newest_packet S2 with None => Err | Some P1 =>
  res_bind (h 21 P1 R1) (fun R2 =>
  res_bind (step true (OPoll 300 0 w_status) S2) (fun x3 => let S3 := fst x3 in
  match epl_newest_packet S3 with None => Err | Some P2 =>
  res_bind (h 301 P2 R2) (fun R3 =>
  res_bind (step true (OPoll 600 0 w_status) S3) (fun x4 => let S4 := fst x4 in
  match epl_newest_packet S4 with None => Err | Some P3 =>
  res_bind (h 601 P3 R3) (fun R4 =>
  Ok [epl_obs S0 R0; epl_obs S1 R1; epl_obs S2 R2; epl_obs S3 R3; epl_obs S4 R4])
  end)) end)) end)) end))).

(* before b2421d6: after the one lost InputAck, R (which pruned the blank entry -1 at window 0) ignores the packet
   carrying frame 1 and both retransmissions: last_recv_frame stays 0, nothing is queued by R (column 6), S's
   base stays NULL (column 1) with 2 inputs pending, although it retransmits (column 3: 2, 3, 4 packets) *)
Lemma epl_lost_ack_wedges_refuted :
  epl_wedge_history (fun now m R => epl_handle_message_old true now 0 m R) =
  Ok [(-1, 0%nat, 0%nat, -1, 1%nat, 5%nat);
      (-1, 1%nat, 1%nat, 0, 1%nat, 6%nat);
      (-1, 2%nat, 2%nat, 0, 1%nat, 6%nat);
      (-1, 2%nat, 3%nat, 0, 1%nat, 6%nat);
      (-1, 2%nat, 4%nat, 0, 1%nat, 6%nat)].
Proof. vm_compute. reflexivity. Qed.

(* the current code on the same history: the blank entry survives the first packet (pruning threshold
   min(0 - 0, 0 - 1) = -1), so the packet carrying frames 0 and 1 is decoded at once and every retransmission is
   acknowledged again *)
Lemma epl_lost_ack_repaired :
  epl_wedge_history (fun now m R => handle_message true now 0 m R) =
  Ok [(-1, 0%nat, 0%nat, -1, 1%nat, 5%nat);
      (-1, 1%nat, 1%nat, 0, 2%nat, 6%nat);
      (-1, 2%nat, 2%nat, 1, 3%nat, 7%nat);
      (-1, 2%nat, 3%nat, 1, 3%nat, 8%nat);
      (-1, 2%nat, 4%nat, 1, 3%nat, 9%nat)].
Proof. vm_compute. reflexivity. Qed.

(* ====================================================================================== *)
(* non-vacuity: a concrete link in which the re-acknowledgement is what un-wedges R        *)
(* ====================================================================================== *)
(* window 0, first frame 2 (input delay 2).  S sends frame 2, R decodes it against the blank entry -1 and prunes
   that entry (threshold min(2 - 0, 2 - 1) = 1); R's InputAck is lost; S sends frame 3: its packet still starts at
   frame 2 and is encoded against the blank input, which R no longer keeps (and never keeps a frame 1) *)
Definition epl_x_S0 : ep := match run true eps_w_new0 w_handshake with Ok (s, _) => s | _ => eps_w_new0 end.
Definition epl_x_R0 : ep := match run true epl_w_newR epl_w_handshakeR with Ok (s, _) => s | _ => epl_w_newR end.
Definition epl_x_step (o : op) (s : ep) : ep := match step true o s with Ok (s', _) => s' | _ => s end.
Definition epl_x_S1 : ep := epl_x_step (OSendInput 10 [(0, (2, 5))] w_status) epl_x_S0.
Definition epl_x_P0 : message := match epl_newest_packet epl_x_S1 with Some m => m | None => mkMsg 0 KeepAlive end.
Definition epl_x_R1 : ep := epl_x_step (OMessage 11 0 epl_x_P0) epl_x_R0.
Definition epl_x_S2 : ep := epl_x_step (OSendInput 20 [(0, (3, 6))] w_status) epl_x_S1.
Definition epl_x_sent : list ibytes := [(2, [5;0;0;0]%N); (3, [6;0;0;0]%N)].

Lemma epl_x_step1 : epl_step true 1 2 (epl_x_S0, epl_x_R0, []) (epl_x_S1, epl_x_R0, [(2, [5;0;0;0]%N)]).
Proof.
  apply (epl_step_send true 1 2 epl_x_S0 epl_x_R0 [] 10 [(0, (2, 5))] w_status epl_x_S1 [] [5;0;0;0]%N).
  all: vm_compute; try reflexivity; try discriminate; try lia.
Qed.
Lemma epl_x_step2 : epl_step true 1 2 (epl_x_S1, epl_x_R0, [(2, [5;0;0;0]%N)]) (epl_x_S1, epl_x_R1, [(2, [5;0;0;0]%N)]).
Proof.
  apply (epl_step_deliver_sr true 1 2 epl_x_S1 epl_x_R0 _ 11 0 epl_x_P0 epl_x_R1 []).
  - vm_compute. auto 10.
  - vm_compute; reflexivity.
Qed.
Lemma epl_x_step3 : epl_step true 1 2 (epl_x_S1, epl_x_R1, [(2, [5;0;0;0]%N)]) (epl_x_S2, epl_x_R1, epl_x_sent).
Proof.
  apply (epl_step_send true 1 2 epl_x_S1 epl_x_R1 [(2, [5;0;0;0]%N)] 20 [(0, (3, 6))] w_status epl_x_S2 [] [6;0;0;0]%N).
  all: vm_compute; try reflexivity; try discriminate; try lia.
Qed.
Lemma epl_x_init : epl_inv 1 2 epl_x_S0 epl_x_R0 [].
Proof.
  apply epl_inv_initial.
  - lia.
  - lia.
  - lia.
  - unfold TS_I32_MAX. lia.
  - vm_compute. reflexivity.
  - vm_compute. reflexivity.
  - vm_compute. reflexivity.
  - vm_compute. reflexivity.
  - eapply (eps_inv_run true epl_w_handshakeR epl_w_newR); [apply eps_inv_new|vm_compute; reflexivity].
  - vm_compute. split; discriminate.
  - vm_compute. reflexivity.
  - vm_compute. reflexivity.
  - vm_compute. repeat constructor.
  - vm_compute. repeat constructor.
Qed.
Lemma epl_x_inv : epl_inv 1 2 epl_x_S2 epl_x_R1 epl_x_sent.
Proof.
  apply (epl_inv_step true 1 2 epl_x_S1 epl_x_R1 [(2, [5;0;0;0]%N)] _ _ _); [|exact epl_x_step3].
  apply (epl_inv_step true 1 2 epl_x_S1 epl_x_R0 [(2, [5;0;0;0]%N)] _ _ _); [|exact epl_x_step2].
  apply (epl_inv_step true 1 2 epl_x_S0 epl_x_R0 [] _ _ _); [exact epl_x_init|exact epl_x_step1].
Qed.

Example epl_link_example :
  epl_inv 1 2 epl_x_S2 epl_x_R1 epl_x_sent /\ epl_compat epl_x_S2 epl_x_R1 w_status /\
  u_pending_output epl_x_S2 <> [] /\
  last_recv_frame epl_x_R1 = 2 /\ alookup 1 (u_recv_inputs epl_x_R1) = None /\
  alookup (-1) (u_recv_inputs epl_x_R1) = None /\ fst (u_last_acked epl_x_S2) = NULL /\
  exists S' R', epl_exchange true 300 301 302 w_status epl_x_S2 epl_x_R1 = Ok (S', R') /\
    last_recv_frame R' = 3 /\ fst (u_last_acked S') = 2.
Proof.
  split; [exact epl_x_inv|].
  split. { unfold epl_compat. split; [right; vm_compute; reflexivity|]. split; [right; vm_compute; reflexivity|vm_compute; reflexivity]. }
  split; [vm_compute; discriminate|].
  split; [vm_compute; reflexivity|]. split; [vm_compute; reflexivity|]. split; [vm_compute; reflexivity|].
  split; [vm_compute; reflexivity|].
  eexists. eexists. split; [vm_compute; reflexivity|]. split; vm_compute; reflexivity.
Qed.

(* non-vacuity of (d): a freshly synchronizing endpoint (request 100 outstanding) and a peer that has not even
   started its own handshake: five fault-free round trips *)
Example epl_handshake_example :
  exists A evs A' B', run true w_new [OSynchronize 0 100] = Ok (A, evs) /\
    u_state A = PSynchronizing /\ u_remote_magic A = 0 /\ zmem 100 (u_sync_requests A) = true /\
    u_sync_remaining A = 5 /\ epl_answers A epl_w_newR /\
    epl_round_trips true 1 100 [101; 102; 103; 104; 105] A epl_w_newR = Ok (A', B') /\
    u_state A' = PRunning /\ u_remote_magic A' = 7.
Proof.
  eexists. eexists. eexists. eexists. split; [vm_compute; reflexivity|].
  repeat (split; [vm_compute; reflexivity|]).
  split. { split; [vm_compute; discriminate|left; vm_compute; reflexivity]. }
  split; [vm_compute; reflexivity|]. split; vm_compute; reflexivity.
Qed.
