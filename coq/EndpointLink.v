(* C05 (link half): a lost acknowledgement cannot wedge the receiver; the handshake makes progress.
   Two endpoints S (sender) and R (receiver) of the model Endpoint.v (src/network/protocol.rs, current code),
   connected by a network that may lose, duplicate, delay and reorder.  Every top-level name is prefixed [epl_].
   Statements are collected in props/C05.v. *)
From Coq Require Import ZArith List Bool Lia.
From Coq Require Import ZifyBool ZifyNat ZifyN.
From GGRS Require Import Base Consts TimeSync Codec CodecProofs Endpoint EndpointSpec EndpointProofs EndpointSafety.
Open Scope Z_scope.

(* ====================================================================================== *)
(* (a) re-acknowledgement, and the base frame of a handled packet is never dropped         *)
(* ====================================================================================== *)
Lemma epl_body_fields : forall dbg now sf bytes s2 s',
  eps_body dbg now sf bytes s2 = Ok s' -> 0 <= sf ->
  u_pending_output s' = u_pending_output s2 /\ u_last_acked s' = u_last_acked s2 /\ u_state s' = u_state s2 /\
  u_magic s' = u_magic s2 /\ u_remote_magic s' = u_remote_magic s2.
Proof.
  intros dbg now sf bytes s2 s' H Hs. unfold eps_body in H. cbv zeta in H.
  assert (Hmin : TS_I32_MIN <= sf + 0) by (unfold TS_I32_MIN; lia).
  destruct (alookup _ (u_recv_inputs s2)) as [ref|].
  - destruct (Codec.decode dbg ref bytes) as [inputs| |]; try discriminate.
    + destruct (accept_inputs dbg sf 0 inputs (set_last_input_recv now s2)) as [[[|] s4]| |] eqn:Ea; try discriminate.
      * destruct (eps_accept_spec _ _ _ _ _ _ _ Ea Hmin) as (A & _). eps_others_inj A.
        destruct (ts_i32_arith dbg _) as [w| |]; try discriminate.
        destruct (ts_i32_arith dbg _) as [lo| |]; try discriminate. inversion H; subst. fsimpl. auto.
      * destruct (eps_accept_spec _ _ _ _ _ _ _ Ea Hmin) as (A & _). eps_others_inj A. inversion H; subst. auto.
    + inversion H; subst. fsimpl. auto.
  - destruct (sf <=? last_recv_frame s2); inversion H; subst; fsimpl; auto.
Qed.

(* the repair b2421d6, first half: an Input packet whose base frame (start_frame - 1) the receiver no longer
   keeps and whose start_frame is not beyond last_recv_frame is answered with InputAck(last_recv_frame) *)
Lemma epl_reack : forall dbg now nonce m st dr sf af bytes R,
  m_body m = Input st dr sf af bytes -> passes_filters R m = true -> eps_wf R ->
  dr = true \/ Z.of_nat (length st) = u_num_players R -> 0 <= sf ->
  alookup (sf - 1) (u_recv_inputs R) = None -> sf <= last_recv_frame R ->
  exists R', handle_message dbg now nonce m R = Ok R' /\
    u_send_queue R' = u_send_queue R ++ [mkMsg (u_magic R) (InputAck (last_recv_frame R))] /\
    u_recv_inputs R' = u_recv_inputs R /\ u_state R' = u_state R.
Proof.
  intros dbg now nonce m st dr sf af bytes R Hb Hp Hw Hd Hs Hl Hle.
  rewrite (eps_handle_input_ok_header _ _ _ _ _ _ _ _ _ _ Hb Hp Hd Hs).
  destruct (eps_header_ok_touch now st dr af R Hw Hd) as (s2 & Eh). rewrite Eh.
  destruct (eps_header_touch _ _ _ _ _ _ Eh) as (Ho & _).
  destruct (eps_header_only_lrf _ _ _ _ _ _ Ho) as (Elrf & _).
  unfold eps_header_only in Ho. destruct Ho as (H1 & H2 & H3 & _ & _ & _ & H7 & _).
  unfold eps_body. cbv zeta. rewrite Elrf, H1.
  assert ((last_recv_frame R =? NULL) = false) as -> by (unfold NULL; lia).
  rewrite Hl. assert ((sf <=? last_recv_frame R) = true) as -> by lia.
  eexists. split; [reflexivity|]. fsimpl. rewrite H2, H7, Elrf. auto.
Qed.

(* second half: whatever a packet with start_frame [sf] makes the receiver do, the entry [sf - 1] (the base the
   sender encoded it against) is still there afterwards.  So a sender that keeps encoding against frame A is
   served by a receiver that once decoded a packet based on A, until the sender's base moves. *)
Lemma epl_base_never_dropped : forall dbg now nonce m st dr sf af bytes R R' b,
  m_body m = Input st dr sf af bytes -> handle_message dbg now nonce m R = Ok R' ->
  eps_ri_ok R -> eps_window_ok R ->
  alookup (sf - 1) (u_recv_inputs R) = Some b -> alookup (sf - 1) (u_recv_inputs R') = Some b.
Proof.
  intros dbg now nonce m st dr sf af bytes R R' b Hb H Hok Hw Hl.
  pose proof (eps_input_exits _ _ _ _ _ _ _ _ _ _ _ Hb H) as X.
  assert (Hhdr : forall s2, eps_header st dr af (eps_touch now R) = Ok s2 ->
            u_recv_inputs s2 = u_recv_inputs R /\ u_max_prediction s2 = u_max_prediction R).
  { intros s2 Eh. destruct (eps_header_touch _ _ _ _ _ _ Eh) as (Ho & _). split; apply Ho. }
  destruct X as [ | |s2 Eh|s2 Eh|s2 ref Eh|s2 ref ins s4 Eh Hs El Ed Ea|s2 ref ins s4 w lo Eh Hs El Ed Ea Ew Elo].
  - exact Hl.
  - pose proof (eps_touch_fields now R) as T. unfold eps_only_touched in T.
    destruct T as (_&_&_&_&_&_&_&_&_&_&_&_&_&_&_&_&_&_&_&T20&_). rewrite T20. exact Hl.
  - rewrite (proj1 (Hhdr _ Eh)). exact Hl.
  - fsimpl. rewrite (proj1 (Hhdr _ Eh)). exact Hl.
  - fsimpl. rewrite (proj1 (Hhdr _ Eh)). exact Hl.
  - destruct (Hhdr _ Eh) as (E1 & E2). set (s3 := set_last_input_recv now s2) in *.
    assert (Hok3 : eps_ri_ok s3) by (eapply eps_ri_ok_ext; [|exact Hok]; exact E1).
    pose proof (eps_accept_ri_ok _ _ _ _ _ _ Ea Hs Hok3) as (N4 & _).
    apply eps_alookup_nodup; [exact N4|]. eapply eps_accept_keeps; [exact Ea|].
    change (u_recv_inputs s3) with (u_recv_inputs s2). rewrite E1. apply eps_alookup_in. exact Hl.
  - destruct (Hhdr _ Eh) as (E1 & E2). set (s3 := set_last_input_recv now s2) in *.
    assert (Hok3 : eps_ri_ok s3) by (eapply eps_ri_ok_ext; [|exact Hok]; exact E1).
    assert (Hw3 : eps_window_ok s3) by (unfold eps_window_ok in *; change (u_max_prediction s3) with (u_max_prediction s2); rewrite E2; exact Hw).
    destruct (eps_complete_exit_ri dbg now sf ins s3 s4 w lo ref Hok3 Hw3 Hs El Ea Ew Elo) as (_ & _ & _ & _ & _ & _ & K).
    apply K; [|lia]. change (u_recv_inputs s3) with (u_recv_inputs s2). rewrite E1. apply eps_alookup_in. exact Hl.
Qed.

(* ====================================================================================== *)
(* (b) an acknowledgement moves the sender's base                                          *)
(* ====================================================================================== *)
(* consecutive frames starting at f *)
Fixpoint epl_consec (f : Z) (po : list ibytes) : Prop :=
  match po with [] => True | x :: r => fst x = f /\ epl_consec (f + 1) r end.

Lemma epl_consec_app : forall a b f, epl_consec f (a ++ b) <-> epl_consec f a /\ epl_consec (f + Z.of_nat (length a)) b.
Proof.
  induction a as [|x a IH]; intros b f; cbn [app epl_consec length].
  - replace (f + Z.of_nat 0) with f by lia. tauto.
  - rewrite IH. replace (f + 1 + Z.of_nat (length a)) with (f + Z.of_nat (S (length a))) by lia. tauto.
Qed.

Lemma epl_consec_in : forall po f x, epl_consec f po -> In x po -> f <= fst x < f + Z.of_nat (length po).
Proof.
  induction po as [|y r IH]; intros f x H Hi; [destruct Hi|]. cbn [epl_consec length] in *. destruct H as (H1 & H2).
  destruct Hi as [->|Hi]; [lia|]. specialize (IH _ _ H2 Hi). lia.
Qed.

Lemma epl_consec_unique : forall po f k b b', epl_consec f po -> In (k, b) po -> In (k, b') po -> b = b'.
Proof.
  induction po as [|y r IH]; intros f k b b' H H1 H2; [destruct H1|]. cbn [epl_consec] in H. destruct H as (Hy & Hr).
  destruct H1 as [->|H1], H2 as [E|H2].
  - inversion E. reflexivity.
  - pose proof (epl_consec_in _ _ _ Hr H2). cbn [fst] in *. lia.
  - subst y. pose proof (epl_consec_in _ _ _ Hr H1). cbn [fst] in *. lia.
  - eapply IH; eauto.
Qed.

Lemma epl_last_default : forall {A : Type} (l : list A) x d d', last (x :: l) d = last (x :: l) d'.
Proof. induction l as [|y l IH]; intros x d d'; [reflexivity|]. cbn [last] in *. apply (IH y). Qed.

Lemma epl_pop_all_below : forall pre a rest la, Forall (fun x => fst x <= a) pre ->
  pop_pending a (pre ++ rest) la = pop_pending a rest (last pre la).
Proof.
  induction pre as [|x pre IH]; intros a rest la F; cbn [app]; [reflexivity|].
  inversion F as [|? ? F1 F2]; subst. cbn [pop_pending]. assert ((fst x <=? a) = true) as -> by lia.
  rewrite IH by exact F2. f_equal. destruct pre as [|p pre]; [reflexivity|]. apply (epl_last_default pre p).
Qed.

Lemma epl_pop_stops : forall a po la, match po with [] => True | x :: _ => a < fst x end -> pop_pending a po la = (po, la).
Proof. intros a [|x r] la H; cbn [pop_pending]; [reflexivity|]. assert ((fst x <=? a) = false) as -> by lia. reflexivity. Qed.

(* popping up to a frame that is pending: exactly the entries up to it go, it becomes last_acked_input *)
Lemma epl_pop_consec : forall f pre a b post la,
  epl_consec f (pre ++ (a, b) :: post) -> pop_pending a (pre ++ (a, b) :: post) la = (post, (a, b)).
Proof.
  intros f pre a b post la H. apply epl_consec_app in H. destruct H as (H1 & H2). cbn [epl_consec fst] in H2.
  destruct H2 as (Ha & H3).
  rewrite epl_pop_all_below.
  - cbn [pop_pending fst]. assert ((a <=? a) = true) as -> by lia. apply epl_pop_stops.
    destruct post as [|y r]; [exact I|]. cbn [epl_consec] in H3. lia.
  - apply Forall_forall. intros x Hx. pose proof (epl_consec_in _ _ _ H1 Hx). lia.
Qed.

(* the Input packet send_pending_output would queue now *)
Definition epl_packet (cs : list status) (s : ep) : option message :=
  match u_pending_output s with
  | [] => None
  | (f, _) :: _ =>
    Some (mkMsg (u_magic s) (Input cs (pstate_eqb (u_state s) PDisconnected) f (last_recv_frame s)
                                   (Codec.encode (snd (u_last_acked s)) (map snd (u_pending_output s)))))
  end.

Lemma epl_send_pending_output_packet : forall now cs s t,
  send_pending_output now cs s = Ok t ->
  match epl_packet cs s with
  | None => t = s
  | Some m => u_send_queue t = u_send_queue s ++ [m] /\ eps_others t =
               eps_others (set_send_queue (u_send_queue s ++ [m]) (set_last_send_time now s)) /\
               u_recv_inputs t = u_recv_inputs s /\ u_event_queue t = u_event_queue s
  end.
Proof.
  intros now cs s t H. apply eps_send_pending_output_shape in H. unfold epl_packet.
  destruct H as [(E & ->)|(f & b & r & E & ->)]; rewrite E; [reflexivity|]. rewrite <- E. fsimpl. auto.
Qed.

(* an InputAck (or the ack_frame of an Input packet) for a pending frame: the next packet starts right above
   it and is encoded against its bytes *)
Lemma epl_ack_moves_base : forall dbg now nonce m S f0 pre a b post,
  u_pending_output S = pre ++ (a, b) :: post -> epl_consec f0 (u_pending_output S) ->
  passes_filters S m = true -> m_body m = InputAck a ->
  exists S', handle_message dbg now nonce m S = Ok S' /\
    u_pending_output S' = post /\ u_last_acked S' = (a, b) /\
    forall cs, epl_packet cs S' =
      match post with
      | [] => None
      | _ => Some (mkMsg (u_magic S) (Input cs (pstate_eqb (u_state S) PDisconnected) (a + 1) (last_recv_frame S)
                                            (Codec.encode b (map snd post))))
      end.
Proof.
  intros dbg now nonce m S f0 pre a b post Hpo Hc Hp Hb.
  rewrite eps_handle_unfold, Hp, Hb. cbn [negb]. cbv zeta. eexists. split; [reflexivity|].
  pose proof (eps_touch_fields now S) as T. unfold eps_only_touched in T.
  destruct T as (T1&T2&T3&T4&T5&T6&T7&T8&T9&T10&T11&T12&T13&T14&T15&T16&T17&T18&T19&T20&_).
  destruct (eps_pop_pending_output_fields a (eps_touch now S)) as (F1 & _ & _ & F4 & _).
  rewrite T17, T18, Hpo in F1. rewrite Hpo in Hc. rewrite (epl_pop_consec f0 pre a b post _ Hc) in F1.
  inversion F1 as [[Q1 Q2]]. split; [reflexivity|]. split; [reflexivity|].
  intro cs. unfold epl_packet. rewrite Q1, Q2. destruct post as [|[f x] r]; [reflexivity|].
  apply epl_consec_app in Hc. destruct Hc as (_ & Hc). cbn [epl_consec fst] in Hc. destruct Hc as (Ha & Hf & _).
  assert (Efa : f = a + 1) by lia. clear Ha Hf. subst f.
  assert (E1 : u_magic (pop_pending_output a (eps_touch now S)) = u_magic S)
    by (unfold pop_pending_output; destruct (pop_pending _ _ _); fsimpl; exact T14).
  assert (E2 : u_state (pop_pending_output a (eps_touch now S)) = u_state S)
    by (unfold pop_pending_output; destruct (pop_pending _ _ _); fsimpl; exact T4).
  assert (E3 : last_recv_frame (pop_pending_output a (eps_touch now S)) = last_recv_frame S)
    by (apply eps_last_recv_frame_ext; rewrite F4; exact T20).
  rewrite E1, E2, E3. reflexivity.
Qed.

(* the same for the ack_frame of an Input packet that is not dropped before its header is processed *)
Lemma epl_input_ack_pops : forall dbg now nonce m st dr sf af bytes S S',
  m_body m = Input st dr sf af bytes -> passes_filters S m = true ->
  dr = true \/ Z.of_nat (length st) = u_num_players S -> 0 <= sf ->
  handle_message dbg now nonce m S = Ok S' ->
  (u_pending_output S', u_last_acked S') = pop_pending af (u_pending_output S) (u_last_acked S).
Proof.
  intros dbg now nonce m st dr sf af bytes S S' Hb Hp Hd Hs H.
  rewrite (eps_handle_input_ok_header _ _ _ _ _ _ _ _ _ _ Hb Hp Hd Hs) in H.
  destruct (eps_header st dr af (eps_touch now S)) as [s2| |] eqn:Eh; try discriminate.
  destruct (eps_header_touch _ _ _ _ _ _ Eh) as (Ho & _).
  destruct (epl_body_fields _ _ _ _ _ _ H Hs) as (A & B & _). rewrite A, B.
  unfold eps_header_only in Ho. tauto.
Qed.

(* ====================================================================================== *)
(* (c) the S -> R link                                                                     *)
(* ====================================================================================== *)
Definition epl_plain (b : body) : bool :=
  match b with Input _ _ _ _ _ | InputAck _ => false | _ => true end.

(* messages appended to the send queue, each satisfying P *)
Definition epl_app (P : message -> Prop) (s s' : ep) : Prop :=
  exists q, u_send_queue s' = u_send_queue s ++ q /\ Forall P q.

Lemma epl_app_refl : forall P s s', u_send_queue s' = u_send_queue s -> epl_app P s s'.
Proof. intros P s s' E. exists []. rewrite app_nil_r. split; [exact E|constructor]. Qed.

Lemma epl_app_trans : forall P a b c, epl_app P a b -> epl_app P b c -> epl_app P a c.
Proof.
  intros P a b c (q1 & E1 & F1) (q2 & E2 & F2). exists (q1 ++ q2). rewrite E2, E1, app_assoc.
  split; [reflexivity|]. apply Forall_app. auto.
Qed.

Lemma epl_app_one : forall (P : message -> Prop) s s' m, u_send_queue s' = u_send_queue s ++ [m] -> P m -> epl_app P s s'.
Proof. intros P s s' m E H. exists [m]. split; [exact E|]. constructor; [exact H|constructor]. Qed.

(* what a poll queues: the retransmission of pending_output (if due) and packets without acknowledgement *)
Lemma epl_poll_messages : forall now nonce cs s out s',
  poll now nonce cs s = Ok (out, s') ->
  epl_app (fun m => epl_packet cs s = Some m \/ epl_plain (m_body m) = true) s s'.
Proof.
  intros now nonce cs s out s' H. unfold poll, poll_gen in H. cbv zeta in H.
  set (P := fun m => epl_packet cs s = Some m \/ epl_plain (m_body m) = true).
  destruct (u_state s) eqn:Es.
  - inversion H; subst. apply epl_app_refl. reflexivity.
  - destruct (u_last_sync_request_time s + SYNC_RETRY_INTERVAL <? now); inversion H; subst; fsimpl.
    + eapply epl_app_one; [reflexivity|]. right. reflexivity.
    + apply epl_app_refl. reflexivity.
  - unfold poll_running_gen in H. cbn [fix_quiet_dead current_code] in H. cbv zeta in H.
    match type of H with match match ?X with _ => _ end with _ => _ end = _ => destruct X as [s1| |] eqn:E1; try discriminate end.
    assert (A1 : epl_app P s s1).
    { destruct (u_last_input_recv s + RUNNING_RETRY_INTERVAL <? now).
      - destruct (send_pending_output now cs s) as [t| |] eqn:Et; try discriminate. inversion E1; subst s1.
        apply epl_send_pending_output_packet in Et. destruct (epl_packet cs s) as [m|] eqn:Ep.
        + destruct Et as (Q & _). eapply epl_app_one; [fsimpl; exact Q|]. left. reflexivity.
        + subst t. apply epl_app_refl. reflexivity.
      - inversion E1; subst. apply epl_app_refl. reflexivity. }
    match type of H with match match ?X with _ => _ end with _ => _ end = _ => destruct X as [s2| |] eqn:E2; try discriminate end.
    assert (A2 : epl_app P s1 s2).
    { destruct (u_last_quality_report s1 + QUALITY_REPORT_INTERVAL <? now).
      - unfold send_quality_report in E2. cbv zeta in E2.
        destruct (ts_report_frame_advantage _) as [adv| |]; try discriminate. inversion E2; subst s2.
        eapply epl_app_one; [fsimpl; reflexivity|]. right. reflexivity.
      - inversion E2; subst. apply epl_app_refl. reflexivity. }
    set (s3 := if u_last_send_time s2 + KEEP_ALIVE_INTERVAL <? now then send_keep_alive now s2 else s2) in *.
    assert (A3 : epl_app P s2 s3).
    { subst s3. destruct (u_last_send_time s2 + KEEP_ALIVE_INTERVAL <? now).
      - eapply epl_app_one; [fsimpl; reflexivity|]. right. reflexivity.
      - apply epl_app_refl. reflexivity. }
    clearbody s3. inversion H; subst s'. eapply epl_app_trans; [exact A1|]. eapply epl_app_trans; [exact A2|].
    eapply epl_app_trans; [exact A3|]. apply epl_app_refl.
    destruct (negb (u_notify_sent s3) && negb (u_event_sent s3) && (u_last_recv_time s3 + u_notify_start s3 <? now));
      fsimpl; destruct (negb (u_event_sent _) && _); reflexivity.
  - destruct (u_shutdown_timeout s <? now); inversion H; subst; apply epl_app_refl; reflexivity.
  - inversion H; subst. apply epl_app_refl. reflexivity.
Qed.

(* what handling anything but an Input packet queues: packets without acknowledgement *)
Lemma epl_other_messages : forall dbg now nonce m s s',
  (forall st dr sf af bytes, m_body m <> Input st dr sf af bytes) ->
  handle_message dbg now nonce m s = Ok s' ->
  epl_app (fun x => epl_plain (m_body x) = true) s s'.
Proof.
  intros dbg now nonce m s s' Hni H. rewrite eps_handle_unfold in H.
  destruct (passes_filters s m); cbn [negb] in H; [|inversion H; subst; apply epl_app_refl; reflexivity].
  cbv zeta in H. pose proof (eps_touch_fields now s) as T. unfold eps_only_touched in T.
  destruct T as (_&_&T3&_). set (t := eps_touch now s) in *.
  destruct (m_body m) as [n|n|st dr sf af bytes|f|adv ping|pong|c f|] eqn:Eb.
  - inversion H; subst. eapply epl_app_one; [fsimpl; rewrite T3; reflexivity|reflexivity].
  - unfold on_sync_reply in H.
    destruct (negb (pstate_eqb (u_state t) PSynchronizing)); [inversion H; subst; apply epl_app_refl; exact T3|].
    destruct (negb (zmem n (u_sync_requests t))); [inversion H; subst; apply epl_app_refl; exact T3|].
    fsimpl. destruct ((u_sync_remaining t <=? 0) && dbg); [discriminate|].
    destruct (0 <? (u_sync_remaining t - 1) mod 4294967296).
    + destruct ((NUM_SYNC_PACKETS <? _) && dbg); [discriminate|]. inversion H; subst.
      eapply epl_app_one; [fsimpl; rewrite T3; reflexivity|reflexivity].
    + inversion H; subst. apply epl_app_refl. fsimpl. exact T3.
  - exfalso. eapply Hni. reflexivity.
  - inversion H; subst. apply epl_app_refl. unfold pop_pending_output. destruct (pop_pending _ _ _). fsimpl. exact T3.
  - inversion H; subst. eapply epl_app_one; [fsimpl; rewrite T3; reflexivity|reflexivity].
  - inversion H; subst. apply epl_app_refl. fsimpl. exact T3.
  - destruct (eps_on_checksum_report_effect _ _ _ _ _ H) as (pcs & -> & _). apply epl_app_refl. fsimpl. exact T3.
  - inversion H; subst. apply epl_app_refl. exact T3.
Qed.

(* the acknowledgement an Input packet is answered with carries last_recv_frame of the state afterwards *)
Lemma epl_input_exit_ack : forall dbg now st dr sf af bytes s s',
  eps_input_exit dbg now st dr sf af bytes s s' -> eps_ri_ok s -> eps_window_ok s ->
  u_send_queue s' = u_send_queue s \/
  u_send_queue s' = u_send_queue s ++ [mkMsg (u_magic s) (InputAck (last_recv_frame s'))].
Proof.
  intros dbg now st dr sf af bytes s s' H Hok Hw.
  assert (Hhdr : forall s2, eps_header st dr af (eps_touch now s) = Ok s2 ->
            u_recv_inputs s2 = u_recv_inputs s /\ u_max_prediction s2 = u_max_prediction s /\
            u_send_queue s2 = u_send_queue s /\ u_magic s2 = u_magic s).
  { intros s2 Eh. destruct (eps_header_touch _ _ _ _ _ _ Eh) as (Ho & _). unfold eps_header_only in Ho. tauto. }
  destruct H as [ | |s2 Eh|s2 Eh|s2 ref Eh|s2 ref ins s4 Eh Hs El Ed Ea|s2 ref ins s4 w lo Eh Hs El Ed Ea Ew Elo].
  - left. reflexivity.
  - left. apply (eps_touch_fields now s).
  - left. apply (Hhdr _ Eh).
  - right. destruct (Hhdr _ Eh) as (_ & _ & A & B). fsimpl. rewrite A, B. reflexivity.
  - left. fsimpl. apply (Hhdr _ Eh).
  - left. assert (Hmin : TS_I32_MIN <= sf + 0) by (unfold TS_I32_MIN; lia).
    destruct (eps_accept_spec _ _ _ _ _ _ _ Ea Hmin) as (A & _). eps_others_inj A.
    rewrite O3. apply (Hhdr _ Eh).
  - right. destruct (Hhdr _ Eh) as (E1 & E2 & E3 & E4). set (s3 := set_last_input_recv now s2) in *.
    assert (Hok3 : eps_ri_ok s3) by (eapply eps_ri_ok_ext; [|exact Hok]; exact E1).
    assert (Hw3 : eps_window_ok s3) by (unfold eps_window_ok in *; change (u_max_prediction s3) with (u_max_prediction s2); rewrite E2; exact Hw).
    destruct (eps_complete_exit_ri dbg now sf ins s3 s4 w lo ref Hok3 Hw3 Hs El Ea Ew Elo) as (_ & B & _).
    cbv zeta in B. rewrite B. assert (Hmin : TS_I32_MIN <= sf + 0) by (unfold TS_I32_MIN; lia).
    destruct (eps_accept_spec _ _ _ _ _ _ _ Ea Hmin) as (A & _). eps_others_inj A. fsimpl.
    rewrite O3, O15, E3, E4. reflexivity.
Qed.

(* ---------- the link state and its invariant (DESIGN.md A.3) ---------- *)
Definition epl_zeros (nh : nat) : list N := repeat 0%N (4 * nh).

Section Link.
Variable dbg : bool.
Variable nh : nat.    (* inputs per frame of the stream S -> R: |handles R| = local players of S *)
Variable f0 : Z.      (* first frame of the stream *)

(* [sent]: everything S was asked to send, in order *)
Definition epl_sent_ok (sent : list ibytes) : Prop :=
  epl_consec f0 sent /\ Forall (fun x => length (snd x) = (4 * nh)%nat) sent /\
  f0 + Z.of_nat (length sent) - 1 <= TS_I32_MAX.

(* pending_output is the suffix of [sent] above last_acked_input, which is the entry before it (blank before the
   first acknowledgement) *)
Definition epl_sender_ok (S : ep) (sent : list ibytes) : Prop :=
  u_state S = PRunning /\
  (length (u_pending_output S) <= N.to_nat PENDING_OUTPUT_SIZE + 1)%nat /\
  exists acked, sent = acked ++ u_pending_output S /\
    ((acked = [] /\ u_last_acked S = (NULL, epl_zeros nh)) \/ (exists pre, acked = pre ++ [u_last_acked S])).

(* R's stored frames carry S's bytes; the key -1 (if still there) is the blank input *)
Definition epl_receiver_ok (R : ep) (sent : list ibytes) : Prop :=
  u_state R = PRunning /\ eps_inv R /\ eps_window_ok R /\ length (u_handles R) = nh /\
  (forall k b, In (k, b) (u_recv_inputs R) -> (k = NULL /\ b = epl_zeros nh) \/ In (k, b) sent).

(* every Input packet S ever queued: a segment of [sent] encoded against the entry before it (blank for a
   segment that starts at the beginning); a packet with a non-blank base is never ahead of last_recv_frame(R) + 1 *)
Definition epl_packet_ok (R : ep) (sent : list ibytes) (m : message) : Prop :=
  match m_body m with
  | Input st dr start ack bytes =>
    exists a frames c base, sent = a ++ frames ++ c /\ frames <> [] /\
      (length frames <= N.to_nat PENDING_OUTPUT_SIZE + 1)%nat /\
      start = f0 + Z.of_nat (length a) /\ bytes = Codec.encode base (map snd frames) /\
      ((a = [] /\ base = epl_zeros nh) \/
       (exists pre, a = pre ++ [(start - 1, base)]) /\ start - 1 <= last_recv_frame R)
  | _ => True
  end.

(* every acknowledgement R ever queued (InputAck, or the ack_frame of an Input packet of the other direction) *)
Definition epl_ack_value_ok (R : ep) (sent : list ibytes) (r : Z) : Prop :=
  r <= last_recv_frame R /\ (r = NULL \/ exists b, In (r, b) sent).
Definition epl_ack_ok (R : ep) (sent : list ibytes) (m : message) : Prop :=
  match m_body m with
  | InputAck r => epl_ack_value_ok R sent r
  | Input _ _ _ r _ => epl_ack_value_ok R sent r
  | _ => True
  end.

(* send queues are never drained in the link model: they are the sets of packets ever sent, any of which the
   network may deliver at any time, any number of times *)
Definition epl_inv (S R : ep) (sent : list ibytes) : Prop :=
  0 <= f0 /\ (1 <= nh)%nat /\ 4 * Z.of_nat nh <= 65535 /\
  epl_sent_ok sent /\ epl_sender_ok S sent /\ epl_receiver_ok R sent /\
  fst (u_last_acked S) <= last_recv_frame R /\
  Forall (epl_packet_ok R sent) (u_send_queue S) /\ Forall (epl_ack_ok R sent) (u_send_queue R).

(* ---------- monotonicity ---------- *)
Lemma epl_packet_ok_mono : forall R R' sent x m,
  last_recv_frame R <= last_recv_frame R' -> epl_packet_ok R sent m -> epl_packet_ok R' (sent ++ x) m.
Proof.
  intros R R' sent x m L H. unfold epl_packet_ok in *. destruct (m_body m); try exact I.
  destruct H as (a & frames & c & base & E & Hn & Hl & Hs & Hb & Hbase).
  exists a, frames, (c ++ x), base. rewrite E, <- !app_assoc. split; [reflexivity|]. repeat (split; [assumption|]).
  destruct Hbase as [Hbase|(Hbase & Hle)]; [left; exact Hbase|right; split; [exact Hbase|lia]].
Qed.

Lemma epl_ack_ok_mono : forall R R' sent x m,
  last_recv_frame R <= last_recv_frame R' -> epl_ack_ok R sent m -> epl_ack_ok R' (sent ++ x) m.
Proof.
  intros R R' sent x m L H. unfold epl_ack_ok, epl_ack_value_ok in *.
  destruct (m_body m); try exact I; destruct H as (H1 & H2); (split; [lia|]);
    (destruct H2 as [H2|(b & H2)]; [left; exact H2|right; exists b; apply in_app_iff; left; exact H2]).
Qed.

Lemma epl_plain_packet_ok : forall R sent m, epl_plain (m_body m) = true -> epl_packet_ok R sent m /\ epl_ack_ok R sent m.
Proof. intros R sent m H. unfold epl_packet_ok, epl_ack_ok. destruct (m_body m); try discriminate; auto. Qed.

(* ---------- the current packet of a good sender is a good packet ---------- *)
Lemma epl_consec_length_fst : forall l f x, epl_consec f (l ++ [x]) -> fst x = f + Z.of_nat (length l).
Proof. intros l f x H. apply epl_consec_app in H. destruct H as (_ & H). cbn in H. tauto. Qed.

Lemma epl_current_packet_ok : forall cs S R sent m,
  epl_sent_ok sent -> epl_sender_ok S sent -> fst (u_last_acked S) <= last_recv_frame R ->
  epl_packet cs S = Some m -> epl_packet_ok R sent m.
Proof.
  intros cs S R sent m (Hc & _ & _) (_ & Hlen & acked & Es & Hla) Hle Hp. unfold epl_packet in Hp.
  destruct (u_pending_output S) as [|[f x] r] eqn:Epo; [discriminate|]. inversion Hp; subst m. clear Hp.
  unfold epl_packet_ok. cbn [m_body].
  rewrite Es in Hc. apply epl_consec_app in Hc. destruct Hc as (Hc1 & Hc2). cbn [epl_consec fst] in Hc2.
  exists acked, ((f, x) :: r), [], (snd (u_last_acked S)). rewrite app_nil_r.
  split; [exact Es|]. split; [discriminate|]. split; [exact Hlen|]. split; [tauto|]. split; [reflexivity|].
  destruct Hla as [(-> & Ela)|(pre & Ea)].
  - left. rewrite Ela. auto.
  - right. subst acked. pose proof (epl_consec_length_fst _ _ _ Hc1) as Ef. rewrite app_length in Hc2. cbn [length] in Hc2.
    assert (E : f - 1 = fst (u_last_acked S)) by lia. split; [|lia].
    exists pre. rewrite E. destruct (u_last_acked S); reflexivity.
Qed.

(* ---------- the sender pops ---------- *)
Lemma epl_sender_pop : forall S sent r po' la',
  0 <= f0 -> epl_sent_ok sent -> epl_sender_ok S sent -> (r = NULL \/ exists b, In (r, b) sent) ->
  pop_pending r (u_pending_output S) (u_last_acked S) = (po', la') ->
  (length po' <= length (u_pending_output S))%nat /\
  (exists acked, sent = acked ++ po' /\
     ((acked = [] /\ la' = (NULL, epl_zeros nh)) \/ (exists pre, acked = pre ++ [la']))) /\
  (la' = u_last_acked S \/ fst la' = r).
Proof.
  intros S sent r po' la' H0 (Hc & _ & _) (_ & _ & acked & Es & Hla) Hr Hp.
  assert (Hsame : (po', la') = (u_pending_output S, u_last_acked S) ->
            (length po' <= length (u_pending_output S))%nat /\
            (exists acked, sent = acked ++ po' /\
               ((acked = [] /\ la' = (NULL, epl_zeros nh)) \/ (exists pre, acked = pre ++ [la']))) /\
            (la' = u_last_acked S \/ fst la' = r)).
  { intro E. inversion E; subst. split; [lia|]. split; [exists acked; auto|auto]. }
  destruct (u_pending_output S) as [|[f x] rest] eqn:Epo.
  { cbn in Hp. apply Hsame. congruence. }
  rewrite Es in Hc. pose proof Hc as Hc0. apply epl_consec_app in Hc. destruct Hc as (Hc1 & Hc2).
  pose proof Hc2 as Hc3. cbn [epl_consec fst] in Hc3. destruct Hc3 as (Ef & _).
  destruct (Z_lt_le_dec r f) as [Hlt|Hge].
  { rewrite epl_pop_stops in Hp by (cbn [fst]; exact Hlt). apply Hsame. congruence. }
  destruct Hr as [->|(b & Hin)]; [unfold NULL in Hge; lia|].
  rewrite Es in Hin. apply in_app_iff in Hin. destruct Hin as [Hin|Hin].
  { pose proof (epl_consec_in _ _ _ Hc1 Hin). cbn [fst] in *. lia. }
  apply in_split in Hin. destruct Hin as (pre & post & Esplit). rewrite Esplit in Hc2, Hp.
  rewrite (epl_pop_consec _ pre r b post _ Hc2) in Hp. inversion Hp; subst po' la'.
  split. { rewrite Esplit, app_length. cbn [length]. lia. }
  split; [|right; reflexivity].
  exists (acked ++ pre ++ [(r, b)]). split; [rewrite Es, Esplit, <- !app_assoc; reflexivity|].
  right. exists (acked ++ pre). rewrite app_assoc. reflexivity.
Qed.
