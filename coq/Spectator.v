(* Faithful model of src/sessions/p2p_spectator_session.rs (SpectatorSession), session core only:
   the ring of SPECTATOR_BUFFER_SIZE input rows, handle_event(Event::Input / Event::Synchronized),
   frames_behind_host, inputs_at_frame and advance_frame.  Polling, the handshake and the event
   queue are the endpoint's business (Endpoint.v) and are not modelled here: the Input events the
   endpoint emits and the endpoint's peer_connect_status at that moment are arguments of the ops.
   Inputs are Z (default 0).  Every assert! / index panic of the code is an explicit Panic.
   Frames are i32 in the code; i32 overflow is not modelled (the theorems assume < 2^31 frames).
   Every name carries the prefix sp_ (all models are extracted into one OCaml module). *)
From GGRS Require Import Base Consts.
Open Scope Z_scope.

Record sp_pinput := sp_mkpi { sp_pi_frame : Z; sp_pi_val : Z }.
Record sp_cstatus := sp_mkcs { sp_cs_disc : bool; sp_cs_last : Z }.
Inductive sp_istatus := sp_Confirmed | sp_Disconnected.
Inductive sp_error := sp_NotSynchronized | sp_PredictionThreshold | sp_SpectatorTooFarBehind.

(* PlayerInput::blank_input(NULL_FRAME), ConnectionStatus::default() *)
Definition sp_blank : sp_pinput := sp_mkpi NULL 0.
Definition sp_cs_default : sp_cstatus := sp_mkcs false NULL.

Record sp_state := sp_mk {
  sp_running : bool;                       (* state == SessionState::Running *)
  sp_num_players : Z;
  sp_inputs : list (list sp_pinput);       (* SPECTATOR_BUFFER_SIZE rows of num_players entries *)
  sp_host_status : list sp_cstatus;        (* host_connect_status *)
  sp_current_frame : Z;
  sp_last_recv_frame : Z;
  sp_max_frames_behind : Z;
  sp_catchup_speed : Z }.

(* SpectatorSession::new *)
Definition sp_new (num_players max_frames_behind catchup_speed : Z) : sp_state :=
  sp_mk false num_players
        (repeat (repeat sp_blank (Z.to_nat num_players)) (Z.to_nat SPECTATOR_BUFFER_SIZE))
        (repeat sp_cs_default (Z.to_nat num_players))
        NULL NULL max_frames_behind catchup_speed.

(* `frame as usize % SPECTATOR_BUFFER_SIZE`: an i32 converted to usize is sign-extended, i.e. taken
   modulo 2^64 *)
Definition sp_slot (frame : Z) : nat := Z.to_nat ((frame mod 2 ^ 64) mod SPECTATOR_BUFFER_SIZE).

Fixpoint sp_upd {A} (l : list A) (i : nat) (x : A) : list A :=
  match l, i with
  | [], _ => []
  | _ :: r, O => x :: r
  | y :: r, S k => y :: sp_upd r k x
  end.

Definition sp_row (s : sp_state) (frame : Z) : list sp_pinput := nth (sp_slot frame) (sp_inputs s) [].

(* handle_event(Event::Input { input: PlayerInput { frame, value }, player }); [status_now] is
   what self.host.peer_connect_status(i) returns at that moment, for i = 0, 1, ... *)
Definition sp_handle_input (s : sp_state) (player frame value : Z) (status_now : list sp_cstatus)
  : res sp_state :=
  (* self.inputs[input.frame as usize % SIZE][player] = input;   the row index is always in range *)
  let row := sp_row s frame in
  if (player <? 0) || (Z.of_nat (length row) <=? player) then Panic else
  let inputs' := sp_upd (sp_inputs s) (sp_slot frame) (sp_upd row (Z.to_nat player) (sp_mkpi frame value)) in
  (* assert!(input.frame >= self.last_recv_frame); *)
  if frame <? sp_last_recv_frame s then Panic else
  (* for i in 0..self.num_players { self.host_connect_status[i] = self.host.peer_connect_status(i) } *)
  let n := Z.to_nat (sp_num_players s) in
  if (length status_now <? n)%nat || (length (sp_host_status s) <? n)%nat then Panic else
  Ok (sp_mk (sp_running s) (sp_num_players s) inputs'
            (firstn n status_now ++ skipn n (sp_host_status s))
            (sp_current_frame s) frame (sp_max_frames_behind s) (sp_catchup_speed s)).

(* handle_event(Event::Synchronized) *)
Definition sp_handle_synchronized (s : sp_state) : sp_state :=
  sp_mk true (sp_num_players s) (sp_inputs s) (sp_host_status s) (sp_current_frame s)
        (sp_last_recv_frame s) (sp_max_frames_behind s) (sp_catchup_speed s).

(* frames_behind_host *)
Definition sp_frames_behind (s : sp_state) : res Z :=
  let diff := sp_last_recv_frame s - sp_current_frame s in
  if diff <? 0 then Panic else Ok diff.

(* `if host_connect_status[handle].disconnected && host_connect_status[handle].last_frame < frame_to_grab` *)
Definition sp_stat (frame : Z) (c : sp_cstatus) : sp_istatus :=
  if sp_cs_disc c && (sp_cs_last c <? frame) then sp_Disconnected else sp_Confirmed.

(* the .iter().enumerate().map(..) of inputs_at_frame: host_connect_status[handle] is indexed *)
Fixpoint sp_zip_status (row : list sp_pinput) (hs : list sp_cstatus) (frame : Z)
  : res (list (Z * sp_istatus)) :=
  match row, hs with
  | [], _ => Ok []
  | _ :: _, [] => Panic
  | p :: r, c :: h =>
      res_bind (sp_zip_status r h frame) (fun t =>
        Ok ((sp_pi_val p, sp_stat frame c) :: t))
  end.

Inductive sp_grab := sp_Got (inputs : list (Z * sp_istatus)) | sp_Fail (e : sp_error).

(* inputs_at_frame *)
Definition sp_inputs_at_frame (s : sp_state) (frame_to_grab : Z) : res sp_grab :=
  match sp_row s frame_to_grab with
  | [] => Panic                                           (* player_inputs[0] *)
  | p0 :: _ =>
      if sp_pi_frame p0 <? frame_to_grab then Ok (sp_Fail sp_PredictionThreshold)
      else if frame_to_grab <? sp_pi_frame p0 then Ok (sp_Fail sp_SpectatorTooFarBehind)
      else res_bind (sp_zip_status (sp_row s frame_to_grab) (sp_host_status s) frame_to_grab)
                    (fun l => Ok (sp_Got l))
  end.

Definition sp_set_current (s : sp_state) (c : Z) : sp_state :=
  sp_mk (sp_running s) (sp_num_players s) (sp_inputs s) (sp_host_status s) c
        (sp_last_recv_frame s) (sp_max_frames_behind s) (sp_catchup_speed s).

(* what the caller of advance_frame observes: Ok(requests) - one AdvanceFrame{inputs} per element -
   or Err(e); in both cases together with the state the session is left in *)
Inductive sp_outcome := sp_Delivered (requests : list (list (Z * sp_istatus))) | sp_Failed (e : sp_error).

(* the `for _ in 0..frames_to_advance` loop: `?` returns the error and drops the requests pushed
   so far, but current_frame keeps the increments already made *)
Fixpoint sp_advance_loop (n : nat) (s : sp_state) : res (sp_state * sp_outcome) :=
  match n with
  | O => Ok (s, sp_Delivered [])
  | S k =>
      match sp_inputs_at_frame s (sp_current_frame s + 1) with
      | Panic => Panic
      | Err => Err
      | Ok (sp_Fail e) => Ok (s, sp_Failed e)
      | Ok (sp_Got v) =>
          match sp_advance_loop k (sp_set_current s (sp_current_frame s + 1)) with
          | Ok (s', sp_Delivered l) => Ok (s', sp_Delivered (v :: l))
          | r => r
          end
      end
  end.

Definition sp_frames_to_advance (s : sp_state) (frames_behind : Z) : Z :=
  if sp_max_frames_behind s <? frames_behind
  then Z.min (Z.min (sp_catchup_speed s) frames_behind) (SPECTATOR_BUFFER_SIZE - 1)
  else NORMAL_SPEED.

(* advance_frame, after its poll_remote_clients *)
Definition sp_advance (s : sp_state) : res (sp_state * sp_outcome) :=
  if negb (sp_running s) then Ok (s, sp_Failed sp_NotSynchronized) else
  res_bind (sp_frames_behind s) (fun behind =>
    sp_advance_loop (Z.to_nat (sp_frames_to_advance s behind)) s).

(* ---- operation sequences (used by the theorems and the non-vacuity examples) ---- *)

(* the Input events of one frame as the endpoint emits them: player 0, 1, 2, ... in order, each
   with its value and the endpoint's peer_connect_status at the time the event is handled *)
Fixpoint sp_feed (s : sp_state) (player frame : Z) (evs : list (Z * list sp_cstatus)) : res sp_state :=
  match evs with
  | [] => Ok s
  | (v, st) :: r => res_bind (sp_handle_input s player frame v st) (fun s' => sp_feed s' (player + 1) frame r)
  end.

Inductive sp_hop :=
| sp_HFrame (evs : list (Z * list sp_cstatus))     (* the next frame arrives: one event per player *)
| sp_HSync                                          (* Event::Synchronized *)
| sp_HAdvance.                                      (* advance_frame() *)

Record sp_trace := sp_mkt {
  sp_t_state : sp_state;
  sp_t_nframes : Z;                                 (* frames received so far = next frame number *)
  sp_t_calls : list sp_outcome }.                   (* result of every advance_frame call, in order *)

Definition sp_hstep (t : sp_trace) (o : sp_hop) : res sp_trace :=
  match o with
  | sp_HFrame evs =>
      res_bind (sp_feed (sp_t_state t) 0 (sp_t_nframes t) evs) (fun s' =>
        Ok (sp_mkt s' (sp_t_nframes t + 1) (sp_t_calls t)))
  | sp_HSync => Ok (sp_mkt (sp_handle_synchronized (sp_t_state t)) (sp_t_nframes t) (sp_t_calls t))
  | sp_HAdvance =>
      res_bind (sp_advance (sp_t_state t)) (fun '(s', o) =>
        Ok (sp_mkt s' (sp_t_nframes t) (sp_t_calls t ++ [o])))
  end.

Fixpoint sp_hrun (t : sp_trace) (ops : list sp_hop) : res sp_trace :=
  match ops with
  | [] => Ok t
  | o :: r => res_bind (sp_hstep t o) (fun t' => sp_hrun t' r)
  end.

Definition sp_start (num_players max_frames_behind catchup_speed : Z) : sp_trace :=
  sp_mkt (sp_new num_players max_frames_behind catchup_speed) 0 [].

(* every AdvanceFrame request ever returned, in order *)
Definition sp_delivered (calls : list sp_outcome) : list (list (Z * sp_istatus)) :=
  flat_map (fun o => match o with sp_Delivered l => l | sp_Failed _ => [] end) calls.

(* the host's timeline as the op sequence delivers it: the values of frame 0, 1, 2, ... *)
Fixpoint sp_hist (ops : list sp_hop) : list (list Z) :=
  match ops with
  | [] => []
  | sp_HFrame evs :: r => map fst evs :: sp_hist r
  | _ :: r => sp_hist r
  end.

(* the peer_connect_status copied by the last Input event of the sequence ([d] if there is none) *)
Fixpoint sp_last_status (d : list sp_cstatus) (ops : list sp_hop) : list sp_cstatus :=
  match ops with
  | [] => d
  | sp_HFrame evs :: r => sp_last_status (last (map snd evs) d) r
  | _ :: r => sp_last_status d r
  end.

(* hypothesis on the op sequence (guaranteed by the endpoint: UdpProtocol::on_input emits, for each
   new frame, one event per player handle; the endpoint keeps num_players connection statuses) *)
Definition sp_wf (num_players : Z) (ops : list sp_hop) : Prop :=
  Forall (fun o => match o with
                   | sp_HFrame evs => Z.of_nat (length evs) = num_players /\
                                      Forall (fun e => Z.of_nat (length (snd e)) = num_players) evs
                   | _ => True
                   end) ops.
