(* Model of src/time_sync.rs (the two 30-entry windows and their f32 average) and of the
   frame-advantage arithmetic of src/network/protocol.rs
   (update_local_frame_advantage, the i16 clamp of send_quality_report, on_quality_reply).

   Floating point is IEEE-754 binary32 exactly as rustc compiles `f32`: Flocq's
   [binary_float 24 128] with round-to-nearest-even for int->float, division and subtraction,
   and Rust's saturating `as i32` for the final cast.  Integer arithmetic is i32 with the
   overflow behaviour of the build profile: [dbg = true] (overflow-checks) panics, release wraps. *)
From Coq Require Import ZArith List Bool.
From Flocq Require Import IEEE754.BinarySingleNaN.
From GGRS Require Import Base Consts.
Open Scope Z_scope.

(* ---------- i32 / i16 ---------- *)
Definition TS_I32_MIN : Z := -2147483648.
Definition TS_I32_MAX : Z := 2147483647.
Definition TS_I16_MIN : Z := -32768.
Definition TS_I16_MAX : Z := 32767.

Definition ts_in_i32 (x : Z) : bool := (TS_I32_MIN <=? x) && (x <=? TS_I32_MAX).
Definition ts_in_i16 (x : Z) : bool := (TS_I16_MIN <=? x) && (x <=? TS_I16_MAX).
(* two's complement truncation to 32 bits (`as i32`, and wrapping arithmetic in release builds) *)
Definition ts_wrap_i32 (x : Z) : Z := (x + 2147483648) mod 4294967296 - 2147483648.
(* the mathematically exact result [x] of an i32 `+`, `-` or `*` *)
Definition ts_i32_arith (dbg : bool) (x : Z) : res Z :=
  if ts_in_i32 x then Ok x else if dbg then Panic else Ok (ts_wrap_i32 x).

(* ---------- binary32 ---------- *)
Definition f32 : Set := binary_float 24 128.
Definition ts_prec_gt_0 : FLX.Prec_gt_0 24 := eq_refl.
Definition ts_prec_lt_emax : Prec_lt_emax 24 128 := eq_refl.

(* `z as f32` for an integer z (i32 or usize): nearest, ties to even *)
Definition f32_of_Z (z : Z) : f32 :=
  binary_normalize 24 128 ts_prec_gt_0 ts_prec_lt_emax mode_NE z 0 false.
Definition f32_div (a b : f32) : f32 := @Bdiv 24 128 ts_prec_gt_0 ts_prec_lt_emax mode_NE a b.
Definition f32_sub (a b : f32) : f32 := @Bminus 24 128 ts_prec_gt_0 ts_prec_lt_emax mode_NE a b.
(* `x as i32`: truncate toward zero, saturate, NaN -> 0 *)
Definition i32_of_f32 (x : f32) : Z :=
  match x with
  | B754_nan => 0
  | B754_infinity s => if s then TS_I32_MIN else TS_I32_MAX
  | B754_zero _ => 0
  | B754_finite _ _ _ _ => Z.max TS_I32_MIN (Z.min TS_I32_MAX (Btrunc x))
  end.

(* ---------- TimeSync ---------- *)
Record time_sync : Set := { ts_local : list Z; ts_remote : list Z }.

Definition ts_new : time_sync :=
  {| ts_local := repeat 0 (Z.to_nat FRAME_WINDOW_SIZE);
     ts_remote := repeat 0 (Z.to_nat FRAME_WINDOW_SIZE) |}.

Fixpoint ts_set_nth (i : nat) (v : Z) (l : list Z) : list Z :=
  match l with
  | [] => []
  | x :: t => match i with O => v :: t | S j => x :: ts_set_nth j v t end
  end.

(* `frame as usize % len`: an i32 sign-extends to 64 bits, so -1 becomes 2^64-1 *)
Definition ts_index (frame len : Z) : Z := (frame mod 18446744073709551616) mod len.

(* `x % 0` panics (only reachable if FRAME_WINDOW_SIZE were 0); the index is then always in bounds *)
Definition ts_advance_frame (ts : time_sync) (frame local_adv remote_adv : Z) : res time_sync :=
  let ll := Z.of_nat (length (ts_local ts)) in
  let lr := Z.of_nat (length (ts_remote ts)) in
  if (ll =? 0) || (lr =? 0) then Panic
  else Ok {| ts_local := ts_set_nth (Z.to_nat (ts_index frame ll)) local_adv (ts_local ts);
             ts_remote := ts_set_nth (Z.to_nat (ts_index frame lr)) remote_adv (ts_remote ts) |}.

(* `iter().sum::<i32>()`: left fold from 0 with the profile's overflow behaviour *)
Fixpoint ts_sum_from (dbg : bool) (acc : Z) (l : list Z) : res Z :=
  match l with
  | [] => Ok acc
  | x :: t => match ts_i32_arith dbg (acc + x) with
              | Ok a => ts_sum_from dbg a t
              | Err => Err
              | Panic => Panic
              end
  end.
Definition ts_sum (dbg : bool) (l : list Z) : res Z := ts_sum_from dbg 0 l.

(* local_avg = local_sum as f32 / len as f32 *)
Definition ts_window_avg (sum len : Z) : f32 := f32_div (f32_of_Z sum) (f32_of_Z len).
(* ((remote_avg - local_avg) / 2.0) as i32 *)
Definition ts_meet (local_avg remote_avg : f32) : Z :=
  i32_of_f32 (f32_div (f32_sub remote_avg local_avg) (f32_of_Z 2)).
(* the result as a function of the two window sums (windows of FRAME_WINDOW_SIZE entries) *)
Definition ts_avg_of_sums (local_sum remote_sum : Z) : Z :=
  ts_meet (ts_window_avg local_sum FRAME_WINDOW_SIZE) (ts_window_avg remote_sum FRAME_WINDOW_SIZE).

Definition ts_average_frame_advantage (dbg : bool) (ts : time_sync) : res Z :=
  match ts_sum dbg (ts_local ts) with
  | Ok sl =>
    let la := ts_window_avg sl (Z.of_nat (length (ts_local ts))) in
    match ts_sum dbg (ts_remote ts) with
    | Ok sr =>
      let ra := ts_window_avg sr (Z.of_nat (length (ts_remote ts))) in
      Ok (ts_meet la ra)
    | Err => Err
    | Panic => Panic
    end
  | Err => Err
  | Panic => Panic
  end.

(* ---------- UdpProtocol: frame advantage ---------- *)
(* on_quality_reply: round_trip_time = millis.saturating_sub(pong)   (u128) *)
Definition ts_round_trip_time (now pong : Z) : Z := Z.max 0 (now - pong).

(* i32::try_from(round_trip_time / 2).unwrap_or(i32::MAX)   (round_trip_time : u128, >= 0) *)
Definition ts_ping (rtt : Z) : Z := let h := rtt / 2 in if h <=? TS_I32_MAX then h else TS_I32_MAX.

(* update_local_frame_advantage: [cur] is the stored local_frame_advantage, the result its new value.
   `fps as i32` truncates a usize; `*`, `+`, `-` are i32 operations, `/ 1000` truncates toward zero. *)
Definition ts_update_local_frame_advantage (dbg : bool)
    (rtt fps last_recv_frame local_frame cur : Z) : res Z :=
  if (local_frame =? NULL) || (last_recv_frame =? NULL) then Ok cur
  else
    match ts_i32_arith dbg (ts_ping rtt * ts_wrap_i32 fps) with
    | Ok prod =>
      match ts_i32_arith dbg (last_recv_frame + Z.quot prod 1000) with
      | Ok remote_frame => ts_i32_arith dbg (remote_frame - local_frame)
      | Err => Err
      | Panic => Panic
      end
    | Err => Err
    | Panic => Panic
    end.

(* send_quality_report: i16::try_from(adv.clamp(i16::MIN, i16::MAX)).expect(..) *)
Definition ts_clamp_i16 (x : Z) : Z := Z.max TS_I16_MIN (Z.min TS_I16_MAX x).
Definition ts_report_frame_advantage (adv : Z) : res Z :=
  let c := ts_clamp_i16 adv in if ts_in_i16 c then Ok c else Panic.

(* ---------- the recommendation gate (P2PSession::check_wait_recommendation) ----------
   state: next_recommended_sleep (0 when the session is built); one call per advance_frame with the
   current frame [cf] and frames_ahead [fa] (both i32).  The event carries fa converted with
   u32::try_from(..).expect(..): a negative fa at that point would be a panic. *)
Definition gate_init : Z := 0.
Definition gate_step (next cf fa : Z) : res (Z * option Z) :=
  if (next <? cf) && (MIN_RECOMMENDATION <=? fa)
  then (if fa <? 0 then Panic else Ok (cf + RECOMMENDATION_INTERVAL, Some fa))
  else Ok (next, None).

(* a run of calls; the trace lists (cf, fa, event); a panic ends it *)
Fixpoint gate_run (next : Z) (calls : list (Z * Z)) : list (Z * Z * option Z) :=
  match calls with
  | [] => []
  | (cf, fa) :: r =>
    match gate_step next cf fa with
    | Ok (n', o) => (cf, fa, o) :: gate_run n' r
    | _ => []
    end
  end.
