(* C13: SyncTestSession never raises a false alarm for a deterministic game, its request lists obey
   the request contract with Confirmed, correctly delayed inputs, and a game whose saves of one frame
   F >= 2 differ is caught at the call made at current_frame = max(F, check_distance) + 2.
   Induction over the calls of a run (SyncTestSpec.st_run) with an invariant made of
   - the per-queue invariants of SyncTestQ.v (on top of RInv of QueueProofs.v),
   - the saved-state cells (session side and game side),
   - the checksum history. *)
From GGRS Require Import Base Consts Queue QueueProofs Sync SyncTest SyncTestSpec SyncTestQ Builder BuilderSpec BuilderProofs.
From Coq Require Import ZifyBool ZifyNat ZifyN.
Ltac Zify.zify_post_hook ::= Z.div_mod_to_equations.
Open Scope Z_scope.

Lemma QLEN_is : QLEN = INPUT_QUEUE_LENGTH.
Proof. reflexivity. Qed.

(* ---------- generic helpers ---------- *)
Lemma st_sync_go : forall predict cur qs st vals,
  length st = length qs -> length vals = length qs ->
  Forall (fun x => cs_disc x = false) st ->
  (forall p, (p < length qs)%nat ->
     input predict (nth p qs q_new) cur = Ok (set_last_requested (nth p qs q_new) cur, (nth p vals 0, Confirmed))) ->
  sync_inputs_go predict cur qs st =
    Ok (map (fun q => set_last_requested q cur) qs, map (fun v => (v, Confirmed)) vals).
Proof.
  intros predict cur. induction qs as [|q qs IH]; intros st vals Hs Hv Hd H.
  - destruct st; [|discriminate]. destruct vals; [|discriminate]. reflexivity.
  - destruct st as [|c st]; [discriminate|]. destruct vals as [|v vals]; [discriminate|].
    cbn [sync_inputs_go]. inversion Hd as [|? ? Hc Hd']; subst. rewrite Hc. cbn [andb].
    pose proof (H 0%nat ltac:(cbn; lia)) as H0. cbn [nth] in H0. rewrite H0. cbn [res_bind].
    rewrite (IH st vals); cbn [length] in Hs, Hv; try lia; auto.
    intros p Hp. apply (H (S p)). cbn [length]. lia.
Qed.

Lemma st_max_fi_null : forall qs, Forall (fun q => q_first_incorrect q = NULL) qs -> max_first_incorrect qs = NULL.
Proof.
  unfold max_first_incorrect. induction qs as [|q qs IH]; intro H; [reflexivity|].
  inversion H; subst. cbn [fold_left]. rewrite H2. replace (Z.max NULL NULL) with NULL by reflexivity.
  apply IH. assumption.
Qed.

Lemma st_opt_eqb_eq : forall a b, st_opt_eqb a b = true <-> a = b.
Proof.
  intros [a|] [b|]; cbn; split; intro H; try discriminate; try reflexivity.
  - f_equal. lia.
  - inversion H. lia.
Qed.

Lemma st_list_eqb_refl {A} (e : A -> A -> bool) : (forall x, e x x = true) -> forall l, st_list_eqb e l l = true.
Proof. intros He. induction l as [|x r IH]; cbn; [reflexivity|]. rewrite He, IH. reflexivity. Qed.

Lemma st_tl_eqb_refl : forall t, st_tl_eqb t t = true.
Proof.
  apply st_list_eqb_refl. apply st_list_eqb_refl. intros [v s]. cbn. rewrite Z.eqb_refl. destruct s; reflexivity.
Qed.

(* association-list history *)
Lemma st_get_app : forall h f v x,
  st_hist_get (h ++ [(f, v)]) x =
  match st_hist_get h x with Some y => Some y | None => if f =? x then Some v else None end.
Proof.
  induction h as [|[k' v'] r IH]; intros f v x; cbn [app st_hist_get]; [reflexivity|].
  destruct (k' =? x); [reflexivity|apply IH].
Qed.

Lemma st_get_filter : forall (p : Z -> bool) h x,
  st_hist_get (filter (fun e : Z * option Z => p (fst e)) h) x = if p x then st_hist_get h x else None.
Proof.
  intros p. induction h as [|[k' v'] r IH]; intro x; cbn [filter st_hist_get fst].
  - destruct (p x); reflexivity.
  - destruct (p k') eqn:Ep; cbn [st_hist_get]; destruct (Z.eqb_spec k' x) as [->|Hn]; rewrite ?Ep; auto.
    rewrite IH. rewrite Ep. reflexivity.
Qed.

Lemma st_filter_idem {A} (p : A -> bool) : forall l, filter p (filter p l) = filter p l.
Proof.
  induction l as [|x r IH]; cbn; [reflexivity|]. destruct (p x) eqn:E; cbn; rewrite ?E, IH; reflexivity.
Qed.

Lemma st_filter_id {A} (p : A -> bool) : forall l, (forall x, In x l -> p x = true) -> filter p l = l.
Proof.
  induction l as [|x r IH]; intro H; cbn; [reflexivity|]. rewrite (H x (or_introl eq_refl)). f_equal.
  apply IH. intros y Hy. apply H. right. exact Hy.
Qed.

Lemma st_forall_updz {A} (P : A -> Prop) : forall l i x, Forall P l -> P x -> Forall P (updz l i x).
Proof.
  induction l as [|y r IH]; intros [|i] x Hl Hx; cbn; auto; inversion Hl; subst; constructor; auto.
Qed.

Lemma st_skipn_cons {A} : forall n (l : list A) x r d, skipn n l = x :: r -> nth n l d = x /\ skipn (S n) l = r /\ (n < length l)%nat.
Proof.
  induction n as [|n IH]; intros [|y l] x r d H; cbn in *; try discriminate.
  - inversion H. repeat split; auto. lia.
  - destruct (IH l x r d H) as (A1 & A2 & A3). repeat split; auto. lia.
Qed.

Lemma st_exec_app : forall ck l1 l2 x,
  st_exec ck x (l1 ++ l2) = match st_exec ck x l1 with Some x' => st_exec ck x' l2 | None => None end.
Proof.
  intros ck. induction l1 as [|r l1 IH]; intros l2 x; cbn [app st_exec]; [reflexivity|].
  destruct (st_exec_one ck x r); [apply IH|reflexivity].
Qed.

(* the supplied inputs as they sit in local_inputs *)
Fixpoint st_sup_list (h cur : Z) (vs : list Z) : list (Z * (Z * Z)) :=
  match vs with [] => [] | v :: r => (h, (cur, v)) :: st_sup_list (h + 1) cur r end.

Lemma st_put_end : forall l h x, (forall e, In e l -> fst e < h) -> st_put l h x = l ++ [(h, x)].
Proof.
  induction l as [|[k' y] r IH]; intros h x H; cbn [st_put app]; [reflexivity|].
  pose proof (H (k', y) (or_introl eq_refl)) as Hk. cbn in Hk.
  assert ((h <? k') = false) as -> by lia. assert ((h =? k') = false) as -> by lia.
  f_equal. apply IH. intros e He. apply H. right. exact He.
Qed.

Lemma st_supply_ok : forall vs s h,
  (forall e, In e (st_locals s) -> fst e < h) -> h + Z.of_nat (length vs) <= st_np s ->
  st_supply s h vs = Ok (st_with_locals s (st_locals s ++ st_sup_list h (s_current (st_sync s)) vs)).
Proof.
  induction vs as [|v vs IH]; intros s h Hl Hn.
  - cbn [st_supply st_sup_list]. rewrite app_nil_r. destruct s; reflexivity.
  - cbn [st_supply st_sup_list]. unfold st_add_local_input.
    cbn [length] in Hn. assert ((st_np s <=? h) = false) as -> by lia. cbn [res_bind].
    rewrite st_put_end by exact Hl.
    rewrite IH.
    + cbn [st_with_locals st_locals st_sync]. rewrite <- app_assoc. reflexivity.
    + cbn [st_with_locals st_locals]. intros e He. apply in_app_or in He. destruct He as [He|[<-|[]]].
      * specialize (Hl e He). lia.
      * cbn. lia.
    + cbn [st_with_locals st_np]. lia.
Qed.

(* ---------- a whole run ---------- *)
Section Run.
Variable predict : Z -> Z.
Variable ck : nat -> st_timeline -> option Z.
Variables np w d k : Z.
Variable ins : list (list Z).
Hypothesis Hnp : 1 <= np.
Hypothesis Hd : 0 <= d < w.
Hypothesis Hk : 0 <= k.
Hypothesis Hcap : k + d + 2 <= QLEN.
Hypothesis Hins : Forall (fun vs => Z.of_nat (length vs) = np) ins.

Let npn : nat := Z.to_nat np.
(* the value player p submits at user frame j *)
Definition st_up (p : nat) (j : Z) : Z := nth p (nth (Z.to_nat j) ins []) 0.
Definition st_E (f : Z) : st_finputs := st_expected np ins k f.
Definition st_TL (n : nat) : st_timeline := map st_E (st_zrange 0 n).

Lemma st_dl_delayed : forall p f, st_dl k (st_up p) f = st_delayed ins k f p.
Proof. reflexivity. Qed.

Lemma st_TL_length : forall n, length (st_TL n) = n.
Proof. intro n. unfold st_TL. rewrite map_length, st_zrange_length. reflexivity. Qed.

Lemma st_TL_S : forall n, st_TL (S n) = st_TL n ++ [st_E (Z.of_nat n)].
Proof. intro n. unfold st_TL. rewrite st_zrange_S, map_app. reflexivity. Qed.

Lemma st_TL_firstn : forall n m, (n <= m)%nat -> firstn n (st_TL m) = st_TL n.
Proof.
  intros n m H. unfold st_TL. rewrite firstn_map. f_equal.
  replace m with (n + (m - n))%nat by lia. rewrite st_zrange_app.
  rewrite firstn_app, st_zrange_length, Nat.sub_diag. cbn [firstn]. rewrite app_nil_r.
  rewrite firstn_all2 by (rewrite st_zrange_length; lia). reflexivity.
Qed.

Definition QIp (p : nat) (c : Z) (q : queue) : Prop := QI k d (st_up p) c q.
Definition QAp (p : nat) (c : Z) (q : queue) : Prop := QA k d (st_up p) c q.

(* frame bookkeeping of the sync layer: y is at frame cur inside the call made at frame c *)
Record SY (c cur : Z) (y : sync) : Prop := {
  sy_w : s_maxpred y = w;
  sy_cur : s_current y = cur;
  sy_nq : length (s_queues y) = npn;
  sy_q : forall p, (p < npn)%nat -> QIp p c (nth p (s_queues y) q_new) }.

(* the session state inside the call made at frame c, apart from local_inputs, history and cells *)
Definition st_status_ok (status : list cstat) : Prop :=
  length status = npn /\ Forall (fun x => cs_disc x = false) status.

Record FB (c : Z) (s : st_state) : Prop := {
  fb_np : st_np s = np;
  fb_w : st_maxpred s = w;
  fb_d : st_dist s = d;
  fb_st : st_status_ok (st_status s);
  fb_sy : SY c c (st_sync s) }.

(* ... at the start of the call (before the inputs are supplied) *)
Definition FIa (c : Z) (s : st_state) : Prop := FB c s /\ st_locals s = [].

Definition st_dflt : Z * option Z := (NULL, None).
Definition st_cellof (s : st_state) (f : Z) : Z * option Z :=
  nth (Z.to_nat (f mod (st_maxpred s + 1))) (st_cells s) st_dflt.

(* the cells as the session sees them: every frame of the last w+1 is held, with checksum cs f *)
Record CI (c : Z) (cs : Z -> option Z) (s : st_state) : Prop := {
  ci_len : length (st_cells s) = Z.to_nat (w + 1);
  ci_lt : Forall (fun e => fst e < c) (st_cells s);
  ci_held : 0 < d -> forall f, 0 <= f < c -> c - f <= w + 1 ->
            nth (Z.to_nat (f mod (w + 1))) (st_cells s) st_dflt = (f, cs f) }.

(* the game: its state is the expected timeline, its cells hold the states of the last w+1 frames *)
Record GI (c : Z) (g : st_game) : Prop := {
  gi_tl : sg_tl g = st_TL (Z.to_nat c);
  gi_len : length (sg_cells g) = Z.to_nat (w + 1);
  gi_held : 0 < d -> forall f, 0 <= f < c -> c - f <= w + 1 ->
            nth (Z.to_nat (f mod (w + 1))) (sg_cells g) (NULL, []) = (f, st_TL (Z.to_nat f));
  gi_log : Forall (fun e => snd e = st_E (fst e)) (sg_log g) }.

(* the checksum history: exactly the frames c-1-d .. c-2 once checks have started, each with the
   checksum fr f it was first seen with *)
Definition st_olddom (c x : Z) : bool := (d + 1 <? c) && (c - 1 - d <=? x) && (x <=? c - 2).
Definition HI (c : Z) (fr : Z -> option Z) (h : list (Z * option Z)) : Prop :=
  forall x, st_hist_get h x = if st_olddom c x then Some (fr x) else None.

(* ----- supplying the inputs ----- *)
Lemma st_sup_list_length : forall vs h cur, length (st_sup_list h cur vs) = length vs.
Proof. induction vs as [|v vs IH]; intros h cur; cbn; auto. Qed.

Lemma st_ins_nth_len : forall c, (Z.to_nat c < length ins)%nat -> length (nth (Z.to_nat c) ins []) = npn.
Proof.
  intros c Hc. rewrite Forall_forall in Hins.
  specialize (Hins (nth (Z.to_nat c) ins []) (nth_In _ _ Hc)). unfold npn. lia.
Qed.

Lemma st_supply_call : forall c s, 0 <= c -> (Z.to_nat c < length ins)%nat -> FIa c s ->
  st_supply s 0 (nth (Z.to_nat c) ins []) =
    Ok (st_with_locals s (st_sup_list 0 c (nth (Z.to_nat c) ins []))).
Proof.
  intros c s Hc Hlt [F HL].
  rewrite st_supply_ok.
  - rewrite HL, (sy_cur _ _ _ (fb_sy _ _ F)). reflexivity.
  - rewrite HL. intros e [].
  - rewrite (fb_np _ _ F), st_ins_nth_len by assumption. unfold npn. lia.
Qed.

Lemma FB_locals : forall c s l, FB c s -> FB c (st_with_locals s l).
Proof. intros c s l [A B C D E]. constructor; cbn; auto. Qed.

(* ----- the checksum comparison ----- *)
Definition st_held (s : st_state) (f : Z) : bool := fst (st_cellof s f) =? f.

Lemma st_consistent_spec : forall s h f, 0 <= f ->
  (forall e, In e h -> (s_current (st_sync s) - st_dist s <=? fst e) = true) ->
  st_checksums_consistent s h f =
    Ok (if st_held s f then
          match st_hist_get h f with
          | Some v => (h, st_opt_eqb v (snd (st_cellof s f)))
          | None => (h ++ [(f, snd (st_cellof s f))], true)
          end
        else (h, true)).
Proof.
  intros s h f Hf Hh. unfold st_checksums_consistent, st_held, st_cellof, st_dflt.
  rewrite (st_filter_id _ h Hh).
  assert ((f <? 0) = false) as -> by lia.
  destruct (Z.eqb_spec (fst (nth (Z.to_nat (f mod (st_maxpred s + 1))) (st_cells s) (NULL, None))) f) as [E|E]; cbn [negb].
  - rewrite E. destruct (st_hist_get h f); reflexivity.
  - reflexivity.
Qed.

Lemma st_consistent_filter : forall s h f,
  st_checksums_consistent s h f =
  st_checksums_consistent s (filter (fun e => s_current (st_sync s) - st_dist s <=? fst e) h) f.
Proof. intros s h f. unfold st_checksums_consistent. rewrite st_filter_idem. reflexivity. Qed.

Definition st_test (s : st_state) (h : list (Z * option Z)) (f : Z) : bool :=
  st_held s f && match st_hist_get h f with Some v => negb (st_opt_eqb v (snd (st_cellof s f))) | None => false end.

Lemma st_check_go_gen : forall s fs h,
  (forall f, In f fs -> 0 <= f /\ s_current (st_sync s) - st_dist s <= f) -> NoDup fs ->
  (forall e, In e h -> (s_current (st_sync s) - st_dist s <=? fst e) = true) ->
  exists h', st_check_go s h fs = Ok (h', filter (st_test s h) fs) /\
    (forall e, In e h' -> (s_current (st_sync s) - st_dist s <=? fst e) = true) /\
    (forall x, st_hist_get h' x =
       match st_hist_get h x with
       | Some v => Some v
       | None => if existsb (Z.eqb x) fs && st_held s x then Some (snd (st_cellof s x)) else None
       end).
Proof.
  intros s. induction fs as [|f r IH]; intros h Hfs Hnd Hh.
  - exists h. cbn [st_check_go filter existsb andb]. repeat split; auto.
    intro x. destruct (st_hist_get h x); reflexivity.
  - destruct (Hfs f (or_introl eq_refl)) as [Hf0 Hfd]. inversion Hnd as [|? ? Hnin Hnd']; subst.
    cbn [st_check_go]. rewrite (st_consistent_spec s h f Hf0 Hh).
    assert (Hfs' : forall f0, In f0 r -> 0 <= f0 /\ s_current (st_sync s) - st_dist s <= f0)
      by (intros; apply Hfs; right; assumption).
    destruct (st_held s f) eqn:Eh.
    + destruct (st_hist_get h f) as [v|] eqn:Eg.
      * destruct (IH h Hfs' Hnd' Hh) as (h' & E & Hh' & Hg). cbn [res_bind]. cbv beta iota. rewrite E. cbn [res_bind].
        exists h'. split; [|split; [exact Hh'|]].
        -- assert (Et : st_test s h f = negb (st_opt_eqb v (snd (st_cellof s f)))) by (unfold st_test; rewrite Eh, Eg; reflexivity).
           cbn [filter]. rewrite Et.
           destruct (st_opt_eqb v (snd (st_cellof s f))); reflexivity.
        -- intro x. rewrite Hg. destruct (st_hist_get h x) eqn:Ex; [reflexivity|].
           cbn [existsb]. destruct (Z.eqb_spec x f) as [->|Hn]; [congruence|reflexivity].
      * set (h1 := h ++ [(f, snd (st_cellof s f))]).
        assert (Hh1 : forall e, In e h1 -> (s_current (st_sync s) - st_dist s <=? fst e) = true).
        { intros e He. apply in_app_or in He. destruct He as [He|[<-|[]]]; [apply Hh; exact He|]. cbn. lia. }
        destruct (IH h1 Hfs' Hnd' Hh1) as (h' & E & Hh' & Hg). cbn [res_bind]. cbv beta iota. rewrite E. cbn [res_bind].
        exists h'. split; [|split; [exact Hh'|]].
        -- assert (Et : st_test s h f = false) by (unfold st_test; rewrite Eh, Eg; reflexivity).
           cbn [filter]. rewrite Et.
           f_equal. f_equal. apply filter_ext_in. intros f' Hf'. unfold st_test. subst h1.
           rewrite st_get_app. destruct (st_hist_get h f'); [reflexivity|].
           destruct (Z.eqb_spec f f') as [->|Hn]; [contradiction|reflexivity].
        -- intro x. rewrite Hg. subst h1. rewrite st_get_app.
           destruct (st_hist_get h x) eqn:Ex; [reflexivity|].
           cbn [existsb]. destruct (Z.eqb_spec f x) as [->|Hn].
           ++ rewrite Z.eqb_refl. cbn [orb andb]. rewrite Eh. reflexivity.
           ++ assert ((x =? f) = false) as -> by lia. reflexivity.
    + destruct (IH h Hfs' Hnd' Hh) as (h' & E & Hh' & Hg). cbn [res_bind]. cbv beta iota. rewrite E. cbn [res_bind].
      exists h'. split; [|split; [exact Hh'|]].
      * assert (Et : st_test s h f = false) by (unfold st_test; rewrite Eh; reflexivity).
        cbn [filter]. rewrite Et. reflexivity.
      * intro x. rewrite Hg. destruct (st_hist_get h x) eqn:Ex; [reflexivity|].
        cbn [existsb]. destruct (Z.eqb_spec x f) as [->|Hn]; [|reflexivity].
        rewrite Eh, andb_false_r. cbn [orb].
        destruct (existsb (Z.eqb f) r); reflexivity.
Qed.

Lemma st_zrange_nodup : forall n a, NoDup (st_zrange a n).
Proof.
  induction n as [|n IH]; intro a; cbn [st_zrange]; constructor; [|apply IH].
  rewrite st_zrange_in. lia.
Qed.

Lemma st_existsb_zrange : forall n a x, existsb (Z.eqb x) (st_zrange a n) = (a <=? x) && (x <? a + Z.of_nat n).
Proof.
  intros n a x. destruct (existsb (Z.eqb x) (st_zrange a n)) eqn:E.
  - apply existsb_exists in E. destruct E as (y & Hy & Exy). apply st_zrange_in in Hy. lia.
  - destruct ((a <=? x) && (x <? a + Z.of_nat n)) eqn:E2; [|reflexivity].
    assert (Hin : In x (st_zrange a n)) by (apply st_zrange_in; lia).
    assert (existsb (Z.eqb x) (st_zrange a n) = true) by (apply existsb_exists; exists x; split; [exact Hin|lia]).
    congruence.
Qed.

(* the comparison of the call made at frame c > d > 0 *)
Lemma st_check_call : forall c cs fr s,
  0 < d -> d < c -> st_maxpred s = w -> st_dist s = d -> s_current (st_sync s) = c ->
  CI c cs s -> HI c fr (st_history s) ->
  (forall f, c - d <= f <= c - 1 -> st_olddom c f = false -> fr f = cs f) ->
  exists h', st_check_go s (st_history s) (st_zrange (c - d) (Z.to_nat (d + 1))) =
      Ok (h', filter (fun f => st_olddom c f && negb (st_opt_eqb (fr f) (cs f))) (st_zrange (c - d) (Z.to_nat (d + 1)))) /\
    HI (c + 1) fr h'.
Proof.
  intros c cs fr s Hd0 Hdc Hw Hdist Hcur C H Hnew.
  set (P := fun e : Z * option Z => s_current (st_sync s) - st_dist s <=? fst e).
  set (R := st_zrange (c - d) (Z.to_nat (d + 1))).
  assert (HR : forall f, In f R <-> c - d <= f <= c) by (intro f; subst R; rewrite st_zrange_in; lia).
  (* the first comparison filters the history; the later ones find it filtered *)
  assert (E0 : st_check_go s (st_history s) R = st_check_go s (filter P (st_history s)) R).
  { subst R. replace (Z.to_nat (d + 1)) with (S (Z.to_nat d)) by lia. cbn [st_zrange st_check_go].
    rewrite st_consistent_filter. reflexivity. }
  rewrite E0.
  destruct (st_check_go_gen s R (filter P (st_history s))) as (h' & E & _ & Hg).
  - intros f Hf. apply HR in Hf. rewrite Hcur, Hdist. lia.
  - apply st_zrange_nodup.
  - intros e He. apply filter_In in He. apply He.
  - exists h'. rewrite E.
    assert (Hheld : forall f, c - d <= f <= c -> st_held s f = (f <? c)).
    { intros f Hf. unfold st_held, st_cellof. rewrite Hw.
      destruct (Z.ltb_spec f c) as [Hlt|Hge].
      - rewrite (ci_held _ _ _ C Hd0 f) by lia. cbn [fst]. lia.
      - assert (f = c) by lia. subst f.
        pose proof (ci_lt _ _ _ C) as HL. rewrite Forall_forall in HL.
        assert (Hi : (Z.to_nat (c mod (w + 1)) < length (st_cells s))%nat) by (rewrite (ci_len _ _ _ C); lia).
        specialize (HL _ (nth_In _ st_dflt Hi)). lia. }
    assert (Hget : forall x, st_hist_get (filter P (st_history s)) x = if (c - d <=? x) && st_olddom c x then Some (fr x) else None).
    { intro x. subst P. rewrite (st_get_filter (fun z => s_current (st_sync s) - st_dist s <=? z)).
      rewrite Hcur, Hdist, (H x). destruct (c - d <=? x); reflexivity. }
    split.
    + f_equal. f_equal. apply filter_ext_in. intros f Hf. apply HR in Hf.
      unfold st_test. rewrite (Hheld f Hf), (Hget f).
      assert ((c - d <=? f) = true) as -> by lia. cbn [andb].
      destruct (st_olddom c f) eqn:Eo.
      * unfold st_olddom in Eo. assert ((f <? c) = true) as -> by lia. cbn [andb].
        unfold st_cellof. rewrite Hw, (ci_held _ _ _ C Hd0 f) by lia. reflexivity.
      * rewrite andb_false_r. reflexivity.
    + intro x. rewrite Hg, Hget. subst R. rewrite st_existsb_zrange.
      unfold st_olddom.
      destruct (Z.leb_spec (c - d) x) as [Hlo|Hlo]; cbn [andb].
      * destruct ((d + 1 <? c) && (c - 1 - d <=? x) && (x <=? c - 2)) eqn:Eo.
        -- assert ((d + 1 <? c + 1) && (c + 1 - 1 - d <=? x) && (x <=? c + 1 - 2) = true) as -> by lia. reflexivity.
        -- destruct (Z.ltb_spec x (c - d + Z.of_nat (Z.to_nat (d + 1)))) as [Hhi|Hhi]; cbn [andb].
           ++ rewrite (Hheld x) by lia. destruct (Z.ltb_spec x c) as [Hxc|Hxc].
              ** assert ((d + 1 <? c + 1) && (c + 1 - 1 - d <=? x) && (x <=? c + 1 - 2) = true) as -> by lia.
                 unfold st_cellof. rewrite Hw, (ci_held _ _ _ C Hd0 x) by lia. cbn [snd].
                 rewrite Hnew; [reflexivity|lia|exact Eo].
              ** assert ((d + 1 <? c + 1) && (c + 1 - 1 - d <=? x) && (x <=? c + 1 - 2) = false) as -> by lia. reflexivity.
           ++ assert ((d + 1 <? c + 1) && (c + 1 - 1 - d <=? x) && (x <=? c + 1 - 2) = false) as -> by lia. reflexivity.
      * assert ((d + 1 <? c + 1) && (c + 1 - 1 - d <=? x) && (x <=? c + 1 - 2) = false) as -> by lia. reflexivity.
Qed.

(* ----- sync layer: reads, resimulation, submissions ----- *)
Lemma SY_ext : forall c cur cur' y y', SY c cur y ->
  s_maxpred y' = s_maxpred y -> s_current y' = cur' -> s_queues y' = s_queues y -> SY c cur' y'.
Proof. intros c cur cur' y y' [A B C D] H1 H2 H3. constructor; rewrite ?H1, ?H3; auto. Qed.

Lemma SY_map : forall c cur y (f : queue -> queue),
  (forall p q, QIp p c q -> QIp p c (f q)) -> SY c cur y -> SY c cur (with_queues y (map f (s_queues y))).
Proof.
  intros c cur y f Hf [A B C D]. constructor; cbn [with_queues s_maxpred s_current s_queues]; auto.
  - rewrite map_length. exact C.
  - intros p Hp. rewrite (nth_map_lt f _ _ q_new q_new) by lia. apply Hf. apply D. exact Hp.
Qed.

Lemma st_expected_vals : forall cur,
  map (fun v => (v, Confirmed)) (map (st_delayed ins k cur) (seq 0 npn)) = st_E cur.
Proof. intro cur. rewrite map_map. reflexivity. Qed.

Lemma st_sync_inputs_gen : forall cur y status,
  s_current y = cur -> length (s_queues y) = npn -> st_status_ok status ->
  (forall p, (p < npn)%nat ->
     input predict (nth p (s_queues y) q_new) cur =
       Ok (set_last_requested (nth p (s_queues y) q_new) cur, (st_delayed ins k cur p, Confirmed))) ->
  synchronized_inputs predict y status =
    Ok (with_queues y (map (fun q => set_last_requested q cur) (s_queues y)), st_E cur).
Proof.
  intros cur y status Hc Hn [Hl Hdisc] H. unfold synchronized_inputs. rewrite Hc.
  rewrite (st_sync_go predict cur (s_queues y) status (map (st_delayed ins k cur) (seq 0 npn))).
  - cbn [res_bind]. rewrite st_expected_vals. reflexivity.
  - lia.
  - rewrite map_length, seq_length. lia.
  - exact Hdisc.
  - intros p Hp. rewrite (nth_map_lt (st_delayed ins k cur) _ _ 0%nat 0) by (rewrite seq_length; lia).
    rewrite seq_nth by lia. apply H. lia.
Qed.

Lemma cell_frame_ext : forall y y' f, s_maxpred y' = s_maxpred y -> s_cells y' = s_cells y ->
  cell_frame y' f = cell_frame y f.
Proof. intros y y' f H1 H2. unfold cell_frame, cell_pos. rewrite H1, H2. reflexivity. Qed.

Lemma st_save_held : forall y, 0 <= s_current y -> cell_frame y (s_current y) = s_current y ->
  exists y', save_current_state y = Ok (y', RSave (s_current y)) /\
    s_maxpred y' = s_maxpred y /\ s_current y' = s_current y /\ s_queues y' = s_queues y /\ s_cells y' = s_cells y.
Proof.
  intros y H0 Hc. unfold save_current_state. assert ((s_current y <? 0) = false) as -> by lia.
  eexists. split; [reflexivity|]. cbn [s_maxpred s_current s_queues s_cells]. repeat split.
  unfold cell_frame in Hc. rewrite <- Hc at 2. apply updz_same.
Qed.

Fixpoint st_resim_reqs (n : nat) (first : bool) (f : Z) : list request :=
  match n with
  | O => []
  | S m => (if first then [] else [RSave f]) ++ RAdvance (st_E f) :: st_resim_reqs m false (f + 1)
  end.

Lemma st_resim_ok : forall n (first : bool) c y f status,
  0 < d -> SY c f y -> st_lo d c <= f -> f + Z.of_nat n <= c -> 0 <= f -> st_status_ok status ->
  (forall f', f + (if first then 1 else 0) <= f' -> f' < f + Z.of_nat n -> cell_frame y f' = f') ->
  exists y', st_resim predict n first y status = Ok (y', st_resim_reqs n first f) /\
    SY c (f + Z.of_nat n) y' /\ s_cells y' = s_cells y.
Proof.
  induction n as [|n IH]; intros first c y f status Hd0 Sy Hlo Hhi Hf0 Hst Hcells.
  - exists y. cbn [st_resim st_resim_reqs]. rewrite Z.add_0_r. auto.
  - cbn [st_resim st_resim_reqs].
    rewrite (st_sync_inputs_gen f y status (sy_cur _ _ _ Sy) (sy_nq _ _ _ Sy) Hst).
    2:{ intros p Hp. rewrite <- st_dl_delayed.
        apply (QI_read predict k d (st_up p) Hk (proj1 Hd) c _ f Hd0 (sy_q _ _ _ Sy p Hp)). lia. }
    cbn [res_bind].
    set (y1 := with_queues y (map (fun q => set_last_requested q f) (s_queues y))).
    assert (S1 : SY c f y1) by (apply SY_map; [intros p q; apply QI_req|exact Sy]).
    assert (Hsv : exists y2 saves, (if first then Ok (y1, []) else res_bind (save_current_state y1) (fun '(y2, rq) => Ok (y2, [rq]))) = Ok (y2, saves) /\
              saves = (if first then [] else [RSave f]) /\
              s_maxpred y2 = s_maxpred y1 /\ s_current y2 = f /\ s_queues y2 = s_queues y1 /\ s_cells y2 = s_cells y).
    { destruct first.
      - exists y1, []. repeat split; auto. apply (sy_cur _ _ _ S1).
      - destruct (st_save_held y1) as (y2 & E & A1 & A2 & A3 & A4).
        + rewrite (sy_cur _ _ _ S1). lia.
        + rewrite (sy_cur _ _ _ S1). rewrite (cell_frame_ext y y1) by reflexivity. apply Hcells; lia.
        + exists y2, [RSave f]. rewrite E, (sy_cur _ _ _ S1). cbn [res_bind]. repeat split; auto.
          rewrite A2. apply (sy_cur _ _ _ S1). }
    destruct Hsv as (y2 & saves & E2 & -> & B1 & B2 & B3 & B4). rewrite E2. cbn [res_bind].
    assert (S2 : SY c (f + 1) (advance_frame y2)).
    { apply (SY_ext c f (f + 1) y1); auto. cbn. rewrite B2. reflexivity. }
    destruct (IH false c (advance_frame y2) (f + 1) status Hd0 S2 ltac:(lia) ltac:(lia) ltac:(lia) Hst) as (y3 & E3 & S3 & C3).
    + intros f' H1 H2. rewrite (cell_frame_ext y (advance_frame y2)).
      * apply Hcells; [destruct first|]; lia.
      * cbn. rewrite B1. reflexivity.
      * cbn. exact B4.
    + rewrite E3. cbn [res_bind]. exists y3. split; [reflexivity|]. split.
      * replace (f + Z.of_nat (S n)) with (f + 1 + Z.of_nat n) by lia. exact S3.
      * rewrite C3. cbn. exact B4.
Qed.

Lemma st_adjust_ok : forall c y status,
  0 < d -> d < c -> SY c c y -> st_status_ok status ->
  (forall f', c - d <= f' < c -> cell_frame y f' = f') ->
  exists y', st_adjust_gamestate predict y status (c - d) =
      Ok (y', RLoad (c - d) :: st_resim_reqs (Z.to_nat d) true (c - d)) /\
    SY c c y' /\ s_cells y' = s_cells y.
Proof.
  intros c y status Hd0 Hdc S Hst Hcells.
  unfold st_adjust_gamestate, load_frame. rewrite (sy_cur _ _ _ S), (sy_w _ _ _ S).
  assert ((c - d =? NULL) = false) as -> by (unfold NULL; lia).
  assert ((c - d <? c) = true) as -> by lia. cbn [negb].
  assert ((c - d <? c - w) = false) as -> by lia.
  assert ((c - d <? 0) = false) as -> by lia.
  rewrite (Hcells (c - d)) by lia. rewrite Z.eqb_refl. cbn [negb res_bind].
  set (y2 := reset_all (with_current y (c - d))).
  assert (S2 : SY c (c - d) y2).
  { subst y2. unfold reset_all. apply SY_map; [intros p q; apply QI_reset|].
    apply (SY_ext c c (c - d) y); auto. }
  rewrite (sy_cur _ _ _ S2), Z.eqb_refl. cbn [negb].
  replace (c - (c - d)) with d by lia.
  destruct (st_resim_ok (Z.to_nat d) true c y2 (c - d) status Hd0 S2) as (y3 & E3 & S3 & C3); try lia; auto.
  - unfold st_lo. lia.
  - intros f' H1 H2. subst y2. rewrite (cell_frame_ext y) by reflexivity. apply Hcells. lia.
  - rewrite E3. cbn [res_bind]. replace (c - d + Z.of_nat (Z.to_nat d)) with c in S3 by lia.
    rewrite (sy_cur _ _ _ S3), Z.eqb_refl. cbn [negb].
    exists y3. split; [reflexivity|]. split; [exact S3|]. rewrite C3. reflexivity.
Qed.

Lemma st_add_all_ok : forall vs h c y,
  0 <= c -> s_maxpred y = w -> s_current y = c -> length (s_queues y) = npn -> (h + length vs = npn)%nat ->
  (forall p, (h <= p < npn)%nat -> QIp p c (nth p (s_queues y) q_new)) ->
  (forall p, (p < h)%nat -> QAp p c (nth p (s_queues y) q_new)) ->
  (forall i, (i < length vs)%nat -> nth i vs 0 = st_up (h + i) c) ->
  exists y', st_add_all y (st_sup_list (Z.of_nat h) c vs) = Ok y' /\
    s_maxpred y' = w /\ s_current y' = c /\ s_cells y' = s_cells y /\ length (s_queues y') = npn /\
    (forall p, (p < npn)%nat -> QAp p c (nth p (s_queues y') q_new)).
Proof.
  induction vs as [|v vs IH]; intros h c y Hc Hw Hcur Hn Hh HI0 HA Hv.
  - exists y. cbn [st_sup_list st_add_all]. cbn [length] in Hh. repeat split; auto.
    intros p Hp. apply HA. lia.
  - cbn [st_sup_list st_add_all]. cbn [length] in Hh.
    unfold add_local_input. rewrite Hcur, Z.eqb_refl. cbn [negb].
    assert (((Z.of_nat h <? 0) || (Z.of_nat (length (s_queues y)) <=? Z.of_nat h)) = false) as -> by lia.
    unfold qnth. rewrite Nat2Z.id.
    pose proof (Hv 0%nat ltac:(cbn; lia)) as Hv0. cbn [nth] in Hv0. rewrite Nat.add_0_r in Hv0. subst v.
    destruct (QI_add predict k d (st_up h) Hk (proj1 Hd) Hcap c _ Hc (HI0 h ltac:(lia))) as (q' & r & E & QA').
    rewrite E. cbn [res_bind].
    set (y1 := with_queues y (updz (s_queues y) h q')).
    replace (Z.of_nat h + 1) with (Z.of_nat (S h)) by lia.
    destruct (IH (S h) c y1 Hc) as (y' & E' & A1 & A2 & A3 & A4 & A5); subst y1; cbn [with_queues s_maxpred s_current s_queues s_cells]; auto.
    + rewrite updz_length. exact Hn.
    + lia.
    + intros p Hp. rewrite nth_updz_other by lia. apply HI0. lia.
    + intros p Hp. destruct (Nat.eq_dec p h) as [->|Hne].
      * rewrite nth_updz_same by lia. exact QA'.
      * rewrite nth_updz_other by lia. apply HA. lia.
    + intros i Hi. replace (S h + i)%nat with (h + S i)%nat by lia. rewrite <- (Hv (S i)) by (cbn; lia). reflexivity.
    + exists y'. split; [exact E'|]. repeat split; auto.
Qed.

(* ----- advance_frame ----- *)
Definition st_tie (s : st_state) : Prop := s_cells (st_sync s) = map fst (st_cells s).

Definition st_bad (c : Z) (cs fr : Z -> option Z) : list Z :=
  if (0 <? d) && (d <? c)
  then filter (fun f => st_olddom c f && negb (st_opt_eqb (fr f) (cs f))) (st_zrange (c - d) (Z.to_nat (d + 1)))
  else [].

Definition st_roll_reqs (c : Z) : list request :=
  if (0 <? d) && (d <? c) then RLoad (c - d) :: st_resim_reqs (Z.to_nat d) true (c - d) else [].

Lemma HI_idle : forall c fr h, ~ (0 < d /\ d < c) -> HI c fr h -> HI (c + 1) fr h.
Proof.
  intros c fr h Hn H x. rewrite (H x). unfold st_olddom.
  destruct (Z.eq_dec d 0) as [E|E].
  - assert ((d + 1 <? c) && (c - 1 - d <=? x) && (x <=? c - 2) = false) as -> by lia.
    assert ((d + 1 <? c + 1) && (c + 1 - 1 - d <=? x) && (x <=? c + 1 - 2) = false) as -> by lia. reflexivity.
  - assert ((d + 1 <? c) = false) as -> by lia. assert ((d + 1 <? c + 1) = false) as -> by lia. reflexivity.
Qed.

Lemma st_held_cells : forall c cs s, 0 < d -> s_maxpred (st_sync s) = w -> st_tie s -> CI c cs s ->
  forall f, 0 <= f < c -> c - f <= w + 1 -> cell_frame (st_sync s) f = f.
Proof.
  intros c cs s Hd0 Hw T C f Hf Hwin. unfold cell_frame, cell_pos. rewrite Hw, T.
  rewrite (nth_map_lt fst _ _ st_dflt NULL) by (rewrite (ci_len _ _ _ C); lia).
  rewrite (ci_held _ _ _ C Hd0 f Hf Hwin). reflexivity.
Qed.

Lemma st_rollback_ok : forall c cs fr s,
  0 <= c -> FB c s -> st_tie s -> CI c cs s -> HI c fr (st_history s) ->
  (0 < d -> d < c -> forall f, c - d <= f <= c - 1 -> st_olddom c f = false -> fr f = cs f) ->
  exists s1 reqs1, st_rollback_phase predict s = Ok (s1, st_bad c cs fr, reqs1) /\
    HI (c + 1) fr (st_history s1) /\
    (st_bad c cs fr <> [] -> s1 = st_with_history s (st_history s1)) /\
    (st_bad c cs fr = [] -> reqs1 = st_roll_reqs c /\ FB c s1 /\ st_locals s1 = st_locals s /\
       st_cells s1 = st_cells s /\ s_cells (st_sync s1) = s_cells (st_sync s)).
Proof.
  intros c cs fr s Hc F T C H Hnew. unfold st_rollback_phase, st_bad, st_roll_reqs.
  pose proof (fb_sy _ _ F) as Sy. rewrite (sy_cur _ _ _ Sy), (fb_d _ _ F).
  destruct ((0 <? d) && (d <? c)) eqn:Ec.
  - assert (Hd0 : 0 < d) by lia. assert (Hdc : d < c) by lia.
    destruct (st_check_call c cs fr s Hd0 Hdc (fb_w _ _ F) (fb_d _ _ F) (sy_cur _ _ _ Sy) C H (Hnew Hd0 Hdc)) as (h' & E & H').
    rewrite E. cbn [res_bind].
    destruct (filter (fun f => st_olddom c f && negb (st_opt_eqb (fr f) (cs f))) (st_zrange (c - d) (Z.to_nat (d + 1)))) as [|b bs] eqn:Eb.
    + destruct (st_adjust_ok c (st_sync s) (st_status s) Hd0 Hdc Sy (fb_st _ _ F)) as (y' & E' & S' & C').
      { intros f' Hf'. apply (st_held_cells c cs s Hd0 (sy_w _ _ _ Sy) T C); lia. }
      cbn [st_with_history st_sync st_status]. rewrite E'. cbn [res_bind].
      eexists; eexists. split; [reflexivity|]. cbn [st_with_sync st_with_history st_history st_locals st_cells st_sync].
      split; [exact H'|]. split; [congruence|]. intros _.
      split; [reflexivity|]. split; [|auto].
      destruct F as [A1 A2 A3 A4 A5]. constructor; cbn; auto.
    + eexists; eexists. split; [reflexivity|]. cbn [st_with_history st_history].
      split; [exact H'|]. split; [reflexivity|]. intro; discriminate.
  - exists s, []. split; [reflexivity|]. split; [apply HI_idle; [lia|exact H]|].
    split; [congruence|]. intros _. auto.
Qed.

Lemma st_advance_tail : forall c s s1 reqs1 vs,
  0 <= c ->
  st_rollback_phase predict s = Ok (s1, [], reqs1) ->
  s_current (st_sync s) = c ->
  FB c s1 -> st_locals s1 = st_sup_list 0 c vs -> length vs = npn ->
  (forall i, (i < npn)%nat -> nth i vs 0 = st_up i c) ->
  exists s', st_advance_frame predict s =
      Ok (s', StRequests (reqs1 ++ (if 0 <? d then [RSave c] else []) ++ [RAdvance (st_E c)])) /\
    FB (c + 1) s' /\ st_locals s' = [] /\ st_cells s' = st_cells s1 /\ st_history s' = st_history s1 /\
    s_cells (st_sync s') =
      (if 0 <? d then updz (s_cells (st_sync s1)) (Z.to_nat (c mod (w + 1))) c else s_cells (st_sync s1)).
Proof.
  intros c s s1 reqs1 vs Hc Hroll Hcur F HL Hlen Hvals.
  pose proof (fb_sy _ _ F) as Sy.
  unfold st_advance_frame. rewrite Hroll. cbn [res_bind]. cbv beta iota.
  rewrite (fb_np _ _ F), HL, st_sup_list_length, Hlen.
  assert ((np =? Z.of_nat npn) = true) as -> by (unfold npn; lia). cbn [negb].
  destruct (st_add_all_ok vs 0%nat c (st_sync s1) Hc (sy_w _ _ _ Sy) (sy_cur _ _ _ Sy) (sy_nq _ _ _ Sy)) as (y2 & E2 & A1 & A2 & A3 & A4 & A5).
  - lia.
  - intros p Hp. apply (sy_q _ _ _ Sy). lia.
  - intros p Hp. lia.
  - intros i Hi. apply Hvals. lia.
  - change (Z.of_nat 0) with 0 in E2. rewrite E2. cbn [res_bind]. rewrite (fb_d _ _ F).
    assert (Hsv : exists y3, (if 0 <? d then res_bind (save_current_state y2) (fun '(y3, rq) => Ok (y3, [rq])) else Ok (y2, []))
                     = Ok (y3, if 0 <? d then [RSave c] else []) /\
              s_maxpred y3 = w /\ s_current y3 = c /\ s_queues y3 = s_queues y2 /\
              s_cells y3 = (if 0 <? d then updz (s_cells (st_sync s1)) (Z.to_nat (c mod (w + 1))) c else s_cells (st_sync s1))).
    { destruct (0 <? d).
      - unfold save_current_state. rewrite A2. assert ((c <? 0) = false) as -> by lia. cbn [res_bind].
        eexists. split; [reflexivity|]. cbn [s_maxpred s_current s_queues s_cells]. repeat split; auto.
        unfold cell_pos. rewrite A1, A3. reflexivity.
      - exists y2. repeat split; auto. }
    destruct Hsv as (y3 & E3 & B1 & B2 & B3 & B4). rewrite E3. cbn [res_bind].
    rewrite (st_sync_inputs_gen c y3 (st_status s1) B2 ltac:(rewrite B3; exact A4) (fb_st _ _ F)).
    2:{ intros p Hp. rewrite B3, <- st_dl_delayed.
        apply (QA_input predict k d (st_up p) Hk (proj1 Hd) Hcap c _ Hc (A5 p Hp)). }
    cbn [res_bind].
    set (qs4 := map (fun q => set_last_requested q c) (s_queues y3)).
    unfold set_last_confirmed_frame.
    cbn [advance_frame with_current with_queues s_queues s_current s_maxpred s_cells s_last_saved s_last_confirmed].
    rewrite B2.
    assert (Hfi : max_first_incorrect qs4 = NULL).
    { apply st_max_fi_null. apply Forall_forall. intros q Hq. subst qs4. apply in_map_iff in Hq.
      destruct Hq as (q0 & <- & Hq0). cbn [set_last_requested q_first_incorrect].
      rewrite B3 in Hq0. destruct (In_nth _ _ q_new Hq0) as (p & Hp & <-).
      apply (QA_fi k d (st_up p) c). apply A5. lia. }
    rewrite Hfi. cbn [Z.eqb NULL orb negb Pos.eqb].
    replace (Z.min (c + 1 - d) (c + 1)) with (c + 1 - d) by lia.
    cbn [res_bind].
    eexists. split; [reflexivity|].
    cbn [st_with_status st_with_locals st_with_sync st_np st_maxpred st_dist st_sync st_status st_history st_locals st_cells s_cells].
    split; [|repeat split; auto].
    destruct F as [F1 F2 F3 [F4 F5] F6]. constructor; cbn [st_with_status st_with_locals st_with_sync st_np st_maxpred st_dist st_sync st_status]; auto.
    + split; [rewrite map_length; exact F4|].
      apply Forall_forall. intros x Hx. apply in_map_iff in Hx. destruct Hx as (x0 & <- & Hx0).
      cbn [cs_disc]. rewrite Forall_forall in F5. apply F5. exact Hx0.
    + constructor; cbn [s_maxpred s_current s_queues]; auto.
      * destruct (0 <? c + 1 - d); subst qs4; rewrite ?map_length, B3; exact A4.
      * intros p Hp.
        assert (Hlen4 : length qs4 = npn) by (subst qs4; rewrite map_length, B3; exact A4).
        assert (Hn4 : nth p qs4 q_new = set_last_requested (nth p (s_queues y2) q_new) c).
        { subst qs4. rewrite B3. rewrite (nth_map_lt (fun q => set_last_requested q c) _ _ q_new q_new) by lia. reflexivity. }
        pose proof (QA_finish predict k d (st_up p) Hk (proj1 Hd) Hcap c _ Hc (A5 p Hp)) as Hfin.
        destruct (0 <? c + 1 - d).
        -- rewrite (nth_map_lt _ _ _ q_new q_new) by lia. rewrite Hn4.
           replace (c + 1 - d - 1) with (c - d) by lia. exact Hfin.
        -- rewrite Hn4. exact Hfin.
Qed.

(* ----- executing the request list ----- *)
(* the cells of the frames lo .. hi-1 hold those frames with contents val *)
Definition WI {A} (dflt : Z * A) (lo hi : Z) (cells : list (Z * A)) (val : Z -> A) : Prop :=
  forall x, lo <= x < hi -> nth (Z.to_nat (x mod (w + 1))) cells dflt = (x, val x).

Lemma WI_upd {A} : forall (dflt : Z * A) lo hi cells val val' f v,
  WI dflt lo hi cells val -> 0 <= lo <= f -> f <= hi -> Z.max hi (f + 1) - lo <= w + 1 ->
  length cells = Z.to_nat (w + 1) ->
  val' f = v -> (forall x, x <> f -> val' x = val x) ->
  WI dflt lo (Z.max hi (f + 1)) (updz cells (Z.to_nat (f mod (w + 1))) (f, v)) val'.
Proof.
  intros dflt lo hi cells val val' f v H Hlo Hhi Hwin Hlen Hv Hother x Hx.
  destruct (Z.eq_dec x f) as [->|Hne].
  - rewrite nth_updz_same by lia. rewrite Hv. reflexivity.
  - rewrite nth_updz_other.
    + rewrite Hother by exact Hne. apply H. lia.
    + intro E. apply Hne. symmetry. apply (st_mod_inj (w + 1) f x); lia.
Qed.

Lemma WI_weaken {A} : forall (dflt : Z * A) lo hi lo' hi' cells val val',
  WI dflt lo hi cells val -> lo <= lo' -> hi' <= hi -> (forall x, lo' <= x < hi' -> val' x = val x) ->
  WI dflt lo' hi' cells val'.
Proof. intros dflt lo hi lo' hi' cells val val' H H1 H2 He x Hx. rewrite He by exact Hx. apply H. lia. Qed.

Definition st_idx (f : Z) : nat := Z.to_nat (f mod (w + 1)).
Definition st_TLz (f : Z) : st_timeline := st_TL (Z.to_nat f).

(* the cells after saving frames f, f+1, .., f+n-1 (save indices n0, n0+1, ..) *)
Fixpoint st_cells_after (n : nat) (f : Z) (n0 : nat) (cells : list (Z * option Z)) : list (Z * option Z) :=
  match n with
  | O => cells
  | S m => st_cells_after m (f + 1) (S n0) (updz cells (st_idx f) (f, ck n0 (st_TLz f)))
  end.
Fixpoint sg_cells_after (n : nat) (f : Z) (cells : list (Z * st_timeline)) : list (Z * st_timeline) :=
  match n with
  | O => cells
  | S m => sg_cells_after m (f + 1) (updz cells (st_idx f) (f, st_TLz f))
  end.

Lemma st_gframe_TL : forall g f, 0 <= f -> sg_tl g = st_TLz f -> st_gframe g = f.
Proof. intros g f Hf H. unfold st_gframe, st_TLz in *. rewrite H, st_TL_length. lia. Qed.

Lemma st_TLz_S : forall f, 0 <= f -> st_TLz f ++ [st_E f] = st_TLz (f + 1).
Proof.
  intros f Hf. unfold st_TLz. replace (Z.to_nat (f + 1)) with (S (Z.to_nat f)) by lia.
  rewrite st_TL_S. rewrite Z2Nat.id by lia. reflexivity.
Qed.

Lemma st_exec_pairs : forall n f s g, 0 <= f -> st_maxpred s = w -> sg_tl g = st_TLz f ->
  st_exec ck (s, g) (st_resim_reqs n false f) =
    Some (st_with_cells s (st_cells_after n f (sg_saves g) (st_cells s)),
          st_gmk (st_TLz (f + Z.of_nat n)) (sg_cells_after n f (sg_cells g)) (sg_saves g + n)
                 (sg_log g ++ map (fun x => (x, st_E x)) (st_zrange f n))).
Proof.
  induction n as [|n IH]; intros f s g Hf Hw Htl.
  - cbn [st_resim_reqs st_exec st_cells_after sg_cells_after st_zrange map]. rewrite Z.add_0_r, Nat.add_0_r, app_nil_r, <- Htl.
    destruct s, g; reflexivity.
  - cbn [st_resim_reqs app st_exec st_exec_one].
    rewrite (st_gframe_TL g f Hf Htl), Z.eqb_refl. cbn [negb].
    unfold st_saved. assert ((f =? NULL) = false) as -> by (unfold NULL; lia).
    rewrite Hw. cbn [st_exec_one].
    unfold st_gframe. cbn [sg_tl sg_cells sg_saves sg_log].
    rewrite Htl. replace (Z.of_nat (length (st_TLz f))) with f by (unfold st_TLz; rewrite st_TL_length; lia).
    rewrite IH; cbn [st_with_cells st_maxpred st_cells sg_tl sg_saves sg_cells sg_log]; auto; try lia; [|apply (st_TLz_S f Hf)].
    cbn [st_cells_after sg_cells_after st_zrange map]. unfold st_idx.
    replace (f + 1 + Z.of_nat n) with (f + Z.of_nat (S n)) by lia.
    replace (S (sg_saves g) + n)%nat with (sg_saves g + S n)%nat by lia.
    rewrite <- app_assoc. reflexivity.
Qed.

Lemma st_resim_reqs_app : forall n m f,
  st_resim_reqs (n + m) false f = st_resim_reqs n false f ++ st_resim_reqs m false (f + Z.of_nat n).
Proof.
  induction n as [|n IH]; intros m f.
  - cbn [plus st_resim_reqs app]. rewrite Z.add_0_r. reflexivity.
  - cbn [plus st_resim_reqs app]. rewrite IH.
    replace (f + Z.of_nat (S n)) with (f + 1 + Z.of_nat n) by lia. reflexivity.
Qed.

Lemma st_cells_after_app : forall n m f n0 cells,
  st_cells_after (n + m) f n0 cells = st_cells_after m (f + Z.of_nat n) (n0 + n) (st_cells_after n f n0 cells).
Proof.
  induction n as [|n IH]; intros m f n0 cells.
  - cbn [plus st_cells_after]. rewrite Z.add_0_r, Nat.add_0_r. reflexivity.
  - cbn [plus st_cells_after]. rewrite IH. f_equal; lia.
Qed.

Lemma sg_cells_after_app : forall n m f cells,
  sg_cells_after (n + m) f cells = sg_cells_after m (f + Z.of_nat n) (sg_cells_after n f cells).
Proof.
  induction n as [|n IH]; intros m f cells.
  - cbn [plus sg_cells_after]. rewrite Z.add_0_r. reflexivity.
  - cbn [plus sg_cells_after]. rewrite IH. f_equal; lia.
Qed.

Lemma st_cells_after_length : forall n f n0 cells, length (st_cells_after n f n0 cells) = length cells.
Proof. induction n as [|n IH]; intros; cbn [st_cells_after]; [reflexivity|]. rewrite IH, updz_length. reflexivity. Qed.
Lemma sg_cells_after_length : forall n f cells, length (sg_cells_after n f cells) = length cells.
Proof. induction n as [|n IH]; intros; cbn [sg_cells_after]; [reflexivity|]. rewrite IH, updz_length. reflexivity. Qed.

(* the checksum in the cell of frame x after those saves *)
Definition st_vs_after (n : nat) (f : Z) (n0 : nat) (vs : Z -> option Z) (x : Z) : option Z :=
  if (f <=? x) && (x <? f + Z.of_nat n) then ck (n0 + Z.to_nat (x - f)) (st_TLz x) else vs x.

Lemma st_cells_after_WI : forall n f n0 cells vs lo hi,
  WI st_dflt lo hi cells vs -> 0 <= lo <= f -> f <= hi -> Z.max hi (f + Z.of_nat n) - lo <= w + 1 ->
  length cells = Z.to_nat (w + 1) ->
  WI st_dflt lo (Z.max hi (f + Z.of_nat n)) (st_cells_after n f n0 cells) (st_vs_after n f n0 vs).
Proof.
  induction n as [|n IH]; intros f n0 cells vs lo hi H Hlo Hhi Hwin Hlen.
  - cbn [st_cells_after]. eapply WI_weaken; [exact H|lia|lia|].
    intros x Hx. unfold st_vs_after. assert ((f <=? x) && (x <? f + Z.of_nat 0) = false) as -> by lia. reflexivity.
  - cbn [st_cells_after].
    pose proof (WI_upd st_dflt lo hi cells vs (fun x => if x =? f then ck n0 (st_TLz f) else vs x) f (ck n0 (st_TLz f)) H Hlo Hhi ltac:(lia) Hlen) as H1.
    cbv beta in H1. rewrite Z.eqb_refl in H1. specialize (H1 eq_refl).
    assert (Hoth : forall x, x <> f -> (if x =? f then ck n0 (st_TLz f) else vs x) = vs x)
      by (intros x Hx; assert ((x =? f) = false) as -> by lia; reflexivity).
    specialize (H1 Hoth).
    pose proof (IH (f + 1) (S n0) _ _ lo (Z.max hi (f + 1)) H1 ltac:(lia) ltac:(lia) ltac:(lia) ltac:(rewrite updz_length; exact Hlen)) as H2.
    replace (Z.max (Z.max hi (f + 1)) (f + 1 + Z.of_nat n)) with (Z.max hi (f + Z.of_nat (S n))) in H2 by lia.
    eapply WI_weaken; [exact H2|lia|lia|].
    intros x Hx. unfold st_vs_after.
    destruct (Z.eq_dec x f) as [->|Hne].
    + assert ((f + 1 <=? f) && (f <? f + 1 + Z.of_nat n) = false) as -> by lia.
      assert ((f <=? f) && (f <? f + Z.of_nat (S n)) = true) as -> by lia.
      rewrite Z.eqb_refl, Z.sub_diag. cbn [Z.to_nat]. rewrite Nat.add_0_r. reflexivity.
    + assert ((x =? f) = false) as -> by lia.
      destruct ((f <=? x) && (x <? f + Z.of_nat (S n))) eqn:E1.
      * assert ((f + 1 <=? x) && (x <? f + 1 + Z.of_nat n) = true) as -> by lia.
        f_equal. lia.
      * assert ((f + 1 <=? x) && (x <? f + 1 + Z.of_nat n) = false) as -> by lia. reflexivity.
Qed.

Lemma sg_cells_after_WI : forall n f cells lo hi,
  WI (NULL, []) lo hi cells st_TLz -> 0 <= lo <= f -> f <= hi -> Z.max hi (f + Z.of_nat n) - lo <= w + 1 ->
  length cells = Z.to_nat (w + 1) ->
  WI (NULL, []) lo (Z.max hi (f + Z.of_nat n)) (sg_cells_after n f cells) st_TLz.
Proof.
  induction n as [|n IH]; intros f cells lo hi H Hlo Hhi Hwin Hlen.
  - cbn [sg_cells_after]. eapply WI_weaken; [exact H|lia|lia|reflexivity].
  - cbn [sg_cells_after].
    pose proof (WI_upd (NULL, []) lo hi cells st_TLz st_TLz f (st_TLz f) H Hlo Hhi ltac:(lia) Hlen eq_refl ltac:(reflexivity)) as H1.
    pose proof (IH (f + 1) _ lo (Z.max hi (f + 1)) H1 ltac:(lia) ltac:(lia) ltac:(lia) ltac:(rewrite updz_length; exact Hlen)) as H2.
    replace (Z.max (Z.max hi (f + 1)) (f + 1 + Z.of_nat n)) with (Z.max hi (f + Z.of_nat (S n))) in H2 by lia.
    exact H2.
Qed.

Lemma st_cells_after_lt : forall n f n0 cells B, Forall (fun e => fst e < B) cells -> f + Z.of_nat n <= B ->
  Forall (fun e : Z * option Z => fst e < B) (st_cells_after n f n0 cells).
Proof.
  induction n as [|n IH]; intros f n0 cells B H HB; cbn [st_cells_after]; [exact H|].
  apply IH; [|lia]. apply st_forall_updz; [exact H|]. cbn. lia.
Qed.

(* re-saving frames that are held does not change which frame a cell holds; saving a new frame does *)
Lemma st_cells_after_fst_held : forall n f n0 cells vs lo hi,
  WI st_dflt lo hi cells vs -> 0 <= lo <= f -> f + Z.of_nat n <= hi -> hi - lo <= w + 1 ->
  length cells = Z.to_nat (w + 1) ->
  map fst (st_cells_after n f n0 cells) = map fst cells.
Proof.
  induction n as [|n IH]; intros f n0 cells vs lo hi H Hlo Hhi Hwin Hlen; cbn [st_cells_after]; [reflexivity|]. unfold st_idx.
  pose proof (WI_upd st_dflt lo hi cells vs (fun x => if x =? f then ck n0 (st_TLz f) else vs x) f (ck n0 (st_TLz f)) H ltac:(lia) ltac:(lia) ltac:(lia) Hlen) as H1.
  cbv beta in H1. rewrite Z.eqb_refl in H1. specialize (H1 eq_refl).
  assert (Hoth : forall x, x <> f -> (if x =? f then ck n0 (st_TLz f) else vs x) = vs x)
    by (intros x Hx; assert ((x =? f) = false) as -> by lia; reflexivity).
  specialize (H1 Hoth). replace (Z.max hi (f + 1)) with hi in H1 by lia.
  rewrite (IH (f + 1) (S n0) _ _ lo hi H1) by (rewrite ?updz_length; lia).
  rewrite map_updz. cbn [fst].
  replace f with (nth (Z.to_nat (f mod (w + 1))) (map fst cells) NULL) at 2.
  - apply updz_same.
  - rewrite (nth_map_lt fst _ _ st_dflt NULL) by lia. rewrite (H f) by lia. reflexivity.
Qed.

(* ----- one call ----- *)
(* first frame saved and number of saves executed by the call made at frame c *)
Definition st_f0 (c : Z) : Z := if (0 <? d) && (d <? c) then c - d + 1 else c.
Definition st_nsv (c : Z) : nat := if 0 <? d then (if d <? c then Z.to_nat d else 1%nat) else 0%nat.
Definition st_call_log (c : Z) : list (Z * st_finputs) :=
  (if (0 <? d) && (d <? c) then [(c - d, st_E (c - d))] else []) ++
  (if 0 <? d then map (fun x => (x, st_E x)) (st_zrange (st_f0 c) (st_nsv c)) else [(c, st_E c)]).
Definition st_call_reqs (c : Z) : list request :=
  st_roll_reqs c ++ (if 0 <? d then [RSave c] else []) ++ [RAdvance (st_E c)].

Lemma st_resim_reqs_flat : forall n f,
  st_resim_reqs n false f = flat_map (fun x => [RSave x; RAdvance (st_E x)]) (st_zrange f n).
Proof. induction n as [|n IH]; intro f; cbn [st_resim_reqs st_zrange flat_map app]; [reflexivity|]. rewrite IH. reflexivity. Qed.

Lemma st_call_reqs_expected : forall c, st_call_reqs c = st_expected_requests np d k ins c.
Proof.
  intro c. unfold st_call_reqs, st_roll_reqs, st_expected_requests.
  destruct ((0 <? d) && (d <? c)) eqn:E; [|reflexivity].
  replace (Z.to_nat d) with (S (Z.to_nat (d - 1))) by lia.
  cbn [st_resim_reqs app]. rewrite st_resim_reqs_flat. reflexivity.
Qed.

Lemma FB_cells : forall c s l, FB c s -> FB c (st_with_cells s l).
Proof. intros c s l [A B C D E]. constructor; cbn; auto. Qed.

Lemma CI_WI : forall c cs s, 0 < d -> CI c cs s -> WI st_dflt (Z.max 0 (c - w)) c (st_cells s) cs.
Proof. intros c cs s Hd0 C x Hx. apply (ci_held _ _ _ C Hd0); lia. Qed.
Lemma GI_WI : forall c g, 0 < d -> GI c g -> WI (NULL, []) (Z.max 0 (c - w)) c (sg_cells g) st_TLz.
Proof. intros c g Hd0 G x Hx. apply (gi_held _ _ G Hd0); lia. Qed.

Lemma st_exec_requests : forall c s g,
  0 <= c -> st_maxpred s = w -> GI c g ->
  st_exec ck (s, g) (st_call_reqs c) =
    Some (st_with_cells s (st_cells_after (st_nsv c) (st_f0 c) (sg_saves g) (st_cells s)),
          st_gmk (st_TLz (c + 1)) (sg_cells_after (st_nsv c) (st_f0 c) (sg_cells g)) (sg_saves g + st_nsv c)
                 (sg_log g ++ st_call_log c)).
Proof.
  intros c s g Hc Hw G. unfold st_call_reqs, st_roll_reqs, st_call_log, st_f0, st_nsv.
  pose proof (gi_tl _ _ G) as Htl. fold (st_TLz c) in Htl.
  destruct (Z.ltb_spec 0 d) as [Hd0|Hd0]; cbn [andb].
  - destruct (Z.ltb_spec d c) as [Hdc|Hdc].
    + (* load, first resimulated step, then save/advance pairs up to frame c *)
      replace (Z.to_nat d) with (S (Z.to_nat (d - 1))) at 1 by lia.
      cbn [st_resim_reqs app st_exec st_exec_one].
      rewrite (st_gframe_TL g c Hc Htl), Hw.
      assert ((c - d <? 0) || negb (c - d <? c) || (w <? c - (c - d)) = false) as -> by lia.
      rewrite (gi_held _ _ G Hd0 (c - d)) by lia. cbn [fst snd]. rewrite Z.eqb_refl. cbn [negb].
      rewrite Htl. unfold st_TLz at 1. rewrite st_TL_firstn by lia. fold (st_TLz (c - d)).
      rewrite st_tl_eqb_refl. cbn [negb].
      cbn [st_exec_one]. unfold st_gframe. cbn [sg_tl sg_cells sg_saves sg_log].
      replace (Z.of_nat (length (st_TLz (c - d)))) with (c - d) by (unfold st_TLz; rewrite st_TL_length; lia).
      change [RSave c; RAdvance (st_E c)] with (st_resim_reqs 1 false c).
      assert (Eapp : st_resim_reqs (Z.to_nat (d - 1)) false (c - d + 1) ++ st_resim_reqs 1 false c
                     = st_resim_reqs (Z.to_nat d) false (c - d + 1)).
      { replace (Z.to_nat d) with (Z.to_nat (d - 1) + 1)%nat by lia. rewrite st_resim_reqs_app.
        f_equal. f_equal. lia. }
      rewrite Eapp.
      rewrite st_exec_pairs; cbn [sg_tl sg_saves sg_cells sg_log]; try lia; auto; [|apply st_TLz_S; lia].
      replace (c - d + 1 + Z.of_nat (Z.to_nat d)) with (c + 1) by lia.
      rewrite <- app_assoc. reflexivity.
    + cbn [app]. change [RSave c; RAdvance (st_E c)] with (st_resim_reqs 1 false c).
      rewrite st_exec_pairs by (try lia; auto). reflexivity.
  - cbn [app st_exec st_exec_one st_cells_after sg_cells_after].
    rewrite (st_gframe_TL g c Hc Htl), Htl, <- (st_TLz_S c Hc), Nat.add_0_r.
    destruct s; reflexivity.
Qed.

Lemma st_f0_nsv : forall c, 0 <= c -> 0 < d -> st_f0 c + Z.of_nat (st_nsv c) = c + 1 /\ Z.max 0 (c - w) <= st_f0 c <= c /\ (1 <= st_nsv c)%nat.
Proof.
  intros c Hc Hd0. unfold st_f0, st_nsv. assert ((0 <? d) = true) as -> by lia. cbn [andb].
  destruct (Z.ltb_spec d c); lia.
Qed.

(* the state after the requests were executed *)
Lemma st_post_call : forall c cs s s' g,
  0 <= c -> FB (c + 1) s' -> st_locals s' = [] -> st_cells s' = st_cells s -> st_tie s -> CI c cs s -> GI c g ->
  s_cells (st_sync s') =
    (if 0 <? d then updz (s_cells (st_sync s)) (Z.to_nat (c mod (w + 1))) c else s_cells (st_sync s)) ->
  let s'' := st_with_cells s' (st_cells_after (st_nsv c) (st_f0 c) (sg_saves g) (st_cells s')) in
  let g'' := st_gmk (st_TLz (c + 1)) (sg_cells_after (st_nsv c) (st_f0 c) (sg_cells g)) (sg_saves g + st_nsv c)
                    (sg_log g ++ st_call_log c) in
  FIa (c + 1) s'' /\ st_tie s'' /\ CI (c + 1) (st_vs_after (st_nsv c) (st_f0 c) (sg_saves g) cs) s'' /\ GI (c + 1) g''.
Proof.
  intros c cs s s' g Hc F HL Hcells T C G Hyc s'' g''.
  assert (Hlt1 : Forall (fun e : Z * option Z => fst e < c + 1) (st_cells s)).
  { eapply Forall_impl; [|exact (ci_lt _ _ _ C)]. cbn. intros; lia. }
  assert (Hlog : Forall (fun e : Z * st_finputs => snd e = st_E (fst e)) (sg_log g ++ st_call_log c)).
  { apply Forall_app. split; [exact (gi_log _ _ G)|]. unfold st_call_log. apply Forall_app. split.
    - destruct ((0 <? d) && (d <? c)); repeat constructor.
    - destruct (0 <? d); [|repeat constructor].
      apply Forall_forall. intros e He. apply in_map_iff in He. destruct He as (x & <- & _). reflexivity. }
  split; [split; [apply FB_cells; exact F|exact HL]|].
  destruct (Z.ltb_spec 0 d) as [Hd0|Hd0].
  - destruct (st_f0_nsv c Hc Hd0) as (Hsum & Hf0 & Hn1).
    pose proof (CI_WI c cs s Hd0 C) as W. pose proof (GI_WI c g Hd0 G) as Wg.
    pose proof (ci_len _ _ _ C) as Hlen. pose proof (gi_len _ _ G) as Hglen.
    split; [|split].
    + (* tie *)
      unfold st_tie. subst s''. cbn [st_with_cells st_sync st_cells]. rewrite Hyc, Hcells, T.
      replace (st_nsv c) with ((st_nsv c - 1) + 1)%nat by lia.
      rewrite st_cells_after_app. cbn [st_cells_after]. rewrite map_updz. cbn [fst].
      replace (st_f0 c + Z.of_nat (st_nsv c - 1)) with c by lia.
      rewrite (st_cells_after_fst_held (st_nsv c - 1) (st_f0 c) (sg_saves g) (st_cells s) cs (Z.max 0 (c - w)) c W) by lia.
      reflexivity.
    + constructor; subst s''; cbn [st_with_cells st_cells]; rewrite Hcells.
      * rewrite st_cells_after_length. exact Hlen.
      * apply st_cells_after_lt; [exact Hlt1|lia].
      * intros _ f Hf Hwin.
        pose proof (st_cells_after_WI (st_nsv c) (st_f0 c) (sg_saves g) (st_cells s) cs (Z.max 0 (c - w)) c W ltac:(lia) ltac:(lia) ltac:(lia) Hlen) as W'.
        apply W'. lia.
    + constructor; subst g''; cbn [sg_tl sg_cells sg_log].
      * unfold st_TLz. reflexivity.
      * rewrite sg_cells_after_length. exact Hglen.
      * intros _ f Hf Hwin.
        pose proof (sg_cells_after_WI (st_nsv c) (st_f0 c) (sg_cells g) (Z.max 0 (c - w)) c Wg ltac:(lia) ltac:(lia) ltac:(lia) Hglen) as W'.
        apply W'. lia.
      * exact Hlog.
  - assert (Hn0 : st_nsv c = 0%nat) by (unfold st_nsv; assert ((0 <? d) = false) as -> by lia; reflexivity).
    subst s'' g''. rewrite Hn0. cbn [st_cells_after sg_cells_after]. split; [|split].
    + unfold st_tie. cbn [st_with_cells st_sync st_cells]. rewrite Hyc, Hcells. exact T.
    + constructor; cbn [st_with_cells st_cells]; rewrite Hcells.
      * exact (ci_len _ _ _ C).
      * exact Hlt1.
      * intro; lia.
    + constructor; cbn [sg_tl sg_cells sg_log].
      * reflexivity.
      * exact (gi_len _ _ G).
      * intro; lia.
      * exact Hlog.
Qed.

Lemma CI_ext : forall c cs s s', st_cells s' = st_cells s -> CI c cs s -> CI c cs s'.
Proof. intros c cs s s' E [A B C]. constructor; rewrite E; auto. Qed.

(* the step of the run: the call made at frame c *)
Lemma st_call_step : forall c cs fr s g,
  0 <= c -> (Z.to_nat c < length ins)%nat ->
  FIa c s -> st_tie s -> CI c cs s -> GI c g -> HI c fr (st_history s) ->
  (0 < d -> d < c -> forall f, c - d <= f <= c - 1 -> st_olddom c f = false -> fr f = cs f) ->
  (st_bad c cs fr <> [] ->
     exists s', st_call predict ck s g (nth (Z.to_nat c) ins []) = CallMismatch s' c (st_bad c cs fr)) /\
  (st_bad c cs fr = [] ->
     exists s' g', st_call predict ck s g (nth (Z.to_nat c) ins []) = CallOk s' g' (st_expected_requests np d k ins c) /\
       FIa (c + 1) s' /\ st_tie s' /\ CI (c + 1) (st_vs_after (st_nsv c) (st_f0 c) (sg_saves g) cs) s' /\ GI (c + 1) g' /\
       HI (c + 1) fr (st_history s') /\ sg_saves g' = (sg_saves g + st_nsv c)%nat /\
       sg_log g' = sg_log g ++ st_call_log c).
Proof.
  intros c cs fr s g Hc Hlt [F HL] T C G H Hnew.
  set (vs := nth (Z.to_nat c) ins []).
  set (s0 := st_with_locals s (st_sup_list 0 c vs)).
  assert (Hsup : st_supply s 0 vs = Ok s0) by (apply st_supply_call; [exact Hc|exact Hlt|split; assumption]).
  assert (F0 : FB c s0) by (apply FB_locals; exact F).
  assert (T0 : st_tie s0) by exact T.
  assert (C0 : CI c cs s0) by (apply (CI_ext c cs s); [reflexivity|exact C]).
  destruct (st_rollback_ok c cs fr s0 Hc F0 T0 C0 H Hnew) as (s1 & reqs1 & Er & H1 & Hbad & Hgood).
  unfold st_call. rewrite Hsup. split.
  - intro Hne. exists s1.
    unfold st_advance_frame. rewrite Er. cbn [res_bind]. cbv beta iota.
    destruct (st_bad c cs fr) as [|b bs]; [congruence|].
    cbn [st_sync st_with_locals] . subst s0. cbn [st_sync st_with_locals]. rewrite (sy_cur _ _ _ (fb_sy _ _ F)). reflexivity.
  - intro He. rewrite He in Er. destruct (Hgood He) as (-> & F1 & L1 & Cl1 & Yc1).
    assert (Hvlen : length vs = npn) by (subst vs; apply st_ins_nth_len; exact Hlt).
    destruct (st_advance_tail c s0 s1 (st_roll_reqs c) vs Hc Er (sy_cur _ _ _ (fb_sy _ _ F0)) F1 L1 Hvlen) as (s' & Ea & F' & L' & Cl' & Hh' & Yc').
    { intros i Hi. reflexivity. }
    rewrite Ea. fold (st_call_reqs c).
    rewrite (st_exec_requests c s' g Hc (fb_w _ _ F') G).
    assert (Hcs : st_cells s' = st_cells s) by (rewrite Cl', Cl1; reflexivity).
    assert (Hyc : s_cells (st_sync s') =
              (if 0 <? d then updz (s_cells (st_sync s)) (Z.to_nat (c mod (w + 1))) c else s_cells (st_sync s)))
      by (rewrite Yc', Yc1; reflexivity).
    destruct (st_post_call c cs s s' g Hc F' L' Hcs T C G Hyc) as (P1 & P2 & P3 & P4).
    unfold st_gframe. cbn [sg_tl st_with_cells st_sync].
    rewrite (gi_tl _ _ G). unfold st_TLz. rewrite !st_TL_length.
    rewrite (sy_cur _ _ _ (fb_sy _ _ F')).
    assert ((Z.of_nat (Z.to_nat (c + 1)) =? Z.of_nat (Z.to_nat c) + 1) && (Z.of_nat (Z.to_nat (c + 1)) =? c + 1) = true) as -> by lia.
    rewrite st_call_reqs_expected.
    eexists; eexists. split; [reflexivity|].
    split; [exact P1|]. split; [exact P2|]. split; [exact P3|]. split; [exact P4|].
    cbn [st_with_cells st_history sg_saves sg_log]. rewrite Hh'. split; [exact H1|]. split; reflexivity.
Qed.

(* ----- the initial state ----- *)
Lemma st_nth_repeat {A} : forall (x d0 : A) n p, (p < n)%nat -> nth p (repeat x n) d0 = x.
Proof. induction n as [|n IH]; intros [|p] H; cbn in *; try lia; auto. apply IH. lia. Qed.

Lemma st_map_repeat {A B} (f : A -> B) : forall x n, map f (repeat x n) = repeat (f x) n.
Proof. induction n as [|n IH]; cbn; [reflexivity|]. rewrite IH. reflexivity. Qed.

Lemma st_updz_app {A} : forall (a : list A) x y b, updz (a ++ x :: b) (length a) y = a ++ y :: b.
Proof. induction a as [|z a IH]; intros; cbn; [reflexivity|]. rewrite IH. reflexivity. Qed.

Lemma st_repeat_snoc {A} : forall (x : A) n l, repeat x n ++ x :: l = repeat x (S n) ++ l.
Proof. induction n as [|n IH]; intro l; cbn; [reflexivity|]. f_equal. apply IH. Qed.

Lemma st_set_delays_ok : forall n i y,
  s_queues y = repeat (with_delay q_new k) i ++ repeat q_new n ->
  st_set_delays y (st_zrange (Z.of_nat i) n) k = Ok (with_queues y (repeat (with_delay q_new k) (i + n))).
Proof.
  induction n as [|n IH]; intros i y Hq.
  - cbn [st_zrange st_set_delays]. rewrite Nat.add_0_r. cbn [repeat] in Hq. rewrite app_nil_r in Hq.
    rewrite <- Hq. destruct y; reflexivity.
  - cbn [st_zrange st_set_delays]. unfold set_queue_delay.
    assert (Hlen : length (s_queues y) = (i + S n)%nat) by (rewrite Hq, app_length, !repeat_length; reflexivity).
    assert (((Z.of_nat i <? 0) || (Z.of_nat (length (s_queues y)) <=? Z.of_nat i)) = false) as -> by lia.
    unfold qnth. rewrite Nat2Z.id, Hq.
    rewrite app_nth2 by (rewrite repeat_length; lia). rewrite repeat_length, Nat.sub_diag. cbn [repeat nth].
    assert (Esd : set_frame_delay q_new k = Ok (with_delay q_new k, [])) by reflexivity.
    rewrite Esd. cbn [res_bind].
    replace (Z.of_nat i + 1) with (Z.of_nat (S i)) by lia.
    rewrite IH.
    + replace (S i + n)%nat with (i + S n)%nat by lia. reflexivity.
    + cbn [with_queues s_queues].
      replace i with (length (repeat (with_delay q_new k) i)) at 2 by apply repeat_length.
      rewrite st_updz_app. apply st_repeat_snoc.
Qed.

Definition st_s0 : st_state :=
  st_mk np w d (mks w (repeat NULL (Z.to_nat (w + 1))) NULL NULL 0 (repeat (with_delay q_new k) npn))
        (repeat cs_default npn) [] [] (repeat (NULL, None) (Z.to_nat (w + 1))).

Lemma st_new_ok : st_new np w d k = Ok st_s0.
Proof.
  unfold st_new. pose proof (st_set_delays_ok npn 0 (sync_new np w) eq_refl) as E.
  change (Z.of_nat 0) with 0 in E. unfold npn in E. rewrite E. reflexivity.
Qed.

Lemma st_s0_inv : forall G,
  FIa 0 st_s0 /\ st_tie st_s0 /\ CI 0 G st_s0 /\ GI 0 (st_game0 w) /\ HI 0 G (st_history st_s0).
Proof.
  intro G. split; [split; [|reflexivity]|split; [|split; [|split]]].
  - constructor; cbn [st_s0 st_np st_maxpred st_dist st_status st_sync]; auto.
    + split; [apply repeat_length|]. apply Forall_forall. intros x Hx. apply repeat_spec in Hx. subst. reflexivity.
    + constructor; cbn [s_maxpred s_current s_queues]; auto.
      * apply repeat_length.
      * intros p Hp. rewrite st_nth_repeat by exact Hp. apply (QI_new predict). lia.
  - unfold st_tie. cbn [st_s0 st_sync st_cells s_cells]. rewrite st_map_repeat. reflexivity.
  - constructor; cbn [st_s0 st_cells].
    + apply repeat_length.
    + apply Forall_forall. intros x Hx. apply repeat_spec in Hx. subst. cbn. unfold NULL. lia.
    + intros; lia.
  - constructor; cbn [st_game0 sg_tl sg_cells sg_log].
    + reflexivity.
    + apply repeat_length.
    + intros; lia.
    + constructor.
  - intro x. cbn [st_s0 st_history st_hist_get]. unfold st_olddom.
    assert ((d + 1 <? 0) = false) as -> by lia. reflexivity.
Qed.

(* ----- small facts used by both run inductions ----- *)
Lemma st_filter_none {A} (p : A -> bool) : forall l, (forall x, In x l -> p x = false) -> filter p l = [].
Proof.
  induction l as [|x r IH]; intro H; cbn; [reflexivity|]. rewrite (H x (or_introl eq_refl)).
  apply IH. intros y Hy. apply H. right. exact Hy.
Qed.

Lemma CI_cs_ext : forall c cs cs' s, (forall x, 0 <= x < c -> cs x = cs' x) -> CI c cs s -> CI c cs' s.
Proof.
  intros c cs cs' s He [A B C]. constructor; auto. intros Hd0 f Hf Hwin. rewrite (C Hd0 f Hf Hwin).
  rewrite He by exact Hf. reflexivity.
Qed.

Lemma HI_ext : forall c fr fr' h, (forall x, st_olddom c x = true -> fr x = fr' x) -> HI c fr h -> HI c fr' h.
Proof.
  intros c fr fr' h He H x. rewrite (H x). destruct (st_olddom c x) eqn:E; [|reflexivity].
  rewrite (He x E). reflexivity.
Qed.

Lemma st_TLz_length : forall f, Z.of_nat (length (st_TLz f)) = Z.max 0 f.
Proof. intro f. unfold st_TLz. rewrite st_TL_length. lia. Qed.

(* ----- (a) a deterministic game is never flagged ----- *)
Section Deterministic.
Hypothesis Hdet : st_deterministic ck.
Definition st_G (f : Z) : option Z := ck 0 (st_TLz f).

Lemma st_bad_same : forall c cs, st_bad c cs cs = [].
Proof.
  intros c cs. unfold st_bad. destruct ((0 <? d) && (d <? c)); [|reflexivity].
  apply st_filter_none. intros x _. rewrite (proj2 (st_opt_eqb_eq (cs x) (cs x)) eq_refl).
  apply andb_false_r.
Qed.

Lemma st_run_det : forall rest c s g,
  0 <= c -> skipn (Z.to_nat c) ins = rest ->
  FIa c s -> st_tie s -> CI c st_G s -> GI c g -> HI c st_G (st_history s) ->
  exists s' g', st_run predict ck s g rest =
      RunOk s' g' (map (st_expected_requests np d k ins) (st_zrange c (length rest))) /\
    FIa (c + Z.of_nat (length rest)) s' /\ GI (c + Z.of_nat (length rest)) g'.
Proof.
  induction rest as [|vs rest IH]; intros c s g Hc Hsk F T C G H.
  - exists s, g. cbn [st_run length st_zrange map]. rewrite Z.add_0_r. auto.
  - destruct (st_skipn_cons _ _ _ _ [] Hsk) as (Hnth & Hsk' & Hlt).
    destruct (st_call_step c st_G st_G s g Hc Hlt F T C G H ltac:(reflexivity)) as [_ Hok].
    destruct (Hok (st_bad_same c st_G)) as (s1 & g1 & Ecall & F1 & T1 & C1 & G1 & H1 & _ & _).
    rewrite Hnth in Ecall. cbn [st_run]. rewrite Ecall.
    assert (C1' : CI (c + 1) st_G s1).
    { eapply CI_cs_ext; [|exact C1]. intros x _. unfold st_vs_after, st_G.
      destruct ((st_f0 c <=? x) && (x <? st_f0 c + Z.of_nat (st_nsv c))); [apply Hdet|reflexivity]. }
    destruct (IH (c + 1) s1 g1 ltac:(lia)) as (s' & g' & Erun & F' & G'); auto.
    { replace (Z.to_nat (c + 1)) with (S (Z.to_nat c)) by lia. exact Hsk'. }
    rewrite Erun. exists s', g'. cbn [length st_zrange map].
    replace (c + Z.of_nat (S (length rest))) with (c + 1 + Z.of_nat (length rest)) by lia. auto.
Qed.
End Deterministic.

(* ----- (b) a game whose saves of frame F differ is caught at current_frame = max F d + 2 ----- *)
Lemma st_filter_single {A} (p : A -> bool) : forall l F0, NoDup l -> In F0 l -> p F0 = true ->
  (forall x, In x l -> x <> F0 -> p x = false) -> filter p l = [F0].
Proof.
  induction l as [|y r IH]; intros F0 Hnd Hin HpF Hoth; [destruct Hin|].
  inversion Hnd as [|? ? Hny Hnd']; subst. cbn [filter]. destruct Hin as [->|Hin].
  - rewrite HpF. f_equal. apply st_filter_none. intros x Hx. apply Hoth; [right; exact Hx|]. intro; subst. contradiction.
  - rewrite (Hoth y (or_introl eq_refl)) by (intro; subst; contradiction).
    apply IH; auto. intros x Hx. apply Hoth. right. exact Hx.
Qed.

Section Noisy.
Variable F : Z.
Hypothesis HF : 2 <= F.
Hypothesis Hd2 : 2 <= d.
Hypothesis Hnoisy : st_noisy_at ck F.

Lemma st_G_other : forall n f, f <> F -> ck n (st_TLz f) = st_G f.
Proof. intros n f Hf. unfold st_G. apply (proj1 Hnoisy). rewrite st_TLz_length. lia. Qed.

Lemma st_F_differs : forall a b, a <> b -> st_opt_eqb (ck a (st_TLz F)) (ck b (st_TLz F)) = false.
Proof.
  intros a b Hab. destruct (st_opt_eqb (ck a (st_TLz F)) (ck b (st_TLz F))) eqn:E; [|reflexivity].
  apply st_opt_eqb_eq in E. exfalso. revert E. apply (proj2 Hnoisy); [rewrite st_TLz_length; lia|exact Hab].
Qed.

Definition st_M : Z := Z.max F d.

Definition IB (c : Z) (s : st_state) (g : st_game) : Prop :=
  FIa c s /\ st_tie s /\ GI c g /\
  exists cs fr, CI c cs s /\ HI c fr (st_history s) /\
    (forall f, f <> F -> cs f = st_G f /\ fr f = st_G f) /\
    (F < c -> exists a, (a < sg_saves g)%nat /\ fr F = ck a (st_TLz F) /\
        (c <= st_M + 1 -> cs F = ck a (st_TLz F)) /\
        (c = st_M + 2 -> exists b, (a < b)%nat /\ cs F = ck b (st_TLz F))).

Lemma st_noisy_step : forall c s g, 0 <= c <= st_M + 1 -> (Z.to_nat c < length ins)%nat -> IB c s g ->
  exists s' g', st_call predict ck s g (nth (Z.to_nat c) ins []) = CallOk s' g' (st_expected_requests np d k ins c) /\
    IB (c + 1) s' g'.
Proof.
  intros c s g Hc Hlt (Fa & T & G & cs & fr & C & H & Hoth & HFc).
  assert (Hd0 : 0 < d) by lia.
  assert (HeqF : F < c -> fr F = cs F).
  { intro Hlt'. destruct (HFc Hlt') as (a & _ & E1 & E2 & _). rewrite E1, E2 by lia. reflexivity. }
  assert (Hnew : 0 < d -> d < c -> forall f, c - d <= f <= c - 1 -> st_olddom c f = false -> fr f = cs f).
  { intros _ _ f Hf _. destruct (Z.eq_dec f F) as [->|Hne]; [apply HeqF; lia|].
    destruct (Hoth f Hne) as [-> ->]. reflexivity. }
  assert (Hbad : st_bad c cs fr = []).
  { unfold st_bad. destruct ((0 <? d) && (d <? c)); [|reflexivity].
    apply st_filter_none. intros x _. destruct (st_olddom c x) eqn:Eo; [|reflexivity]. cbn [andb].
    assert (Ex : fr x = cs x).
    { destruct (Z.eq_dec x F) as [->|Hne]; [apply HeqF; unfold st_olddom in Eo; lia|].
      destruct (Hoth x Hne) as [-> ->]. reflexivity. }
    rewrite Ex, (proj2 (st_opt_eqb_eq (cs x) (cs x)) eq_refl). reflexivity. }
  destruct (st_call_step c cs fr s g (proj1 Hc) Hlt Fa T C G H Hnew) as [_ Hok].
  destruct (Hok Hbad) as (s' & g' & Ecall & F' & T' & C' & G' & H' & Hsv & _).
  exists s', g'. split; [exact Ecall|].
  destruct (st_f0_nsv c (proj1 Hc) Hd0) as (Hsum & Hf0 & Hn1).
  set (cs' := st_vs_after (st_nsv c) (st_f0 c) (sg_saves g) cs) in *.
  set (fr' := fun x => if (x =? F) && (c =? F) then cs' F else fr x).
  split; [exact F'|]. split; [exact T'|]. split; [exact G'|].
  exists cs', fr'. split; [exact C'|]. split.
  { eapply HI_ext; [|exact H']. intros x Hx. subst fr'. cbv beta.
    destruct ((x =? F) && (c =? F)) eqn:E; [|reflexivity]. unfold st_olddom in Hx. lia. }
  split.
  { intros f Hf. split.
    - subst cs'. unfold st_vs_after.
      destruct ((st_f0 c <=? f) && (f <? st_f0 c + Z.of_nat (st_nsv c))); [apply st_G_other; exact Hf|apply Hoth; exact Hf].
    - subst fr'. cbv beta. assert ((f =? F) = false) as -> by lia. cbn [andb]. apply Hoth. exact Hf. }
  intro HFc1. rewrite Hsv.
  destruct (Z.eq_dec c F) as [EcF|NcF].
  - (* the first save of F happens in this call *)
    exists (sg_saves g + Z.to_nat (F - st_f0 c))%nat.
    assert (EcsF : cs' F = ck (sg_saves g + Z.to_nat (F - st_f0 c)) (st_TLz F)).
    { subst cs'. unfold st_vs_after. assert ((st_f0 c <=? F) && (F <? st_f0 c + Z.of_nat (st_nsv c)) = true) as -> by lia. reflexivity. }
    split; [lia|]. split.
    + subst fr'. cbv beta. rewrite Z.eqb_refl. assert ((c =? F) = true) as -> by lia. exact EcsF.
    + split; [intros _; exact EcsF|]. unfold st_M. intro; lia.
  - assert (Hlt' : F < c) by lia.
    destruct (HFc Hlt') as (a & Ha & E1 & E2 & _).
    exists a. split; [lia|]. split.
    + subst fr'. cbv beta. assert ((c =? F) = false) as -> by lia. rewrite andb_false_r. exact E1.
    + split.
      * intro Hle. subst cs'. unfold st_vs_after.
        assert ((st_f0 c <=? F) && (F <? st_f0 c + Z.of_nat (st_nsv c)) = false) as ->.
        { assert (Ef : st_f0 c = c) by (unfold st_f0, st_M in *; assert ((0 <? d) && (d <? c) = false) as -> by lia; reflexivity).
          rewrite Ef. lia. }
        apply E2. lia.
      * intro HeM. exists (sg_saves g + Z.to_nat (F - st_f0 c))%nat. split; [lia|].
        subst cs'. unfold st_vs_after.
        assert ((st_f0 c <=? F) && (F <? st_f0 c + Z.of_nat (st_nsv c)) = true) as ->.
        { assert (Ef : st_f0 c = c - d + 1) by (unfold st_f0, st_M in *; assert ((0 <? d) && (d <? c) = true) as -> by lia; reflexivity).
          rewrite Ef in *. unfold st_M in *. lia. }
        reflexivity.
Qed.

Lemma st_noisy_detect : forall s g, (Z.to_nat (st_M + 2) < length ins)%nat -> IB (st_M + 2) s g ->
  exists s', st_call predict ck s g (nth (Z.to_nat (st_M + 2)) ins []) = CallMismatch s' (st_M + 2) [F].
Proof.
  intros s g Hlt (Fa & T & G & cs & fr & C & H & Hoth & HFc).
  assert (HM : st_M = Z.max F d) by reflexivity.
  destruct (HFc ltac:(lia)) as (a & Ha & E1 & _ & E3). destruct (E3 eq_refl) as (b & Hab & E2).
  assert (HoF : st_olddom (st_M + 2) F = true) by (unfold st_olddom; lia).
  assert (Hbad : st_bad (st_M + 2) cs fr = [F]).
  { unfold st_bad. assert ((0 <? d) && (d <? st_M + 2) = true) as -> by lia.
    apply st_filter_single.
    - apply st_zrange_nodup.
    - apply st_zrange_in. lia.
    - rewrite HoF, E1, E2, st_F_differs by lia. reflexivity.
    - intros x _ Hne. destruct (Hoth x Hne) as [-> ->].
      rewrite (proj2 (st_opt_eqb_eq (st_G x) (st_G x)) eq_refl). apply andb_false_r. }
  destruct (st_call_step (st_M + 2) cs fr s g ltac:(lia) Hlt Fa T C G H) as [Hmis _].
  - intros _ _ f Hf Ho. destruct (Z.eq_dec f F) as [->|Hne]; [congruence|].
    destruct (Hoth f Hne) as [-> ->]. reflexivity.
  - rewrite Hbad in Hmis. apply Hmis. discriminate.
Qed.

Lemma st_run_noisy : forall n c s g rest,
  0 <= c -> c + Z.of_nat n = st_M + 2 -> skipn (Z.to_nat c) ins = rest ->
  (Z.to_nat (st_M + 2) < length ins)%nat -> IB c s g ->
  exists s', st_run predict ck s g rest =
    RunStop (map (st_expected_requests np d k ins) (st_zrange c n)) (CallMismatch s' (st_M + 2) [F]).
Proof.
  induction n as [|n IH]; intros c s g rest Hc Hsum Hsk Hlen I.
  - assert (c = st_M + 2) by lia. subst c.
    destruct rest as [|vs rest]; [exfalso; apply (f_equal (@length _)) in Hsk; rewrite skipn_length in Hsk; cbn in Hsk; lia|].
    destruct (st_skipn_cons _ _ _ _ [] Hsk) as (Hnth & _ & _).
    destruct (st_noisy_detect s g Hlen I) as (s' & E). rewrite Hnth in E.
    exists s'. cbn [st_run st_zrange map]. rewrite E. reflexivity.
  - destruct rest as [|vs rest]; [exfalso; apply (f_equal (@length _)) in Hsk; rewrite skipn_length in Hsk; cbn in Hsk; lia|].
    destruct (st_skipn_cons _ _ _ _ [] Hsk) as (Hnth & Hsk' & Hlt).
    destruct (st_noisy_step c s g ltac:(lia) Hlt I) as (s1 & g1 & E & I1). rewrite Hnth in E.
    destruct (IH (c + 1) s1 g1 rest ltac:(lia) ltac:(lia)) as (s' & Er); auto.
    { replace (Z.to_nat (c + 1)) with (S (Z.to_nat c)) by lia. exact Hsk'. }
    exists s'. cbn [st_run st_zrange map]. rewrite E, Er. reflexivity.
Qed.

Lemma IB_init : IB 0 st_s0 (st_game0 w).
Proof.
  destruct (st_s0_inv st_G) as (A & B & C & D & E).
  split; [exact A|]. split; [exact B|]. split; [exact D|].
  exists st_G, st_G. split; [exact C|]. split; [exact E|]. split; [intros; auto|]. intro; lia.
Qed.

End Noisy.

(* ----- nondeterminism that is never caught: frames 0 and 1, check distances 0 and 1 ----- *)
Section Blind.
Variable F : Z.
Hypothesis Hnoisy : st_noisy_at ck F.
Hypothesis Hblind : d <= 1 \/ F <= 1.

Lemma st_G_other_pos : forall n f, 0 <= f -> f <> F -> ck n (st_TLz f) = st_G f.
Proof. intros n f H0 Hf. unfold st_G. apply (proj1 Hnoisy). rewrite st_TLz_length. lia. Qed.

Definition IBS (c : Z) (s : st_state) (g : st_game) : Prop :=
  FIa c s /\ st_tie s /\ GI c g /\
  exists cs fr, CI c cs s /\ HI c fr (st_history s) /\
    (forall f, 0 <= f -> f <> F -> cs f = st_G f /\ fr f = st_G f) /\
    (F < c -> fr F = cs F).

Lemma st_blind_step : forall c s g, 0 <= c -> (Z.to_nat c < length ins)%nat -> IBS c s g ->
  exists s' g', st_call predict ck s g (nth (Z.to_nat c) ins []) = CallOk s' g' (st_expected_requests np d k ins c) /\
    IBS (c + 1) s' g'.
Proof.
  intros c s g Hc Hlt (Fa & T & G & cs & fr & C & H & Hoth & HeqF).
  assert (Hnew : 0 < d -> d < c -> forall f, c - d <= f <= c - 1 -> st_olddom c f = false -> fr f = cs f).
  { intros Hd0 Hdc f Hf _. destruct (Z.eq_dec f F) as [->|Hne]; [apply HeqF; lia|].
    destruct (Hoth f ltac:(lia) Hne) as [-> ->]. reflexivity. }
  assert (Hbad : st_bad c cs fr = []).
  { unfold st_bad. destruct ((0 <? d) && (d <? c)) eqn:Ec; [|reflexivity].
    apply st_filter_none. intros x Hx. apply st_zrange_in in Hx.
    destruct (st_olddom c x) eqn:Eo; [|reflexivity]. cbn [andb].
    assert (Ex : fr x = cs x).
    { destruct (Z.eq_dec x F) as [->|Hne]; [apply HeqF; unfold st_olddom in Eo; lia|].
      destruct (Hoth x ltac:(lia) Hne) as [-> ->]. reflexivity. }
    rewrite Ex, (proj2 (st_opt_eqb_eq (cs x) (cs x)) eq_refl). reflexivity. }
  destruct (st_call_step c cs fr s g Hc Hlt Fa T C G H Hnew) as [_ Hok].
  destruct (Hok Hbad) as (s' & g' & Ecall & F' & T' & C' & G' & H' & Hsv & _).
  exists s', g'. split; [exact Ecall|].
  set (cs' := st_vs_after (st_nsv c) (st_f0 c) (sg_saves g) cs) in *.
  set (fr' := fun x => if (x =? F) && (c =? F) then cs' F else fr x).
  split; [exact F'|]. split; [exact T'|]. split; [exact G'|].
  exists cs', fr'. split; [exact C'|]. split.
  { eapply HI_ext; [|exact H']. intros x Hx. subst fr'. cbv beta.
    destruct ((x =? F) && (c =? F)) eqn:E; [|reflexivity]. unfold st_olddom in Hx. lia. }
  split.
  { intros f Hf0 Hf. split.
    - subst cs'. unfold st_vs_after.
      destruct ((st_f0 c <=? f) && (f <? st_f0 c + Z.of_nat (st_nsv c))); [apply st_G_other_pos; assumption|apply Hoth; assumption].
    - subst fr'. cbv beta. assert ((f =? F) = false) as -> by lia. cbn [andb]. apply Hoth; assumption. }
  intro HFc1. subst fr'. cbv beta. rewrite Z.eqb_refl. cbn [andb].
  destruct (Z.eqb_spec c F) as [EcF|NcF]; [reflexivity|].
  rewrite (HeqF ltac:(lia)). subst cs'. unfold st_vs_after.
  assert ((st_f0 c <=? F) && (F <? st_f0 c + Z.of_nat (st_nsv c)) = false) as ->; [|reflexivity].
  unfold st_f0. destruct ((0 <? d) && (d <? c)) eqn:E; lia.
Qed.

Lemma st_run_blind : forall rest c s g,
  0 <= c -> skipn (Z.to_nat c) ins = rest -> IBS c s g ->
  exists s' g', st_run predict ck s g rest =
      RunOk s' g' (map (st_expected_requests np d k ins) (st_zrange c (length rest))).
Proof.
  induction rest as [|vs rest IH]; intros c s g Hc Hsk I.
  - exists s, g. reflexivity.
  - destruct (st_skipn_cons _ _ _ _ [] Hsk) as (Hnth & Hsk' & Hlt).
    destruct (st_blind_step c s g Hc Hlt I) as (s1 & g1 & E & I1). rewrite Hnth in E.
    destruct (IH (c + 1) s1 g1 ltac:(lia)) as (s' & g' & Er); auto.
    { replace (Z.to_nat (c + 1)) with (S (Z.to_nat c)) by lia. exact Hsk'. }
    exists s', g'. cbn [st_run length st_zrange map]. rewrite E, Er. reflexivity.
Qed.

Lemma IBS_init : IBS 0 st_s0 (st_game0 w).
Proof.
  destruct (st_s0_inv st_G) as (A & B & C & D & E).
  split; [exact A|]. split; [exact B|]. split; [exact D|].
  exists st_G, st_G. split; [exact C|]. split; [exact E|]. split; [intros; auto|]. reflexivity.
Qed.
End Blind.

End Run.

(* ================= the theorems ================= *)
Theorem st_no_false_alarm : forall predict ck np w d k ins,
  1 <= np -> 0 <= d < w -> 0 <= k -> k + d + 2 <= INPUT_QUEUE_LENGTH ->
  st_deterministic ck ->
  Forall (fun vs => Z.of_nat (length vs) = np) ins ->
  exists s0 s g,
    st_new np w d k = Ok s0 /\
    st_run predict ck s0 (st_game0 w) ins =
      RunOk s g (map (st_expected_requests np d k ins) (st_zrange 0 (length ins))) /\
    s_current (st_sync s) = Z.of_nat (length ins) /\
    sg_tl g = map (st_expected np ins k) (st_zrange 0 (length ins)) /\
    Forall (fun e => snd e = st_expected np ins k (fst e)) (sg_log g).
Proof.
  intros predict ck np w d k ins Hnp Hd Hk Hcap Hdet Hins.
  rewrite <- QLEN_is in Hcap.
  destruct (st_s0_inv predict ck np w d k ins Hd (st_G ck np k ins)) as (A & B & C & D & E).
  destruct (st_run_det predict ck np w d k ins Hnp Hd Hk Hcap Hins Hdet ins 0 (st_s0 np w d k) (st_game0 w)
              ltac:(lia) eq_refl A B C D E) as (s & g & Erun & Fa & G).
  exists (st_s0 np w d k), s, g.
  split; [apply (st_new_ok predict ck); exact Hnp|]. split; [exact Erun|].
  destruct Fa as [Fb _]. split; [|split].
  - rewrite (sy_cur _ _ _ _ _ _ _ _ (fb_sy _ _ _ _ _ _ _ Fb)). lia.
  - rewrite (gi_tl _ _ _ _ _ _ _ G). unfold st_TL. rewrite Z.add_0_l, Nat2Z.id. reflexivity.
  - exact (gi_log _ _ _ _ _ _ _ G).
Qed.

Theorem st_detection : forall predict ck np w d k ins F,
  1 <= np -> 2 <= d < w -> 0 <= k -> k + d + 2 <= INPUT_QUEUE_LENGTH -> 2 <= F ->
  st_noisy_at ck F ->
  Forall (fun vs => Z.of_nat (length vs) = np) ins ->
  Z.max F d + 3 <= Z.of_nat (length ins) ->
  exists s0 s,
    st_new np w d k = Ok s0 /\
    st_run predict ck s0 (st_game0 w) ins =
      RunStop (map (st_expected_requests np d k ins) (st_zrange 0 (Z.to_nat (Z.max F d + 2))))
              (CallMismatch s (Z.max F d + 2) [F]).
Proof.
  intros predict ck np w d k ins F Hnp Hd Hk Hcap HF Hnoisy Hins Hlen.
  rewrite <- QLEN_is in Hcap.
  assert (Hd' : 0 <= d < w) by lia.
  destruct (st_run_noisy predict ck np w d k ins Hnp Hd' Hk Hcap Hins F HF (proj1 Hd) Hnoisy
              (Z.to_nat (Z.max F d + 2)) 0 (st_s0 np w d k) (st_game0 w) ins) as (s & E).
  - lia.
  - unfold st_M. lia.
  - reflexivity.
  - unfold st_M. lia.
  - apply (IB_init predict); assumption.
  - exists (st_s0 np w d k), s. split; [apply (st_new_ok predict ck); exact Hnp|]. exact E.
Qed.

(* beyond the bound on the delay the session panics in the input queue: the bound is needed *)
Lemma st_delay_bound_needed :
  st_run (fun x => x) (fun _ _ => None) (st_s0 1 2 1 126) (st_game0 2) [[1]; [1]; [1]] =
    RunStop [[RSave 0; RAdvance [(0, Confirmed)]]; [RSave 1; RAdvance [(0, Confirmed)]]] CallPanic.
Proof. vm_compute. reflexivity. Qed.

(* (c) the builder side: a SyncTestSession only exists for check_distance < max_prediction, without
   sparse saving, with at least one player *)
Lemma st_last_set_nonneg : forall (sel : call -> option Z) cs dflt,
  0 <= dflt -> (forall c v, In c cs -> sel c = Some v -> 0 <= v) -> 0 <= last_set sel dflt cs.
Proof.
  intros sel. induction cs as [|c r IH]; intros dflt Hd H; cbn [last_set]; [exact Hd|].
  apply IH.
  - destruct (sel c) eqn:E; [apply (H c z (or_introl eq_refl) E)|exact Hd].
  - intros c0 v Hin. apply H. right. exact Hin.
Qed.

Theorem st_builder_gate : 1 <= DEFAULT_PLAYERS -> forall cs n np w cd dl, Forall usize_call cs ->
  run_calls cs FSyncTest = (n, Ok (SSyncTest np w cd dl)) ->
  1 <= np /\ 0 <= cd < w /\ 0 <= dl /\ sparse_of cs = false /\
  np = np_of cs /\ w = window_of cs /\ cd = check_dist_of cs /\ dl = delay_of cs.
Proof.
  intros Hdp cs n np w cd dl Hu Hrun.
  pose proof (other_sessions_shape Hdp cs FSyncTest n _ Hu Hrun) as (_ & A1 & A2 & A3 & A4 & A5 & A6).
  destruct (builder_spec Hdp cs FSyncTest Hu) as (_ & Hv & _).
  assert (Hval : valid_calls cs FSyncTest) by (apply Hv; rewrite Hrun; eexists; reflexivity).
  destruct Hval as (_ & _ & Hsp).
  rewrite Forall_forall in Hu.
  assert (0 <= cd).
  { subst cd. apply st_last_set_nonneg; [vm_compute; discriminate|].
    intros c v Hin Hs. specialize (Hu c Hin). destruct c; try discriminate. inversion Hs; subst. exact Hu. }
  assert (0 <= dl).
  { subst dl. apply st_last_set_nonneg; [vm_compute; discriminate|].
    intros c v Hin Hs. specialize (Hu c Hin). destruct c; try discriminate. inversion Hs; subst. exact Hu. }
  repeat split; auto; lia.
Qed.

Theorem st_blind_spot : forall predict ck np w d k ins F,
  1 <= np -> 0 <= d < w -> 0 <= k -> k + d + 2 <= INPUT_QUEUE_LENGTH ->
  st_noisy_at ck F -> d <= 1 \/ F <= 1 ->
  Forall (fun vs => Z.of_nat (length vs) = np) ins ->
  exists s0 s g,
    st_new np w d k = Ok s0 /\
    st_run predict ck s0 (st_game0 w) ins =
      RunOk s g (map (st_expected_requests np d k ins) (st_zrange 0 (length ins))).
Proof.
  intros predict ck np w d k ins F Hnp Hd Hk Hcap Hnoisy Hblind Hins.
  rewrite <- QLEN_is in Hcap.
  destruct (st_run_blind predict ck np w d k ins Hnp Hd Hk Hcap Hins F Hnoisy Hblind ins 0 (st_s0 np w d k) (st_game0 w)
              ltac:(lia) eq_refl) as (s & g & E).
  - apply (IBS_init predict); assumption.
  - exists (st_s0 np w d k), s, g. split; [apply (st_new_ok predict ck); exact Hnp|exact E].
Qed.

Theorem st_accepted_sessions : 1 <= DEFAULT_PLAYERS ->
  forall cs n np w cd dl predict ck ins, Forall usize_call cs ->
  run_calls cs FSyncTest = (n, Ok (SSyncTest np w cd dl)) ->
  dl + cd + 2 <= INPUT_QUEUE_LENGTH -> st_deterministic ck ->
  Forall (fun vs => Z.of_nat (length vs) = np) ins ->
  exists s0 s g,
    st_new np w cd dl = Ok s0 /\
    st_run predict ck s0 (st_game0 w) ins =
      RunOk s g (map (st_expected_requests np cd dl ins) (st_zrange 0 (length ins))).
Proof.
  intros Hdp cs n np w cd dl predict ck ins Hu Hrun Hcap Hdet Hins.
  destruct (st_builder_gate Hdp cs n np w cd dl Hu Hrun) as (A1 & A2 & A3 & _).
  destruct (st_no_false_alarm predict ck np w cd dl ins A1 A2 A3 Hcap Hdet Hins) as (s0 & s & g & E1 & E2 & _).
  exists s0, s, g. auto.
Qed.

(* ---------- examples (evaluated in the kernel) ---------- *)
Definition st_run_summary (r : st_runres) : list (list request) * option (Z * list Z) * bool :=
  match r with
  | RunOk _ _ outs => (outs, None, true)
  | RunStop outs (CallMismatch _ c fs) => (outs, Some (c, fs), false)
  | RunStop outs _ => (outs, None, false)
  end.

Lemma st_summary_ok : forall r outs, st_run_summary r = (outs, None, true) -> exists s g, r = RunOk s g outs.
Proof.
  intros [s g o|o why] outs H; cbn in H.
  - inversion H; subst. eauto.
  - destruct why; discriminate.
Qed.

Lemma st_summary_mismatch : forall r outs c fs, st_run_summary r = (outs, Some (c, fs), false) ->
  exists s, r = RunStop outs (CallMismatch s c fs).
Proof.
  intros [s g o|o why] outs c fs H; cbn in H; [discriminate|].
  destruct why; try discriminate. inversion H; subst. eauto.
Qed.

Definition ex_ck (n : nat) (tl : st_timeline) : option Z :=
  Some (fold_right (fun fi a => fold_right (fun x b => fst x + 3 * b) (7 * a + 1) fi) 0 tl).
Definition ex_ckn (F : Z) (n : nat) (tl : st_timeline) : option Z :=
  if Z.of_nat (length tl) =? F then Some (Z.of_nat n) else ex_ck n tl.
Definition ex_ins : list (list Z) := map (fun i => [Z.of_nat i; 2 * Z.of_nat i + 1]) (seq 0 20).

Lemma ex_ckn_noisy : forall F, st_noisy_at (ex_ckn F) F.
Proof.
  intro F. split; intros n m tl H; unfold ex_ckn.
  - assert ((Z.of_nat (length tl) =? F) = false) as -> by lia. reflexivity.
  - rewrite H, Z.eqb_refl. intros Hn E. inversion E. lia.
Qed.

Lemma ex_clean_run :
  st_deterministic ex_ck /\
  Forall (fun vs => Z.of_nat (length vs) = 2) ex_ins /\
  (exists s g, st_run (fun x => x) ex_ck (st_s0 2 5 3 1) (st_game0 5) ex_ins =
     RunOk s g (map (st_expected_requests 2 3 1 ex_ins) (st_zrange 0 20))) /\
  st_expected_requests 2 3 1 ex_ins 5 =
    [RLoad 2; RAdvance [(1, Confirmed); (3, Confirmed)];
     RSave 3; RAdvance [(2, Confirmed); (5, Confirmed)];
     RSave 4; RAdvance [(3, Confirmed); (7, Confirmed)];
     RSave 5; RAdvance [(4, Confirmed); (9, Confirmed)]].
Proof.
  split; [intros n m tl; reflexivity|]. split; [vm_compute; repeat constructor|].
  split; [apply st_summary_ok; vm_compute; reflexivity|vm_compute; reflexivity].
Qed.

Lemma ex_noisy_caught :
  st_noisy_at (ex_ckn 6) 6 /\
  exists s, st_run (fun x => x) (ex_ckn 6) (st_s0 2 5 3 1) (st_game0 5) ex_ins =
    RunStop (map (st_expected_requests 2 3 1 ex_ins) (st_zrange 0 8)) (CallMismatch s 8 [6]).
Proof. split; [apply ex_ckn_noisy|]. apply st_summary_mismatch. vm_compute. reflexivity. Qed.

Lemma ex_noisy_1_missed :
  st_noisy_at (ex_ckn 1) 1 /\
  exists s g, st_run (fun x => x) (ex_ckn 1) (st_s0 2 5 3 1) (st_game0 5) ex_ins =
    RunOk s g (map (st_expected_requests 2 3 1 ex_ins) (st_zrange 0 20)).
Proof. split; [apply ex_ckn_noisy|]. apply st_summary_ok. vm_compute. reflexivity. Qed.

Lemma st_detection_bound : forall F d, 2 <= F -> 2 <= d -> Z.max F d + 2 <= F + d /\ F + d <= F + d + 2.
Proof. intros F d HF Hd. split; lia. Qed.

Lemma st_delay_bound_needed_full :
  st_new 1 2 1 126 = Ok (st_s0 1 2 1 126) /\
  st_run (fun x => x) (fun _ _ => None) (st_s0 1 2 1 126) (st_game0 2) [[1]; [1]; [1]] =
    RunStop [[RSave 0; RAdvance [(0, Confirmed)]]; [RSave 1; RAdvance [(0, Confirmed)]]] CallPanic.
Proof. split; [apply (st_new_ok (fun x => x) (fun _ _ => None)); lia|exact st_delay_bound_needed]. Qed.
