(* Proofs about the SpectatorSession model (Spectator.v): ring invariant, ordered gapless delivery,
   catch-up bound, status rule.  The property statements are in props/C06.v. *)
From GGRS Require Import Base Consts Spectator.
From Coq Require Import ZifyBool ZifyNat ZifyN.
Ltac Zify.zify_post_hook ::= Z.div_mod_to_equations.
Open Scope Z_scope.

Definition sp_hlen {A} (l : list A) : Z := Z.of_nat (length l).

(* ---------------- lists ---------------- *)
Lemma sp_upd_length : forall A (l : list A) i x, length (sp_upd l i x) = length l.
Proof. induction l as [|y r IH]; intros [|i] x; cbn; auto. Qed.

Lemma sp_upd_nth_same : forall A (l : list A) i x d, (i < length l)%nat -> nth i (sp_upd l i x) d = x.
Proof. induction l as [|y r IH]; intros [|i] x d H; cbn in *; try lia; auto. apply IH. lia. Qed.

Lemma sp_upd_nth_other : forall A (l : list A) i j x d, i <> j -> nth j (sp_upd l i x) d = nth j l d.
Proof. induction l as [|y r IH]; intros [|i] [|j] x d H; cbn; auto; try congruence. Qed.

Lemma sp_upd_upd : forall A (l : list A) i x y, sp_upd (sp_upd l i x) i y = sp_upd l i y.
Proof. induction l as [|z r IH]; intros [|i] x y; cbn; auto. f_equal. apply IH. Qed.

Lemma sp_upd_self : forall A (l : list A) i d, (i < length l)%nat -> sp_upd l i (nth i l d) = l.
Proof. induction l as [|z r IH]; intros [|i] d H; cbn in *; try lia; auto. f_equal. apply IH. lia. Qed.

Lemma sp_upd_app : forall A (pre : list A) y post x,
  sp_upd (pre ++ y :: post) (length pre) x = pre ++ x :: post.
Proof. induction pre as [|z r IH]; intros; cbn; auto. f_equal. apply IH. Qed.

Lemma sp_last_cons : forall A (l : list A) a d, last (a :: l) d = last l a.
Proof. induction l as [|b r IH]; intros; [reflexivity|]. change (last (a :: b :: r) d) with (last (b :: r) d). rewrite !IH. reflexivity. Qed.

Lemma sp_map_fst_combine : forall A B (a : list A) (b : list B), length a = length b -> map fst (combine a b) = a.
Proof. induction a as [|x r IH]; intros [|y s] H; cbn in *; try lia; auto. f_equal. apply IH. lia. Qed.

Lemma sp_map_snd_combine : forall A B (a : list A) (b : list B), length a = length b -> map snd (combine a b) = b.
Proof. induction a as [|x r IH]; intros [|y s] H; cbn in *; try lia; auto. f_equal. apply IH. lia. Qed.

Lemma sp_flat_map_app : forall A B (f : A -> list B) l1 l2, flat_map f (l1 ++ l2) = flat_map f l1 ++ flat_map f l2.
Proof. induction l1 as [|a r IH]; intros; cbn; auto. rewrite IH, app_assoc. reflexivity. Qed.

(* ---------------- the slot function ---------------- *)
Lemma SZ_pos : 0 < SPECTATOR_BUFFER_SIZE.
Proof. reflexivity. Qed.
Lemma SZ_small : SPECTATOR_BUFFER_SIZE <= 2 ^ 31.
Proof. vm_compute. discriminate. Qed.
Lemma NS_one : NORMAL_SPEED = 1.
Proof. reflexivity. Qed.

Lemma sp_slot_small : forall g, 0 <= g < 2 ^ 64 -> sp_slot g = Z.to_nat (g mod SPECTATOR_BUFFER_SIZE).
Proof. intros g H. unfold sp_slot. rewrite (Z.mod_small g) by lia. reflexivity. Qed.

Lemma sp_slot_lt : forall g, (sp_slot g < Z.to_nat SPECTATOR_BUFFER_SIZE)%nat.
Proof.
  intro g. unfold sp_slot. pose proof SZ_pos.
  pose proof (Z.mod_pos_bound (g mod 2 ^ 64) SPECTATOR_BUFFER_SIZE H). lia.
Qed.

Lemma sp_slot_eq : forall a b, 0 <= a < 2 ^ 64 -> 0 <= b < 2 ^ 64 ->
  a mod SPECTATOR_BUFFER_SIZE = b mod SPECTATOR_BUFFER_SIZE -> sp_slot a = sp_slot b.
Proof. intros a b Ha Hb E. rewrite !sp_slot_small by assumption. rewrite E. reflexivity. Qed.

Lemma sp_slot_neq : forall a b, 0 <= a < 2 ^ 64 -> 0 <= b < 2 ^ 64 ->
  a < b < a + SPECTATOR_BUFFER_SIZE -> sp_slot a <> sp_slot b.
Proof.
  intros a b Ha Hb H. rewrite !sp_slot_small by assumption. pose proof SZ_pos.
  pose proof (Z.mod_pos_bound a SPECTATOR_BUFFER_SIZE H0). pose proof (Z.mod_pos_bound b SPECTATOR_BUFFER_SIZE H0).
  intro E. apply Z2Nat.inj in E; try lia.
  unfold SPECTATOR_BUFFER_SIZE in *. lia.
Qed.

Lemma sp_row_eq : forall s a b, sp_slot a = sp_slot b -> sp_row s a = sp_row s b.
Proof. intros s a b E. unfold sp_row. rewrite E. reflexivity. Qed.

(* ---------------- one Input event block (all players of one frame) ---------------- *)
Lemma sp_feed_spec : forall evs s pre post g,
  sp_row s g = pre ++ post -> length post = length evs ->
  (sp_slot g < length (sp_inputs s))%nat ->
  sp_last_recv_frame s <= g ->
  Forall (fun e => length (snd e) = Z.to_nat (sp_num_players s)) evs ->
  length (sp_host_status s) = Z.to_nat (sp_num_players s) ->
  exists s', sp_feed s (Z.of_nat (length pre)) g evs = Ok s' /\
    sp_inputs s' = sp_upd (sp_inputs s) (sp_slot g) (pre ++ map (sp_mkpi g) (map fst evs)) /\
    sp_last_recv_frame s' = last (map (fun _ => g) evs) (sp_last_recv_frame s) /\
    sp_host_status s' = last (map snd evs) (sp_host_status s) /\
    sp_running s' = sp_running s /\ sp_num_players s' = sp_num_players s /\
    sp_current_frame s' = sp_current_frame s /\
    sp_max_frames_behind s' = sp_max_frames_behind s /\ sp_catchup_speed s' = sp_catchup_speed s.
Proof.
  induction evs as [|[v st] r IH]; intros s pre post g Hrow Hlen Hslot Hlast Hst Hhs.
  - exists s. destruct post; [|discriminate]. rewrite app_nil_r in *. cbn [sp_feed map last].
    repeat split. rewrite <- Hrow. unfold sp_row. symmetry. apply sp_upd_self. exact Hslot.
  - destruct post as [|p post']; [discriminate|].
    inversion Hst as [|? ? Hst1 Hst2]; subst. cbn [snd] in Hst1.
    cbn [sp_feed]. unfold sp_handle_input. rewrite Hrow.
    replace ((Z.of_nat (length pre) <? 0) || (Z.of_nat (length (pre ++ p :: post')) <=? Z.of_nat (length pre))) with false
      by (rewrite app_length; cbn [length]; lia).
    replace (g <? sp_last_recv_frame s) with false by lia.
    replace ((length st <? Z.to_nat (sp_num_players s))%nat || (length (sp_host_status s) <? Z.to_nat (sp_num_players s))%nat) with false by lia.
    rewrite Nat2Z.id, sp_upd_app. cbn [res_bind].
    set (s1 := sp_mk _ _ _ _ _ _ _ _).
    assert (Hhs1 : sp_host_status s1 = st).
    { unfold s1. cbn [sp_host_status]. rewrite <- Hhs, skipn_all, app_nil_r.
      rewrite Hhs, <- Hst1. apply firstn_all. }
    destruct (IH s1 (pre ++ [sp_mkpi g v]) post' g) as (s' & F & I1 & I2 & I3 & I4 & I5 & I6 & I7 & I8).
    + unfold sp_row, s1. cbn [sp_inputs]. rewrite sp_upd_nth_same by exact Hslot. rewrite <- app_assoc. reflexivity.
    + cbn in Hlen. lia.
    + unfold s1. cbn [sp_inputs]. rewrite sp_upd_length. exact Hslot.
    + unfold s1. cbn [sp_last_recv_frame]. lia.
    + exact Hst2.
    + rewrite Hhs1. exact Hst1.
    + exists s'. split.
      { rewrite <- F. f_equal. rewrite app_length. cbn [length]. lia. }
      split. { rewrite I1. unfold s1. cbn [sp_inputs]. rewrite sp_upd_upd, <- app_assoc. reflexivity. }
      split. { rewrite I2. cbn [map]. rewrite sp_last_cons. reflexivity. }
      split. { rewrite I3, Hhs1. cbn [map snd]. rewrite sp_last_cons. reflexivity. }
      repeat split; assumption.
Qed.

(* ---------------- the ring invariant ---------------- *)
Record sp_Inv (n : Z) (s : sp_state) (hist : list (list Z)) : Prop := {
  iv_n : sp_num_players s = n;
  iv_len : length (sp_inputs s) = Z.to_nat SPECTATOR_BUFFER_SIZE;
  iv_last : sp_last_recv_frame s = sp_hlen hist - 1;
  iv_cur : -1 <= sp_current_frame s <= sp_last_recv_frame s;
  (* slot g mod SIZE holds frame g for the SIZE newest frames ... *)
  iv_new : forall g, 0 <= g < sp_hlen hist -> sp_hlen hist - SPECTATOR_BUFFER_SIZE <= g ->
           sp_row s g = map (sp_mkpi g) (nth (Z.to_nat g) hist []);
  (* ... and the blank row while no frame congruent to it has arrived *)
  iv_blank : forall g, sp_hlen hist <= g < SPECTATOR_BUFFER_SIZE -> sp_row s g = repeat sp_blank (Z.to_nat n);
  iv_hist : Forall (fun r => Z.of_nat (length r) = n) hist;
  iv_hs : length (sp_host_status s) = Z.to_nat n;
}.

Lemma sp_nth_hist_len : forall n hist g, Forall (fun r : list Z => Z.of_nat (length r) = n) hist ->
  0 <= g < sp_hlen hist -> Z.of_nat (length (nth (Z.to_nat g) hist [])) = n.
Proof.
  intros n hist g F H. rewrite Forall_forall in F. apply F. apply nth_In. unfold sp_hlen in H. lia.
Qed.

Lemma sp_nth_repeat : forall (A : Type) (x d : A) k i, (i < k)%nat -> nth i (repeat x k) d = x.
Proof. induction k as [|k IH]; intros [|i] Hi; cbn; try lia; auto. apply IH. lia. Qed.

Lemma sp_inv_new : forall n mfb cs, sp_Inv n (sp_new n mfb cs) [].
Proof.
  intros n mfb cs. constructor; cbn [sp_new sp_num_players sp_inputs sp_last_recv_frame sp_current_frame sp_host_status sp_hlen length].
  - reflexivity.
  - apply repeat_length.
  - reflexivity.
  - unfold NULL. lia.
  - intros g H. unfold sp_hlen in H. cbn [length] in H. lia.
  - intros g H. unfold sp_row, sp_new. cbn [sp_inputs]. apply sp_nth_repeat. apply sp_slot_lt.
  - constructor.
  - apply repeat_length.
Qed.

Ltac sp_sz := unfold SPECTATOR_BUFFER_SIZE in *.

(* a whole frame (one event per player) arrives *)
Lemma sp_frame_inv : forall n s hist evs,
  1 <= n -> sp_Inv n s hist -> sp_hlen hist < 2 ^ 63 ->
  Z.of_nat (length evs) = n ->
  Forall (fun e => Z.of_nat (length (snd e)) = n) evs ->
  exists s', sp_feed s 0 (sp_hlen hist) evs = Ok s' /\
    sp_Inv n s' (hist ++ [map fst evs]) /\
    sp_host_status s' = last (map snd evs) (sp_host_status s) /\
    sp_running s' = sp_running s /\ sp_current_frame s' = sp_current_frame s /\
    sp_max_frames_behind s' = sp_max_frames_behind s /\ sp_catchup_speed s' = sp_catchup_speed s.
Proof.
  intros n s hist evs Hn I Hb Hlen Hst.
  set (g := sp_hlen hist) in *.
  assert (Hg : 0 <= g) by (unfold g, sp_hlen; lia).
  pose proof SZ_pos as Hp. pose proof SZ_small as Hs.
  (* the row the frame is written to has n entries *)
  assert (Hrowlen : Z.of_nat (length (sp_row s g)) = n).
  { destruct (Z.ltb_spec g SPECTATOR_BUFFER_SIZE) as [L|L].
    - rewrite (iv_blank _ _ _ I g) by (fold g; lia). rewrite repeat_length. lia.
    - rewrite (sp_row_eq s g (g - SPECTATOR_BUFFER_SIZE)).
      + rewrite (iv_new _ _ _ I) by (fold g; lia). rewrite map_length.
        apply sp_nth_hist_len; [exact (iv_hist _ _ _ I)|fold g; lia].
      + apply sp_slot_eq; try lia. sp_sz. lia. }
  destruct (sp_feed_spec evs s [] (sp_row s g) g) as (s' & F & I1 & I2 & I3 & I4 & I5 & I6 & I7 & I8).
  - reflexivity.
  - lia.
  - rewrite (iv_len _ _ _ I). apply sp_slot_lt.
  - rewrite (iv_last _ _ _ I). fold g. lia.
  - rewrite (iv_n _ _ _ I). eapply Forall_impl; [|exact Hst]. cbn beta. intros e He. lia.
  - rewrite (iv_n _ _ _ I). exact (iv_hs _ _ _ I).
  - cbn [length app] in F, I1. exists s'. split; [exact F|].
    assert (Hlast : sp_last_recv_frame s' = g).
    { rewrite I2. destruct evs as [|e r]; [cbn in Hlen; lia|].
      cbn [map]. rewrite sp_last_cons. clear. induction r as [|x r IH]; [reflexivity|].
      cbn [map]. rewrite sp_last_cons. exact IH. }
    assert (Hrow_g : sp_row s' g = map (sp_mkpi g) (map fst evs)).
    { unfold sp_row. rewrite I1. apply sp_upd_nth_same. rewrite (iv_len _ _ _ I). apply sp_slot_lt. }
    assert (Hrow_o : forall h, sp_slot h <> sp_slot g -> sp_row s' h = sp_row s h).
    { intros h Hh. unfold sp_row. rewrite I1. apply sp_upd_nth_other. congruence. }
    assert (Hl' : sp_hlen (hist ++ [map fst evs]) = g + 1).
    { unfold sp_hlen, g. rewrite app_length. cbn [length]. unfold sp_hlen. lia. }
    split; [|repeat split; assumption].
    constructor.
    + rewrite I5. exact (iv_n _ _ _ I).
    + rewrite I1, sp_upd_length. exact (iv_len _ _ _ I).
    + rewrite Hlast, Hl'. lia.
    + rewrite I6, Hlast. pose proof (iv_cur _ _ _ I) as C. rewrite (iv_last _ _ _ I) in C. fold g in C. lia.
    + intros h H1 H2. rewrite Hl' in *.
      destruct (Z.eq_dec h g) as [->|Ne].
      * rewrite Hrow_g. f_equal. unfold g, sp_hlen. rewrite Nat2Z.id, nth_middle. reflexivity.
      * rewrite Hrow_o by (apply sp_slot_neq; lia).
        rewrite (iv_new _ _ _ I) by (fold g; lia). f_equal.
        apply eq_sym, app_nth1. unfold g, sp_hlen in *. lia.
    + intros h H1. rewrite Hl' in *. rewrite Hrow_o.
      * apply (iv_blank _ _ _ I). fold g. lia.
      * intro E. apply (sp_slot_neq g h); try lia.
    + apply Forall_app. split; [exact (iv_hist _ _ _ I)|]. constructor; [|constructor].
      rewrite map_length. exact Hlen.
    + rewrite I3. destruct evs as [|e r]; [cbn in Hlen; lia|].
      assert (forall (l : list (Z * list sp_cstatus)) d, Forall (fun e => Z.of_nat (length (snd e)) = n) l ->
              Z.of_nat (length d) = n -> Z.of_nat (length (last (map snd l) d)) = n) as L.
      { induction l as [|x l IH]; intros d Fl Hd; [exact Hd|].
        cbn [map]. rewrite sp_last_cons. inversion Fl; subst. apply IH; assumption. }
      pose proof (L (e :: r) (sp_host_status s) Hst) as L1.
      pose proof (iv_hs _ _ _ I). lia.
Qed.

(* ---------------- inputs_at_frame on a state satisfying the invariant (C06_ring) ---------------- *)
Lemma sp_zip_ok : forall row hs f, length row = length hs ->
  sp_zip_status row hs f = Ok (combine (map sp_pi_val row) (map (sp_stat f) hs)).
Proof.
  induction row as [|p r IH]; intros [|c h] f H; cbn in H; try lia; [reflexivity|].
  cbn [sp_zip_status map combine]. rewrite IH by lia. reflexivity.
Qed.

Lemma sp_map_val_mk : forall g l, map sp_pi_val (map (sp_mkpi g) l) = l.
Proof. intros g l. rewrite map_map. cbn. apply map_id. Qed.

(* the newest received frame whose slot is the slot of f *)
Definition sp_newest (last f : Z) : Z := last - (last - f) mod SPECTATOR_BUFFER_SIZE.

Lemma sp_grab_spec : forall n s hist f,
  1 <= n -> sp_Inv n s hist -> sp_hlen hist < 2 ^ 63 -> 0 <= f < 2 ^ 63 ->
  sp_inputs_at_frame s f =
    if sp_last_recv_frame s <? f then Ok (sp_Fail sp_PredictionThreshold)
    else if f <=? sp_last_recv_frame s - SPECTATOR_BUFFER_SIZE then Ok (sp_Fail sp_SpectatorTooFarBehind)
    else Ok (sp_Got (combine (nth (Z.to_nat f) hist []) (map (sp_stat f) (sp_host_status s)))).
Proof.
  intros n s hist f Hn I Hb Hf. pose proof SZ_pos as Hp. pose proof SZ_small as Hs.
  rewrite (iv_last _ _ _ I). set (L := sp_hlen hist) in *.
  assert (HL : 0 <= L) by (unfold L, sp_hlen; lia).
  unfold sp_inputs_at_frame.
  (* rows of live frames are nonempty with the frame number in front *)
  assert (Hlive : forall g, 0 <= g < L -> L - SPECTATOR_BUFFER_SIZE <= g ->
            exists v r, sp_row s g = sp_mkpi g v :: r).
  { intros g G1 G2. rewrite (iv_new _ _ _ I g G1 G2).
    pose proof (sp_nth_hist_len n hist g (iv_hist _ _ _ I) G1) as Hl.
    destruct (nth (Z.to_nat g) hist []) as [|v r]; [cbn in Hl; lia|]. exists v, (map (sp_mkpi g) r). reflexivity. }
  destruct (Z.ltb_spec (L - 1) f) as [C1|C1].
  - (* not yet received *)
    destruct (Z.ltb_spec (f mod SPECTATOR_BUFFER_SIZE) L) as [D|D].
    + set (g := sp_newest (L - 1) f).
      assert (G : 0 <= g < L /\ L - SPECTATOR_BUFFER_SIZE <= g /\ g mod SPECTATOR_BUFFER_SIZE = f mod SPECTATOR_BUFFER_SIZE).
      { unfold g, sp_newest. sp_sz. lia. }
      destruct G as (G1 & G2 & G3). destruct (Hlive g G1 G2) as (v & r & E).
      rewrite (sp_row_eq s f g) by (apply sp_slot_eq; lia). rewrite E. cbn [sp_pi_frame].
      replace (g <? f) with true by lia. reflexivity.
    + rewrite (sp_row_eq s f (f mod SPECTATOR_BUFFER_SIZE)).
      * rewrite (iv_blank _ _ _ I) by (fold L; sp_sz; lia).
        destruct (Z.to_nat n) as [|k] eqn:E; [lia|]. cbn [repeat sp_blank sp_pi_frame].
        replace (NULL <? f) with true by (unfold NULL; lia). reflexivity.
      * apply sp_slot_eq; try lia; sp_sz; lia.
  - destruct (Z.leb_spec f (L - 1 - SPECTATOR_BUFFER_SIZE)) as [C2|C2].
    + (* overwritten *)
      set (g := sp_newest (L - 1) f).
      assert (G : 0 <= g < L /\ L - SPECTATOR_BUFFER_SIZE <= g /\ g mod SPECTATOR_BUFFER_SIZE = f mod SPECTATOR_BUFFER_SIZE /\ f < g).
      { unfold g, sp_newest. sp_sz. lia. }
      destruct G as (G1 & G2 & G3 & G4). destruct (Hlive g G1 G2) as (v & r & E).
      rewrite (sp_row_eq s f g) by (apply sp_slot_eq; lia). rewrite E. cbn [sp_pi_frame].
      replace (g <? f) with false by lia. replace (f <? g) with true by lia. reflexivity.
    + (* live *)
      destruct (Hlive f) as (v & r & E); try lia. rewrite E. cbn [sp_pi_frame].
      replace (f <? f) with false by lia. rewrite <- E.
      rewrite (iv_new _ _ _ I) by (fold L; lia).
      rewrite sp_zip_ok.
      * rewrite sp_map_val_mk. reflexivity.
      * rewrite map_length. pose proof (sp_nth_hist_len n hist f (iv_hist _ _ _ I)). pose proof (iv_hs _ _ _ I). fold L in H. lia.
Qed.

(* ---------------- advance_frame ---------------- *)
Lemma sp_set_current_same : forall s, sp_set_current s (sp_current_frame s) = s.
Proof. destruct s; reflexivity. Qed.

Lemma sp_loop_spec : forall k s,
  (forall j, 0 <= j < Z.of_nat k -> exists v, sp_inputs_at_frame s (sp_current_frame s + 1 + j) = Ok (sp_Got v)) ->
  exists l, sp_advance_loop k s = Ok (sp_set_current s (sp_current_frame s + Z.of_nat k), sp_Delivered l) /\
    length l = k /\
    forall j, (j < k)%nat -> sp_inputs_at_frame s (sp_current_frame s + 1 + Z.of_nat j) = Ok (sp_Got (nth j l [])).
Proof.
  induction k as [|k IH]; intros s H.
  - exists []. cbn [sp_advance_loop Z.of_nat]. rewrite Z.add_0_r, sp_set_current_same.
    repeat split. intros j Hj. lia.
  - destruct (H 0) as (v & Hv); [lia|]. rewrite Z.add_0_r in Hv.
    cbn [sp_advance_loop]. rewrite Hv.
    set (s1 := sp_set_current s (sp_current_frame s + 1)).
    destruct (IH s1) as (l & L1 & L2 & L3).
    { intros j Hj. destruct (H (j + 1)) as (w & Hw); [lia|]. exists w.
      unfold s1. cbn [sp_set_current sp_current_frame]. rewrite <- Hw.
      replace (sp_current_frame s + 1 + 1 + j) with (sp_current_frame s + 1 + (j + 1)) by lia. reflexivity. }
    rewrite L1. exists (v :: l). split.
    { unfold s1, sp_set_current. cbn [sp_current_frame sp_running sp_num_players sp_inputs sp_host_status
                      sp_last_recv_frame sp_max_frames_behind sp_catchup_speed].
      replace (sp_current_frame s + 1 + Z.of_nat k) with (sp_current_frame s + Z.of_nat (S k)) by lia. reflexivity. }
    split; [cbn [length]; lia|].
    intros [|j] Hj; cbn [nth].
    + rewrite Z.add_0_r. exact Hv.
    + specialize (L3 j ltac:(lia)). unfold s1 in L3. cbn [sp_set_current sp_current_frame] in L3.
      rewrite <- L3. replace (sp_current_frame s + 1 + Z.of_nat (S j)) with (sp_current_frame s + 1 + 1 + Z.of_nat j) by lia.
      reflexivity.
Qed.

Lemma sp_advance_cases : forall n s hist,
  1 <= n -> sp_Inv n s hist -> sp_hlen hist < 2 ^ 62 ->
  let cur := sp_current_frame s in
  let lst := sp_last_recv_frame s in
  (sp_running s = false /\ sp_advance s = Ok (s, sp_Failed sp_NotSynchronized)) \/
  (sp_running s = true /\ 0 < sp_frames_to_advance s (lst - cur) /\
   ((cur = lst /\ sp_advance s = Ok (s, sp_Failed sp_PredictionThreshold)) \/
    (cur + 1 <= lst - SPECTATOR_BUFFER_SIZE /\ sp_advance s = Ok (s, sp_Failed sp_SpectatorTooFarBehind)))) \/
  (sp_running s = true /\ exists l,
     sp_advance s = Ok (sp_set_current s (cur + sp_hlen l), sp_Delivered l) /\
     sp_hlen l = Z.max 0 (sp_frames_to_advance s (lst - cur)) /\
     cur + sp_hlen l <= lst /\
     forall j, (j < length l)%nat ->
       nth j l [] = combine (nth (Z.to_nat (cur + 1 + Z.of_nat j)) hist [])
                            (map (sp_stat (cur + 1 + Z.of_nat j)) (sp_host_status s))).
Proof.
  intros n s hist Hn I Hb cur lst. pose proof SZ_pos as Hp. pose proof SZ_small as Hs.
  pose proof (iv_cur _ _ _ I) as C. pose proof (iv_last _ _ _ I) as HL. fold cur lst in C, HL.
  unfold sp_advance. destruct (sp_running s); cbn [negb]; [right|left; split; reflexivity].
  unfold sp_frames_behind. fold cur lst. replace (lst - cur <? 0) with false by lia. cbn [res_bind].
  set (fta := sp_frames_to_advance s (lst - cur)).
  assert (Hgrab : forall f, 0 <= f < 2 ^ 63 -> sp_inputs_at_frame s f = _) by (intros f Hf; exact (sp_grab_spec n s hist f Hn I ltac:(lia) Hf)).
  fold lst in Hgrab.
  destruct (Z.leb_spec fta 0) as [Z0|Z0].
  { (* nothing to do (catchup_speed = 0) *)
    right. split; [reflexivity|]. exists []. replace (Z.to_nat fta) with O by lia.
    cbn [sp_advance_loop sp_hlen length Z.of_nat]. rewrite Z.add_0_r. unfold cur. rewrite sp_set_current_same.
    split; [reflexivity|]. split; [lia|]. split; [fold cur; lia|]. intros j Hj. lia. }
  assert (Hfta : fta <= Z.max 1 (lst - cur)).
  { unfold fta, sp_frames_to_advance. rewrite NS_one. destruct (sp_max_frames_behind s <? lst - cur); lia. }
  destruct (Z.eq_dec cur lst) as [E|E].
  { left. split; [reflexivity|]. split; [exact Z0|]. left. split; [exact E|].
    destruct (Z.to_nat fta) as [|k] eqn:K; [lia|]. cbn [sp_advance_loop]. fold cur.
    rewrite Hgrab by lia. replace (lst <? cur + 1) with true by lia. reflexivity. }
  destruct (Z.leb_spec (cur + 1) (lst - SPECTATOR_BUFFER_SIZE)) as [T|T].
  { left. split; [reflexivity|]. split; [exact Z0|]. right. split; [exact T|].
    destruct (Z.to_nat fta) as [|k] eqn:K; [lia|]. cbn [sp_advance_loop]. fold cur.
    rewrite Hgrab by lia. replace (lst <? cur + 1) with false by lia.
    replace (cur + 1 <=? lst - SPECTATOR_BUFFER_SIZE) with true by lia. reflexivity. }
  right. split; [reflexivity|].
  destruct (sp_loop_spec (Z.to_nat fta) s) as (l & L1 & L2 & L3).
  { intros j Hj. fold cur. rewrite Hgrab by lia.
    replace (lst <? cur + 1 + j) with false by lia.
    replace (cur + 1 + j <=? lst - SPECTATOR_BUFFER_SIZE) with false by lia. eexists. reflexivity. }
  exists l. fold cur in L1, L3. unfold sp_hlen. rewrite L2, L1.
  split; [reflexivity|]. split; [lia|]. split; [lia|].
  intros j Hj. specialize (L3 j ltac:(lia)). rewrite Hgrab in L3 by lia.
  replace (lst <? cur + 1 + Z.of_nat j) with false in L3 by lia.
  replace (cur + 1 + Z.of_nat j <=? lst - SPECTATOR_BUFFER_SIZE) with false in L3 by lia.
  congruence.
Qed.

(* ---------------- operation sequences ---------------- *)
Record sp_TInv (n mfb cs : Z) (t : sp_trace) (hist : list (list Z)) (lastst : list sp_cstatus) : Prop := {
  ti_inv : sp_Inv n (sp_t_state t) hist;
  ti_nf : sp_t_nframes t = sp_hlen hist;
  ti_cur : sp_current_frame (sp_t_state t) = sp_hlen (sp_delivered (sp_t_calls t)) - 1;
  ti_del : forall k, (k < length (sp_delivered (sp_t_calls t)))%nat ->
           map fst (nth k (sp_delivered (sp_t_calls t)) []) = nth k hist [];
  ti_hs : sp_host_status (sp_t_state t) = lastst;
  ti_mfb : sp_max_frames_behind (sp_t_state t) = mfb;
  ti_cs : sp_catchup_speed (sp_t_state t) = cs;
}.

Definition sp_default_status (n : Z) : list sp_cstatus := repeat sp_cs_default (Z.to_nat n).

Lemma sp_tinv_start : forall n mfb cs, sp_TInv n mfb cs (sp_start n mfb cs) [] (sp_default_status n).
Proof.
  intros. constructor; cbn [sp_start sp_t_state sp_t_nframes sp_t_calls sp_delivered flat_map]; try reflexivity.
  - apply sp_inv_new.
  - intros k Hk. cbn in Hk. lia.
Qed.

Definition sp_op_wf (n : Z) (o : sp_hop) : Prop :=
  match o with
  | sp_HFrame evs => Z.of_nat (length evs) = n /\ Forall (fun e => Z.of_nat (length (snd e)) = n) evs
  | _ => True
  end.

Lemma sp_delivered_snoc : forall calls o,
  sp_delivered (calls ++ [o]) = sp_delivered calls ++ match o with sp_Delivered l => l | sp_Failed _ => [] end.
Proof. intros. unfold sp_delivered. rewrite sp_flat_map_app. cbn [flat_map]. rewrite app_nil_r. reflexivity. Qed.

Lemma sp_step_inv : forall n mfb cs t hist lastst o,
  1 <= n -> sp_TInv n mfb cs t hist lastst -> sp_op_wf n o ->
  sp_hlen hist + sp_hlen (sp_hist [o]) < 2 ^ 62 ->
  exists t', sp_hstep t o = Ok t' /\ sp_TInv n mfb cs t' (hist ++ sp_hist [o]) (sp_last_status lastst [o]).
Proof.
  intros n mfb cs t hist lastst o Hn T W Hb. destruct o as [evs| |].
  - (* a frame arrives *)
    destruct W as (W1 & W2). cbn [sp_hist sp_hlen length] in Hb.
    destruct (sp_frame_inv n (sp_t_state t) hist evs Hn (ti_inv _ _ _ _ _ _ T) ltac:(unfold sp_hlen in *; lia) W1 W2)
      as (s' & F & I & H1 & H2 & H3 & H4 & H5).
    cbn [sp_hstep]. rewrite (ti_nf _ _ _ _ _ _ T), F. cbn [res_bind]. eexists. split; [reflexivity|].
    cbn [sp_hist sp_last_status].
    constructor; cbn [sp_t_state sp_t_nframes sp_t_calls].
    + exact I.
    + unfold sp_hlen. rewrite app_length. cbn [length]. lia.
    + rewrite H3. exact (ti_cur _ _ _ _ _ _ T).
    + intros k Hk. rewrite (ti_del _ _ _ _ _ _ T k Hk). symmetry. apply app_nth1.
      pose proof (ti_cur _ _ _ _ _ _ T) as C. pose proof (iv_cur _ _ _ (ti_inv _ _ _ _ _ _ T)) as C2.
      rewrite (iv_last _ _ _ (ti_inv _ _ _ _ _ _ T)) in C2. unfold sp_hlen in *. lia.
    + rewrite H1, (ti_hs _ _ _ _ _ _ T). reflexivity.
    + rewrite H4. exact (ti_mfb _ _ _ _ _ _ T).
    + rewrite H5. exact (ti_cs _ _ _ _ _ _ T).
  - (* Synchronized *)
    cbn [sp_hstep sp_hist sp_last_status]. rewrite app_nil_r. eexists. split; [reflexivity|].
    destruct T as [I NF C D HS M CS]. constructor; cbn [sp_t_state sp_t_nframes sp_t_calls]; try assumption.
    destruct I. constructor; assumption.
  - (* advance_frame *)
    cbn [sp_hist sp_last_status]. rewrite app_nil_r. cbn [sp_hist] in Hb.
    pose proof (ti_inv _ _ _ _ _ _ T) as I.
    destruct (sp_advance_cases n (sp_t_state t) hist Hn I ltac:(unfold sp_hlen in *; cbn [length] in Hb; lia)) as [(R & A)|[(R & _ & [(E & A)|(E & A)])|(R & l & A & L1 & L2 & L3)]];
      cbn [sp_hstep]; rewrite A; cbn [res_bind]; (eexists; split; [reflexivity|]).
    1-3: (destruct T as [I' NF C D HS M CS]; constructor; cbn [sp_t_state sp_t_nframes sp_t_calls];
          rewrite ?sp_delivered_snoc, ?app_nil_r; assumption).
    destruct T as [I' NF C D HS M CS]. constructor; cbn [sp_t_state sp_t_nframes sp_t_calls]; rewrite ?sp_delivered_snoc; try assumption.
    + destruct I. constructor; cbn [sp_set_current sp_num_players sp_inputs sp_last_recv_frame sp_current_frame sp_host_status]; try assumption.
      unfold sp_hlen in *. lia.
    + cbn [sp_set_current sp_current_frame]. unfold sp_hlen in *. rewrite app_length. lia.
    + intros k Hk. rewrite app_length in Hk.
      destruct (Nat.lt_ge_cases k (length (sp_delivered (sp_t_calls t)))) as [Lt|Ge].
      * rewrite app_nth1 by exact Lt. apply D. exact Lt.
      * rewrite app_nth2 by exact Ge. rewrite L3 by lia.
        pose proof (iv_last _ _ _ I) as HL.
        assert (Hf : 0 <= sp_current_frame (sp_t_state t) + 1 + Z.of_nat (k - length (sp_delivered (sp_t_calls t))) < sp_hlen hist)
          by (unfold sp_hlen in *; lia).
        rewrite sp_map_fst_combine.
        -- f_equal. unfold sp_hlen in *. lia.
        -- rewrite map_length. pose proof (sp_nth_hist_len n hist _ (iv_hist _ _ _ I) Hf). pose proof (iv_hs _ _ _ I). lia.
Qed.

Lemma sp_hist_cons : forall o r, sp_hist (o :: r) = sp_hist [o] ++ sp_hist r.
Proof. intros [evs| |] r; reflexivity. Qed.
Lemma sp_last_status_cons : forall o r d, sp_last_status d (o :: r) = sp_last_status (sp_last_status d [o]) r.
Proof. intros [evs| |] r d; reflexivity. Qed.

Lemma sp_run_inv : forall n mfb cs ops t hist lastst,
  1 <= n -> sp_TInv n mfb cs t hist lastst -> sp_wf n ops ->
  sp_hlen hist + sp_hlen (sp_hist ops) < 2 ^ 62 ->
  exists t', sp_hrun t ops = Ok t' /\ sp_TInv n mfb cs t' (hist ++ sp_hist ops) (sp_last_status lastst ops).
Proof.
  intros n mfb cs ops. induction ops as [|o r IH]; intros t hist lastst Hn T W Hb.
  - exists t. cbn [sp_hrun sp_hist sp_last_status]. rewrite app_nil_r. split; [reflexivity|exact T].
  - inversion W as [|? ? W1 W2]; subst.
    rewrite sp_hist_cons in Hb. unfold sp_hlen in Hb. rewrite app_length in Hb.
    destruct (sp_step_inv n mfb cs t hist lastst o Hn T W1 ltac:(unfold sp_hlen; lia)) as (t1 & S1 & T1).
    destruct (IH t1 _ _ Hn T1 W2) as (t' & R & T').
    { unfold sp_hlen. rewrite app_length. lia. }
    exists t'. cbn [sp_hrun]. rewrite S1. cbn [res_bind]. split; [exact R|].
    rewrite sp_hist_cons, sp_last_status_cons, app_assoc. exact T'.
Qed.

Lemma sp_reach : forall n mfb cs ops,
  1 <= n -> sp_wf n ops -> sp_hlen (sp_hist ops) < 2 ^ 31 ->
  exists t, sp_hrun (sp_start n mfb cs) ops = Ok t /\
            sp_TInv n mfb cs t (sp_hist ops) (sp_last_status (sp_default_status n) ops).
Proof.
  intros n mfb cs ops Hn W Hb.
  destruct (sp_run_inv n mfb cs ops _ _ _ Hn (sp_tinv_start n mfb cs) W) as (t & R & T).
  - cbn [sp_hlen length Z.of_nat]. lia.
  - exists t. split; [exact R|exact T].
Qed.

(* ---------------- the property statements (C06, spectator half) ---------------- *)

(* (a) the ring: what inputs_at_frame answers in any reachable state *)
Lemma sp_c06_ring : forall n mfb cs ops t f,
  1 <= n -> sp_wf n ops -> sp_hlen (sp_hist ops) < 2 ^ 31 ->
  sp_hrun (sp_start n mfb cs) ops = Ok t -> 0 <= f < 2 ^ 31 ->
  let s := sp_t_state t in
  let lst := sp_hlen (sp_hist ops) - 1 in
  sp_last_recv_frame s = lst /\
  (sp_inputs_at_frame s f = Ok (sp_Fail sp_PredictionThreshold) <-> lst < f) /\
  (sp_inputs_at_frame s f = Ok (sp_Fail sp_SpectatorTooFarBehind) <-> f <= lst - SPECTATOR_BUFFER_SIZE) /\
  (forall v, sp_inputs_at_frame s f = Ok (sp_Got v) ->
     lst - SPECTATOR_BUFFER_SIZE < f <= lst /\ map fst v = nth (Z.to_nat f) (sp_hist ops) []) /\
  (lst - SPECTATOR_BUFFER_SIZE < f <= lst -> exists v, sp_inputs_at_frame s f = Ok (sp_Got v)).
Proof.
  intros n mfb cs ops t f Hn W Hb R Hf s lst.
  destruct (sp_reach n mfb cs ops Hn W Hb) as (t' & R' & T). rewrite R in R'. inversion R'; subst t'. clear R'.
  pose proof (ti_inv _ _ _ _ _ _ T) as I. fold s in I.
  pose proof (iv_last _ _ _ I) as HL. fold lst in HL.
  pose proof (sp_grab_spec n s _ f Hn I ltac:(lia) ltac:(lia)) as G. rewrite HL in G.
  split; [exact HL|]. pose proof SZ_pos as Hp.
  destruct (Z.ltb_spec lst f) as [C1|C1]; [|destruct (Z.leb_spec f (lst - SPECTATOR_BUFFER_SIZE)) as [C2|C2]]; rewrite G.
  - split; [split; [lia|reflexivity]|]. split; [split; [discriminate|lia]|]. split; [discriminate|lia].
  - split; [split; [discriminate|lia]|]. split; [split; [lia|reflexivity]|]. split; [discriminate|lia].
  - split; [split; [discriminate|lia]|]. split; [split; [discriminate|lia]|]. split.
    + intros v Hv. inversion Hv; subst v. split; [lia|]. apply sp_map_fst_combine.
      rewrite map_length. pose proof (sp_nth_hist_len n _ f (iv_hist _ _ _ I)). pose proof (iv_hs _ _ _ I). unfold lst in *. lia.
    + intros _. eexists. reflexivity.
Qed.

(* (b) order: everything ever delivered is frame 0, 1, 2, ... of the host's timeline *)
Lemma sp_c06_order : forall n mfb cs ops,
  1 <= n -> sp_wf n ops -> sp_hlen (sp_hist ops) < 2 ^ 31 ->
  exists t, sp_hrun (sp_start n mfb cs) ops = Ok t /\
    let del := sp_delivered (sp_t_calls t) in
    (forall k, (k < length del)%nat -> map fst (nth k del []) = nth k (sp_hist ops) []) /\
    sp_current_frame (sp_t_state t) = sp_hlen del - 1 /\
    sp_current_frame (sp_t_state t) <= sp_last_recv_frame (sp_t_state t) /\
    sp_last_recv_frame (sp_t_state t) = sp_hlen (sp_hist ops) - 1.
Proof.
  intros n mfb cs ops Hn W Hb. destruct (sp_reach n mfb cs ops Hn W Hb) as (t & R & T).
  exists t. split; [exact R|]. pose proof (ti_inv _ _ _ _ _ _ T) as I.
  split; [exact (ti_del _ _ _ _ _ _ T)|]. split; [exact (ti_cur _ _ _ _ _ _ T)|].
  split; [exact (proj2 (iv_cur _ _ _ I))|exact (iv_last _ _ _ I)].
Qed.

Lemma sp_c06_no_panic : forall n mfb cs ops,
  1 <= n -> sp_wf n ops -> sp_hlen (sp_hist ops) < 2 ^ 31 ->
  sp_hrun (sp_start n mfb cs) ops <> Panic.
Proof.
  intros n mfb cs ops Hn W Hb. destruct (sp_reach n mfb cs ops Hn W Hb) as (t & R & _). rewrite R. discriminate.
Qed.

(* (c) catch-up: what one advance_frame call does in any reachable state *)
Lemma sp_c06_catchup : forall n mfb cs ops t,
  1 <= n -> sp_wf n ops -> sp_hlen (sp_hist ops) < 2 ^ 31 ->
  sp_hrun (sp_start n mfb cs) ops = Ok t ->
  let s := sp_t_state t in
  exists s' o, sp_advance s = Ok (s', o) /\
    exists behind, sp_frames_behind s = Ok behind /\ 0 <= behind /\
    match o with
    | sp_Delivered l =>
        sp_hlen l <= Z.max 1 cs /\ sp_hlen l <= Z.max 1 behind /\
        (1 < sp_hlen l -> mfb < behind) /\
        (behind <= mfb -> 1 <= behind -> sp_hlen l = 1) /\
        s' = sp_set_current s (sp_current_frame s + sp_hlen l)
    | sp_Failed e =>
        s' = s /\
        (e = sp_NotSynchronized <-> sp_running s = false) /\
        (e = sp_PredictionThreshold -> behind = 0) /\
        (e = sp_SpectatorTooFarBehind -> SPECTATOR_BUFFER_SIZE < behind)
    end.
Proof.
  intros n mfb cs ops t Hn W Hb R s.
  destruct (sp_reach n mfb cs ops Hn W Hb) as (t' & R' & T). rewrite R in R'. inversion R'; subst t'. clear R'.
  pose proof (ti_inv _ _ _ _ _ _ T) as I. fold s in I.
  pose proof (iv_cur _ _ _ I) as C.
  assert (FB : sp_frames_behind s = Ok (sp_last_recv_frame s - sp_current_frame s)).
  { unfold sp_frames_behind. replace (sp_last_recv_frame s - sp_current_frame s <? 0) with false by lia. reflexivity. }
  pose proof (ti_mfb _ _ _ _ _ _ T) as M. pose proof (ti_cs _ _ _ _ _ _ T) as CS. fold s in M, CS.
  destruct (sp_advance_cases n s _ Hn I ltac:(lia)) as [(Rn & A)|[(Rn & P & [(E & A)|(E & A)])|(Rn & l & A & L1 & L2 & L3)]];
    rewrite A; do 2 eexists; (split; [reflexivity|]); exists (sp_last_recv_frame s - sp_current_frame s);
    (split; [exact FB|]); (split; [lia|]).
  - split; [reflexivity|]. split; [split; [intros _; exact Rn|reflexivity]|]. split; discriminate.
  - split; [reflexivity|]. split; [split; [discriminate|congruence]|]. split; [intros _; lia|discriminate].
  - split; [reflexivity|]. split; [split; [discriminate|congruence]|]. split; [discriminate|intros _; lia].
  - unfold sp_frames_to_advance in L1. rewrite M, CS, NS_one in L1. pose proof SZ_pos.
    destruct (Z.ltb_spec mfb (sp_last_recv_frame s - sp_current_frame s)) as [B|B].
    + split; [lia|]. split; [lia|]. split; [intros _; exact B|]. split; [lia|reflexivity].
    + split; [lia|]. split; [lia|]. split; [lia|]. split; [lia|reflexivity].
Qed.

(* (d) status: Disconnected exactly where the status copied by the last Input event says so *)
Lemma sp_c06_status : forall n mfb cs ops t s' l k p,
  1 <= n -> sp_wf n ops -> sp_hlen (sp_hist ops) < 2 ^ 31 ->
  sp_hrun (sp_start n mfb cs) ops = Ok t ->
  sp_advance (sp_t_state t) = Ok (s', sp_Delivered l) ->
  (k < length l)%nat -> 0 <= p < n ->
  let frame := sp_current_frame (sp_t_state t) + 1 + Z.of_nat k in
  let host := sp_last_status (sp_default_status n) ops in
  length (nth k l []) = Z.to_nat n /\ length host = Z.to_nat n /\
  snd (nth (Z.to_nat p) (nth k l []) (0, sp_Confirmed)) = sp_stat frame (nth (Z.to_nat p) host sp_cs_default).
Proof.
  intros n mfb cs ops t s' l k p Hn W Hb R A Hk Hp frame host.
  destruct (sp_reach n mfb cs ops Hn W Hb) as (t' & R' & T). rewrite R in R'. inversion R'; subst t'. clear R'.
  pose proof (ti_inv _ _ _ _ _ _ T) as I. pose proof (ti_hs _ _ _ _ _ _ T) as HS. fold host in HS.
  pose proof (iv_hs _ _ _ I) as HL. rewrite HS in HL.
  destruct (sp_advance_cases n _ _ Hn I ltac:(lia)) as [(Rn & A')|[(Rn & P & [(E & A')|(E & A')])|(Rn & l' & A' & L1 & L2 & L3)]];
    rewrite A in A'; try discriminate.
  inversion A'; subst l'. specialize (L3 k Hk). fold frame in L3. rewrite HS in L3.
  pose proof (iv_last _ _ _ I) as HLast. pose proof (iv_cur _ _ _ I) as C.
  assert (Hf : 0 <= frame < sp_hlen (sp_hist ops)) by (unfold frame, sp_hlen in *; lia).
  pose proof (sp_nth_hist_len n _ frame (iv_hist _ _ _ I) Hf) as Hv.
  split; [|split; [exact HL|]].
  - rewrite L3, combine_length, map_length. lia.
  - change sp_Confirmed with (snd (0, sp_Confirmed)) at 1. rewrite <- map_nth, L3, sp_map_snd_combine by (rewrite map_length; lia).
    cbn [snd]. change sp_Confirmed with (sp_stat frame sp_cs_default). apply map_nth.
Qed.

(* ---------------- non-vacuity ---------------- *)
(* frame f of a 2-player game: values 10 f + 1 and 10 f + 2, nobody disconnected *)
Definition sp_ex_frame (f : Z) : sp_hop :=
  sp_HFrame [(10 * f + 1, [sp_mkcs false f; sp_mkcs false f]); (10 * f + 2, [sp_mkcs false f; sp_mkcs false f])].
Fixpoint sp_ex_frames (from : Z) (k : nat) : list sp_hop :=
  match k with O => [] | S j => sp_ex_frame from :: sp_ex_frames (from + 1) j end.

Definition sp_outcomes (r : res sp_trace) : list sp_outcome := match r with Ok t => sp_t_calls t | _ => [] end.
Definition sp_final_frame (r : res sp_trace) : Z := match r with Ok t => sp_current_frame (sp_t_state t) | _ => -2 end.

(* overrun: two frames are replayed, then the host sends 61 more frames before the next call:
   frame 2 has been overwritten by frame 62 and the call reports SpectatorTooFarBehind *)
Definition sp_ex_overrun : list sp_hop :=
  [sp_HSync] ++ sp_ex_frames 0 2 ++ [sp_HAdvance; sp_HAdvance] ++ sp_ex_frames 2 61 ++ [sp_HAdvance].
Lemma sp_ex_overrun_ok :
  sp_wf 2 sp_ex_overrun /\
  sp_outcomes (sp_hrun (sp_start 2 10 3) sp_ex_overrun) =
    [sp_Delivered [[(1, sp_Confirmed); (2, sp_Confirmed)]];
     sp_Delivered [[(11, sp_Confirmed); (12, sp_Confirmed)]];
     sp_Failed sp_SpectatorTooFarBehind] /\
  sp_final_frame (sp_hrun (sp_start 2 10 3) sp_ex_overrun) = 1.
Proof.
  split; [|split; vm_compute; reflexivity].
  unfold sp_wf. repeat (constructor; try (cbn; split; [reflexivity|repeat constructor])).
Qed.

(* catch-up: 14 frames buffered with max_frames_behind = 10, catchup_speed = 3: the calls deliver
   3 frames while more than 10 are outstanding, then 1 *)
Definition sp_ex_catchup : list sp_hop :=
  [sp_HSync] ++ sp_ex_frames 0 14 ++ [sp_HAdvance; sp_HAdvance; sp_HAdvance].
Lemma sp_ex_catchup_ok :
  sp_wf 2 sp_ex_catchup /\
  map (fun o => match o with sp_Delivered l => map (map fst) l | sp_Failed _ => [] end)
      (sp_outcomes (sp_hrun (sp_start 2 10 3) sp_ex_catchup)) =
    [ [[1; 2]; [11; 12]; [21; 22]]; [[31; 32]; [41; 42]; [51; 52]]; [[61; 62]] ] /\
  sp_final_frame (sp_hrun (sp_start 2 10 3) sp_ex_catchup) = 6.
Proof.
  split; [|split; vm_compute; reflexivity].
  unfold sp_wf. repeat (constructor; try (cbn; split; [reflexivity|repeat constructor])).
Qed.

(* a disconnected player: the host marks player 1 disconnected at frame 0; frame 0 is still
   Confirmed for it, frame 1 is Disconnected *)
Definition sp_ex_disc : list sp_hop :=
  [sp_HSync;
   sp_HFrame [(5, [sp_mkcs false 0; sp_mkcs false 0]); (6, [sp_mkcs false 0; sp_mkcs false 0])];
   sp_HFrame [(7, [sp_mkcs false 1; sp_mkcs true 0]); (0, [sp_mkcs false 1; sp_mkcs true 0])];
   sp_HAdvance; sp_HAdvance].
Lemma sp_ex_disc_ok :
  sp_wf 2 sp_ex_disc /\
  sp_outcomes (sp_hrun (sp_start 2 10 1) sp_ex_disc) =
    [sp_Delivered [[(5, sp_Confirmed); (6, sp_Confirmed)]];
     sp_Delivered [[(7, sp_Confirmed); (0, sp_Disconnected)]]].
Proof.
  split; [|vm_compute; reflexivity].
  unfold sp_wf. repeat (constructor; try (cbn; split; [reflexivity|repeat constructor])).
Qed.
