(* Model of the desync detection of src/sessions/p2p_session.rs: check_checksum_send_interval and
   compare_local_checksums_against_peers, as functions of what they read - the sync layer's last
   confirmed frame and saved-state cells - and of what they keep: local_checksum_history,
   last_sent_checksum_frame, and every remote endpoint's pending_checksums (filled by
   UdpProtocol::on_checksum_report, modelled in Endpoint.v).  Maps are association lists; the
   iteration order of the HashMaps only permutes the events of one call (the harness sorts them). *)
From GGRS Require Import Base Consts Endpoint.
Open Scope Z_scope.

Definition I32_MAX : Z := 2147483647.
Definition sat_add (a b : Z) : Z := Z.min I32_MAX (Z.max (- I32_MAX - 1) (a + b)).
Definition sat_sub (a b : Z) : Z := Z.min I32_MAX (Z.max (- I32_MAX - 1) (a - b)).
Definition sat_mul (a b : Z) : Z := Z.min I32_MAX (Z.max (- I32_MAX - 1) (a * b)).

(* a saved-state cell as the detection sees it: (frame, checksum) *)
Definition cell := (Z * option Z)%type.

Record ds := mkds {
  ds_interval : Z;                    (* DesyncDetection::On { interval } (u32) *)
  ds_last_sent : Z;
  ds_hist : list (Z * Z);             (* local_checksum_history *)
  ds_pending : list (list (Z * Z)) }. (* pending_checksums of each remote endpoint *)

Definition ds_new (interval : Z) (neps : nat) : ds := mkds interval NULL [] (repeat [] neps).

(* SyncLayer::saved_state_by_frame (get_cell asserts frame >= 0) *)
Definition cell_by_frame (cells : list cell) (f : Z) : res (option cell) :=
  if f <? 0 then Panic else
  let c := nth (Z.to_nat (f mod Z.of_nat (length cells))) cells (NULL, None) in
  Ok (if fst c =? f then Some c else None).

(* SyncLayer::latest_saved_state_in_range: max_by_key keeps the last of several maxima *)
Definition latest_in_range (cells : list cell) (lo hi : Z) : option cell :=
  if hi <? lo then None else
  fold_left (fun acc c => if (lo <=? fst c) && (fst c <=? hi)
                          then match acc with Some a => if fst a <=? fst c then Some c else acc | None => Some c end
                          else acc) cells None.

Definition interval_i32 (s : ds) : Z := if ds_interval s <=? I32_MAX then ds_interval s else I32_MAX.

(* the history after recording (cf, cs): insert, then trim when more than 32 entries *)
Definition hist_after (cf cs iv : Z) (h : list (Z * Z)) : list (Z * Z) :=
  let h1 := ainsert cf cs h in
  if MAX_CHECKSUM_HISTORY_SIZE <? Z.of_nat (length h1)
  then aretain_ge (sat_sub cf (sat_mul (MAX_CHECKSUM_HISTORY_SIZE - 1) iv)) h1 else h1.

(* check_checksum_send_interval: returns the report sent to every remote, if any *)
Definition send_interval (L : Z) (cells : list cell) (s : ds) : res (ds * option (Z * Z)) :=
  let iv := interval_i32 s in
  let fts := if ds_last_sent s =? NULL then iv else sat_add (ds_last_sent s) iv in
  if fts <=? L then
    match cell_by_frame cells fts with
    | Panic => Panic
    | Err => Err
    | Ok byf =>
      match (match byf with Some c => Some c | None => latest_in_range cells fts L end) with
      | None => Ok (s, None)
      | Some (_, None) => Ok (s, None)
      | Some (cf, Some cs) => Ok (mkds (ds_interval s) cf (hist_after cf cs iv (ds_hist s)) (ds_pending s), Some (cf, cs))
      end
    end
  else Ok (s, None).

(* one remote's pending checksums against the local history: (kept entries, events (frame, local, remote)) *)
Fixpoint compare_one (L : Z) (hist : list (Z * Z)) (pend : list (Z * Z)) : list (Z * Z) * list (Z * Z * Z) :=
  match pend with
  | [] => ([], [])
  | (f, rc) :: r =>
    let '(keep, evs) := compare_one L hist r in
    if L <=? f then ((f, rc) :: keep, evs)          (* still waiting for inputs for this frame *)
    else match alookup f hist with
         | Some lc => (keep, if lc =? rc then evs else (f, lc, rc) :: evs)
         | None => ((f, rc) :: keep, evs)
         end
  end.

(* compare_local_checksums_against_peers: events as (endpoint index, frame, local, remote) *)
Fixpoint compare_all (L : Z) (hist : list (Z * Z)) (ep : Z) (pends : list (list (Z * Z)))
  : list (list (Z * Z)) * list (Z * Z * Z * Z) :=
  match pends with
  | [] => ([], [])
  | p :: r =>
    let '(keep, evs) := compare_one L hist p in
    let '(keeps, evss) := compare_all L hist (ep + 1) r in
    (keep :: keeps, map (fun '(f, lc, rc) => (ep, f, lc, rc)) evs ++ evss)
  end.

Definition compare (L : Z) (s : ds) : ds * list (Z * Z * Z * Z) :=
  let '(pends, evs) := compare_all L (ds_hist s) 0 (ds_pending s) in
  (mkds (ds_interval s) (ds_last_sent s) (ds_hist s) pends, evs).

(* the endpoint's part (Endpoint.on_checksum_report), on the bare map; i32 arithmetic is exact in
   the claimed range (interval and frames far below 2^26) *)
Definition report_one (interval frame cs : Z) (pend : list (Z * Z)) : list (Z * Z) :=
  let p1 := if MAX_CHECKSUM_HISTORY_SIZE <=? Z.of_nat (length pend)
            then aretain_ge (frame - (MAX_CHECKSUM_HISTORY_SIZE - 1) * interval) pend else pend in
  ainsert frame cs p1.
Fixpoint upd_nth {A} (l : list A) (i : nat) (f : A -> A) : list A :=
  match l, i with
  | [], _ => []
  | x :: r, O => f x :: r
  | x :: r, S k => x :: upd_nth r k f
  end.
Definition report (ep : Z) (frame cs : Z) (s : ds) : ds :=
  mkds (ds_interval s) (ds_last_sent s) (ds_hist s) (upd_nth (ds_pending s) (Z.to_nat ep) (report_one (ds_interval s) frame cs)).

(* what one advance_frame call does (desync detection on): send, then compare *)
Definition ds_advance (L : Z) (cells : list cell) (s : ds) : res (ds * option (Z * Z) * list (Z * Z * Z * Z)) :=
  match send_interval L cells s with
  | Panic => Panic
  | Err => Err
  | Ok (s1, rep) => let '(s2, evs) := compare L s1 in Ok (s2, rep, evs)
  end.
