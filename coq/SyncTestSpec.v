(* Reference semantics for C13: the most general game a SyncTestSession can be attached to, the
   executable request contract (C02) and whole runs.

   The game: its state at frame f is the list of the input vectors of frames 0..f-1 that were played
   on the current timeline (any real game state is a function of that list and of whatever
   nondeterminism the game has).  Saving stores that list in the game's own copy of the cell, loading
   restores it.  The checksum the game reports for a save is given by an oracle
   `ck : nat -> timeline -> option Z`: first argument = number of saves executed before this one
   (the only thing besides the state a checksum can depend on in this semantics).
   A DETERMINISTIC game is an oracle that ignores its first argument. *)
From GGRS Require Import Base Consts Queue Sync SyncTest.
Open Scope Z_scope.

Definition st_finputs := list (Z * istatus).
Definition st_timeline := list st_finputs.

Record st_game := st_gmk {
  sg_tl : st_timeline;                   (* the game state; the game frame is its length *)
  sg_cells : list (Z * st_timeline);     (* the game's cells: (frame, saved state) *)
  sg_saves : nat;                        (* saves executed so far *)
  sg_log : list (Z * st_finputs) }.      (* every simulation step executed: (frame, inputs), in order *)

Definition st_game0 (max_prediction : Z) : st_game :=
  st_gmk [] (repeat (NULL, []) (Z.to_nat (max_prediction + 1))) 0 [].

Definition st_gframe (g : st_game) : Z := Z.of_nat (length (sg_tl g)).

Definition st_status_eqb (a b : istatus) : bool :=
  match a, b with
  | Confirmed, Confirmed | Predicted, Predicted | Disconnected, Disconnected => true
  | _, _ => false
  end.
Fixpoint st_list_eqb {A} (e : A -> A -> bool) (a b : list A) : bool :=
  match a, b with
  | [], [] => true
  | x :: r, y :: t => e x y && st_list_eqb e r t
  | _, _ => false
  end.
Definition st_tl_eqb : st_timeline -> st_timeline -> bool :=
  st_list_eqb (st_list_eqb (fun x y => (fst x =? fst y) && st_status_eqb (snd x) (snd y))).

(* The request contract, executable.  None = the request list violates it:
   - SaveGameState must name exactly the frame the game is at;
   - LoadGameState must name an earlier frame, at most max_prediction frames back, whose cell still
     holds that frame and in it the state that was saved for that frame on the current timeline;
   - AdvanceFrame steps the game by one frame.
   Saves are reported to the session model (st_saved) with the oracle's checksum. *)
Definition st_exec_one (ck : nat -> st_timeline -> option Z) (x : st_state * st_game) (r : request)
  : option (st_state * st_game) :=
  let '(s, g) := x in
  let w := st_maxpred s in
  match r with
  | RSave f =>
    if negb (f =? st_gframe g) then None else
    match st_saved s f (ck (sg_saves g) (sg_tl g)) with
    | Ok s' => Some (s', st_gmk (sg_tl g) (updz (sg_cells g) (Z.to_nat (f mod (w + 1))) (f, sg_tl g))
                                (S (sg_saves g)) (sg_log g))
    | _ => None
    end
  | RLoad f =>
    if (f <? 0) || negb (f <? st_gframe g) || (w <? st_gframe g - f) then None else
    let cell := nth (Z.to_nat (f mod (w + 1))) (sg_cells g) (NULL, []) in
    if negb (fst cell =? f) then None else
    if negb (st_tl_eqb (snd cell) (firstn (Z.to_nat f) (sg_tl g))) then None else
    Some (s, st_gmk (snd cell) (sg_cells g) (sg_saves g) (sg_log g))
  | RAdvance ins =>
    Some (s, st_gmk (sg_tl g ++ [ins]) (sg_cells g) (sg_saves g) (sg_log g ++ [(st_gframe g, ins)]))
  end.

Fixpoint st_exec (ck : nat -> st_timeline -> option Z) (x : st_state * st_game) (l : list request)
  : option (st_state * st_game) :=
  match l with
  | [] => Some x
  | r :: t => match st_exec_one ck x r with Some x' => st_exec ck x' t | None => None end
  end.

(* the user supplies the inputs of all players for the coming frame, handle 0 first *)
Fixpoint st_supply (s : st_state) (h : Z) (vs : list Z) : res st_state :=
  match vs with
  | [] => Ok s
  | v :: r => res_bind (st_add_local_input s h v) (fun s' => st_supply s' (h + 1) r)
  end.

Inductive st_callres :=
| CallOk (s : st_state) (g : st_game) (reqs : list request)
| CallPanic
| CallMismatch (s : st_state) (current_frame : Z) (frames : list Z)
| CallInvalid
| CallContract (reqs : list request).     (* the returned request list violates the contract *)

(* one frame of the user's loop: add_local_input for every player, advance_frame, execute the
   requests; the game must end exactly one frame further, at the session's current_frame *)
Definition st_call (predict : Z -> Z) (ck : nat -> st_timeline -> option Z)
  (s : st_state) (g : st_game) (vs : list Z) : st_callres :=
  match st_supply s 0 vs with
  | Panic => CallPanic
  | Err => CallInvalid
  | Ok s1 =>
    match st_advance_frame predict s1 with
    | Panic | Err => CallPanic
    | Ok (s2, StMismatched c fs) => CallMismatch s2 c fs
    | Ok (s2, StInvalid) => CallInvalid
    | Ok (s2, StRequests reqs) =>
      match st_exec ck (s2, g) reqs with
      | None => CallContract reqs
      | Some (s3, g') =>
        if (st_gframe g' =? st_gframe g + 1) && (st_gframe g' =? s_current (st_sync s3))
        then CallOk s3 g' reqs else CallContract reqs
      end
    end
  end.

Inductive st_runres :=
| RunOk (s : st_state) (g : st_game) (outs : list (list request))
| RunStop (outs : list (list request)) (why : st_callres).   (* outs = the lists of the calls before *)

Fixpoint st_run (predict : Z -> Z) (ck : nat -> st_timeline -> option Z)
  (s : st_state) (g : st_game) (ins : list (list Z)) : st_runres :=
  match ins with
  | [] => RunOk s g []
  | vs :: rest =>
    match st_call predict ck s g vs with
    | CallOk s' g' reqs =>
      match st_run predict ck s' g' rest with
      | RunOk s'' g'' outs => RunOk s'' g'' (reqs :: outs)
      | RunStop outs why => RunStop (reqs :: outs) why
      end
    | why => RunStop [] why
    end
  end.

(* ---------- what the property promises ---------- *)

Definition st_deterministic (ck : nat -> st_timeline -> option Z) : Prop :=
  forall n m tl, ck n tl = ck m tl.

(* deterministic except for the saves of frame F, which never repeat a checksum *)
Definition st_noisy_at (ck : nat -> st_timeline -> option Z) (F : Z) : Prop :=
  (forall n m tl, Z.of_nat (length tl) <> F -> ck n tl = ck m tl) /\
  (forall n m tl, Z.of_nat (length tl) = F -> n <> m -> ck n tl <> ck m tl).

(* the input of player p for game frame f with input delay k: the value submitted at user frame
   f - k, the default input 0 before *)
Definition st_delayed (ins : list (list Z)) (k f : Z) (p : nat) : Z :=
  if f <? k then 0 else nth p (nth (Z.to_nat (f - k)) ins []) 0.
Definition st_expected (np : Z) (ins : list (list Z)) (k f : Z) : st_finputs :=
  map (fun p => (st_delayed ins k f p, Confirmed)) (seq 0 (Z.to_nat np)).

(* the request list of the call made at current_frame = c *)
Definition st_expected_requests (np d k : Z) (ins : list (list Z)) (c : Z) : list request :=
  (if (0 <? d) && (d <? c)
   then RLoad (c - d) :: RAdvance (st_expected np ins k (c - d)) ::
        flat_map (fun f => [RSave f; RAdvance (st_expected np ins k f)]) (st_zrange (c - d + 1) (Z.to_nat (d - 1)))
   else []) ++
  (if 0 <? d then [RSave c] else []) ++ [RAdvance (st_expected np ins k c)].
