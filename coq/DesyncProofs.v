(* Theorems about the desync-detection model: no false alarm when every checksum in play is the
   checksum of the true state of its frame; a differing checksum is reported; what is reported. *)
From GGRS Require Import Base Consts Endpoint Desync.
From Coq Require Import ZifyBool ZifyNat ZifyN.
Open Scope Z_scope.

Section Truth.
(* the checksum of the (unique) correct state of each frame: what a deterministic game saves for a
   frame once all inputs before it are the real ones *)
Variable truth : Z -> Z.

Definition truthful (m : list (Z * Z)) : Prop := Forall (fun kv => snd kv = truth (fst kv)) m.
Definition Inv (s : ds) : Prop := truthful (ds_hist s) /\ Forall truthful (ds_pending s).

Lemma truthful_lookup : forall m f c, truthful m -> alookup f m = Some c -> c = truth f.
Proof.
  induction m as [|[k v] m IH]; intros f c H E; cbn [alookup] in E; [discriminate|].
  inversion H as [|? ? H1 H2]; subst. cbn [fst snd] in H1.
  destruct (Z.eqb_spec f k) as [->|Hne]; [injection E as <-; exact H1|eapply IH; eassumption].
Qed.
Lemma truthful_filter : forall m P, truthful m -> truthful (filter P m).
Proof.
  intros m P H. unfold truthful in *. rewrite Forall_forall in *. intros x Hx. apply filter_In in Hx. apply H. tauto.
Qed.
Lemma truthful_insert : forall m f, truthful m -> truthful (ainsert f (truth f) m).
Proof. intros m f H. unfold ainsert. constructor; [reflexivity|]. unfold aremove. apply truthful_filter. exact H. Qed.

(* ---------- compare ---------- *)
Lemma compare_one_truthful : forall L hist pend, truthful hist -> truthful pend ->
  snd (compare_one L hist pend) = [] /\ truthful (fst (compare_one L hist pend)).
Proof.
  induction pend as [|[f rc] r IH]; intros Hh Hp; cbn [compare_one]; [split; [reflexivity|constructor]|].
  inversion Hp as [|? ? H1 H2]; subst. cbn [fst snd] in H1.
  destruct (IH Hh H2) as (A & B). destruct (compare_one L hist r) as [keep evs]. cbn [fst snd] in *. subst evs.
  destruct (L <=? f); cbn [fst snd]; [split; [reflexivity|constructor; [exact H1|exact B]]|].
  destruct (alookup f hist) as [lc|] eqn:E; cbn [fst snd].
  - rewrite (truthful_lookup _ _ _ Hh E), H1, Z.eqb_refl. split; [reflexivity|exact B].
  - split; [reflexivity|constructor; [exact H1|exact B]].
Qed.

Lemma compare_all_truthful : forall L hist pends ep, truthful hist -> Forall truthful pends ->
  snd (compare_all L hist ep pends) = [] /\ Forall truthful (fst (compare_all L hist ep pends)).
Proof.
  induction pends as [|p r IH]; intros ep Hh Hp; cbn [compare_all]; [split; [reflexivity|constructor]|].
  inversion Hp as [|? ? H1 H2]; subst.
  destruct (compare_one_truthful L hist p Hh H1) as (A & B). destruct (compare_one L hist p) as [keep evs]. cbn [fst snd] in *. subst evs.
  destruct (IH (ep + 1) Hh H2) as (C & D). destruct (compare_all L hist (ep + 1) r) as [keeps evss]. cbn [fst snd] in *. subst evss.
  split; [reflexivity|constructor; assumption].
Qed.

(* no false alarm: with only true checksums in play, a comparison raises nothing and keeps the invariant *)
Lemma compare_no_false_alarm : forall L s, Inv s -> snd (compare L s) = [] /\ Inv (fst (compare L s)).
Proof.
  intros L s (Hh & Hp). unfold compare.
  destruct (compare_all_truthful L (ds_hist s) (ds_pending s) 0 Hh Hp) as (A & B).
  destruct (compare_all L (ds_hist s) 0 (ds_pending s)) as [pends evs]. cbn [fst snd] in *.
  split; [exact A|]. split; [exact Hh|exact B].
Qed.

(* ---------- send ---------- *)
(* the cells a report can be taken from carry the true checksum of their frame: C01 on saved states,
   SessionTimeline.confirmed_saved_states_are_replays - every saved frame <= L is final *)
Definition cells_truthful (L : Z) (cells : list cell) : Prop :=
  Forall (fun c => forall cs, snd c = Some cs -> 0 <= fst c <= L -> cs = truth (fst c)) cells.

Lemma latest_in_range_spec : forall cells lo hi c, latest_in_range cells lo hi = Some c ->
  In c cells /\ lo <= fst c <= hi.
Proof.
  intros cells lo hi c. unfold latest_in_range. destruct (hi <? lo); [discriminate|].
  assert (G : forall acc, (forall a, acc = Some a -> In a cells /\ lo <= fst a <= hi) ->
              forall l, (forall x, In x l -> In x cells) ->
              fold_left (fun acc c => if (lo <=? fst c) && (fst c <=? hi)
                          then match acc with Some a => if fst a <=? fst c then Some c else acc | None => Some c end
                          else acc) l acc = Some c -> In c cells /\ lo <= fst c <= hi).
  { intros acc Hacc l. revert acc Hacc. induction l as [|x l IH]; intros acc Hacc Hl E; cbn [fold_left] in E; [exact (Hacc c E)|].
    apply IH in E; [exact E| |intros y Hy; apply Hl; right; exact Hy].
    intros a Ha. destruct ((lo <=? fst x) && (fst x <=? hi)) eqn:Er.
    - destruct acc as [a0|].
      + destruct (fst a0 <=? fst x); [injection Ha as <-; split; [apply Hl; left; reflexivity|lia]|exact (Hacc a Ha)].
      + injection Ha as <-. split; [apply Hl; left; reflexivity|lia].
    - exact (Hacc a Ha). }
  apply G; [intros a Ha; discriminate|intros x Hx; exact Hx].
Qed.

Lemma cell_by_frame_spec : forall cells f c, cell_by_frame cells f = Ok (Some c) -> fst c = f /\ (In c cells \/ c = (NULL, None)).
Proof.
  intros cells f c H. unfold cell_by_frame in H. destruct (f <? 0); [discriminate|].
  set (x := nth _ cells (NULL, None)) in *. destruct (Z.eqb_spec (fst x) f) as [E|E]; [|discriminate].
  injection H as <-. split; [exact E|]. subst x. destruct (nth_in_or_default (Z.to_nat (f mod Z.of_nat (length cells))) cells (NULL, None)); [left|right]; assumption.
Qed.

Lemma hist_after_truthful : forall cf iv h, truthful h -> truthful (hist_after cf (truth cf) iv h).
Proof.
  intros cf iv h H. unfold hist_after. destruct (MAX_CHECKSUM_HISTORY_SIZE <? _); [apply truthful_filter|]; apply truthful_insert; exact H.
Qed.
Lemma hist_after_lookup : forall cf cs iv h, 0 <= iv -> 0 <= cf -> alookup cf (hist_after cf cs iv h) = Some cs.
Proof.
  intros cf cs iv h Hiv Hcf. unfold hist_after.
  assert (Hl : alookup cf (ainsert cf cs h) = Some cs) by (unfold ainsert; cbn [alookup]; rewrite Z.eqb_refl; reflexivity).
  destruct (MAX_CHECKSUM_HISTORY_SIZE <? _); [|exact Hl].
  unfold aretain_ge, ainsert. cbn [filter fst].
  assert ((sat_sub cf (sat_mul (MAX_CHECKSUM_HISTORY_SIZE - 1) iv) <=? cf) = true) as ->.
  { unfold sat_sub, sat_mul, I32_MAX, MAX_CHECKSUM_HISTORY_SIZE. lia. }
  cbn [alookup]. rewrite Z.eqb_refl. reflexivity.
Qed.

Lemma send_interval_interval : forall L cells s s' rep, send_interval L cells s = Ok (s', rep) -> ds_interval s' = ds_interval s /\ ds_pending s' = ds_pending s.
Proof.
  intros L cells s s' rep E. unfold send_interval in E.
  destruct (_ <=? L); [|injection E as <- _; split; reflexivity].
  destruct (cell_by_frame _ _) as [byf| |]; try discriminate.
  destruct (match byf with Some c => Some c | None => _ end) as [[? [?|]]|]; injection E as <- _; split; reflexivity.
Qed.
Lemma compare_interval : forall L s, ds_interval (fst (compare L s)) = ds_interval s /\ ds_hist (fst (compare L s)) = ds_hist s /\ ds_last_sent (fst (compare L s)) = ds_last_sent s.
Proof. intros L s. unfold compare. destruct (compare_all _ _ _ _). cbn. repeat split. Qed.

Lemma send_interval_inv : forall L cells s s' rep,
  send_interval L cells s = Ok (s', rep) -> cells_truthful L cells -> Inv s -> 0 <= interval_i32 s ->
  Inv s' /\ (forall f cs, rep = Some (f, cs) -> cs = truth f /\ 0 <= f <= L /\ ds_last_sent s' = f /\ alookup f (ds_hist s') = Some cs /\ In (f, Some cs) cells) /\
  (rep = None -> s' = s).
Proof.
  intros L cells s s' rep E Hc (Hh & Hp) Hiv. unfold send_interval in E.
  set (iv := interval_i32 s) in *.
  set (fts := if ds_last_sent s =? NULL then iv else sat_add (ds_last_sent s) iv) in *.
  destruct (fts <=? L) eqn:EL; [|injection E as <- <-; split; [split; assumption|split; [intros f cs X; discriminate|reflexivity]]].
  destruct (cell_by_frame cells fts) as [byf| |] eqn:Eb; try discriminate.
  assert (Hsel : forall c, (match byf with Some c => Some c | None => latest_in_range cells fts L end) = Some c ->
                   (In c cells \/ c = (NULL, None)) /\ fts <= fst c <= L).
  { intros c Hs. destruct byf as [c0|].
    - injection Hs as <-. destruct (cell_by_frame_spec _ _ _ Eb) as (A & B). split; [exact B|lia].
    - destruct (latest_in_range_spec _ _ _ _ Hs) as (A & B). split; [left; exact A|exact B]. }
  destruct (match byf with Some c => Some c | None => latest_in_range cells fts L end) as [[cf [cs|]]|] eqn:Es;
    try (injection E as <- <-; split; [split; assumption|split; [intros f cs0 X; discriminate|reflexivity]]).
  injection E as <- <-.
  destruct (Hsel _ eq_refl) as ([Hin|Hd] & Hr); [|discriminate]. cbn [fst] in Hr.
  assert (Hfts : 0 <= fts).
  { unfold cell_by_frame in Eb. destruct (fts <? 0) eqn:X; [discriminate|lia]. }
  assert (Hcs : cs = truth cf).
  { unfold cells_truthful in Hc. rewrite Forall_forall in Hc. apply (Hc _ Hin cs eq_refl). cbn [fst]. lia. }
  split; [split; [|exact Hp]|].
  - cbn [ds_hist]. rewrite Hcs. apply hist_after_truthful. exact Hh.
  - split; [|intros X; discriminate]. intros f cs0 X. injection X as <- <-. cbn [ds_last_sent ds_hist].
    split; [exact Hcs|]. split; [lia|]. split; [reflexivity|]. split; [apply hist_after_lookup; [exact Hiv|lia]|exact Hin].
Qed.

(* ---------- reports ---------- *)
Lemma upd_nth_Forall {A} (P : A -> Prop) : forall l i f, Forall P l -> (forall x, P x -> P (f x)) -> Forall P (upd_nth l i f).
Proof. induction l as [|x l IH]; intros [|i] f H Hf; inversion H; subst; cbn [upd_nth]; constructor; auto. Qed.

Lemma report_inv : forall ep f s, Inv s -> Inv (report ep f (truth f) s).
Proof.
  intros ep f s (Hh & Hp). split; [exact Hh|]. cbn [report ds_pending].
  apply upd_nth_Forall; [exact Hp|]. intros m Hm. unfold report_one.
  destruct (MAX_CHECKSUM_HISTORY_SIZE <=? _); [apply truthful_insert, truthful_filter, Hm|apply truthful_insert, Hm].
Qed.

(* ---------- runs ---------- *)
Inductive dop :=
| DAdvance (L : Z) (cells : list cell)        (* an advance_frame call reading this sync-layer state *)
| DReport (ep frame cs : Z).                  (* a ChecksumReport arrives from endpoint ep *)

Fixpoint ds_run (s : ds) (ops : list dop) : res (ds * list (Z * Z * Z * Z)) :=
  match ops with
  | [] => Ok (s, [])
  | DAdvance L cells :: r =>
    match ds_advance L cells s with
    | Ok (s', _, evs) => match ds_run s' r with Ok (s'', evs') => Ok (s'', evs ++ evs') | e => e end
    | Err => Err | Panic => Panic
    end
  | DReport ep f cs :: r => ds_run (report ep f cs s) r
  end.

Definition op_truthful (o : dop) : Prop :=
  match o with
  | DAdvance L cells => cells_truthful L cells
  | DReport _ f cs => cs = truth f
  end.

(* NO FALSE ALARM, for every run: if every checksum that enters - the cells a report may be taken from,
   and the peers' reports - is the true checksum of its frame, no DesyncDetected is ever raised *)
Theorem no_false_alarm : forall ops s s' evs,
  Inv s -> 0 <= interval_i32 s -> Forall op_truthful ops -> ds_run s ops = Ok (s', evs) -> evs = [] /\ Inv s'.
Proof.
  induction ops as [|o ops IH]; intros s s' evs HI Hiv Hops E; cbn [ds_run] in E.
  - injection E as <- <-. split; [reflexivity|exact HI].
  - inversion Hops as [|? ? Ho Hops']; subst. destruct o as [L cells|ep f cs]; cbn [op_truthful] in Ho.
    + unfold ds_advance in E. destruct (send_interval L cells s) as [[s1 rep]| |] eqn:Es; try discriminate.
      destruct (send_interval_inv _ _ _ _ _ Es Ho HI Hiv) as (HI1 & _ & _).
      destruct (compare_no_false_alarm L s1 HI1) as (A & B). destruct (compare L s1) as [s2 evs2] eqn:Ec. cbn [fst snd] in *. subst evs2.
      destruct (ds_run s2 ops) as [[s3 evs3]| |] eqn:Er; try discriminate. injection E as <- <-.
      assert (Hiv2 : 0 <= interval_i32 s2).
      { destruct (send_interval_interval _ _ _ _ _ Es) as (X1 & _). destruct (compare_interval L s1) as (X2 & _).
        rewrite Ec in X2. cbn [fst] in X2. unfold interval_i32 in *. rewrite X2, X1. exact Hiv. }
      destruct (IH s2 s3 evs3 B Hiv2 Hops' Er) as (C & D). subst evs3. split; [reflexivity|exact D].
    + subst cs. apply (IH _ s' evs (report_inv ep f s HI)); [exact Hiv|exact Hops'|exact E].
Qed.

End Truth.

(* ---------- what a comparison reports, exactly ---------- *)
Lemma compare_one_events : forall L hist pend f lc rc,
  In (f, lc, rc) (snd (compare_one L hist pend)) <->
  (In (f, rc) pend /\ f < L /\ alookup f hist = Some lc /\ lc <> rc).
Proof.
  induction pend as [|[f0 rc0] r IH]; intros f lc rc; cbn [compare_one]; [cbn; tauto|].
  specialize (IH f lc rc). destruct (compare_one L hist r) as [keep evs]. cbn [snd] in IH.
  destruct (Z.leb_spec L f0) as [Hge|Hlt]; cbn [snd].
  - rewrite IH. cbn [In]. split; [intros (A & B); split; [right; exact A|exact B]|].
    intros ([A|A] & B); [injection A as -> ->; lia|split; assumption].
  - destruct (alookup f0 hist) as [lc0|] eqn:E; cbn [snd].
    + destruct (Z.eqb_spec lc0 rc0) as [Eq|Ne].
      * rewrite IH. cbn [In]. split; [intros (A & B); split; [right; exact A|exact B]|].
        intros ([A|A] & B & C & D); [injection A as -> ->; congruence|repeat split; assumption].
      * cbn [In]. rewrite IH. split.
        -- intros [A|(A & B)]; [injection A as <- <- <-; repeat split; [left; reflexivity|lia|exact E|exact Ne]|split; [right; exact A|exact B]].
        -- intros ([A|A] & B & C & D); [injection A as -> ->; left; congruence|right; repeat split; assumption].
    + rewrite IH. cbn [In]. split; [intros (A & B); split; [right; exact A|exact B]|].
      intros ([A|A] & B & C & D); [injection A as -> ->; congruence|repeat split; assumption].
Qed.

Lemma compare_one_kept : forall L hist pend f rc,
  In (f, rc) (fst (compare_one L hist pend)) <-> (In (f, rc) pend /\ (L <= f \/ alookup f hist = None)).
Proof.
  induction pend as [|[f0 rc0] r IH]; intros f rc; cbn [compare_one]; [cbn; tauto|].
  specialize (IH f rc). destruct (compare_one L hist r) as [keep evs]. cbn [fst] in IH.
  destruct (Z.leb_spec L f0) as [Hge|Hlt]; cbn [fst].
  - cbn [In]. rewrite IH. split; [intros [A|(A & B)]; [injection A as <- <-; split; [left; reflexivity|left; exact Hge]|split; [right; exact A|exact B]]|].
    intros ([A|A] & B); [left; exact A|right; split; assumption].
  - destruct (alookup f0 hist) as [lc0|] eqn:E; cbn [fst].
    + rewrite IH. cbn [In]. split; [intros (A & B); split; [right; exact A|exact B]|].
      intros ([A|A] & [B|B]); [injection A as -> ->; lia|injection A as -> ->; congruence|split; [exact A|left; exact B]|split; [exact A|right; exact B]].
    + cbn [In]. rewrite IH. split; [intros [A|(A & B)]; [injection A as <- <-; split; [left; reflexivity|right; exact E]|split; [right; exact A|exact B]]|].
      intros ([A|A] & B); [left; exact A|right; split; assumption].
Qed.

Lemma compare_all_events : forall L hist pends ep0 ep f lc rc,
  In (ep, f, lc, rc) (snd (compare_all L hist ep0 pends)) <->
  (exists pend, nth_error pends (Z.to_nat (ep - ep0)) = Some pend /\ ep0 <= ep /\
                In (f, rc) pend /\ f < L /\ alookup f hist = Some lc /\ lc <> rc).
Proof.
  induction pends as [|p r IH]; intros ep0 ep f lc rc; cbn [compare_all].
  - cbn [snd In]. split; [intros []|]. intros (pend & A & _). destruct (Z.to_nat (ep - ep0)); discriminate A.
  - pose proof (compare_one_events L hist p) as H1. destruct (compare_one L hist p) as [keep evs]. cbn [snd] in H1.
    specialize (IH (ep0 + 1) ep f lc rc). destruct (compare_all L hist (ep0 + 1) r) as [keeps evss]. cbn [snd] in *.
    rewrite in_app_iff, in_map_iff, IH. split.
    + intros [([[f' lc'] rc'] & A & B)|(pend & A & B & C)].
      * assert (A' : ep0 = ep /\ f' = f /\ lc' = lc /\ rc' = rc) by (injection A; auto). destruct A' as (<- & -> & -> & ->). clear A. apply H1 in B. exists p. replace (ep0 - ep0) with 0 by lia. split; [reflexivity|]. split; [lia|exact B].
      * exists pend. split; [|split; [lia|exact C]]. replace (Z.to_nat (ep - ep0)) with (S (Z.to_nat (ep - (ep0 + 1)))) by lia. exact A.
    + intros (pend & A & B & C).
      destruct (Z.eq_dec ep ep0) as [->|Hne].
      * replace (ep0 - ep0) with 0 in A by lia. cbn in A. injection A as <-. left. exists (f, lc, rc). split; [reflexivity|apply H1; exact C].
      * right. exists pend. split; [|split; [lia|exact C]].
        replace (Z.to_nat (ep - ep0)) with (S (Z.to_nat (ep - (ep0 + 1)))) in A by lia. exact A.
Qed.

(* DETECTION, exactly: a comparison raises DesyncDetected(ep, f, local, remote) iff endpoint ep has
   reported checksum `remote` for a frame f below the last confirmed frame, the local history holds a
   checksum for f, and the two differ; every compared entry leaves the pending map *)
Theorem compare_reports_exactly : forall L s ep f lc rc,
  In (ep, f, lc, rc) (snd (compare L s)) <->
  (exists pend, nth_error (ds_pending s) (Z.to_nat ep) = Some pend /\ 0 <= ep /\
                In (f, rc) pend /\ f < L /\ alookup f (ds_hist s) = Some lc /\ lc <> rc).
Proof.
  intros L s ep f lc rc. unfold compare.
  pose proof (compare_all_events L (ds_hist s) (ds_pending s) 0 ep f lc rc) as H.
  destruct (compare_all L (ds_hist s) 0 (ds_pending s)) as [pends evs]. cbn [snd] in *.
  rewrite Z.sub_0_r in H. exact H.
Qed.
