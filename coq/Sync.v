(* Faithful model of src/sync_layer.rs (SyncLayer): per-player input queues, the ring of
   max_prediction+1 saved-state cells, current / last confirmed / last saved frame.
   A cell is represented by the frame number saved in it (NULL if never saved): the data is the
   game's business.  The user is assumed to execute SaveGameState requests (it is the documented
   obligation), so save_current_state records the frame in the cell right away. *)
From GGRS Require Import Base Consts Queue.
Open Scope Z_scope.

Inductive request :=
| RSave (f : Z)
| RLoad (f : Z)
| RAdvance (inputs : list (Z * istatus)).

(* ConnectionStatus *)
Record cstat := mkcs { cs_disc : bool; cs_last : Z }.
Definition cs_default : cstat := mkcs false NULL.

Record sync := mks {
  s_maxpred : Z;
  s_cells : list Z;
  s_last_confirmed : Z;
  s_last_saved : Z;
  s_current : Z;
  s_queues : list queue }.

Definition sync_new (num_players max_prediction : Z) : sync :=
  mks max_prediction (repeat NULL (Z.to_nat (max_prediction + 1))) NULL NULL 0
      (repeat q_new (Z.to_nat num_players)).

Fixpoint updz {A} (l : list A) (i : nat) (x : A) : list A :=
  match l, i with
  | [], _ => []
  | _ :: r, O => x :: r
  | y :: r, S k => y :: updz r k x
  end.

Definition cell_pos (s : sync) (frame : Z) : Z := frame mod (s_maxpred s + 1).
Definition cell_frame (s : sync) (frame : Z) : Z := nth (Z.to_nat (cell_pos s frame)) (s_cells s) NULL.

Definition with_queues (s : sync) (qs : list queue) : sync :=
  mks (s_maxpred s) (s_cells s) (s_last_confirmed s) (s_last_saved s) (s_current s) qs.
Definition with_current (s : sync) (c : Z) : sync :=
  mks (s_maxpred s) (s_cells s) (s_last_confirmed s) (s_last_saved s) c (s_queues s).

Definition advance_frame (s : sync) : sync := with_current s (s_current s + 1).

(* get_cell asserts frame >= 0 *)
Definition save_current_state (s : sync) : res (sync * request) :=
  if s_current s <? 0 then Panic else
  Ok (mks (s_maxpred s) (updz (s_cells s) (Z.to_nat (cell_pos s (s_current s))) (s_current s))
          (s_last_confirmed s) (s_current s) (s_current s) (s_queues s),
      RSave (s_current s)).

Definition load_frame (s : sync) (f : Z) : res (sync * request) :=
  if f =? NULL then Panic else
  if negb (f <? s_current s) then Panic else
  if f <? s_current s - s_maxpred s then Panic else
  if f <? 0 then Panic else
  if negb (cell_frame s f =? f) then Panic else
  Ok (with_current s f, RLoad f).

Definition qnth (s : sync) (h : Z) : queue := nth (Z.to_nat h) (s_queues s) q_new.

Definition reset_all (s : sync) : sync := with_queues s (map reset_prediction (s_queues s)).

Definition add_local_input (s : sync) (h frame v : Z) : res (sync * Z) :=
  if negb (frame =? s_current s) then Panic else
  if (h <? 0) || (Z.of_nat (length (s_queues s)) <=? h) then Panic else
  res_bind (add_input (qnth s h) frame v) (fun '(q', r) =>
    Ok (with_queues s (updz (s_queues s) (Z.to_nat h) q'), r)).

Definition add_remote_input (s : sync) (h frame v : Z) : res sync :=
  if (h <? 0) || (Z.of_nat (length (s_queues s)) <=? h) then Panic else
  res_bind (add_input (qnth s h) frame v) (fun '(q', _) =>
    Ok (with_queues s (updz (s_queues s) (Z.to_nat h) q'))).

Definition set_queue_delay (s : sync) (h d : Z) : res (sync * list pinput) :=
  if (h <? 0) || (Z.of_nat (length (s_queues s)) <=? h) then Panic else
  res_bind (set_frame_delay (qnth s h) d) (fun '(q', fills) =>
    Ok (with_queues s (updz (s_queues s) (Z.to_nat h) q'), fills)).

Section WithPredictor.
Variable predict : Z -> Z.

(* synchronized_inputs: walks the players in handle order *)
Fixpoint sync_inputs_go (cur : Z) (qs : list queue) (st : list cstat) : res (list queue * list (Z * istatus)) :=
  match st with
  | [] => Ok (qs, [])
  | c :: st' =>
    match qs with
    | [] => Panic            (* index out of bounds: more statuses than queues *)
    | q :: qs' =>
      if cs_disc c && (cs_last c <? cur) then
        res_bind (sync_inputs_go cur qs' st') (fun '(qs2, ins) => Ok (q :: qs2, (0, Disconnected) :: ins))
      else
        res_bind (input predict q cur) (fun '(q', i) =>
          res_bind (sync_inputs_go cur qs' st') (fun '(qs2, ins) => Ok (q' :: qs2, i :: ins)))
    end
  end.

Definition synchronized_inputs (s : sync) (st : list cstat) : res (sync * list (Z * istatus)) :=
  res_bind (sync_inputs_go (s_current s) (s_queues s) st) (fun '(qs, ins) => Ok (with_queues s qs, ins)).

End WithPredictor.

Fixpoint confirmed_inputs_go (frame : Z) (qs : list queue) (st : list cstat) : res (list pinput) :=
  match st with
  | [] => Ok []
  | c :: st' =>
    match qs with
    | [] => Panic
    | q :: qs' =>
      if cs_disc c && (cs_last c <? frame) then
        res_bind (confirmed_inputs_go frame qs' st') (fun r => Ok (blank NULL :: r))
      else
        res_bind (confirmed_input q frame) (fun pi =>
          res_bind (confirmed_inputs_go frame qs' st') (fun r => Ok (pi :: r)))
    end
  end.
Definition confirmed_inputs (s : sync) (frame : Z) (st : list cstat) : res (list pinput) :=
  confirmed_inputs_go frame (s_queues s) st.

Definition max_first_incorrect (qs : list queue) : Z :=
  fold_left (fun acc q => Z.max acc (q_first_incorrect q)) qs NULL.

Definition set_last_confirmed_frame (s : sync) (frame0 : Z) (sparse : bool) : res sync :=
  let fi := max_first_incorrect (s_queues s) in
  let frame1 := if sparse then Z.min frame0 (s_last_saved s) else frame0 in
  let frame := Z.min frame1 (s_current s) in
  if negb ((fi =? NULL) || (frame <=? fi)) then Panic else
  let qs := if 0 <? frame then map (fun q => discard_confirmed_frames q (frame - 1)) (s_queues s) else s_queues s in
  Ok (mks (s_maxpred s) (s_cells s) frame (s_last_saved s) (s_current s) qs).

Definition check_simulation_consistency (s : sync) (first_incorrect0 : Z) : Z :=
  fold_left (fun acc q =>
               let inc := q_first_incorrect q in
               if negb (inc =? NULL) && ((acc =? NULL) || (inc <? acc)) then inc else acc)
            (s_queues s) first_incorrect0.

(* saved_state_by_frame: Some iff the cell still holds that frame (get_cell asserts frame >= 0) *)
Definition saved_state_by_frame (s : sync) (frame : Z) : res bool :=
  if frame <? 0 then Panic else Ok (cell_frame s frame =? frame).
