From GGRS Require Import Base Varint Rle VarintProofs.
From Coq Require Import ZifyBool ZifyNat ZifyN.
Ltac Zify.zify_post_hook ::= Z.div_mod_to_equations.
Open Scope N_scope.

Lemma rdec_fuel : forall k1 k2 b, (length b <= k1)%nat -> (length b <= k2)%nat -> rdec k1 b = rdec k2 b.
Proof.
  induction k1 as [|k1 IH]; intros k2 b H1 H2.
  - destruct b; [|cbn in H1; lia]. destruct k2; reflexivity.
  - destruct k2 as [|k2].
    + destruct b; [reflexivity|cbn in H2; lia].
    + cbn [rdec]. destruct b as [|x b']; [reflexivity|].
      set (buf := x :: b') in *.
      destruct (vdec buf) as [[next c]|] eqn:Hv; [|reflexivity].
      apply vdec_cnt in Hv.
      assert (Hs : (length (skipn c buf) <= k1)%nat /\ (length (skipn c buf) <= k2)%nat).
      { rewrite skipn_length. lia. }
      destruct Hs as [Hs1 Hs2].
      destruct (next mod 2 =? 1).
      * rewrite (IH k2 _ Hs1 Hs2). reflexivity.
      * destruct (length (skipn c buf) <? N.to_nat (next / 2))%nat; [reflexivity|].
        rewrite (IH k2); [reflexivity| |]; rewrite skipn_length; lia.
Qed.

Lemma skipn_app_exact {A} (l1 l2 : list A) : skipn (length l1) (l1 ++ l2) = l2.
Proof. induction l1; cbn; auto. Qed.
Lemma firstn_app_exact {A} (l1 l2 : list A) : firstn (length l1) (l1 ++ l2) = l1.
Proof. induction l1; cbn; f_equal; auto. Qed.
Lemma repeat_snoc {A} (x : A) n : repeat x (S n) = repeat x n ++ [x].
Proof. induction n; cbn in *; [reflexivity|]. f_equal. exact IHn. Qed.

Section WithCap.
Variable cap : N.

Lemma scan_fuel : forall k1 k2 b acc, (length b <= k1)%nat -> (length b <= k2)%nat ->
  scan cap k1 b acc = scan cap k2 b acc.
Proof.
  induction k1 as [|k1 IH]; intros k2 b acc H1 H2.
  - destruct b; [|cbn in H1; lia]. destruct k2; reflexivity.
  - destruct k2 as [|k2].
    + destruct b; [reflexivity|cbn in H2; lia].
    + cbn [scan]. destruct b as [|x b']; [reflexivity|].
      set (buf := x :: b') in *.
      destruct (vdecB buf) as [[next c]|] eqn:Hv; [|reflexivity].
      apply (vdecB_sound true) in Hv. destruct Hv as (_ & _ & _ & Hc).
      assert (Hs : (length (skipn c buf) <= k1)%nat /\ (length (skipn c buf) <= k2)%nat).
      { rewrite skipn_length. lia. }
      destruct Hs as [Hs1 Hs2].
      destruct (cap <? _); [reflexivity|].
      destruct (next mod 2 =? 1).
      * apply IH; assumption.
      * destruct (N.of_nat (length (skipn c buf)) <? next / 2); [reflexivity|].
        apply IH; rewrite skipn_length; lia.
Qed.

Definition D (buf : list N) := rle_decode buf.
Definition S_ (buf : list N) (acc : N) := scan cap (length buf) buf acc.

Definition Tok (o d : list N) : Prop :=
  (forall X t, D X = Some t -> D (o ++ X) = Some (d ++ t)) /\
  (forall X acc r, acc + N.of_nat (length d) <= cap ->
     S_ X (acc + N.of_nat (length d)) = Some r -> S_ (o ++ X) acc = Some r).

Lemma Tok_nil : Tok [] [].
Proof.
  split.
  - intros X t H. exact H.
  - intros X acc r _ H. cbn [length app] in *. rewrite N.add_0_r in H. exact H.
Qed.

Lemma Tok_app : forall o1 d1 o2 d2, Tok o1 d1 -> Tok o2 d2 -> Tok (o1 ++ o2) (d1 ++ d2).
Proof.
  intros o1 d1 o2 d2 [H1 G1] [H2 G2]. split.
  - intros X t H. rewrite <- !app_assoc. apply H1. apply H2. exact H.
  - intros X acc r Hc H. rewrite <- app_assoc. rewrite app_length in *.
    apply G1; [lia|]. apply G2; [lia|].
    replace (acc + N.of_nat (length d1) + N.of_nat (length d2))
      with (acc + N.of_nat (length d1 + length d2)) by lia. exact H.
Qed.

Definition rbody (k : nat) (buf : list N) : option (list N) :=
  match vdec buf with
  | None => None
  | Some (next, c) =>
    let rest := skipn c buf in
    if next mod 2 =? 1 then
      match rdec k rest with None => None | Some t =>
        Some (repeat (if (next / 2) mod 2 =? 1 then 255 else 0) (N.to_nat (next / 4)) ++ t) end
    else
      let l := N.to_nat (next / 2) in
      if (length rest <? l)%nat then None else
      match rdec k (skipn l rest) with None => None | Some t => Some (firstn l rest ++ t) end
  end.
Lemma rdec_S : forall k buf, buf <> [] -> rdec (S k) buf = rbody k buf.
Proof. intros k [|x b] H; [congruence|reflexivity]. Qed.

Lemma D_step : forall n body X,
  n < 2^64 ->
  D ((venc n ++ body) ++ X) =
    let rest := body ++ X in
    if n mod 2 =? 1 then
      match D rest with None => None | Some t =>
        Some (repeat (if (n / 2) mod 2 =? 1 then 255 else 0) (N.to_nat (n / 4)) ++ t) end
    else
      let l := N.to_nat (n / 2) in
      if (length rest <? l)%nat then None else
      match D (skipn l rest) with None => None | Some t => Some (firstn l rest ++ t) end.
Proof.
  intros n body X Hn. unfold D, rle_decode.
  rewrite <- app_assoc.
  set (buf := venc n ++ body ++ X).
  assert (Hne : buf <> []).
  { subst buf. pose proof (venc_nonempty n). destruct (venc n); [congruence|discriminate]. }
  assert (Hlen : length buf = (length (venc n) + length (body ++ X))%nat) by (subst buf; apply app_length).
  assert (Hv1 : (0 < length (venc n))%nat).
  { pose proof (venc_nonempty n). destruct (venc n); [congruence|cbn; lia]. }
  destruct (length buf) as [|m] eqn:Em; [lia|].
  rewrite rdec_S by exact Hne. unfold rbody. subst buf.
  rewrite (vdec_venc n (body ++ X) Hn). rewrite skipn_app_exact.
  cbv zeta. destruct (n mod 2 =? 1).
  - rewrite (rdec_fuel m (length (body ++ X))) by lia. reflexivity.
  - destruct (length (body ++ X) <? N.to_nat (n / 2))%nat eqn:El; [reflexivity|].
    rewrite (rdec_fuel m (length (skipn (N.to_nat (n / 2)) (body ++ X)))); [reflexivity| |lia].
    rewrite skipn_length. lia.
Qed.

Definition sbody (k : nat) (buf : list N) (acc : N) : option N :=
  match vdecB buf with
  | None => None
  | Some (next, c) =>
    let rest := skipn c buf in
    let slice := if next mod 2 =? 1 then next / 4 else next / 2 in
    let acc' := acc + slice in
    if cap <? acc' then None else
    if next mod 2 =? 1 then scan cap k rest acc'
    else if (N.of_nat (length rest) <? slice) then None
    else scan cap k (skipn (N.to_nat slice) rest) acc'
  end.
Lemma scan_S : forall k buf acc, buf <> [] -> scan cap (S k) buf acc = sbody k buf acc.
Proof. intros k [|x b] acc H; [congruence|reflexivity]. Qed.

Lemma S_step : forall n body X acc,
  n < 2^63 ->
  S_ ((venc n ++ body) ++ X) acc =
    let rest := body ++ X in
    let slice := if n mod 2 =? 1 then n / 4 else n / 2 in
    let acc' := acc + slice in
    if cap <? acc' then None else
    if n mod 2 =? 1 then S_ rest acc'
    else if (N.of_nat (length rest) <? slice) then None
    else S_ (skipn (N.to_nat slice) rest) acc'.
Proof.
  intros n body X acc Hn. unfold S_.
  rewrite <- app_assoc.
  set (buf := venc n ++ body ++ X).
  assert (Hne : buf <> []).
  { subst buf. pose proof (venc_nonempty n). destruct (venc n); [congruence|discriminate]. }
  assert (Hlen : length buf = (length (venc n) + length (body ++ X))%nat) by (subst buf; apply app_length).
  assert (Hv1 : (0 < length (venc n))%nat).
  { pose proof (venc_nonempty n). destruct (venc n); [congruence|cbn; lia]. }
  destruct (length buf) as [|m] eqn:Em; [lia|].
  rewrite scan_S by exact Hne. unfold sbody. subst buf.
  rewrite (vdecB_venc n (body ++ X) Hn). rewrite skipn_app_exact.
  cbv zeta. destruct (cap <? _); [reflexivity|].
  destruct (n mod 2 =? 1).
  - apply scan_fuel; lia.
  - destruct (N.of_nat (length (body ++ X)) <? n / 2) eqn:El; [reflexivity|].
    apply scan_fuel; rewrite skipn_length; lia.
Qed.

Hypothesis Hcap : cap < 2^61.

Lemma Tok_contig : forall l p, (p = 0 \/ p = 255) -> l < 2^61 -> Tok (wr_contig l p) (repeat p (N.to_nat l)).
Proof.
  intros l p Hp Hl. unfold wr_contig.
  set (n := l * 4 + 1 + (if p =? 255 then 2 else 0)).
  assert (Hn3 : n < 2^63) by (subst n; destruct (p =? 255); change (2^63) with 9223372036854775808; change (2^61) with 2305843009213693952 in Hl; lia).
  assert (Hn : n < 2^64) by (change (2^63) with 9223372036854775808 in Hn3; change (2^64) with 18446744073709551616; lia).
  assert (Hodd : n mod 2 =? 1 = true) by (subst n; destruct (p =? 255); apply N.eqb_eq; lia).
  assert (Hdiv : n / 4 = l) by (subst n; destruct (p =? 255); lia).
  split.
  - intros X t HX.
    pose proof (D_step n [] X Hn) as St. rewrite app_nil_r in St. cbn [app] in St. rewrite St. clear St.
    rewrite Hodd, HX, Hdiv. f_equal. f_equal. f_equal.
    subst n. destruct Hp as [-> | ->]; cbn [N.eqb Pos.eqb].
    + assert ((l * 4 + 1 + 0) / 2 mod 2 =? 1 = false) as -> by (apply N.eqb_neq; lia). reflexivity.
    + assert ((l * 4 + 1 + 2) / 2 mod 2 =? 1 = true) as -> by (apply N.eqb_eq; lia). reflexivity.
  - intros X acc r Hc HX. rewrite repeat_length in *.
    pose proof (S_step n [] X acc Hn3) as St. rewrite app_nil_r in St. cbn [app] in St. rewrite St. clear St.
    cbv zeta. rewrite Hodd, Hdiv.
    assert ((cap <? acc + l) = false) as -> by (apply N.ltb_ge; lia).
    replace (acc + N.of_nat (N.to_nat l)) with (acc + l) in HX by lia. exact HX.
Qed.

Lemma Tok_nonc : forall nc, N.of_nat (length nc) < 2^62 -> Tok (wr_nonc nc) nc.
Proof.
  intros nc Hl. unfold wr_nonc.
  set (n := 2 * N.of_nat (length nc)).
  assert (Hn3 : n < 2^63) by (subst n; change (2^63) with 9223372036854775808; change (2^62) with 4611686018427387904 in Hl; lia).
  assert (Hn : n < 2^64) by (change (2^63) with 9223372036854775808 in Hn3; change (2^64) with 18446744073709551616; lia).
  assert (Heven : n mod 2 =? 1 = false) by (subst n; apply N.eqb_neq; lia).
  assert (Hdiv : n / 2 = N.of_nat (length nc)) by (subst n; lia).
  split.
  - intros X t HX. rewrite (D_step n nc X Hn). cbv zeta. rewrite Heven, Hdiv.
    rewrite Nat2N.id.
    assert ((length (nc ++ X) <? length nc)%nat = false) as -> by (apply Nat.ltb_ge; rewrite app_length; lia).
    rewrite skipn_app_exact, firstn_app_exact, HX. reflexivity.
  - intros X acc r Hc HX. rewrite (S_step n nc X acc Hn3). cbv zeta. rewrite Heven, Hdiv.
    assert ((cap <? acc + N.of_nat (length nc)) = false) as -> by (apply N.ltb_ge; lia).
    assert ((N.of_nat (length (nc ++ X)) <? N.of_nat (length nc)) = false) as ->
      by (apply N.ltb_ge; rewrite app_length; lia).
    rewrite Nat2N.id, skipn_app_exact. exact HX.
Qed.

Definition pending (s : est) : list N :=
  if contig s then repeat (prev s) (N.to_nat (len s)) else nonc s.

Record Inv (s : est) (i : nat) (done : list N) : Prop := {
  inv_tok : Tok (out s) done;
  inv_c : contig s = true -> (prev s = 0 \/ prev s = 255) /\ nonc s = [] /\ 1 <= len s;
  inv_n : contig s = false -> i = O -> nonc s = [] }.

Lemma estep_inv : forall s i done b,
  Inv s i done ->
  N.of_nat (length (done ++ pending s)) + 1 < 2^61 ->
  exists done', Inv (estep s i b) (S i) done' /\
                done' ++ pending (estep s i b) = (done ++ pending s) ++ [b].
Proof.
  intros s i done b [Htok Hc Hn] Hsz.
  unfold estep.
  destruct (contig s) eqn:Ec.
  - destruct (Hc eq_refl) as (Hp & Hnc & Hl).
    assert (Hlen : len s < 2^61).
    { rewrite app_length in Hsz. unfold pending in Hsz. rewrite Ec, repeat_length in Hsz. lia. }
    destruct (b =? prev s) eqn:Eb; cbn [andb].
    + apply N.eqb_eq in Eb. subst b. exists done. split.
      * constructor; cbn; auto. intros _. repeat split; auto. lia.
      * unfold pending; cbn. rewrite Ec.
        replace (N.to_nat (len s + 1)) with (S (N.to_nat (len s))) by lia.
        rewrite repeat_snoc. rewrite app_assoc. reflexivity.
    + pose proof (Tok_app _ _ _ _ Htok (Tok_contig (len s) (prev s) Hp Hlen)) as Htok1.
      destruct ((b =? 0) || (b =? 255)) eqn:Ez.
      * exists (done ++ repeat (prev s) (N.to_nat (len s))). split.
        -- constructor; cbn; auto; try discriminate. intros _. repeat split; auto; try lia.
           all: try (apply orb_true_iff in Ez; destruct Ez as [E|E]; apply N.eqb_eq in E; auto).
        -- unfold pending; cbn. rewrite Ec. reflexivity.
      * exists (done ++ repeat (prev s) (N.to_nat (len s))). split.
        -- constructor; cbn; auto; discriminate.
        -- unfold pending; cbn. rewrite Ec, Hnc. reflexivity.
  - cbn [andb]. destruct ((b =? 0) || (b =? 255)) eqn:Ez.
    + destruct (Nat.eqb i 0) eqn:Ei; cbn [negb andb].
      * apply Nat.eqb_eq in Ei. rewrite (Hn eq_refl Ei). exists done. split.
        -- constructor; cbn; auto; try discriminate. intros _. repeat split; auto; try lia.
           all: try (apply orb_true_iff in Ez; destruct Ez as [E|E]; apply N.eqb_eq in E; auto).
        -- unfold pending; cbn. rewrite Ec. rewrite (Hn eq_refl Ei). rewrite app_nil_r. reflexivity.
      * assert (Hlen : N.of_nat (length (nonc s)) < 2^62).
        { rewrite app_length in Hsz. unfold pending in Hsz. rewrite Ec in Hsz.
          change (2^61) with 2305843009213693952 in Hsz. change (2^62) with 4611686018427387904. lia. }
        exists (done ++ nonc s). split.
        -- constructor; cbn; auto; try discriminate.
           ++ apply Tok_app; auto. apply Tok_nonc; auto.
           ++ intros _. repeat split; auto; try lia.
              all: try (apply orb_true_iff in Ez; destruct Ez as [E|E]; apply N.eqb_eq in E; auto).
        -- unfold pending; cbn. rewrite Ec. reflexivity.
    + exists done. split.
      * constructor; cbn; auto; try discriminate.
      * unfold pending; cbn. rewrite Ec. rewrite app_assoc. reflexivity.
Qed.

Lemma erun_inv : forall bs s i done,
  Inv s i done ->
  N.of_nat (length (done ++ pending s) + length bs) < 2^61 ->
  exists done', Inv (erun s i bs) (i + length bs) done' /\
                done' ++ pending (erun s i bs) = (done ++ pending s) ++ bs.
Proof.
  induction bs as [|b r IH]; intros s i done HI Hsz.
  - exists done. cbn. rewrite Nat.add_0_r, app_nil_r. auto.
  - cbn [erun length].
    destruct (estep_inv s i done b HI) as (d1 & HI1 & E1).
    { cbn [length] in Hsz. lia. }
    destruct (IH (estep s i b) (S i) d1 HI1) as (d2 & HI2 & E2).
    { rewrite E1, app_length. cbn [length] in *. lia. }
    exists d2. split.
    + replace (i + S (length r))%nat with (S i + length r)%nat by lia. exact HI2.
    + rewrite E2, E1, <- app_assoc. reflexivity.
Qed.

(* the whole encoder output is one token for the whole input *)
Lemma rle_encode_tok : forall bs, N.of_nat (length bs) < 2^61 -> Tok (rle_encode bs) bs.
Proof.
  intros bs Hsz. unfold rle_encode.
  set (s0 := mk 0 false 0 [] []).
  assert (HI0 : Inv s0 O []).
  { constructor; cbn; auto; try discriminate. apply Tok_nil. }
  destruct (erun_inv bs s0 O [] HI0) as (d & [Htok Hc Hn] & E).
  { cbn. exact Hsz. }
  cbn [app] in E. unfold pending at 2 in E. cbn in E.
  set (s := erun s0 0 bs) in *.
  assert (Hlen : N.of_nat (length (d ++ pending s)) < 2^61) by (rewrite E; exact Hsz).
  unfold efinish. unfold pending in E, Hlen.
  destruct (contig s) eqn:Ec.
  - destruct (Hc eq_refl) as (Hp & _ & _).
    assert (Hl : len s < 2^61) by (rewrite app_length, repeat_length in Hlen; lia).
    rewrite <- E. apply Tok_app; [exact Htok|]. apply Tok_contig; assumption.
  - assert (Hl : N.of_nat (length (nonc s)) < 2^62).
    { rewrite app_length in Hlen. change (2^61) with 2305843009213693952 in Hlen. change (2^62) with 4611686018427387904. lia. }
    rewrite <- E. apply Tok_app; [exact Htok|]. apply Tok_nonc; assumption.
Qed.

Theorem rle_roundtrip : forall bs, N.of_nat (length bs) < 2^61 ->
  rle_decode (rle_encode bs) = Some bs.
Proof.
  intros bs Hsz. destruct (rle_encode_tok bs Hsz) as [H _].
  specialize (H [] [] eq_refl). rewrite !app_nil_r in H. exact H.
Qed.

Theorem rle_encode_scans : forall bs, N.of_nat (length bs) <= cap ->
  scan cap (length (rle_encode bs)) (rle_encode bs) 0 = Some (N.of_nat (length bs)).
Proof.
  intros bs Hsz. destruct (rle_encode_tok bs ltac:(lia)) as [_ H].
  specialize (H [] 0 (N.of_nat (length bs)) ltac:(lia) eq_refl). rewrite !app_nil_r in H. exact H.
Qed.

End WithCap.

(* ---------- the validated decoder never panics and agrees with the idealised one ---------- *)
Lemma scan_sound : forall cap dbg fuel buf acc n,
  cap < U64 -> acc <= cap ->
  scan cap fuel buf acc = Some n ->
  lenF dbg fuel buf acc = Ok n /\ n <= cap /\
  exists d, rdec fuel buf = Some d /\ fillF dbg fuel buf = d /\ n = acc + N.of_nat (length d).
Proof.
  intros cap dbg. induction fuel as [|k IH]; intros buf acc n Hcap Hacc H.
  - destruct buf; cbn in H; [|discriminate]. inversion H; subst. cbn. repeat split; auto.
    exists []. cbn. repeat split; auto. lia.
  - destruct buf as [|x b'].
    + cbn in H. inversion H; subst. cbn. repeat split; auto. exists []. cbn. repeat split; auto. lia.
    + set (buf := x :: b') in *.
      rewrite scan_S in H by discriminate. unfold sbody in H.
      destruct (vdecB buf) as [[next c]|] eqn:Hv; [|discriminate].
      destruct (vdecB_sound dbg _ _ _ Hv) as (HF & HI & Hn & Hc).
      cbv zeta in H.
      change (lenF dbg (S k) buf acc) with
        (match vdecF dbg buf with
         | Panic => Panic | Err => Err
         | Ok (next, c) =>
           let rest := skipn c buf in
           let slice := if next mod 2 =? 1 then next / 4 else next / 2 in
           let sum := acc + slice in
           if dbg && (U64 <=? sum) then Panic else
           let acc' := sum mod U64 in
           if next mod 2 =? 1 then lenF dbg k rest acc'
           else if (N.of_nat (length rest) <? slice) then Err
           else lenF dbg k (skipn (N.to_nat slice) rest) acc' end).
      change (rdec (S k) buf) with (rbody k buf). unfold rbody.
      change (fillF dbg (S k) buf) with
        (match vdecF dbg buf with
         | Ok (next, c) =>
           let rest := skipn c buf in
           if next mod 2 =? 1 then
             repeat (if (next / 2) mod 2 =? 1 then 255 else 0) (N.to_nat (next / 4)) ++ fillF dbg k rest
           else let l := N.to_nat (next / 2) in firstn l rest ++ fillF dbg k (skipn l rest)
         | _ => [] end).
      rewrite HF, HI. cbv zeta.
      set (slice := if next mod 2 =? 1 then next / 4 else next / 2) in *.
      destruct (cap <? acc + slice) eqn:Ecap; [discriminate|]. apply N.ltb_ge in Ecap.
      assert ((U64 <=? acc + slice) = false) as -> by (apply N.leb_gt; lia).
      rewrite andb_false_r. rewrite (N.mod_small (acc + slice) U64) by lia.
      destruct (next mod 2 =? 1) eqn:Eodd.
      * destruct (IH _ _ _ Hcap Ecap H) as (A & B & d & C1 & C2 & C3).
        repeat split; auto. rewrite C1, C2.
        eexists; repeat split. rewrite app_length, repeat_length. subst slice. lia.
      * destruct (N.of_nat (length (skipn c buf)) <? slice) eqn:El; [discriminate|].
        apply N.ltb_ge in El.
        destruct (IH _ _ _ Hcap Ecap H) as (A & B & d & C1 & C2 & C3).
        repeat split; auto. subst slice.
        assert ((length (skipn c buf) <? N.to_nat (next / 2))%nat = false) as -> by (apply Nat.ltb_ge; lia).
        rewrite C1, C2. eexists; repeat split.
        rewrite app_length, firstn_length. lia.
Qed.

Theorem validated_rle_total : forall cap dbg buf, cap < U64 ->
  validate cap buf = true ->
  exists d, rleF dbg buf = Ok d /\ rle_decode buf = Some d /\ N.of_nat (length d) <= cap.
Proof.
  intros cap dbg buf Hcap Hv. unfold validate in Hv.
  destruct (scan cap (length buf) buf 0) as [n|] eqn:Hs; [|discriminate].
  destruct (scan_sound cap dbg _ _ 0 _ Hcap (N.le_0_l cap) Hs) as (A & B & d & C1 & C2 & C3).
  exists d. unfold rleF, rle_decode. rewrite A, C1, C2. repeat split; auto. lia.
Qed.
