(* Reference notions for property C12 (endpoint half): traces of endpoint operations, the event
   grammar as an explicit recogniser, the count of matched handshake round trips, the time of the
   latest accepted message, and the hypotheses on operation sequences that some theorems need.
   Nothing here is used by the model (Endpoint.v); the theorems in props/C12.v connect the two. *)
From Coq Require Import ZArith List Bool.
From GGRS Require Import Base Consts TimeSync Endpoint.
Open Scope Z_scope.

(* ---------- traces ---------- *)
(* all operations in order; the result is the endpoint afterwards and the concatenation of every
   event batch that `poll` handed to the caller *)
Fixpoint run_gen (fx : fixes) (dbg : bool) (s : ep) (ops : list op) : res (ep * list event) :=
  match ops with
  | [] => Ok (s, [])
  | o :: r =>
    match step_gen fx dbg o s with
    | Ok (s1, e1) =>
      match run_gen fx dbg s1 r with
      | Ok (s2, e2) => Ok (s2, e1 ++ e2)
      | Err => Err
      | Panic => Panic
      end
    | Err => Err
    | Panic => Panic
    end
  end.
(* the current code *)
Definition run := run_gen current_code.

(* ---------- the event grammar ----------
   Synchronizing(total=NUM_SYNC_PACKETS, count=1) .. Synchronizing(.., NUM_SYNC_PACKETS-1) . Synchronized .
   (NetworkInterrupted . NetworkResumed)* . NetworkInterrupted? . Disconnected?      -- Input events anywhere *)
Inductive rstate : Set :=
| RSync (k : Z)        (* k Synchronizing events seen, Synchronized not yet *)
| RRun                 (* synchronized, not interrupted *)
| RInterrupted         (* NetworkInterrupted seen, NetworkResumed not yet *)
| RDead.               (* Disconnected seen: nothing may follow *)

Definition rstep (r : rstate) (e : event) : option rstate :=
  match e with
  | EvInput _ _ _ => Some r
  | EvSynchronizing total count =>
    match r with
    | RSync k => if (total =? NUM_SYNC_PACKETS) && (count =? k + 1) && (count <? NUM_SYNC_PACKETS)
                 then Some (RSync count) else None
    | _ => None
    end
  | EvSynchronized =>
    match r with
    | RSync k => if k =? NUM_SYNC_PACKETS - 1 then Some RRun else None
    | _ => None
    end
  | EvNetworkInterrupted _ => match r with RRun => Some RInterrupted | _ => None end
  | EvNetworkResumed => match r with RInterrupted => Some RRun | _ => None end
  | EvDisconnected => match r with RRun | RInterrupted => Some RDead | _ => None end
  end.

Fixpoint recog (r : rstate) (evs : list event) : option rstate :=
  match evs with
  | [] => Some r
  | e :: t => match rstep r e with Some r' => recog r' t | None => None end
  end.

(* the event word is a prefix of a word of the grammar *)
Definition event_grammar (evs : list event) : Prop := recog (RSync 0) evs <> None.

Definition is_disconnected (e : event) : bool := match e with EvDisconnected => true | _ => false end.
Definition without_disconnected (evs : list event) : list event := filter (fun e => negb (is_disconnected e)) evs.
Definition count_disconnected (evs : list event) : nat := length (filter is_disconnected evs).

(* ---------- the handshake count ---------- *)
(* a SyncReply handled while its nonce is outstanding: (nonce, magic of the packet) *)
Definition match_of (s : ep) (o : op) : list (Z * Z) :=
  match o with
  | OMessage _ _ m =>
    match m_body m with
    | SyncReply n =>
      if passes_filters s m && pstate_eqb (u_state s) PSynchronizing && zmem n (u_sync_requests s)
      then [(n, m_magic m)] else []
    | _ => []
    end
  | _ => []
  end.

Fixpoint matches (dbg : bool) (s : ep) (ops : list op) : list (Z * Z) :=
  match ops with
  | [] => []
  | o :: r => match_of s o ++ match step dbg o s with Ok (s1, _) => matches dbg s1 r | _ => [] end
  end.
Definition matched (dbg : bool) (s : ep) (ops : list op) : Z := Z.of_nat (length (matches dbg s ops)).

(* the nonce an operation hands to send_sync_request, if it calls it *)
Definition draws (s : ep) (o : op) : list Z :=
  match o with
  | OSynchronize _ nonce => if pstate_eqb (u_state s) PInitializing then [nonce] else []
  | OPoll now nonce _ =>
    if pstate_eqb (u_state s) PSynchronizing && (u_last_sync_request_time s + SYNC_RETRY_INTERVAL <? now)
    then [nonce] else []
  | OMessage _ nonce m =>
    match match_of s o with
    | [] => []
    | _ => if 1 <? u_sync_remaining s then [nonce] else []
    end
  | _ => []
  end.

(* every nonce drawn is different from all nonces drawn before ([used]) *)
Fixpoint fresh_nonces (dbg : bool) (s : ep) (used : list Z) (ops : list op) : Prop :=
  match ops with
  | [] => True
  | o :: r =>
    (forall n, In n (draws s o) -> ~ In n used) /\
    match step dbg o s with
    | Ok (s1, _) => fresh_nonces dbg s1 (draws s o ++ used) r
    | _ => True
    end
  end.

(* ---------- the time of the latest accepted message ---------- *)
Definition accept_time (s : ep) (o : op) (la : Z) : Z :=
  match o with
  | OMessage now _ m => if passes_filters s m then now else la
  | _ => la
  end.

(* [la]: the value before the first operation (the creation time of the endpoint) *)
Fixpoint last_accept (dbg : bool) (s : ep) (ops : list op) (la : Z) : Z :=
  match ops with
  | [] => la
  | o :: r =>
    match step dbg o s with
    | Ok (s1, _) => last_accept dbg s1 r (accept_time s o la)
    | _ => la
    end
  end.

(* at every poll of a Running endpoint the latest accepted message is at most D ms old *)
Fixpoint fed (D : Z) (dbg : bool) (s : ep) (ops : list op) (la : Z) : Prop :=
  match ops with
  | [] => True
  | o :: r =>
    match o with
    | OPoll now _ _ => u_state s = PRunning -> now - la <= D
    | _ => True
    end /\
    match step dbg o s with
    | Ok (s1, _) => fed D dbg s1 r (accept_time s o la)
    | _ => True
    end
  end.

Definition is_disconnect_op (o : op) : bool := match o with ODisconnect _ => true | _ => false end.
