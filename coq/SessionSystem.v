(* Two sessions and the link between them.  A session's run theorem (SessionTimeline.sends_and_receipts_g) says
   what leaves it and what it does with what arrives; composing two of them needs only the link's integrity
   contract - every input of player h that arrives at the receiver was handed to the network by h's owner, with
   that frame number and that value (no forgery, no alteration; loss, duplication, delay and reordering are the
   endpoint's business: EndpointLink.v delivers each frame once, in order) - to conclude that the two games used
   the same input for h at every frame both have confirmed and simulated. *)
From GGRS Require Import Base Consts Queue QueueProofs Sync P2P Session SessionProofs SessionSparse SessionProgress SessionSparse2 SessionTimeline SessionTimelineSparse SessionLockstep.
From GGRS Require Spectator SpectatorProofs.
From Coq Require Import ZifyBool ZifyNat ZifyN.
Open Scope Z_scope.

Section System.
Variable predict : Z -> Z.
Hypothesis predict_idem : forall x, predict (predict x) = predict x.
Hypothesis predict_zero : predict 0 = 0.

(* one session, either saving mode *)
(* a session's mode: rollback (window >= 1, either saving mode) or lockstep (window 0; the builder's sparse flag is
   irrelevant there - nothing is ever saved - and the model's lockstep sessions are started with it off) *)
Definition mode_ok (sparse : bool) (w d : Z) : Prop :=
  (1 <= w /\ w + d + 3 <= QLEN) \/ (w = 0 /\ sparse = false /\ d + 4 <= QLEN).

Theorem sends_and_receipts_any : forall (sparse : bool) ops n w d kinds eps nspec p outs,
  mode_ok sparse w d -> 0 <= d -> 0 < n -> Z.of_nat (length kinds) = n -> players_only kinds ->
  srun_in predict (session_start n w sparse d kinds eps nspec) ops = Ok (p, outs) ->
  exists g gs, exec_outs w (game0 w) outs = Some g /\ QSg sparse w d p gs /\ gframe g = s_current (ps_sync p) /\
    (forall h hist low f, nth_error gs h = Some (hist, low) ->
       0 <= f <= s_last_confirmed (ps_sync p) -> f < s_current (ps_sync p) ->
       f < hlen hist /\ gvalL (g_hist g) f h = hval hist f) /\
    rounds_ok (local_handles p) gs (all_sends outs) /\
    (forall pl f v, In (SRemote pl f v) ops ->
      exists gh, nth_error gs (Z.to_nat pl) = Some gh /\ 0 <= f < hlen (fst gh) /\ hval (fst gh) f = v) /\
    (forall pl e gh f, 0 <= pl -> nth_error kinds (Z.to_nat pl) = Some (KRemote e) ->
      nth_error gs (Z.to_nat pl) = Some gh -> 0 <= f < hlen (fst gh) -> In (SRemote pl f (hval (fst gh) f)) ops) /\
    ps_kinds p = kinds /\ OB p gs /\ Forall (confirmed_ok gs) (all_adv_frames [] outs).
Proof.
  intros sparse ops n w d kinds eps nspec p outs [(Hw & Hc)|(-> & -> & Hc)] Hd Hn Hl Hp H.
  - destruct sparse.
    + exact (sparse_sends_and_receipts predict predict_idem predict_zero ops n w d kinds eps nspec p outs Hw Hd Hc Hn Hl Hp H).
    + exact (sends_and_receipts predict predict_idem predict_zero ops n w d kinds eps nspec p outs Hw Hd Hc Hn Hl Hp H).
  - destruct (lockstep_sends_and_receipts predict predict_idem predict_zero ops n d kinds eps nspec p outs Hd Hc Hn Hl Hp H)
      as (g & gs & Ex & HQS & Hfr & Hheld & Hrest).
    exists g, gs. split; [exact Ex|]. split; [exact HQS|]. split; [exact Hfr|]. split; [|exact Hrest].
    intros h hist low f Eg Hf Hfc. apply (Hheld h hist low f Eg). lia.
Qed.

(* the session's own buffers after any run inside the space: every input queue holds between 0 and
   INPUT_QUEUE_LENGTH inputs, nothing is left in outgoing_local_inputs between calls, and every frame a local
   player's queue holds has been handed to the remote endpoints *)
Theorem session_buffers_bounded : forall (sparse : bool) ops n w d kinds eps nspec p outs,
  mode_ok sparse w d -> 0 <= d -> 0 < n -> Z.of_nat (length kinds) = n -> players_only kinds ->
  srun_in predict (session_start n w sparse d kinds eps nspec) ops = Ok (p, outs) ->
  Forall (fun q => 0 <= q_length q <= QLEN) (s_queues (ps_sync p)) /\
  (ps_remotes p <> [] -> local_handles p <> [] -> ps_outgoing p = []) /\
  exists gs, QSg sparse w d p gs /\ OB p gs.
Proof.
  intros sparse ops n w d kinds eps nspec p outs Hm Hd Hn Hl Hp H.
  destruct (sends_and_receipts_any sparse ops n w d kinds eps nspec p outs Hm Hd Hn Hl Hp H)
    as (g & gs & _ & HQS & _ & _ & _ & _ & _ & _ & HB & _).
  split; [|split; [intros Hr Hlo; exact (proj1 (HB Hr Hlo))|exists gs; split; assumption]].
  pose proof (qs_qs _ _ _ _ HQS) as HQ. unfold QsI in HQ.
  clear HB HQS. induction HQ as [|q gh qs gs' Hqi _ IH]; [constructor|]. constructor; [|exact IH].
  pose proof (qi_ring _ _ _ _ _ Hqi) as R. pose proof (ri_length _ _ _ R). pose proof (ri_cap _ _ _ R).
  destruct (ri_low _ _ _ R) as (L0 & L1 & L2).
  destruct (fst gh) as [|x xs] eqn:E; [rewrite (L2 eq_refl) in *; unfold hlen in *; cbn [length] in *; lia|].
  assert (X : x :: xs <> []) by discriminate. specialize (L1 X). lia.
Qed.

(* the link contract for player h from its owner (outputs outsA) to a receiver (operations opsB) *)
Definition delivered_was_sent (h : Z) (outsA : list (pout * apires)) (opsB : list sop) : Prop :=
  forall f v, In (SRemote h f v) opsB -> exists m, In m (all_sends outsA) /\ assoc_get m h = Some (mkpi f v).

Theorem two_sessions_agree :
  forall (sparseA sparseB : bool) (opsA opsB : list sop) (n wA wB dA dB : Z) (kindsA kindsB : list pkind)
         (epsA epsB : list (list Z)) (nspecA nspecB : nat) (pA pB : p2p) (outsA outsB : list (pout * apires)),
  mode_ok sparseA wA dA -> 0 <= dA -> mode_ok sparseB wB dB -> 0 <= dB ->
  0 < n -> Z.of_nat (length kindsA) = n -> Z.of_nat (length kindsB) = n -> players_only kindsA -> players_only kindsB ->
  srun_in predict (session_start n wA sparseA dA kindsA epsA nspecA) opsA = Ok (pA, outsA) ->
  srun_in predict (session_start n wB sparseB dB kindsB epsB nspecB) opsB = Ok (pB, outsB) ->
  exists gA gB, exec_outs wA (game0 wA) outsA = Some gA /\ exec_outs wB (game0 wB) outsB = Some gB /\
    forall h e, 0 <= h -> nth_error kindsA (Z.to_nat h) = Some KLocal -> nth_error kindsB (Z.to_nat h) = Some (KRemote e) ->
      delivered_was_sent h outsA opsB ->
      forall f, 0 <= f <= s_last_confirmed (ps_sync pA) -> f < s_current (ps_sync pA) ->
                0 <= f <= s_last_confirmed (ps_sync pB) -> f < s_current (ps_sync pB) ->
        gvalL (g_hist gA) f (Z.to_nat h) = gvalL (g_hist gB) f (Z.to_nat h).
Proof.
  intros sparseA sparseB opsA opsB n wA wB dA dB kindsA kindsB epsA epsB nspecA nspecB pA pB outsA outsB
         HmA HdA HmB HdB Hn HlA HlB HpA HpB HA HB.
  destruct (sends_and_receipts_any sparseA opsA n wA dA kindsA epsA nspecA pA outsA HmA HdA Hn HlA HpA HA)
    as (gA & gsA & ExA & HQA & _ & HheldA & HroundsA & _ & _ & HkA & _ & _).
  destruct (sends_and_receipts_any sparseB opsB n wB dB kindsB epsB nspecB pB outsB HmB HdB Hn HlB HpB HB)
    as (gB & gsB & ExB & HQB & _ & HheldB & _ & _ & HcvB & HkB & _ & _).
  exists gA, gB. split; [exact ExA|]. split; [exact ExB|].
  intros h e Hh HlocA HremB Hlink f HfA HcfA HfB HcfB.
  (* B: frame f of player h was simulated with the input held, which arrived with an operation *)
  assert (HlenB : (Z.to_nat h < length gsB)%nat).
  { destruct (qs_n _ _ _ _ HQB) as (_ & _ & X & _). rewrite HkB in X. rewrite <- X.
    apply nth_error_Some. congruence. }
  destruct (nth_error gsB (Z.to_nat h)) as [[histB lowB]|] eqn:EgB; [|apply nth_error_None in EgB; lia].
  destruct (HheldB _ _ _ f EgB HfB HcfB) as (HltB & HvB).
  pose proof (HcvB h e (histB, lowB) f Hh HremB EgB ltac:(cbn [fst]; lia)) as HinB. cbn [fst] in HinB.
  destruct (Hlink _ _ HinB) as (m & Hm & Hmh).
  (* A: that round carries what A holds - and simulates - for (f, h) *)
  assert (HinA : In h (local_handles pA)).
  { apply (local_handles_spec pA h (QS_nplayers _ _ _ _ _ HQA)). rewrite HkA. split; [|exact HlocA].
    rewrite (QS_nplayers _ _ _ _ _ HQA), HkA. assert (nth_error kindsA (Z.to_nat h) <> None) as X by congruence.
    apply nth_error_Some in X. lia. }
  assert (HlenA : (Z.to_nat h < length gsA)%nat).
  { destruct (qs_n _ _ _ _ HQA) as (_ & _ & X & _). rewrite HkA in X. rewrite <- X.
    apply nth_error_Some. congruence. }
  destruct (nth_error gsA (Z.to_nat h)) as [[histA lowA]|] eqn:EgA; [|apply nth_error_None in EgA; lia].
  unfold rounds_ok in HroundsA. rewrite Forall_forall in HroundsA.
  destruct (HroundsA m Hm) as (f' & Hf' & Hr). destruct (Hr h (histA, lowA) HinA EgA) as (HltA & HmA0). cbn [fst] in HltA, HmA0.
  rewrite Hmh in HmA0. injection HmA0 as -> Hv.
  destruct (HheldA _ _ _ f' EgA HfA HcfA) as (_ & HvA).
  rewrite HvA, HvB. symmetry. exact Hv.
Qed.

(* C03 across the link: every input the receiver EVER hands out as Confirmed for the owner's player - in first
   simulations and re-simulations alike - is the input the owner holds (has registered: the input submitted, shifted
   by the input delay) for that frame *)
Theorem two_sessions_confirmed_inputs :
  forall (sparseA sparseB : bool) (opsA opsB : list sop) (n wA wB dA dB : Z) (kindsA kindsB : list pkind)
         (epsA epsB : list (list Z)) (nspecA nspecB : nat) (pA pB : p2p) (outsA outsB : list (pout * apires)),
  mode_ok sparseA wA dA -> 0 <= dA -> mode_ok sparseB wB dB -> 0 <= dB ->
  0 < n -> Z.of_nat (length kindsA) = n -> Z.of_nat (length kindsB) = n -> players_only kindsA -> players_only kindsB ->
  srun_in predict (session_start n wA sparseA dA kindsA epsA nspecA) opsA = Ok (pA, outsA) ->
  srun_in predict (session_start n wB sparseB dB kindsB epsB nspecB) opsB = Ok (pB, outsB) ->
  exists gsA, QSg sparseA wA dA pA gsA /\
    forall h e, 0 <= h -> nth_error kindsA (Z.to_nat h) = Some KLocal -> nth_error kindsB (Z.to_nat h) = Some (KRemote e) ->
      delivered_was_sent h outsA opsB ->
      forall f ins v, In (f, ins) (all_adv_frames [] outsB) -> nth_error ins (Z.to_nat h) = Some (v, Confirmed) ->
        exists histA lowA, nth_error gsA (Z.to_nat h) = Some (histA, lowA) /\ 0 <= f < hlen histA /\ v = hval histA f.
Proof.
  intros sparseA sparseB opsA opsB n wA wB dA dB kindsA kindsB epsA epsB nspecA nspecB pA pB outsA outsB
         HmA HdA HmB HdB Hn HlA HlB HpA HpB HA HB.
  destruct (sends_and_receipts_any sparseA opsA n wA dA kindsA epsA nspecA pA outsA HmA HdA Hn HlA HpA HA)
    as (gA & gsA & ExA & HQA & _ & _ & HroundsA & _ & _ & HkA & _ & _).
  destruct (sends_and_receipts_any sparseB opsB n wB dB kindsB epsB nspecB pB outsB HmB HdB Hn HlB HpB HB)
    as (gB & gsB & ExB & HQB & _ & _ & _ & _ & HcvB & HkB & _ & HcokB).
  exists gsA. split; [exact HQA|].
  intros h e Hh HlocA HremB Hlink f ins v Hin Hc.
  rewrite Forall_forall in HcokB. destruct (HcokB _ Hin (Z.to_nat h) v Hc) as ([histB lowB] & EgB & HfB & HvB).
  cbn [fst snd] in HfB, HvB.
  pose proof (HcvB h e (histB, lowB) f Hh HremB EgB HfB) as HinB. cbn [fst] in HinB. rewrite HvB in HinB.
  destruct (Hlink _ _ HinB) as (m & Hm & Hmh).
  assert (HinA : In h (local_handles pA)).
  { apply (local_handles_spec pA h (QS_nplayers _ _ _ _ _ HQA)). rewrite HkA. split; [|exact HlocA].
    rewrite (QS_nplayers _ _ _ _ _ HQA), HkA. assert (nth_error kindsA (Z.to_nat h) <> None) as X by congruence.
    apply nth_error_Some in X. lia. }
  assert (HlenA : (Z.to_nat h < length gsA)%nat).
  { destruct (qs_n _ _ _ _ HQA) as (_ & _ & X & _). rewrite HkA in X. rewrite <- X. apply nth_error_Some. congruence. }
  destruct (nth_error gsA (Z.to_nat h)) as [[histA lowA]|] eqn:EgA; [|apply nth_error_None in EgA; lia].
  unfold rounds_ok in HroundsA. rewrite Forall_forall in HroundsA.
  destruct (HroundsA m Hm) as (f' & Hf' & Hr). destruct (Hr h (histA, lowA) HinA EgA) as (HltA & HmA0). cbn [fst] in HltA, HmA0.
  rewrite Hmh in HmA0. injection HmA0 as -> Hv.
  exists histA, lowA. split; [reflexivity|]. split; [lia|exact Hv].
Qed.

(* ---------- a host and a spectator ---------- *)
(* what the host hands to its spectators, frame by frame: the values only *)
Definition broadcast_values (outs : list (pout * apires)) : list (list Z) :=
  map (fun fm => map pi_val (snd fm)) (all_spec_sends outs).

(* the link contract host -> spectator: the frames that reached the spectator are, in order, the first so-many
   frames the host handed out (the endpoint delivers each frame once, in order, unaltered) *)
Definition spectator_got_prefix (outsH : list (pout * apires)) (opsS : list Spectator.sp_hop) : Prop :=
  Spectator.sp_hist opsS = firstn (length (Spectator.sp_hist opsS)) (broadcast_values outsH).

Lemma nth_map_zrange : forall {A} (F : Z -> A) (N : nat) (a : Z) (k : nat) (dflt : A), (k < N)%nat ->
  nth k (map F (zrange_from a N)) dflt = F (a + Z.of_nat k).
Proof.
  intros A F. induction N as [|N IH]; intros a k dflt Hk; [lia|]. cbn [zrange_from map].
  destruct k as [|k]; cbn [nth]; [f_equal; lia|]. rewrite IH by lia. f_equal. lia.
Qed.

Lemma zrange_length : forall N a, length (zrange_from a N) = N.
Proof. induction N as [|N IH]; intros a; cbn [zrange_from length]; [reflexivity|]. rewrite IH. reflexivity. Qed.

Lemma nth_firstn {A} : forall (l : list A) m k dflt, (k < m)%nat -> nth k (firstn m l) dflt = nth k l dflt.
Proof.
  induction l as [|x l IH]; intros m k dflt Hk; [rewrite firstn_nil; reflexivity|].
  destruct m as [|m]; [lia|]. cbn [firstn]. destruct k as [|k]; cbn [nth]; [reflexivity|]. apply IH. lia.
Qed.

(* the n-th frame the spectator is asked to advance carries, for every player, the input the host holds for frame n
   - which is what the host's own game simulated frame n with, once the host has confirmed it *)
Theorem spectator_replays_host :
  forall (sparse : bool) (ops : list sop) (n w d : Z) (kinds : list pkind) (eps : list (list Z)) (nspec : nat)
         (p : p2p) (outs : list (pout * apires)) (mfb cs : Z) (opsS : list Spectator.sp_hop),
  mode_ok sparse w d -> 0 <= d -> 0 < n -> Z.of_nat (length kinds) = n -> players_only kinds -> (0 < nspec)%nat ->
  srun_in predict (session_start n w sparse d kinds eps nspec) ops = Ok (p, outs) ->
  Spectator.sp_wf n opsS -> SpectatorProofs.sp_hlen (Spectator.sp_hist opsS) < 2 ^ 31 ->
  spectator_got_prefix outs opsS ->
  exists t g gs, Spectator.sp_hrun (Spectator.sp_start n mfb cs) opsS = Ok t /\
    exec_outs w (game0 w) outs = Some g /\ QSg sparse w d p gs /\
    let del := Spectator.sp_delivered (Spectator.sp_t_calls t) in
    (Z.of_nat (length del) <= ps_next_spec p) /\
    forall k, (k < length del)%nat ->
      map fst (nth k del []) = map (fun gh : ghost => hval (fst gh) (Z.of_nat k)) gs /\
      (Z.of_nat k <= s_last_confirmed (ps_sync p) -> Z.of_nat k < s_current (ps_sync p) ->
       forall h hist low, nth_error gs h = Some (hist, low) ->
         nth h (map fst (nth k del [])) 0 = gvalL (g_hist g) (Z.of_nat k) h).
Proof.
  intros sparse ops n w d kinds eps nspec p outs mfb cs opsS Hm Hd Hn Hl Hp Hns H Hwf Hlen Hlink.
  assert (HH : exists g gs, exec_outs w (game0 w) outs = Some g /\ QSg sparse w d p gs /\
    all_spec_sends outs = map (fun f => (f, held_at gs f)) (zrange_from 0 (Z.to_nat (ps_next_spec p))) /\
    0 <= ps_next_spec p /\ s_last_confirmed (ps_sync p) + 1 <= ps_next_spec p /\
    (forall h hist low f, nth_error gs h = Some (hist, low) ->
       0 <= f <= s_last_confirmed (ps_sync p) -> f < s_current (ps_sync p) ->
       f < hlen hist /\ gvalL (g_hist g) f h = hval hist f)).
  { destruct Hm as [(Hw & Hc)|(-> & -> & Hc)].
    - destruct sparse.
      + exact (sparse_host_broadcast_and_game predict predict_idem predict_zero ops n w d kinds eps nspec p outs Hw Hd Hc Hn Hl Hp Hns H).
      + exact (host_broadcast_and_game predict predict_idem predict_zero ops n w d kinds eps nspec p outs Hw Hd Hc Hn Hl Hp Hns H).
    - exact (lockstep_host_broadcast_and_game predict predict_idem predict_zero ops n d kinds eps nspec p outs Hd Hc Hn Hl Hp Hns H). }
  destruct HH as (g & gs & Ex & HQS & Hall & Hns0 & _ & Hheld).
  destruct (SpectatorProofs.sp_c06_order n mfb cs opsS ltac:(lia) Hwf Hlen) as (t & Et & Hdel & Hcur & Hle & Hlast).
  exists t, g, gs. split; [exact Et|]. split; [exact Ex|]. split; [exact HQS|]. cbv zeta.
  set (del := Spectator.sp_delivered (Spectator.sp_t_calls t)) in *.
  set (hist := Spectator.sp_hist opsS) in *.
  assert (Hbv : broadcast_values outs = map (fun f => map (fun gh : ghost => hval (fst gh) f) gs) (zrange_from 0 (Z.to_nat (ps_next_spec p)))).
  { unfold broadcast_values. rewrite Hall, map_map. apply map_ext. intros f. cbn [snd]. unfold held_at. rewrite map_map. reflexivity. }
  assert (Hdl : (length del <= length hist)%nat) by (unfold SpectatorProofs.sp_hlen in *; lia).
  assert (Hhl : (length hist <= Z.to_nat (ps_next_spec p))%nat).
  { unfold spectator_got_prefix in Hlink. fold hist in Hlink. pose proof (f_equal (@length _) Hlink) as X.
    rewrite firstn_length, Hbv, map_length in X.
    rewrite zrange_length in X. lia. }
  split; [lia|].
  intros k Hk.
  assert (Hv : map fst (nth k del []) = map (fun gh : ghost => hval (fst gh) (Z.of_nat k)) gs).
  { rewrite (Hdel k Hk). fold hist. unfold spectator_got_prefix in Hlink. fold hist in Hlink. rewrite Hlink.
    rewrite nth_firstn by lia. rewrite Hbv. rewrite nth_map_zrange by lia. reflexivity. }
  split; [exact Hv|].
  intros Hkc Hkcur h hh low Eg. rewrite Hv.
  destruct (Hheld h hh low (Z.of_nat k) Eg ltac:(lia) Hkcur) as (_ & Hg). rewrite Hg.
  assert (Hmm : nth_error (map (fun gh : ghost => hval (fst gh) (Z.of_nat k)) gs) h = Some (hval hh (Z.of_nat k))).
  { rewrite nth_error_map. unfold ghost in *. rewrite Eg. reflexivity. }
  exact (nth_error_nth _ _ _ Hmm).
Qed.

End System.
