(* Lockstep mode (max_prediction = 0), unconditionally: inside the space (nobody disconnects, honest in-order
   remote inputs while the ring has room, local players with a common input delay) no assert of the session
   core fires for any operation sequence, the session never predicts - every AdvanceFrame request carries, for
   every player, exactly the input held for that frame, marked Confirmed - and never saves or loads.
   The run theorems of SessionTimeline.v (section Generic) are instantiated for this mode: the cells invariant
   is JI at window 0 together with LKx (no queue was ever read through `input`, so nothing was ever predicted). *)
From GGRS Require Import Base Consts Queue QueueProofs QueueTheorems Sync P2P Session SessionProofs SessionProgress SessionTimeline.
From Coq Require Import ZifyBool ZifyNat ZifyN.
Ltac Zify.zify_post_hook ::= Z.div_mod_to_equations.
Open Scope Z_scope.

Definition never_read (q : queue) : Prop :=
  q_first_incorrect q = NULL /\ pi_frame (q_pred q) = NULL /\ q_last_requested q = NULL.
Definition LKx (p : p2p) : Prop :=
  Forall never_read (s_queues (ps_sync p)) /\ s_last_confirmed (ps_sync p) <= s_current (ps_sync p) - 1.


Lemma qi_shift : forall c c' L q hist low,
  QI c L q hist low -> q_first_incorrect q = NULL -> pi_frame (q_pred q) = NULL -> q_last_requested q = NULL ->
  QI c' L q hist low.
Proof.
  intros c c' L q hist low [I P1 P2 P4 Rq Lw Cf] Hf Hp Hr.
  constructor; try assumption; try (intros; congruence); try (left; exact Hr).
Qed.

Lemma QsI_shift : forall c c' L qs gs,
  QsI c L qs gs -> Forall never_read qs ->
  QsI c' L qs gs.
Proof.
  intros c c' L qs gs H. induction H as [|q g qs gs Hq HQ IH]; intros HF; [constructor|].
  inversion HF as [|? ? (A & B & C) HF']; subst. constructor; [eapply qi_shift; eassumption|apply IH; exact HF'].
Qed.

Lemma LKx_clean : forall p, LKx p -> all_clean (s_queues (ps_sync p)).
Proof. intros p (H & _). eapply Forall_impl; [|exact H]. intros q (A & _). exact A. Qed.

Lemma discard_last_requested : forall q f, q_last_requested (discard_confirmed_frames q f) = q_last_requested q.
Proof. intros q f. unfold discard_confirmed_frames. destruct (_ <=? _); [reflexivity|]. destruct (_ <=? _); reflexivity. Qed.
Lemma discard_fi : forall q f, q_first_incorrect (discard_confirmed_frames q f) = q_first_incorrect q.
Proof. intros q f. unfold discard_confirmed_frames. destruct (_ <=? _); [reflexivity|]. destruct (_ <=? _); reflexivity. Qed.
Lemma discard_pred : forall q f, q_pred (discard_confirmed_frames q f) = q_pred q.
Proof. intros q f. unfold discard_confirmed_frames. destruct (_ <=? _); [reflexivity|]. destruct (_ <=? _); reflexivity. Qed.

Section Lockstep.
Variable predict : Z -> Z.
Hypothesis predict_idem : forall x, predict (predict x) = predict x.
Hypothesis predict_zero : predict 0 = 0.

Notation GIl := (GIl predict).
Notation TI := (TI predict).
Notation truthful := (truthful predict).
Notation truthful_lt := (truthful_lt predict).

(* every request of a lockstep call is an AdvanceFrame whose inputs are all Confirmed *)
Definition all_confirmed (R : list request) : Prop :=
  forall r, In r R -> exists ins, r = RAdvance ins /\ Forall (fun i : Z * istatus => snd i = Confirmed) ins.

Lemma QLEN_small : QLEN < I32MAX.
Proof. apply Z.ltb_lt. vm_compute. reflexivity. Qed.

Lemma status_bound_after_register : forall d (st st4 : list cstat) (gs gs4 : list ghost) pend touched,
  0 <= d -> d + 4 <= QLEN ->
  Forall2 (fun s g => cs_last s = hlen (fst g) - 1) st gs ->
  Forall2 (fun s g => cs_last s = hlen (fst g) - 1) st4 gs4 ->
  hist_step d pend touched gs gs4 ->
  Forall (fun c => cs_last c + 1 < I32MAX) st -> Forall (fun c => cs_last c < I32MAX) st4.
Proof.
  intros d st st4 gs gs4 pend touched Hd Hcap HL HL4 Hh Hb.
  apply Forall_forall. intros s4 Hin. apply In_nth_error in Hin. destruct Hin as (h & Hs4).
  destruct (nth_error_some_len gs4 st4 h s4 (eq_sym (Forall2_len _ _ _ HL4)) Hs4) as (g4 & Hg4).
  pose proof (Forall2_nth _ _ _ _ _ _ HL4 Hs4 Hg4) as R4. cbv beta in R4.
  destruct (Hh h g4 Hg4) as (g0 & Hg0 & Hcase).
  destruct (nth_error_some_len st gs h g0 (Forall2_len _ _ _ HL) Hg0) as (s0 & Hs0).
  pose proof (Forall2_nth _ _ _ _ _ _ HL Hs0 Hg0) as R0. cbv beta in R0.
  rewrite Forall_forall in Hb. pose proof (Hb s0 (nth_error_In _ _ Hs0)) as B0.
  pose proof QLEN_small as HQs.
  destruct Hcase as [Hsame|(_ & pi & k & _ & Hext & Hk)].
  - rewrite R4, Hsame. lia.
  - rewrite R4, Hext, hlen_fill. destruct Hk as [(Hnil & Hkd)|Hk0]; subst k.
    + rewrite Hnil. unfold hlen, I32MAX in *. cbn [length]. lia.
    + lia.
Qed.

Lemma lockstep_advance : forall p gs d G,
  QSg false 0 d p gs -> LKx p -> Forall (fun c => cs_last c + 1 < I32MAX) (ps_status p) -> TI p gs G ->
  exists p' o r gs', advance predict p = Ok (p', o, r) /\ QSg false 0 d p' gs' /\ LKx p' /\
    TI p' gs' (replay_hist G (o_requests o)) /\
    hist_step d (ps_pending p) (local_handles p) gs gs' /\ ps_kinds p' = ps_kinds p /\ spec_step p gs' o p' /\
    Forall (truthful_lt (s_current (ps_sync p')) gs') (adv_frames G (o_requests o)) /\
    all_confirmed (o_requests o) /\ sends_adv p gs gs' p' o.
Proof.
  intros p gs d G HQS HLK Hbnd (HG & HGI & HPN).
  pose proof HLK as (HLKq & HLKl).
  pose proof HQS as [Hw Hd Hmode Hn Hconn Hgos HQ Hlast Hfr Hkinds Hpe Hsok].
  destruct Hw as (Hw1 & Hw2 & Hw3). destruct Hmode as (Hrun & Hsp & Hdf). destruct Hd as (Hd0 & Hcap).
  unfold advance. rewrite Hrun. cbn [negb].
  destruct (forallb _ (local_handles p)) eqn:Efa; cbn [negb].
  2:{ exists p, out0, AInvalidRequest, gs. split; [reflexivity|]. split; [exact HQS|]. split; [exact HLK|]. split; [split; [exact HG|split; [exact HGI|exact HPN]]|].
      split; [apply hist_step_refl|]. split; [reflexivity|]. split; [apply spec_step_none; [exact Hsok|reflexivity..]|].
      split; [constructor|split; [intros r0 []|intros HO; split; [exact HO|constructor]]]. }
  assert (Hpend : forall h, In h (local_handles p) -> exists pi, assoc_get (ps_pending p) h = Some pi).
  { intros h Hin. rewrite forallb_forall in Efa. specialize (Efa h Hin).
    destruct (assoc_get (ps_pending p) h); [eauto|discriminate]. }
  rewrite Hw2. cbn [Z.eqb negb andb]. rewrite andb_false_r. cbn [res_bind].
  rewrite (update_disconnects_noop p Hconn Hgos). cbn [res_bind].
  unfold advance_lockstep_frame.
  (* register the local inputs *)
  pose proof (QS_nplayers _ _ _ _ _ HQS) as Hnp.
  assert (Hall : Forall (fun h => 0 <= h /\ nth_error (ps_kinds p) (Z.to_nat h) = Some KLocal /\
                                   exists pi, assoc_get (ps_pending p) h = Some pi) (local_handles p)).
  { apply Forall_forall. intros h Hin. pose proof Hin as Hin2. apply (local_handles_spec p h Hnp) in Hin2.
    destruct Hin2 as (Hr & Hk). split; [lia|]. split; [exact Hk|]. apply Hpend. exact Hin. }
  destruct (register_go_progress false (local_handles p) 0 d p gs HQS (LKx_clean _ HLK) (local_handles_nodup p) Hall)
    as (p4 & gs4 & E4 & HQS4 & Hcl4 & Hrest4 & Hc4 & HL4 & Hdone4 & Hgrow4 & Hhist4 & HO4).
  unfold register_local_inputs. rewrite E4. cbn [res_bind].
  destruct (send_ready_outgoing_ok p4 out0) as (p5 & o5 & E5 & O5). rewrite E5. cbn [res_bind].
  pose proof (QS_out_only _ _ _ _ _ _ HQS4 O5) as HQS5.
  assert (Hs5 : ps_sync p5 = ps_sync p4) by (rewrite O5; reflexivity).
  assert (Hst5 : ps_status p5 = ps_status p4) by (rewrite O5; reflexivity).
  destruct (send_ready_outgoing_frame _ _ _ _ E5) as (_ & _ & Hor5 & Hos5).
  set (c := s_current (ps_sync p)) in *. set (L := s_last_confirmed (ps_sync p)) in *.
  (* the queues after registration: still never read *)
  pose proof (QsI_length _ _ _ _ (qs_qs _ _ _ _ HQS4)) as Hl4.
  assert (HLK4 : Forall never_read (s_queues (ps_sync p4))).
  { apply Forall_forall. intros q4 Hin. apply In_nth_error in Hin. destruct Hin as (h & Hh).
    assert (exists gh4, nth_error gs4 h = Some gh4) as (gh4 & Hg4).
    { destruct (nth_error gs4 h) eqn:X; [eauto|]. exfalso. apply nth_error_None in X.
      assert (h < length (s_queues (ps_sync p4)))%nat by (apply nth_error_Some; congruence). unfold ghost in *. lia. }
    destruct (Hgrow4 h q4 gh4 Hh Hg4) as (q & gh & Hq & Hg & (F & (P & R) & _)).
    rewrite Forall_forall in HLKq. destruct (HLKq q (nth_error_In _ _ Hq)) as (A & B & C).
    split; [congruence|]. split; [rewrite P; exact B|congruence]. }
  pose proof HQS5 as [Hw5 Hd5 Hmode5 Hn5 Hconn5 Hgos5 HQ5 Hlast5 Hfr5 Hkinds5 Hpe5 Hsok5].
  rewrite Hs5 in HQ5, Hfr5, Hkinds5. rewrite Hc4 in HQ5, Hfr5, Hkinds5. rewrite HL4 in HQ5, Hfr5. fold c L in HQ5, Hfr5, Hkinds5.
  destruct Hn5 as (Hn51 & Hn52 & Hn53 & Hn54). destruct Hfr5 as (HfL5 & Hfc5 & Hfw5).
  pose proof (QsI_length _ _ _ _ HQ5) as Hlq5.
  (* the confirmed frame *)
  assert (Hbnd5 : Forall (fun c => cs_last c < I32MAX) (ps_status p5)).
  { rewrite Hst5. apply (status_bound_after_register d (ps_status p) (ps_status p4) gs gs4 (ps_pending p) (local_handles p) Hd0 ltac:(lia) Hlast (qs_last _ _ _ _ HQS4) Hhist4 Hbnd). }
  destruct (confirmed_frame_spec p5 Hconn5) as (cf & Ecf & Hcf1 & Hcf2); [|exact Hbnd5|].
  { intro E. rewrite E in Hn54. cbn in Hn54. lia. }
  pose proof (cf_le_all _ _ _ Hlast5 Hcf1) as Hcfg.
  pose proof (cf_ge_conf _ _ _ _ _ _ HQ5 Hlast5 Hcf2) as HLcf.
  rewrite Hs5, Hc4. fold c. rewrite Ecf. cbn [res_bind].
  (* histories and timeline after registration *)
  assert (Hgrow4c : grows_all c (s_queues (ps_sync p)) gs (s_queues (ps_sync p4)) gs4) by exact Hgrow4.
  assert (HGI4 : GIl c G (s_queues (ps_sync p4)) gs4) by (eapply GIl_grows; eassumption).
  assert (HPN4 : PNl c (s_queues (ps_sync p4)) gs4) by (eapply PNl_grows; eassumption).
  assert (Hk5 : ps_kinds p5 = ps_kinds p).
  { rewrite O5. cbn [with_outgoing ps_kinds]. destruct Hrest4 as (_ & _ & _ & _ & _ & X & _). exact X. }
  assert (Hrest5 : ps_next_spec p5 = ps_next_spec p /\ ps_spectators p5 = ps_spectators p /\ ps_nplayers p5 = ps_nplayers p).
  { rewrite O5. cbn [with_outgoing ps_next_spec ps_spectators ps_nplayers].
    destruct Hrest4 as (X0 & _ & _ & _ & _ & _ & _ & _ & X2 & _ & X1). repeat split; congruence. }
  destruct Hrest5 as (Hns5 & Hss5 & Hnp5).
  (* the optional advance *)
  set (s4 := ps_sync p4) in *.
  assert (Hstep : exists p2 o2 R2, (if c <=? cf
            then res_bind (confirmed_inputs s4 c (ps_status p5)) (fun pis =>
                   Ok (with_pending (with_sync p5 (advance_frame s4)) [],
                       add_req o5 (RAdvance (map (fun pi => if pi_frame pi =? NULL then (pi_val pi, Disconnected) else (pi_val pi, Confirmed)) pis))))
            else Ok (p5, o5)) = Ok (p2, o2) /\
          o_requests o2 = R2 /\ o_spec_sends o2 = [] /\
          ps_status p2 = ps_status p5 /\ ps_kinds p2 = ps_kinds p /\ ps_next_spec p2 = ps_next_spec p /\
          ps_spectators p2 = ps_spectators p /\ ps_nplayers p2 = ps_nplayers p /\
          p2 = with_sync (with_pending p5 (ps_pending p2)) (ps_sync p2) /\
          s_queues (ps_sync p2) = s_queues s4 /\ s_last_confirmed (ps_sync p2) = L /\ s_maxpred (ps_sync p2) = s_maxpred s4 /\
          (s_current (ps_sync p2) = c \/ (s_current (ps_sync p2) = c + 1 /\ c <= cf)) /\
          (s_current (ps_sync p2) = c -> ps_pending p2 = ps_pending p5) /\ (s_current (ps_sync p2) = c + 1 -> ps_pending p2 = []) /\
          glen (replay_hist G R2) = s_current (ps_sync p2) /\
          GIl (s_current (ps_sync p2)) (replay_hist G R2) (s_queues s4) gs4 /\
          Forall (truthful_lt (s_current (ps_sync p2)) gs4) (adv_frames G R2) /\ all_confirmed R2).
  { destruct (Z.leb_spec c cf) as [Hadv|Hstall].
    - unfold confirmed_inputs.
      assert (Hrange : Forall (fun g : ghost => snd g <= c < hlen (fst g)) gs4).
      { apply Forall_forall. intros g4 Hg4. rewrite Forall_forall in Hcfg. pose proof (Hcfg g4 Hg4).
        apply In_nth_error in Hg4. destruct Hg4 as (h & Hh).
        destruct (nth_error_some_len (s_queues s4) gs4 h g4 Hlq5 Hh) as (q4 & Hq4).
        pose proof (Forall2_nth _ _ _ _ _ _ HQ5 Hq4 Hh) as Hqi. cbv beta in Hqi. destruct (qi_low _ _ _ _ _ Hqi) as (Lw & _). lia. }
      rewrite (confirmed_inputs_held (ps_status p5) (s_queues s4) gs4 c L c HQ5 Hconn5 ltac:(lia) Hrange). cbn [res_bind].
      set (ins := map (fun pi => if pi_frame pi =? NULL then (pi_val pi, Disconnected) else (pi_val pi, Confirmed)) (held_at gs4 c)).
      assert (Hins : ins = map (fun g : ghost => (hval (fst g) c, Confirmed)) gs4).
      { subst ins. unfold held_at. rewrite map_map. apply map_ext. intros g0. cbn [pi_frame pi_val].
        assert ((c =? NULL) = false) as -> by (unfold NULL; lia). reflexivity. }
      eexists; eexists; exists [RAdvance ins]. split; [reflexivity|].
      cbn [add_req o_requests o_spec_sends with_pending with_sync ps_status ps_kinds ps_next_spec ps_spectators ps_nplayers ps_pending ps_sync
               advance_frame with_current s_queues s_last_confirmed s_maxpred s_current replay_hist adv_frames]. rewrite ?Hc4.
      split; [rewrite Hor5; reflexivity|]. split; [exact Hos5|]. split; [reflexivity|]. split; [exact Hk5|]. split; [exact Hns5|].
      split; [exact Hss5|]. split; [exact Hnp5|]. split; [reflexivity|]. split; [reflexivity|]. split; [exact HL4|]. split; [reflexivity|].
      split; [right; split; [reflexivity|exact Hadv]|]. split; [intros X; lia|]. split; [reflexivity|].
      split; [rewrite glen_app; lia|].
      assert (Htr : truthful gs4 (c, ins)).
      { unfold truthful. cbn [fst snd]. rewrite Hins. clear - Hrange. induction gs4 as [|g gs IH]; cbn [map]; constructor.
        - inversion Hrange; subst. left. cbn [fst snd]. split; [reflexivity|]. split; [lia|reflexivity].
        - apply IH. inversion Hrange; assumption. }
      split.
      + (* the timeline with the new frame *)
        intros h q4 gh4 B C. pose proof (HGI4 h q4 gh4 B C) as [Gk Gp Gv].
        pose proof HLK4 as HLK4'. rewrite Forall_forall in HLK4'. destruct (HLK4' q4 (nth_error_In _ _ B)) as (A1 & A2 & A3).
        rewrite Forall_forall in Hrange. pose proof (Hrange gh4 (nth_error_In _ _ C)) as Hr4.
        constructor.
        * intros f Hf Hfl _. destruct (Z.eq_dec f c) as [->|Hne].
          -- rewrite <- HG at 1. rewrite gvalL_app_new. rewrite Hins. unfold fval.
             rewrite (nth_error_nth (map (fun g : ghost => (hval (fst g) c, Confirmed)) gs4) h (0, Confirmed) (map_nth_error _ _ _ C)). reflexivity.
          -- rewrite gvalL_app_old by lia. apply Gk; [lia|exact Hfl|left; exact A1].
        * intros _ f Hf Hfl. lia.
        * intros X. congruence.
      + split.
        * constructor; [|constructor]. split; [cbn [fst]; unfold glen in HG; lia|].
          replace (Z.of_nat (length G)) with c by (unfold glen in HG; lia). exact Htr.
        * intros r0 [<-|[]]. exists ins. split; [reflexivity|]. rewrite Hins. apply Forall_forall. intros i Hi.
          apply in_map_iff in Hi. destruct Hi as (g0 & <- & _). reflexivity.
    - exists p5, o5, []. split; [reflexivity|]. rewrite Hs5. fold s4. rewrite Hc4. fold c. cbn [replay_hist adv_frames].
      split; [exact Hor5|]. split; [exact Hos5|]. split; [reflexivity|]. split; [exact Hk5|]. split; [exact Hns5|].
      split; [exact Hss5|]. split; [exact Hnp5|]. split; [rewrite <- Hs5; destruct p5; reflexivity|]. split; [reflexivity|]. split; [exact HL4|]. split; [reflexivity|].
      split; [left; reflexivity|]. split; [reflexivity|]. split; [intros X; lia|].
      split; [exact HG|]. split; [exact HGI4|]. split; [constructor|intros r0 []]. }
  destruct Hstep as (p2 & o2 & R2 & E2 & Ho2 & Hos2 & Hst2 & Hk2 & Hns2 & Hss2 & Hnp2 & Hshape2 & Hq2 & HL2 & Hmp2 & Hc2 & Hpk2 & Hpa2 & HG2 & HGI2 & HTR2 & HAC2).
  rewrite E2. cbn [res_bind].
  set (c2 := s_current (ps_sync p2)) in *.
  assert (Hc2r : c <= c2 <= c + 1) by (destruct Hc2 as [X|(X & _)]; lia).
  assert (Ecf2 : confirmed_frame p2 = Ok cf) by (unfold confirmed_frame in *; rewrite Hst2; exact Ecf).
  rewrite Ecf2. cbn [res_bind].
  set (bk := Z.min cf (c2 - 1)).
  (* the broadcast to the spectators *)
  set (ns := ps_next_spec p) in *.
  set (ns' := next_spec_after p bk).
  assert (Hlow4 : ps_spectators p <> [] -> 0 <= ns /\ L + 1 <= ns /\ Forall (fun g : ghost => snd g <= ns /\ ns <= hlen (fst g)) gs4).
  { intros Hne. destruct (Hsok5 ltac:(rewrite Hss5; exact Hne)) as (S1 & S2 & S3). rewrite Hns5 in S1, S2, S3. rewrite Hs5, HL4 in S2. fold L ns in S1, S2, S3.
    split; [exact S1|]. split; [exact S2|]. apply Forall_forall. intros g4 Hg4. rewrite Forall_forall in S3. pose proof (S3 g4 Hg4).
    apply In_nth_error in Hg4. destruct Hg4 as (h & Hh).
    destruct (nth_error_some_len (s_queues s4) gs4 h g4 Hlq5 Hh) as (q4 & Hq4).
    pose proof (Forall2_nth _ _ _ _ _ _ HQ5 Hq4 Hh) as Hqi. cbv beta in Hqi. destruct (qi_low _ _ _ _ _ Hqi) as (Lw & _). split; lia. }
  assert (Hsend : exists p3 o3, send_confirmed_inputs_to_spectators p2 bk o2 = Ok (p3, o3) /\
            p3 = with_next_spec p2 ns' /\ o_requests o3 = o_requests o2 /\
            o_spec_sends o3 = spec_sent p gs4 bk).
  { unfold send_confirmed_inputs_to_spectators, spec_sent, next_spec_after in *. rewrite Hss2. fold ns in ns' |- *.
    destruct (ps_spectators p) as [|b bs] eqn:Esp.
    - exists p2, o2. split; [reflexivity|]. split; [subst ns'; rewrite <- Hns2; symmetry; apply with_next_spec_self|].
      split; [reflexivity|exact Hos2].
    - destruct (Hlow4 ltac:(discriminate)) as (S1 & S2 & S3).
      destruct (spec_send_progress (Z.to_nat (bk - ps_next_spec p2 + 1)) p2 bk o2 gs4 c L) as (p3 & o3 & E3' & Hp3 & R1 & _ & R3).
      + rewrite Hq2. exact HQ5.
      + rewrite Hst2. exact Hconn5.
      + rewrite Hst2, Hq2. lia.
      + rewrite Hnp2, <- Hnp5. exact Hn51.
      + rewrite Hns2. fold ns. apply Forall_forall. intros g0 Hg0. rewrite Forall_forall in S3, Hcfg.
        pose proof (S3 g0 Hg0). pose proof (Hcfg g0 Hg0). subst bk. split; lia.
      + reflexivity.
      + rewrite Hns2 in Hp3, R3. fold ns in Hp3, R3. rewrite Hss2 in R3.
        exists p3, o3. split; [exact E3'|]. split; [exact Hp3|]. split; [exact R1|]. rewrite R3, Hos2. reflexivity. }
  destruct Hsend as (p3 & o3 & Es3 & Hp3 & Hor3 & Hos3). rewrite Es3. cbn [res_bind].
  assert (Hsy3 : ps_sync p3 = ps_sync p2) by (rewrite Hp3; reflexivity).
  assert (Hsp3 : ps_sparse p3 = false).
  { rewrite Hp3, Hshape2. cbn [with_next_spec with_sync with_pending ps_sparse]. destruct (qs_mode _ _ _ _ HQS5) as (_ & X & _). exact X. }
  rewrite Hsp3, Hsy3.
  pose proof (confirm_progress_gen predict (ps_sync p2) gs4 bk false) as Hcp. cbv zeta in Hcp.
  destruct Hcp as (s3 & E3 & Hsv3 & HL3 & Hsf3 & (gs3 & HQ3 & Hmap3) & Hcl3 & Hsu3 & Hpr3).
  { rewrite Hq2, HL2. fold c2. eapply QsI_shift; [exact HQ5|exact HLK4]. }
  { rewrite Hq2. exact Hcl4. }
  { rewrite HL2. fold c2. subst bk. lia. }
  { fold c2. eapply Forall_impl; [|exact Hcfg]. cbv beta. intros a Ha. subst bk. lia. }
  fold c2 in HL3, HQ3. destruct Hsf3 as ((Hmp3 & _) & Hc3). fold c2 in Hc3.
  assert (HL3b : s_last_confirmed s3 = bk) by (rewrite HL3; subst bk; lia).
  rewrite E3. cbn [res_bind].
  (* the queues after the confirmation: the same up to discarded slots *)
  assert (Hq3 : s_queues s3 = (if 0 <? Z.min bk c2 then map (fun q => discard_confirmed_frames q (Z.min bk c2 - 1)) (s_queues s4) else s_queues s4)).
  { unfold set_last_confirmed_frame in E3. rewrite Hq2 in E3. rewrite (max_fi_clean _ Hcl4) in E3. cbn [Z.eqb NULL orb negb] in E3.
    fold c2 in E3. injection E3 as <-. reflexivity. }
  assert (HLK3 : Forall never_read (s_queues s3)).
  { rewrite Hq3. destruct (0 <? Z.min bk c2); [|exact HLK4].
    apply Forall_forall. intros q3 Hin. apply in_map_iff in Hin. destruct Hin as (q4 & <- & Hin4).
    rewrite Forall_forall in HLK4. destruct (HLK4 q4 Hin4) as (A & B & C).
    split; [rewrite discard_fi; exact A|]. split; [rewrite discard_pred; exact B|rewrite discard_last_requested; exact C]. }
  (* the state the call returns *)
  set (base0 := with_pending p5 (ps_pending p2)).
  assert (HQSb0 : QSg false 0 d base0 gs4).
  { subst base0. destruct Hc2 as [Hc|(Hc & _)].
    - rewrite (Hpk2 Hc). replace (with_pending p5 (ps_pending p5)) with p5 by (destruct p5; reflexivity). exact HQS5.
    - rewrite (Hpa2 Hc). apply QS_no_pending. exact HQS5. }
  set (base := with_next_spec base0 ns').
  assert (Hns'ge : ps_spectators p <> [] -> ns <= ns' /\ bk + 1 <= ns').
  { intros Hne. subst ns'. unfold next_spec_after. fold ns. destruct (ps_spectators p); [congruence|]. lia. }
  assert (HQSb : QSg false 0 d base gs4).
  { subst base. apply QS_next_spec; [exact HQSb0|].
    intros Hne. subst base0. cbn [with_next_spec with_pending ps_spectators ps_next_spec ps_sync] in Hne |- *. rewrite Hss5 in Hne.
    destruct (Hlow4 Hne) as (S1 & S2 & S3). destruct (Hns'ge Hne) as (N1 & N2). rewrite Hs5, HL4. fold L.
    split; [lia|]. split; [lia|]. apply Forall_forall. intros g0 Hg0. rewrite Forall_forall in S3, Hcfg.
    pose proof (S3 g0 Hg0). pose proof (Hcfg g0 Hg0). subst ns'. unfold next_spec_after. fold ns. destruct (ps_spectators p); [congruence|]. subst bk. lia. }
  assert (Hfinal : with_sync p3 s3 = with_sync base s3).
  { rewrite Hp3, Hshape2. subst base base0. cbn [with_sync with_next_spec with_pending]. reflexivity. }
  rewrite Hfinal.
  assert (HQS' : QSg false 0 d (with_sync base s3) gs3).
  { apply (QS_resync _ 0 d base gs4 s3 gs3 HQSb).
    - subst base base0. cbn [with_next_spec with_pending ps_sync]. rewrite Hmp3, Hmp2, Hs5. reflexivity.
    - rewrite Hc3, HL3. exact HQ3.
    - apply map_fst_hlens. exact Hmap3.
    - rewrite Hc3, HL3b. subst bk. cbn [Z.max]. destruct Hc2 as [Hc|(Hc & Hadv)]; lia.
    - subst base base0. cbn [with_next_spec with_pending ps_kinds]. rewrite Hc3. intros h k q3 gh3 A B C.
      destruct (map_fst_nth gs4 gs3 h gh3 Hmap3 C) as (gh4 & Cg & Efst). rewrite <- Efst.
      destruct (nth_error_some_len (s_queues s4) gs4 h gh4 Hlq5 Cg) as (q4 & Bq4).
      pose proof (Hkinds5 h k q4 gh4 A Bq4 Cg) as HK.
      rewrite <- Hq2 in Bq4. destruct (Forall2_nth _ _ _ _ _ _ Hsu3 Bq4 B) as (D3 & U3).
      pose proof (Forall2_nth _ _ _ _ _ _ Hpr3 Bq4 B) as P3. cbv beta in P3.
      apply (KI_transfer c2 d k q4 q3); [|exact D3|exact U3|intros _ X; rewrite P3; exact X].
      destruct Hc2 as [Hc|(Hc & Hadv)]; [rewrite Hc; exact HK|]. rewrite Hc.
      destruct k as [|e|e]; cbn [KI] in HK |- *; [|exact HK|exact HK].
      destruct HK as (Hdel & Hpn & _).
      assert (Hin : In (Z.of_nat h) (local_handles p)).
      { apply (local_handles_spec p _ Hnp). rewrite Nat2Z.id. rewrite <- Hk5. split; [|exact A].
        assert (nth_error (ps_kinds p5) h <> None) as X by congruence. apply nth_error_Some in X. rewrite Hk5 in X. lia. }
      pose proof (Hdone4 (Z.of_nat h) ltac:(lia) (or_introl Hin)) as Hdn. unfold Done in Hdn.
      rewrite Nat2Z.id in Hdn. fold s4 c in Hdn. rewrite Hq2 in Bq4.
      destruct (Hdn q4 gh4 Bq4 Cg) as (Hh & Hu).
      split; [exact Hdel|]. split; [exact Hpn|]. right. left. split; [lia|]. split; [lia|lia].
    - subst base base0. cbn [with_next_spec with_pending ps_pending]. rewrite Hc3. intros h pi X.
      destruct Hc2 as [Hc|(Hc & _)]; [rewrite (Hpk2 Hc) in X; rewrite Hc; rewrite <- Hc4; rewrite <- Hs5; exact (Hpe5 h pi X)|rewrite (Hpa2 Hc) in X; discriminate X].
    - intros Hne. subst base base0. cbn [with_sync with_next_spec with_pending ps_spectators ps_next_spec ps_sync] in Hne |- *. rewrite Hss5 in Hne.
      destruct (Hlow4 Hne) as (S1 & S2 & S3). destruct (Hns'ge Hne) as (N1 & N2). rewrite HL3b.
      split; [lia|]. split; [lia|]. apply Forall_forall. intros g3 Hg3. apply In_nth_error in Hg3. destruct Hg3 as (h & Hh).
      destruct (map_fst_nth gs4 gs3 h g3 Hmap3 Hh) as (g4 & Cg & Efst). rewrite <- Efst.
      rewrite Forall_forall in S3, Hcfg. pose proof (S3 g4 (nth_error_In _ _ Cg)). pose proof (Hcfg g4 (nth_error_In _ _ Cg)).
      subst ns'. unfold next_spec_after. fold ns. destruct (ps_spectators p); [congruence|]. subst bk. lia. }
  exists (with_sync base s3), o3, AOk, gs3. split; [reflexivity|]. split; [exact HQS'|].
  assert (HGI3 : GIl c2 (replay_hist G R2) (s_queues s3) gs3 /\ PNl c2 (s_queues s3) gs3).
  { split.
    - intros h q3 gh3 B C. destruct (map_fst_nth gs4 gs3 h gh3 Hmap3 C) as (gh4 & Cg & Efst). rewrite <- Efst.
      destruct (nth_error_some_len (s_queues s4) gs4 h gh4 Hlq5 Cg) as (q4 & Bq4).
      pose proof Bq4 as Bq4'. rewrite <- Hq2 in Bq4'.
      pose proof (Forall2_nth _ _ _ _ _ _ Hpr3 Bq4' B) as P3. cbv beta in P3.
      pose proof HLK3 as HLK3'. pose proof HLK4 as HLK4'. rewrite Forall_forall in HLK3', HLK4'.
      destruct (HLK3' q3 (nth_error_In _ _ B)) as (F3 & _). destruct (HLK4' q4 (nth_error_In _ _ Bq4)) as (F4 & _).
      eapply GQ_ext; [rewrite F3, F4; reflexivity|exact P3|]. apply HGI2; assumption.
    - intros h q3 gh3 B C _. destruct (map_fst_nth gs4 gs3 h gh3 Hmap3 C) as (gh4 & Cg & Efst). rewrite <- Efst.
      destruct Hc2 as [Hc|(Hc & Hadv)].
      + rewrite Hc. destruct (nth_error_some_len (s_queues s4) gs4 h gh4 Hlq5 Cg) as (q4 & Bq4).
        apply (HPN4 h q4 gh4 Bq4 Cg). pose proof HLK4 as HLK4'. rewrite Forall_forall in HLK4'. destruct (HLK4' q4 (nth_error_In _ _ Bq4)) as (_ & X & _). exact X.
      + rewrite Hc. rewrite Forall_forall in Hcfg. pose proof (Hcfg gh4 (nth_error_In _ _ Cg)). lia. }
  destruct HGI3 as (HGI3 & HPN3).
  split; [split; [exact HLK3|cbn [with_sync ps_sync]; rewrite HL3b, Hc3; subst bk; lia]|].
  rewrite Hor3, Ho2.
  split; [unfold SessionTimeline.TI; cbn [with_sync ps_sync]; rewrite Hc3; split; [exact HG2|split; [exact HGI3|exact HPN3]]|].
  assert (Hhist : hist_step d (ps_pending p) (local_handles p) gs gs3).
  { intros h0 gh' A. destruct (map_fst_nth gs4 gs3 h0 gh' Hmap3 A) as (gh4 & A4 & Efst).
    destruct (Hhist4 h0 gh4 A4) as (gh & Ag & Bg). exists gh. split; [exact Ag|]. rewrite <- Efst. exact Bg. }
  split; [exact Hhist|].
  split; [subst base base0; cbn [with_sync with_next_spec with_pending ps_kinds]; exact Hk5|].
  split.
  { (* what was handed to the spectators, in terms of the histories held now *)
    split; [subst base base0; cbn [with_sync with_next_spec with_pending ps_spectators]; exact Hss5|].
    exists (Z.to_nat (bk - ns + 1)). rewrite Hos3. unfold spec_sent. fold ns.
    assert (Hheld : forall f, held_at gs3 f = held_at gs4 f).
    { intros f. unfold held_at. clear - Hmap3. revert gs3 Hmap3. induction gs4 as [|g4 gs4 IH]; intros [|g3 gs3] Hm; try discriminate; [reflexivity|].
      cbn [map] in Hm |- *. injection Hm as E1 E2. rewrite E1. f_equal. apply IH. exact E2. }
    split; [destruct (ps_spectators p); [reflexivity|]; destruct (existsb _ _); [|reflexivity]; apply map_ext; intros f; rewrite Hheld; reflexivity|].
    split.
    - subst base base0. cbn [with_sync with_next_spec with_pending ps_next_spec]. subst ns'. unfold next_spec_after. fold ns.
      destruct (ps_spectators p); [reflexivity|lia].
    - intros Hne. destruct (Hlow4 Hne) as (S1 & S2 & S3).
      apply Forall_forall. intros g3 Hg3. apply In_nth_error in Hg3. destruct Hg3 as (h & Hh).
      destruct (map_fst_nth gs4 gs3 h g3 Hmap3 Hh) as (g4 & Cg & Efst). rewrite <- Efst.
      rewrite Forall_forall in S3, Hcfg. pose proof (S3 g4 (nth_error_In _ _ Cg)). pose proof (Hcfg g4 (nth_error_In _ _ Cg)). subst bk. lia. }
  split; [|split; [exact HAC2|]].
  { cbn [with_sync ps_sync]. rewrite Hc3. eapply Forall_impl; [|exact HTR2]. intros fi (Hlt & Ht). split; [exact Hlt|].
    apply (truthful_map_fst predict gs4 gs3); [exact Hmap3|exact Ht]. }
  (* what went to the remote players *)
  intros (HO & _).
  destruct (send_ready_outgoing_out p4 out0 p5 o5 gs4 E5 (HO4 HO) (QS_local_gs predict predict_idem _ _ _ _ _ HQS4)) as (HO5 & rounds & Q1 & Q2).
  assert (Hrs2 : o_remote_sends o2 = o_remote_sends o5).
  { destruct (c <=? cf); [apply res_bind_ok in E2; destruct E2 as (pis & _ & E2); injection E2 as _ <-; reflexivity|injection E2 as _ <-; reflexivity]. }
  split; [split|].
  - intros Hr. change (ps_remotes p5 <> []) in Hr. eapply OI_same; [exact (HO5 Hr)|reflexivity|reflexivity|reflexivity|exact Hmap3].
  - (* everything registered has been sent *)
    intros Hr5 Hl5. change (ps_remotes p5 <> []) in Hr5. change (local_handles p5 <> []) in Hl5.
    assert (Hr4 : ps_remotes p4 <> []) by (rewrite O5 in Hr5; exact Hr5).
    assert (Hlo4 : local_handles p4 <> []) by (rewrite O5 in Hl5; exact Hl5).
    assert (Hall4 : forall h gh, In h (local_handles p4) -> nth_error gs4 (Z.to_nat h) = Some gh -> hlen (fst gh) = c + d + 1).
    { intros h gh Hin Hg. rewrite (local_handles_rest _ _ Hrest4) in Hin.
      pose proof (Hdone4 h (local_handles_ge _ _ Hin) (or_introl Hin)) as Hdn. unfold Done in Hdn. fold s4 c in Hdn.
      destruct (nth_error_some_len (s_queues s4) gs4 (Z.to_nat h) gh Hlq5 Hg) as (q & Hq).
      destruct (Hdn q gh Hq Hg) as (X & _). exact X. }
    destruct (send_ready_outgoing_done predict predict_idem p4 out0 p5 o5 gs4 _ E5 (HO4 HO) (QS_local_gs predict predict_idem _ _ _ _ _ HQS4) Hall4 Hr4 Hlo4) as (Y1 & Y2).
    change (ps_outgoing p5 = [] /\ forall h gh, In h (local_handles p5) -> nth_error gs3 (Z.to_nat h) = Some gh -> hlen (fst gh) = ps_last_sent_out p5 + 1).
    split; [exact Y1|]. intros h gh Hin Hg. rewrite Y2.
    assert (Hin4 : In h (local_handles p4)) by (rewrite O5 in Hin; exact Hin).
    destruct (map_fst_nth gs4 gs3 _ gh Hmap3 Hg) as (gh4 & Cg & Efst). rewrite <- Efst.
    rewrite (Hall4 h gh4 Hin4 Cg). lia.
  - rewrite (spec_sends_rsends _ _ _ _ _ Es3), Hrs2, Q1. cbn [out0 o_remote_sends app].
    rewrite (local_handles_rest _ _ Hrest4) in Q2. apply (rounds_ok_ext predict predict_idem _ gs4 gs3 _ Hmap3 Q2).
Qed.

(* the cells invariant of lockstep mode, as the generic run theorems want it; it carries its own witness of the
   queue and timeline invariants (the generic step hypothesis knows nothing of the timeline) *)
Definition CIl (w : Z) (p : p2p) (g : game) : Prop :=
  w = 0 /\ JI w p g /\ LKx p /\ exists gs d, QSg false 0 d p gs /\ TI p gs (g_hist g).

Lemma ev_input_spectators : forall p pl f v p', ev_input p pl f v = Ok p' -> ps_spectators p' = ps_spectators p.
Proof.
  intros p pl f v p' H. unfold ev_input in H. destruct (negb _); [discriminate|]. destruct (cs_disc _); [injection H as <-; reflexivity|].
  destruct (negb _); [discriminate|]. destruct (add_remote_input _ _ _ _); cbn [res_bind] in H; try discriminate. injection H as <-. reflexivity.
Qed.

Lemma lockstep_CI_step : forall p gs g w d o,
  QSg false w d p gs -> CIl w p g -> op_ok p o = true ->
  exists s g', sstep predict p o = Ok s /\ exec w g (o_requests (sr_out s)) = Some g' /\ CIl w (sr_state s) g'.
Proof.
  intros p gs g w d o _ (-> & HJI & HLK & gs0 & d0 & HQS & HTI) Hok.
  assert (Hgoal : exists s, sstep predict p o = Ok s /\ LKx (sr_state s) /\
            exists gs', QSg false 0 d0 (sr_state s) gs' /\ TI (sr_state s) gs' (replay_hist (g_hist g) (o_requests (sr_out s)))).
  { pose proof HLK as (HLKq & HLKl).
    destruct o as [h v|pl f v|ep st|hs|h|h dd|]; cbn [op_ok] in Hok; try discriminate.
    - destruct (local_progress _ 0 d0 p gs0 h v HQS) as (HQl & Hs & _).
      cbn [sstep]. destruct (api_add_local_input p h v) as [p1 r1] eqn:E1. cbn [fst] in *.
      exists (mksr p1 out0 r1). split; [reflexivity|]. cbn [sr_state sr_out out0 o_requests replay_hist].
      assert (Hsp1 : ps_spectators p1 = ps_spectators p).
      { unfold api_add_local_input in E1. destruct (kind_at p h) as [[| |]|]; injection E1 as <- _; reflexivity. }
      split; [unfold LKx; rewrite Hs; exact HLK|]. exists gs0. split; [exact HQl|]. unfold SessionTimeline.TI in *. rewrite Hs. exact HTI.
    - apply andb_prop in Hok. destruct Hok as [Hok H5]. apply andb_prop in Hok. destruct Hok as [Hok H4].
      apply andb_prop in Hok. destruct Hok as [Hok H3]. apply andb_prop in Hok. destruct Hok as [H1 H2].
      destruct (nth_error (ps_kinds p) (Z.to_nat pl)) as [[|e|e]|] eqn:Ek; try discriminate.
      destruct (remote_timeline predict predict_idem predict_zero false 0 d0 p gs0 pl f v e (g_hist g) HQS HTI ltac:(lia) Ek ltac:(lia) ltac:(lia))
        as (p' & hist & low & E & Eg & HQ' & HT').
      destruct (remote_progress _ 0 d0 p gs0 pl f v e HQS ltac:(lia) Ek ltac:(lia) ltac:(lia))
        as (p'' & gs'' & E'' & _ & q & hist' & low' & q' & Eq & Eg' & _ & Hqs' & F' & P' & Hc' & HL' & _ & R').
      rewrite E in E''. injection E'' as <-.
      cbn [sstep]. rewrite E. cbn [res_bind]. exists (mksr p' out0 AOk). split; [reflexivity|]. cbn [sr_state sr_out out0 o_requests replay_hist].
      split; [|exists (updz gs0 (Z.to_nat pl) (hist ++ [v], low)); split; [exact HQ'|exact HT']].
      split; [|rewrite HL', Hc'; exact HLKl].
      rewrite Hqs'. rewrite Forall_forall in HLKq. destruct (HLKq q (nth_error_In _ _ Eq)) as (A & B & C).
      apply Forall_updz; [apply Forall_forall; exact HLKq|].
      split; [rewrite F'; unfold fi_after; rewrite B; cbn [Z.eqb NULL]; exact A|].
      split; [rewrite P'; unfold pred_after; rewrite B; cbn [Z.eqb NULL]; exact B|rewrite R'; exact C].
    - cbn [sstep]. exists (mksr (gossip p ep st) out0 AOk). split; [reflexivity|]. cbn [sr_state sr_out out0 o_requests replay_hist].
      assert (Hsy : ps_sync (gossip p ep st) = ps_sync p) by (unfold gossip; destruct (nth_error (ps_remotes p) (Z.to_nat ep)); reflexivity).
      assert (Hsp : ps_spectators (gossip p ep st) = ps_spectators p) by (unfold gossip; destruct (nth_error (ps_remotes p) (Z.to_nat ep)); reflexivity).
      split; [unfold LKx; rewrite Hsy; exact HLK|]. exists gs0. split.
      + apply gossip_progress; [exact HQS|]. apply Forall_forall. intros s0 Hs0. rewrite forallb_forall in Hok.
        specialize (Hok s0 Hs0). destruct (cs_disc s0); [discriminate|reflexivity].
      + unfold SessionTimeline.TI in *. rewrite Hsy. exact HTI.
    - assert (Hbnd1 : Forall (fun c => cs_last c + 1 < I32MAX) (ps_status p)).
      { apply Forall_forall. intros s0 Hs0. rewrite forallb_forall in Hok. specialize (Hok s0 Hs0). lia. }
      destruct (lockstep_advance p gs0 d0 (g_hist g) HQS HLK Hbnd1 HTI) as (p' & o & r & gs' & E & HQ' & HLK' & HT' & _).
      cbn [sstep]. rewrite E. cbn [res_bind]. exists (mksr p' o r). split; [reflexivity|]. cbn [sr_state sr_out].
      split; [exact HLK'|]. exists gs'. split; [exact HQ'|exact HT']. }
  destruct Hgoal as (s & Es & HLK' & gs' & HQ' & HT').
  destruct (sstep_exec predict p o s g 0 Es HJI) as (g' & Ex & HJ' & _).
  exists s, g'. split; [exact Es|]. split; [exact Ex|]. split; [reflexivity|]. split; [exact HJ'|]. split; [exact HLK'|].
  exists gs', d0. split; [exact HQ'|]. rewrite (exec_hist _ _ _ _ Ex). exact HT'.
Qed.

Lemma lockstep_CI_adv : forall p gs g w d p' o r G,
  advance predict p = Ok (p', o, r) ->
  QSg false w d p gs -> CIl w p g -> Forall (fun c => cs_last c < I32MAX) (ps_status p) ->
  Forall (fun c => cs_last c + 1 < I32MAX) (ps_status p) -> TI p gs G ->
  exists gs', QSg false w d p' gs' /\ TI p' gs' (replay_hist G (o_requests o)) /\
    hist_step d (ps_pending p) (local_handles p) gs gs' /\ ps_kinds p' = ps_kinds p /\ spec_step p gs' o p' /\
    Forall (truthful_lt (s_current (ps_sync p')) gs') (adv_frames G (o_requests o)) /\ sends_adv p gs gs' p' o.
Proof.
  intros p gs g w d p' o r G E HQS (-> & _ & HLK & _) _ Hbnd1 HTI.
  destruct (lockstep_advance p gs d G HQS HLK Hbnd1 HTI) as (p1 & o1 & r1 & gs' & E1 & HQ' & _ & HT' & Hh & Hk & Hss & HTR & _ & Hsd).
  rewrite E in E1. injection E1 as <- <- <-.
  exists gs'. split; [exact HQ'|]. split; [exact HT'|]. split; [exact Hh|]. split; [exact Hk|]. split; [exact Hss|split; [exact HTR|exact Hsd]].
Qed.

Lemma lockstep_CI_frame : forall w p g, CIl w p g -> gframe g = s_current (ps_sync p).
Proof. intros w p g (_ & HJ & _). exact (ji_frame _ _ _ HJ). Qed.

(* ---------- the step theorems for lockstep mode ---------- *)
Definition lockstep_run_timeline :=
  run_timeline_g predict predict_idem predict_zero false CIl lockstep_CI_step lockstep_CI_adv lockstep_CI_frame.
Definition lockstep_run_timeline_broadcast :=
  run_timeline_broadcast_g predict predict_idem predict_zero false CIl lockstep_CI_step lockstep_CI_adv lockstep_CI_frame.
Definition lockstep_requests_truthful_step :=
  requests_truthful_step_g predict predict_idem predict_zero false CIl lockstep_CI_step lockstep_CI_adv lockstep_CI_frame.

(* one step of a lockstep session inside the space: no assert fires, the invariants are re-established, and every
   request is an AdvanceFrame whose inputs are all Confirmed and are the held inputs of its frame: lockstep never
   predicts, never saves, never loads *)
Theorem lockstep_step : forall p gs g d o,
  QSg false 0 d p gs -> CIl 0 p g -> TI p gs (g_hist g) -> op_ok p o = true ->
  exists s gs' g', sstep predict p o = Ok s /\ QSg false 0 d (sr_state s) gs' /\ CIl 0 (sr_state s) g' /\
    TI (sr_state s) gs' (g_hist g') /\ exec 0 g (o_requests (sr_out s)) = Some g' /\
    Forall (truthful_lt (s_current (ps_sync (sr_state s))) gs') (adv_frames (g_hist g) (o_requests (sr_out s))) /\
    all_confirmed (o_requests (sr_out s)).
Proof.
  intros p gs g d o HQS HCI HTI Hok.
  destruct (step_timeline_g predict predict_idem predict_zero false CIl lockstep_CI_step lockstep_CI_adv lockstep_CI_frame p gs g 0 d o HQS HCI HTI Hok)
    as (s & gs' & g' & Es & HQ' & Ex & HC' & HT' & _ & _ & _ & HTR).
  exists s, gs', g'. split; [exact Es|]. split; [exact HQ'|]. split; [exact HC'|]. split; [exact HT'|]. split; [exact Ex|]. split; [exact HTR|].
  destruct HCI as (_ & _ & HLK & _).
  destruct o as [h v|pl f v|ep st|hs|h|h dd|]; cbn [op_ok] in Hok; try discriminate; cbn [sstep] in Es.
  - destruct (api_add_local_input p h v). injection Es as <-. intros r0 [].
  - destruct (ev_input p pl f v); cbn [res_bind] in Es; try discriminate. injection Es as <-. intros r0 [].
  - injection Es as <-. intros r0 [].
  - assert (Hbnd1 : Forall (fun c => cs_last c + 1 < I32MAX) (ps_status p)).
    { apply Forall_forall. intros s0 Hs0. rewrite forallb_forall in Hok. specialize (Hok s0 Hs0). lia. }
    destruct (lockstep_advance p gs d (g_hist g) HQS HLK Hbnd1 HTI) as (p1 & o1 & r1 & gs1 & E1 & _ & _ & _ & _ & _ & _ & _ & HAC & _).
    rewrite E1 in Es. cbn [res_bind] in Es. injection Es as <-. exact HAC.
Qed.

(* a whole run: no assert fires on any run inside the space, and every request of every call is an AdvanceFrame
   with Confirmed inputs only *)
Theorem lockstep_run : forall ops p gs g d,
  QSg false 0 d p gs -> CIl 0 p g -> TI p gs (g_hist g) ->
  srun_in predict p ops = Err \/
  exists p' outs gs' g', srun_in predict p ops = Ok (p', outs) /\ srun predict p ops = Ok (p', outs) /\
    exec_outs 0 g outs = Some g' /\ QSg false 0 d p' gs' /\ CIl 0 p' g' /\ TI p' gs' (g_hist g') /\
    Forall (fun o : pout * apires => all_confirmed (o_requests (fst o))) outs.
Proof.
  induction ops as [|o ops IH]; intros p gs g d HQS HCI HTI.
  - right. exists p, [], gs, g. cbn [srun_in srun exec_outs]. split; [reflexivity|]. split; [reflexivity|]. split; [reflexivity|].
    split; [exact HQS|]. split; [exact HCI|]. split; [exact HTI|constructor].
  - cbn [srun_in srun]. destruct (op_ok p o) eqn:Hok; [|left; reflexivity].
    destruct (lockstep_step p gs g d o HQS HCI HTI Hok) as (s & gs1 & g1 & Es & HQ1 & HC1 & HT1 & Ex1 & _ & HAC).
    rewrite Es. cbn [res_bind].
    destruct (IH (sr_state s) gs1 g1 d HQ1 HC1 HT1) as [Herr|(p' & outs & gs' & g' & E1 & E2 & Ex & HQ' & HC' & HT' & HA')].
    + left. rewrite Herr. reflexivity.
    + right. rewrite E1, E2. cbn [res_bind].
      exists p', ((sr_out s, sr_api s) :: outs), gs', g'. split; [reflexivity|]. split; [reflexivity|].
      split; [cbn [exec_outs]; rewrite Ex1; exact Ex|]. split; [exact HQ'|]. split; [exact HC'|]. split; [exact HT'|].
      constructor; [exact HAC|exact HA'].
Qed.

End Lockstep.

(* the initial state of a lockstep session without spectators *)
Lemma LKx_start : forall n d kinds eps nspec, LKx (session_start n 0 false d kinds eps nspec).
Proof.
  intros n d kinds eps nspec. unfold LKx, session_start, p2p_new, sync_new.
  cbn [with_running with_queues ps_sync s_queues s_last_confirmed s_current].
  split; [|unfold NULL; lia].
  apply Forall_forall. intros q Hq. apply in_map_iff in Hq. destruct Hq as ([h q0] & <- & Hin).
  apply in_combine_r in Hin. apply repeat_spec in Hin. subst q0.
  destruct (nth_error kinds (Z.to_nat h)) as [[| |]|]; repeat split.
Qed.

Lemma QS_start_lockstep : forall n d kinds eps nspec,
  0 <= d -> d + 4 <= QLEN -> 0 < n -> Z.of_nat (length kinds) = n -> players_only kinds ->
  QSg false 0 d (session_start n 0 false d kinds eps nspec) (repeat ([], 0) (Z.to_nat n)).
Proof.
  intros n d kinds eps nspec Hd Hcap Hn Hlen Hpl.
  unfold session_start, p2p_new, sync_new.
  constructor; cbn [with_running with_queues ps_maxpred ps_sync ps_running ps_sparse ps_spectators ps_disc_frame ps_nplayers
                    ps_kinds ps_status ps_remotes ps_pending s_maxpred s_current s_last_confirmed s_queues].
  - split; [lia|split; reflexivity].
  - split; [assumption|lia].
  - repeat split.
  - rewrite !repeat_length. repeat split; lia.
  - apply Forall_forall. intros s Hs. apply repeat_spec in Hs. subst s. reflexivity.
  - apply Forall_forall. intros e He. apply in_map_iff in He. destruct He as (hs & <- & _). cbn [ev_status].
    apply Forall_forall. intros s Hs. apply repeat_spec in Hs. subst s. reflexivity.
  - apply Forall2_start_queues. intros h. cbn [fst snd].
    destruct (nth_error kinds (Z.to_nat h)) as [[| |]|]; apply QI_new; try reflexivity; try exact RInv_new.
    eapply RInv_ext; [exact RInv_new|reflexivity..].
  - clear. induction (Z.to_nat n) as [|m IH]; cbn [repeat]; constructor; [reflexivity|exact IH].
  - unfold NULL. lia.
  - intros h k q gh A B C. apply nth_error_start_queues in B. cbn [Z.add] in B.
    apply nth_error_In, repeat_spec in C. subst gh. cbn [fst].
    rewrite Nat2Z.id, A in B. subst q.
    destruct k as [|e|e]; cbn [KI with_delay q_new q_delay q_pred q_last_user pi_frame blank].
    + split; [reflexivity|]. split; [reflexivity|]. left. repeat split.
    + split; [reflexivity|]. unfold hlen. cbn. reflexivity.
    + unfold players_only in Hpl. rewrite Forall_forall in Hpl. exact (Hpl _ (nth_error_In _ _ A)).
  - intros h pi X. discriminate X.
  - intros _. cbn [with_running ps_next_spec ps_sync with_queues s_last_confirmed]. split; [lia|]. split; [unfold NULL; lia|].
    apply Forall_forall. intros g Hg. pose proof (hlen_nonneg (fst g)). lia.
Qed.

(* from the initial state: a lockstep session without spectators *)
Theorem lockstep_from_start :
  forall (predict : Z -> Z), (forall x, predict (predict x) = predict x) -> predict 0 = 0 ->
  forall ops n d kinds eps nspec,
  0 <= d -> d + 4 <= QLEN -> 0 < n -> Z.of_nat (length kinds) = n -> players_only kinds ->
  let p0 := session_start n 0 false d kinds eps nspec in
  srun_in predict p0 ops = Err \/
  exists p outs g gs, srun_in predict p0 ops = Ok (p, outs) /\ srun predict p0 ops = Ok (p, outs) /\
    exec_outs 0 (game0 0) outs = Some g /\ gframe g = s_current (ps_sync p) /\ QSg false 0 d p gs /\
    Forall (fun o : pout * apires => all_confirmed (o_requests (fst o))) outs /\
    (forall h hist low f, nth_error gs h = Some (hist, low) -> 0 <= f < s_current (ps_sync p) ->
       f < hlen hist /\ gvalL (g_hist g) f h = hval hist f).
Proof.
  intros predict Hi Hz ops n d kinds eps nspec Hd Hcap Hn Hlen Hpl p0.
  pose proof (QS_start_lockstep n d kinds eps nspec Hd Hcap Hn Hlen Hpl) as HQS0.
  pose proof (TI_start predict Hi Hz n 0 d kinds eps nspec) as HTI0.
  assert (HCI0 : CIl predict 0 p0 (game0 0)).
  { split; [reflexivity|]. split; [apply JI_start; lia|]. split; [apply LKx_start|].
    exists (repeat ([], 0) (Z.to_nat n)), d. split; [exact HQS0|exact HTI0]. }
  destruct (lockstep_run predict Hi Hz ops p0 _ (game0 0) d HQS0 HCI0 HTI0) as [E|(p & outs & gs & g & E1 & E2 & Ex & HQS & HCI & (HG & HGI & HPN) & HA)].
  - left. exact E.
  - right. exists p, outs, g, gs. split; [exact E1|]. split; [exact E2|]. split; [exact Ex|].
    destruct HCI as (_ & HJ & (HLq & _) & _).
    split; [exact (ji_frame _ _ _ HJ)|]. split; [exact HQS|]. split; [exact HA|].
    intros h hist low f Eg Hf.
    pose proof (qs_qs _ _ _ _ HQS) as HQ. pose proof (QsI_length _ _ _ _ HQ) as Hlq.
    destruct (nth_error_some_len (s_queues (ps_sync p)) gs h (hist, low) Hlq Eg) as (q & Eq).
    rewrite Forall_forall in HLq. destruct (HLq q (nth_error_In _ _ Eq)) as (A & B & _).
    pose proof (HPN h q (hist, low) Eq Eg B) as Hreach. cbn [fst] in Hreach.
    split; [lia|]. apply (gq_known _ _ _ _ _ _ (HGI h q (hist, low) Eq Eg)); [lia|cbn [fst]; lia|left; exact A].
Qed.

(* lockstep: what the session sends for its local players is what it simulates for them, and what arrived for a
   remote player is what it simulates for that player *)
Theorem lockstep_sends_and_receipts :
  forall (predict : Z -> Z), (forall x, predict (predict x) = predict x) -> predict 0 = 0 ->
  forall ops n d kinds eps nspec p outs,
  0 <= d -> d + 4 <= QLEN -> 0 < n -> Z.of_nat (length kinds) = n -> players_only kinds ->
  srun_in predict (session_start n 0 false d kinds eps nspec) ops = Ok (p, outs) ->
  exists g gs, exec_outs 0 (game0 0) outs = Some g /\ QSg false 0 d p gs /\ gframe g = s_current (ps_sync p) /\
    (forall h hist low f, nth_error gs h = Some (hist, low) -> 0 <= f < s_current (ps_sync p) ->
       f < hlen hist /\ gvalL (g_hist g) f h = hval hist f) /\
    rounds_ok (local_handles p) gs (all_sends outs) /\
    (forall pl f v, In (SRemote pl f v) ops ->
      exists gh, nth_error gs (Z.to_nat pl) = Some gh /\ 0 <= f < hlen (fst gh) /\ hval (fst gh) f = v) /\
    (forall pl e gh f, 0 <= pl -> nth_error kinds (Z.to_nat pl) = Some (KRemote e) ->
      nth_error gs (Z.to_nat pl) = Some gh -> 0 <= f < hlen (fst gh) -> In (SRemote pl f (hval (fst gh) f)) ops) /\
    ps_kinds p = kinds /\ OB p gs /\ Forall (confirmed_ok gs) (all_adv_frames [] outs).
Proof.
  intros predict Hi Hz ops n d kinds eps nspec p outs Hd Hcap Hn Hlen Hpl H.
  set (p0 := session_start n 0 false d kinds eps nspec) in *.
  pose proof (QS_start_lockstep n d kinds eps nspec Hd Hcap Hn Hlen Hpl) as HQS0.
  pose proof (TI_start predict Hi Hz n 0 d kinds eps nspec) as HTI0.
  assert (HCI0 : CIl predict 0 p0 (game0 0)).
  { split; [reflexivity|]. split; [apply JI_start; lia|]. split; [apply LKx_start|].
    exists (repeat ([], 0) (Z.to_nat n)), d. split; [exact HQS0|exact HTI0]. }
  destruct (run_sends_g predict Hi Hz false (CIl predict) (lockstep_CI_step predict Hi Hz) (lockstep_CI_adv predict Hi)
              (lockstep_CI_frame predict) ops p0 _ (game0 0) 0 d HQS0 HCI0 HTI0 (conj (OI_start predict Hi false n 0 d kinds eps nspec) (OB_start false n 0 d kinds eps nspec)))
    as [E|(p' & outs' & gs & g & E1 & Ex & HQS & HCI & (HG & HGI & HPN) & (_ & HB) & _ & Hk & Hr & Hdl & Hcv & Hcok)]; [congruence|].
  rewrite H in E1. injection E1 as <- <-.
  exists g, gs. split; [exact Ex|]. split; [exact HQS|].
  destruct HCI as (_ & HJ & (HLq & _) & _).
  split; [exact (ji_frame _ _ _ HJ)|]. split; [|split; [|split; [exact Hdl|split; [|split; [exact Hk|split; [exact HB|exact Hcok]]]]]].
  3:{ intros pl e gh f Hpl0 Hkp Ag Hf.
      assert (Hl0 : (Z.to_nat pl < Z.to_nat n)%nat).
      { assert (nth_error kinds (Z.to_nat pl) <> None) as X by congruence. apply nth_error_Some in X. lia. }
      apply (Hcv pl e ([], 0) gh f Hpl0); [exact Hkp| |exact Ag|cbn [fst]; unfold hlen in *; cbn [length]; lia].
      apply nth_error_repeat. exact Hl0. }
  - intros h hist low f Eg Hf.
    pose proof (qs_qs _ _ _ _ HQS) as HQ. pose proof (QsI_length _ _ _ _ HQ) as Hlq.
    destruct (nth_error_some_len (s_queues (ps_sync p)) gs h (hist, low) Hlq Eg) as (q & Eq).
    rewrite Forall_forall in HLq. destruct (HLq q (nth_error_In _ _ Eq)) as (A & B & _).
    pose proof (HPN h q (hist, low) Eq Eg B) as Hreach. cbn [fst] in Hreach.
    split; [lia|]. apply (gq_known _ _ _ _ _ _ (HGI h q (hist, low) Eq Eg)); [lia|cbn [fst]; lia|left; exact A].
  - rewrite (local_handles_kinds predict Hi _ p (QS_nplayers _ _ _ _ _ HQS0) (QS_nplayers _ _ _ _ _ HQS) Hk). exact Hr.
Qed.

(* the host half of C06 for a lockstep host: everything handed to the spectators is frame 0, 1, 2, ... each once,
   in order, with the inputs held for it; every frame up to the last confirmed frame has been sent *)
Theorem lockstep_host_broadcast :
  forall (predict : Z -> Z), (forall x, predict (predict x) = predict x) -> predict 0 = 0 ->
  forall ops n d kinds eps nspec p outs,
  0 <= d -> d + 4 <= QLEN -> 0 < n -> Z.of_nat (length kinds) = n -> players_only kinds -> (0 < nspec)%nat ->
  srun_in predict (session_start n 0 false d kinds eps nspec) ops = Ok (p, outs) ->
  exists gs, QSg false 0 d p gs /\
    all_spec_sends outs = map (fun f => (f, held_at gs f)) (zrange_from 0 (Z.to_nat (ps_next_spec p))) /\
    0 <= ps_next_spec p /\ s_last_confirmed (ps_sync p) + 1 <= ps_next_spec p /\
    Forall (fun g : ghost => ps_next_spec p <= hlen (fst g)) gs.
Proof.
  intros predict Hi Hz ops n d kinds eps nspec p outs Hd Hcap Hn Hlen Hpl Hns H.
  set (p0 := session_start n 0 false d kinds eps nspec) in *.
  assert (Hsp : ps_spectators p0 = repeat true nspec) by reflexivity.
  pose proof (QS_start_lockstep n d kinds eps nspec Hd Hcap Hn Hlen Hpl) as HQS0.
  pose proof (TI_start predict Hi Hz n 0 d kinds eps nspec) as HTI0.
  assert (HCI0 : CIl predict 0 p0 (game0 0)).
  { split; [reflexivity|]. split; [apply JI_start; lia|]. split; [apply LKx_start|].
    exists (repeat ([], 0) (Z.to_nat n)), d. split; [exact HQS0|exact HTI0]. }
  destruct (lockstep_run_timeline_broadcast predict Hi Hz ops p0 _ (game0 0) 0 d HQS0 HCI0 HTI0)
    as [E|(p' & outs' & gs & g & E1 & _ & HQS & _ & _ & _ & Hss & _ & Hmono & Hall)].
  - rewrite Hsp. destruct nspec; [lia|discriminate].
  - rewrite Hsp. destruct nspec; [lia|reflexivity].
  - congruence.
  - rewrite H in E1. injection E1 as <- <-. exists gs. split; [exact HQS|].
    change (ps_next_spec p0) with 0 in Hall, Hmono. rewrite Z.sub_0_r in Hall.
    split; [exact Hall|].
    assert (Hne : ps_spectators p <> []) by (rewrite Hss, Hsp; destruct nspec; [lia|discriminate]).
    exact (qs_spec _ _ _ _ HQS Hne).
Qed.

(* the same, together with the game (one ghost history for both statements) *)
Theorem lockstep_host_broadcast_and_game :
  forall (predict : Z -> Z), (forall x, predict (predict x) = predict x) -> predict 0 = 0 ->
  forall ops n d kinds eps nspec p outs,
  0 <= d -> d + 4 <= QLEN -> 0 < n -> Z.of_nat (length kinds) = n -> players_only kinds -> (0 < nspec)%nat ->
  srun_in predict (session_start n 0 false d kinds eps nspec) ops = Ok (p, outs) ->
  exists g gs, exec_outs 0 (game0 0) outs = Some g /\ QSg false 0 d p gs /\
    all_spec_sends outs = map (fun f => (f, held_at gs f)) (zrange_from 0 (Z.to_nat (ps_next_spec p))) /\
    0 <= ps_next_spec p /\ s_last_confirmed (ps_sync p) + 1 <= ps_next_spec p /\
    (forall h hist low f, nth_error gs h = Some (hist, low) ->
       0 <= f <= s_last_confirmed (ps_sync p) -> f < s_current (ps_sync p) ->
       f < hlen hist /\ gvalL (g_hist g) f h = hval hist f).
Proof.
  intros predict Hi Hz ops n d kinds eps nspec p outs Hd Hcap Hn Hlen Hpl Hns H.
  set (p0 := session_start n 0 false d kinds eps nspec) in *.
  assert (Hsp : ps_spectators p0 = repeat true nspec) by reflexivity.
  pose proof (QS_start_lockstep n d kinds eps nspec Hd Hcap Hn Hlen Hpl) as HQS0.
  pose proof (TI_start predict Hi Hz n 0 d kinds eps nspec) as HTI0.
  assert (HCI0 : CIl predict 0 p0 (game0 0)).
  { split; [reflexivity|]. split; [apply JI_start; lia|]. split; [apply LKx_start|].
    exists (repeat ([], 0) (Z.to_nat n)), d. split; [exact HQS0|exact HTI0]. }
  destruct (lockstep_run_timeline_broadcast predict Hi Hz ops p0 _ (game0 0) 0 d HQS0 HCI0 HTI0)
    as [E|(p' & outs' & gs & g & E1 & Ex & HQS & HCI & (HG & HGI & HPN) & _ & Hss & _ & Hmono & Hall)].
  - rewrite Hsp. destruct nspec; [lia|discriminate].
  - rewrite Hsp. destruct nspec; [lia|reflexivity].
  - congruence.
  - rewrite H in E1. injection E1 as <- <-. exists g, gs. split; [exact Ex|]. split; [exact HQS|].
    change (ps_next_spec p0) with 0 in Hall, Hmono. rewrite Z.sub_0_r in Hall.
    split; [exact Hall|].
    assert (Hne : ps_spectators p <> []) by (rewrite Hss, Hsp; destruct nspec; [lia|discriminate]).
    destruct (qs_spec _ _ _ _ HQS Hne) as (S1 & S2 & _). split; [exact S1|]. split; [exact S2|].
    destruct HCI as (_ & HJ & (HLq & _) & _).
    intros h hist low f Eg Hf Hfc.
    pose proof (qs_qs _ _ _ _ HQS) as HQ. pose proof (QsI_length _ _ _ _ HQ) as Hlq.
    destruct (nth_error_some_len (s_queues (ps_sync p)) gs h (hist, low) Hlq Eg) as (q & Eq).
    rewrite Forall_forall in HLq. destruct (HLq q (nth_error_In _ _ Eq)) as (A & B & _).
    pose proof (HPN h q (hist, low) Eq Eg B) as Hreach. cbn [fst] in Hreach.
    split; [lia|]. apply (gq_known _ _ _ _ _ _ (HGI h q (hist, low) Eq Eg)); [lia|cbn [fst]; lia|left; exact A].
Qed.
