From GGRS Require Import Base Varint Rle Codec Consts VarintProofs RleProofs.
From Coq Require Import ZifyBool ZifyNat ZifyN.
Ltac Zify.zify_post_hook ::= Z.div_mod_to_equations.
Open Scope N_scope.

Lemma xor_zip_length : forall base i, length (xor_zip base i) = length i.
Proof.
  induction base as [|b bs IH]; intros [|i is_]; cbn; auto.
Qed.

Lemma xor_zip_invol : forall base i, xor_zip base (xor_zip base i) = i.
Proof.
  induction base as [|b bs IH]; intros [|i is_]; cbn; auto.
  rewrite IH. f_equal. rewrite <- N.lxor_assoc, N.lxor_nilpotent, N.lxor_0_l. reflexivity.
Qed.

(* total wire size of a list of inputs before RLE: 2 length bytes + the bytes of each input *)
Fixpoint wire_size (ins : list (list N)) : nat :=
  match ins with [] => O | i :: r => (2 + length i + wire_size r)%nat end.

Lemma delta_encode_length : forall ins base, length (delta_encode base ins) = wire_size ins.
Proof.
  induction ins as [|i r IH]; intros base; cbn [delta_encode wire_size]; [reflexivity|].
  rewrite !app_length, xor_zip_length, IH. cbn. lia.
Qed.

Lemma delta_roundtrip : forall ins base fuel left,
  Forall (fun i => N.of_nat (length i) <= 65535) ins ->
  (wire_size ins <= fuel)%nat ->
  N.of_nat (length ins) <= left ->
  delta_decode fuel left base (delta_encode base ins) = Some ins.
Proof.
  induction ins as [|i r IH]; intros base fuel left Hall Hf Hleft.
  - destruct fuel; reflexivity.
  - inversion Hall as [|? ? Hi Hr]; subst.
    cbn [wire_size] in Hf. destruct fuel as [|k]; [lia|].
    cbn [delta_encode]. unfold len_prefix. cbn [app delta_decode].
    set (l := N.of_nat (length i) mod 65536).
    assert (Hl : l = N.of_nat (length i)) by (subst l; apply N.mod_small; lia).
    assert (Hlen : N.to_nat (l mod 256 + 256 * (l / 256)) = length i).
    { pose proof (N.div_mod l 256 ltac:(lia)). lia. }
    rewrite Hlen.
    assert (E1 : firstn (length i) (xor_zip base i ++ delta_encode i r) = xor_zip base i).
    { rewrite <- (xor_zip_length base i). apply firstn_app_exact. }
    assert (E2 : skipn (length i) (xor_zip base i ++ delta_encode i r) = delta_encode i r).
    { rewrite <- (xor_zip_length base i) at 1. apply skipn_app_exact. }
    assert ((length (xor_zip base i ++ delta_encode i r) <? length i)%nat = false) as ->.
    { apply Nat.ltb_ge. rewrite app_length, xor_zip_length. lia. }
    assert ((left =? 0) = false) as -> by (apply N.eqb_neq; cbn [length] in Hleft; lia).
    rewrite E1, E2, xor_zip_invol. rewrite IH; [reflexivity|assumption|lia|cbn [length] in Hleft; lia].
Qed.

(* whatever delta_decode returns accounts for every byte of its input *)
Lemma delta_decode_size : forall fuel left base data r,
  delta_decode fuel left base data = Some r -> (length data <= fuel)%nat ->
  wire_size r = length data /\ N.of_nat (length r) <= left.
Proof.
  induction fuel as [|k IH]; intros left base data r H Hf.
  - destruct data; cbn in H; [inversion H; cbn; split; [reflexivity|lia]|discriminate].
  - destruct data as [|lo [|hi rest]]; cbn [delta_decode] in H.
    + inversion H; cbn; split; [reflexivity|lia].
    + discriminate.
    + set (l := N.to_nat (lo + 256 * hi)) in *.
      destruct (length rest <? l)%nat eqn:El; [discriminate|]. apply Nat.ltb_ge in El.
      destruct (left =? 0) eqn:E0; [discriminate|]. apply N.eqb_neq in E0.
      destruct (delta_decode k _ _ (skipn l rest)) as [t|] eqn:Ht; [|discriminate].
      inversion H; subst r. cbn [wire_size length].
      apply IH in Ht; [|rewrite skipn_length; cbn [length] in Hf; lia].
      destruct Ht as [Ht1 Ht2].
      rewrite Ht1, xor_zip_length, firstn_length, skipn_length. lia.
Qed.

Lemma cap_small : MAX_DECODED_LEN < 2^61 -> MAX_DECODED_LEN < U64.
Proof. intro H. eapply N.lt_trans; [exact H|reflexivity]. Qed.

Section WithCapBound.
(* discharged for the generated constant in props/C14.v *)
Hypothesis Hcap : MAX_DECODED_LEN < 2^61.

(* C14, sentence 2: decoding is total in both build profiles, for every byte string *)
Theorem decode_total : forall dbg ref data, decode dbg ref data <> Panic.
Proof.
  intros dbg ref data. unfold decode.
  destruct (validate MAX_DECODED_LEN data) eqn:Hv; [|discriminate].
  destruct (validated_rle_total _ dbg data (cap_small Hcap) Hv) as (d & -> & _ & _).
  destruct (delta_decode _ _ _ _); discriminate.
Qed.

(* ... and what it allocates is bounded: the RLE-expanded buffer and the decoded inputs
   (with their length prefixes) never exceed MAX_DECODED_LEN bytes *)
Theorem decode_bounded : forall dbg ref data outs,
  decode dbg ref data = Ok outs ->
  (exists buf, rleF dbg data = Ok buf /\ N.of_nat (length buf) <= MAX_DECODED_LEN) /\
  N.of_nat (wire_size outs) <= MAX_DECODED_LEN /\
  N.of_nat (length outs) <= MAX_DECODED_INPUTS.
Proof.
  intros dbg ref data outs H. unfold decode in H.
  destruct (validate MAX_DECODED_LEN data) eqn:Hv; [|discriminate].
  destruct (validated_rle_total _ dbg data (cap_small Hcap) Hv) as (d & Hr & _ & Hd).
  rewrite Hr in H.
  destruct (delta_decode (length d) MAX_DECODED_INPUTS ref d) as [r|] eqn:Hdd; [|discriminate].
  inversion H; subst r.
  apply delta_decode_size in Hdd; [|lia]. destruct Hdd as [Hd1 Hd2].
  split; [exists d; split; [exact Hr|exact Hd]|split; [lia|exact Hd2]].
Qed.

(* C14, sentence 1: the round trip, for every reference and every sequence of inputs of
   any (varying, possibly zero) lengths up to 65535 whose wire size fits a legitimate packet *)
Theorem codec_roundtrip : forall dbg ref ins,
  Forall (fun i => N.of_nat (length i) <= 65535) ins ->
  N.of_nat (wire_size ins) <= MAX_DECODED_LEN ->
  N.of_nat (length ins) <= MAX_DECODED_INPUTS ->
  decode dbg ref (encode ref ins) = Ok ins.
Proof.
  intros dbg ref ins Hall Hsz Hcnt. unfold decode, encode.
  set (buf := delta_encode ref ins).
  assert (Hlen : length buf = wire_size ins) by apply delta_encode_length.
  assert (Hv : validate MAX_DECODED_LEN (rle_encode buf) = true).
  { unfold validate. rewrite (rle_encode_scans _ Hcap buf) by lia. reflexivity. }
  rewrite Hv.
  destruct (validated_rle_total _ dbg _ (cap_small Hcap) Hv) as (d & -> & Hd & _).
  rewrite (rle_roundtrip _ Hcap buf) in Hd by lia. inversion Hd; subst d.
  subst buf. rewrite delta_roundtrip; [reflexivity|assumption|lia|exact Hcnt].
Qed.

End WithCapBound.

(* The decoder WITHOUT the validating pre-pass (the code before the F1 repair) violates
   totality: witnesses, replayed against the implementation by the harness. *)
Theorem decode_unvalidated_refuted :
  decode_unvalidated true [0;0;0;0] [128] = Panic /\
  decode_unvalidated false [0;0;0;0] [128] = Panic /\
  decode_unvalidated true [] [255;255;255;255;255;255;255;255;255;255;1] = Panic.
Proof. repeat split; vm_compute; reflexivity. Qed.

(* non-vacuity: the hypotheses of the round trip are met by a non-trivial case, and the
   validated decoder rejects the witnesses instead of panicking *)
Example roundtrip_example :
  decode true [0;0;0;1] (encode [0;0;0;1] [[0;0;1;0]; []; [255;255;255;255;255;7]; [0;0;1;1]])
  = Ok [[0;0;1;0]; []; [255;255;255;255;255;7]; [0;0;1;1]].
Proof. vm_compute. reflexivity. Qed.
Example witnesses_rejected :
  decode true [0;0;0;0] [128] = Err /\
  decode true [] [255;255;255;255;255;255;255;255;255;255;1] = Err /\
  decode true [] [129;128;128;128;4] = Err.
Proof. repeat split; vm_compute; reflexivity. Qed.
