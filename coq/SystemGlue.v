(* The link contract of SessionSystem.v ([delivered_was_sent]) from the endpoint theorems of EndpointEvents.v.
   The session-core model (P2P.v) and the endpoint model (Endpoint.v) were written separately and share no datatype;
   this file states the two identities that join them as explicit hypotheses and proves the contract from them:
     (GA) every frame the sending endpoint was handed is a round of the sending session, serialised by send_input
          ([from_inputs] of the round);
     (GB) every SRemote operation of the receiving session is an Input event the receiving endpoint handed out,
          hence justified by the stream (C05_events_were_sent, C05_poll_hands_out_what_was_sent).
   Everything between (GA) and (GB) - the bytes, the codec, acknowledgements, retransmissions, loss, reordering - is
   covered by theorems. *)
From GGRS Require Import Base Consts Queue QueueProofs Sync P2P Session SessionProofs SessionProgress SessionTimeline SessionSystem.
From GGRS Require Endpoint EndpointEvents.
From Coq Require Import ZifyBool ZifyNat ZifyN.
Open Scope Z_scope.

(* a round of the session model as the argument of the endpoint's send_input *)
Definition round_inputs (m : list (Z * pinput)) : list (Z * (Z * Z)) :=
  map (fun hp => (fst hp, (pi_frame (snd hp), pi_val (snd hp)))) m.

Lemma alookup_round : forall m h, Endpoint.alookup h (round_inputs m) =
  match assoc_get m h with Some pi => Some (pi_frame pi, pi_val pi) | None => None end.
Proof.
  induction m as [|[k pi] m IH]; intros h; cbn [round_inputs map Endpoint.alookup assoc_get fst snd]; [reflexivity|].
  rewrite Z.eqb_sym. destruct (k =? h); [reflexivity|]. apply IH.
Qed.

Definition urange (np : Z) : list Z := map Z.of_nat (seq 0 (Z.to_nat np)).
(* the players a round mentions, in handle order: the receiving endpoint's player handles *)
Definition present (np : Z) (inputs : list (Z * (Z * Z))) : list Z :=
  filter (fun h => match Endpoint.alookup h inputs with Some _ => true | None => false end) (urange np).
Definition value_of (inputs : list (Z * (Z * Z))) (h : Z) : Z :=
  match Endpoint.alookup h inputs with Some (_, v) => v | None => 0 end.

Lemma sent_values_present : forall l inputs,
  EndpointEvents.sent_values l inputs =
  map (value_of inputs) (filter (fun h => match Endpoint.alookup h inputs with Some _ => true | None => false end) l).
Proof.
  induction l as [|h l IH]; intros inputs; cbn [EndpointEvents.sent_values flat_map filter map]; [reflexivity|].
  fold (EndpointEvents.sent_values l inputs). rewrite IH. unfold value_of at 1.
  destruct (Endpoint.alookup h inputs) as [[f v]|] eqn:E; cbn [app map]; [unfold value_of at 1; rewrite E|]; reflexivity.
Qed.

(* send_input insists on one frame number for the whole round *)
Lemma from_inputs_go_frames : forall l inputs frame acc k b,
  Endpoint.from_inputs_go l inputs frame acc = Ok (k, b) ->
  (frame = NULL \/ frame = k) /\
  forall h fh v, In h l -> Endpoint.alookup h inputs = Some (fh, v) -> fh = NULL \/ fh = k.
Proof.
  induction l as [|h0 l IH]; intros inputs frame acc k b H; cbn [Endpoint.from_inputs_go] in H.
  - inversion H; subst. split; [right; reflexivity|intros h fh v []].
  - destruct (Endpoint.alookup h0 inputs) as [[f0 v0]|] eqn:E.
    + destruct ((frame =? NULL) || (f0 =? NULL) || (frame =? f0)) eqn:C; [|discriminate].
      destruct (IH _ _ _ _ _ H) as (A & B).
      assert (Hc : frame = NULL \/ f0 = NULL \/ frame = f0) by lia.
      revert A B. destruct (Z.eqb_spec f0 NULL) as [E0|E0]; intros A B.
      * split; [exact A|]. intros h fh v [<-|Hin] Hl.
        -- rewrite E in Hl. inversion Hl; subst fh v. left. exact E0.
        -- exact (B h fh v Hin Hl).
      * split; [destruct A as [A|A]; [congruence|]; destruct Hc as [X|[X|X]]; [left; exact X|congruence|right; congruence]|].
        intros h fh v [<-|Hin] Hl.
        -- rewrite E in Hl. inversion Hl; subst fh v. exact A.
        -- exact (B h fh v Hin Hl).
    + destruct (IH _ _ _ _ _ H) as (A & B). split; [exact A|].
      intros h fh v [<-|Hin] Hl; [congruence|exact (B h fh v Hin Hl)].
Qed.

Section Glue.
Variable np : Z.              (* players of the session *)
Variable hs : list Z.         (* the receiving endpoint's player handles = the sender's local players, ascending *)

(* (GA) the sending endpoint was handed the sending session's rounds *)
Definition sender_fed (outsA : list (pout * apires)) (sent : list Endpoint.ibytes) : Prop :=
  forall k b, In (k, b) sent -> exists m, In m (all_sends outsA) /\ Endpoint.from_inputs np (round_inputs m) = Ok (k, b).
(* (GB) the receiving session's remote-input operations are Input events the receiving endpoint handed out *)
Definition receiver_reads (sent : list Endpoint.ibytes) (opsB : list sop) (h : Z) : Prop :=
  forall f v, In (SRemote h f v) opsB -> EndpointEvents.ev_justified (length hs) hs sent (Endpoint.EvInput f v h).
(* every round names exactly the receiver's handles, with a real frame number and u32 values *)
Definition rounds_shaped (outsA : list (pout * apires)) : Prop :=
  forall m, In m (all_sends outsA) -> present np (round_inputs m) = hs /\
    Forall (fun hp => pi_frame (snd hp) <> NULL /\ 0 <= pi_val (snd hp) < 4294967296) m.

Theorem link_contract_from_endpoints : forall outsA sent opsB h,
  hs <> [] -> sender_fed outsA sent -> rounds_shaped outsA -> receiver_reads sent opsB h ->
  delivered_was_sent h outsA opsB.
Proof.
  intros outsA sent opsB h Hne HA HS HB f v Hin.
  destruct (HB f v Hin) as (b & vals & a & Hsent & Hdec & Hv & Hh).
  destruct (HA f b Hsent) as (m & Hm & Hfrom). exists m. split; [exact Hm|].
  destruct (HS m Hm) as (Hpres & Hshape).
  set (inputs := round_inputs m) in *.
  assert (Hvs : EndpointEvents.sent_values (urange np) inputs = map (value_of inputs) hs).
  { rewrite sent_values_present. fold (present np inputs). rewrite Hpres. reflexivity. }
  (* what the receiver decodes is what the round carries *)
  pose proof (EndpointEvents.to_player_inputs_from_inputs np inputs f b Hfrom) as Hrt. cbv zeta in Hrt.
  fold (urange np) in Hrt. rewrite Hvs in Hrt.
  assert (Hu : Forall (fun v0 => 0 <= v0 < 4294967296) (map (value_of inputs) hs)).
  { apply Forall_forall. intros x Hx. apply in_map_iff in Hx. destruct Hx as (h0 & <- & _). unfold value_of, inputs.
    rewrite alookup_round. destruct (assoc_get m h0) as [pi|] eqn:Eg; [|lia].
    rewrite Forall_forall in Hshape.
    assert (Hin0 : In (h0, pi) m).
    { clear - Eg. induction m as [|[k p] m IH]; cbn [assoc_get] in Eg; [discriminate|].
      destruct (Z.eqb_spec k h0) as [->|]; [injection Eg as ->; left; reflexivity|right; apply IH; exact Eg]. }
    exact (proj2 (Hshape _ Hin0)). }
  specialize (Hrt ltac:(destruct hs; [congruence|discriminate]) Hu). rewrite map_length in Hrt.
  rewrite Hrt in Hdec. injection Hdec as <-.
  (* the a-th value belongs to the a-th handle, which is h *)
  rewrite nth_error_map, Hh in Hv. cbn [option_map] in Hv. injection Hv as Hv. unfold value_of, inputs in Hv.
  assert (Hhin : In h (present np inputs)) by (rewrite Hpres; exact (nth_error_In _ _ Hh)).
  unfold present in Hhin. apply filter_In in Hhin. destruct Hhin as (Hrange & Hsome). unfold inputs in Hsome.
  rewrite alookup_round in Hv, Hsome. destruct (assoc_get m h) as [pi|] eqn:Eg; [|discriminate].
  (* and its frame is the frame of the round *)
  unfold Endpoint.from_inputs in Hfrom. destruct (from_inputs_go_frames _ _ _ _ _ _ Hfrom) as (_ & Hfr).
  assert (Hl : Endpoint.alookup h inputs = Some (pi_frame pi, pi_val pi)) by (unfold inputs; rewrite alookup_round, Eg; reflexivity).
  destruct (Hfr h _ _ Hrange Hl) as [X|X].
  - exfalso. rewrite Forall_forall in Hshape.
    assert (Hin0 : In (h, pi) m).
    { clear - Eg. induction m as [|[k p] m IH]; cbn [assoc_get] in Eg; [discriminate|].
      destruct (Z.eqb_spec k h) as [->|]; [injection Eg as ->; left; reflexivity|right; apply IH; exact Eg]. }
    exact (proj1 (Hshape _ Hin0) X).
  - destruct pi as [pf pv]. cbn [pi_frame pi_val] in *. subst. reflexivity.
Qed.

(* two peers through their endpoints: the agreement theorem of SessionSystem.v with the link contract replaced by the
   two glue identities and the endpoint-level justification of the receiver's events *)
Theorem two_peers_agree_through_endpoints :
  forall (predict : Z -> Z), (forall x, predict (predict x) = predict x) -> predict 0 = 0 ->
  forall (sparseA sparseB : bool) (opsA opsB : list sop) (wA wB dA dB : Z) (kindsA kindsB : list pkind)
         (epsA epsB : list (list Z)) (nspecA nspecB : nat) (pA pB : p2p) (outsA outsB : list (pout * apires))
         (sent : list Endpoint.ibytes),
  mode_ok sparseA wA dA -> 0 <= dA -> mode_ok sparseB wB dB -> 0 <= dB ->
  0 < np -> Z.of_nat (length kindsA) = np -> Z.of_nat (length kindsB) = np -> players_only kindsA -> players_only kindsB ->
  srun_in predict (session_start np wA sparseA dA kindsA epsA nspecA) opsA = Ok (pA, outsA) ->
  srun_in predict (session_start np wB sparseB dB kindsB epsB nspecB) opsB = Ok (pB, outsB) ->
  hs <> [] -> sender_fed outsA sent -> rounds_shaped outsA ->
  exists gA gB, exec_outs wA (game0 wA) outsA = Some gA /\ exec_outs wB (game0 wB) outsB = Some gB /\
    forall h e, 0 <= h -> nth_error kindsA (Z.to_nat h) = Some KLocal -> nth_error kindsB (Z.to_nat h) = Some (KRemote e) ->
      receiver_reads sent opsB h ->
      forall f, 0 <= f <= s_last_confirmed (ps_sync pA) -> f < s_current (ps_sync pA) ->
                0 <= f <= s_last_confirmed (ps_sync pB) -> f < s_current (ps_sync pB) ->
        gvalL (g_hist gA) f (Z.to_nat h) = gvalL (g_hist gB) f (Z.to_nat h).
Proof.
  intros predict Hi Hz sparseA sparseB opsA opsB wA wB dA dB kindsA kindsB epsA epsB nspecA nspecB pA pB outsA outsB sent
         HmA HdA HmB HdB Hn HlA HlB HpA HpB HA HB Hne HGA HSh.
  destruct (two_sessions_agree predict Hi Hz sparseA sparseB opsA opsB np wA wB dA dB kindsA kindsB epsA epsB nspecA nspecB
              pA pB outsA outsB HmA HdA HmB HdB Hn HlA HlB HpA HpB HA HB) as (gA & gB & ExA & ExB & Hag).
  exists gA, gB. split; [exact ExA|]. split; [exact ExB|].
  intros h e Hh HlocA HremB HGB. apply (Hag h e Hh HlocA HremB).
  exact (link_contract_from_endpoints outsA sent opsB h Hne HGA HSh HGB).
Qed.

End Glue.
