(* Endpoint-level safety lemmas for C08 (malformed / foreign packets are dropped), C07 (timer half:
   the silence lemma) and C18 (endpoint half: buffer sizes), all about the model Endpoint.v of
   src/network/protocol.rs, current code.  Every top-level name is prefixed [eps_].
   Statements are collected in props/C08.v, props/C07.v, props/C18.v. *)
From Coq Require Import ZArith List Bool Lia.
From Coq Require Import ZifyBool ZifyNat ZifyN.
From GGRS Require Import Base Consts TimeSync Codec CodecProofs Endpoint EndpointSpec EndpointProofs.
Open Scope Z_scope.

Lemma eps_cap_ok : (MAX_DECODED_LEN < 2^61)%N.
Proof. vm_compute. reflexivity. Qed.

(* ====================================================================================== *)
(* C08: handler frame conditions, for EVERY endpoint state                                 *)
(* ====================================================================================== *)

(* what handle_message does to an accepted packet before it looks at the body:
   last_recv_time := now, and the NetworkResumed bookkeeping *)
Definition eps_touch (now : Z) (s : ep) : ep :=
  let s1 := set_last_recv_time now s in
  if u_notify_sent s1 && pstate_eqb (u_state s1) PRunning && negb (u_event_sent s1)
  then push_event EvNetworkResumed (set_notify_sent false s1) else s1.

Lemma eps_handle_unfold : forall dbg now nonce m s,
  handle_message dbg now nonce m s =
  if negb (passes_filters s m) then Ok s
  else
    let s2 := eps_touch now s in
    match m_body m with
    | SyncRequest n => Ok (queue_message now (SyncReply n) s2)
    | SyncReply n => on_sync_reply dbg now nonce (m_magic m) n s2
    | Input st dr sf af bytes => on_input dbg now st dr sf af bytes s2
    | InputAck f => Ok (pop_pending_output f s2)
    | QualityReport adv ping => Ok (queue_message now (QualityReply ping) (set_remote_adv adv s2))
    | QualityReply pong => Ok (set_rtt (ts_round_trip_time now pong) s2)
    | ChecksumReport c f => on_checksum_report dbg c f s2
    | KeepAlive => Ok s2
    end.
Proof. reflexivity. Qed.

(* every field of [eps_touch now s] but three is the field of [s] *)
Definition eps_only_touched (now : Z) (s s' : ep) : Prop :=
  u_num_players s' = u_num_players s /\ u_handles s' = u_handles s /\
  u_send_queue s' = u_send_queue s /\ u_state s' = u_state s /\
  u_sync_remaining s' = u_sync_remaining s /\ u_sync_requests s' = u_sync_requests s /\
  u_last_quality_report s' = u_last_quality_report s /\ u_last_input_recv s' = u_last_input_recv s /\
  u_event_sent s' = u_event_sent s /\ u_timeout s' = u_timeout s /\ u_notify_start s' = u_notify_start s /\
  u_shutdown_timeout s' = u_shutdown_timeout s /\ u_fps s' = u_fps s /\ u_magic s' = u_magic s /\
  u_remote_magic s' = u_remote_magic s /\ u_peer_status s' = u_peer_status s /\
  u_pending_output s' = u_pending_output s /\ u_last_acked s' = u_last_acked s /\
  u_max_prediction s' = u_max_prediction s /\ u_recv_inputs s' = u_recv_inputs s /\
  u_time_sync s' = u_time_sync s /\ u_local_adv s' = u_local_adv s /\ u_remote_adv s' = u_remote_adv s /\
  u_stats_start s' = u_stats_start s /\ u_rtt s' = u_rtt s /\ u_last_send_time s' = u_last_send_time s /\
  u_last_sync_request_time s' = u_last_sync_request_time s /\
  u_pending_checksums s' = u_pending_checksums s /\ u_desync s' = u_desync s /\
  (* the three fields that may change *)
  u_last_recv_time s' = now /\
  u_notify_sent s' = (if resumed_cond s then false else u_notify_sent s) /\
  u_event_queue s' = u_event_queue s ++ resumed_pre s.

Lemma eps_touch_fields : forall now s, eps_only_touched now s (eps_touch now s).
Proof.
  intros now s. unfold eps_only_touched, eps_touch, resumed_pre, resumed_cond. cbv zeta. fsimpl.
  destruct (u_notify_sent s && pstate_eqb (u_state s) PRunning && negb (u_event_sent s)) eqn:E; fsimpl;
    rewrite ?app_nil_r; repeat split.
Qed.

Lemma eps_last_recv_frame_ext : forall s s', u_recv_inputs s' = u_recv_inputs s -> last_recv_frame s' = last_recv_frame s.
Proof. intros s s' H. unfold last_recv_frame. rewrite H. reflexivity. Qed.

(* (a) another session's magic, once the peer's magic is known *)
Lemma eps_foreign_magic_dropped : forall dbg now nonce m s,
  u_remote_magic s <> 0 -> m_magic m <> u_remote_magic s ->
  handle_message dbg now nonce m s = Ok s /\ step dbg (OMessage now nonce m) s = Ok (s, []).
Proof.
  intros dbg now nonce m s H0 Hm.
  assert (E : handle_message dbg now nonce m s = Ok s).
  { rewrite eps_handle_unfold. unfold passes_filters.
    assert ((u_remote_magic s =? 0) = false) as -> by lia.
    assert ((m_magic m =? u_remote_magic s) = false) as -> by lia.
    cbn [negb andb]. rewrite andb_false_r. reflexivity. }
  split; [exact E|]. unfold step. cbn [step_gen]. fold_ops E.
  change (handle_message_gen current_code) with handle_message. rewrite E. reflexivity.
Qed.

(* (b) anything but the handshake before the handshake has completed (376da1c) *)
Lemma eps_prehandshake_dropped : forall dbg now nonce m s,
  u_state s = PInitializing \/ u_state s = PSynchronizing -> is_handshake (m_body m) = false ->
  handle_message dbg now nonce m s = Ok s /\ step dbg (OMessage now nonce m) s = Ok (s, []).
Proof.
  intros dbg now nonce m s Hs Hh.
  assert (E : handle_message dbg now nonce m s = Ok s).
  { rewrite eps_handle_unfold. unfold passes_filters. rewrite Hh.
    destruct Hs as [-> | ->]; cbn [pstate_eqb negb andb orb]; rewrite ?andb_false_r; reflexivity. }
  split; [exact E|]. unfold step. cbn [step_gen].
  change (handle_message_gen current_code) with handle_message. rewrite E. reflexivity.
Qed.

(* a shut-down endpoint handles nothing *)
Lemma eps_shutdown_dropped : forall dbg now nonce m s,
  u_state s = PShutdown -> handle_message dbg now nonce m s = Ok s.
Proof.
  intros dbg now nonce m s Hs. rewrite eps_handle_unfold. unfold passes_filters. rewrite Hs. reflexivity.
Qed.

(* (c) wrong number of connection statuses (without a disconnect request) or negative start frame *)
Lemma eps_bad_header_dropped : forall dbg now nonce m st dr sf af bytes s,
  m_body m = Input st dr sf af bytes ->
  (dr = false /\ Z.of_nat (length st) <> u_num_players s) \/ sf < 0 ->
  handle_message dbg now nonce m s = Ok (if passes_filters s m then eps_touch now s else s).
Proof.
  intros dbg now nonce m st dr sf af bytes s Hb Hbad. rewrite eps_handle_unfold, Hb.
  destruct (passes_filters s m); cbn [negb]; [|reflexivity]. cbv zeta.
  pose proof (eps_touch_fields now s) as F. unfold eps_only_touched in F.
  destruct F as (F1 & _). unfold on_input. rewrite F1.
  destruct Hbad as [[-> Hl]|Hs].
  - assert ((Z.of_nat (length st) =? u_num_players s) = false) as -> by lia. reflexivity.
  - destruct (negb dr && negb (Z.of_nat (length st) =? u_num_players s)); [reflexivity|].
    assert ((sf <? 0) = true) as -> by lia. reflexivity.
Qed.

(* ====================================================================================== *)
(* association lists (HashMap<Frame, _>) and last_recv_frame                               *)
(* ====================================================================================== *)
Definition eps_keys {A : Type} (l : list (Z * A)) : list Z := map fst l.

(* last_recv_frame as a function of recv_inputs *)
Definition eps_lrf (ri : list ibytes) : Z :=
  match ri with [] => NULL | (k, _) :: r => fold_left Z.max (map fst r) k end.

Lemma eps_lrf_eq : forall s, last_recv_frame s = eps_lrf (u_recv_inputs s).
Proof. reflexivity. Qed.

Lemma eps_fold_max_spec : forall l k,
  (fold_left Z.max l k = k \/ In (fold_left Z.max l k) l) /\
  k <= fold_left Z.max l k /\ Forall (fun y => y <= fold_left Z.max l k) l.
Proof.
  induction l as [|x l IH]; intro k; cbn [fold_left].
  - split; [left; reflexivity|]. split; [lia|constructor].
  - destruct (IH (Z.max k x)) as (A & B & C). split; [|split].
    + destruct A as [A|A]; [|right; right; exact A].
      rewrite A. destruct (Z.max_spec k x) as [[_ E]|[_ E]]; rewrite E; [right; left; reflexivity|left; reflexivity].
    + lia.
    + constructor; [lia|exact C].
Qed.

(* the largest key *)
Definition eps_is_max (x : Z) (l : list Z) : Prop := In x l /\ Forall (fun y => y <= x) l.

Lemma eps_is_max_unique : forall x y l, eps_is_max x l -> eps_is_max y l -> x = y.
Proof.
  intros x y l (A & B) (C & D). rewrite Forall_forall in B, D. specialize (B y C). specialize (D x A). lia.
Qed.

Lemma eps_lrf_is_max : forall ri, ri <> [] -> eps_is_max (eps_lrf ri) (eps_keys ri).
Proof.
  intros [|[k v] r] H; [congruence|]. unfold eps_lrf, eps_keys. cbn [map fst].
  destruct (eps_fold_max_spec (map fst r) k) as (A & B & C). split.
  - destruct A as [A|A]; [left; symmetry; exact A|right; exact A].
  - constructor; assumption.
Qed.

Lemma eps_alookup_in : forall {A : Type} k (v : A) l, alookup k l = Some v -> In (k, v) l.
Proof.
  induction l as [|[k' v'] l IH]; cbn [alookup]; intro H; [discriminate|].
  destruct (k =? k') eqn:E.
  - apply Z.eqb_eq in E. inversion H; subst. left. reflexivity.
  - right. auto.
Qed.

Lemma eps_alookup_none : forall {A : Type} k (l : list (Z * A)), alookup k l = None <-> ~ In k (eps_keys l).
Proof.
  induction l as [|[k' v'] l IH]; cbn [alookup eps_keys map fst In].
  - split; [intros _ []|reflexivity].
  - destruct (k =? k') eqn:E.
    + apply Z.eqb_eq in E. subst. split; [discriminate|intro H; exfalso; apply H; left; reflexivity].
    + apply Z.eqb_neq in E. rewrite IH. unfold eps_keys. split; [intros H [X|X]; [congruence|auto]|intros H X; apply H; right; exact X].
Qed.

Lemma eps_alookup_nodup : forall {A : Type} k (v : A) l,
  NoDup (eps_keys l) -> In (k, v) l -> alookup k l = Some v.
Proof.
  induction l as [|[k' v'] l IH]; cbn [alookup eps_keys map fst]; intros Hn Hi; [destruct Hi|].
  inversion Hn as [|? ? Hk Hn']; subst. destruct Hi as [Hi|Hi].
  - inversion Hi; subst. rewrite Z.eqb_refl. reflexivity.
  - destruct (k =? k') eqn:E; [|auto].
    apply Z.eqb_eq in E. subst. exfalso. apply Hk. change k' with (fst (k', v)). apply in_map. exact Hi.
Qed.

Lemma eps_in_aremove : forall {A : Type} k k' (v : A) l, In (k, v) (aremove k' l) <-> In (k, v) l /\ k <> k'.
Proof.
  intros. unfold aremove. rewrite filter_In. cbn [fst]. split; intros [X Y]; split; try assumption; lia.
Qed.

Lemma eps_keys_aremove : forall {A : Type} k k' (l : list (Z * A)),
  In k (eps_keys (aremove k' l)) <-> In k (eps_keys l) /\ k <> k'.
Proof.
  intros. unfold eps_keys. rewrite !in_map_iff. split.
  - intros ([a b] & E & H). cbn in E. subst a. apply eps_in_aremove in H. destruct H as [H1 H2].
    split; [exists (k, b); auto|exact H2].
  - intros (([a b] & E & H) & N). cbn in E. subst a. exists (k, b). split; [reflexivity|]. apply eps_in_aremove. auto.
Qed.

Lemma eps_nodup_filter_keys : forall {A : Type} (f : Z * A -> bool) l,
  NoDup (eps_keys l) -> NoDup (eps_keys (filter f l)).
Proof.
  induction l as [|x l IH]; cbn [filter eps_keys map]; intro H; [constructor|].
  inversion H as [|? ? Hk Hn]; subst. destruct (f x); [|apply IH; exact Hn].
  cbn [eps_keys map]. constructor; [|apply IH; exact Hn].
  intro X. apply Hk. unfold eps_keys in X. apply in_map_iff in X. destruct X as (y & E & Hy).
  apply filter_In in Hy. rewrite <- E. apply in_map. tauto.
Qed.

Lemma eps_nodup_ainsert : forall {A : Type} k (v : A) l, NoDup (eps_keys l) -> NoDup (eps_keys (ainsert k v l)).
Proof.
  intros A k v l H. unfold ainsert. cbn [eps_keys map fst]. constructor.
  - intro X. apply (eps_keys_aremove k k l) in X. tauto.
  - apply eps_nodup_filter_keys. exact H.
Qed.

Lemma eps_keys_ainsert : forall {A : Type} k k' (v : A) l,
  In k (eps_keys (ainsert k' v l)) <-> k = k' \/ In k (eps_keys l).
Proof.
  intros. unfold ainsert. cbn [eps_keys map fst In]. fold (eps_keys (aremove k' l)). rewrite eps_keys_aremove.
  destruct (Z.eq_dec k k'); split; intro H; try tauto; intuition congruence.
Qed.

Lemma eps_in_ainsert : forall {A : Type} k k' (v v' : A) l,
  In (k, v) (ainsert k' v' l) -> (k = k' /\ v = v') \/ In (k, v) l.
Proof.
  intros A k k' v v' l [H|H]; [inversion H; auto|]. apply eps_in_aremove in H. tauto.
Qed.

Lemma eps_alookup_ainsert : forall {A : Type} k k' (v : A) l,
  alookup k (ainsert k' v l) = if k =? k' then Some v else alookup k l.
Proof.
  intros. unfold ainsert. cbn [alookup]. destruct (k =? k') eqn:E; [reflexivity|].
  unfold aremove. induction l as [|[a b] l IH]; cbn [filter alookup fst]; [reflexivity|].
  destruct (a =? k') eqn:E2; cbn [negb alookup].
  - apply Z.eqb_eq in E2. subst a. rewrite E. exact IH.
  - rewrite IH. reflexivity.
Qed.

Lemma eps_alookup_retain : forall {A : Type} k lo (l : list (Z * A)),
  alookup k (aretain_ge lo l) = if lo <=? k then alookup k l else None.
Proof.
  intros. unfold aretain_ge. induction l as [|[a b] l IH]; cbn [filter alookup fst].
  - destruct (lo <=? k); reflexivity.
  - destruct (lo <=? a) eqn:E1; cbn [alookup]; destruct (k =? a) eqn:E2; try exact IH.
    + apply Z.eqb_eq in E2. subst a. rewrite E1. reflexivity.
    + apply Z.eqb_eq in E2. subst a. rewrite E1 in IH. rewrite E1. exact IH.
Qed.

Lemma eps_keys_retain : forall {A : Type} k lo (l : list (Z * A)),
  In k (eps_keys (aretain_ge lo l)) <-> In k (eps_keys l) /\ lo <= k.
Proof.
  intros. unfold eps_keys, aretain_ge. rewrite !in_map_iff. split.
  - intros ([a b] & E & H). cbn in E. subst a. apply filter_In in H. cbn [fst] in H. destruct H as [H1 H2].
    split; [exists (k, b); auto|lia].
  - intros (([a b] & E & H) & N). cbn in E. subst a. exists (k, b). split; [reflexivity|].
    apply filter_In. cbn [fst]. split; [exact H|lia].
Qed.

Lemma eps_lrf_ainsert_new : forall k v ri, eps_lrf ri < k -> eps_lrf (ainsert k v ri) = k.
Proof.
  intros k v ri H.
  assert (M : eps_is_max k (eps_keys (ainsert k v ri))).
  { split; [apply eps_keys_ainsert; left; reflexivity|].
    apply Forall_forall. intros y Hy. apply eps_keys_ainsert in Hy. destruct Hy as [->|Hy]; [lia|].
    destruct ri as [|x r]; [destruct Hy|].
    destruct (eps_lrf_is_max (x :: r) ltac:(discriminate)) as (_ & F). rewrite Forall_forall in F.
    specialize (F y Hy). lia. }
  eapply eps_is_max_unique; [|exact M]. apply eps_lrf_is_max. discriminate.
Qed.

Lemma eps_lrf_retain : forall lo ri, ri <> [] -> lo <= eps_lrf ri ->
  aretain_ge lo ri <> [] /\ eps_lrf (aretain_ge lo ri) = eps_lrf ri.
Proof.
  intros lo ri Hne Hlo. destruct (eps_lrf_is_max ri Hne) as (A & B).
  assert (In (eps_lrf ri) (eps_keys (aretain_ge lo ri))) as Hin by (apply eps_keys_retain; auto).
  assert (aretain_ge lo ri <> []) as Hne' by (intro E; rewrite E in Hin; destruct Hin).
  split; [exact Hne'|].
  eapply eps_is_max_unique; [apply eps_lrf_is_max; exact Hne'|]. split; [exact Hin|].
  apply Forall_forall. intros y Hy. apply eps_keys_retain in Hy. rewrite Forall_forall in B. apply B. tauto.
Qed.

(* pigeonhole: distinct integers of an interval *)
Lemma eps_nodup_range_length : forall (l : list Z) a b,
  NoDup l -> (forall x, In x l -> a <= x <= b) -> Z.of_nat (length l) <= Z.max 0 (b - a + 1).
Proof.
  intros l a b Hn Hr.
  set (l' := map (fun i => a + Z.of_nat i) (seq 0 (Z.to_nat (b - a + 1)))).
  assert (Hincl : incl l l').
  { intros x Hx. specialize (Hr x Hx). unfold l'. apply in_map_iff. exists (Z.to_nat (x - a)). split; [lia|].
    apply in_seq. lia. }
  pose proof (NoDup_incl_length Hn Hincl) as Hl. unfold l' in Hl. rewrite map_length, seq_length in Hl. lia.
Qed.

Lemma eps_keys_length : forall {A : Type} (l : list (Z * A)), length (eps_keys l) = length l.
Proof. intros. unfold eps_keys. apply map_length. Qed.

Lemma eps_filter_length : forall {A : Type} (f : A -> bool) l, (length (filter f l) <= length l)%nat.
Proof. induction l as [|x l IH]; cbn [filter length]; [lia|]. destruct (f x); cbn [length]; lia. Qed.

Lemma eps_aremove_length : forall {A : Type} k (l : list (Z * A)), (length (aremove k l) <= length l)%nat.
Proof. intros. unfold aremove. apply eps_filter_length. Qed.

(* ====================================================================================== *)
(* on_input in pieces                                                                      *)
(* ====================================================================================== *)
(* every field but recv_inputs and event_queue *)
Definition eps_others (s : ep) :=
  (u_num_players s, u_handles s, u_send_queue s, u_state s, u_sync_remaining s, u_sync_requests s,
   u_last_quality_report s, u_last_input_recv s, u_notify_sent s, u_event_sent s, u_timeout s,
   u_notify_start s, u_shutdown_timeout s, u_fps s, u_magic s, u_remote_magic s, u_peer_status s,
   u_pending_output s, u_last_acked s, u_max_prediction s, u_time_sync s, u_local_adv s, u_remote_adv s,
   u_stats_start s, u_rtt s, u_last_send_time s, u_last_sync_request_time s, u_last_recv_time s,
   u_pending_checksums s, u_desync s).

Ltac eps_others_inj H :=
  unfold eps_others in H;
  injection H as ?O1 ?O2 ?O3 ?O4 ?O5 ?O6 ?O7 ?O8 ?O9 ?O10 ?O11 ?O12 ?O13 ?O14 ?O15 ?O16 ?O17 ?O18 ?O19 ?O20
                 ?O21 ?O22 ?O23 ?O24 ?O25 ?O26 ?O27 ?O28 ?O29 ?O30.

(* the part of on_input between the two header checks and the lookup of the reference frame:
   pop_pending_output(ack_frame), then the disconnect request or the status merge *)
Definition eps_header (st : list status) (dr : bool) (af : Z) (t : ep) : res ep :=
  let s1 := pop_pending_output af t in
  if dr then
    Ok (if negb (pstate_eqb (u_state s1) PDisconnected) && negb (u_event_sent s1)
        then set_event_sent true (push_event EvDisconnected s1) else s1)
  else
    match merge_status (u_peer_status s1) st with
    | Ok ps => Ok (set_peer_status ps s1)
    | Err => Err
    | Panic => Panic
    end.

(* the rest of on_input *)
Definition eps_body (dbg : bool) (now sf : Z) (bytes : list N) (s2 : ep) : res ep :=
  let decode_frame := if last_recv_frame s2 =? NULL then NULL else sf - 1 in
  match alookup decode_frame (u_recv_inputs s2) with
  | Some ref =>
    let s3 := set_last_input_recv now s2 in
    match Codec.decode dbg ref bytes with
    | Ok inputs =>
      match accept_inputs dbg sf 0 inputs s3 with
      | Ok (true, s4) =>
        let s5 := send_input_ack now s4 in
        let lrf := last_recv_frame s5 in
        match ts_i32_arith dbg (2 * ts_wrap_i32 (u_max_prediction s5)) with
        | Ok w =>
          match ts_i32_arith dbg (lrf - w) with
          | Ok lo => Ok (set_recv_inputs (aretain_ge (Z.min lo (sf - 1)) (u_recv_inputs s5)) s5)
          | Err => Err
          | Panic => Panic
          end
        | Err => Err
        | Panic => Panic
        end
      | Ok (false, s4) => Ok s4
      | Err => Err
      | Panic => Panic
      end
    | Err => Ok s3
    | Panic => Panic
    end
  | None =>
    if sf <=? last_recv_frame s2 then Ok (send_input_ack now s2) else Ok s2
  end.

Lemma eps_on_input_unfold : forall dbg now st dr sf af bytes t,
  on_input dbg now st dr sf af bytes t =
  if negb dr && negb (Z.of_nat (length st) =? u_num_players t) then Ok t
  else if sf <? 0 then Ok t
  else match eps_header st dr af t with
       | Ok s2 => eps_body dbg now sf bytes s2
       | Err => Err
       | Panic => Panic
       end.
Proof. reflexivity. Qed.

(* ---------- merge_status ---------- *)
Lemma eps_merge_status_ok : forall mine theirs, (length mine <= length theirs)%nat ->
  exists r, merge_status mine theirs = Ok r /\ length r = length mine.
Proof.
  induction mine as [|[d f] ms IH]; intros theirs H; cbn [merge_status].
  - exists []. auto.
  - destruct theirs as [|[d' f'] ts]; [cbn in H; lia|].
    destruct (IH ts) as (r & E & L); [cbn in H; lia|]. rewrite E. eexists. split; [reflexivity|]. cbn. lia.
Qed.

Lemma eps_merge_status_length : forall mine theirs r, merge_status mine theirs = Ok r -> length r = length mine.
Proof.
  induction mine as [|[d f] ms IH]; intros theirs r H; cbn [merge_status] in H.
  - inversion H. reflexivity.
  - destruct theirs as [|[d' f'] ts]; [discriminate|].
    destruct (merge_status ms ts) as [r'| |] eqn:E; try discriminate. inversion H; subst. cbn. f_equal. eauto.
Qed.

(* the reachable-state fact the status merge needs *)
Definition eps_wf (s : ep) : Prop := length (u_peer_status s) = Z.to_nat (u_num_players s).

(* what the header part does, field by field *)
Definition eps_header_effect (st : list status) (dr : bool) (af : Z) (t s2 : ep) : Prop :=
  u_recv_inputs s2 = u_recv_inputs t /\ u_send_queue s2 = u_send_queue t /\ u_state s2 = u_state t /\
  u_sync_remaining s2 = u_sync_remaining t /\ u_sync_requests s2 = u_sync_requests t /\
  u_remote_magic s2 = u_remote_magic t /\ u_magic s2 = u_magic t /\
  u_num_players s2 = u_num_players t /\ u_handles s2 = u_handles t /\ u_max_prediction s2 = u_max_prediction t /\
  u_desync s2 = u_desync t /\ u_pending_checksums s2 = u_pending_checksums t /\
  u_last_recv_time s2 = u_last_recv_time t /\ u_last_input_recv s2 = u_last_input_recv t /\
  u_notify_sent s2 = u_notify_sent t /\ u_timeout s2 = u_timeout t /\ u_notify_start s2 = u_notify_start t /\
  u_last_send_time s2 = u_last_send_time t /\ u_last_quality_report s2 = u_last_quality_report t /\
  u_last_sync_request_time s2 = u_last_sync_request_time t /\ u_shutdown_timeout s2 = u_shutdown_timeout t /\
  u_time_sync s2 = u_time_sync t /\ u_local_adv s2 = u_local_adv t /\ u_remote_adv s2 = u_remote_adv t /\
  u_rtt s2 = u_rtt t /\ u_stats_start s2 = u_stats_start t /\ u_fps s2 = u_fps t /\
  (* pop_pending_output(ack_frame) *)
  (u_pending_output s2, u_last_acked s2) = pop_pending af (u_pending_output t) (u_last_acked t) /\
  (* the status merge / the disconnect request *)
  (if dr then u_peer_status s2 = u_peer_status t
   else merge_status (u_peer_status t) st = Ok (u_peer_status s2)) /\
  u_event_sent s2 = u_event_sent t || (dr && negb (pstate_eqb (u_state t) PDisconnected)) /\
  u_event_queue s2 = u_event_queue t ++
    (if dr && negb (pstate_eqb (u_state t) PDisconnected) && negb (u_event_sent t) then [EvDisconnected] else []).

Lemma eps_header_spec : forall st dr af t s2,
  eps_header st dr af t = Ok s2 -> eps_header_effect st dr af t s2.
Proof.
  intros st dr af t s2 H. unfold eps_header in H. cbv zeta in H. unfold pop_pending_output in H.
  unfold eps_header_effect.
  destruct (pop_pending af (u_pending_output t) (u_last_acked t)) as [po la] eqn:Ep.
  destruct dr.
  - fsimpl. destruct (pstate_eqb (u_state t) PDisconnected) eqn:Es; destruct (u_event_sent t) eqn:Ee;
      cbn [negb andb orb] in *; inversion H; subst; fsimpl; rewrite ?app_nil_r, ?Ee; repeat split.
  - fsimpl. destruct (merge_status (u_peer_status t) st) as [ps| |] eqn:Em; inversion H; subst; fsimpl.
    cbn [andb]. rewrite app_nil_r, orb_false_r. repeat split.
Qed.

Lemma eps_header_ok : forall st dr af t,
  eps_wf t -> dr = true \/ Z.of_nat (length st) = u_num_players t -> exists s2, eps_header st dr af t = Ok s2.
Proof.
  intros st dr af t Hw Hd. unfold eps_header. cbv zeta. destruct dr; [eexists; reflexivity|].
  destruct Hd as [Hd|Hd]; [discriminate|].
  assert (Hp : u_peer_status (pop_pending_output af t) = u_peer_status t).
  { unfold pop_pending_output. destruct (pop_pending _ _ _). reflexivity. }
  rewrite Hp. destruct (eps_merge_status_ok (u_peer_status t) st) as (r & E & _).
  - unfold eps_wf in Hw. lia.
  - rewrite E. eexists. reflexivity.
Qed.

(* ---------- to_player_inputs / input_events ---------- *)
Lemma eps_player_values_length : forall n size bs vs, player_values n size bs = Some vs -> length vs = n.
Proof.
  induction n as [|n IH]; intros size bs vs H; cbn [player_values] in H.
  - inversion H. reflexivity.
  - destruct (le_value _); [|discriminate]. destruct (player_values n size _) eqn:E; [|discriminate].
    inversion H; subst. cbn. f_equal. eauto.
Qed.

Lemma eps_to_player_inputs_length : forall n bs vs, to_player_inputs n bs = Some vs -> length vs = n.
Proof.
  intros n bs vs H. unfold to_player_inputs in H. destruct n; [discriminate|].
  destruct (_ =? 0); [|discriminate]. eapply eps_player_values_length; eauto.
Qed.

Lemma eps_input_events_ok : forall f vs hs, length vs = length hs ->
  exists evs, input_events f vs hs = Ok evs /\ length evs = length vs /\
              (forall e, In e evs -> exists v h, e = EvInput f v h).
Proof.
  induction vs as [|v vs IH]; intros hs H; cbn [input_events].
  - exists []. split; [reflexivity|]. split; [reflexivity|intros e []].
  - destruct hs as [|h hs]; [discriminate|]. destruct (IH hs) as (evs & E & L & F); [cbn in H; lia|].
    rewrite E. eexists. split; [reflexivity|]. split; [cbn; lia|].
    intros e [<-|X]; [eauto|auto].
Qed.

Lemma eps_input_events_spec : forall f vs hs evs, input_events f vs hs = Ok evs ->
  length evs = length vs /\ (forall e, In e evs -> exists v h, e = EvInput f v h).
Proof.
  induction vs as [|v vs IH]; intros hs evs H; cbn [input_events] in H.
  - inversion H. split; [reflexivity|intros e []].
  - destruct hs as [|h hs]; [discriminate|]. destruct (input_events f vs hs) as [r| |] eqn:E; try discriminate.
    inversion H; subst. destruct (IH _ _ E) as (L & F). split; [cbn; lia|].
    intros e [<-|X]; [eauto|auto].
Qed.

(* ---------- the accept loop ---------- *)
Lemma eps_i32_le : forall dbg x fr, TS_I32_MIN <= x -> ts_i32_arith dbg x = Ok fr -> fr <= x /\ TS_I32_MIN <= fr <= TS_I32_MAX.
Proof.
  intros dbg x fr Hx H. unfold ts_i32_arith, ts_in_i32 in H.
  destruct ((TS_I32_MIN <=? x) && (x <=? TS_I32_MAX)) eqn:E.
  - inversion H; subst. lia.
  - destruct dbg; [discriminate|]. inversion H; subst. unfold ts_wrap_i32, TS_I32_MIN, TS_I32_MAX in *. lia.
Qed.

Lemma eps_i32_exact : forall dbg x, TS_I32_MIN <= x <= TS_I32_MAX -> ts_i32_arith dbg x = Ok x.
Proof.
  intros dbg x H. unfold ts_i32_arith, ts_in_i32.
  assert ((TS_I32_MIN <=? x) && (x <=? TS_I32_MAX) = true) as -> by lia. reflexivity.
Qed.

(* the loop never fails, and panics only on frame overflow (dev profile) *)
Lemma eps_accept_total : forall dbg start inputs i s,
  (dbg = true -> start + i + Z.of_nat (length inputs) - 1 <= TS_I32_MAX) -> TS_I32_MIN <= start + i ->
  exists b s', accept_inputs dbg start i inputs s = Ok (b, s').
Proof.
  induction inputs as [|inp rest IH]; intros i s Hov Hlo; cbn [accept_inputs]; [eauto|].
  cbn [length] in Hov.
  assert (exists fr, ts_i32_arith dbg (start + i) = Ok fr) as (fr & Ef).
  { unfold ts_i32_arith. destruct (ts_in_i32 (start + i)) eqn:E; [eauto|].
    destruct dbg; [|eauto]. unfold ts_in_i32 in E. specialize (Hov eq_refl). lia. }
  rewrite Ef.
  assert (Hrec : forall t, exists b s', accept_inputs dbg start (i + 1) rest t = Ok (b, s')).
  { intro t. apply IH; [intro D; specialize (Hov D)|]; lia. }
  destruct (fr <=? last_recv_frame s); [apply Hrec|].
  destruct (to_player_inputs (length (u_handles s)) inp) as [vals|] eqn:Et; [|eauto].
  apply eps_to_player_inputs_length in Et.
  destruct (eps_input_events_ok fr vals (u_handles s) Et) as (evs & -> & _). apply Hrec.
Qed.

(* what the loop changes: only recv_inputs and the event queue; keys are only added, every new key is
   the frame of an input of the packet, above the old last_recv_frame; every new event is an Input
   event for a new key *)
Lemma eps_accept_spec : forall dbg start inputs i s b s',
  accept_inputs dbg start i inputs s = Ok (b, s') -> TS_I32_MIN <= start + i ->
  eps_others s' = eps_others s /\
  (NoDup (eps_keys (u_recv_inputs s)) -> NoDup (eps_keys (u_recv_inputs s'))) /\
  (forall k, In k (eps_keys (u_recv_inputs s)) -> In k (eps_keys (u_recv_inputs s'))) /\
  (forall k v, In (k, v) (u_recv_inputs s') ->
     In (k, v) (u_recv_inputs s) \/
     (last_recv_frame s < k <= start + i + Z.of_nat (length inputs) - 1 /\ TS_I32_MIN <= k <= TS_I32_MAX /\
      exists j, nth_error inputs j = Some v /\ ts_i32_arith dbg (start + i + Z.of_nat j) = Ok k)) /\
  last_recv_frame s <= last_recv_frame s' /\
  (length (u_recv_inputs s') <= length (u_recv_inputs s) + length inputs)%nat /\
  exists evs, u_event_queue s' = u_event_queue s ++ evs /\
    (length evs <= length inputs * length (u_handles s))%nat /\
    forall e, In e evs -> exists k v h, e = EvInput k v h /\ last_recv_frame s < k /\
                                        In k (eps_keys (u_recv_inputs s')).
Proof.
  induction inputs as [|inp rest IH]; intros i s b s' H Hlo; cbn [accept_inputs] in H.
  - inversion H; subst. split; [reflexivity|]. split; [auto|]. split; [auto|]. split; [auto|].
    split; [lia|]. split; [cbn; lia|]. exists []. rewrite app_nil_r. split; [reflexivity|].
    split; [cbn; lia|intros e []].
  - destruct (ts_i32_arith dbg (start + i)) as [fr| |] eqn:Ef; try discriminate.
    destruct (eps_i32_le _ _ _ Hlo Ef) as (Hfr & Hrange).
    destruct (fr <=? last_recv_frame s) eqn:Ele.
    + apply IH in H; [|lia]. destruct H as (A & B & C & D & E & F & evs & G1 & G2 & G3).
      split; [exact A|]. split; [exact B|]. split; [exact C|]. split.
      * intros k v X. destruct (D k v X) as [Y|(Y1 & Y2 & j & Y3 & Y4)]; [left; exact Y|right].
        split; [cbn [length]; lia|]. split; [exact Y2|]. exists (S j). split; [exact Y3|].
        rewrite <- Y4. f_equal. lia.
      * split; [exact E|]. split; [cbn [length]; lia|]. exists evs. split; [exact G1|].
        split; [cbn [length]; lia|exact G3].
    + apply Z.leb_gt in Ele.
      destruct (to_player_inputs (length (u_handles s)) inp) as [vals|] eqn:Et.
      * destruct (input_events fr vals (u_handles s)) as [evs0| |] eqn:Ee; try discriminate.
        set (s1 := set_event_queue (u_event_queue s ++ evs0)
                     (set_recv_inputs (ainsert fr inp (u_recv_inputs s)) s)) in *.
        assert (L1 : last_recv_frame s1 = fr).
        { rewrite eps_lrf_eq. subst s1. fsimpl. apply eps_lrf_ainsert_new. rewrite <- eps_lrf_eq. exact Ele. }
        apply IH in H; [|lia]. destruct H as (A & B & C & D & E & F & evs & G1 & G2 & G3).
        assert (R1 : u_recv_inputs s1 = ainsert fr inp (u_recv_inputs s)) by reflexivity.
        assert (Q1 : u_event_queue s1 = u_event_queue s ++ evs0) by reflexivity.
        assert (H1 : u_handles s1 = u_handles s) by reflexivity.
        split; [rewrite A; reflexivity|]. split.
        { intro N. apply B. rewrite R1. apply eps_nodup_ainsert. exact N. }
        split.
        { intros k X. apply C. rewrite R1. apply eps_keys_ainsert. right. exact X. }
        split.
        { intros k v X. destruct (D k v X) as [Y|(Y1 & Y2 & j & Y3 & Y4)].
          - rewrite R1 in Y. apply eps_in_ainsert in Y. destruct Y as [[-> ->]|Y]; [|left; exact Y].
            right. split; [cbn [length]; lia|]. split; [exact Hrange|]. exists O. split; [reflexivity|].
            rewrite <- Ef. f_equal. lia.
          - right. split; [cbn [length]; lia|]. split; [exact Y2|]. exists (S j). split; [exact Y3|].
            rewrite <- Y4. f_equal. lia. }
        split; [lia|]. split.
        { rewrite R1 in F. unfold ainsert in F. cbn [length] in *.
          assert (FL : (@length ibytes (aremove fr (u_recv_inputs s)) <= length (u_recv_inputs s))%nat)
            by apply eps_aremove_length.
          lia. }
        exists (evs0 ++ evs). split; [rewrite G1, Q1, app_assoc; reflexivity|].
        destruct (eps_input_events_spec _ _ _ _ Ee) as (L0 & F0).
        apply eps_to_player_inputs_length in Et. split.
        { rewrite app_length, L0, Et, H1 in *. cbn [length]. lia. }
        intros e X. apply in_app_iff in X. destruct X as [X|X].
        -- destruct (F0 e X) as (v & h & ->). exists fr, v, h. split; [reflexivity|]. split; [exact Ele|].
           apply C. rewrite R1. apply eps_keys_ainsert. left. reflexivity.
        -- destruct (G3 e X) as (k & v & h & -> & Y1 & Y2). exists k, v, h. split; [reflexivity|].
           split; [lia|exact Y2].
      * inversion H; subst. split; [reflexivity|]. split; [auto|]. split; [auto|]. split; [auto|].
        split; [lia|]. split; [lia|]. exists []. rewrite app_nil_r. split; [reflexivity|].
        split; [cbn; lia|intros e []].
Qed.

Lemma eps_accept_app : forall dbg start pre rest i s,
  accept_inputs dbg start i (pre ++ rest) s =
  match accept_inputs dbg start i pre s with
  | Ok (true, s1) => accept_inputs dbg start (i + Z.of_nat (length pre)) rest s1
  | Ok (false, s1) => Ok (false, s1)
  | Err => Err
  | Panic => Panic
  end.
Proof.
  induction pre as [|x pre IH]; intros rest i s; cbn [app accept_inputs length].
  - f_equal. cbn. lia.
  - destruct (ts_i32_arith dbg (start + i)) as [fr| |]; try reflexivity.
    assert (E : i + Z.of_nat (S (length pre)) = i + 1 + Z.of_nat (length pre)) by lia. rewrite E.
    destruct (fr <=? last_recv_frame s); [apply IH|].
    destruct (to_player_inputs _ x); [|reflexivity].
    destruct (input_events _ _ _); try reflexivity. apply IH.
Qed.

(* the wrong-size exit: the state is exactly the one after the loop over the frames before the
   offending one, which is new (above last_recv_frame) and fails to_player_inputs *)
Lemma eps_accept_false : forall dbg start inputs i s s',
  accept_inputs dbg start i inputs s = Ok (false, s') ->
  exists pre bad post fr, inputs = pre ++ bad :: post /\
    accept_inputs dbg start i pre s = Ok (true, s') /\
    ts_i32_arith dbg (start + i + Z.of_nat (length pre)) = Ok fr /\ last_recv_frame s' < fr /\
    to_player_inputs (length (u_handles s')) bad = None.
Proof.
  induction inputs as [|inp rest IH]; intros i s s' H; cbn [accept_inputs] in H; [discriminate|].
  destruct (ts_i32_arith dbg (start + i)) as [fr| |] eqn:Ef; try discriminate.
  assert (Hrec : forall t, accept_inputs dbg start (i + 1) rest t = Ok (false, s') ->
            forall f, (forall pre, accept_inputs dbg start i (inp :: pre) s =
                                   f (accept_inputs dbg start (i + 1) pre t)) ->
            (forall x, f (Ok (true, x)) = Ok (true, x)) ->
            exists pre bad post fr0, inp :: rest = pre ++ bad :: post /\
              accept_inputs dbg start i pre s = Ok (true, s') /\
              ts_i32_arith dbg (start + i + Z.of_nat (length pre)) = Ok fr0 /\ last_recv_frame s' < fr0 /\
              to_player_inputs (length (u_handles s')) bad = None).
  { intros t Ht f Hf Hf1. destruct (IH _ _ _ Ht) as (pre & bad & post & fr0 & E1 & E2 & E3 & E4 & E5).
    exists (inp :: pre), bad, post, fr0. split; [rewrite E1; reflexivity|].
    split; [rewrite Hf, E2; apply Hf1|]. split; [|auto].
    rewrite <- E3. f_equal. cbn [length]. lia. }
  destruct (fr <=? last_recv_frame s) eqn:Ele.
  - apply (Hrec s H (fun r => r)); [|reflexivity].
    intro pre. cbn [accept_inputs]. rewrite Ef, Ele. reflexivity.
  - destruct (to_player_inputs (length (u_handles s)) inp) as [vals|] eqn:Et.
    + destruct (input_events fr vals (u_handles s)) as [evs| |] eqn:Ee; try discriminate.
      apply (Hrec _ H (fun r => r)); [|reflexivity].
      intro pre. cbn [accept_inputs]. rewrite Ef, Ele, Et, Ee. reflexivity.
    + inversion H; subst. exists [], inp, rest, fr. split; [reflexivity|]. split; [reflexivity|].
      split; [rewrite <- Ef; f_equal; cbn; lia|]. split; [lia|exact Et].
Qed.

(* a new frame of the wrong size makes the loop leave through that exit (at that frame or earlier) *)
Lemma eps_accept_hits_bad : forall dbg start inputs i s j bad,
  nth_error inputs j = Some bad -> to_player_inputs (length (u_handles s)) bad = None ->
  start + i + Z.of_nat (length inputs) - 1 <= TS_I32_MAX -> TS_I32_MIN <= start + i ->
  last_recv_frame s < start + i + Z.of_nat j ->
  exists s', accept_inputs dbg start i inputs s = Ok (false, s').
Proof.
  induction inputs as [|inp rest IH]; intros i s j bad Hn Hb Hov Hlo Hnew; [destruct j; discriminate|].
  cbn [accept_inputs]. cbn [length] in Hov.
  rewrite (eps_i32_exact dbg (start + i)) by lia.
  destruct j as [|j]; cbn [nth_error] in Hn.
  - inversion Hn; subst. assert ((start + i <=? last_recv_frame s) = false) as -> by lia.
    rewrite Hb. eauto.
  - destruct (start + i <=? last_recv_frame s) eqn:Ele.
    + apply (IH (i + 1) s j bad); try assumption; lia.
    + apply Z.leb_gt in Ele.
      destruct (to_player_inputs (length (u_handles s)) inp) as [vals|] eqn:Et; [|eauto].
      pose proof (eps_to_player_inputs_length _ _ _ Et) as Lv.
      destruct (eps_input_events_ok (start + i) vals (u_handles s) Lv) as (evs & -> & _).
      apply (IH (i + 1) _ j bad); try assumption; try lia.
      rewrite eps_lrf_eq. fsimpl. rewrite eps_lrf_ainsert_new; [lia|]. rewrite <- eps_lrf_eq. exact Ele.
Qed.

(* ---------- all exits of handle_message for an Input packet ---------- *)
Definition eps_decode_frame (s : ep) (sf : Z) : Z := if last_recv_frame s =? NULL then NULL else sf - 1.

Inductive eps_input_exit (dbg : bool) (now : Z) (st : list status) (dr : bool) (sf af : Z) (bytes : list N)
                         (s : ep) : ep -> Prop :=
| eps_exit_filtered : eps_input_exit dbg now st dr sf af bytes s s
| eps_exit_header : (dr = false /\ Z.of_nat (length st) <> u_num_players s) \/ sf < 0 ->
    eps_input_exit dbg now st dr sf af bytes s (eps_touch now s)
| eps_exit_gap : forall s2, eps_header st dr af (eps_touch now s) = Ok s2 -> 0 <= sf ->
    alookup (eps_decode_frame s2 sf) (u_recv_inputs s2) = None -> last_recv_frame s2 < sf ->
    eps_input_exit dbg now st dr sf af bytes s s2
| eps_exit_reack : forall s2, eps_header st dr af (eps_touch now s) = Ok s2 -> 0 <= sf ->
    alookup (eps_decode_frame s2 sf) (u_recv_inputs s2) = None -> sf <= last_recv_frame s2 ->
    eps_input_exit dbg now st dr sf af bytes s (send_input_ack now s2)
| eps_exit_undecodable : forall s2 ref, eps_header st dr af (eps_touch now s) = Ok s2 -> 0 <= sf ->
    alookup (eps_decode_frame s2 sf) (u_recv_inputs s2) = Some ref -> Codec.decode dbg ref bytes = Err ->
    eps_input_exit dbg now st dr sf af bytes s (set_last_input_recv now s2)
| eps_exit_wrong_size : forall s2 ref inputs s4, eps_header st dr af (eps_touch now s) = Ok s2 -> 0 <= sf ->
    alookup (eps_decode_frame s2 sf) (u_recv_inputs s2) = Some ref -> Codec.decode dbg ref bytes = Ok inputs ->
    accept_inputs dbg sf 0 inputs (set_last_input_recv now s2) = Ok (false, s4) ->
    eps_input_exit dbg now st dr sf af bytes s s4
| eps_exit_complete : forall s2 ref inputs s4 w lo, eps_header st dr af (eps_touch now s) = Ok s2 -> 0 <= sf ->
    alookup (eps_decode_frame s2 sf) (u_recv_inputs s2) = Some ref -> Codec.decode dbg ref bytes = Ok inputs ->
    accept_inputs dbg sf 0 inputs (set_last_input_recv now s2) = Ok (true, s4) ->
    ts_i32_arith dbg (2 * ts_wrap_i32 (u_max_prediction s4)) = Ok w ->
    ts_i32_arith dbg (last_recv_frame s4 - w) = Ok lo ->
    eps_input_exit dbg now st dr sf af bytes s
      (set_recv_inputs (aretain_ge (Z.min lo (sf - 1)) (u_recv_inputs s4)) (send_input_ack now s4)).

Lemma eps_input_exits : forall dbg now nonce m st dr sf af bytes s s',
  m_body m = Input st dr sf af bytes -> handle_message dbg now nonce m s = Ok s' ->
  eps_input_exit dbg now st dr sf af bytes s s'.
Proof.
  intros dbg now nonce m st dr sf af bytes s s' Hb H. rewrite eps_handle_unfold, Hb in H.
  destruct (passes_filters s m); cbn [negb] in H; [|inversion H; constructor].
  cbv zeta in H. rewrite eps_on_input_unfold in H.
  pose proof (eps_touch_fields now s) as (F1 & _).
  destruct (negb dr && negb (Z.of_nat (length st) =? u_num_players (eps_touch now s))) eqn:E1.
  { inversion H; subst. apply eps_exit_header. left. rewrite F1 in E1. destruct dr; [discriminate|].
    split; [reflexivity|]. cbn in E1. lia. }
  destruct (sf <? 0) eqn:E2; [inversion H; subst; apply eps_exit_header; right; lia|].
  apply Z.ltb_ge in E2.
  destruct (eps_header st dr af (eps_touch now s)) as [s2| |] eqn:Eh; try discriminate.
  unfold eps_body in H. cbv zeta in H. fold (eps_decode_frame s2 sf) in H.
  destruct (alookup (eps_decode_frame s2 sf) (u_recv_inputs s2)) as [ref|] eqn:El.
  - destruct (Codec.decode dbg ref bytes) as [inputs| |] eqn:Ed; try discriminate.
    + destruct (accept_inputs dbg sf 0 inputs (set_last_input_recv now s2)) as [[[|] s4]| |] eqn:Ea; try discriminate.
      * change (last_recv_frame (send_input_ack now s4)) with (last_recv_frame s4) in H.
        change (u_max_prediction (send_input_ack now s4)) with (u_max_prediction s4) in H.
        change (u_recv_inputs (send_input_ack now s4)) with (u_recv_inputs s4) in H.
        destruct (ts_i32_arith dbg (2 * ts_wrap_i32 (u_max_prediction s4))) as [w| |] eqn:Ew; try discriminate.
        destruct (ts_i32_arith dbg (last_recv_frame s4 - w)) as [lo| |] eqn:Elo; try discriminate.
        inversion H; subst. eapply eps_exit_complete; eauto.
      * inversion H; subst. eapply eps_exit_wrong_size; eauto.
    + inversion H; subst. eapply eps_exit_undecodable; eauto.
  - destruct (sf <=? last_recv_frame s2) eqn:E3; inversion H; subst.
    + apply eps_exit_reack; auto. lia.
    + apply eps_exit_gap; auto. lia.
Qed.

(* ---------- the header part relative to the state before the packet ---------- *)
(* [s'] = [s] after the bookkeeping of an accepted packet (eps_touch), pop_pending_output(ack_frame) and the
   status merge / disconnect request; nothing else differs, except possibly running_last_input_recv *)
Definition eps_header_only (now : Z) (st : list status) (dr : bool) (af : Z) (s s' : ep) : Prop :=
  u_recv_inputs s' = u_recv_inputs s /\ u_send_queue s' = u_send_queue s /\ u_state s' = u_state s /\
  u_sync_remaining s' = u_sync_remaining s /\ u_sync_requests s' = u_sync_requests s /\
  u_remote_magic s' = u_remote_magic s /\ u_magic s' = u_magic s /\
  u_num_players s' = u_num_players s /\ u_handles s' = u_handles s /\ u_max_prediction s' = u_max_prediction s /\
  u_desync s' = u_desync s /\ u_pending_checksums s' = u_pending_checksums s /\
  u_timeout s' = u_timeout s /\ u_notify_start s' = u_notify_start s /\
  u_last_send_time s' = u_last_send_time s /\ u_last_quality_report s' = u_last_quality_report s /\
  u_last_sync_request_time s' = u_last_sync_request_time s /\ u_shutdown_timeout s' = u_shutdown_timeout s /\
  u_time_sync s' = u_time_sync s /\ u_local_adv s' = u_local_adv s /\ u_remote_adv s' = u_remote_adv s /\
  u_rtt s' = u_rtt s /\ u_stats_start s' = u_stats_start s /\ u_fps s' = u_fps s /\
  u_last_recv_time s' = now /\
  (u_pending_output s', u_last_acked s') = pop_pending af (u_pending_output s) (u_last_acked s) /\
  (if dr then u_peer_status s' = u_peer_status s
   else merge_status (u_peer_status s) st = Ok (u_peer_status s')) /\
  u_event_sent s' = u_event_sent s || (dr && negb (pstate_eqb (u_state s) PDisconnected)) /\
  u_notify_sent s' = (if resumed_cond s then false else u_notify_sent s) /\
  u_event_queue s' = u_event_queue s ++ resumed_pre s ++
    (if dr && negb (pstate_eqb (u_state s) PDisconnected) && negb (u_event_sent s) then [EvDisconnected] else []).

Lemma eps_header_touch : forall now st dr af s s2,
  eps_header st dr af (eps_touch now s) = Ok s2 ->
  eps_header_only now st dr af s s2 /\ u_last_input_recv s2 = u_last_input_recv s.
Proof.
  intros now st dr af s s2 H. apply eps_header_spec in H. unfold eps_header_effect in H.
  pose proof (eps_touch_fields now s) as T. unfold eps_only_touched in T.
  destruct T as (T1&T2&T3&T4&T5&T6&T7&T8&T9&T10&T11&T12&T13&T14&T15&T16&T17&T18&T19&T20&T21&T22&T23&T24&T25&T26&T27&T28&T29&T30&T31&T32).
  destruct H as (H1&H2&H3&H4&H5&H6&H7&H8&H9&H10&H11&H12&H13&H14&H15&H16&H17&H18&H19&H20&H21&H22&H23&H24&H25&H26&H27&H28&H29&H30&H31).
  rewrite T4, T9, T16, T17, T18 in *. unfold eps_header_only.
  split; [|congruence].
  repeat (split; [first [congruence | exact H29 | exact H30]|]).
  rewrite H31, T32, <- app_assoc. reflexivity.
Qed.

Lemma eps_header_only_lrf : forall now st dr af s s', eps_header_only now st dr af s s' ->
  last_recv_frame s' = last_recv_frame s /\ eps_decode_frame s' = eps_decode_frame s.
Proof.
  intros now st dr af s s' H. destruct H as (H1 & _).
  assert (E : last_recv_frame s' = last_recv_frame s) by (apply eps_last_recv_frame_ext; exact H1).
  split; [exact E|]. unfold eps_decode_frame. rewrite E. reflexivity.
Qed.

Lemma eps_header_ok_touch : forall now st dr af s,
  eps_wf s -> dr = true \/ Z.of_nat (length st) = u_num_players s ->
  exists s2, eps_header st dr af (eps_touch now s) = Ok s2.
Proof.
  intros now st dr af s Hw Hd. pose proof (eps_touch_fields now s) as T. unfold eps_only_touched in T.
  destruct T as (T1&T2&T3&T4&T5&T6&T7&T8&T9&T10&T11&T12&T13&T14&T15&T16&_).
  apply eps_header_ok; [unfold eps_wf in *; congruence|]. rewrite T1. exact Hd.
Qed.

(* an accepted Input packet with a well-formed header: handle_message is the header part followed by
   [eps_body] *)
Lemma eps_handle_input_ok_header : forall dbg now nonce m st dr sf af bytes s,
  m_body m = Input st dr sf af bytes -> passes_filters s m = true ->
  dr = true \/ Z.of_nat (length st) = u_num_players s -> 0 <= sf ->
  handle_message dbg now nonce m s =
  match eps_header st dr af (eps_touch now s) with
  | Ok s2 => eps_body dbg now sf bytes s2
  | Err => Err
  | Panic => Panic
  end.
Proof.
  intros dbg now nonce m st dr sf af bytes s Hb Hp Hd Hs. rewrite eps_handle_unfold, Hb, Hp. cbn [negb]. cbv zeta.
  rewrite eps_on_input_unfold. pose proof (eps_touch_fields now s) as (F1 & _). rewrite F1.
  assert (negb dr && negb (Z.of_nat (length st) =? u_num_players s) = false) as ->.
  { destruct Hd as [-> | Hd]; [reflexivity|]. rewrite andb_false_iff. right. lia. }
  assert ((sf <? 0) = false) as -> by lia. reflexivity.
Qed.

(* (d) a payload the codec rejects: any byte string for which decode answers Err (it never panics,
   CodecProofs.decode_total / C14_decode_total) *)
Lemma eps_undecodable_dropped : forall dbg now nonce m st dr sf af bytes s ref,
  m_body m = Input st dr sf af bytes -> passes_filters s m = true -> eps_wf s ->
  dr = true \/ Z.of_nat (length st) = u_num_players s -> 0 <= sf ->
  alookup (eps_decode_frame s sf) (u_recv_inputs s) = Some ref ->
  Codec.decode dbg ref bytes = Err ->
  exists s', handle_message dbg now nonce m s = Ok s' /\
    eps_header_only now st dr af s s' /\ u_last_input_recv s' = now.
Proof.
  intros dbg now nonce m st dr sf af bytes s ref Hb Hp Hw Hd Hs Hl Hdec.
  rewrite (eps_handle_input_ok_header _ _ _ _ _ _ _ _ _ _ Hb Hp Hd Hs).
  destruct (eps_header_ok_touch now st dr af s Hw Hd) as (s2 & Eh). rewrite Eh.
  destruct (eps_header_touch _ _ _ _ _ _ Eh) as (Ho & Hi).
  destruct (eps_header_only_lrf _ _ _ _ _ _ Ho) as (_ & Edf).
  unfold eps_body. cbv zeta. fold (eps_decode_frame s2 sf). rewrite Edf.
  assert (u_recv_inputs s2 = u_recv_inputs s) as -> by (apply Ho).
  rewrite Hl, Hdec. eexists. split; [reflexivity|]. split; [|reflexivity].
  unfold eps_header_only in *. fsimpl. exact Ho.
Qed.

(* (e) a decoded frame of the wrong size that is new (above last_recv_frame): the handler leaves at the
   first such frame; the frames before it are accepted exactly as by the loop over that prefix; no
   acknowledgement is queued; no Input event for the offending frame or a later one *)
Lemma eps_wrong_size_dropped : forall dbg now nonce m st dr sf af bytes s ref inputs j bad,
  m_body m = Input st dr sf af bytes -> passes_filters s m = true -> eps_wf s ->
  dr = true \/ Z.of_nat (length st) = u_num_players s -> 0 <= sf ->
  alookup (eps_decode_frame s sf) (u_recv_inputs s) = Some ref ->
  Codec.decode dbg ref bytes = Ok inputs ->
  nth_error inputs j = Some bad -> to_player_inputs (length (u_handles s)) bad = None ->
  sf + Z.of_nat (length inputs) - 1 <= TS_I32_MAX -> last_recv_frame s < sf + Z.of_nat j ->
  exists s2 s' pre bad' post,
    eps_header st dr af (eps_touch now s) = Ok s2 /\ eps_header_only now st dr af s s2 /\
    handle_message dbg now nonce m s = Ok s' /\
    inputs = pre ++ bad' :: post /\ (length pre <= j)%nat /\
    to_player_inputs (length (u_handles s)) bad' = None /\
    accept_inputs dbg sf 0 pre (set_last_input_recv now s2) = Ok (true, s') /\
    u_send_queue s' = u_send_queue s /\
    (forall k v h, In (EvInput k v h) (u_event_queue s') ->
       In (EvInput k v h) (u_event_queue s) \/ k < sf + Z.of_nat (length pre)).
Proof.
  intros dbg now nonce m st dr sf af bytes s ref inputs j bad Hb Hp Hw Hd Hs Hl Hdec Hn Hbad Hov Hnew.
  rewrite (eps_handle_input_ok_header _ _ _ _ _ _ _ _ _ _ Hb Hp Hd Hs).
  destruct (eps_header_ok_touch now st dr af s Hw Hd) as (s2 & Eh). rewrite Eh.
  destruct (eps_header_touch _ _ _ _ _ _ Eh) as (Ho & Hi).
  destruct (eps_header_only_lrf _ _ _ _ _ _ Ho) as (Elrf & Edf).
  assert (Eri : u_recv_inputs s2 = u_recv_inputs s) by apply Ho.
  assert (Eh2 : u_handles s2 = u_handles s) by apply Ho.
  assert (Esq : u_send_queue s2 = u_send_queue s) by apply Ho.
  set (s3 := set_last_input_recv now s2).
  assert (L3 : last_recv_frame s3 = last_recv_frame s) by (rewrite <- Elrf; reflexivity).
  assert (H3 : u_handles s3 = u_handles s) by (rewrite <- Eh2; reflexivity).
  destruct (eps_accept_hits_bad dbg sf inputs 0 s3 j bad Hn) as (s' & Ea);
    [rewrite H3; exact Hbad|lia|unfold TS_I32_MIN; lia|rewrite L3; lia|].
  unfold eps_body. cbv zeta. fold (eps_decode_frame s2 sf). rewrite Edf, Eri, Hl, Hdec. fold s3. rewrite Ea.
  destruct (eps_accept_false _ _ _ _ _ _ Ea) as (pre & bad' & post & fr & E1 & E2 & E3 & E4 & E5).
  assert (Hmin : TS_I32_MIN <= sf + 0) by (unfold TS_I32_MIN; lia).
  destruct (eps_accept_spec _ _ _ _ _ _ _ E2 Hmin) as (A & B & C & D & E & F & evs & G1 & G2 & G3).
  eps_others_inj A.
  exists s2, s', pre, bad', post. split; [reflexivity|]. split; [exact Ho|]. split; [reflexivity|].
  split; [exact E1|]. split.
  { (* the exit is at the first offending frame *)
    destruct (Nat.le_gt_cases (length pre) j) as [Hle|Hgt]; [exact Hle|]. exfalso.
    destruct (eps_accept_hits_bad dbg sf pre 0 s3 j bad) as (x & Ex).
    - rewrite E1 in Hn. rewrite nth_error_app1 in Hn by lia. exact Hn.
    - rewrite H3. exact Hbad.
    - rewrite E1, app_length in Hov. lia.
    - exact Hmin.
    - rewrite L3. lia.
    - rewrite Ex in E2. discriminate. }
  split; [rewrite O2, Eh2 in E5; exact E5|]. split; [exact E2|]. split; [rewrite O3; exact Esq|].
  intros k v h X. rewrite G1 in X. apply in_app_iff in X. destruct X as [X|X].
  - left. change (u_event_queue s3) with (u_event_queue s2) in X.
    destruct Ho as (_&_&_&_&_&_&_&_&_&_&_&_&_&_&_&_&_&_&_&_&_&_&_&_&_&_&_&_&_&Hq). rewrite Hq in X.
    apply in_app_iff in X. destruct X as [X|X]; [exact X|]. exfalso.
    apply in_app_iff in X. destruct X as [X|X].
    + unfold resumed_pre in X. destruct (resumed_cond s); [destruct X as [X|[]]; discriminate|destruct X].
    + destruct (dr && _ && _); [destruct X as [X|[]]; discriminate|destruct X].
  - right. destruct (G3 _ X) as (k' & v' & h' & Ee & Y1 & Y2). inversion Ee; subst k' v' h'.
    unfold eps_keys in Y2. apply in_map_iff in Y2. destruct Y2 as ([k0 b0] & Ek & Y2). cbn in Ek. subst k0.
    destruct (D _ _ Y2) as [Z1|(Z1 & _)]; [|lia].
    exfalso. assert (Hne : u_recv_inputs s3 <> []) by (intro N; rewrite N in Z1; destruct Z1).
    destruct (eps_lrf_is_max _ Hne) as (_ & Fm). rewrite Forall_forall in Fm.
    specialize (Fm k (in_map fst _ _ Z1)). cbn [fst] in Fm. rewrite <- eps_lrf_eq in Fm. lia.
Qed.

(* ---------- (f) no panic ---------- *)
Definition EPS_MAX_WINDOW : Z := 1073741823.   (* 2^30 - 1: `2 * max_prediction as i32` does not overflow *)

Lemma eps_wrap_small : forall x, TS_I32_MIN <= x <= TS_I32_MAX -> ts_wrap_i32 x = x.
Proof. intros x H. unfold ts_wrap_i32, TS_I32_MIN, TS_I32_MAX in *. lia. Qed.

(* last_recv_frame after the loop stays in the i32 range *)
Lemma eps_accept_lrf_range : forall dbg start inputs i s b s',
  accept_inputs dbg start i inputs s = Ok (b, s') -> TS_I32_MIN <= start + i ->
  u_recv_inputs s <> [] -> last_recv_frame s <= TS_I32_MAX ->
  u_recv_inputs s' <> [] /\ last_recv_frame s <= last_recv_frame s' <= TS_I32_MAX.
Proof.
  intros dbg start inputs i s b s' H Hlo Hne Hmax.
  destruct (eps_accept_spec _ _ _ _ _ _ _ H Hlo) as (_ & _ & C & D & E & _).
  assert (Hne' : u_recv_inputs s' <> []).
  { destruct (u_recv_inputs s) as [|[k v] r] eqn:Er; [congruence|].
    specialize (C k (or_introl eq_refl)). intro N. rewrite N in C. destruct C. }
  split; [exact Hne'|]. split; [exact E|].
  destruct (eps_lrf_is_max _ Hne') as (A & _). rewrite <- eps_lrf_eq in A.
  unfold eps_keys in A. apply in_map_iff in A. destruct A as ([k v] & Ek & A). cbn in Ek.
  destruct (D _ _ A) as [Z1|(_ & Z2 & _)]; [|lia].
  destruct (eps_lrf_is_max _ Hne) as (_ & Fm). rewrite Forall_forall in Fm.
  specialize (Fm k (in_map fst _ _ Z1)). cbn [fst] in Fm. rewrite <- eps_lrf_eq in Fm. lia.
Qed.

(* the part of on_input after the header never fails, and panics only in the dev profile when frame
   arithmetic overflows (start_frame at the top of the i32 range) or the window is absurdly large *)
Lemma eps_body_total : forall dbg now sf bytes s2, 0 <= sf ->
  (dbg = true -> sf + Z.of_N MAX_DECODED_INPUTS - 1 <= TS_I32_MAX /\
                 0 <= u_max_prediction s2 <= EPS_MAX_WINDOW /\ -1 <= last_recv_frame s2 <= TS_I32_MAX) ->
  exists s', eps_body dbg now sf bytes s2 = Ok s'.
Proof.
  intros dbg now sf bytes s2 Hs Hd. unfold eps_body. cbv zeta.
  destruct (alookup _ (u_recv_inputs s2)) as [ref|] eqn:El.
  2:{ destruct (sf <=? last_recv_frame s2); eauto. }
  destruct (Codec.decode dbg ref bytes) as [inputs| |] eqn:Ed; [|eauto|exfalso; exact (decode_total eps_cap_ok _ _ _ Ed)].
  destruct (decode_bounded eps_cap_ok _ _ _ _ Ed) as (_ & _ & Hn).
  set (s3 := set_last_input_recv now s2).
  assert (Hmin : TS_I32_MIN <= sf + 0) by (unfold TS_I32_MIN; lia).
  destruct (eps_accept_total dbg sf inputs 0 s3) as (b & s4 & Ea).
  { intro D. destruct (Hd D) as (H1 & _). lia. }
  { exact Hmin. }
  rewrite Ea. destruct b; [|eauto].
  change (last_recv_frame (send_input_ack now s4)) with (last_recv_frame s4).
  change (u_max_prediction (send_input_ack now s4)) with (u_max_prediction s4).
  destruct dbg.
  - destruct (Hd eq_refl) as (H1 & H2 & H3).
    assert (Hne : u_recv_inputs s3 <> []).
    { apply eps_alookup_in in El. intro N. change (u_recv_inputs s3) with (u_recv_inputs s2) in N.
      rewrite N in El. destruct El. }
    destruct (eps_accept_lrf_range _ _ _ _ _ _ _ Ea Hmin Hne) as (_ & L1 & L2);
      [change (last_recv_frame s3) with (last_recv_frame s2); lia|].
    change (last_recv_frame s3) with (last_recv_frame s2) in L1.
    destruct (eps_accept_spec _ _ _ _ _ _ _ Ea Hmin) as (A & _). eps_others_inj A.
    change (u_max_prediction s3) with (u_max_prediction s2) in O20. rewrite O20.
    unfold EPS_MAX_WINDOW in H2.
    rewrite (eps_wrap_small (u_max_prediction s2)) by (unfold TS_I32_MIN, TS_I32_MAX; lia).
    rewrite (eps_i32_exact true (2 * u_max_prediction s2)) by (unfold TS_I32_MIN, TS_I32_MAX; lia).
    rewrite (eps_i32_exact true (last_recv_frame s4 - 2 * u_max_prediction s2))
      by (unfold TS_I32_MIN, TS_I32_MAX in *; lia).
    eauto.
  - unfold ts_i32_arith. destruct (ts_in_i32 _); destruct (ts_in_i32 _); eauto.
Qed.

(* every Input packet at a well-formed endpoint: Ok, unless (dev profile) one of the overflow conditions *)
Lemma eps_input_total : forall dbg now nonce m st dr sf af bytes s,
  m_body m = Input st dr sf af bytes -> eps_wf s ->
  (dbg = true -> sf + Z.of_N MAX_DECODED_INPUTS - 1 <= TS_I32_MAX /\
                 0 <= u_max_prediction s <= EPS_MAX_WINDOW /\ -1 <= last_recv_frame s <= TS_I32_MAX) ->
  exists s', handle_message dbg now nonce m s = Ok s'.
Proof.
  intros dbg now nonce m st dr sf af bytes s Hb Hw Hd.
  destruct (passes_filters s m) eqn:Hp.
  2:{ rewrite eps_handle_unfold, Hp. eexists. reflexivity. }
  destruct (Z_lt_le_dec sf 0) as [Hs|Hs].
  { rewrite (eps_bad_header_dropped _ _ _ _ _ _ _ _ _ _ Hb) by (right; exact Hs). eauto. }
  assert (Hcases : (dr = true \/ Z.of_nat (length st) = u_num_players s) \/
                   (dr = false /\ Z.of_nat (length st) <> u_num_players s)).
  { destruct dr; [auto|]. destruct (Z.eq_dec (Z.of_nat (length st)) (u_num_players s)); auto. }
  destruct Hcases as [Hc|Hc].
  2:{ rewrite (eps_bad_header_dropped _ _ _ _ _ _ _ _ _ _ Hb) by (left; exact Hc). eauto. }
  rewrite (eps_handle_input_ok_header _ _ _ _ _ _ _ _ _ _ Hb Hp Hc Hs).
  destruct (eps_header_ok_touch now st dr af s Hw Hc) as (s2 & Eh). rewrite Eh.
  destruct (eps_header_touch _ _ _ _ _ _ Eh) as (Ho & _).
  destruct (eps_header_only_lrf _ _ _ _ _ _ Ho) as (Elrf & _).
  apply eps_body_total; [exact Hs|]. intro D. rewrite Elrf.
  assert (u_max_prediction s2 = u_max_prediction s) as -> by apply Ho. exact (Hd D).
Qed.

Lemma eps_input_total_release : forall now nonce m st dr sf af bytes s,
  m_body m = Input st dr sf af bytes -> eps_wf s -> exists s', handle_message false now nonce m s = Ok s'.
Proof. intros. eapply eps_input_total; eauto. discriminate. Qed.

(* the witness outside the listed kinds: a packet under the peer's magic whose FIRST frame is valid and sits
   at i32::MAX; the second frame's number overflows (`body.start_frame + i as i32`) in the dev profile
   before its size is looked at.  Release wraps and skips it. *)
Definition eps_w_overflow : list op :=
  w_handshake ++
  [OMessage 0 200 (mkMsg 7 (Input w_status false 2147483647 (-1)
                              (Codec.encode [0;0;0;0]%N [[1;0;0;0]%N; [7;7;7]%N])))].
Lemma eps_frame_overflow_panics_refuted :
  run true w_new eps_w_overflow = Panic /\
  exists s evs, run false w_new eps_w_overflow = Ok (s, evs) /\ last_recv_frame s = 2147483647.
Proof. split; [vm_compute; reflexivity|]. eexists. eexists. split; vm_compute; reflexivity. Qed.

(* ====================================================================================== *)
(* the effect of every operation on the fields C18 / C05 talk about                        *)
(* ====================================================================================== *)
Definition eps_core (s : ep) :=
  (u_num_players s, u_handles s, u_max_prediction s, u_desync s, u_magic s,
   u_pending_output s, u_last_acked s, u_peer_status s, u_recv_inputs s, u_pending_checksums s).

Ltac eps_core_inj H :=
  unfold eps_core in H; injection H as ?C1 ?C2 ?C3 ?C4 ?C5 ?C6 ?C7 ?C8 ?C9 ?C10.

Definition eps_dead (s : ep) : Prop := u_state s = PDisconnected \/ u_state s = PShutdown.

(* messages appended to the send queue, all under the endpoint's own magic *)
Definition eps_appended (k : nat) (s s' : ep) : Prop :=
  exists q, u_send_queue s' = u_send_queue s ++ q /\ (length q <= k)%nat /\
            Forall (fun m => m_magic m = u_magic s) q.

Lemma eps_appended_refl : forall k s, eps_appended k s s.
Proof. intros. exists []. rewrite app_nil_r. split; [reflexivity|]. split; [cbn; lia|constructor]. Qed.

Lemma eps_appended_same : forall k s s', u_send_queue s' = u_send_queue s -> eps_appended k s s'.
Proof. intros k s s' E. exists []. rewrite app_nil_r. split; [exact E|]. split; [cbn; lia|constructor]. Qed.

Lemma eps_keep_alive_off : forall now, (now + KEEP_ALIVE_INTERVAL <? now) = false.
Proof. intro. unfold KEEP_ALIVE_INTERVAL. lia. Qed.

Lemma eps_send_pending_output_shape : forall now cs s t,
  send_pending_output now cs s = Ok t ->
  (u_pending_output s = [] /\ t = s) \/
  (exists f b r, u_pending_output s = (f, b) :: r /\
     t = queue_message now (Input cs (pstate_eqb (u_state s) PDisconnected) f (last_recv_frame s)
                                  (Codec.encode (snd (u_last_acked s)) (map snd (u_pending_output s)))) s).
Proof.
  intros now cs s t H. unfold send_pending_output in H.
  destruct (u_pending_output s) as [|[f b] r] eqn:E; [inversion H; auto|].
  destruct ((fst (u_last_acked s) =? NULL) || (fst (u_last_acked s) + 1 =? f)); [|discriminate].
  inversion H; subst. right. exists f, b, r. auto.
Qed.

Lemma eps_poll_running_effect : forall now cs s s',
  poll_running now cs s = Ok s' ->
  eps_core s' = eps_core s /\ u_state s' = u_state s /\ eps_appended 2 s s' /\
  (u_event_sent s = true -> u_event_sent s' = true).
Proof.
  intros now cs s s' H. unfold poll_running, poll_running_gen in H. cbn [fix_quiet_dead current_code] in H.
  cbv zeta in H.
  match type of H with match ?X with _ => _ end = _ => destruct X as [s1| |] eqn:E1; try discriminate end.
  assert (F1 : eps_core s1 = eps_core s /\ u_state s1 = u_state s /\ u_event_sent s1 = u_event_sent s /\
               u_magic s1 = u_magic s /\ u_last_quality_report s1 = u_last_quality_report s /\
               ((u_send_queue s1 = u_send_queue s /\ u_last_send_time s1 = u_last_send_time s) \/
                (exists m, u_send_queue s1 = u_send_queue s ++ [m] /\ m_magic m = u_magic s /\ u_last_send_time s1 = now))).
  { destruct (u_last_input_recv s + RUNNING_RETRY_INTERVAL <? now).
    - destruct (send_pending_output now cs s) as [t| |] eqn:Et; try discriminate. inversion E1; subst s1.
      apply eps_send_pending_output_shape in Et. destruct Et as [(_ & ->)|(f & b & r & _ & ->)]; fsimpl.
      + repeat split. left. auto.
      + repeat split. right. eexists. repeat split.
    - inversion E1; subst. repeat split. left. auto. }
  clear E1. destruct F1 as (A1 & A2 & A3 & A4 & A5 & A6).
  match type of H with match ?X with _ => _ end = _ => destruct X as [s2| |] eqn:E2; try discriminate end.
  assert (F2 : eps_core s2 = eps_core s /\ u_state s2 = u_state s /\ u_event_sent s2 = u_event_sent s /\
               u_magic s2 = u_magic s /\
               ((u_send_queue s2 = u_send_queue s /\ u_last_send_time s2 = u_last_send_time s) \/
                (exists q, u_send_queue s2 = u_send_queue s ++ q /\ (1 <= length q <= 2)%nat /\
                           Forall (fun m => m_magic m = u_magic s) q /\ u_last_send_time s2 = now))).
  { destruct (u_last_quality_report s1 + QUALITY_REPORT_INTERVAL <? now).
    - unfold send_quality_report in E2. cbv zeta in E2.
      destruct (ts_report_frame_advantage _) as [adv| |]; try discriminate. inversion E2; subst s2. fsimpl.
      split; [exact A1|]. split; [exact A2|]. split; [exact A3|]. split; [exact A4|]. right.
      destruct A6 as [(Q & _)|(m & Q & Mm & _)]; rewrite Q.
      + eexists [_]. split; [reflexivity|]. split; [cbn; lia|]. split; [|reflexivity].
        constructor; [cbn; exact A4|constructor].
      + rewrite <- app_assoc. eexists [_; _]. split; [reflexivity|]. split; [cbn; lia|]. split; [|reflexivity].
        constructor; [exact Mm|]. constructor; [cbn; exact A4|constructor].
    - inversion E2; subst s2. split; [exact A1|]. split; [exact A2|]. split; [exact A3|]. split; [exact A4|].
      destruct A6 as [A6|(m & Q & Mm & T)]; [left; exact A6|right].
      exists [m]. split; [exact Q|]. split; [cbn; lia|]. split; [|exact T]. constructor; [exact Mm|constructor]. }
  clear E2 A1 A2 A3 A4 A5 A6 s1. destruct F2 as (A1 & A2 & A3 & A4 & A6).
  set (s3 := if u_last_send_time s2 + KEEP_ALIVE_INTERVAL <? now then send_keep_alive now s2 else s2) in *.
  assert (F3 : eps_core s3 = eps_core s /\ u_state s3 = u_state s /\ u_event_sent s3 = u_event_sent s /\
               eps_appended 2 s s3).
  { subst s3. destruct A6 as [(Q & T)|(q & Q & L & Fq & T)].
    - destruct (u_last_send_time s2 + KEEP_ALIVE_INTERVAL <? now); fsimpl.
      + split; [exact A1|]. split; [exact A2|]. split; [exact A3|]. unfold eps_appended. fsimpl. rewrite Q.
        eexists [_]. split; [reflexivity|]. split; [cbn; lia|]. constructor; [cbn; exact A4|constructor].
      + split; [exact A1|]. split; [exact A2|]. split; [exact A3|]. unfold eps_appended. rewrite Q.
        exists []. rewrite app_nil_r. split; [reflexivity|]. split; [cbn; lia|constructor].
    - rewrite T, eps_keep_alive_off. split; [exact A1|]. split; [exact A2|]. split; [exact A3|].
      exists q. split; [exact Q|]. split; [lia|exact Fq]. }
  clearbody s3. clear A1 A2 A3 A4 A6 s2. destruct F3 as (A1 & A2 & A3 & A4).
  inversion H; subst s'; clear H.
  destruct (negb (u_notify_sent s3) && negb (u_event_sent s3) && (u_last_recv_time s3 + u_notify_start s3 <? now));
    fsimpl;
    destruct (negb (u_event_sent s3) && (u_last_recv_time s3 + u_timeout s3 <? now)); fsimpl;
    (split; [exact A1|]; split; [exact A2|]; split; [exact A4|]); intro X; try reflexivity; congruence.
Qed.

Lemma eps_poll_effect : forall now nonce cs s out s',
  poll now nonce cs s = Ok (out, s') ->
  eps_core s' = eps_core s /\ eps_appended 2 s s' /\
  (u_event_sent s = true -> u_event_sent s' = true) /\
  (u_state s' = u_state s \/ (u_state s = PDisconnected /\ u_state s' = PShutdown)) /\
  u_event_queue s' = [].
Proof.
  intros now nonce cs s out s' H. unfold poll, poll_gen in H. cbv zeta in H.
  change (poll_running_gen current_code) with poll_running in H.
  destruct (u_state s) eqn:Es.
  - inversion H; subst; fsimpl. split; [reflexivity|]. split; [apply eps_appended_same; reflexivity|]. auto.
  - destruct (u_last_sync_request_time s + SYNC_RETRY_INTERVAL <? now); inversion H; subst; fsimpl.
    + split; [reflexivity|]. split; [|auto]. unfold eps_appended. fsimpl. eexists [_].
      split; [reflexivity|]. split; [cbn; lia|]. constructor; [reflexivity|constructor].
    + split; [reflexivity|]. split; [apply eps_appended_same; reflexivity|]. auto.
  - destruct (poll_running now cs s) as [t| |] eqn:Et; try discriminate.
    apply eps_poll_running_effect in Et. destruct Et as (A & B & C & D).
    inversion H; subst; fsimpl. split; [exact A|]. split; [exact C|]. split; [exact D|]. split; [left; congruence|reflexivity].
  - destruct (u_shutdown_timeout s <? now); inversion H; subst; fsimpl;
      (split; [reflexivity|]; split; [apply eps_appended_same; reflexivity|]; split; [auto|]); split; auto.
  - inversion H; subst; fsimpl. split; [reflexivity|]. split; [apply eps_appended_same; reflexivity|]. auto.
Qed.

Lemma eps_synchronize_effect : forall now nonce s s',
  synchronize now nonce s = Ok s' ->
  eps_core s' = eps_core s /\ eps_appended 1 s s' /\ u_event_sent s' = u_event_sent s /\
  u_state s = PInitializing /\ u_state s' = PSynchronizing /\ u_event_queue s' = u_event_queue s.
Proof.
  intros now nonce s s' H. unfold synchronize in H.
  destruct (pstate_eqb (u_state s) PInitializing) eqn:E; [|discriminate]. apply pstate_eqb_eq in E.
  inversion H; subst; fsimpl. split; [reflexivity|]. split; [|auto].
  unfold eps_appended. fsimpl. eexists [_]. split; [reflexivity|]. split; [cbn; lia|].
  constructor; [reflexivity|constructor].
Qed.

(* send_input at a Running endpoint: one input appended to pending_output, one Input packet queued that
   carries all of pending_output, encoded against last_acked_input *)
Lemma eps_send_input_effect : forall now inputs cs s s',
  send_input now inputs cs s = Ok s' ->
  (u_state s <> PRunning /\ s' = s) \/
  (u_state s = PRunning /\ u_state s' = PRunning /\
   exists data, from_inputs (u_num_players s) inputs = Ok data /\
     eps_core s' = eps_core (set_pending_output (u_pending_output s ++ [data]) s) /\
     u_event_sent s' = u_event_sent s || (PENDING_OUTPUT_SIZE <? N.of_nat (length (u_pending_output s ++ [data])))%N /\
     u_remote_magic s' = u_remote_magic s /\
     exists f, hd_error (u_pending_output s ++ [data]) = Some f /\
       u_send_queue s' = u_send_queue s ++
         [mkMsg (u_magic s) (Input cs false (fst f) (last_recv_frame s)
                               (Codec.encode (snd (u_last_acked s)) (map snd (u_pending_output s ++ [data]))))]).
Proof.
  intros now inputs cs s s' H. unfold send_input, send_input_gen in H. cbn [fix_send_guard current_code] in H.
  destruct (pstate_eqb (u_state s) PRunning) eqn:Er; cbn [negb] in H.
  2:{ left. inversion H; subst. split; [|reflexivity]. intro X. rewrite X in Er. discriminate. }
  apply pstate_eqb_eq in Er. right.
  destruct (from_inputs _ _) as [data| |]; try discriminate.
  destruct (ts_advance_frame _ _ _ _) as [ts| |]; try discriminate. cbv zeta in H.
  set (s1 := set_pending_output (u_pending_output s ++ [data]) (set_time_sync ts s)) in *.
  set (s2 := if (PENDING_OUTPUT_SIZE <? N.of_nat (length (u_pending_output s1)))%N
             then (if u_event_sent s1 then s1 else set_event_sent true (push_event EvDisconnected s1)) else s1) in *.
  assert (F : eps_core s2 = eps_core s1 /\ u_state s2 = PRunning /\ u_send_queue s2 = u_send_queue s /\
              u_magic s2 = u_magic s /\ u_remote_magic s2 = u_remote_magic s /\
              u_event_sent s2 = u_event_sent s || (PENDING_OUTPUT_SIZE <? N.of_nat (length (u_pending_output s ++ [data])))%N).
  { subst s2 s1. fsimpl. destruct (PENDING_OUTPUT_SIZE <? _)%N; [destruct (u_event_sent s) eqn:Ee|]; fsimpl;
      rewrite ?Ee, ?orb_false_r, ?orb_true_r; repeat split; assumption. }
  destruct F as (F1 & F2 & F3 & F4 & F5 & F6). clearbody s2.
  apply eps_send_pending_output_shape in H. eps_core_inj F1. fold ibytes in *.
  assert (Hpo : u_pending_output s2 = u_pending_output s ++ [data]) by exact C6.
  destruct H as [(Hnil & _)|(f & b & r & Hpo2 & ->)].
  { rewrite Hpo in Hnil. destruct (u_pending_output s); discriminate. }
  split; [exact Er|]. split; [exact F2|]. exists data. split; [reflexivity|].
  split; [unfold eps_core; fsimpl; congruence|]. split; [exact F6|]. split; [exact F5|].
  exists (f, b). split; [rewrite <- Hpo, Hpo2; reflexivity|]. fsimpl.
  rewrite F3, F4, F2, Hpo. cbn [pstate_eqb fst].
  assert (last_recv_frame s2 = last_recv_frame s) as -> by (apply eps_last_recv_frame_ext; exact C9).
  change (u_last_acked s1) with (u_last_acked s) in C7. rewrite C7. reflexivity.
Qed.

Lemma eps_on_checksum_report_effect : forall dbg c f s s',
  on_checksum_report dbg c f s = Ok s' ->
  exists pcs, s' = set_pending_checksums pcs s /\
    (Z.of_nat (length pcs) <= Z.of_nat (length (u_pending_checksums s)) + 1) /\
    ((Z.of_nat (length (u_pending_checksums s)) < MAX_CHECKSUM_HISTORY_SIZE /\
      pcs = ainsert f c (u_pending_checksums s)) \/
     (MAX_CHECKSUM_HISTORY_SIZE <= Z.of_nat (length (u_pending_checksums s)) /\
      exists interval span lo, (u_desync s = Some interval \/ (u_desync s = None /\ dbg = false /\ interval = 1)) /\
        ts_i32_arith dbg ((MAX_CHECKSUM_HISTORY_SIZE - 1) * ts_wrap_i32 interval) = Ok span /\
        ts_i32_arith dbg (f - span) = Ok lo /\
        pcs = ainsert f c (aretain_ge lo (u_pending_checksums s)))).
Proof.
  intros dbg c f s s' H. unfold on_checksum_report in H. cbv zeta in H.
  assert (Hlen : forall l : list (Z * Z), Z.of_nat (length (ainsert f c l)) <= Z.of_nat (length l) + 1).
  { intro l. unfold ainsert. cbn [length]. pose proof (@eps_aremove_length Z f l). lia. }
  destruct (u_desync s) as [iv|] eqn:Ed.
  - destruct (MAX_CHECKSUM_HISTORY_SIZE <=? Z.of_nat (length (u_pending_checksums s))) eqn:El.
    + destruct (ts_i32_arith dbg ((MAX_CHECKSUM_HISTORY_SIZE - 1) * ts_wrap_i32 iv)) as [span| |] eqn:E1; try discriminate.
      destruct (ts_i32_arith dbg (f - span)) as [lo| |] eqn:E2; try discriminate.
      inversion H; subst. eexists. split; [reflexivity|]. split.
      * specialize (Hlen (aretain_ge lo (u_pending_checksums s))).
        pose proof (eps_filter_length (fun kv : Z * Z => lo <=? fst kv) (u_pending_checksums s)) as FL.
        unfold aretain_ge in *. lia.
      * right. split; [lia|]. exists iv, span, lo. auto.
    + inversion H; subst. eexists. split; [reflexivity|]. split; [apply Hlen|]. left. split; [lia|reflexivity].
  - destruct dbg; [discriminate|].
    destruct (MAX_CHECKSUM_HISTORY_SIZE <=? Z.of_nat (length (u_pending_checksums s))) eqn:El.
    + destruct (ts_i32_arith false ((MAX_CHECKSUM_HISTORY_SIZE - 1) * ts_wrap_i32 1)) as [span| |] eqn:E1; try discriminate.
      destruct (ts_i32_arith false (f - span)) as [lo| |] eqn:E2; try discriminate.
      inversion H; subst. eexists. split; [reflexivity|]. split.
      * specialize (Hlen (aretain_ge lo (u_pending_checksums s))).
        pose proof (eps_filter_length (fun kv : Z * Z => lo <=? fst kv) (u_pending_checksums s)) as FL.
        unfold aretain_ge in *. lia.
      * right. split; [lia|]. exists 1, span, lo. auto 6.
    + inversion H; subst. eexists. split; [reflexivity|]. split; [apply Hlen|]. left. split; [lia|reflexivity].
Qed.

(* every message but Input *)
Lemma eps_handle_other_effect : forall dbg now nonce m s s',
  (forall st dr sf af bytes, m_body m <> Input st dr sf af bytes) ->
  handle_message dbg now nonce m s = Ok s' ->
  eps_appended 1 s s' /\ u_event_sent s' = u_event_sent s /\
  (u_state s' = u_state s \/ (u_state s = PSynchronizing /\ u_state s' = PRunning)) /\
  match m_body m with
  | InputAck f => eps_core s' = eps_core s \/ eps_core s' = eps_core (pop_pending_output f s)
  | ChecksumReport c f =>
    eps_core s' = eps_core s \/
    exists t, on_checksum_report dbg c f t = Ok s' /\ eps_core t = eps_core s
  | _ => eps_core s' = eps_core s
  end.
Proof.
  intros dbg now nonce m s s' Hni H. rewrite eps_handle_unfold in H.
  destruct (passes_filters s m); cbn [negb] in H.
  2:{ inversion H; subst. split; [apply eps_appended_refl|]. split; [reflexivity|]. split; [auto|].
      destruct (m_body m); auto. }
  cbv zeta in H. pose proof (eps_touch_fields now s) as T. unfold eps_only_touched in T.
  destruct T as (T1&T2&T3&T4&T5&T6&T7&T8&T9&T10&T11&T12&T13&T14&T15&T16&T17&T18&T19&T20&T21&T22&T23&T24&T25&T26&T27&T28&T29&T30&T31&T32).
  set (t := eps_touch now s) in *.
  assert (Tc : eps_core t = eps_core s) by (unfold eps_core; congruence).
  assert (App1 : forall b, eps_appended 1 s (queue_message now b t)).
  { intro b. unfold eps_appended. fsimpl. rewrite T3. eexists [_]. split; [reflexivity|]. split; [cbn; lia|].
    constructor; [cbn; exact T14|constructor]. }
  assert (App0 : forall t', u_send_queue t' = u_send_queue t -> eps_appended 1 s t').
  { intros t' E. unfold eps_appended. rewrite E, T3. exists []. rewrite app_nil_r.
    split; [reflexivity|]. split; [cbn; lia|constructor]. }
  destruct (m_body m) as [n|n|st dr sf af bytes|f|adv ping|pong|c f|] eqn:Eb.
  - inversion H; subst s'. split; [apply App1|]. fsimpl. split; [exact T9|]. split; [left; exact T4|exact Tc].
  - unfold on_sync_reply in H.
    destruct (negb (pstate_eqb (u_state t) PSynchronizing)) eqn:E1.
    { inversion H; subst s'. split; [apply App0; reflexivity|]. split; [exact T9|]. split; [left; exact T4|exact Tc]. }
    destruct (negb (zmem n (u_sync_requests t))) eqn:E2.
    { inversion H; subst s'. split; [apply App0; reflexivity|]. split; [exact T9|]. split; [left; exact T4|exact Tc]. }
    apply negb_false_iff, pstate_eqb_eq in E1. rewrite T4 in E1. fsimpl.
    destruct ((u_sync_remaining t <=? 0) && dbg); [discriminate|].
    destruct (0 <? (u_sync_remaining t - 1) mod 4294967296).
    + destruct ((NUM_SYNC_PACKETS <? _) && dbg); [discriminate|]. inversion H; subst s'. fsimpl.
      split. { unfold eps_appended. fsimpl. rewrite T3. eexists [_]. split; [reflexivity|]. split; [cbn; lia|].
               constructor; [cbn; exact T14|constructor]. }
      split; [exact T9|]. split; [left; exact T4|exact Tc].
    + inversion H; subst s'. fsimpl. split; [apply App0; reflexivity|]. split; [exact T9|].
      split; [right; auto|exact Tc].
  - exfalso. eapply Hni. reflexivity.
  - inversion H; subst s'.
    assert (E : eps_core (pop_pending_output f t) = eps_core (pop_pending_output f s) /\
                u_send_queue (pop_pending_output f t) = u_send_queue t /\
                u_event_sent (pop_pending_output f t) = u_event_sent t /\
                u_state (pop_pending_output f t) = u_state t).
    { unfold pop_pending_output. rewrite T17, T18. destruct (pop_pending _ _ _). unfold eps_core. fsimpl.
      repeat split; congruence. }
    destruct E as (E1 & E2 & E3 & E4). split; [apply App0; exact E2|]. split; [congruence|].
    split; [left; congruence|right; exact E1].
  - inversion H; subst s'. split; [apply App1|]. fsimpl. split; [exact T9|]. split; [left; exact T4|exact Tc].
  - inversion H; subst s'. fsimpl. split; [apply App0; reflexivity|]. split; [exact T9|]. split; [left; exact T4|exact Tc].
  - destruct (eps_on_checksum_report_effect _ _ _ _ _ H) as (pcs & -> & _). fsimpl.
    split; [apply App0; reflexivity|]. split; [exact T9|]. split; [left; exact T4|].
    right. exists t. split; [exact H|exact Tc].
  - inversion H; subst s'. split; [apply App0; reflexivity|]. split; [exact T9|]. split; [left; exact T4|exact Tc].
Qed.

(* the loop never removes or overwrites an entry: new frames lie above every stored key *)
Lemma eps_accept_keeps : forall dbg start inputs i s b s',
  accept_inputs dbg start i inputs s = Ok (b, s') ->
  forall k v, In (k, v) (u_recv_inputs s) -> In (k, v) (u_recv_inputs s').
Proof.
  induction inputs as [|inp rest IH]; intros i s b s' H k v X; cbn [accept_inputs] in H.
  - inversion H; subst. exact X.
  - destruct (ts_i32_arith dbg (start + i)) as [fr| |] eqn:Ef; try discriminate.
    destruct (fr <=? last_recv_frame s) eqn:Ele; [eapply IH; eauto|].
    apply Z.leb_gt in Ele.
    destruct (to_player_inputs (length (u_handles s)) inp) as [vals|] eqn:Et; [|inversion H; subst; exact X].
    destruct (input_events fr vals (u_handles s)) as [evs0| |] eqn:Ee; try discriminate.
    eapply IH; [exact H|]. fsimpl. right. apply eps_in_aremove. split; [exact X|].
    assert (Hne : u_recv_inputs s <> []) by (intro N; rewrite N in X; destruct X).
    destruct (eps_lrf_is_max _ Hne) as (_ & Fm). rewrite Forall_forall in Fm.
    specialize (Fm k (in_map fst _ _ X)). cbn [fst] in Fm. rewrite <- eps_lrf_eq in Fm. lia.
Qed.

(* ---------- the invariant of recv_inputs ---------- *)
Definition eps_window_ok (s : ep) : Prop := 0 <= u_max_prediction s <= EPS_MAX_WINDOW.

Definition eps_ri_ok (s : ep) : Prop :=
  NoDup (eps_keys (u_recv_inputs s)) /\ u_recv_inputs s <> [] /\
  Forall (fun k => -1 <= k <= TS_I32_MAX) (eps_keys (u_recv_inputs s)).

Lemma eps_ri_ok_ext : forall s s', u_recv_inputs s' = u_recv_inputs s -> eps_ri_ok s -> eps_ri_ok s'.
Proof. intros s s' E H. unfold eps_ri_ok in *. rewrite E. exact H. Qed.

Lemma eps_ri_ok_lrf : forall s, eps_ri_ok s ->
  -1 <= last_recv_frame s <= TS_I32_MAX /\ In (last_recv_frame s) (eps_keys (u_recv_inputs s)) /\
  (forall k, In k (eps_keys (u_recv_inputs s)) -> k <= last_recv_frame s).
Proof.
  intros s (_ & Hne & Hr). destruct (eps_lrf_is_max _ Hne) as (A & B). rewrite <- eps_lrf_eq in *.
  rewrite Forall_forall in Hr, B. split; [exact (Hr _ A)|]. split; [exact A|exact B].
Qed.

(* the loop preserves it *)
Lemma eps_accept_ri_ok : forall dbg start inputs s b s',
  accept_inputs dbg start 0 inputs s = Ok (b, s') -> 0 <= start -> eps_ri_ok s -> eps_ri_ok s'.
Proof.
  intros dbg start inputs s b s' H Hs (Hn & Hne & Hr).
  assert (Hmin : TS_I32_MIN <= start + 0) by (unfold TS_I32_MIN; lia).
  destruct (eps_accept_spec _ _ _ _ _ _ _ H Hmin) as (_ & B & C & D & _).
  destruct (eps_ri_ok_lrf s (conj Hn (conj Hne Hr))) as (L & _).
  split; [auto|]. split.
  - destruct (u_recv_inputs s) as [|[k v] r] eqn:Er; [congruence|].
    specialize (C k (or_introl eq_refl)). intro N. rewrite N in C. destruct C.
  - apply Forall_forall. intros k X. unfold eps_keys in X. apply in_map_iff in X.
    destruct X as ([k0 v] & Ek & X). cbn in Ek. subst k0.
    destruct (D _ _ X) as [Y|(Y1 & Y2 & _)]; [|lia].
    rewrite Forall_forall in Hr. apply Hr. exact (in_map fst _ _ Y).
Qed.

(* the retain step of a completed on_input, with the arithmetic made exact by [eps_window_ok] *)
Lemma eps_retain_arith : forall dbg mp lrf w lo,
  0 <= mp <= EPS_MAX_WINDOW -> -1 <= lrf <= TS_I32_MAX ->
  ts_i32_arith dbg (2 * ts_wrap_i32 mp) = Ok w -> ts_i32_arith dbg (lrf - w) = Ok lo ->
  w = 2 * mp /\ lo = lrf - 2 * mp.
Proof.
  intros dbg mp lrf w lo Hm Hl H1 H2. unfold EPS_MAX_WINDOW in Hm.
  rewrite (eps_wrap_small mp) in H1 by (unfold TS_I32_MIN, TS_I32_MAX; lia).
  rewrite (eps_i32_exact dbg (2 * mp)) in H1 by (unfold TS_I32_MIN, TS_I32_MAX; lia).
  assert (Ew : w = 2 * mp) by (injection H1; auto). subst w.
  rewrite (eps_i32_exact dbg (lrf - 2 * mp)) in H2 by (unfold TS_I32_MIN, TS_I32_MAX in *; lia).
  split; [reflexivity|]. injection H2; auto.
Qed.

(* a completed on_input (loop finished, ack queued, old entries pruned) *)
Lemma eps_complete_exit_ri : forall dbg now sf inputs s3 s4 w lo ref,
  eps_ri_ok s3 -> eps_window_ok s3 -> 0 <= sf ->
  alookup (eps_decode_frame s3 sf) (u_recv_inputs s3) = Some ref ->
  accept_inputs dbg sf 0 inputs s3 = Ok (true, s4) ->
  ts_i32_arith dbg (2 * ts_wrap_i32 (u_max_prediction s4)) = Ok w ->
  ts_i32_arith dbg (last_recv_frame s4 - w) = Ok lo ->
  let s' := set_recv_inputs (aretain_ge (Z.min lo (sf - 1)) (u_recv_inputs s4)) (send_input_ack now s4) in
  eps_ri_ok s' /\ last_recv_frame s' = last_recv_frame s4 /\ last_recv_frame s3 <= last_recv_frame s4 /\
  (* the bound of this handler call *)
  Z.of_nat (length (u_recv_inputs s')) <=
    Z.max (2 * u_max_prediction s3) (last_recv_frame s' - sf + 1) + 1 /\
  ((length (u_recv_inputs s') <= length (u_recv_inputs s3))%nat \/
   last_recv_frame s' <= sf + Z.of_nat (length inputs) - 1) /\
  (* what is kept *)
  (forall k v, In (k, v) (u_recv_inputs s') -> In (k, v) (u_recv_inputs s4)) /\
  (forall k v, In (k, v) (u_recv_inputs s3) -> Z.min (last_recv_frame s4 - 2 * u_max_prediction s3) (sf - 1) <= k ->
               alookup k (u_recv_inputs s') = Some v).
Proof.
  intros dbg now sf inputs s3 s4 w lo ref Hok Hw Hs Hl Ha Ew Elo. cbv zeta.
  assert (Hmin : TS_I32_MIN <= sf + 0) by (unfold TS_I32_MIN; lia).
  pose proof (eps_accept_ri_ok _ _ _ _ _ _ Ha Hs Hok) as Hok4.
  destruct (eps_accept_spec _ _ _ _ _ _ _ Ha Hmin) as (A & B & C & D & E & F & _).
  eps_others_inj A. unfold eps_window_ok in Hw.
  destruct (eps_ri_ok_lrf _ Hok) as (L3 & K3 & M3). destruct (eps_ri_ok_lrf _ Hok4) as (L4 & K4 & M4).
  rewrite O20 in Ew. destruct (eps_retain_arith _ _ _ _ _ Hw L4 Ew Elo) as (-> & ->).
  set (lo' := Z.min (last_recv_frame s4 - 2 * u_max_prediction s3) (sf - 1)).
  assert (Hlo' : lo' <= last_recv_frame s4) by (subst lo'; lia).
  destruct Hok4 as (N4 & Ne4 & R4).
  rewrite eps_lrf_eq in Hlo'. destruct (eps_lrf_retain lo' _ Ne4 Hlo') as (Ne' & El').
  set (ri' := aretain_ge lo' (u_recv_inputs s4)) in *.
  assert (Hri : u_recv_inputs (set_recv_inputs ri' (send_input_ack now s4)) = ri') by reflexivity.
  assert (Hlrf : last_recv_frame (set_recv_inputs ri' (send_input_ack now s4)) = last_recv_frame s4).
  { rewrite !eps_lrf_eq, Hri. exact El'. }
  assert (Hsub : forall k, In k (eps_keys ri') -> In k (eps_keys (u_recv_inputs s4)) /\ lo' <= k).
  { intros k X. apply eps_keys_retain in X. exact X. }
  assert (Hok' : eps_ri_ok (set_recv_inputs ri' (send_input_ack now s4))).
  { unfold eps_ri_ok. rewrite Hri. split; [apply eps_nodup_filter_keys; exact N4|]. split; [exact Ne'|].
    apply Forall_forall. intros k X. rewrite Forall_forall in R4. apply R4. apply Hsub. exact X. }
  split; [exact Hok'|]. split; [exact Hlrf|]. split; [exact E|].
  rewrite Hlrf, Hri.
  assert (Hrange : forall k, In k (eps_keys ri') -> lo' <= k <= last_recv_frame s4).
  { intros k X. destruct (Hsub k X) as (X1 & X2). split; [exact X2|apply M4; exact X1]. }
  split.
  { pose proof (eps_nodup_range_length (eps_keys ri') lo' (last_recv_frame s4)
                  (proj1 Hok') Hrange) as P. rewrite eps_keys_length in P. subst lo'. unfold ibytes in *. lia. }
  split.
  { (* either nothing new survives, or last_recv_frame is a frame of this packet *)
    destruct (Z_le_gt_dec (last_recv_frame s4) (last_recv_frame s3)) as [Hsame|Hnew].
    - left. assert (P : (length (eps_keys ri') <= length (eps_keys (u_recv_inputs s3)))%nat).
      { apply NoDup_incl_length; [exact (proj1 Hok')|].
        intros k X. destruct (Hsub k X) as (X1 & _). unfold eps_keys in X1. apply in_map_iff in X1.
        destruct X1 as ([k0 v] & Ek & X1). cbn in Ek. subst k0.
        destruct (D _ _ X1) as [Y|(Y1 & _)]; [exact (in_map fst _ _ Y)|].
        specialize (M4 k (in_map fst _ _ X1)). cbn [fst] in M4. lia. }
      rewrite !eps_keys_length in P. unfold ibytes in *. exact P.
    - right. unfold eps_keys in K4. apply in_map_iff in K4. destruct K4 as ([k0 v] & Ek & X1). cbn in Ek.
      destruct (D _ _ X1) as [Y|(Y1 & _)]; [|lia].
      specialize (M3 k0 (in_map fst _ _ Y)). cbn [fst] in M3. lia. }
  split.
  { intros k v X. unfold ri', aretain_ge in X. apply filter_In in X. tauto. }
  intros k v X Hk. apply eps_alookup_nodup; [exact (proj1 Hok')|].
  unfold ri', aretain_ge. apply filter_In. split; [eapply eps_accept_keeps; eauto|]. cbn [fst]. subst lo'. lia.
Qed.

(* ---------- what any exit of handle_message(Input) does to the other fields ---------- *)
Lemma eps_pop_pending_length : forall ack po la po' la',
  pop_pending ack po la = (po', la') -> (length po' <= length po)%nat.
Proof.
  induction po as [|x r IH]; intros la po' la' H; cbn [pop_pending] in H.
  - inversion H. cbn. lia.
  - destruct (fst x <=? ack); [apply IH in H; cbn [length]; lia|inversion H; lia].
Qed.

Lemma eps_input_exit_effect : forall dbg now st dr sf af bytes s s',
  eps_input_exit dbg now st dr sf af bytes s s' ->
  u_state s' = u_state s /\ (u_event_sent s = true -> u_event_sent s' = true) /\
  u_num_players s' = u_num_players s /\ u_handles s' = u_handles s /\ u_max_prediction s' = u_max_prediction s /\
  u_desync s' = u_desync s /\ u_magic s' = u_magic s /\ u_remote_magic s' = u_remote_magic s /\
  u_pending_checksums s' = u_pending_checksums s /\
  length (u_peer_status s') = length (u_peer_status s) /\
  ((u_pending_output s', u_last_acked s') = (u_pending_output s, u_last_acked s) \/
   (u_pending_output s', u_last_acked s') = pop_pending af (u_pending_output s) (u_last_acked s)) /\
  (u_send_queue s' = u_send_queue s \/
   exists f, u_send_queue s' = u_send_queue s ++ [mkMsg (u_magic s) (InputAck f)]).
Proof.
  intros dbg now st dr sf af bytes s s' H.
  pose proof (eps_touch_fields now s) as T. unfold eps_only_touched in T.
  assert (Hhdr : forall s2, eps_header st dr af (eps_touch now s) = Ok s2 ->
    u_state s2 = u_state s /\ (u_event_sent s = true -> u_event_sent s2 = true) /\
    u_num_players s2 = u_num_players s /\ u_handles s2 = u_handles s /\ u_max_prediction s2 = u_max_prediction s /\
    u_desync s2 = u_desync s /\ u_magic s2 = u_magic s /\ u_remote_magic s2 = u_remote_magic s /\
    u_pending_checksums s2 = u_pending_checksums s /\
    length (u_peer_status s2) = length (u_peer_status s) /\
    (u_pending_output s2, u_last_acked s2) = pop_pending af (u_pending_output s) (u_last_acked s) /\
    u_send_queue s2 = u_send_queue s).
  { intros s2 Eh. destruct (eps_header_touch _ _ _ _ _ _ Eh) as (Ho & _). unfold eps_header_only in Ho.
    destruct Ho as (H1&H2&H3&H4&H5&H6&H7&H8&H9&H10&H11&H12&H13&H14&H15&H16&H17&H18&H19&H20&H21&H22&H23&H24&H25&H26&H27&H28&H29&H30).
    repeat (split; [first [assumption | congruence | (intro X; rewrite H28, X; reflexivity)]|]).
    split; [|split; assumption].
    destruct dr; [congruence|]. eapply eps_merge_status_length; eauto. }
  destruct H.
  - repeat (split; [first [reflexivity | (intro X; exact X)]|]). split; left; reflexivity.
  - destruct T as (T1&T2&T3&T4&T5&T6&T7&T8&T9&T10&T11&T12&T13&T14&T15&T16&T17&T18&T19&T20&T21&T22&T23&T24&T25&T26&T27&T28&T29&T30&T31&T32).
    repeat (split; [first [assumption | congruence]|]). split; left; congruence.
  - destruct (Hhdr _ H) as (A1&A2&A3&A4&A5&A6&A7&A8&A9&A10&A11&A12).
    repeat (split; [first [assumption | congruence]|]). split; [right; assumption|left; assumption].
  - destruct (Hhdr _ H) as (A1&A2&A3&A4&A5&A6&A7&A8&A9&A10&A11&A12). fsimpl.
    repeat (split; [first [assumption | congruence]|]). split; [right; assumption|right].
    rewrite A12, A7. eexists. reflexivity.
  - destruct (Hhdr _ H) as (A1&A2&A3&A4&A5&A6&A7&A8&A9&A10&A11&A12). fsimpl.
    repeat (split; [first [assumption | congruence]|]). split; [right; assumption|left; assumption].
  - destruct (Hhdr _ H) as (A1&A2&A3&A4&A5&A6&A7&A8&A9&A10&A11&A12).
    assert (Hmin : TS_I32_MIN <= sf + 0) by (unfold TS_I32_MIN; lia).
    destruct (eps_accept_spec _ _ _ _ _ _ _ H3 Hmin) as (A & _). eps_others_inj A. fsimpl.
    repeat (split; [first [congruence | (intro X; rewrite O10; auto)]|]).
    split; [right; congruence|left; congruence].
  - destruct (Hhdr _ H) as (A1&A2&A3&A4&A5&A6&A7&A8&A9&A10&A11&A12).
    assert (Hmin : TS_I32_MIN <= sf + 0) by (unfold TS_I32_MIN; lia).
    destruct (eps_accept_spec _ _ _ _ _ _ _ H3 Hmin) as (A & _). eps_others_inj A. fsimpl.
    repeat (split; [first [congruence | (intro X; rewrite O10; auto)]|]).
    split; [right; congruence|right]. rewrite O3, O15, A12, A7. eexists. reflexivity.
Qed.

Lemma eps_input_exit_ri : forall dbg now st dr sf af bytes s s',
  eps_input_exit dbg now st dr sf af bytes s s' -> eps_window_ok s -> eps_ri_ok s ->
  eps_ri_ok s' /\ last_recv_frame s <= last_recv_frame s'.
Proof.
  intros dbg now st dr sf af bytes s s' H Hw Hok.
  assert (Hhdr : forall s2, eps_header st dr af (eps_touch now s) = Ok s2 ->
            u_recv_inputs s2 = u_recv_inputs s /\ u_max_prediction s2 = u_max_prediction s).
  { intros s2 Eh. destruct (eps_header_touch _ _ _ _ _ _ Eh) as (Ho & _). split; apply Ho. }
  assert (Hsame : forall t, u_recv_inputs t = u_recv_inputs s -> eps_ri_ok t /\ last_recv_frame s <= last_recv_frame t).
  { intros t E. split; [eapply eps_ri_ok_ext; eauto|]. rewrite (eps_last_recv_frame_ext _ _ E). lia. }
  destruct H.
  - apply Hsame. reflexivity.
  - apply Hsame. apply (eps_touch_fields now s).
  - apply Hsame. apply Hhdr. assumption.
  - apply Hsame. fsimpl. apply Hhdr. assumption.
  - apply Hsame. fsimpl. apply Hhdr. assumption.
  - destruct (Hhdr _ H) as (E1 & E2).
    set (s3 := set_last_input_recv now s2) in *.
    assert (Hok3 : eps_ri_ok s3) by (eapply eps_ri_ok_ext; [|exact Hok]; exact E1).
    split; [eapply eps_accept_ri_ok; eauto|].
    assert (Hmin : TS_I32_MIN <= sf + 0) by (unfold TS_I32_MIN; lia).
    destruct (eps_accept_spec _ _ _ _ _ _ _ H3 Hmin) as (_ & _ & _ & _ & E & _).
    assert (last_recv_frame s3 = last_recv_frame s) as <- by (apply eps_last_recv_frame_ext; exact E1). exact E.
  - destruct (Hhdr _ H) as (E1 & E2).
    set (s3 := set_last_input_recv now s2) in *.
    assert (Hok3 : eps_ri_ok s3) by (eapply eps_ri_ok_ext; [|exact Hok]; exact E1).
    assert (Hw3 : eps_window_ok s3) by (unfold eps_window_ok in *; change (u_max_prediction s3) with (u_max_prediction s2); rewrite E2; exact Hw).
    assert (L3 : last_recv_frame s3 = last_recv_frame s) by (apply eps_last_recv_frame_ext; exact E1).
    destruct (eps_complete_exit_ri dbg now sf inputs s3 s4 w lo ref Hok3 Hw3 H0 H1 H3 H4 H5) as (A & B & C & _).
    split; [exact A|]. rewrite B, <- L3. exact C.
Qed.

(* ---------- the invariant of reachable endpoint states ---------- *)
Definition eps_inv (s : ep) : Prop :=
  eps_wf s /\
  ((PENDING_OUTPUT_SIZE < N.of_nat (length (u_pending_output s)))%N -> u_event_sent s = true) /\
  (eps_window_ok s -> eps_ri_ok s).

Lemma eps_inv_core : forall s s', eps_core s' = eps_core s -> (u_event_sent s = true -> u_event_sent s' = true) ->
  eps_inv s -> eps_inv s'.
Proof.
  intros s s' Hc He (W & P & R). eps_core_inj Hc. unfold eps_inv, eps_wf, eps_window_ok, eps_ri_ok in *.
  rewrite C1, C3, C6, C8, C9. auto.
Qed.

Ltac eps_unstep H :=
  unfold step in H; cbn [step_gen] in H;
  change (handle_message_gen current_code) with handle_message in H;
  change (poll_gen current_code) with poll in H;
  change (send_input_gen current_code) with send_input in H.

Lemma eps_input_body_dec : forall m, (exists st dr sf af bytes, m_body m = Input st dr sf af bytes) \/
  (forall st dr sf af bytes, m_body m <> Input st dr sf af bytes).
Proof. intro m. destruct (m_body m); try (right; intros; discriminate). left. eauto 6. Qed.

Lemma eps_pop_pending_output_fields : forall f s,
  (u_pending_output (pop_pending_output f s), u_last_acked (pop_pending_output f s)) =
    pop_pending f (u_pending_output s) (u_last_acked s) /\
  u_peer_status (pop_pending_output f s) = u_peer_status s /\
  u_num_players (pop_pending_output f s) = u_num_players s /\
  u_recv_inputs (pop_pending_output f s) = u_recv_inputs s /\
  u_max_prediction (pop_pending_output f s) = u_max_prediction s /\
  u_pending_checksums (pop_pending_output f s) = u_pending_checksums s /\
  u_desync (pop_pending_output f s) = u_desync s /\ u_handles (pop_pending_output f s) = u_handles s.
Proof. intros f s. unfold pop_pending_output. destruct (pop_pending _ _ _). fsimpl. repeat split. Qed.

Lemma eps_inv_step : forall dbg o s s' out, eps_inv s -> step dbg o s = Ok (s', out) -> eps_inv s'.
Proof.
  intros dbg o s s' out HI H.
  destruct o as [now nonce|now nonce m|now nonce cs|now inputs cs|now|now fr ck|lf|]; eps_unstep H.
  - destruct (synchronize now nonce s) as [t| |] eqn:E; inversion H; subst; clear H.
    apply eps_synchronize_effect in E. destruct E as (A & _ & B & _). eapply eps_inv_core; eauto; congruence.
  - destruct (handle_message dbg now nonce m s) as [t| |] eqn:E; inversion H; subst; clear H.
    destruct (eps_input_body_dec m) as [(st & dr & sf & af & bytes & Eb)|Hn].
    + pose proof (eps_input_exits _ _ _ _ _ _ _ _ _ _ _ Eb E) as X.
      destruct (eps_input_exit_effect _ _ _ _ _ _ _ _ _ X) as (A1&A2&A3&A4&A5&A6&A7&A8&A9&A10&A11&A12).
      destruct HI as (W & P & R). split; [|split].
      * unfold eps_wf in *. congruence.
      * intro L. apply A2. apply P.
        destruct A11 as [A11|A11]; [inversion A11; congruence|].
        destruct (pop_pending af (u_pending_output s) (u_last_acked s)) as [po la] eqn:Ep. inversion A11; subst.
        apply eps_pop_pending_length in Ep. lia.
      * intro Hw. assert (Hw0 : eps_window_ok s) by (unfold eps_window_ok in *; congruence).
        exact (proj1 (eps_input_exit_ri _ _ _ _ _ _ _ _ _ X Hw0 (R Hw0))).
    + destruct (eps_handle_other_effect _ _ _ _ _ _ Hn E) as (_ & B & _ & D).
      assert (He : u_event_sent s = true -> u_event_sent s' = true) by congruence.
      destruct (m_body m) eqn:Eb; try (eapply eps_inv_core; eauto; fail).
      * destruct D as [D|D]; [eapply eps_inv_core; eauto|].
        destruct (eps_pop_pending_output_fields ack_frame s) as (F1&F2&F3&F4&F5&_).
        eps_core_inj D. destruct HI as (W & P & R). unfold eps_inv, eps_wf, eps_window_ok, eps_ri_ok in *.
        rewrite C1, C3, C6, C8, C9, F2, F3, F4, F5. split; [exact W|]. split; [|exact R].
        intro L. apply He, P.
        destruct (pop_pending ack_frame (u_pending_output s) (u_last_acked s)) as [po la] eqn:Ep.
        inversion F1 as [[Q1 Q2]]. rewrite Q1 in L. apply eps_pop_pending_length in Ep. lia.
      * destruct D as [D|(t & D1 & D2)]; [eapply eps_inv_core; eauto|].
        destruct (eps_on_checksum_report_effect _ _ _ _ _ D1) as (pcs & -> & _).
        eps_core_inj D2. destruct HI as (W & P & R). unfold eps_inv, eps_wf, eps_window_ok, eps_ri_ok in *. fsimpl.
        rewrite C1, C3, C6, C8, C9. split; [exact W|]. split; [|exact R]. intro L. apply He, P. exact L.
  - destruct (poll now nonce cs s) as [[evs t]| |] eqn:E; inversion H; subst; clear H.
    apply eps_poll_effect in E. destruct E as (A & _ & B & _). eapply eps_inv_core; eauto.
  - destruct (send_input now inputs cs s) as [t| |] eqn:E; inversion H; subst; clear H.
    apply eps_send_input_effect in E. destruct E as [(_ & ->)|(_ & _ & data & _ & A & B & _)]; [exact HI|].
    eps_core_inj A. fsimpl. destruct HI as (W & P & R). unfold eps_inv, eps_wf, eps_window_ok, eps_ri_ok in *.
    rewrite C1, C3, C6, C8, C9. split; [exact W|]. split; [|exact R].
    intro L. rewrite B. apply orb_true_iff. right. lia.
  - inversion H; subst; clear H. eapply eps_inv_core; [| |exact HI].
    + unfold disconnect. destruct (pstate_eqb (u_state s) PShutdown); reflexivity.
    + unfold disconnect. destruct (pstate_eqb (u_state s) PShutdown); auto.
  - inversion H; subst; clear H. eapply eps_inv_core; [| |exact HI]; [reflexivity|auto].
  - unfold update_local_frame_advantage in H.
    destruct (ts_update_local_frame_advantage _ _ _ _ _ _); inversion H; subst. eapply eps_inv_core; [| |exact HI]; [reflexivity|auto].
  - inversion H; subst; clear H. eapply eps_inv_core; [| |exact HI]; [reflexivity|auto].
Qed.

Lemma eps_run_cons : forall dbg o r s s' evs,
  run dbg s (o :: r) = Ok (s', evs) ->
  exists s1 e1 e2, step dbg o s = Ok (s1, e1) /\ run dbg s1 r = Ok (s', e2) /\ evs = e1 ++ e2.
Proof.
  intros dbg o r s s' evs H. unfold run in *. cbn [run_gen] in H. change (step_gen current_code) with step in H.
  destruct (step dbg o s) as [[s1 e1]| |]; try discriminate.
  destruct (run_gen current_code dbg s1 r) as [[s2 e2]| |] eqn:E2; try discriminate.
  inversion H; subst. eauto 7.
Qed.

Lemma eps_run_app : forall dbg a b s s' evs,
  run dbg s (a ++ b) = Ok (s', evs) ->
  exists s1 e1 e2, run dbg s a = Ok (s1, e1) /\ run dbg s1 b = Ok (s', e2) /\ evs = e1 ++ e2.
Proof.
  induction a as [|o a IH]; intros b s s' evs H; cbn [app] in H.
  - exists s, [], evs. split; [reflexivity|]. auto.
  - apply eps_run_cons in H. destruct H as (s1 & e1 & e2 & H1 & H2 & ->).
    apply IH in H2. destruct H2 as (s2 & e3 & e4 & H3 & H4 & ->).
    exists s2, (e1 ++ e3), e4. split; [|split; [exact H4|apply app_assoc]].
    unfold run in *. cbn [run_gen]. change (step_gen current_code) with step. rewrite H1, H3. reflexivity.
Qed.

Lemma eps_inv_run : forall dbg ops s s' evs, eps_inv s -> run dbg s ops = Ok (s', evs) -> eps_inv s'.
Proof.
  induction ops as [|o r IH]; intros s s' evs HI H.
  - inversion H; subst. exact HI.
  - apply eps_run_cons in H. destruct H as (s1 & e1 & e2 & H1 & H2 & _).
    eapply IH; [|exact H2]. eapply eps_inv_step; eauto.
Qed.

Lemma eps_inv_new : forall now magic handles np lp mp timeout notify fps desync,
  eps_inv (ep_new now magic handles np lp mp timeout notify fps desync).
Proof.
  intros. unfold eps_inv, eps_wf, eps_ri_ok. cbn. split; [apply repeat_length|]. split; [intro X; exfalso; revert X; vm_compute; discriminate|].
  intros _. split; [constructor; [intros []|constructor]|]. split; [discriminate|].
  constructor; [unfold NULL, TS_I32_MAX; lia|constructor].
Qed.

(* every reachable endpoint state *)
Lemma eps_reach_inv : forall now magic handles np lp mp timeout notify fps desync dbg ops s evs,
  run dbg (ep_new now magic handles np lp mp timeout notify fps desync) ops = Ok (s, evs) -> eps_inv s.
Proof. intros. eapply eps_inv_run; [apply eps_inv_new|eauto]. Qed.

(* ====================================================================================== *)
(* C18: buffer sizes                                                                       *)
(* ====================================================================================== *)
Lemma eps_appended_mono : forall k k' s s', (k <= k')%nat -> eps_appended k s s' -> eps_appended k' s s'.
Proof. intros k k' s s' L (q & A & B & C). exists q. split; [exact A|]. split; [lia|exact C]. Qed.

(* send_queue: emptied by drain (send_all_messages); otherwise at most two messages per operation are
   appended (nothing is ever removed or reordered), all under the endpoint's own magic *)
Lemma eps_send_queue_step : forall dbg o s s' out, step dbg o s = Ok (s', out) ->
  match o with ODrain => u_send_queue s' = [] | _ => eps_appended 2 s s' end.
Proof.
  intros dbg o s s' out H.
  destruct o as [now nonce|now nonce m|now nonce cs|now inputs cs|now|now fr ck|lf|]; eps_unstep H.
  - destruct (synchronize now nonce s) as [t| |] eqn:E; inversion H; subst; clear H.
    apply eps_synchronize_effect in E. destruct E as (_ & A & _). eapply eps_appended_mono; [|exact A]. lia.
  - destruct (handle_message dbg now nonce m s) as [t| |] eqn:E; inversion H; subst; clear H.
    destruct (eps_input_body_dec m) as [(st & dr & sf & af & bytes & Eb)|Hn].
    + pose proof (eps_input_exits _ _ _ _ _ _ _ _ _ _ _ Eb E) as X.
      destruct (eps_input_exit_effect _ _ _ _ _ _ _ _ _ X) as (_&_&_&_&_&_&_&_&_&_&_&[A|(f & A)]).
      * apply eps_appended_same. exact A.
      * exists [mkMsg (u_magic s) (InputAck f)]. split; [exact A|]. split; [cbn; lia|].
        constructor; [reflexivity|constructor].
    + destruct (eps_handle_other_effect _ _ _ _ _ _ Hn E) as (A & _). eapply eps_appended_mono; [|exact A]. lia.
  - destruct (poll now nonce cs s) as [[evs t]| |] eqn:E; inversion H; subst; clear H.
    apply eps_poll_effect in E. tauto.
  - destruct (send_input now inputs cs s) as [t| |] eqn:E; inversion H; subst; clear H.
    apply eps_send_input_effect in E. destruct E as [(_ & ->)|(_ & _ & data & _ & _ & _ & _ & f & _ & A)].
    + apply eps_appended_refl.
    + eexists [_]. split; [exact A|]. split; [cbn; lia|]. constructor; [reflexivity|constructor].
  - inversion H; subst; clear H. apply eps_appended_same.
    unfold disconnect. destruct (pstate_eqb (u_state s) PShutdown); reflexivity.
  - inversion H; subst; clear H. unfold eps_appended. fsimpl. eexists [_]. split; [reflexivity|].
    split; [cbn; lia|]. constructor; [reflexivity|constructor].
  - unfold update_local_frame_advantage in H.
    destruct (ts_update_local_frame_advantage _ _ _ _ _ _); inversion H; subst. apply eps_appended_same. reflexivity.
  - inversion H; subst; clear H. reflexivity.
Qed.

(* ---------- pending_output ---------- *)
Definition eps_is_send (o : op) : bool := match o with OSendInput _ _ _ => true | _ => false end.
Definition eps_count_sends (ops : list op) : nat := length (filter eps_is_send ops).

(* only send_input lets pending_output grow, by one entry, and only at a Running endpoint; the state
   Disconnected / Shutdown is never left *)
Lemma eps_pending_output_step : forall dbg o s s' out, step dbg o s = Ok (s', out) ->
  (length (u_pending_output s') <= length (u_pending_output s) + (if eps_is_send o then 1 else 0))%nat /\
  (eps_dead s -> eps_dead s' /\ (length (u_pending_output s') <= length (u_pending_output s))%nat).
Proof.
  intros dbg o s s' out H.
  assert (Hcore : forall t, eps_core t = eps_core s -> u_pending_output t = u_pending_output s)
    by (intros t X; eps_core_inj X; assumption).
  destruct o as [now nonce|now nonce m|now nonce cs|now inputs cs|now|now fr ck|lf|]; eps_unstep H; cbn [eps_is_send].
  - destruct (synchronize now nonce s) as [t| |] eqn:E; inversion H; subst; clear H.
    apply eps_synchronize_effect in E. destruct E as (A & _ & _ & B & _). rewrite (Hcore _ A).
    split; [lia|]. intros [D|D]; congruence.
  - destruct (handle_message dbg now nonce m s) as [t| |] eqn:E; inversion H; subst; clear H.
    assert (Hpop : forall f po la, (po, la) = pop_pending f (u_pending_output s) (u_last_acked s) ->
                     (length po <= length (u_pending_output s))%nat).
    { intros f po la X. symmetry in X. apply eps_pop_pending_length in X. exact X. }
    destruct (eps_input_body_dec m) as [(st & dr & sf & af & bytes & Eb)|Hn].
    + pose proof (eps_input_exits _ _ _ _ _ _ _ _ _ _ _ Eb E) as X.
      destruct (eps_input_exit_effect _ _ _ _ _ _ _ _ _ X) as (A1&_&_&_&_&_&_&_&_&_&A11&_).
      assert (L : (length (u_pending_output s') <= length (u_pending_output s))%nat).
      { destruct A11 as [A11|A11]; [inversion A11; lia|]. eapply Hpop. exact A11. }
      split; [lia|]. intros D. split; [unfold eps_dead in *; rewrite A1; exact D|exact L].
    + destruct (eps_handle_other_effect _ _ _ _ _ _ Hn E) as (_ & _ & C & D).
      assert (L : (length (u_pending_output s') <= length (u_pending_output s))%nat).
      { destruct (m_body m) eqn:Eb; try (rewrite (Hcore _ D); lia).
        - destruct D as [D|D]; [rewrite (Hcore _ D); lia|].
          destruct (eps_pop_pending_output_fields ack_frame s) as (F1 & _). eps_core_inj D. rewrite C6.
          eapply Hpop. exact F1.
        - destruct D as [D|(t & D1 & D2)]; [rewrite (Hcore _ D); lia|].
          destruct (eps_on_checksum_report_effect _ _ _ _ _ D1) as (pcs & -> & _). fsimpl. rewrite (Hcore _ D2). lia. }
      split; [lia|]. intros Dd. split; [|exact L]. unfold eps_dead in *.
      destruct C as [C|(C & _)]; [rewrite C; exact Dd|destruct Dd; congruence].
  - destruct (poll now nonce cs s) as [[evs t]| |] eqn:E; inversion H; subst; clear H.
    apply eps_poll_effect in E. destruct E as (A & _ & _ & B & _). rewrite (Hcore _ A). split; [lia|].
    intro D. split; [|lia]. unfold eps_dead in *. destruct B as [B|(_ & B)]; [rewrite B; exact D|auto].
  - destruct (send_input now inputs cs s) as [t| |] eqn:E; inversion H; subst; clear H.
    apply eps_send_input_effect in E. destruct E as [(_ & ->)|(R & _ & data & _ & A & _)].
    + split; [lia|]. intro D. split; [exact D|lia].
    + eps_core_inj A. fsimpl. rewrite C6, app_length. cbn [length]. split; [lia|]. intros [D|D]; congruence.
  - inversion H; subst; clear H. unfold disconnect, eps_dead.
    destruct (pstate_eqb (u_state s) PShutdown) eqn:Es.
    + apply pstate_eqb_eq in Es. split; [lia|]. intros _. split; [auto|lia].
    + fsimpl. split; [lia|]. intros _. split; [auto|lia].
  - inversion H; subst; clear H. fsimpl. split; [lia|]. intro D. split; [exact D|lia].
  - unfold update_local_frame_advantage in H.
    destruct (ts_update_local_frame_advantage _ _ _ _ _ _); inversion H; subst. fsimpl. split; [lia|].
    intro D. split; [exact D|lia].
  - inversion H; subst; clear H. unfold drain. fsimpl. split; [lia|]. intro D. split; [exact D|lia].
Qed.

Lemma eps_pending_output_run : forall dbg ops s s' evs, run dbg s ops = Ok (s', evs) ->
  (length (u_pending_output s') <= length (u_pending_output s) + eps_count_sends ops)%nat /\
  (eps_dead s -> eps_dead s' /\ (length (u_pending_output s') <= length (u_pending_output s))%nat).
Proof.
  induction ops as [|o r IH]; intros s s' evs H.
  - inversion H; subst. cbn. split; [lia|]. intro D. split; [exact D|lia].
  - apply eps_run_cons in H. destruct H as (s1 & e1 & e2 & H1 & H2 & _).
    destruct (eps_pending_output_step _ _ _ _ _ H1) as (A & B). destruct (IH _ _ _ H2) as (C & D).
    unfold eps_count_sends in *. cbn [filter]. split.
    + destruct (eps_is_send o); cbn [length]; lia.
    + intro X. destruct (B X) as (B1 & B2). destruct (D B1) as (D1 & D2). split; [exact D1|lia].
Qed.

(* the bound: while Disconnected has not been raised there are at most PENDING_OUTPUT_SIZE entries; if the
   caller answers the event with `disconnect` (as the sessions do), the number of entries never exceeds
   PENDING_OUTPUT_SIZE + the number of send_input calls made between the last state without the event and
   the disconnect call *)
Lemma eps_pending_output_bound : forall dbg s ops1 now ops2 s' evs,
  eps_inv s -> u_event_sent s = false ->
  run dbg s (ops1 ++ ODisconnect now :: ops2) = Ok (s', evs) ->
  (length (u_pending_output s') <= N.to_nat PENDING_OUTPUT_SIZE + eps_count_sends ops1)%nat.
Proof.
  intros dbg s ops1 now ops2 s' evs (_ & P & _) He H.
  apply eps_run_app in H. destruct H as (s1 & e1 & e2 & H1 & H2 & _).
  apply eps_run_cons in H2. destruct H2 as (s2 & e3 & e4 & H3 & H4 & _).
  destruct (eps_pending_output_run _ _ _ _ _ H1) as (A & _).
  destruct (eps_pending_output_step _ _ _ _ _ H3) as (B & _). cbn [eps_is_send] in B.
  assert (D2 : eps_dead s2).
  { eps_unstep H3. inversion H3; subst. unfold disconnect, eps_dead.
    destruct (pstate_eqb (u_state s1) PShutdown) eqn:Es; [apply pstate_eqb_eq in Es; auto|fsimpl; auto]. }
  destruct (eps_pending_output_run _ _ _ _ _ H4) as (_ & C). destruct (C D2) as (_ & C2).
  assert (L : (length (u_pending_output s) <= N.to_nat PENDING_OUTPUT_SIZE)%nat).
  { destruct (N.ltb PENDING_OUTPUT_SIZE (N.of_nat (length (u_pending_output s)))) eqn:X.
    - apply N.ltb_lt in X. rewrite (P X) in He. discriminate.
    - apply N.ltb_ge in X. lia. }
  lia.
Qed.

(* ---------- recv_inputs ---------- *)
(* an operation none of whose decoded frames has the wrong size (every genuine packet) *)
Definition eps_shaped (dbg : bool) (nh : nat) (o : op) : Prop :=
  match o with
  | OMessage _ _ m =>
    match m_body m with
    | Input _ _ _ _ bytes =>
      forall ref inputs, Codec.decode dbg ref bytes = Ok inputs ->
                         Forall (fun i => to_player_inputs nh i <> None) inputs
    | _ => True
    end
  | _ => True
  end.

Definition eps_ri_bound (s : ep) : Z := Z.max (2 * u_max_prediction s) (Z.of_N MAX_DECODED_INPUTS) + 1.

(* per operation: recv_inputs changes only in handle_message(Input) and grows by at most
   MAX_DECODED_INPUTS entries; with well-sized frames it stays within the bound *)
Lemma eps_recv_inputs_step : forall dbg o s s' out, step dbg o s = Ok (s', out) ->
  (length (u_recv_inputs s') <= length (u_recv_inputs s) + N.to_nat MAX_DECODED_INPUTS)%nat /\
  u_handles s' = u_handles s /\ u_max_prediction s' = u_max_prediction s /\
  (eps_inv s -> eps_window_ok s -> eps_shaped dbg (length (u_handles s)) o ->
   Z.of_nat (length (u_recv_inputs s)) <= eps_ri_bound s -> Z.of_nat (length (u_recv_inputs s')) <= eps_ri_bound s).
Proof.
  intros dbg o s s' out H.
  assert (Hcore : forall t, eps_core t = eps_core s ->
            u_recv_inputs t = u_recv_inputs s /\ u_handles t = u_handles s /\ u_max_prediction t = u_max_prediction s)
    by (intros t X; eps_core_inj X; auto).
  assert (Hsame : forall t, u_recv_inputs t = u_recv_inputs s /\ u_handles t = u_handles s /\
                            u_max_prediction t = u_max_prediction s ->
     (length (u_recv_inputs t) <= length (u_recv_inputs s) + N.to_nat MAX_DECODED_INPUTS)%nat /\
     u_handles t = u_handles s /\ u_max_prediction t = u_max_prediction s /\
     (eps_inv s -> eps_window_ok s -> eps_shaped dbg (length (u_handles s)) o ->
      Z.of_nat (length (u_recv_inputs s)) <= eps_ri_bound s -> Z.of_nat (length (u_recv_inputs t)) <= eps_ri_bound s)).
  { intros t (A & B & C). rewrite A. split; [lia|]. split; [exact B|]. split; [exact C|]. auto. }
  destruct o as [now nonce|now nonce m|now nonce cs|now inputs cs|now|now fr ck|lf|]; eps_unstep H.
  - destruct (synchronize now nonce s) as [t| |] eqn:E; inversion H; subst; clear H.
    apply eps_synchronize_effect in E. apply Hsame, Hcore. tauto.
  - destruct (handle_message dbg now nonce m s) as [t| |] eqn:E; inversion H; subst; clear H.
    destruct (eps_input_body_dec m) as [(st & dr & sf & af & bytes & Eb)|Hn].
    2:{ destruct (eps_handle_other_effect _ _ _ _ _ _ Hn E) as (_ & _ & _ & D).
        destruct (m_body m) eqn:Eb; try (apply Hsame, Hcore; exact D).
        - destruct D as [D|D]; [apply Hsame, Hcore; exact D|].
          destruct (eps_pop_pending_output_fields ack_frame s) as (_&_&_&F4&F5&_&_&F8). eps_core_inj D.
          apply Hsame. repeat split; congruence.
        - destruct D as [D|(t & D1 & D2)]; [apply Hsame, Hcore; exact D|].
          destruct (eps_on_checksum_report_effect _ _ _ _ _ D1) as (pcs & -> & _). fsimpl. apply Hsame, Hcore. exact D2. }
    pose proof (eps_input_exits _ _ _ _ _ _ _ _ _ _ _ Eb E) as X.
    destruct (eps_input_exit_effect _ _ _ _ _ _ _ _ _ X) as (_&_&_&A4&A5&_).
    assert (Hhdr : forall s2, eps_header st dr af (eps_touch now s) = Ok s2 -> u_recv_inputs s2 = u_recv_inputs s).
    { intros s2 Eh. destruct (eps_header_touch _ _ _ _ _ _ Eh) as (Ho & _). apply Ho. }
    destruct X as [ | |s2 Eh|s2 Eh|s2 ref Eh|s2 ref ins s4 Eh Hs El Ed Ea|s2 ref ins s4 w lo Eh Hs El Ed Ea Ew Elo].
    + apply Hsame. auto.
    + apply Hsame. split; [apply (eps_touch_fields now s)|auto].
    + apply Hsame. split; [apply Hhdr; assumption|auto].
    + apply Hsame. split; [fsimpl; apply Hhdr; assumption|auto].
    + apply Hsame. split; [fsimpl; apply Hhdr; assumption|auto].
    + (* wrong-size exit: grows, excluded for well-sized traffic *)
      assert (Hmin : TS_I32_MIN <= sf + 0) by (unfold TS_I32_MIN; lia).
      destruct (eps_accept_spec _ _ _ _ _ _ _ Ea Hmin) as (_ & _ & _ & _ & _ & F & _).
      destruct (decode_bounded eps_cap_ok _ _ _ _ Ed) as (_ & _ & Hn).
      change (u_recv_inputs (set_last_input_recv now s2)) with (u_recv_inputs s2) in F. rewrite (Hhdr _ Eh) in F.
      split; [lia|]. split; [exact A4|]. split; [exact A5|]. intros _ _ Hsh _. exfalso.
      cbn [eps_shaped] in Hsh. rewrite Eb in Hsh.
      destruct (eps_accept_false _ _ _ _ _ _ Ea) as (pre & bad & post & fr & E1 & _ & _ & _ & E5).
      specialize (Hsh _ _ Ed). rewrite Forall_forall in Hsh. rewrite A4 in E5.
      apply (Hsh bad); [rewrite E1; apply in_app_iff; right; left; reflexivity|exact E5].
    + assert (Hmin : TS_I32_MIN <= sf + 0) by (unfold TS_I32_MIN; lia).
      destruct (eps_accept_spec _ _ _ _ _ _ _ Ea Hmin) as (_ & _ & _ & _ & _ & F & _).
      destruct (decode_bounded eps_cap_ok _ _ _ _ Ed) as (_ & _ & Hn).
      change (u_recv_inputs (set_last_input_recv now s2)) with (u_recv_inputs s2) in F. rewrite (Hhdr _ Eh) in F.
      split.
      { fsimpl. pose proof (eps_filter_length (fun kv : Z * list N => Z.min lo (sf - 1) <=? fst kv) (u_recv_inputs s4)) as FL.
        unfold aretain_ge. unfold ibytes in *. lia. }
      split; [exact A4|]. split; [exact A5|]. intros (_ & _ & R) Hw _ Hb.
      set (s3 := set_last_input_recv now s2) in *.
      assert (Hok3 : eps_ri_ok s3) by (eapply eps_ri_ok_ext; [|exact (R Hw)]; exact (Hhdr _ Eh)).
      assert (Emp : u_max_prediction s3 = u_max_prediction s).
      { destruct (eps_header_touch _ _ _ _ _ _ Eh) as (Ho & _). apply Ho. }
      assert (Hw3 : eps_window_ok s3) by (unfold eps_window_ok in *; rewrite Emp; exact Hw).
      destruct (eps_complete_exit_ri dbg now sf ins s3 s4 w lo ref Hok3 Hw3 Hs El Ea Ew Elo) as (_ & _ & _ & B1 & B2 & _).
      cbv zeta in B1, B2. rewrite Emp in B1. unfold eps_ri_bound in *.
      change (u_recv_inputs s3) with (u_recv_inputs s2) in B2. rewrite (Hhdr _ Eh) in B2.
      destruct B2 as [B2|B2]; unfold ibytes in *; lia.
  - destruct (poll now nonce cs s) as [[evs t]| |] eqn:E; inversion H; subst; clear H.
    apply eps_poll_effect in E. apply Hsame, Hcore. tauto.
  - destruct (send_input now inputs cs s) as [t| |] eqn:E; inversion H; subst; clear H.
    apply eps_send_input_effect in E. destruct E as [(_ & ->)|(_ & _ & data & _ & A & _)]; [apply Hsame; auto|].
    eps_core_inj A. fsimpl. apply Hsame. auto.
  - inversion H; subst; clear H. apply Hsame. unfold disconnect. destruct (pstate_eqb (u_state s) PShutdown); auto.
  - inversion H; subst; clear H. apply Hsame. auto.
  - unfold update_local_frame_advantage in H.
    destruct (ts_update_local_frame_advantage _ _ _ _ _ _); inversion H; subst. apply Hsame. auto.
  - inversion H; subst; clear H. apply Hsame. auto.
Qed.

Lemma eps_recv_inputs_run : forall dbg ops s s' evs,
  run dbg s ops = Ok (s', evs) -> eps_inv s -> eps_window_ok s ->
  Forall (eps_shaped dbg (length (u_handles s))) ops ->
  Z.of_nat (length (u_recv_inputs s)) <= eps_ri_bound s ->
  Z.of_nat (length (u_recv_inputs s')) <= eps_ri_bound s.
Proof.
  induction ops as [|o r IH]; intros s s' evs H HI Hw Hsh Hb.
  - inversion H; subst. exact Hb.
  - apply eps_run_cons in H. destruct H as (s1 & e1 & e2 & H1 & H2 & _).
    inversion Hsh as [|? ? Ho Hr]; subst.
    destruct (eps_recv_inputs_step _ _ _ _ _ H1) as (_ & A & B & C).
    assert (Eb : eps_ri_bound s1 = eps_ri_bound s) by (unfold eps_ri_bound; rewrite B; reflexivity).
    rewrite <- Eb. eapply IH; [exact H2|eapply eps_inv_step; eauto| | |].
    + unfold eps_window_ok in *. rewrite B. exact Hw.
    + rewrite A. exact Hr.
    + rewrite Eb. apply C; assumption.
Qed.

(* for every reachable state, under traffic without wrong-size frames and a sane window *)
Lemma eps_recv_inputs_bounded : forall now magic handles np lp mp timeout notify fps desync dbg ops s evs,
  0 <= mp <= EPS_MAX_WINDOW ->
  let s0 := ep_new now magic handles np lp mp timeout notify fps desync in
  Forall (eps_shaped dbg (length (u_handles s0))) ops ->
  run dbg s0 ops = Ok (s, evs) ->
  Z.of_nat (length (u_recv_inputs s)) <= Z.max (2 * mp) (Z.of_N MAX_DECODED_INPUTS) + 1.
Proof.
  intros now magic handles np lp mp timeout notify fps desync dbg ops s evs Hm s0 Hsh H.
  change (Z.max (2 * mp) (Z.of_N MAX_DECODED_INPUTS) + 1) with (eps_ri_bound s0).
  eapply eps_recv_inputs_run; [exact H|apply eps_inv_new|exact Hm|exact Hsh|].
  unfold eps_ri_bound. cbn. unfold MAX_DECODED_INPUTS. lia.
Qed.

(* forged by the authorized peer: packets that end in a wrong-size frame are never pruned.
   Window 0; 20 packets of [good; good; 3 bytes], each starting at last_recv_frame + 1: 41 entries *)
Definition eps_w_new0 : ep := ep_new 0 9 [1] 2 1 0 2000 500 60 None.
Definition eps_w_bad_packet (k : nat) : op :=
  OMessage 0 200 (mkMsg 7 (Input w_status false (2 * Z.of_nat k) (-1)
     (Codec.encode (match k with O => [0;0;0;0]%N | _ => [1;0;0;0]%N end) [[1;0;0;0]%N; [1;0;0;0]%N; [7;7;7]%N]))).
Definition eps_w_grow : list op := w_handshake ++ map eps_w_bad_packet (seq 0 20).
Lemma eps_recv_inputs_unbounded_refuted :
  exists s evs, run true eps_w_new0 eps_w_grow = Ok (s, evs) /\
    length (u_recv_inputs s) = 41%nat /\ last_recv_frame s = 39 /\ u_max_prediction s = 0 /\ u_send_queue s <> [].
Proof. eexists. eexists. split; [vm_compute; reflexivity|]. repeat split; vm_compute; try reflexivity. discriminate. Qed.

(* ---------- pending_checksums ---------- *)
Definition eps_interval (s : ep) : Z := match u_desync s with Some i => i | None => 1 end.
Definition EPS_MAX_INTERVAL : Z := 67108864.   (* 2^26: 31 * interval stays an i32 *)

(* reports arrive in order: the frame of each handled report is non-negative and not below any stored frame *)
Fixpoint eps_reports_in_order (dbg : bool) (s : ep) (ops : list op) : Prop :=
  match ops with
  | [] => True
  | o :: r =>
    match o with
    | OMessage _ _ m =>
      match m_body m with
      | ChecksumReport _ f => 0 <= f <= TS_I32_MAX /\ Forall (fun k => k <= f) (eps_keys (u_pending_checksums s))
      | _ => True
      end
    | _ => True
    end /\
    match step dbg o s with
    | Ok (s1, _) => eps_reports_in_order dbg s1 r
    | _ => True
    end
  end.

Definition eps_pcs_ok (s : ep) : Prop :=
  NoDup (eps_keys (u_pending_checksums s)) /\
  Z.of_nat (length (u_pending_checksums s)) <= Z.max MAX_CHECKSUM_HISTORY_SIZE (31 * eps_interval s + 1).

Lemma eps_pcs_step : forall dbg o s s' out, step dbg o s = Ok (s', out) ->
  u_desync s' = u_desync s /\
  (Z.of_nat (length (u_pending_checksums s')) <= Z.of_nat (length (u_pending_checksums s)) + 1) /\
  (1 <= eps_interval s <= EPS_MAX_INTERVAL ->
   match o with
   | OMessage _ _ m =>
     match m_body m with
     | ChecksumReport _ f => 0 <= f <= TS_I32_MAX /\ Forall (fun k => k <= f) (eps_keys (u_pending_checksums s))
     | _ => True
     end
   | _ => True
   end -> eps_pcs_ok s -> eps_pcs_ok s').
Proof.
  intros dbg o s s' out H.
  assert (Hsame : forall t, u_pending_checksums t = u_pending_checksums s -> u_desync t = u_desync s ->
     forall P : Prop, u_desync t = u_desync s /\
     (Z.of_nat (length (u_pending_checksums t)) <= Z.of_nat (length (u_pending_checksums s)) + 1) /\
     (1 <= eps_interval s <= EPS_MAX_INTERVAL -> P -> eps_pcs_ok s -> eps_pcs_ok t)).
  { intros t A B P. split; [exact B|]. split; [rewrite A; lia|]. intros _ _ X. unfold eps_pcs_ok, eps_interval in *.
    rewrite A, B. exact X. }
  assert (Hcore : forall t, eps_core t = eps_core s ->
            u_pending_checksums t = u_pending_checksums s /\ u_desync t = u_desync s)
    by (intros t X; eps_core_inj X; auto).
  destruct o as [now nonce|now nonce m|now nonce cs|now inputs cs|now|now fr ck|lf|]; eps_unstep H.
  - destruct (synchronize now nonce s) as [t| |] eqn:E; inversion H; subst; clear H.
    apply eps_synchronize_effect in E. destruct E as (A & _). destruct (Hcore _ A). apply Hsame; assumption.
  - destruct (handle_message dbg now nonce m s) as [t| |] eqn:E; inversion H; subst; clear H.
    destruct (eps_input_body_dec m) as [(st & dr & sf & af & bytes & Eb)|Hn].
    { pose proof (eps_input_exits _ _ _ _ _ _ _ _ _ _ _ Eb E) as X.
      destruct (eps_input_exit_effect _ _ _ _ _ _ _ _ _ X) as (_&_&_&_&_&A6&_&_&A9&_). rewrite Eb.
      apply Hsame; assumption. }
    destruct (eps_handle_other_effect _ _ _ _ _ _ Hn E) as (_ & _ & _ & D).
    destruct (m_body m) eqn:Eb; try (destruct (Hcore _ D); apply Hsame; assumption).
    + destruct D as [D|D]; [destruct (Hcore _ D); apply Hsame; assumption|].
      destruct (eps_pop_pending_output_fields ack_frame s) as (_&_&_&_&_&F6&F7&_). eps_core_inj D.
      apply Hsame; congruence.
    + destruct D as [D|(t & D1 & D2)]; [destruct (Hcore _ D); apply Hsame; assumption|].
      destruct (Hcore _ D2) as (Ep & Ed).
      destruct (eps_on_checksum_report_effect _ _ _ _ _ D1) as (pcs & -> & L & Hc). fsimpl.
      split; [exact Ed|]. split; [rewrite <- Ep; exact L|].
      intros Hi (Hf & Hord) (Nd & Hb). unfold eps_pcs_ok, eps_interval in *. fsimpl. rewrite Ed. rewrite Ep in *.
      destruct Hc as [(Hlt & ->)|(Hge & iv & span & lo & Hiv & E1 & E2 & ->)].
      * split; [apply eps_nodup_ainsert; exact Nd|].
        unfold ainsert. cbn [length]. pose proof (@eps_aremove_length Z frame (u_pending_checksums s)).
        unfold MAX_CHECKSUM_HISTORY_SIZE in *. lia.
      * assert (Eiv : iv = match u_desync s with Some i => i | None => 1 end).
        { rewrite Ed in Hiv. destruct Hiv as [-> |(-> & _ & ->)]; reflexivity. }
        rewrite <- Eiv in *. unfold EPS_MAX_INTERVAL, MAX_CHECKSUM_HISTORY_SIZE in *.
        rewrite (eps_wrap_small iv) in E1 by (unfold TS_I32_MIN, TS_I32_MAX; lia).
        rewrite (eps_i32_exact dbg ((32 - 1) * iv)) in E1 by (unfold TS_I32_MIN, TS_I32_MAX; lia).
        assert (span = (32 - 1) * iv) by congruence. subst span. change ((32 - 1) * iv) with (31 * iv) in *.
        rewrite (eps_i32_exact dbg (frame - 31 * iv)) in E2 by (unfold TS_I32_MIN, TS_I32_MAX in *; lia).
        assert (lo = frame - 31 * iv) by congruence. subst lo.
        set (l' := ainsert frame checksum (aretain_ge (frame - 31 * iv) (u_pending_checksums s))).
        assert (Nd' : NoDup (eps_keys l')) by (apply eps_nodup_ainsert, eps_nodup_filter_keys; exact Nd).
        split; [exact Nd'|].
        assert (Hr : forall k, In k (eps_keys l') -> frame - 31 * iv <= k <= frame).
        { intros k X. apply eps_keys_ainsert in X. destruct X as [->|X]; [lia|].
          apply eps_keys_retain in X. destruct X as (X1 & X2). rewrite Forall_forall in Hord. specialize (Hord k X1). lia. }
        pose proof (eps_nodup_range_length _ _ _ Nd' Hr) as P. rewrite eps_keys_length in P. lia.
  - destruct (poll now nonce cs s) as [[evs t]| |] eqn:E; inversion H; subst; clear H.
    apply eps_poll_effect in E. destruct E as (A & _). destruct (Hcore _ A). apply Hsame; assumption.
  - destruct (send_input now inputs cs s) as [t| |] eqn:E; inversion H; subst; clear H.
    apply eps_send_input_effect in E. destruct E as [(_ & ->)|(_ & _ & data & _ & A & _)]; [apply Hsame; reflexivity|].
    eps_core_inj A. fsimpl. apply Hsame; assumption.
  - inversion H; subst; clear H. apply Hsame; unfold disconnect; destruct (pstate_eqb (u_state s) PShutdown); reflexivity.
  - inversion H; subst; clear H. apply Hsame; reflexivity.
  - unfold update_local_frame_advantage in H.
    destruct (ts_update_local_frame_advantage _ _ _ _ _ _); inversion H; subst. apply Hsame; reflexivity.
  - inversion H; subst; clear H. apply Hsame; reflexivity.
Qed.

Lemma eps_pcs_run : forall dbg ops s s' evs,
  run dbg s ops = Ok (s', evs) -> 1 <= eps_interval s <= EPS_MAX_INTERVAL ->
  eps_reports_in_order dbg s ops -> eps_pcs_ok s -> eps_pcs_ok s' /\ eps_interval s' = eps_interval s.
Proof.
  induction ops as [|o r IH]; intros s s' evs H Hi Ho Hok.
  - inversion H; subst. auto.
  - apply eps_run_cons in H. destruct H as (s1 & e1 & e2 & H1 & H2 & _).
    cbn [eps_reports_in_order] in Ho. destruct Ho as (Ho1 & Ho2). rewrite H1 in Ho2.
    destruct (eps_pcs_step _ _ _ _ _ H1) as (A & _ & C).
    assert (Ei : eps_interval s1 = eps_interval s) by (unfold eps_interval; rewrite A; reflexivity).
    destruct (IH s1 s' e2 H2) as (X & Y); [rewrite Ei; exact Hi|exact Ho2|apply C; assumption|].
    split; [exact X|congruence].
Qed.

Lemma eps_pending_checksums_bounded : forall now magic handles np lp mp timeout notify fps desync dbg ops s evs,
  let s0 := ep_new now magic handles np lp mp timeout notify fps desync in
  let interval := match desync with Some i => i | None => 1 end in
  1 <= interval <= EPS_MAX_INTERVAL ->
  eps_reports_in_order dbg s0 ops -> run dbg s0 ops = Ok (s, evs) ->
  Z.of_nat (length (u_pending_checksums s)) <= Z.max MAX_CHECKSUM_HISTORY_SIZE (31 * interval + 1).
Proof.
  intros now magic handles np lp mp timeout notify fps desync dbg ops s evs s0 interval Hi Ho H.
  destruct (eps_pcs_run dbg ops s0 s evs H) as ((_ & X) & Y); [exact Hi|exact Ho| |].
  - split; [constructor|]. cbn. unfold MAX_CHECKSUM_HISTORY_SIZE. lia.
  - rewrite Y in X. exact X.
Qed.

(* whatever arrives, one report adds at most one entry and nothing else adds any *)
Lemma eps_pending_checksums_growth : forall dbg o s s' out, step dbg o s = Ok (s', out) ->
  Z.of_nat (length (u_pending_checksums s')) <= Z.of_nat (length (u_pending_checksums s)) + 1.
Proof. intros dbg o s s' out H. apply (eps_pcs_step _ _ _ _ _ H). Qed.

(* forged by the authorized peer: 40 reports with strictly decreasing frames are all kept *)
Definition eps_w_new_ds : ep := ep_new 0 9 [1] 2 1 8 2000 500 60 (Some 1).
Definition eps_w_reports : list op :=
  w_handshake ++ map (fun k => OMessage 0 200 (mkMsg 7 (ChecksumReport 7 (1000 - Z.of_nat k)))) (seq 0 40).
Lemma eps_pending_checksums_unbounded_refuted :
  exists s evs, run true eps_w_new_ds eps_w_reports = Ok (s, evs) /\ length (u_pending_checksums s) = 40%nat /\
    (MAX_CHECKSUM_HISTORY_SIZE + 1 < 40).
Proof. eexists. eexists. split; [vm_compute; reflexivity|]. split; vm_compute; reflexivity. Qed.

(* ---------- the endpoint's event queue ---------- *)
Lemma eps_event_queue_polled : forall dbg now nonce cs s s' out,
  step dbg (OPoll now nonce cs) s = Ok (s', out) -> u_event_queue s' = [].
Proof.
  intros dbg now nonce cs s s' out H. eps_unstep H.
  destruct (poll now nonce cs s) as [[evs t]| |] eqn:E; inversion H; subst. apply eps_poll_effect in E. tauto.
Qed.

(* ====================================================================================== *)
(* C07 (timer half): silence                                                               *)
(* ====================================================================================== *)
(* what a sequence of polls at the given clock readings pushes while no packet is accepted:
   [T] = last_recv_time, [n] / [e] = disconnect_notify_sent / disconnect_event_sent *)
Fixpoint eps_silent_events (T ns to : Z) (n e : bool) (times : list Z) : list event :=
  match times with
  | [] => []
  | now :: r =>
    let i := negb n && negb e && (T + ns <? now) in
    let d := negb e && (T + to <? now) in
    (if i then [EvNetworkInterrupted (Z.max 0 (to - ns))] else []) ++ (if d then [EvDisconnected] else []) ++
    eps_silent_events T ns to (n || i) (e || d) r
  end.

Definition eps_poll_ops (polls : list (Z * Z * list status)) : list op :=
  map (fun p => OPoll (fst (fst p)) (snd (fst p)) (snd p)) polls.
Definition eps_poll_times (polls : list (Z * Z * list status)) : list Z := map (fun p => fst (fst p)) polls.

Lemma eps_silence_run : forall dbg polls s s' evs,
  u_state s = PRunning -> run dbg s (eps_poll_ops polls) = Ok (s', evs) ->
  evs = (match polls with [] => [] | _ => u_event_queue s end) ++
        eps_silent_events (u_last_recv_time s) (u_notify_start s) (u_timeout s) (u_notify_sent s) (u_event_sent s)
                          (eps_poll_times polls) /\
  u_state s' = PRunning /\ u_last_recv_time s' = u_last_recv_time s /\
  (polls <> [] -> u_event_queue s' = []).
Proof.
  induction polls as [|[[now nonce] cs] r IH]; intros s s' evs Hr H; cbn [eps_poll_ops eps_poll_times map] in *.
  - inversion H; subst. cbn. repeat split; try assumption. intro X. congruence.
  - apply eps_run_cons in H. destruct H as (s1 & e1 & e2 & H1 & H2 & ->). cbn [fst snd] in *.
    eps_unstep H1. destruct (poll now nonce cs s) as [[out t]| |] eqn:E; inversion H1; subst; clear H1.
    apply poll_effect in E. rewrite Hr in E. destruct E as (Q & NS & TO & L & _ & _ & S1 & _ & N1 & E1 & O1).
    destruct (IH _ _ _ S1 H2) as (A & B & C & D). rewrite Q, NS, TO, L, N1, E1 in A.
    split; [|split; [exact B|split; [congruence|]]].
    + rewrite A, O1. unfold poll_pushed. cbn [eps_silent_events]. fold (interrupt_now now s). fold (timeout_now now s).
      cbv zeta. unfold interrupt_now at 1 2, timeout_now at 1 2.
      destruct r; cbn [app]; rewrite <- !app_assoc; reflexivity.
    + intros _. destruct r as [|p r]; [inversion H2; subst; exact Q|apply D; discriminate].
Qed.

Definition eps_is_interrupted (e : event) : bool := match e with EvNetworkInterrupted _ => true | _ => false end.
Definition eps_count_interrupted (evs : list event) : nat := length (filter eps_is_interrupted evs).

(* at most one of each, whatever the clock does *)
Lemma eps_silent_at_most_once : forall T ns to times n e,
  (eps_count_interrupted (eps_silent_events T ns to n e times) <= (if n || e then 0 else 1))%nat /\
  (count_disconnected (eps_silent_events T ns to n e times) <= (if e then 0 else 1))%nat.
Proof.
  induction times as [|now r IH]; intros n e; cbn [eps_silent_events].
  - cbn. destruct (n || e), e; lia.
  - cbv zeta. set (i := negb n && negb e && (T + ns <? now)). set (d := negb e && (T + to <? now)).
    destruct (IH (n || i) (e || d)) as (A & B).
    unfold eps_count_interrupted, count_disconnected in *. rewrite !filter_app, !app_length.
    assert (Ei : (length (filter eps_is_interrupted (if i then [EvNetworkInterrupted (Z.max 0 (to - ns))] else []))
                  = if i then 1 else 0)%nat) by (destruct i; reflexivity).
    assert (Ed : (length (filter eps_is_interrupted (if d then [EvDisconnected] else [])) = 0)%nat) by (destruct d; reflexivity).
    assert (Fi : (length (filter is_disconnected (if i then [EvNetworkInterrupted (Z.max 0 (to - ns))] else [])) = 0)%nat)
      by (destruct i; reflexivity).
    assert (Fd : (length (filter is_disconnected (if d then [EvDisconnected] else [])) = if d then 1 else 0)%nat)
      by (destruct d; reflexivity).
    rewrite Ei, Ed, Fi, Fd. clear Ei Ed Fi Fd.
    assert (Hi : i = true -> n = false /\ e = false) by (subst i; destruct n, e; cbn; auto; discriminate).
    assert (Hd : d = true -> e = false) by (subst d; destruct e; cbn; auto; discriminate).
    clearbody i d. destruct i, d, n, e; cbn [orb] in *; try lia;
      try (destruct (Hi eq_refl); discriminate); try (specialize (Hd eq_refl); discriminate).
Qed.

(* not earlier *)
Lemma eps_silent_not_early : forall T ns to times n e,
  (Forall (fun now => now <= T + ns) times ->
   eps_count_interrupted (eps_silent_events T ns to n e times) = 0%nat) /\
  (Forall (fun now => now <= T + to) times ->
   count_disconnected (eps_silent_events T ns to n e times) = 0%nat).
Proof.
  induction times as [|now r IH]; intros n e; cbn [eps_silent_events]; [split; reflexivity|].
  cbv zeta. unfold eps_count_interrupted, count_disconnected in *. split; intro F; inversion F; subst.
  - assert ((T + ns <? now) = false) as -> by lia. rewrite andb_false_r. cbn [app].
    rewrite filter_app, app_length. rewrite (proj1 (IH _ _)) by assumption.
    destruct (negb e && (T + to <? now)); reflexivity.
  - assert ((T + to <? now) = false) as -> by lia. rewrite andb_false_r. cbn [app].
    rewrite filter_app, app_length. rewrite (proj2 (IH _ _)) by assumption.
    destruct (negb n && negb e && (T + ns <? now)); reflexivity.
Qed.

Lemma eps_silent_app : forall T ns to a b n e,
  exists n' e', eps_silent_events T ns to n e (a ++ b) =
                eps_silent_events T ns to n e a ++ eps_silent_events T ns to n' e' b /\
    (Forall (fun now => now <= T + ns /\ now <= T + to) a -> n' = n /\ e' = e) /\
    (Forall (fun now => now <= T + to) a -> e' = e).
Proof.
  induction a as [|now r IH]; intros b n e; cbn [app eps_silent_events].
  - exists n, e. split; [reflexivity|]. auto.
  - cbv zeta. set (i := negb n && negb e && (T + ns <? now)). set (d := negb e && (T + to <? now)).
    destruct (IH b (n || i) (e || d)) as (n' & e' & A & B & C). exists n', e'. split.
    + rewrite A, <- !app_assoc. reflexivity.
    + split; intro F; inversion F as [|? ? F1 F2]; subst.
      * destruct (B F2) as (-> & ->). subst i d.
        assert ((T + ns <? now) = false) as -> by lia. assert ((T + to <? now) = false) as -> by lia.
        rewrite !andb_false_r, !orb_false_r. auto.
      * rewrite (C F2). subst d. assert ((T + to <? now) = false) as -> by lia.
        rewrite andb_false_r, orb_false_r. reflexivity.
Qed.

(* on time: the first poll past T + notify (no poll before it past T + notify or T + timeout) pushes exactly one
   NetworkInterrupted with the remaining time, and nothing later pushes another *)
Lemma eps_silent_interrupted_on_time : forall T ns to before now after,
  Forall (fun t => t <= T + ns /\ t <= T + to) before -> T + ns < now ->
  eps_silent_events T ns to false false (before ++ now :: after) =
    EvNetworkInterrupted (Z.max 0 (to - ns)) ::
    (if T + to <? now then [EvDisconnected] else []) ++
    eps_silent_events T ns to true (T + to <? now) after /\
  eps_count_interrupted (eps_silent_events T ns to true (T + to <? now) after) = 0%nat.
Proof.
  intros T ns to before now after F Hn.
  destruct (eps_silent_app T ns to before (now :: after) false false) as (n' & e' & A & B & _).
  destruct (B F) as (-> & ->). rewrite A.
  assert (eps_silent_events T ns to false false before = []) as ->.
  { clear A B. induction before as [|t r IH]; [reflexivity|]. inversion F as [|? ? F1 F2]; subst.
    cbn [eps_silent_events]. cbv zeta. cbn [negb andb].
    assert ((T + ns <? t) = false) as -> by lia. assert ((T + to <? t) = false) as -> by lia.
    cbn [app orb]. apply IH. exact F2. }
  cbn [app eps_silent_events]. cbv zeta. cbn [negb andb orb].
  assert ((T + ns <? now) = true) as -> by lia. cbn [app]. split; [reflexivity|].
  pose proof (eps_silent_at_most_once T ns to after true (T + to <? now)) as (X & _). cbn [orb] in X. lia.
Qed.

(* the first poll past T + timeout pushes Disconnected, nothing later pushes another *)
Lemma eps_silent_disconnected_on_time : forall T ns to before now after n,
  Forall (fun t => t <= T + to) before -> T + to < now ->
  exists pre n', eps_silent_events T ns to n false (before ++ now :: after) =
    pre ++ EvDisconnected :: eps_silent_events T ns to n' true after /\
    count_disconnected pre = 0%nat /\
    count_disconnected (eps_silent_events T ns to n' true after) = 0%nat /\
    eps_count_interrupted (eps_silent_events T ns to n' true after) = 0%nat.
Proof.
  intros T ns to before now after n F Hn.
  destruct (eps_silent_app T ns to before (now :: after) n false) as (n' & e' & A & _ & C).
  rewrite (C F) in A. rewrite A. cbn [eps_silent_events]. cbv zeta. cbn [negb andb orb].
  assert ((T + to <? now) = true) as -> by lia. cbn [app andb]. rewrite !andb_true_r.
  set (i := negb n' && (T + ns <? now)).
  exists (eps_silent_events T ns to n false before ++ (if i then [EvNetworkInterrupted (Z.max 0 (to - ns))] else [])), (n' || i).
  split; [rewrite <- !app_assoc; reflexivity|]. split; [|split].
  - rewrite cd_app. rewrite (proj2 (eps_silent_not_early T ns to before n false) F). destruct i; reflexivity.
  - pose proof (eps_silent_at_most_once T ns to after (n' || i) true) as (_ & X). lia.
  - pose proof (eps_silent_at_most_once T ns to after (n' || i) true) as (X & _). rewrite orb_true_r in X. lia.
Qed.

(* non-vacuity: silence from time 0 (handshake finished at 0), default timers *)
Example eps_silence_example :
  exists s evs, run true w_new (w_handshake ++ eps_poll_ops [(400, 0, w_status); (500, 0, w_status); (501, 0, w_status);
                                      (1999, 0, w_status); (2000, 0, w_status); (2001, 0, w_status); (9000, 0, w_status)])
                = Ok (s, evs) /\
    skipn 5 evs = [EvNetworkInterrupted 1500; EvDisconnected].
Proof. eexists. eexists. split; vm_compute; reflexivity. Qed.

(* ---------- non-vacuity witnesses for props/C08.v, C18.v ---------- *)
Example eps_undecodable_example :
  exists s evs, run true w_new w_handshake = Ok (s, evs) /\ eps_wf s /\
    alookup (eps_decode_frame s 0) (u_recv_inputs s) = Some [0;0;0;0]%N /\
    Codec.decode true [0;0;0;0]%N [128]%N = Err /\
    passes_filters s (mkMsg 7 (Input w_status false 0 (-1) [128]%N)) = true.
Proof. eexists. eexists. split; [vm_compute; reflexivity|]. repeat split; vm_compute; reflexivity. Qed.

(* a wrong-size frame after a good one: the good frame is delivered, no ack *)
Example eps_wrong_size_example :
  exists s evs, run true w_new (w_handshake ++
      [OMessage 0 200 (mkMsg 7 (Input w_status false 0 (-1) (Codec.encode [0;0;0;0]%N [[1;0;0;0]%N; [7;7;7]%N])));
       OPoll 0 200 w_status]) = Ok (s, evs) /\
    skipn 5 evs = [EvInput 0 1 1] /\ last_recv_frame s = 0 /\
    Forall (fun m => match m_body m with InputAck _ => False | _ => True end) (u_send_queue s).
Proof.
  eexists. eexists. split; [vm_compute; reflexivity|]. split; [vm_compute; reflexivity|].
  split; [vm_compute; reflexivity|]. vm_compute. repeat constructor.
Qed.

(* 129 unacknowledged inputs: Disconnected raised; after `disconnect` the buffer no longer grows *)
Example eps_pending_output_example :
  exists s evs, run true w_new (w_handshake ++ w_sends 0 129 ++ [OPoll 0 200 w_status; ODisconnect 0] ++ w_sends 0 5)
                = Ok (s, evs) /\
    length (u_pending_output s) = 129%nat /\ count_disconnected evs = 1%nat.
Proof. eexists. eexists. split; [vm_compute; reflexivity|]. split; vm_compute; reflexivity. Qed.
