(* Model of the bitfield-rle crate (0.2.1). *)
From GGRS Require Import Base Varint.
Open Scope N_scope.

(* ---------- encode_with_offset (offset = 0), line by line ---------- *)
Record est := mk { len : N; contig : bool; prev : N; nonc : list N; out : list N }.

Definition wr_contig (l p : N) : list N := venc (l * 4 + 1 + (if p =? 255 then 2 else 0)).
Definition wr_nonc (nc : list N) : list N := venc (2 * N.of_nat (length nc)) ++ nc.

(* one iteration of `for (i, byte) in buf.iter().enumerate()`; note the `i > offset` quirk *)
Definition estep (s : est) (i : nat) (b : N) : est :=
  if contig s && (b =? prev s) then mk (len s + 1) true (prev s) (nonc s) (out s)
  else
    let out1 := if contig s then out s ++ wr_contig (len s) (prev s) else out s in
    if (b =? 0) || (b =? 255) then
      let flush := negb (contig s) && negb (Nat.eqb i 0) in
      mk 1 true b (if flush then [] else nonc s) (if flush then out1 ++ wr_nonc (nonc s) else out1)
    else mk (len s) false (prev s) (nonc s ++ [b]) out1.

Fixpoint erun (s : est) (i : nat) (bs : list N) : est :=
  match bs with [] => s | b :: r => erun (estep s i b) (S i) r end.
Definition efinish (s : est) : list N :=
  if contig s then out s ++ wr_contig (len s) (prev s) else out s ++ wr_nonc (nonc s).
Definition rle_encode (bs : list N) : list N := efinish (erun (mk 0 false 0 [] []) O bs).

(* ---------- idealised token decoder (total, option) ---------- *)
Fixpoint rdec (fuel : nat) (buf : list N) : option (list N) :=
  match fuel with
  | O => match buf with [] => Some [] | _ => None end
  | S k =>
    match buf with
    | [] => Some []
    | _ => match vdec buf with
           | None => None
           | Some (next, c) =>
             let rest := skipn c buf in
             if next mod 2 =? 1 then
               match rdec k rest with None => None | Some t =>
                 Some (repeat (if (next / 2) mod 2 =? 1 then 255 else 0) (N.to_nat (next / 4)) ++ t) end
             else
               let l := N.to_nat (next / 2) in
               if (length rest <? l)%nat then None else
               match rdec k (skipn l rest) with None => None | Some t => Some (firstn l rest ++ t) end
           end
    end
  end.
Definition rle_decode (buf : list N) : option (list N) := rdec (length buf) buf.

(* ---------- faithful decoder: decode_len_with_offset then the fill pass ---------- *)
(* usize is 64 bit.  [lenF] is decode_len_with_offset: `len += slice` can overflow (panic in the
   dev profile, wrap in release); a literal token that runs past the end makes `offset > buf.len()`
   and yields Err.  Reading a varint past the end panics (vdecF). *)
Fixpoint lenF (dbg : bool) (fuel : nat) (buf : list N) (acc : N) : res N :=
  match fuel with
  | O => match buf with [] => Ok acc | _ => Err end
  | S k =>
    match buf with
    | [] => Ok acc
    | _ =>
      match vdecF dbg buf with
      | Panic => Panic
      | Err => Err
      | Ok (next, c) =>
        let rest := skipn c buf in
        let slice := if next mod 2 =? 1 then next / 4 else next / 2 in
        let sum := acc + slice in
        if dbg && (U64 <=? sum) then Panic else
        let acc' := sum mod U64 in
        if next mod 2 =? 1 then lenF dbg k rest acc'
        else if (N.of_nat (length rest) <? slice) then Err
        else lenF dbg k (skipn (N.to_nat slice) rest) acc'
      end
    end
  end.

(* the fill pass writes into a zeroed vector of the length computed above; on lists: *)
Fixpoint fillF (dbg : bool) (fuel : nat) (buf : list N) : list N :=
  match fuel with
  | O => []
  | S k =>
    match buf with
    | [] => []
    | _ =>
      match vdecF dbg buf with
      | Ok (next, c) =>
        let rest := skipn c buf in
        if next mod 2 =? 1 then
          repeat (if (next / 2) mod 2 =? 1 then 255 else 0) (N.to_nat (next / 4)) ++ fillF dbg k rest
        else
          let l := N.to_nat (next / 2) in firstn l rest ++ fillF dbg k (skipn l rest)
      | _ => []
      end
    end
  end.

Definition rleF (dbg : bool) (buf : list N) : res (list N) :=
  match lenF dbg (length buf) buf 0 with
  | Ok _ => Ok (fillF dbg (length buf) buf)
  | Err => Err
  | Panic => Panic
  end.

(* ---------- the validating pre-pass of compression::decode (F1 repair) ---------- *)
(* walks the tokens with the bounded varint reader, sums the expanded length and rejects
   when the sum exceeds [cap] or a literal token runs past the end of the data *)
Fixpoint scan (cap : N) (fuel : nat) (buf : list N) (acc : N) : option N :=
  match fuel with
  | O => match buf with [] => Some acc | _ => None end
  | S k =>
    match buf with
    | [] => Some acc
    | _ =>
      match vdecB buf with
      | None => None
      | Some (next, c) =>
        let rest := skipn c buf in
        let slice := if next mod 2 =? 1 then next / 4 else next / 2 in
        let acc' := acc + slice in
        if cap <? acc' then None else
        if next mod 2 =? 1 then scan cap k rest acc'
        else if (N.of_nat (length rest) <? slice) then None
        else scan cap k (skipn (N.to_nat slice) rest) acc'
      end
    end
  end.
Definition validate (cap : N) (buf : list N) : bool :=
  match scan cap (length buf) buf 0 with Some _ => true | None => false end.
