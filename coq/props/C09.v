(* C09 — desync detection raises no false alarm and catches real divergence.
   Statements only.  Model: coq/Desync.v - check_checksum_send_interval and
   compare_local_checksums_against_peers of src/sessions/p2p_session.rs as functions of what they read
   (the sync layer's last confirmed frame L and its saved cells) and keep (local_checksum_history,
   last_sent_checksum_frame, every remote endpoint's pending_checksums; the endpoint's
   on_checksum_report is Endpoint.v's).  Tied to the code by the `desync` correspondence level: a real
   P2PSession with puppet peers; at every advance_frame the harness records through the hook accessor
   what the detection read and did, and the extracted model, fed the same readings, must agree.
   [truth f] = the checksum of the correct state of frame f: what a deterministic game saves for f once
   every input before f is the real one. *)
From GGRS Require Import Base Consts Endpoint Desync DesyncProofs.
From GGRS Require Import Queue QueueProofs Sync P2P Session SessionProofs SessionProgress SessionTimeline.
Open Scope Z_scope.

(* NO FALSE ALARM, for every run of reports and advance_frame calls in any order: if every checksum that
   enters is the true checksum of its frame - the peers' reports, and the saved cells of frames <= L a
   report of ours may be taken from - then no DesyncDetected is ever raised, whatever the interval, the
   number of peers, lost / repeated / reordered reports, sparse saving, or how L moves. *)
Theorem C09_no_false_alarm :
  forall (truth : Z -> Z) (ops : list dop) (s s' : ds) (evs : list (Z * Z * Z * Z)),
  Inv truth s -> 0 <= interval_i32 s -> Forall (op_truthful truth) ops ->
  ds_run s ops = Ok (s', evs) -> evs = [] /\ Inv truth s'.
Proof. exact no_false_alarm. Qed.

(* the premise about our own cells is C01 on saved states: in every state reachable inside C01's space
   the state saved for a confirmed frame F (inside the saved-state window) is the serial replay of the
   inputs held for the frames before F, for every player - so its checksum is [truth F] on every peer
   holding the same inputs.  This is why the detection must read L before the current call's rollback
   (the comment in advance_frame): a frame above L may still hold a mispredicted state. *)
Theorem C09_confirmed_saved_states_are_replays :
  forall (predict : Z -> Z), (forall x, predict (predict x) = predict x) -> predict 0 = 0 ->
  forall (ops : list sop) (n w d : Z) (kinds : list pkind) (eps : list (list Z)) (nspec : nat) (p : p2p) (outs : list (pout * apires)),
  1 <= w -> 0 <= d -> w + d + 3 <= INPUT_QUEUE_LENGTH -> 0 < n -> Z.of_nat (length kinds) = n -> players_only kinds ->
  srun_in predict (session_start n w false d kinds eps nspec) ops = Ok (p, outs) ->
  exists g gs, exec_outs w (game0 w) outs = Some g /\ QS w d p gs /\
    forall F, Z.max 0 (s_current (ps_sync p) - w) <= F <= s_current (ps_sync p) - 1 -> F <= s_last_confirmed (ps_sync p) ->
      exists H, nth (Z.to_nat (F mod (w + 1))) (g_cells g) (NULL, []) = (F, H) /\ cell_frame (ps_sync p) F = F /\
        forall h hist low f, nth_error gs h = Some (hist, low) -> 0 <= f < F -> gvalL H f h = hval hist f.
Proof. exact confirmed_saved_states_are_replays. Qed.

(* what we report is a saved cell's checksum for a frame 0 <= f <= L, recorded in the history *)
Theorem C09_report_is_a_confirmed_saved_state :
  forall (truth : Z -> Z) (L : Z) (cells : list cell) (s s' : ds) (f cs : Z),
  send_interval L cells s = Ok (s', Some (f, cs)) -> cells_truthful truth L cells -> Inv truth s -> 0 <= interval_i32 s ->
  cs = truth f /\ 0 <= f <= L /\ ds_last_sent s' = f /\ alookup f (ds_hist s') = Some cs /\ In (f, Some cs) cells.
Proof.
  intros truth L cells s s' f cs E Hc HI Hiv.
  destruct (send_interval_inv truth L cells s s' _ E Hc HI Hiv) as (_ & A & _). exact (A f cs eq_refl).
Qed.

(* DETECTION, exactly: a comparison raises DesyncDetected(ep, f, local, remote) if and only if endpoint
   ep's pending map holds checksum `remote` for a frame f below the last confirmed frame, the local
   history holds `local` for f, and the two differ.  So a peer whose state diverged at or before a
   frame we both report is flagged at the first call that has confirmed that frame - never earlier,
   never for equal checksums. *)
Theorem C09_compare_reports_exactly :
  forall (L : Z) (s : ds) (ep f lc rc : Z),
  In (ep, f, lc, rc) (snd (compare L s)) <->
  (exists pend, nth_error (ds_pending s) (Z.to_nat ep) = Some pend /\ 0 <= ep /\
                In (f, rc) pend /\ f < L /\ alookup f (ds_hist s) = Some lc /\ lc <> rc).
Proof. exact compare_reports_exactly. Qed.

(* non-vacuity: interval 2, one peer; the peer's (wrong) report 77 for frame 2 is flagged when frame 2 is
   below the last confirmed frame - the run of the harness example, on the model *)
Example C09_demo :
  exists s evs, ds_run (ds_new 2 1)
     [DAdvance 1 [(0, Some 2); (1, Some 1001); (2, Some 2001); (NULL, None); (NULL, None)];
      DReport 0 2 77;
      DAdvance 2 [(0, Some 2); (1, Some 1001); (2, Some 2001); (3, Some 3001); (NULL, None)];
      DAdvance 3 [(0, Some 2); (1, Some 1001); (2, Some 2001); (3, Some 3001); (4, Some 4001)]] = Ok (s, evs) /\
    evs = [(0, 2, 2001, 77)] /\ ds_hist s = [(2, 2001)].
Proof. eexists. eexists. split; [vm_compute; reflexivity|]. split; reflexivity. Qed.
