(* C16 (builder part) — SessionBuilder accepts exactly the configurations its documentation allows and
   rejects every other one at the documented call.
   This file holds statements only; every proof is `exact <lemma>`.
   Model: Builder.v (mirrors src/sessions/builder.rs); reference predicate: BuilderSpec.v (transcribed
   from the documentation, does not use the model functions). *)
From GGRS Require Import Base Consts Builder BuilderSpec BuilderProofs.
From GGRS Require Queue Sync P2P.
From Coq Require Import Lia.
Open Scope Z_scope.

(* side condition on the constant generated from builder.rs: the default player count is itself a
   documented-valid one ("Must be at least 1") *)
Lemma default_players_ok : 1 <= DEFAULT_PLAYERS.
Proof. vm_compute. discriminate. Qed.

(* For ALL call lists (any length) with unsigned arguments (no upper bound) and every finisher: the
   model never reaches the assertion behind the finisher, returns a session iff the reference
   predicate holds, returns InvalidRequest iff it does not, and the reported index is that of the first
   call the reference predicate rejects (index `length cs` = the finisher). *)
Theorem C16_builder_spec : forall cs f, Forall usize_call cs ->
  snd (run_calls cs f) <> Panic /\
  ((exists s, snd (run_calls cs f) = Ok s) <-> valid_calls cs f) /\
  ((exists s, snd (run_calls cs f) = Ok s) -> fst (run_calls cs f) = length cs) /\
  (snd (run_calls cs f) = Err <-> ~ valid_calls cs f) /\
  (snd (run_calls cs f) = Err -> first_invalid cs f (fst (run_calls cs f))).
Proof. exact (builder_spec default_players_ok). Qed.

(* "the first rejected call" is unique, so the reported index is determined by the documentation *)
Theorem C16_first_invalid_unique : forall cs f n m,
  first_invalid cs f n -> first_invalid cs f m -> n = m.
Proof. exact first_invalid_unique. Qed.

(* an accepted P2P configuration: exactly one endpoint per distinct registered remote / spectator
   address, carrying exactly the handles registered for it; the session starts Running iff there is
   no endpoint; handles 0..num_players-1 are exactly the local and remote players; spectator handles
   are >= num_players; num_players() (a count of registered players) equals the configured value *)
Theorem C16_p2p_shape : forall cs n p, Forall usize_call cs ->
  run_calls cs FP2P = (n, Ok (SP2P p)) ->
  NoDup (map (fun e => (e_addr e, e_spectator e)) (p_endpoints p)) /\
  (forall a k, (exists e, In e (p_endpoints p) /\ e_addr e = a /\ e_spectator e = k) <->
               (exists h, In (CAddPlayer (peer k a) h) cs)) /\
  (forall e h, In e (p_endpoints p) ->
               (In h (e_handles e) <-> In (CAddPlayer (peer (e_spectator e) (e_addr e)) h) cs)) /\
  (p_running p = true <-> p_endpoints p = []) /\
  p_cfg_num_players p = np_of cs /\ p_num_players p = np_of cs /\ 1 <= np_of cs /\
  (forall h, 0 <= h < np_of cs <-> In h (p_local p) \/ In h (p_remote p)) /\
  (forall h, In h (p_local p) <-> In (CAddPlayer Local h) cs) /\
  (forall h, In h (p_remote p) <-> exists a, In (CAddPlayer (Remote a) h) cs) /\
  (forall h, In h (p_spectators p) <-> exists a, In (CAddPlayer (Spectator a) h) cs) /\
  (forall h, In h (p_spectators p) -> np_of cs <= h) /\
  p_max_prediction p = window_of cs /\ p_input_delay p = delay_of cs /\ p_desync p = desync_of cs /\
  p_sparse p = (if window_of cs =? 0 then false else sparse_of cs).
Proof. exact (p2p_shape default_players_ok). Qed.

Theorem C16_other_sessions_shape : forall cs f n s, Forall usize_call cs ->
  run_calls cs f = (n, Ok s) ->
  match s with
  | SP2P _ => f = FP2P
  | SSpectator np host _ _ => f = FSpectator host /\ np = np_of cs /\ 1 <= np
  | SSyncTest np w cd d => f = FSyncTest /\ np = np_of cs /\ 1 <= np /\ w = window_of cs /\
                           cd = check_dist_of cs /\ d = delay_of cs /\ cd < w
  end.
Proof. exact (other_sessions_shape default_players_ok). Qed.

(* non-vacuity: a valid 2-player configuration with a spectator is accepted (and is valid by the
   reference predicate alone) ... *)
Example C16_valid_example :
  Forall usize_call ex_valid /\ valid_calls ex_valid FP2P /\
  run_calls ex_valid FP2P =
  (5%nat, Ok (SP2P (mkP 2 2 false [mkE 7 [1] false; mkE 9 [2] true] [0] [1] [2] [(7, [1]); (9, [2])]
                        DEFAULT_MAX_PREDICTION_FRAMES false None 2 DEFAULT_FPS))).
Proof. exact (conj ex_valid_usize (conj ex_valid_is_valid ex_valid_runs)). Qed.

(* ... and an invalid one (with_num_players 1 after a remote with handle 1 was added) is rejected at
   that call, index 3, not at the later `with_fps 0` *)
Example C16_invalid_example :
  Forall usize_call ex_invalid /\ first_invalid ex_invalid FP2P 3 /\
  run_calls ex_invalid FP2P = (3%nat, Err).
Proof. exact (conj ex_invalid_usize (conj ex_invalid_first_invalid ex_invalid_runs)). Qed.

(* ---------------------------------------------------------------------------------------------------
   RUN-TIME MISUSE (session-core model coq/P2P.v, `session` correspondence level): a call with a wrong
   handle or in the wrong state answers the documented error and leaves the session state exactly as it
   was - nothing is queued, sent, or requested.  For EVERY session state. *)
Theorem C16_misuse_leaves_state_unchanged :
  forall (predict : Z -> Z) (p : P2P.p2p),
  (* input for a handle that is not a local player: InvalidRequest *)
  (forall h v, P2P.kind_at p h <> Some P2P.KLocal -> P2P.api_add_local_input p h v = (p, P2P.AInvalidRequest)) /\
  (* advancing before synchronisation: NotSynchronized *)
  (P2P.ps_running p = false -> P2P.advance predict p = Ok (p, P2P.out0, P2P.ANotSynchronized)) /\
  (* advancing with a local input missing: InvalidRequest *)
  (P2P.ps_running p = true ->
   (exists h, In h (P2P.local_handles p) /\ P2P.assoc_get (P2P.ps_pending p) h = None) ->
   P2P.advance predict p = Ok (p, P2P.out0, P2P.AInvalidRequest)) /\
  (* disconnecting a local, unknown or already disconnected player: InvalidRequest *)
  (forall h, (h < 0 \/ P2P.kind_at p h = None \/ P2P.kind_at p h = Some P2P.KLocal \/
              (exists e, P2P.kind_at p h = Some (P2P.KRemote e) /\ Sync.cs_disc (P2P.stat_at p h) = true)) ->
             P2P.api_disconnect_player p h = Ok (p, P2P.AInvalidRequest)) /\
  (* changing the input delay of a player that is not local: InvalidRequest *)
  (forall h d, (h < 0 \/ P2P.kind_at p h <> Some P2P.KLocal) ->
               P2P.api_set_input_delay p h d = Ok (p, P2P.out0, P2P.AInvalidRequest)).
Proof.
  intros predict p. split; [|split; [|split; [|split]]].
  - intros h v H. unfold P2P.api_add_local_input. destruct (P2P.kind_at p h) as [[| |]|]; try reflexivity. congruence.
  - intros H. unfold P2P.advance. rewrite H. reflexivity.
  - intros H (h & Hin & Hn). unfold P2P.advance. rewrite H. cbn [negb].
    assert (forallb (fun h0 => match P2P.assoc_get (P2P.ps_pending p) h0 with Some _ => true | None => false end) (P2P.local_handles p) = false) as ->.
    { apply Bool.not_true_is_false. intro A. rewrite forallb_forall in A. specialize (A h Hin). rewrite Hn in A. discriminate. }
    reflexivity.
  - intros h H. unfold P2P.api_disconnect_player. destruct (Z.ltb_spec h 0); [reflexivity|].
    destruct H as [H|[H|[H|(e & H & Hd)]]]; [lia|rewrite H; reflexivity|rewrite H; reflexivity|rewrite H, Hd; reflexivity].
  - intros h d H. unfold P2P.api_set_input_delay. destruct (Z.ltb_spec h 0); [reflexivity|].
    destruct H as [H|H]; [lia|]. destruct (P2P.kind_at p h) as [[| |]|]; try reflexivity. congruence.
Qed.

Check C16_builder_spec : forall cs f, Forall usize_call cs ->
  snd (run_calls cs f) <> Panic /\
  ((exists s, snd (run_calls cs f) = Ok s) <-> valid_calls cs f) /\
  ((exists s, snd (run_calls cs f) = Ok s) -> fst (run_calls cs f) = length cs) /\
  (snd (run_calls cs f) = Err <-> ~ valid_calls cs f) /\
  (snd (run_calls cs f) = Err -> first_invalid cs f (fst (run_calls cs f))).
