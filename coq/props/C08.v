(* C08 (endpoint half) — malformed or foreign packets are dropped without panic or effect.
   Statements only; every proof is `exact <lemma>` (lemmas in EndpointSafety.v).
   Model: Endpoint.v (src/network/protocol.rs, correspondence level `endpoint`), current code.
   The frame conditions (a)-(e) are about [handle_message] (the step of a `msg` operation) and hold for
   EVERY endpoint state [s], reachable or not, every clock reading, both build profiles [dbg];
   [eps_wf s] (|peer_connect_status| = num_players) holds in every reachable state (C08_wf_reachable).
   "Valid traffic continues": a dropped packet is an ordinary step of [EndpointSpec.run], so every invariant
   proved over [run] (C12_event_grammar, C12_handshake_count, C12_no_early_timer, C18_*, and the
   reachable-state facts below) holds after it - nothing has to be re-established. *)
From GGRS Require Import Base Consts TimeSync Codec CodecProofs Endpoint EndpointSpec EndpointProofs EndpointSafety.
Open Scope Z_scope.

(* (a) another session's magic number, once the peer's magic is known: state unchanged (hence no event,
   nothing queued, no timer touched) *)
Theorem C08_foreign_magic_dropped : forall dbg now nonce m s,
  u_remote_magic s <> 0 -> m_magic m <> u_remote_magic s ->
  handle_message dbg now nonce m s = Ok s /\ step dbg (OMessage now nonce m) s = Ok (s, []).
Proof. exact eps_foreign_magic_dropped. Qed.

(* (b) anything but SyncRequest / SyncReply while Initializing or Synchronizing (the repair 376da1c) *)
Theorem C08_prehandshake_dropped : forall dbg now nonce m s,
  u_state s = PInitializing \/ u_state s = PSynchronizing -> is_handshake (m_body m) = false ->
  handle_message dbg now nonce m s = Ok s /\ step dbg (OMessage now nonce m) s = Ok (s, []).
Proof. exact eps_prehandshake_dropped. Qed.

Theorem C08_shutdown_dropped : forall dbg now nonce m s,
  u_state s = PShutdown -> handle_message dbg now nonce m s = Ok s.
Proof. exact eps_shutdown_dropped. Qed.

(* (c) an Input packet with the wrong number of connection statuses (and no disconnect request) or a negative
   start frame: the result is the state itself if the packet is filtered, else [eps_touch now s]: the code
   updates last_recv_time and the NetworkResumed bookkeeping before it looks at the body ... *)
Theorem C08_bad_header_dropped : forall dbg now nonce m st dr sf af bytes s,
  m_body m = Input st dr sf af bytes ->
  (dr = false /\ Z.of_nat (length st) <> u_num_players s) \/ sf < 0 ->
  handle_message dbg now nonce m s = Ok (if passes_filters s m then eps_touch now s else s).
Proof. exact eps_bad_header_dropped. Qed.

(* ... and [eps_touch] changes exactly three fields (eps_only_touched lists all 32): last_recv_time := now,
   disconnect_notify_sent := false and one NetworkResumed event iff the endpoint was Running, interrupted and not
   yet reported Disconnected.  In particular recv_inputs, state, sync progress, peer_connect_status,
   pending_output, last_acked_input and the send queue (no InputAck) are unchanged and no Input event is queued. *)
Theorem C08_touch_fields : forall now s, eps_only_touched now s (eps_touch now s).
Proof. exact eps_touch_fields. Qed.

(* (d) an Input packet with a well-formed header whose payload the codec rejects (decode = Err; by
   C14_decode_total decode never panics, for ANY byte list): Ok; [eps_header_only] says what differs from [s]:
   last_recv_time / NetworkResumed as in (c), pop_pending_output(ack_frame), the status merge (or the Disconnected
   event of a disconnect request); recv_inputs and the send queue are unchanged (no ack), no Input event;
   running_last_input_recv := now *)
Theorem C08_undecodable_dropped : forall dbg now nonce m st dr sf af bytes s ref,
  m_body m = Input st dr sf af bytes -> passes_filters s m = true -> eps_wf s ->
  dr = true \/ Z.of_nat (length st) = u_num_players s -> 0 <= sf ->
  alookup (eps_decode_frame s sf) (u_recv_inputs s) = Some ref ->
  Codec.decode dbg ref bytes = Err ->
  exists s', handle_message dbg now nonce m s = Ok s' /\
    eps_header_only now st dr af s s' /\ u_last_input_recv s' = now.
Proof. exact eps_undecodable_dropped. Qed.

(* (e) a decoded frame [bad] (index j) of the wrong size that is new: the handler returns Ok at the first such
   frame [bad'] (index |pre| <= j); the result is exactly the state after the accept loop over the frames
   [pre] before it; no acknowledgement is queued; no Input event carries the offending frame or a later one.
   The hypothesis on start_frame excludes i32 overflow of the frame numbers (see C08_frame_overflow_panics_refuted). *)
Theorem C08_wrong_size_dropped : forall dbg now nonce m st dr sf af bytes s ref inputs j bad,
  m_body m = Input st dr sf af bytes -> passes_filters s m = true -> eps_wf s ->
  dr = true \/ Z.of_nat (length st) = u_num_players s -> 0 <= sf ->
  alookup (eps_decode_frame s sf) (u_recv_inputs s) = Some ref ->
  Codec.decode dbg ref bytes = Ok inputs ->
  nth_error inputs j = Some bad -> to_player_inputs (length (u_handles s)) bad = None ->
  sf + Z.of_nat (length inputs) - 1 <= TS_I32_MAX -> last_recv_frame s < sf + Z.of_nat j ->
  exists s2 s' pre bad' post,
    eps_header st dr af (eps_touch now s) = Ok s2 /\ eps_header_only now st dr af s s2 /\
    handle_message dbg now nonce m s = Ok s' /\
    inputs = pre ++ bad' :: post /\ (length pre <= j)%nat /\
    to_player_inputs (length (u_handles s)) bad' = None /\
    accept_inputs dbg sf 0 pre (set_last_input_recv now s2) = Ok (true, s') /\
    u_send_queue s' = u_send_queue s /\
    (forall k v h, In (EvInput k v h) (u_event_queue s') ->
       In (EvInput k v h) (u_event_queue s) \/ k < sf + Z.of_nat (length pre)).
Proof. exact eps_wrong_size_dropped. Qed.

(* the wrong-size exit in general: whenever the accept loop leaves through it, its state is the one after the
   loop over the frames before the offending one *)
Theorem C08_wrong_size_exit : forall dbg start inputs i s s',
  accept_inputs dbg start i inputs s = Ok (false, s') ->
  exists pre bad post fr, inputs = pre ++ bad :: post /\
    accept_inputs dbg start i pre s = Ok (true, s') /\
    ts_i32_arith dbg (start + i + Z.of_nat (length pre)) = Ok fr /\ last_recv_frame s' < fr /\
    to_player_inputs (length (u_handles s')) bad = None.
Proof. exact eps_accept_false. Qed.

(* (f) no panic.  (a)-(e) above give `Ok` outright (kinds a, b, c: every state; d, e: states with eps_wf).
   In general every Input packet at a reachable endpoint is handled with result Ok in the release profile, and
   in the dev profile unless start_frame is within MAX_DECODED_INPUTS of i32::MAX or the window is >= 2^30 *)
Theorem C08_input_total : forall dbg now nonce m st dr sf af bytes s,
  m_body m = Input st dr sf af bytes -> eps_wf s ->
  (dbg = true -> sf + Z.of_N MAX_DECODED_INPUTS - 1 <= TS_I32_MAX /\
                 0 <= u_max_prediction s <= EPS_MAX_WINDOW /\ -1 <= last_recv_frame s <= TS_I32_MAX) ->
  exists s', handle_message dbg now nonce m s = Ok s'.
Proof. exact eps_input_total. Qed.

Theorem C08_input_total_release : forall now nonce m st dr sf af bytes s,
  m_body m = Input st dr sf af bytes -> eps_wf s -> exists s', handle_message false now nonce m s = Ok s'.
Proof. exact eps_input_total_release. Qed.

(* OUTSIDE the listed kinds (needs a VALID first frame at i32::MAX under the peer's own magic): the second
   frame's number `start_frame + 1` overflows before its size is looked at - panic in the dev profile, wrap and
   skip in release.  Confirmed on the real endpoint (p_endpoint_gen.frame_overflow_script). *)
Theorem C08_frame_overflow_panics_refuted :
  run true w_new eps_w_overflow = Panic /\
  exists s evs, run false w_new eps_w_overflow = Ok (s, evs) /\ last_recv_frame s = 2147483647.
Proof. exact eps_frame_overflow_panics_refuted. Qed.

(* (f) sizes: what one Input packet can make the handler build.  The decoded list and the RLE buffer are
   bounded by C14_decode_bounded (<= MAX_DECODED_INPUTS inputs, <= MAX_DECODED_LEN bytes); the loop then adds
   at most one recv_inputs entry and |handles| events per decoded input; at most one message is queued *)
Theorem C08_accept_loop_sizes : forall dbg start inputs i s b s',
  accept_inputs dbg start i inputs s = Ok (b, s') -> TS_I32_MIN <= start + i ->
  eps_others s' = eps_others s /\
  (NoDup (eps_keys (u_recv_inputs s)) -> NoDup (eps_keys (u_recv_inputs s'))) /\
  (forall k, In k (eps_keys (u_recv_inputs s)) -> In k (eps_keys (u_recv_inputs s'))) /\
  (forall k v, In (k, v) (u_recv_inputs s') ->
     In (k, v) (u_recv_inputs s) \/
     (last_recv_frame s < k <= start + i + Z.of_nat (length inputs) - 1 /\ TS_I32_MIN <= k <= TS_I32_MAX /\
      exists j, nth_error inputs j = Some v /\ ts_i32_arith dbg (start + i + Z.of_nat j) = Ok k)) /\
  last_recv_frame s <= last_recv_frame s' /\
  (length (u_recv_inputs s') <= length (u_recv_inputs s) + length inputs)%nat /\
  exists evs, u_event_queue s' = u_event_queue s ++ evs /\
    (length evs <= length inputs * length (u_handles s))%nat /\
    forall e, In e evs -> exists k v h, e = EvInput k v h /\ last_recv_frame s < k /\
                                        In k (eps_keys (u_recv_inputs s')).
Proof. exact eps_accept_spec. Qed.

Theorem C08_recv_inputs_growth : forall dbg o s s' out, step dbg o s = Ok (s', out) ->
  (length (u_recv_inputs s') <= length (u_recv_inputs s) + N.to_nat MAX_DECODED_INPUTS)%nat /\
  u_handles s' = u_handles s /\ u_max_prediction s' = u_max_prediction s /\
  (eps_inv s -> eps_window_ok s -> eps_shaped dbg (length (u_handles s)) o ->
   Z.of_nat (length (u_recv_inputs s)) <= eps_ri_bound s -> Z.of_nat (length (u_recv_inputs s')) <= eps_ri_bound s).
Proof. exact eps_recv_inputs_step. Qed.

(* all exits of handle_message for an Input packet, as an explicit case list *)
Theorem C08_input_exits : forall dbg now nonce m st dr sf af bytes s s',
  m_body m = Input st dr sf af bytes -> handle_message dbg now nonce m s = Ok s' ->
  eps_input_exit dbg now st dr sf af bytes s s'.
Proof. exact eps_input_exits. Qed.

(* reachable states satisfy eps_wf (and the other parts of eps_inv) *)
Theorem C08_wf_reachable : forall now magic handles np lp mp timeout notify fps desync dbg ops s evs,
  run dbg (ep_new now magic handles np lp mp timeout notify fps desync) ops = Ok (s, evs) -> eps_inv s.
Proof. exact eps_reach_inv. Qed.

(* non-vacuity: the hypotheses of (d) and (e) are met - see the `forged` family of the endpoint correspondence
   (p_endpoint_gen.gen_forged) for hundreds of concrete instances; here the payload `80` at a fresh Running endpoint *)
Example C08_undecodable_example :
  exists s evs, run true w_new w_handshake = Ok (s, evs) /\ eps_wf s /\
    alookup (eps_decode_frame s 0) (u_recv_inputs s) = Some [0;0;0;0]%N /\
    Codec.decode true [0;0;0;0]%N [128]%N = Err /\
    passes_filters s (mkMsg 7 (Input w_status false 0 (-1) [128]%N)) = true.
Proof. exact eps_undecodable_example. Qed.

(* non-vacuity of (e): a good frame followed by a 3-byte frame - the good one is delivered, no InputAck is queued *)
Example C08_wrong_size_example :
  exists s evs, run true w_new (w_handshake ++
      [OMessage 0 200 (mkMsg 7 (Input w_status false 0 (-1) (Codec.encode [0;0;0;0]%N [[1;0;0;0]%N; [7;7;7]%N])));
       OPoll 0 200 w_status]) = Ok (s, evs) /\
    skipn 5 evs = [EvInput 0 1 1] /\ last_recv_frame s = 0 /\
    Forall (fun m => match m_body m with InputAck _ => False | _ => True end) (u_send_queue s).
Proof. exact eps_wrong_size_example. Qed.

Check C08_foreign_magic_dropped : forall dbg now nonce m s,
  u_remote_magic s <> 0 -> m_magic m <> u_remote_magic s ->
  handle_message dbg now nonce m s = Ok s /\ step dbg (OMessage now nonce m) s = Ok (s, []).
