(* C11 — changing input delay at run time keeps all peers in agreement (queue level).
   Statements only. *)
From GGRS Require Import Base Consts Queue QueueProofs QueueTheorems.
Open Scope Z_scope.

(* For every sequence of submissions, set_frame_delay calls (any values 0..=MAXD, any number of them
   between two submissions, increases and decreases in any order), discards and reads of a local
   player's queue that stays inside the 128-slot ring: no assert of the queue fires; what the session
   hands to the remotes (first the blank frames before the first input, then every accepted input
   and every fill returned by set_frame_delay, in call order) is exactly frame 0,1,2,... with the
   values the queue holds - gapless, each frame once; and every value the owner's own simulation
   reads was handed to the remotes for that same frame. *)
Theorem C11_queue_stream : forall (predict : Z -> Z) (MAXD : Z) (ops : list lop) (s : lstate),
  lrun predict MAXD ls_init ops <> Panic /\
  (lrun predict MAXD ls_init ops = Ok s ->
   exists (hist : list Z) (low : Z),
     RInv (ls_q s) hist low /\ ls_sent s = stream hist /\
     (forall u : pinput, In u (ls_used s) -> In u (ls_sent s))).
Proof. exact local_queue_stream. Qed.

(* the ring invariant re-proved for the generated queue length *)
Theorem C11_ring_length : 0 < INPUT_QUEUE_LENGTH.
Proof. exact QLEN_pos. Qed.

(* non-vacuity: a run with a double increase and a decrease-then-increase between two inputs *)
Definition c11_demo_ops : list lop :=
  [LAdd 5; LAdd 6; LDelay 3; LDelay 5; LAdd 7; LInput 1; LDelay 1; LDelay 4; LAdd 8; LAdd 9; LDiscard 2; LInput 6].
Example C11_demo :
  exists s, lrun (fun x => x) 6 ls_init c11_demo_ops = Ok s /\
            map pi_frame (ls_sent s) = [0;1;2;3;4;5;6;7;8] /\
            map pi_val (ls_sent s) = [5;6;6;6;6;6;6;7;9] (* the submission 8 is dropped while the queue catches up *).
Proof. eexists. split; [vm_compute; reflexivity|]. split; vm_compute; reflexivity. Qed.

(* the code before the repair (set_frame_delay_old: fills computed from the difference of the two
   delay values and not inserted) violates the stream property: two increases between two inputs
   return frames 2,3,4 and then 2,3 again instead of 5,6 *)
Definition q_after_two_inputs : queue :=
  match add_input q_new 0 5 with
  | Ok (q1, _) => match add_input q1 1 6 with Ok (q2, _) => q2 | _ => q_new end
  | _ => q_new
  end.
Theorem C11_old_set_frame_delay_refuted :
  let '(q1, fills1) := set_frame_delay_old q_after_two_inputs 3 in
  let '(q2, fills2) := set_frame_delay_old q1 5 in
  map pi_frame fills1 = [2;3;4] /\ map pi_frame fills2 = [2;3].
Proof. vm_compute. split; reflexivity. Qed.
