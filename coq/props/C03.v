(* C03 — input status is truthful and confirmed inputs are final (queue level).
   Statements only. *)
From GGRS Require Import Base Consts Queue QueueProofs QueueTheorems.
Open Scope Z_scope.

(* For every sequence of arrivals of a remote player's inputs, reads (non-decreasing between two
   resets, never with a misprediction pending, never below the tail - what the session issues),
   resets and discards: no assert of the queue fires, and every input handed out is truthful:
   Confirmed  => the frame had been received and the value is the real input of that frame;
   Predicted  => the frame lies beyond everything received and the value is the predictor applied to
                 the newest received input (the default input 0 if nothing was received yet).
   Stated for any predictor that is idempotent and maps the default input to itself; instantiated
   for the two shipped predictors. *)
Theorem C03_queue_truthful : forall (predict : Z -> Z),
  (forall x, predict (predict x) = predict x) -> predict 0 = 0 ->
  forall (ops : list rop) (s : rstate),
  rrun predict rs_init ops <> Panic /\
  (rrun predict rs_init ops = Ok s -> Forall (entry_ok predict) (rs_log s)).
Proof. exact remote_queue_truthful. Qed.

Theorem C03_queue_truthful_repeat_last : forall (ops : list rop) (s : rstate),
  rrun (fun x => x) rs_init ops <> Panic /\
  (rrun (fun x => x) rs_init ops = Ok s -> Forall (entry_ok (fun x => x)) (rs_log s)).
Proof. exact (remote_queue_truthful (fun x => x) (fun x => eq_refl) eq_refl). Qed.

Theorem C03_queue_truthful_default : forall (ops : list rop) (s : rstate),
  rrun (fun _ => 0) rs_init ops <> Panic /\
  (rrun (fun _ => 0) rs_init ops = Ok s -> Forall (entry_ok (fun _ => 0)) (rs_log s)).
Proof. exact (remote_queue_truthful (fun _ => 0) (fun x => eq_refl) eq_refl). Qed.

(* non-vacuity: prediction, matching arrivals, a misprediction, rollback (reset) and re-read *)
Definition c03_demo_ops : list rop :=
  [RAdd 4; RInput 0; RInput 1; RInput 2; RAdd 4; RAdd 4; RInput 3; RAdd 9; RReset; RInput 3; RDiscard 1; RInput 4].
Example C03_demo :
  exists s, rrun (fun x => x) rs_init c03_demo_ops = Ok s /\
            map (fun e => let '(f, v, st, _) := e in (f, v, st)) (rs_log s) =
            [(0, 4, Confirmed); (1, 4, Predicted); (2, 4, Predicted); (3, 4, Predicted); (3, 9, Confirmed); (4, 9, Predicted)].
Proof. eexists. split; vm_compute; reflexivity. Qed.
