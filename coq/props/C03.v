(* C03 — input status is truthful and confirmed inputs are final (queue level, then session level).
   Statements only. *)
From GGRS Require Import Base Consts Queue QueueProofs QueueTheorems.
From GGRS Require Import Sync P2P Session SessionProofs SessionSparse SessionProgress SessionSparse2 SessionTimeline SessionTimelineSparse SessionSystem.
Open Scope Z_scope.

(* For every sequence of arrivals of a remote player's inputs, reads (non-decreasing between two
   resets, never with a misprediction pending, never below the tail - what the session issues),
   resets and discards: no assert of the queue fires, and every input handed out is truthful:
   Confirmed  => the frame had been received and the value is the real input of that frame;
   Predicted  => the frame lies beyond everything received and the value is the predictor applied to
                 the newest received input (the default input 0 if nothing was received yet).
   Stated for any predictor that is idempotent and maps the default input to itself; instantiated
   for the two shipped predictors. *)
Theorem C03_queue_truthful : forall (predict : Z -> Z),
  (forall x, predict (predict x) = predict x) -> predict 0 = 0 ->
  forall (ops : list rop) (s : rstate),
  rrun predict rs_init ops <> Panic /\
  (rrun predict rs_init ops = Ok s -> Forall (entry_ok predict) (rs_log s)).
Proof. exact remote_queue_truthful. Qed.

Theorem C03_queue_truthful_repeat_last : forall (ops : list rop) (s : rstate),
  rrun (fun x => x) rs_init ops <> Panic /\
  (rrun (fun x => x) rs_init ops = Ok s -> Forall (entry_ok (fun x => x)) (rs_log s)).
Proof. exact (remote_queue_truthful (fun x => x) (fun x => eq_refl) eq_refl). Qed.

Theorem C03_queue_truthful_default : forall (ops : list rop) (s : rstate),
  rrun (fun _ => 0) rs_init ops <> Panic /\
  (rrun (fun _ => 0) rs_init ops = Ok s -> Forall (entry_ok (fun _ => 0)) (rs_log s)).
Proof. exact (remote_queue_truthful (fun _ => 0) (fun x => eq_refl) eq_refl). Qed.

(* non-vacuity: prediction, matching arrivals, a misprediction, rollback (reset) and re-read *)
Definition c03_demo_ops : list rop :=
  [RAdd 4; RInput 0; RInput 1; RInput 2; RAdd 4; RAdd 4; RInput 3; RAdd 9; RReset; RInput 3; RDiscard 1; RInput 4].
Example C03_demo :
  exists s, rrun (fun x => x) rs_init c03_demo_ops = Ok s /\
            map (fun e => let '(f, v, st, _) := e in (f, v, st)) (rs_log s) =
            [(0, 4, Confirmed); (1, 4, Predicted); (2, 4, Predicted); (3, 4, Predicted); (3, 9, Confirmed); (4, 9, Predicted)].
Proof. eexists. split; vm_compute; reflexivity. Qed.


(* ===================================================================================================
   SESSION LEVEL (model coq/P2P.v, tied to the code by the `session` correspondence; space and conventions
   of props/C01.v).  An AdvanceFrame request is read off the request list together with the frame it
   simulates ([adv_frames]: a Load truncates the game's history, an Advance extends it), so the statements
   cover the first simulation of a new frame and every re-simulation alike.

   The invariants (QSg: queues, statuses, frames; the cells invariant of the saving mode; TI: the game's input
   history against the held inputs) hold in every state a run inside the space reaches: *)
Definition CIm (sparse : bool) : Z -> p2p -> game -> Prop := if sparse then CIs else JI1.

Theorem C03_invariants_reachable :
  forall (predict : Z -> Z), (forall x, predict (predict x) = predict x) -> predict 0 = 0 ->
  forall (sparse : bool) (ops : list sop) (n w d : Z) (kinds : list pkind) (eps : list (list Z)) (nspec : nat) (p : p2p) (outs : list (pout * apires)),
  1 <= w -> 0 <= d -> w + d + 3 <= INPUT_QUEUE_LENGTH -> 0 < n -> Z.of_nat (length kinds) = n -> players_only kinds ->
  srun_in predict (session_start n w sparse d kinds eps nspec) ops = Ok (p, outs) ->
  exists g gs, exec_outs w (game0 w) outs = Some g /\ QSg sparse w d p gs /\ CIm sparse w p g /\ TI predict p gs (g_hist g).
Proof.
  intros predict Hi Hz [|].
  - exact (sparse_invariants_reachable predict Hi Hz).
  - exact (invariants_reachable predict Hi Hz).
Qed.

(* ... and in every such state an operation inside the space succeeds, re-establishes them, and EVERY
   AdvanceFrame request it emits is truthful against the inputs the session holds when the call returns
   ([truthful_lt c gs' (f, ins)]: 0 <= f < c = current_frame() after the call, and for every player with held
   inputs hist: Confirmed /\ f < |hist| /\ value = hist[f], or Predicted /\ |hist| <= f /\ value = predict
   (last hist) - the default input 0 if hist is empty).  The held inputs are the real ones: for a remote player
   the inputs delivered, in order; for a local player the delayed inputs registered (props/C01.v). *)
Theorem C03_requests_truthful :
  forall (predict : Z -> Z), (forall x, predict (predict x) = predict x) -> predict 0 = 0 ->
  forall (sparse : bool) (p : p2p) (gs : list ghost) (g : game) (w d : Z) (o : sop),
  QSg sparse w d p gs -> CIm sparse w p g -> TI predict p gs (g_hist g) -> op_ok p o = true ->
  exists s gs' g', sstep predict p o = Ok s /\ QSg sparse w d (sr_state s) gs' /\ CIm sparse w (sr_state s) g' /\
    TI predict (sr_state s) gs' (g_hist g') /\ op_hist d p o gs gs' /\
    Forall (truthful_lt predict (s_current (ps_sync (sr_state s))) gs') (adv_frames (g_hist g) (o_requests (sr_out s))).
Proof.
  intros predict Hi Hz [|].
  - exact (sparse_requests_truthful_step predict Hi Hz).
  - exact (requests_truthful_step predict Hi Hz).
Qed.

(* What a truthful request says, player by player: the status is Confirmed or Predicted (never Disconnected
   inside the space); a frame whose input is held - in particular every frame at or below confirmed_frame(),
   which is the minimum over the players of the last held frame - is handed out as Confirmed with exactly the
   held input, in EVERY simulation of it, so later re-simulations repeat the same values (finality); Predicted
   means the frame lies beyond everything held and carries the predictor's value. *)
Theorem C03_confirmed_inputs_final :
  forall (predict : Z -> Z) (gs : list ghost) (f : Z) (ins : frame_inputs) (h : nat) (hist : list Z) (low v : Z) (st : istatus),
  truthful predict gs (f, ins) -> nth_error gs h = Some (hist, low) -> nth_error ins h = Some (v, st) ->
  (st = Confirmed \/ st = Predicted) /\ (f < hlen hist -> st = Confirmed /\ v = hval hist f) /\
  (st = Predicted -> hlen hist <= f /\ v = predval predict hist).
Proof. exact truthful_held. Qed.

(* Local players' inputs are always Confirmed (and are the registered inputs) *)
Theorem C03_local_players_confirmed :
  forall (predict : Z -> Z) (sparse : bool) (w d : Z) (p : p2p) (gs : list ghost) (f : Z) (ins : frame_inputs) (h : nat) (v : Z) (st : istatus),
  QSg sparse w d p gs -> truthful_lt predict (s_current (ps_sync p)) gs (f, ins) ->
  nth_error (ps_kinds p) h = Some KLocal -> nth_error ins h = Some (v, st) ->
  st = Confirmed /\ exists hist low, nth_error gs h = Some (hist, low) /\ f < hlen hist /\ v = hval hist f.
Proof. exact truthful_local. Qed.

(* confirmed_frame() never decreases *)
Theorem C03_confirmed_frame_monotone :
  forall (predict : Z -> Z), (forall x, predict (predict x) = predict x) -> predict 0 = 0 ->
  forall (sparse : bool) (p : p2p) (gs : list ghost) (g : game) (w d : Z) (o : sop) (s : sres) (cf cf' : Z),
  QSg sparse w d p gs -> CIm sparse w p g -> TI predict p gs (g_hist g) -> op_ok p o = true ->
  sstep predict p o = Ok s -> confirmed_frame p = Ok cf -> confirmed_frame (sr_state s) = Ok cf' -> cf <= cf'.
Proof.
  intros predict Hi Hz [|].
  - exact (sparse_confirmed_frame_monotone predict Hi Hz).
  - exact (confirmed_frame_monotone predict Hi Hz).
Qed.

(* non-vacuity: the run of props/C01.v's demo, every AdvanceFrame request of every call with its frame: the
   last call rolls back to frame 0 and re-simulates frames 0 and 1 with player 1's real inputs (7, Confirmed)
   where the first simulations had (0, Predicted); the new frame 2 predicts 7 *)
Fixpoint adv_all (G : ghist) (outs : list (pout * apires)) : list (list (Z * frame_inputs)) :=
  match outs with
  | [] => []
  | o :: r => adv_frames G (o_requests (fst o)) :: adv_all (replay_hist G (o_requests (fst o))) r
  end.
Example C03_session_demo :
  exists p outs, srun_in (fun x => x) (session_start 2 2 false 0 [KLocal; KRemote 0] [[1]] 0)
      [SLocal 0 1; SAdvance; SLocal 0 1; SAdvance; SRemote 1 0 7; SRemote 1 1 7; SLocal 0 2; SAdvance] = Ok (p, outs) /\
    adv_all [] outs =
      [[]; [(0, [(1, Confirmed); (0, Predicted)])]; []; [(1, [(1, Confirmed); (0, Predicted)])]; []; []; [];
       [(0, [(1, Confirmed); (7, Confirmed)]); (1, [(1, Confirmed); (7, Confirmed)]); (2, [(2, Confirmed); (7, Predicted)])]].
Proof. eexists. eexists. split; vm_compute; reflexivity. Qed.

(* RUN LEVEL AND ACROSS THE LINK (coq/SessionTimeline.v run_sends_g, coq/SessionSystem.v).
   (a) After ANY run inside the space (rollback with either saving mode, or lockstep: [mode_ok]) EVERY AdvanceFrame
   request the run ever issued ([all_adv_frames]: first simulations and re-simulations, each with the frame it
   simulates) that hands out (v, Confirmed) for a player does so with the input the session holds for that frame
   and player at the end of the run - a Confirmed input is never revised: what is held only grows. *)
Theorem C03_confirmed_inputs_of_a_run :
  forall (predict : Z -> Z), (forall x, predict (predict x) = predict x) -> predict 0 = 0 ->
  forall (sparse : bool) (ops : list sop) (n w d : Z) (kinds : list pkind) (eps : list (list Z)) (nspec : nat) (p : p2p) (outs : list (pout * apires)),
  mode_ok sparse w d -> 0 <= d -> 0 < n -> Z.of_nat (length kinds) = n -> players_only kinds ->
  srun_in predict (session_start n w sparse d kinds eps nspec) ops = Ok (p, outs) ->
  exists gs, QSg sparse w d p gs /\ Forall (confirmed_ok gs) (all_adv_frames [] outs).
Proof.
  intros predict Hi Hz sparse ops n w d kinds eps nspec p outs Hm Hd Hn Hl Hp H.
  destruct (sends_and_receipts_any predict Hi Hz sparse ops n w d kinds eps nspec p outs Hm Hd Hn Hl Hp H)
    as (g & gs & _ & HQS & _ & _ & _ & _ & _ & _ & _ & Hc).
  exists gs. split; assumption.
Qed.

(* (b) "An input handed out as Confirmed is the real input of that player for that frame": two peers, A owns player
   h, B sees h as a remote player; under the link's integrity contract (props/C01.v, C05.v) every input B EVER hands
   out as Confirmed for h at frame f is the input A holds for (f, h): what h's owner registered for that frame (the
   input submitted, shifted by A's input delay). *)
Theorem C03_confirmed_is_the_owners_input :
  forall (predict : Z -> Z), (forall x, predict (predict x) = predict x) -> predict 0 = 0 ->
  forall (sparseA sparseB : bool) (opsA opsB : list sop) (n wA wB dA dB : Z) (kindsA kindsB : list pkind)
         (epsA epsB : list (list Z)) (nspecA nspecB : nat) (pA pB : p2p) (outsA outsB : list (pout * apires)),
  mode_ok sparseA wA dA -> 0 <= dA -> mode_ok sparseB wB dB -> 0 <= dB ->
  0 < n -> Z.of_nat (length kindsA) = n -> Z.of_nat (length kindsB) = n -> players_only kindsA -> players_only kindsB ->
  srun_in predict (session_start n wA sparseA dA kindsA epsA nspecA) opsA = Ok (pA, outsA) ->
  srun_in predict (session_start n wB sparseB dB kindsB epsB nspecB) opsB = Ok (pB, outsB) ->
  exists gsA, QSg sparseA wA dA pA gsA /\
    forall h e, 0 <= h -> nth_error kindsA (Z.to_nat h) = Some KLocal -> nth_error kindsB (Z.to_nat h) = Some (KRemote e) ->
      delivered_was_sent h outsA opsB ->
      forall f ins v, In (f, ins) (all_adv_frames [] outsB) -> nth_error ins (Z.to_nat h) = Some (v, Confirmed) ->
        exists histA lowA, nth_error gsA (Z.to_nat h) = Some (histA, lowA) /\ 0 <= f < hlen histA /\ v = hval histA f.
Proof. exact two_sessions_confirmed_inputs. Qed.
