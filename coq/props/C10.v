(* C10 — surviving peers agree on the cut-off of a dropped player.  Statements only.
   The code violates the property; the faithful session model violates it in the same way. *)
From GGRS Require Import Base Consts Queue Sync P2P Session.
Open Scope Z_scope.

(* Three peers (player 0 local; players 1 and 2 remote on two endpoints), prediction window 2.
   Player 2's peer dies after this session received its frames 0..5; the session runs on to
   frame 7 (its window).  The other survivor had only received frames 0..3 of player 2 and says so
   in its gossip.  Adopting that cut-off schedules a rollback to frame 4 from frame 7: load_frame's
   `cannot load frame outside of prediction window` assertion fires.  The same script panics the
   real P2PSession (harness level `session`; corpus/C10-gossip-cutoff.session). *)
Definition c10_round (f : Z) : list sop := [SRemote 1 f 1; SRemote 2 f 2; SLocal 0 0; SAdvance].
Definition c10_witness : list sop :=
  c10_round 0 ++ c10_round 1 ++ c10_round 2 ++ c10_round 3 ++ c10_round 4 ++ c10_round 5 ++
  [SRemote 1 6 1; SLocal 0 0; SAdvance; SRemote 1 7 1; SLocal 0 0; SAdvance; SLocal 0 0; SAdvance;
   SGossip 0 [mkcs false 7; mkcs false 7; mkcs true 3]; SLocal 0 0; SAdvance].
Definition c10_start : p2p := session_start 3 2 false 0 [KLocal; KRemote 0; KRemote 1] [[1]; [2]] 0.

Theorem C10_survivor_panics_refuted :
  srun (fun x => x) c10_start c10_witness = Panic.
Proof. vm_compute. reflexivity. Qed.

(* ... and without the last gossip the same history is fine (the witness is minimal in that sense) *)
Theorem C10_same_history_without_gossip_runs :
  exists p outs, srun (fun x => x) c10_start (removelast (removelast (removelast c10_witness))) = Ok (p, outs).
Proof. eexists. eexists. vm_compute. reflexivity. Qed.
