(* C12 (endpoint half) — connection lifecycle events of one remote address are well formed and
   correctly timed.  This file holds statements only; every proof is `exact <lemma>`.
   Model: Endpoint.v (mirrors src/network/protocol.rs, correspondence level `endpoint`);
   reference notions (traces, the grammar recogniser, matched replies, latest accepted message): EndpointSpec.v.

   All theorems quantify over EVERY sequence [ops] of endpoint operations (handle_message with arbitrary
   packets - loss, duplication, reordering, stray and foreign packets are just other sequences -, poll,
   send_input, disconnect, send_checksum_report, update_local_frame_advantage, drain) with arbitrary clock
   readings and nonces, over both build profiles [dbg], and over every configuration of `new`.
   A sequence on which the code panics has no result ([run] = Panic) and is not constrained. *)
From GGRS Require Import Base Consts TimeSync Endpoint EndpointSpec EndpointProofs.
Open Scope Z_scope.

(* (a) The concatenation of all event batches returned by poll (and also together with what still waits in
   the queue) is a prefix of a word of
     Synchronizing(5,1) .. Synchronizing(5,4) Synchronized (NetworkInterrupted NetworkResumed)* NetworkInterrupted? Disconnected?
   with Input events anywhere; in particular nothing but Input events follows Disconnected and there is
   at most one Disconnected.  Holds for the code since 25d3021 without any assumption on the caller. *)
Theorem C12_event_grammar :
  forall now0 magic handles np lp mp timeout notify fps desync dbg ops s evs,
  run dbg (ep_new now0 magic handles np lp mp timeout notify fps desync) ops = Ok (s, evs) ->
  event_grammar evs /\ event_grammar (evs ++ u_event_queue s).
Proof. exact event_grammar_full. Qed.

Theorem C12_at_most_one_disconnected :
  forall now0 magic handles np lp mp timeout notify fps desync dbg ops s evs,
  run dbg (ep_new now0 magic handles np lp mp timeout notify fps desync) ops = Ok (s, evs) ->
  event_grammar (without_disconnected evs) /\ (count_disconnected evs <= 1)%nat.
Proof. exact grammar_modulo_disconnected. Qed.

(* The code before 7ec8d35 violated it: 130 send_input calls without an acknowledgement and one poll
   report Disconnected twice (script confirmed on the real endpoint, see p_endpoint.confirm_multiple_disconnected) *)
Theorem C12_multiple_disconnected_refuted :
  exists s evs, run_gen before_7ec8d35 true w_new w_multi = Ok (s, evs) /\ count_disconnected evs = 2%nat /\
                recog (RSync 0) evs = None.
Proof. exact multiple_disconnected_refuted. Qed.

(* The code before 25d3021 violated it: an interrupted endpoint whose send_input overflows and which then
   receives a packet reports Disconnected followed by NetworkResumed in one poll *)
Theorem C12_event_after_disconnected_refuted :
  exists s evs, run_gen before_25d3021 true w_new w_after = Ok (s, evs) /\ recog (RSync 0) evs = None /\
                skipn 6 (filter (fun e => negb (is_input e)) evs) = [EvDisconnected; EvNetworkResumed].
Proof. exact event_after_disconnected_refuted. Qed.

(* (b) [matched] counts the SyncReply packets handled while their nonce was outstanding in the Synchronizing
   state.  Synchronized is emitted iff NUM_SYNC_PACKETS replies matched; a Running endpoint has matched
   that many; the remote magic is unset before and is the magic of the NUM_SYNC_PACKETS-th matched reply after.
   (is_synchronized is also true for an endpoint that was disconnected before the handshake finished.) *)
Theorem C12_handshake_count :
  forall now0 magic handles np lp mp timeout notify fps desync dbg ops s evs,
  run dbg (ep_new now0 magic handles np lp mp timeout notify fps desync) ops = Ok (s, evs) ->
  let s0 := ep_new now0 magic handles np lp mp timeout notify fps desync in
  let m := matched dbg s0 ops in
  0 <= m <= NUM_SYNC_PACKETS /\
  (m = NUM_SYNC_PACKETS <-> In EvSynchronized (evs ++ u_event_queue s)) /\
  (is_running s = true -> m = NUM_SYNC_PACKETS) /\
  (m = NUM_SYNC_PACKETS -> is_synchronized s = true) /\
  (m < NUM_SYNC_PACKETS -> u_remote_magic s = 0) /\
  (m = NUM_SYNC_PACKETS ->
   u_remote_magic s = nth (Z.to_nat (NUM_SYNC_PACKETS - 1)) (map snd (matches dbg s0 ops)) 0).
Proof. exact handshake_count. Qed.

(* a reply that does not match (unknown or already answered nonce, wrong state, filtered) changes nothing
   of the handshake and emits no Synchronized *)
Theorem C12_unmatched_reply_no_effect : forall dbg now nonce magic n s s',
  match_of s (OMessage now nonce (mkMsg magic (SyncReply n))) = [] ->
  handle_message dbg now nonce (mkMsg magic (SyncReply n)) s = Ok s' ->
  u_state s' = u_state s /\ u_sync_remaining s' = u_sync_remaining s /\
  u_sync_requests s' = u_sync_requests s /\ u_remote_magic s' = u_remote_magic s /\
  ~ In EvSynchronized (skipn (length (u_event_queue s)) (u_event_queue s')).
Proof. exact unmatched_reply_no_effect. Qed.

(* duplicates do not count: if the nonces the endpoint draws are pairwise distinct, every nonce is matched
   at most once *)
Theorem C12_matched_nonces_distinct :
  forall now0 magic handles np lp mp timeout notify fps desync dbg ops s evs,
  let s0 := ep_new now0 magic handles np lp mp timeout notify fps desync in
  fresh_nonces dbg s0 [] ops -> run dbg s0 ops = Ok (s, evs) -> NoDup (map fst (matches dbg s0 ops)).
Proof. exact matched_nonces_distinct. Qed.

(* (c) last_recv_time is the time of the latest handle_message that passed the filters (the creation time
   before the first).  A poll at time [now] pushes NetworkInterrupted only if now > that + notify and
   Disconnected only if now > that + timeout; the queue never holds an unpolled NetworkInterrupted; and
   conversely a poll of a Running endpoint past the threshold pushes the event unless it was pushed before. *)
Theorem C12_no_early_timer :
  forall now0 magic handles np lp mp timeout notify fps desync dbg ops s evs,
  let s0 := ep_new now0 magic handles np lp mp timeout notify fps desync in
  run dbg s0 ops = Ok (s, evs) ->
  let la := last_accept dbg s0 ops now0 in
  u_last_recv_time s = la /\
  forall now nonce cs s' out, step dbg (OPoll now nonce cs) s = Ok (s', out) ->
    exists pushed, out = u_event_queue s ++ pushed /\
      (forall t, ~ In (EvNetworkInterrupted t) (u_event_queue s)) /\
      (forall t, In (EvNetworkInterrupted t) pushed -> la + notify < now /\ t = Z.max 0 (timeout - notify)) /\
      (In EvDisconnected pushed -> la + timeout < now) /\
      (u_state s = PRunning -> u_notify_sent s = false -> u_event_sent s = false -> la + notify < now ->
         In (EvNetworkInterrupted (Z.max 0 (timeout - notify))) pushed) /\
      (u_state s = PRunning -> u_event_sent s = false -> la + timeout < now -> In EvDisconnected pushed).
Proof. exact no_early_timer. Qed.

(* If at every poll of the Running endpoint the latest accepted packet is at most G + P ms old
   (packets arrive at least every G ms - the peer's 200 ms keep-alive / quality-report timers plus its poll
   period plus latency jitter - and are handled at most P ms later) and G + P < notify, then no
   NetworkInterrupted is ever emitted. *)
Theorem C12_no_spurious_interrupt :
  forall now0 magic handles np lp mp timeout notify fps desync G P dbg ops s evs,
  let s0 := ep_new now0 magic handles np lp mp timeout notify fps desync in
  G + P < notify -> fed (G + P) dbg s0 ops now0 -> run dbg s0 ops = Ok (s, evs) ->
  forall t, ~ In (EvNetworkInterrupted t) (evs ++ u_event_queue s).
Proof. exact no_spurious_interrupt. Qed.

(* the default configuration leaves room: the peer's timers fire every 200 ms, so G + P may be up to 499 ms *)
Theorem C12_default_margin :
  KEEP_ALIVE_INTERVAL < DEFAULT_DISCONNECT_NOTIFY_START /\ QUALITY_REPORT_INTERVAL < DEFAULT_DISCONNECT_NOTIFY_START /\
  DEFAULT_DISCONNECT_NOTIFY_START <= DEFAULT_DISCONNECT_TIMEOUT.
Proof. vm_compute. intuition discriminate. Qed.

(* non-vacuity: a complete handshake under duplicated, stray and foreign replies reaches Running with
   exactly the five Synchronizing/Synchronized events, remote magic = magic of the fifth matched reply *)
Example C12_handshake_example :
  exists s evs, run true w_new w_dup = Ok (s, evs) /\ is_running s = true /\ matched true w_new w_dup = 5 /\
    u_remote_magic s = 8 /\ fresh_nonces true w_new [] w_dup /\
    evs = [EvSynchronizing 5 1; EvSynchronizing 5 2; EvSynchronizing 5 3; EvSynchronizing 5 4; EvSynchronized].
Proof. exact handshake_example. Qed.

(* non-vacuity: interruption at notify+1 (not at notify), resume, interruption, timeout at timeout+1 *)
Example C12_cycle_example :
  exists s evs, run true w_new w_cycle = Ok (s, evs) /\
    skipn 5 evs = [EvNetworkInterrupted 1500; EvNetworkResumed; EvNetworkInterrupted 1500; EvDisconnected] /\
    event_grammar evs.
Proof. exact cycle_example. Qed.

(* the repaired code on the first witness: one Disconnected *)
Example C12_multiple_disconnected_repaired :
  exists s evs, run true w_new w_multi = Ok (s, evs) /\ count_disconnected evs = 1%nat.
Proof. exact multiple_disconnected_repaired. Qed.

Check C12_event_grammar :
  forall now0 magic handles np lp mp timeout notify fps desync dbg ops s evs,
  run dbg (ep_new now0 magic handles np lp mp timeout notify fps desync) ops = Ok (s, evs) ->
  event_grammar evs /\ event_grammar (evs ++ u_event_queue s).
