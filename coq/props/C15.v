(* C15 (time-sync part) — frames_ahead() = TimeSync::average_frame_advantage settles at +k / -k for a
   steady lead k, the two peers' values sum to within one frame of zero; the remote-frame estimate
   that feeds the windows (UdpProtocol::update_local_frame_advantage) and the i16 clamp of the
   quality report.  Floating point is IEEE binary32 (Flocq), bit-exact.
   This file holds statements only; every proof is `exact <lemma>`. *)
From Coq Require Import ZArith List Bool.
From GGRS Require Import Base Consts TimeSync TimeSyncProofs.
Open Scope Z_scope.

(* side condition on the constant generated from time_sync.rs *)
Lemma fws_pos : 0 < FRAME_WINDOW_SIZE.
Proof. vm_compute. reflexivity. Qed.

(* ---- (a) the windowed average -------------------------------------------------------------- *)

(* The result depends on the windows only through their two sums (no i32 overflow while summing:
   |entries| <= B with FRAME_WINDOW_SIZE * B <= i32::MAX), in either build profile. *)
Theorem C15_avg_of_sums : forall dbg B ts,
  ts_wf ts ->
  0 <= B -> FRAME_WINDOW_SIZE * B <= TS_I32_MAX ->
  Forall (fun x => - B <= x <= B) (ts_local ts) ->
  Forall (fun x => - B <= x <= B) (ts_remote ts) ->
  ts_average_frame_advantage dbg ts =
    Ok (ts_avg_of_sums (ts_zsum (ts_local ts)) (ts_zsum (ts_remote ts))).
Proof. exact (fun dbg B ts => ts_average_of_sums dbg B ts fws_pos). Qed.

(* Sum level, lifted from the in-kernel sweep [ts_steady_sweep] over k in -7..=7 and both sum ranges:
   peer A holds (local sum sl, remote sum sr), peer B the mirrored pair. *)
Theorem C15_avg_steady_sums : forall k sl sr,
  -7 <= k <= 7 ->
  FRAME_WINDOW_SIZE * (- k - 1) <= sl <= FRAME_WINDOW_SIZE * (- k + 1) ->
  FRAME_WINDOW_SIZE * (k - 1) <= sr <= FRAME_WINDOW_SIZE * (k + 1) ->
  ts_steady_ok k (ts_avg_of_sums sl sr) (ts_avg_of_sums sr sl) = true.
Proof. exact ts_steady_sums. Qed.

(* Window level: all FRAME_WINDOW_SIZE local entries within one frame of -k, all remote entries within
   one frame of +k  =>  a = frames_ahead of this peer is within 1 of k, b = frames_ahead of the peer
   holding the mirrored windows is within 1 of -k, and a + b is within 1 of 0.  No panic. *)
Theorem C15_avg_steady : forall dbg k ts,
  -7 <= k <= 7 ->
  ts_wf ts ->
  Forall (fun x => - k - 1 <= x <= - k + 1) (ts_local ts) ->
  Forall (fun x => k - 1 <= x <= k + 1) (ts_remote ts) ->
  exists a b,
    ts_average_frame_advantage dbg ts = Ok a /\
    ts_average_frame_advantage dbg (ts_mirror ts) = Ok b /\
    k - 1 <= a <= k + 1 /\ - k - 1 <= b <= - k + 1 /\ -1 <= a + b <= 1.
Proof. exact ts_avg_steady. Qed.

(* History level: from ANY well-formed window contents, once advance_frame has been called for at
   least FRAME_WINDOW_SIZE consecutive frames f, f+1, .. with advantages inside the bands, the same holds
   (every slot has been overwritten: index = frame as usize % FRAME_WINDOW_SIZE). *)
Theorem C15_avg_settles : forall dbg k ts0 f ws,
  -7 <= k <= 7 ->
  ts_wf ts0 ->
  0 <= f -> f + Z.of_nat (length ws) <= 2147483648 ->
  FRAME_WINDOW_SIZE <= Z.of_nat (length ws) ->
  Forall (fun w => (- k - 1 <= fst w <= - k + 1) /\ (k - 1 <= snd w <= k + 1)) ws ->
  exists ts a b,
    ts_run ts0 f ws = Ok ts /\ ts_wf ts /\
    ts_average_frame_advantage dbg ts = Ok a /\
    ts_average_frame_advantage dbg (ts_mirror ts) = Ok b /\
    k - 1 <= a <= k + 1 /\ - k - 1 <= b <= - k + 1 /\ -1 <= a + b <= 1.
Proof. exact ts_avg_settles. Qed.

(* the states the code can reach are well formed, and advance_frame never panics on them *)
Theorem C15_wf_reachable :
  ts_wf ts_new /\
  forall ts f l r, ts_wf ts -> exists ts', ts_advance_frame ts f l r = Ok ts' /\ ts_wf ts'.
Proof. exact (conj ts_new_wf (fun ts f l r => ts_advance_frame_wf ts f l r fws_pos)). Qed.

(* the binary32 computation is NOT the exact rational one (why the model carries floats) *)
Theorem C15_avg_not_exact :
  ts_avg_of_sums (-116) (-56) = 0 /\ Z.quot (-56 - -116) (2 * FRAME_WINDOW_SIZE) = 1.
Proof. exact ts_avg_not_exact. Qed.

(* ---- (b) the estimate that feeds the windows ------------------------------------------------- *)

(* one-way latency L in 0..=100 ms (rtt = 2L, or 2L+1 across a clock tick), fps in 1..=1000, frames
   up to 2^30: remote_frame = last_recv_frame + floor(L * fps / 1000); no panic in either profile *)
Theorem C15_estimate : forall dbg L e fps lr lf cur,
  0 <= L <= 100 -> 0 <= e <= 1 -> 1 <= fps <= 1000 ->
  0 <= lr <= 1073741824 -> 0 <= lf <= 1073741824 ->
  ts_update_local_frame_advantage dbg (2 * L + e) fps lr lf cur =
    Ok (lr + L * fps / 1000 - lf).
Proof. exact ts_ulfa_latency. Qed.

(* nothing is recorded before both frames exist *)
Theorem C15_estimate_null : forall dbg rtt fps lr lf cur,
  lf = NULL \/ lr = NULL -> ts_update_local_frame_advantage dbg rtt fps lr lf cur = Ok cur.
Proof. exact ts_ulfa_null. Qed.

(* closed form and monotonicity in the measured round trip wherever the i32 operations stay in range *)
Theorem C15_estimate_value : forall dbg rtt fps lr lf cur,
  0 <= rtt -> 0 <= fps <= TS_I32_MAX ->
  0 <= lr <= TS_I32_MAX -> 0 <= lf <= TS_I32_MAX ->
  ts_ping rtt * fps <= TS_I32_MAX ->
  lr + ts_ping rtt * fps / 1000 <= TS_I32_MAX ->
  ts_update_local_frame_advantage dbg rtt fps lr lf cur =
    Ok (lr + ts_ping rtt * fps / 1000 - lf).
Proof. exact ts_ulfa_value. Qed.

Theorem C15_estimate_mono : forall dbg r1 r2 fps lr lf cur a1 a2,
  0 <= r1 <= r2 -> 0 <= fps <= TS_I32_MAX ->
  0 <= lr <= TS_I32_MAX -> 0 <= lf <= TS_I32_MAX ->
  ts_ping r2 * fps <= TS_I32_MAX ->
  lr + ts_ping r2 * fps / 1000 <= TS_I32_MAX ->
  ts_update_local_frame_advantage dbg r1 fps lr lf cur = Ok a1 ->
  ts_update_local_frame_advantage dbg r2 fps lr lf cur = Ok a2 ->
  a1 <= a2.
Proof. exact ts_ulfa_mono. Qed.

(* the estimate lands in the band the window theorem assumes: B is at frame b, the newest frame
   received from it left one latency ago (give or take one frame), this peer is k frames ahead *)
Theorem C15_estimate_band : forall dbg L e fps b k lr cur,
  0 <= L <= 100 -> 0 <= e <= 1 -> 1 <= fps <= 1000 ->
  -7 <= k <= 7 -> 0 <= b + k <= 1073741824 -> 0 <= lr <= 1073741824 ->
  b - L * fps / 1000 - 1 <= lr <= b - L * fps / 1000 + 1 ->
  exists adv,
    ts_update_local_frame_advantage dbg (2 * L + e) fps lr (b + k) cur = Ok adv /\
    - k - 1 <= adv <= - k + 1.
Proof. exact ts_ulfa_steady_band. Qed.

(* ping: half the round trip, saturated at i32::MAX; rtt = now - pong, saturated at 0 *)
Theorem C15_ping : forall rtt, 0 <= rtt ->
  0 <= ts_ping rtt <= TS_I32_MAX /\ (rtt / 2 <= TS_I32_MAX -> ts_ping rtt = rtt / 2).
Proof. exact (fun rtt H => conj (ts_ping_range rtt H) (ts_ping_half rtt H)). Qed.

Theorem C15_rtt : forall sent d, 0 <= d -> ts_round_trip_time (sent + d) sent = d.
Proof. exact ts_rtt_exact. Qed.

(* send_quality_report: the `expect` after the clamp can never fire; values in i16 range pass unchanged *)
Theorem C15_report_clamp : forall adv,
  ts_report_frame_advantage adv = Ok (ts_clamp_i16 adv) /\
  TS_I16_MIN <= ts_clamp_i16 adv <= TS_I16_MAX /\
  (TS_I16_MIN <= adv <= TS_I16_MAX -> ts_clamp_i16 adv = adv).
Proof.
  exact (fun adv => conj (ts_report_total adv) (conj (ts_clamp_i16_range adv) (ts_clamp_i16_id adv))).
Qed.

(* outside the C15 range the i32 product ping * fps can overflow: a round trip of 2*10^8 ms at 60 fps
   panics with overflow checks and yields a wrapped estimate without (see the report: reachable
   through a QualityReply whose pong is not the echo of a recent ping) *)
Theorem C15_estimate_overflow_witness :
  ts_update_local_frame_advantage true 200000000 60 0 0 0 = Panic /\
  ts_update_local_frame_advantage false 200000000 60 0 0 0 = Ok 1705032.
Proof. exact ts_ulfa_overflow. Qed.

(* ---- (b') the recommendation gate (P2PSession::check_wait_recommendation) ----------------------
   For EVERY sequence of calls (any frames, any frames_ahead values, no monotonicity assumed), from
   any gate state: *)

(* a WaitRecommendation is raised only while frames_ahead >= MIN_RECOMMENDATION (= 3) and carries
   exactly that value; the u32 conversion in front of the event can never panic *)
Theorem C15_gate_value : forall calls next cf fa k,
  In (cf, fa, Some k) (gate_run next calls) -> next < cf /\ k = fa /\ MIN_RECOMMENDATION <= fa.
Proof. exact gate_run_above. Qed.

Theorem C15_gate_total : forall calls next, length (gate_run next calls) = length calls.
Proof. exact gate_run_length. Qed.

(* two recommendations of one run are more than RECOMMENDATION_INTERVAL (= 60) frames apart *)
Theorem C15_gate_spacing : forall calls next pre cf1 fa1 k1 post cf2 fa2 k2,
  gate_run next calls = pre ++ (cf1, fa1, Some k1) :: post ->
  In (cf2, fa2, Some k2) post ->
  cf1 + RECOMMENDATION_INTERVAL < cf2.
Proof. exact gate_spacing. Qed.

(* the call after a recommendation raises the next one exactly when it is more than the interval later and
   the lead is still there: the cadence under a lasting lead is one recommendation per 61 frames *)
Theorem C15_gate_next_call : forall calls next pre cf1 fa1 k1 cf fa o post,
  gate_run next calls = pre ++ (cf1, fa1, Some k1) :: (cf, fa, o) :: post ->
  (o = Some fa /\ cf1 + RECOMMENDATION_INTERVAL < cf /\ MIN_RECOMMENDATION <= fa) \/
  (o = None /\ ~ (cf1 + RECOMMENDATION_INTERVAL < cf /\ MIN_RECOMMENDATION <= fa)).
Proof. exact gate_next_call. Qed.

(* cadence under a lasting lead (n calls at consecutive frames c, c+1, ... with frames_ahead = fa >= 3, from a gate
   state that a run with non-decreasing frames can be in: next < c + 60): a call raises a recommendation exactly
   when its frame is a multiple of RECOMMENDATION_INTERVAL + 1 = 61 frames past the first frame above the gate
   state - one recommendation per 61 frames, never fewer *)
Theorem C15_gate_steady_cadence : forall n next c fa cf o,
  MIN_RECOMMENDATION <= fa -> next < c + RECOMMENDATION_INTERVAL ->
  In (cf, fa, o) (gate_run next (gate_steady c n fa)) ->
  (o = Some fa /\ (cf - Z.max (next + 1) c) mod (RECOMMENDATION_INTERVAL + 1) = 0) \/
  (o = None /\ (cf - Z.max (next + 1) c) mod (RECOMMENDATION_INTERVAL + 1) <> 0).
Proof. exact gate_steady_cadence. Qed.

(* and none is withheld *)
Theorem C15_gate_emits : forall next cf fa, next < cf -> MIN_RECOMMENDATION <= fa ->
  gate_step next cf fa = Ok (cf + RECOMMENDATION_INTERVAL, Some fa).
Proof. exact gate_step_emits. Qed.

Theorem C15_gate_consts : MIN_RECOMMENDATION = 3 /\ RECOMMENDATION_INTERVAL = 60.
Proof. exact gate_consts. Qed.

(* ---- (c) non-vacuity ------------------------------------------------------------------------- *)

(* a steady lead of 5 with jitter: hypotheses of C15_avg_steady are satisfiable, result computed *)
Example C15_ex_steady :
  ts_wf ts_ex_steady /\
  Forall (fun x => - 5 - 1 <= x <= - 5 + 1) (ts_local ts_ex_steady) /\
  Forall (fun x => 5 - 1 <= x <= 5 + 1) (ts_remote ts_ex_steady) /\
  ts_average_frame_advantage true ts_ex_steady = Ok 5 /\
  ts_average_frame_advantage true (ts_mirror ts_ex_steady) = Ok (-5).
Proof. exact ts_ex_steady_ok. Qed.

(* a history (k = -3): 40 frames from frame 7 on stale windows; hypotheses of C15_avg_settles hold *)
Example C15_ex_settles :
  ts_wf ts_ex_stale /\ FRAME_WINDOW_SIZE <= Z.of_nat (length ts_ex_writes) /\
  Forall (fun w => (- -3 - 1 <= fst w <= - -3 + 1) /\ (-3 - 1 <= snd w <= -3 + 1)) ts_ex_writes /\
  match ts_run ts_ex_stale 7 ts_ex_writes with
  | Ok ts => ts_average_frame_advantage true ts
  | _ => Err
  end = Ok (-3).
Proof. exact ts_ex_settles_ok. Qed.

(* the unit tests of time_sync.rs, and frame -1 (NULL) indexing slot (2^64 - 1) mod 30 = 15 *)
Example C15_ex_unit_tests :
  ts_average_frame_advantage true {| ts_local := repeat 5 30; ts_remote := repeat (-5) 30 |} = Ok (-5) /\
  ts_average_frame_advantage true {| ts_local := repeat (-30) 10 ++ repeat 0 20;
                                     ts_remote := repeat 30 10 ++ repeat 0 20 |} = Ok 10 /\
  ts_average_frame_advantage true {| ts_local := repeat 2 30; ts_remote := repeat 6 30 |} = Ok 2 /\
  ts_index (-1) 30 = 15.
Proof. vm_compute. repeat split. Qed.

(* the estimate at 60 fps and 50 ms one-way latency: three frames in flight *)
Example C15_ex_estimate :
  ts_update_local_frame_advantage true 100 60 200 205 0 = Ok (-2) /\
  ts_update_local_frame_advantage true 101 60 200 205 0 = Ok (-2) /\
  ts_update_local_frame_advantage true 100 60 NULL 205 7 = Ok 7 /\
  ts_report_frame_advantage 40000 = Ok 32767 /\ ts_report_frame_advantage (-2) = Ok (-2).
Proof. vm_compute. repeat split. Qed.

(* overflow while summing is a panic with overflow checks and wraps without *)
Example C15_ex_sum_overflow :
  ts_average_frame_advantage true {| ts_local := repeat 2147483647 30; ts_remote := repeat 0 30 |} = Panic /\
  exists a, ts_average_frame_advantage false {| ts_local := repeat 2147483647 30; ts_remote := repeat 0 30 |} = Ok a.
Proof. vm_compute. exact (conj eq_refl (ex_intro _ _ eq_refl)). Qed.

(* a run through the gate: a lead that comes and goes; three recommendations at frames 2, 63, 124 *)
Example C15_ex_gate : gate_run gate_init gate_ex_calls =
  [(1, 0, None); (2, 3, Some 3); (3, 5, None); (40, 7, None); (62, 2, None); (63, 4, Some 4);
   (64, 4, None); (123, 2, None); (124, 9, Some 9)].
Proof. exact gate_ex_ok. Qed.

Check C15_avg_steady : forall dbg k ts,
  -7 <= k <= 7 ->
  ts_wf ts ->
  Forall (fun x => - k - 1 <= x <= - k + 1) (ts_local ts) ->
  Forall (fun x => k - 1 <= x <= k + 1) (ts_remote ts) ->
  exists a b,
    ts_average_frame_advantage dbg ts = Ok a /\
    ts_average_frame_advantage dbg (ts_mirror ts) = Ok b /\
    k - 1 <= a <= k + 1 /\ - k - 1 <= b <= - k + 1 /\ -1 <= a + b <= 1.
Check C15_estimate : forall dbg L e fps lr lf cur,
  0 <= L <= 100 -> 0 <= e <= 1 -> 1 <= fps <= 1000 ->
  0 <= lr <= 1073741824 -> 0 <= lf <= 1073741824 ->
  ts_update_local_frame_advantage dbg (2 * L + e) fps lr lf cur =
    Ok (lr + L * fps / 1000 - lf).
Example C15_ex_gate_steady :
  map (fun e => fst (fst e)) (filter (fun e => match snd e with Some _ => true | None => false end)
    (gate_run gate_init (gate_steady 1 200 4))) = [1; 62; 123; 184].
Proof. vm_compute. reflexivity. Qed.

Check C15_gate_spacing : forall calls next pre cf1 fa1 k1 post cf2 fa2 k2,
  gate_run next calls = pre ++ (cf1, fa1, Some k1) :: post ->
  In (cf2, fa2, Some k2) post ->
  cf1 + RECOMMENDATION_INTERVAL < cf2.
Check C15_gate_value : forall calls next cf fa k,
  In (cf, fa, Some k) (gate_run next calls) -> next < cf /\ k = fa /\ MIN_RECOMMENDATION <= fa.
