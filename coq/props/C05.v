(* C05 (link half) — "a lost acknowledgement, in any protocol state and for any prediction-window setting,
   cannot leave the receiver permanently unable to accept the sender's retransmissions.  The synchronisation
   handshake likewise completes under any loss pattern that eventually lets packets through."
   Statements only; every proof is `exact <lemma>` (lemmas in EndpointLink.v, building on EndpointSafety.v).
   Model: Endpoint.v (src/network/protocol.rs, correspondence level `endpoint`), current code, both build profiles.
   The link model: a sender S and a receiver R (both Running), the steps [epl_step]: send_input at S (consecutive
   frames, at most PENDING_OUTPUT_SIZE unacknowledged before the call), poll of either endpoint at any time, and
   delivery of ANY packet ever queued by one endpoint to the other at any time, any number of times (send queues
   are never drained in the model: loss = never delivered, duplication, delay and reordering are all covered).
   Window: 0 <= max_prediction < 2^30 (eps_window_ok), in particular 0 and 1.  Codec: C14 (CodecProofs.codec_roundtrip). *)
From GGRS Require Import Base Consts TimeSync Codec Endpoint EndpointSpec EndpointProofs EndpointSafety EndpointLink EndpointEvents.
Open Scope Z_scope.

(* (a) re-ack (b2421d6, first half): for EVERY receiver state, an Input packet whose base frame start_frame - 1 is not
   kept and whose start_frame <= last_recv_frame is answered with InputAck(last_recv_frame); nothing else changes
   in recv_inputs *)
Theorem C05_reack : forall dbg now nonce m st dr sf af bytes R,
  m_body m = Input st dr sf af bytes -> passes_filters R m = true -> eps_wf R ->
  dr = true \/ Z.of_nat (length st) = u_num_players R -> 0 <= sf ->
  alookup (sf - 1) (u_recv_inputs R) = None -> sf <= last_recv_frame R ->
  exists R', handle_message dbg now nonce m R = Ok R' /\
    u_send_queue R' = u_send_queue R ++ [mkMsg (u_magic R) (InputAck (last_recv_frame R))] /\
    u_recv_inputs R' = u_recv_inputs R /\ u_state R' = u_state R.
Proof. exact epl_reack. Qed.

(* (a) retain rule (b2421d6, second half): whatever a packet with start_frame sf makes the receiver do, the entry
   sf - 1 it was encoded against is still there afterwards - a sender whose base is A is served by a receiver that
   decoded a packet based on A for as long as it keeps that base *)
Theorem C05_base_never_dropped : forall dbg now nonce m st dr sf af bytes R R' b,
  m_body m = Input st dr sf af bytes -> handle_message dbg now nonce m R = Ok R' ->
  eps_ri_ok R -> eps_window_ok R ->
  alookup (sf - 1) (u_recv_inputs R) = Some b -> alookup (sf - 1) (u_recv_inputs R') = Some b.
Proof. exact epl_base_never_dropped. Qed.

(* (b) an acknowledgement for a pending frame a moves the base: pending_output becomes the frames above a,
   last_acked_input the entry a, and the next packet starts at a + 1 and is encoded against the bytes of a *)
Theorem C05_ack_moves_base : forall dbg now nonce m S f0 pre a b post,
  u_pending_output S = pre ++ (a, b) :: post -> epl_consec f0 (u_pending_output S) ->
  passes_filters S m = true -> m_body m = InputAck a ->
  exists S', handle_message dbg now nonce m S = Ok S' /\
    u_pending_output S' = post /\ u_last_acked S' = (a, b) /\
    forall cs, epl_packet cs S' =
      match post with
      | [] => None
      | _ => Some (mkMsg (u_magic S) (Input cs (pstate_eqb (u_state S) PDisconnected) (a + 1) (last_recv_frame S)
                                            (Codec.encode b (map snd post))))
      end.
Proof. exact epl_ack_moves_base. Qed.

(* the ack_frame of an Input packet (not dropped at its header) pops in the same way *)
Theorem C05_input_ack_pops : forall dbg now nonce m st dr sf af bytes S S',
  m_body m = Input st dr sf af bytes -> passes_filters S m = true ->
  dr = true \/ Z.of_nat (length st) = u_num_players S -> 0 <= sf ->
  handle_message dbg now nonce m S = Ok S' ->
  (u_pending_output S', u_last_acked S') = pop_pending af (u_pending_output S) (u_last_acked S).
Proof. exact epl_input_ack_pops. Qed.

Theorem C05_pop_consec : forall f pre a b post la,
  epl_consec f (pre ++ (a, b) :: post) -> pop_pending a (pre ++ (a, b) :: post) la = (post, (a, b)).
Proof. exact epl_pop_consec. Qed.

(* [epl_packet cs S] is the packet send_pending_output queues; S's retry timer: a poll more than
   RUNNING_RETRY_INTERVAL after the last input traffic queues it again *)
Theorem C05_retry_fires : forall now nonce cs S out S' P,
  u_state S = PRunning -> u_last_input_recv S + RUNNING_RETRY_INTERVAL < now ->
  poll now nonce cs S = Ok (out, S') -> epl_packet cs S = Some P ->
  In P (u_send_queue S') /\ epl_packet cs S' = Some P.
Proof. exact epl_retry_fires. Qed.

(* (c) the link invariant [epl_inv nh f0 S R sent] (DESIGN.md A.3): sent = consecutive frames from f0 of 4*nh bytes,
   none above i32::MAX; pending_output(S) = the suffix of sent above last_acked_input(S), which is the entry before it
   (blank before the first ack), at most PENDING_OUTPUT_SIZE + 1 entries; R's stored frames carry S's bytes (key -1 =
   blank), recv_inputs(R) has distinct keys, is never empty (so it contains last_recv_frame(R)); last_acked(S) <=
   last_recv_frame(R); every Input packet S ever queued is a segment of sent encoded against the entry before it;
   every acknowledgement R ever queued is <= last_recv_frame(R) and a frame of sent.
   It is preserved by every step of the link, for every loss / duplication / delay / reordering pattern: *)
Theorem C05_link_invariant : forall dbg nh f0 S R sent S' R' sent',
  epl_inv nh f0 S R sent -> epl_step dbg nh f0 (S, R, sent) (S', R', sent') -> epl_inv nh f0 S' R' sent'.
Proof. exact epl_inv_step. Qed.

Theorem C05_link_invariant_reachable : forall dbg nh f0 x y, epl_steps dbg nh f0 x y ->
  epl_inv nh f0 (fst (fst x)) (snd (fst x)) (snd x) -> epl_inv nh f0 (fst (fst y)) (snd (fst y)) (snd y).
Proof. exact epl_inv_steps. Qed.

(* it holds when both endpoints have just become Running (nothing sent, nothing received) *)
Theorem C05_link_invariant_initial : forall nh f0 S R,
  0 <= f0 -> (1 <= nh)%nat -> 4 * Z.of_nat nh <= 65535 -> f0 - 1 <= TS_I32_MAX ->
  u_state S = PRunning -> u_pending_output S = [] -> u_last_acked S = (NULL, epl_zeros nh) ->
  u_state R = PRunning -> eps_inv R -> eps_window_ok R -> length (u_handles R) = nh ->
  u_recv_inputs R = [(NULL, epl_zeros nh)] ->
  Forall (fun m => epl_plain (m_body m) = true) (u_send_queue S) ->
  Forall (fun m => epl_plain (m_body m) = true) (u_send_queue R) ->
  epl_inv nh f0 S R [].
Proof. exact epl_inv_initial. Qed.

(* in every reachable link state R keeps the entry of last_recv_frame(R), which is -1 or a frame of the stream *)
Theorem C05_receiver_keeps_last : forall nh f0 S R sent, epl_inv nh f0 S R sent ->
  exists b, alookup (last_recv_frame R) (u_recv_inputs R) = Some b /\
    -1 <= last_recv_frame R <= f0 + Z.of_nat (length sent) - 1 /\
    (last_recv_frame R = NULL \/ In (last_recv_frame R, b) sent).
Proof. exact epl_receiver_keeps_last. Qed.

(* (c) wedge-freedom: in EVERY reachable link state with something pending, the exchange
     S's current packet (what its retry timer sends, C05_retry_fires) reaches R;
     R's answer reaches S;  S's next packet (if any) reaches R
   runs without panic or error and ends with last_recv_frame(R) = the newest frame S was given.
   [epl_compat]: each side accepts the other's magic and S's connect-status vector has the length R expects. *)
Theorem C05_exchange_reaches_newest : forall dbg nh f0 S R sent cs t1 t2 t3,
  epl_inv nh f0 S R sent -> epl_compat S R cs -> u_pending_output S <> [] ->
  exists S1 R2, epl_exchange dbg t1 t2 t3 cs S R = Ok (S1, R2) /\
    last_recv_frame R2 = f0 + Z.of_nat (length sent) - 1.
Proof. exact epl_exchange_reaches_newest. Qed.

(* what R does with any packet of the stream: it re-acknowledges (base gone, packet stale) or decodes it up to its
   last frame and acknowledges that - never the silent drop of the code before b2421d6 *)
Theorem C05_good_packet_handled : forall dbg nh f0 R sent m st start ack bytes now nonce a frames c base,
  0 <= f0 -> (1 <= nh)%nat -> 4 * Z.of_nat nh <= 65535 ->
  epl_sent_ok nh f0 sent -> epl_receiver_ok nh R sent -> m_body m = Input st false start ack bytes ->
  epl_packet_is nh f0 R sent start bytes a frames c base -> epl_accepts R m st ->
  exists R1, handle_message dbg now nonce m R = Ok R1 /\
    ((alookup (start - 1) (u_recv_inputs R) = None /\ 0 <= start <= last_recv_frame R /\
      u_recv_inputs R1 = u_recv_inputs R /\
      u_send_queue R1 = u_send_queue R ++ [mkMsg (u_magic R) (InputAck (last_recv_frame R))]) \/
     (last_recv_frame R1 = Z.max (last_recv_frame R) (start + Z.of_nat (length frames) - 1) /\
      u_send_queue R1 = u_send_queue R ++ [mkMsg (u_magic R) (InputAck (last_recv_frame R1))])).
Proof. exact epl_handle_good_packet. Qed.

(* (d) handshake progress.  A reply to an outstanding request is a matched round trip ... *)
Theorem C05_round_trip_progress : forall dbg t fresh n A B,
  u_state A = PSynchronizing -> u_remote_magic A = 0 -> zmem n (u_sync_requests A) = true ->
  1 <= u_sync_remaining A <= NUM_SYNC_PACKETS -> epl_answers A B ->
  exists A' B', epl_round_trip dbg t fresh n A B = Ok (A', B') /\
    In (mkMsg (u_magic B) (SyncReply n)) (u_send_queue B') /\
    match_of A (OMessage t fresh (mkMsg (u_magic B) (SyncReply n))) = [(n, u_magic B)] /\
    u_sync_remaining A' = u_sync_remaining A - 1 /\ u_magic A' = u_magic A /\ u_magic B' = u_magic B /\
    epl_answers A' B' /\
    ((1 < u_sync_remaining A /\ u_state A' = PSynchronizing /\ u_remote_magic A' = 0 /\
      zmem fresh (u_sync_requests A') = true) \/
     (u_sync_remaining A = 1 /\ u_state A' = PRunning /\ u_remote_magic A' = u_magic B)).
Proof. exact epl_round_trip_progress. Qed.

(* ... if the request was lost, the retry timer sends a fresh one ... *)
Theorem C05_sync_retry : forall now nonce cs A,
  u_state A = PSynchronizing -> u_last_sync_request_time A + SYNC_RETRY_INTERVAL < now ->
  exists out A', poll now nonce cs A = Ok (out, A') /\
    u_state A' = PSynchronizing /\ u_sync_remaining A' = u_sync_remaining A /\ u_remote_magic A' = u_remote_magic A /\
    u_magic A' = u_magic A /\ zmem nonce (u_sync_requests A') = true /\
    In (mkMsg (u_magic A) (SyncRequest nonce)) (u_send_queue A').
Proof. exact epl_sync_retry. Qed.

(* ... so as many fault-free round trips as remain (5 - k) reach Running, with the replier's magic ... *)
Theorem C05_handshake_completes : forall dbg t fresh n A B,
  u_state A = PSynchronizing -> u_remote_magic A = 0 -> zmem n (u_sync_requests A) = true ->
  1 <= u_sync_remaining A <= NUM_SYNC_PACKETS -> epl_answers A B ->
  Z.of_nat (length fresh) = u_sync_remaining A ->
  exists A' B', epl_round_trips dbg t n fresh A B = Ok (A', B') /\
    u_state A' = PRunning /\ u_remote_magic A' = u_magic B /\ u_sync_remaining A' = 0.
Proof. exact epl_handshake_completes. Qed.

(* ... in every reachable Synchronizing state k = matched = NUM_SYNC_PACKETS - remaining (C12_handshake_count's
   count), 1 <= remaining <= 5, the peer's magic unknown; a reply to an outstanding request makes it k + 1 ... *)
Theorem C05_matched_synchronizing : forall now0 magic handles np lp mp timeout notify fps desync dbg ops A evs,
  let s0 := ep_new now0 magic handles np lp mp timeout notify fps desync in
  run dbg s0 ops = Ok (A, evs) -> u_state A = PSynchronizing ->
  matched dbg s0 ops = NUM_SYNC_PACKETS - u_sync_remaining A /\
  1 <= u_sync_remaining A <= NUM_SYNC_PACKETS /\ u_remote_magic A = 0 /\
  forall t fresh mg n A', zmem n (u_sync_requests A) = true ->
    handle_message dbg t fresh (mkMsg mg (SyncReply n)) A = Ok A' ->
    matched dbg s0 (ops ++ [OMessage t fresh (mkMsg mg (SyncReply n))]) = matched dbg s0 ops + 1.
Proof. exact epl_matched_synchronizing. Qed.

(* ... and nothing that arrives in between (stray, duplicate, foreign replies, anything) decreases k; such replies
   change nothing of the handshake state (= C12_unmatched_reply_no_effect) *)
Theorem C05_matched_monotone : forall dbg a b s, matched dbg s a <= matched dbg s (a ++ b).
Proof. exact epl_matched_monotone. Qed.

Theorem C05_unmatched_reply_no_effect : forall dbg now nonce magic n s s',
  match_of s (OMessage now nonce (mkMsg magic (SyncReply n))) = [] ->
  handle_message dbg now nonce (mkMsg magic (SyncReply n)) s = Ok s' ->
  u_state s' = u_state s /\ u_sync_remaining s' = u_sync_remaining s /\
  u_sync_requests s' = u_sync_requests s /\ u_remote_magic s' = u_remote_magic s /\
  ~ In EvSynchronized (skipn (length (u_event_queue s)) (u_event_queue s')).
Proof. exact unmatched_reply_no_effect. Qed.

(* The code before b2421d6 ([epl_handle_message_old]: pruning threshold last_recv_frame - 2*max_prediction, no
   re-acknowledgement) wedges: window 0, S sends frame 0, R's InputAck(0) is lost, S sends frame 1 and retransmits
   twice (retry timer at 300 and 600).  Rows = after handshake / frame 0 / frame 1 / retry / retry; columns =
   (S last_acked frame, |pending_output(S)|, Input packets sent by S; R last_recv_frame, |recv_inputs(R)|, |send_queue(R)|):
   R ignores all three packets carrying frame 1 (last_recv_frame stays 0, nothing queued), S's base stays NULL *)
Theorem C05_lost_ack_wedges_refuted :
  epl_wedge_history (fun now m R => epl_handle_message_old true now 0 m R) =
  Ok [(-1, 0%nat, 0%nat, -1, 1%nat, 5%nat);
      (-1, 1%nat, 1%nat, 0, 1%nat, 6%nat);
      (-1, 2%nat, 2%nat, 0, 1%nat, 6%nat);
      (-1, 2%nat, 3%nat, 0, 1%nat, 6%nat);
      (-1, 2%nat, 4%nat, 0, 1%nat, 6%nat)].
Proof. exact epl_lost_ack_wedges_refuted. Qed.

(* the current code on the same history *)
Theorem C05_lost_ack_repaired :
  epl_wedge_history (fun now m R => handle_message true now 0 m R) =
  Ok [(-1, 0%nat, 0%nat, -1, 1%nat, 5%nat);
      (-1, 1%nat, 1%nat, 0, 2%nat, 6%nat);
      (-1, 2%nat, 2%nat, 1, 3%nat, 7%nat);
      (-1, 2%nat, 3%nat, 1, 3%nat, 8%nat);
      (-1, 2%nat, 4%nat, 1, 3%nat, 9%nat)].
Proof. exact epl_lost_ack_repaired. Qed.

(* non-vacuity of (c): window 0, first frame 2 (input delay); R decoded frame 2 against the blank entry, pruned it,
   its ack was lost; S has frames 2 and 3 pending with base NULL.  The state is reachable in the link model
   (invariant holds), R has neither the entry -1 nor an entry 1: the exchange goes through the re-acknowledgement *)
Example C05_link_example :
  epl_inv 1 2 epl_x_S2 epl_x_R1 epl_x_sent /\ epl_compat epl_x_S2 epl_x_R1 w_status /\
  u_pending_output epl_x_S2 <> [] /\
  last_recv_frame epl_x_R1 = 2 /\ alookup 1 (u_recv_inputs epl_x_R1) = None /\
  alookup (-1) (u_recv_inputs epl_x_R1) = None /\ fst (u_last_acked epl_x_S2) = NULL /\
  exists S' R', epl_exchange true 300 301 302 w_status epl_x_S2 epl_x_R1 = Ok (S', R') /\
    last_recv_frame R' = 3 /\ fst (u_last_acked S') = 2.
Proof. exact epl_link_example. Qed.

(* non-vacuity of (d) *)
Example C05_handshake_example :
  exists A evs A' B', run true w_new [OSynchronize 0 100] = Ok (A, evs) /\
    u_state A = PSynchronizing /\ u_remote_magic A = 0 /\ zmem 100 (u_sync_requests A) = true /\
    u_sync_remaining A = 5 /\ epl_answers A epl_w_newR /\
    epl_round_trips true 1 100 [101; 102; 103; 104; 105] A epl_w_newR = Ok (A', B') /\
    u_state A' = PRunning /\ u_remote_magic A' = 7.
Proof. exact epl_handshake_example. Qed.

Check C05_exchange_reaches_newest : forall dbg nh f0 S R sent cs t1 t2 t3,
  epl_inv nh f0 S R sent -> epl_compat S R cs -> u_pending_output S <> [] ->
  exists S1 R2, epl_exchange dbg t1 t2 t3 cs S R = Ok (S1, R2) /\
    last_recv_frame R2 = f0 + Z.of_nat (length sent) - 1.

(* (e) "with the input stream intact", at the level the session sees it (EndpointEvents.v).  [ev_justified nh hs sent e]:
   an Input event (frame k, value v, player h) names a frame the sender was handed - (k, b) is in [sent] - and v is the
   a-th value of that frame's bytes b, h the a-th player handle of the receiver ([hs] = the sender's local players, in
   order).  [epl_events_ok]: every Input event waiting in the receiver's event queue is justified.
   The invariant is preserved by every step of the link - whatever is lost, duplicated, delayed or reordered, through
   the delta/RLE codec, acknowledgements, re-acknowledgements and retransmissions - and a poll hands the session
   nothing else: no Input event is ever made up, altered, attributed to another player or given another frame.
   (Each frame is reported at most once and in increasing order: C08_accept_loop_sizes - new events lie above
   last_recv_frame, which they raise.) *)
Theorem C05_events_were_sent_step : forall dbg nh f0 hs S R sent S' R' sent',
  epl_inv nh f0 S R sent -> epl_events_ok nh hs R sent -> epl_step dbg nh f0 (S, R, sent) (S', R', sent') ->
  epl_events_ok nh hs R' sent'.
Proof. exact epl_events_step. Qed.

Theorem C05_events_were_sent : forall dbg nh f0 hs x y, epl_steps dbg nh f0 x y ->
  epl_inv nh f0 (fst (fst x)) (snd (fst x)) (snd x) -> epl_events_ok nh hs (snd (fst x)) (snd x) ->
  epl_events_ok nh hs (snd (fst y)) (snd y).
Proof. exact epl_events_steps. Qed.

Theorem C05_poll_hands_out_what_was_sent : forall dbg nh hs R sent now nonce cs R' out,
  epl_events_ok nh hs R sent -> step dbg (OPoll now nonce cs) R = Ok (R', out) ->
  forall k v h, In (EvInput k v h) out -> ev_justified nh hs sent (EvInput k v h).
Proof. exact epl_poll_hands_out_justified. Qed.

(* it holds when nothing has been received yet *)
Theorem C05_events_ok_initial : forall nh hs R, u_handles R = hs ->
  (forall k v h, ~ In (EvInput k v h) (u_event_queue R)) -> epl_events_ok nh hs R [].
Proof. exact epl_events_ok_initial. Qed.

(* the bytes of a frame are the values the sending session passed: what to_player_inputs decodes from the bytes
   from_inputs produced is, value by value, what send_input was given for the players 0 .. num_players-1 the map
   mentions, in handle order (u32 inputs: 0 <= v < 2^32) - so the value an Input event carries (ev_justified: the
   a-th value of the frame's bytes) is the value the sender's session passed for its a-th local player *)
Theorem C05_frame_bytes_are_the_values_passed : forall np inputs f b,
  from_inputs np inputs = Ok (f, b) ->
  let vs := sent_values (map Z.of_nat (seq 0 (Z.to_nat np))) inputs in
  vs <> [] -> Forall (fun v => 0 <= v < 4294967296) vs ->
  to_player_inputs (length vs) b = Some vs.
Proof. exact to_player_inputs_from_inputs. Qed.
