(* C17 — session behaviour is a function of its inputs, not of hash order.
   Statements only.  Model: coq/P2P.v (session core), tied to the code by the `session` correspondence
   level.  In the code every "for every endpoint" is an iteration over a HashMap: poll_remote_clients
   collects the events of all endpoints in that order and then handles them one after the other.  The
   model handles them in ascending endpoint order; the theorems below say that the order is irrelevant
   for the events whose handling touches shared session state: the Disconnected events of two
   endpoints (they share the pending rollback frame - the defect repaired in e6b12d3) and the Input
   events of two players.  What the model does not contain (the order in which packets are handed to the
   socket, HashMap-ordered event *emission* inside one call) is decided by the run-twice search of the
   L4 simulation: every scenario is executed twice in one process with fresh hash states and different
   handshake nonces; request lists, game states and per-address event sequences must be identical. *)
From GGRS Require Import Base Consts Queue Sync P2P Session SessionOrder.
Open Scope Z_scope.

(* The Disconnected events of two different remote endpoints (each carrying any number of players),
   handled in either order, leave the same session state: same connection statuses, same endpoints
   stopped, and the same pending rollback frame - the earliest of the cut-offs. *)
Theorem C17_disconnected_events_commute :
  forall (p : p2p) (hs1 hs2 : list Z) (ep1 ep2 : nat) (e1 e2 : epview),
  ep1 <> ep2 -> nth_error (ps_remotes p) ep1 = Some e1 -> nth_error (ps_remotes p) ep2 = Some e2 ->
  (forall h, In h hs1 -> kind_at p h = Some (KRemote (Z.of_nat ep1))) ->
  (forall h, In h hs2 -> kind_at p h = Some (KRemote (Z.of_nat ep2))) ->
  Forall (fun c => -1 <= cs_last c) (ps_status p) ->
  res_bind (ev_disconnected p hs1) (fun p1 => ev_disconnected p1 hs2) =
  res_bind (ev_disconnected p hs2) (fun p2 => ev_disconnected p2 hs1).
Proof. exact disconnected_events_commute. Qed.

(* The Input events of two different players, handled in either order: both orders succeed or both
   fail, and when they succeed the session state is the same. *)
Theorem C17_input_events_commute :
  forall (p : p2p) (pl1 f1 v1 pl2 f2 v2 : Z), 0 <= pl1 -> 0 <= pl2 -> pl1 <> pl2 ->
  (forall a b, res_bind (ev_input p pl1 f1 v1) (fun q => ev_input q pl2 f2 v2) = Ok a ->
               res_bind (ev_input p pl2 f2 v2) (fun q => ev_input q pl1 f1 v1) = Ok b -> a = b) /\
  ((exists a, res_bind (ev_input p pl1 f1 v1) (fun q => ev_input q pl2 f2 v2) = Ok a) <->
   (exists b, res_bind (ev_input p pl2 f2 v2) (fun q => ev_input q pl1 f1 v1) = Ok b)).
Proof. exact input_events_commute. Qed.

(* Before the repair the order of two Disconnected events mattered: the pending rollback frame was the
   one handled last (4 or 2 below), so two runs of one session could differ - found by the run-twice
   search (known_findings.json, fixed entry for e6b12d3) and by the failed attempt to prove the
   commutation theorem for the old code. *)
Theorem C17_disconnect_order_mattered_refuted :
  exists p e1 e2, nth_error (ps_remotes p) 0 = Some e1 /\ nth_error (ps_remotes p) 1 = Some e2 /\
    ps_disc_frame (drop_ep_old 1 e2 3 (drop_ep_old 0 e1 1 p)) = 4 /\
    ps_disc_frame (drop_ep_old 0 e1 1 (drop_ep_old 1 e2 3 p)) = 2.
Proof. exact disconnect_order_mattered_refuted. Qed.

(* non-vacuity: two endpoints with one player each, dropped in both orders *)
Example C17_demo :
  let p := with_sync (session_start 3 8 false 0 [KLocal; KRemote 0; KRemote 1] [[1]; [2]] 0)
             (with_current (ps_sync (session_start 3 8 false 0 [KLocal; KRemote 0; KRemote 1] [[1]; [2]] 0)) 6) in
  exists q, res_bind (ev_disconnected p [1]) (fun p1 => ev_disconnected p1 [2]) = Ok q /\
            res_bind (ev_disconnected p [2]) (fun p1 => ev_disconnected p1 [1]) = Ok q /\ ps_disc_frame q = 0.
Proof. eexists. split; [vm_compute; reflexivity|]. split; vm_compute; reflexivity. Qed.
