(* C18: statements only; theorems are added as the model of the anchored mechanism is proved *)
From GGRS Require Import Base.
