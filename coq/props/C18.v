(* C18 (endpoint half) — sizes of the per-endpoint buffers (send_queue, pending_output, recv_inputs,
   pending_checksums, event_queue).  Statements only; every proof is `exact <lemma>` (EndpointSafety.v).
   Model: Endpoint.v (src/network/protocol.rs, correspondence level `endpoint`), current code, both profiles.
   All theorems are per operation ([step]) for arbitrary states or by induction over [EndpointSpec.run] from
   [ep_new] for every configuration and every operation sequence with arbitrary packets, unless a hypothesis
   restricts the traffic.  C18 quantifies over what the NETWORK does to genuine traffic; the two `_refuted`
   witnesses below need packets FORGED BY THE AUTHORIZED PEER and are recorded to delimit the theorems. *)
From GGRS Require Import Base Consts TimeSync Codec Endpoint EndpointSpec EndpointProofs EndpointSafety.
From GGRS Require Queue Sync P2P Session SessionProofs SessionProgress SessionTimeline SessionSystem.
Open Scope Z_scope.

(* send_queue: emptied by drain (send_all_messages); between drains every operation appends at most two
   messages (nothing is removed or reordered), all under the endpoint's own magic *)
Theorem C18_send_queue_step : forall dbg o s s' out, step dbg o s = Ok (s', out) ->
  match o with ODrain => u_send_queue s' = [] | _ => eps_appended 2 s s' end.
Proof. exact eps_send_queue_step. Qed.

(* pending_output: every reachable state satisfies [eps_inv], whose second component is
     PENDING_OUTPUT_SIZE < |pending_output|  ->  disconnect_event_sent
   i.e. once the length exceeds 128 the Disconnected event has been raised (exactly once, C12) *)
Theorem C18_reachable_inv : forall now magic handles np lp mp timeout notify fps desync dbg ops s evs,
  run dbg (ep_new now magic handles np lp mp timeout notify fps desync) ops = Ok (s, evs) -> eps_inv s.
Proof. exact eps_reach_inv. Qed.

(* only send_input lets it grow, by one entry; Disconnected / Shutdown is never left and nothing grows there *)
Theorem C18_pending_output_step : forall dbg o s s' out, step dbg o s = Ok (s', out) ->
  (length (u_pending_output s') <= length (u_pending_output s) + (if eps_is_send o then 1 else 0))%nat /\
  (eps_dead s -> eps_dead s' /\ (length (u_pending_output s') <= length (u_pending_output s))%nat).
Proof. exact eps_pending_output_step. Qed.

(* hence: from a state without the event, if the caller calls `disconnect` (what the sessions do when they see
   Disconnected), |pending_output| <= PENDING_OUTPUT_SIZE + number of send_input calls made before that
   disconnect, for ever after (the call that overflows is one of them: 129 in the sessions) *)
Theorem C18_pending_output_bound : forall dbg s ops1 now ops2 s' evs,
  eps_inv s -> u_event_sent s = false ->
  run dbg s (ops1 ++ ODisconnect now :: ops2) = Ok (s', evs) ->
  (length (u_pending_output s') <= N.to_nat PENDING_OUTPUT_SIZE + eps_count_sends ops1)%nat.
Proof. exact eps_pending_output_bound. Qed.

(* recv_inputs.  (1) the postcondition of every completed on_input (loop finished, ack queued, pruning done;
   b2421d6 retain rule `k >= min(last_recv_frame - 2*max_prediction, start_frame - 1)`), for a window
   0 <= max_prediction < 2^30:  |recv_inputs| <= max (2*max_prediction) (last_recv_frame - start_frame + 1) + 1,
   the key invariant [eps_ri_ok] (distinct keys in [-1, i32::MAX], never empty, so last_recv_frame is a key) is
   kept, and every old entry at or above the pruning threshold is still found *)
Theorem C18_recv_inputs_completed : forall dbg now sf inputs s3 s4 w lo ref,
  eps_ri_ok s3 -> eps_window_ok s3 -> 0 <= sf ->
  alookup (eps_decode_frame s3 sf) (u_recv_inputs s3) = Some ref ->
  accept_inputs dbg sf 0 inputs s3 = Ok (true, s4) ->
  ts_i32_arith dbg (2 * ts_wrap_i32 (u_max_prediction s4)) = Ok w ->
  ts_i32_arith dbg (last_recv_frame s4 - w) = Ok lo ->
  let s' := set_recv_inputs (aretain_ge (Z.min lo (sf - 1)) (u_recv_inputs s4)) (send_input_ack now s4) in
  eps_ri_ok s' /\ last_recv_frame s' = last_recv_frame s4 /\ last_recv_frame s3 <= last_recv_frame s4 /\
  Z.of_nat (length (u_recv_inputs s')) <=
    Z.max (2 * u_max_prediction s3) (last_recv_frame s' - sf + 1) + 1 /\
  ((length (u_recv_inputs s') <= length (u_recv_inputs s3))%nat \/
   last_recv_frame s' <= sf + Z.of_nat (length inputs) - 1) /\
  (forall k v, In (k, v) (u_recv_inputs s') -> In (k, v) (u_recv_inputs s4)) /\
  (forall k v, In (k, v) (u_recv_inputs s3) -> Z.min (last_recv_frame s4 - 2 * u_max_prediction s3) (sf - 1) <= k ->
               alookup k (u_recv_inputs s') = Some v).
Proof. exact eps_complete_exit_ri. Qed.

(* (2) per operation: only handle_message(Input) changes recv_inputs, by at most MAX_DECODED_INPUTS entries;
   if no decoded frame has the wrong size ([eps_shaped]) the bound max (2*max_prediction) MAX_DECODED_INPUTS + 1 is kept *)
Theorem C18_recv_inputs_step : forall dbg o s s' out, step dbg o s = Ok (s', out) ->
  (length (u_recv_inputs s') <= length (u_recv_inputs s) + N.to_nat MAX_DECODED_INPUTS)%nat /\
  u_handles s' = u_handles s /\ u_max_prediction s' = u_max_prediction s /\
  (eps_inv s -> eps_window_ok s -> eps_shaped dbg (length (u_handles s)) o ->
   Z.of_nat (length (u_recv_inputs s)) <= eps_ri_bound s -> Z.of_nat (length (u_recv_inputs s')) <= eps_ri_bound s).
Proof. exact eps_recv_inputs_step. Qed.

(* (3) every reachable state, for traffic none of whose decoded frames has the wrong size (all genuine packets,
   whatever the network loses, duplicates or reorders) and a window 0 <= max_prediction < 2^30 *)
Theorem C18_recv_inputs_bounded : forall now magic handles np lp mp timeout notify fps desync dbg ops s evs,
  0 <= mp <= EPS_MAX_WINDOW ->
  let s0 := ep_new now magic handles np lp mp timeout notify fps desync in
  Forall (eps_shaped dbg (length (u_handles s0))) ops ->
  run dbg s0 ops = Ok (s, evs) ->
  Z.of_nat (length (u_recv_inputs s)) <= Z.max (2 * mp) (Z.of_N MAX_DECODED_INPUTS) + 1.
Proof. exact eps_recv_inputs_bounded. Qed.

(* forged by the authorized peer: the wrong-size exit of the accept loop keeps the frames before the offending
   one but skips the pruning - 20 packets [good; good; 3 bytes] at window 0 leave 41 entries (nothing is ever
   pruned while such packets keep coming).  Confirmed on the real endpoint (p_endpoint_gen.recv_inputs_unbounded_script) *)
Theorem C18_recv_inputs_unbounded_refuted :
  exists s evs, run true eps_w_new0 eps_w_grow = Ok (s, evs) /\
    length (u_recv_inputs s) = 41%nat /\ last_recv_frame s = 39 /\ u_max_prediction s = 0 /\ u_send_queue s <> [].
Proof. exact eps_recv_inputs_unbounded_refuted. Qed.

(* pending_checksums: one report adds at most one entry, nothing else adds any ... *)
Theorem C18_pending_checksums_growth : forall dbg o s s' out, step dbg o s = Ok (s', out) ->
  Z.of_nat (length (u_pending_checksums s')) <= Z.of_nat (length (u_pending_checksums s)) + 1.
Proof. exact eps_pending_checksums_growth. Qed.

(* ... and for reports handled in order of their frames (each frame >= every stored frame, 0 <= frame <= i32::MAX;
   what a genuine peer sends if the network does not reorder reports) with interval <= 2^26:
   |pending_checksums| <= max MAX_CHECKSUM_HISTORY_SIZE (31 * interval + 1)  (= 32 for interval 1) *)
Theorem C18_pending_checksums_bounded : forall now magic handles np lp mp timeout notify fps desync dbg ops s evs,
  let s0 := ep_new now magic handles np lp mp timeout notify fps desync in
  let interval := match desync with Some i => i | None => 1 end in
  1 <= interval <= EPS_MAX_INTERVAL ->
  eps_reports_in_order dbg s0 ops -> run dbg s0 ops = Ok (s, evs) ->
  Z.of_nat (length (u_pending_checksums s)) <= Z.max MAX_CHECKSUM_HISTORY_SIZE (31 * interval + 1).
Proof. exact eps_pending_checksums_bounded. Qed.

(* forged by the authorized peer (or unbounded reordering of genuine reports): the pruning threshold is relative
   to the NEW report's frame, so 40 reports with strictly decreasing frames are all kept (> 32 + 1).
   Confirmed on the real endpoint (p_endpoint_gen.checksums_unbounded_script) *)
Theorem C18_pending_checksums_unbounded_refuted :
  exists s evs, run true eps_w_new_ds eps_w_reports = Ok (s, evs) /\ length (u_pending_checksums s) = 40%nat /\
    (MAX_CHECKSUM_HISTORY_SIZE + 1 < 40).
Proof. exact eps_pending_checksums_unbounded_refuted. Qed.

(* event_queue of the endpoint: every poll hands all of it to the caller *)
Theorem C18_event_queue_polled : forall dbg now nonce cs s s' out,
  step dbg (OPoll now nonce cs) s = Ok (s', out) -> u_event_queue s' = [].
Proof. exact eps_event_queue_polled. Qed.

(* non-vacuity: 129 unacknowledged inputs, the poll reports Disconnected once, the caller disconnects, five more
   send_input calls: still 129 entries *)
Example C18_pending_output_example :
  exists s evs, run true w_new (w_handshake ++ w_sends 0 129 ++ [OPoll 0 200 w_status; ODisconnect 0] ++ w_sends 0 5)
                = Ok (s, evs) /\
    length (u_pending_output s) = 129%nat /\ count_disconnected evs = 1%nat.
Proof. exact eps_pending_output_example. Qed.

Check C18_recv_inputs_bounded : forall now magic handles np lp mp timeout notify fps desync dbg ops s evs,
  0 <= mp <= EPS_MAX_WINDOW ->
  let s0 := ep_new now magic handles np lp mp timeout notify fps desync in
  Forall (eps_shaped dbg (length (u_handles s0))) ops ->
  run dbg s0 ops = Ok (s, evs) ->
  Z.of_nat (length (u_recv_inputs s)) <= Z.max (2 * mp) (Z.of_N MAX_DECODED_INPUTS) + 1.

(* SESSION HALF (session-core model, coq/P2P.v; space of props/C01.v: rollback mode with either saving mode or lockstep, nobody
   disconnects, no delay change): after ANY run, however long, every input queue holds between 0 and
   INPUT_QUEUE_LENGTH inputs, outgoing_local_inputs is empty between calls, and (OB) every frame a local player's
   queue holds has been handed to the remote endpoints - nothing accumulates in the session's own buffers. *)
Theorem C18_session_buffers_bounded :
  forall (predict : Z -> Z), (forall x, predict (predict x) = predict x) -> predict 0 = 0 ->
  forall (sparse : bool) (ops : list Session.sop) (n w d : Z) (kinds : list P2P.pkind) (eps : list (list Z)) (nspec : nat)
         (p : P2P.p2p) (outs : list (P2P.pout * P2P.apires)),
  SessionSystem.mode_ok sparse w d -> 0 <= d -> 0 < n -> Z.of_nat (length kinds) = n -> SessionProgress.players_only kinds ->
  SessionProgress.srun_in predict (Session.session_start n w sparse d kinds eps nspec) ops = Ok (p, outs) ->
  Forall (fun q => 0 <= Queue.q_length q <= INPUT_QUEUE_LENGTH) (Sync.s_queues (P2P.ps_sync p)) /\
  (P2P.ps_remotes p <> [] -> P2P.local_handles p <> [] -> P2P.ps_outgoing p = []) /\
  exists gs, SessionProgress.QSg sparse w d p gs /\ SessionTimeline.OB p gs.
Proof. exact SessionSystem.session_buffers_bounded. Qed.
