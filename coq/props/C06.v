(* C06 — a spectator replays exactly the host's confirmed input sequence (spectator half:
   SpectatorSession, src/sessions/p2p_spectator_session.rs).  Statements only.

   Setting of every theorem: an arbitrary sequence [ops] of
     sp_HFrame evs   the Input events of the next frame 0, 1, 2, ... as the endpoint emits them
                     (one per player handle, in handle order, each with the endpoint's
                     peer_connect_status at that moment),
     sp_HSync        Event::Synchronized,
     sp_HAdvance     a call of advance_frame(),
   run from SpectatorSession::new (sp_start num_players max_frames_behind catchup_speed).
   Hypotheses: num_players >= 1; [sp_wf]: every frame delivers all num_players players and every
   status list has num_players entries (UdpProtocol::on_input, Endpoint model); fewer than 2^31
   frames (Frame = i32).  [sp_hist ops] is the host's timeline: the values of frame 0, 1, 2, ...
   No bound on max_frames_behind / catchup_speed is needed for any of the statements. *)
From GGRS Require Import Queue QueueProofs Sync P2P Session SessionProofs SessionSparse SessionProgress SessionSparse2 SessionTimeline SessionTimelineSparse SessionLockstep.
From GGRS Require SessionSystem.
From GGRS Require Import Base Consts Spectator SpectatorProofs.
Open Scope Z_scope.

(* (a) the ring.  In every reachable state, for every frame f: inputs_at_frame f answers
   PredictionThreshold iff f is newer than the last received frame, SpectatorTooFarBehind iff the
   host is SPECTATOR_BUFFER_SIZE or more frames past f (the slot holds a newer frame), and
   otherwise Ok with exactly the values received for frame f - never other inputs, never a panic. *)
Theorem C06_ring : forall (n mfb cs : Z) (ops : list sp_hop) (t : sp_trace) (f : Z),
  1 <= n -> sp_wf n ops -> sp_hlen (sp_hist ops) < 2 ^ 31 ->
  sp_hrun (sp_start n mfb cs) ops = Ok t -> 0 <= f < 2 ^ 31 ->
  let s := sp_t_state t in
  let lst := sp_hlen (sp_hist ops) - 1 in
  sp_last_recv_frame s = lst /\
  (sp_inputs_at_frame s f = Ok (sp_Fail sp_PredictionThreshold) <-> lst < f) /\
  (sp_inputs_at_frame s f = Ok (sp_Fail sp_SpectatorTooFarBehind) <-> f <= lst - SPECTATOR_BUFFER_SIZE) /\
  (forall v, sp_inputs_at_frame s f = Ok (sp_Got v) ->
     lst - SPECTATOR_BUFFER_SIZE < f <= lst /\ map fst v = nth (Z.to_nat f) (sp_hist ops) []) /\
  (lst - SPECTATOR_BUFFER_SIZE < f <= lst -> exists v, sp_inputs_at_frame s f = Ok (sp_Got v)).
Proof. exact sp_c06_ring. Qed.

(* (b) order.  The run never panics; the concatenation of all AdvanceFrame requests ever returned
   is frame 0, 1, 2, ... of the host's timeline (the k-th delivered request carries the values
   received for frame k: no gap, repeat or reordering); current_frame = (number delivered) - 1
   (so frames advanced inside a call that then fails would show up here: there are none);
   and the spectator is never ahead of what it received. *)
Theorem C06_order : forall (n mfb cs : Z) (ops : list sp_hop),
  1 <= n -> sp_wf n ops -> sp_hlen (sp_hist ops) < 2 ^ 31 ->
  exists t, sp_hrun (sp_start n mfb cs) ops = Ok t /\
    let del := sp_delivered (sp_t_calls t) in
    (forall k, (k < length del)%nat -> map fst (nth k del []) = nth k (sp_hist ops) []) /\
    sp_current_frame (sp_t_state t) = sp_hlen del - 1 /\
    sp_current_frame (sp_t_state t) <= sp_last_recv_frame (sp_t_state t) /\
    sp_last_recv_frame (sp_t_state t) = sp_hlen (sp_hist ops) - 1.
Proof. exact sp_c06_order. Qed.

Theorem C06_no_panic : forall (n mfb cs : Z) (ops : list sp_hop),
  1 <= n -> sp_wf n ops -> sp_hlen (sp_hist ops) < 2 ^ 31 ->
  sp_hrun (sp_start n mfb cs) ops <> Panic.
Proof. exact sp_c06_no_panic. Qed.

(* (c) catch-up.  In every reachable state the next advance_frame call does not panic
   (frames_behind_host's assert!(diff >= 0) holds); it delivers at most max(1, catchup_speed)
   frames and at most max(1, frames behind); more than one only if more than max_frames_behind
   frames are outstanding; exactly one while 1 <= behind <= max_frames_behind; an Err leaves the
   session exactly as it was (no frame is consumed by a failing call), PredictionThreshold only
   with nothing outstanding, SpectatorTooFarBehind only when more than SPECTATOR_BUFFER_SIZE
   frames are outstanding. *)
Theorem C06_catchup : forall (n mfb cs : Z) (ops : list sp_hop) (t : sp_trace),
  1 <= n -> sp_wf n ops -> sp_hlen (sp_hist ops) < 2 ^ 31 ->
  sp_hrun (sp_start n mfb cs) ops = Ok t ->
  let s := sp_t_state t in
  exists s' o, sp_advance s = Ok (s', o) /\
    exists behind, sp_frames_behind s = Ok behind /\ 0 <= behind /\
    match o with
    | sp_Delivered l =>
        sp_hlen l <= Z.max 1 cs /\ sp_hlen l <= Z.max 1 behind /\
        (1 < sp_hlen l -> mfb < behind) /\
        (behind <= mfb -> 1 <= behind -> sp_hlen l = 1) /\
        s' = sp_set_current s (sp_current_frame s + sp_hlen l)
    | sp_Failed e =>
        s' = s /\
        (e = sp_NotSynchronized <-> sp_running s = false) /\
        (e = sp_PredictionThreshold -> behind = 0) /\
        (e = sp_SpectatorTooFarBehind -> SPECTATOR_BUFFER_SIZE < behind)
    end.
Proof. exact sp_c06_catchup. Qed.

(* (d) status.  The k-th request of a call carries one (value, status) per player, and the status
   of player p is Disconnected iff the peer_connect_status copied by the LAST Input event before
   the call says disconnected with last_frame < the frame being delivered, Confirmed otherwise
   (sp_stat frame c = if c.disconnected && c.last_frame < frame then Disconnected else Confirmed). *)
Theorem C06_status : forall (n mfb cs : Z) (ops : list sp_hop) (t : sp_trace) (s' : sp_state)
    (l : list (list (Z * sp_istatus))) (k : nat) (p : Z),
  1 <= n -> sp_wf n ops -> sp_hlen (sp_hist ops) < 2 ^ 31 ->
  sp_hrun (sp_start n mfb cs) ops = Ok t ->
  sp_advance (sp_t_state t) = Ok (s', sp_Delivered l) ->
  (k < length l)%nat -> 0 <= p < n ->
  let frame := sp_current_frame (sp_t_state t) + 1 + Z.of_nat k in
  let host := sp_last_status (sp_default_status n) ops in
  length (nth k l []) = Z.to_nat n /\ length host = Z.to_nat n /\
  snd (nth (Z.to_nat p) (nth k l []) (0, sp_Confirmed)) = sp_stat frame (nth (Z.to_nat p) host sp_cs_default).
Proof. exact sp_c06_status. Qed.

(* side conditions on the generated constants the proofs use *)
Theorem C06_consts : 0 < SPECTATOR_BUFFER_SIZE <= 2 ^ 31 /\ NORMAL_SPEED = 1.
Proof. exact (conj (conj SZ_pos SZ_small) NS_one). Qed.

(* non-vacuity: the hypotheses are satisfiable and the interesting branches are reached *)
(* an overrun: two frames replayed, then 61 more frames arrive before the next call: frame 2 has
   been overwritten by frame 62, the call reports SpectatorTooFarBehind and consumes nothing *)
Example C06_overrun_demo :
  sp_wf 2 sp_ex_overrun /\
  sp_outcomes (sp_hrun (sp_start 2 10 3) sp_ex_overrun) =
    [sp_Delivered [[(1, sp_Confirmed); (2, sp_Confirmed)]];
     sp_Delivered [[(11, sp_Confirmed); (12, sp_Confirmed)]];
     sp_Failed sp_SpectatorTooFarBehind] /\
  sp_final_frame (sp_hrun (sp_start 2 10 3) sp_ex_overrun) = 1.
Proof. exact sp_ex_overrun_ok. Qed.

(* a catch-up run: 14 frames buffered, max_frames_behind = 10, catchup_speed = 3: 3, 3, then 1 *)
Example C06_catchup_demo :
  sp_wf 2 sp_ex_catchup /\
  map (fun o => match o with sp_Delivered l => map (map fst) l | sp_Failed _ => [] end)
      (sp_outcomes (sp_hrun (sp_start 2 10 3) sp_ex_catchup)) =
    [ [[1; 2]; [11; 12]; [21; 22]]; [[31; 32]; [41; 42]; [51; 52]]; [[61; 62]] ] /\
  sp_final_frame (sp_hrun (sp_start 2 10 3) sp_ex_catchup) = 6.
Proof. exact sp_ex_catchup_ok. Qed.

(* a player the host reports disconnected at frame 0: Confirmed for frame 0, Disconnected for 1 *)
Example C06_status_demo :
  sp_wf 2 sp_ex_disc /\
  sp_outcomes (sp_hrun (sp_start 2 10 1) sp_ex_disc) =
    [sp_Delivered [[(5, sp_Confirmed); (6, sp_Confirmed)]];
     sp_Delivered [[(7, sp_Confirmed); (0, sp_Disconnected)]]].
Proof. exact sp_ex_disc_ok. Qed.

Check C06_order : forall (n mfb cs : Z) (ops : list sp_hop),
  1 <= n -> sp_wf n ops -> sp_hlen (sp_hist ops) < 2 ^ 31 ->
  exists t, sp_hrun (sp_start n mfb cs) ops = Ok t /\
    let del := sp_delivered (sp_t_calls t) in
    (forall k, (k < length del)%nat -> map fst (nth k del []) = nth k (sp_hist ops) []) /\
    sp_current_frame (sp_t_state t) = sp_hlen del - 1 /\
    sp_current_frame (sp_t_state t) <= sp_last_recv_frame (sp_t_state t) /\
    sp_last_recv_frame (sp_t_state t) = sp_hlen (sp_hist ops) - 1.
Check C06_no_panic : forall (n mfb cs : Z) (ops : list sp_hop),
  1 <= n -> sp_wf n ops -> sp_hlen (sp_hist ops) < 2 ^ 31 ->
  sp_hrun (sp_start n mfb cs) ops <> Panic.

(* ---------------------------------------------------------------------------------------------------
   HOST HALF (P2PSession::send_confirmed_inputs_to_spectators; model coq/P2P.v, `session` correspondence
   level with spectator puppets).  Space: C01's (props/C01.v; both saving modes) with any number nspec >= 1 of spectators.
   After ANY run inside the space, everything the host has handed to its spectator endpoints - all calls
   concatenated ([all_spec_sends]) - is frame 0, 1, 2, ..., next_spectator_frame - 1: each frame exactly
   once, in order, each with the inputs the host holds for it ([held_at gs f]: for every player the
   f-th entry of its input history - for remote players the f-th input delivered, for local players the
   registered delayed input: props/C01.v); every frame up to the last confirmed frame has been sent; and
   no frame is sent for which some player's input is not yet held - so never a predicted value.  With
   the spectator half above: a spectator's n-th AdvanceFrame carries the host's confirmed inputs of
   frame n. *)
Theorem C06_host_broadcast_is_confirmed_timeline :
  forall (predict : Z -> Z), (forall x, predict (predict x) = predict x) -> predict 0 = 0 ->
  forall (sparse : bool) (ops : list sop) (n w d : Z) (kinds : list pkind) (eps : list (list Z)) (nspec : nat) (p : p2p) (outs : list (pout * apires)),
  1 <= w -> 0 <= d -> w + d + 3 <= INPUT_QUEUE_LENGTH -> 0 < n -> Z.of_nat (length kinds) = n -> players_only kinds -> (0 < nspec)%nat ->
  srun_in predict (session_start n w sparse d kinds eps nspec) ops = Ok (p, outs) ->
  exists gs, QSg sparse w d p gs /\
    all_spec_sends outs = map (fun f => (f, held_at gs f)) (zrange_from 0 (Z.to_nat (ps_next_spec p))) /\
    0 <= ps_next_spec p /\ s_last_confirmed (ps_sync p) + 1 <= ps_next_spec p /\
    Forall (fun g : ghost => ps_next_spec p <= hlen (fst g)) gs.
Proof.
  intros predict Hi Hz [|].
  - exact (sparse_host_broadcast_is_confirmed_timeline predict Hi Hz).
  - exact (host_broadcast_is_confirmed_timeline predict Hi Hz).
Qed.

(* the same for a LOCKSTEP host (max_prediction = 0): there the broadcast of a call includes the frame whose local
   input that same call registered *)
Theorem C06_host_broadcast_is_confirmed_timeline_lockstep :
  forall (predict : Z -> Z), (forall x, predict (predict x) = predict x) -> predict 0 = 0 ->
  forall (ops : list sop) (n d : Z) (kinds : list pkind) (eps : list (list Z)) (nspec : nat) (p : p2p) (outs : list (pout * apires)),
  0 <= d -> d + 4 <= INPUT_QUEUE_LENGTH -> 0 < n -> Z.of_nat (length kinds) = n -> players_only kinds -> (0 < nspec)%nat ->
  srun_in predict (session_start n 0 false d kinds eps nspec) ops = Ok (p, outs) ->
  exists gs, QSg false 0 d p gs /\
    all_spec_sends outs = map (fun f => (f, held_at gs f)) (zrange_from 0 (Z.to_nat (ps_next_spec p))) /\
    0 <= ps_next_spec p /\ s_last_confirmed (ps_sync p) + 1 <= ps_next_spec p /\
    Forall (fun g : ghost => ps_next_spec p <= hlen (fst g)) gs.
Proof. exact lockstep_host_broadcast. Qed.

(* non-vacuity: one spectator; after the run of props/C01.v's demo the spectator has been sent frames 0
   and 1 with player 1's real inputs 7, 7 (never the predictions 0, 0 the host itself simulated first) *)
Example C06_host_demo :
  exists p outs, srun_in (fun x => x) (session_start 2 2 false 0 [KLocal; KRemote 0] [[1]] 1)
      [SLocal 0 1; SAdvance; SLocal 0 1; SAdvance; SRemote 1 0 7; SRemote 1 1 7; SLocal 0 2; SAdvance] = Ok (p, outs) /\
    map (fun fs => (fst fs, map pi_val (snd fs))) (all_spec_sends outs) = [(0, [1; 7]); (1, [1; 7])].
Proof. eexists. eexists. split; vm_compute; reflexivity. Qed.

(* HOST AND SPECTATOR TOGETHER (coq/SessionSystem.v).  A host (rollback mode with either saving mode, or lockstep:
   [mode_ok]) runs ANY operation
   sequence of C01's space with at least one spectator attached; a spectator runs ANY sequence of arriving frames and
   advance_frame calls (any pauses, any catch-up settings).  The one assumption is the link contract
   [spectator_got_prefix]: the frames that reached the spectator are, in order, the first so-many frames the host
   handed to its spectator endpoints (each frame once, in order, unaltered - what the endpoint delivers: props/C05.v,
   C14.v).  Then the spectator never panics, it never advances beyond what the host broadcast, and the k-th frame it
   is asked to advance carries, for every player, exactly the input the host holds for frame k - which, for every
   frame the host has confirmed and simulated, is the input the host's own game last simulated frame k with:
   no gap, no repeat, no reordering, no predicted value. *)
Theorem C06_spectator_replays_host :
  forall (predict : Z -> Z), (forall x, predict (predict x) = predict x) -> predict 0 = 0 ->
  forall (sparse : bool) (ops : list sop) (n w d : Z) (kinds : list pkind) (eps : list (list Z)) (nspec : nat)
         (p : p2p) (outs : list (pout * apires)) (mfb cs : Z) (opsS : list sp_hop),
  SessionSystem.mode_ok sparse w d -> 0 <= d -> 0 < n -> Z.of_nat (length kinds) = n -> players_only kinds -> (0 < nspec)%nat ->
  srun_in predict (session_start n w sparse d kinds eps nspec) ops = Ok (p, outs) ->
  sp_wf n opsS -> sp_hlen (sp_hist opsS) < 2 ^ 31 ->
  SessionSystem.spectator_got_prefix outs opsS ->
  exists t g gs, sp_hrun (sp_start n mfb cs) opsS = Ok t /\
    exec_outs w (game0 w) outs = Some g /\ QSg sparse w d p gs /\
    let del := sp_delivered (sp_t_calls t) in
    (Z.of_nat (length del) <= ps_next_spec p) /\
    forall k, (k < length del)%nat ->
      map fst (nth k del []) = map (fun gh : ghost => hval (fst gh) (Z.of_nat k)) gs /\
      (Z.of_nat k <= s_last_confirmed (ps_sync p) -> Z.of_nat k < s_current (ps_sync p) ->
       forall h hist low, nth_error gs h = Some (hist, low) ->
         nth h (map fst (nth k del [])) 0 = gvalL (g_hist g) (Z.of_nat k) h).
Proof. exact SessionSystem.spectator_replays_host. Qed.

(* non-vacuity: the host run of C06_host_demo broadcasts frames 0 and 1 as [1; 7]; a spectator that has received the
   first of them and called advance_frame twice satisfies the link contract and was handed [1; 7] once *)
Definition c06_sys_spec : list sp_hop :=
  [sp_HSync; sp_HFrame [(1, [sp_mkcs false 0; sp_mkcs false 0]); (7, [sp_mkcs false 0; sp_mkcs false 0])]; sp_HAdvance; sp_HAdvance].
Example C06_system_demo :
  exists p outs, srun_in (fun x => x) (session_start 2 2 false 0 [KLocal; KRemote 0] [[1]] 1)
      [SLocal 0 1; SAdvance; SLocal 0 1; SAdvance; SRemote 1 0 7; SRemote 1 1 7; SLocal 0 2; SAdvance] = Ok (p, outs) /\
    sp_wf 2 c06_sys_spec /\ SessionSystem.spectator_got_prefix outs c06_sys_spec /\
    map (fun o => match o with sp_Delivered l => map (map fst) l | sp_Failed _ => [] end)
        (sp_outcomes (sp_hrun (sp_start 2 10 3) c06_sys_spec)) = [ [[1; 7]]; [] ].
Proof.
  eexists. eexists. split; [vm_compute; reflexivity|]. split; [|split; vm_compute; reflexivity].
  repeat constructor.
Qed.
