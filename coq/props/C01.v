(* C01 — every peer's confirmed timeline equals the serial replay of the true inputs.
   Statements only.  Model: coq/P2P.v (session core) with Sync.v and Queue.v, tied to the code by the
   `session` correspondence level; the user's game is the free game of SessionProofs.v, so "the value
   the game last simulated for (frame f, player h)" is read off the game's own input history
   [g_hist], which is exactly what the executed request lists (Load = truncate, Advance = append)
   leave behind (SessionTimeline.exec_hist).

   Space (decided on the state by SessionProgress.op_ok; srun_in = srun that answers Err at the first
   operation outside it): rollback mode (max_prediction >= 1), sparse saving on or off (the theorems
   quantify over the flag), any number of spectators, nobody disconnects; local players with a common input delay d, max_prediction + d + 3 <= INPUT_QUEUE_LENGTH;
   remote players' inputs arrive in frame order while their ring has room (what the endpoint delivers:
   props/C05.v, C11.v); add_local_input / advance_frame / arriving inputs / gossip in ANY interleaving.
   Predictors: any function with predict (predict x) = predict x and predict 0 = 0 - both shipped
   predictors (C01_predictors_qualify); see DESIGN.md for what happens without idempotence. *)
From GGRS Require Import Base Consts Queue QueueProofs Sync P2P Session SessionProofs SessionSparse SessionProgress SessionSparse2 SessionTimeline SessionTimelineSparse SessionSystem SystemGlue.
From GGRS Require Endpoint EndpointEvents.
From Coq Require Import Lia.
Open Scope Z_scope.

(* After ANY run inside the space, however predictions, mispredictions, rollbacks, stalls at the
   prediction threshold and late inputs interleaved: the request lists were executable, and every frame
   f <= last confirmed frame that has been simulated was LAST simulated - for every player h - with the
   input the session holds for (f, h) in that player's input history [hist] (the histories of the
   invariant QS: for a remote player the inputs received, in order; for a local player the delayed
   inputs registered - see C01_held_inputs_step).  The game state after those frames is therefore the serial
   replay of the held inputs, whatever was predicted on the way. *)
Theorem C01_confirmed_frames_use_held_inputs :
  forall (predict : Z -> Z), (forall x, predict (predict x) = predict x) -> predict 0 = 0 ->
  forall (sparse : bool) (ops : list sop) (n w d : Z) (kinds : list pkind) (eps : list (list Z)) (nspec : nat) (p : p2p) (outs : list (pout * apires)),
  1 <= w -> 0 <= d -> w + d + 3 <= INPUT_QUEUE_LENGTH -> 0 < n -> Z.of_nat (length kinds) = n -> players_only kinds ->
  srun_in predict (session_start n w sparse d kinds eps nspec) ops = Ok (p, outs) ->
  exists g gs, exec_outs w (game0 w) outs = Some g /\ QSg sparse w d p gs /\ gframe g = s_current (ps_sync p) /\
    forall h hist low f, nth_error gs h = Some (hist, low) ->
      0 <= f <= s_last_confirmed (ps_sync p) -> f < s_current (ps_sync p) ->
      f < hlen hist /\ gvalL (g_hist g) f h = hval hist f.
Proof.
  intros predict Hi Hz [|].
  - exact (sparse_confirmed_frames_use_held_inputs predict Hi Hz).
  - exact (confirmed_frames_use_held_inputs predict Hi Hz).
Qed.

(* All peers agree, and agree with the truth.  Let [truth h] be the stream of inputs player h really submitted
   (for a local player of some peer: what that peer registered, the input delay included).  What a session
   holds of a player is a prefix of that stream - its own registered inputs for a local player, and for a
   remote player the inputs delivered so far, which the link delivers in order and unaltered (props/C05.v,
   C11.v, C14.v at their levels).  Under exactly that hypothesis, on ANY peer and after ANY run inside the
   space, every simulated frame up to the last confirmed frame carries the true input of every player - hence
   two peers' game states agree on every frame confirmed by both, and equal the serial replay of the truth. *)
Definition held_prefix_of (truth : nat -> list Z) (gs : list ghost) : Prop :=
  forall h hist low, nth_error gs h = Some (hist, low) -> exists rest, truth h = hist ++ rest.

Theorem C01_confirmed_timeline_is_the_truth :
  forall (predict : Z -> Z), (forall x, predict (predict x) = predict x) -> predict 0 = 0 ->
  forall (sparse : bool) (ops : list sop) (n w d : Z) (kinds : list pkind) (eps : list (list Z)) (nspec : nat) (p : p2p) (outs : list (pout * apires)),
  1 <= w -> 0 <= d -> w + d + 3 <= INPUT_QUEUE_LENGTH -> 0 < n -> Z.of_nat (length kinds) = n -> players_only kinds ->
  srun_in predict (session_start n w sparse d kinds eps nspec) ops = Ok (p, outs) ->
  exists g gs, exec_outs w (game0 w) outs = Some g /\ QSg sparse w d p gs /\ gframe g = s_current (ps_sync p) /\
    forall truth, held_prefix_of truth gs ->
      forall h f, (h < length gs)%nat -> 0 <= f <= s_last_confirmed (ps_sync p) -> f < s_current (ps_sync p) ->
        gvalL (g_hist g) f h = hval (truth h) f.
Proof.
  intros predict Hi Hz sparse ops n w d kinds eps nspec p outs Hw Hd Hcap Hn Hlen Hpl H.
  destruct (C01_confirmed_frames_use_held_inputs predict Hi Hz sparse ops n w d kinds eps nspec p outs Hw Hd Hcap Hn Hlen Hpl H)
    as (g & gs & Ex & HQS & Hgf & Hval).
  exists g, gs. split; [exact Ex|]. split; [exact HQS|]. split; [exact Hgf|].
  intros truth Hpre h f Hh Hf Hfc.
  destruct (nth_error gs h) as [[hist low]|] eqn:Eg; [|apply nth_error_None in Eg; lia].
  destruct (Hval h hist low f Eg Hf Hfc) as (Hlt & Hv). destruct (Hpre h hist low Eg) as (rest & ->).
  rewrite Hv. symmetry. apply (hval_app_old predict Hi). lia.
Qed.

Theorem C01_peers_agree :
  forall (predict : Z -> Z), (forall x, predict (predict x) = predict x) -> predict 0 = 0 ->
  forall (truth : nat -> list Z)
         (sparseA sparseB : bool) (opsA opsB : list sop) (n wA wB dA dB : Z) (kindsA kindsB : list pkind)
         (epsA epsB : list (list Z)) (nspecA nspecB : nat) (pA pB : p2p) (outsA outsB : list (pout * apires)),
  1 <= wA -> 0 <= dA -> wA + dA + 3 <= INPUT_QUEUE_LENGTH -> 1 <= wB -> 0 <= dB -> wB + dB + 3 <= INPUT_QUEUE_LENGTH ->
  0 < n -> Z.of_nat (length kindsA) = n -> Z.of_nat (length kindsB) = n -> players_only kindsA -> players_only kindsB ->
  srun_in predict (session_start n wA sparseA dA kindsA epsA nspecA) opsA = Ok (pA, outsA) ->
  srun_in predict (session_start n wB sparseB dB kindsB epsB nspecB) opsB = Ok (pB, outsB) ->
  exists gA gB gsA gsB, exec_outs wA (game0 wA) outsA = Some gA /\ exec_outs wB (game0 wB) outsB = Some gB /\
    QSg sparseA wA dA pA gsA /\ QSg sparseB wB dB pB gsB /\
    (held_prefix_of truth gsA -> held_prefix_of truth gsB ->
     forall h f, (h < length gsA)%nat -> (h < length gsB)%nat ->
       0 <= f <= s_last_confirmed (ps_sync pA) -> f < s_current (ps_sync pA) ->
       0 <= f <= s_last_confirmed (ps_sync pB) -> f < s_current (ps_sync pB) ->
       gvalL (g_hist gA) f h = gvalL (g_hist gB) f h).
Proof.
  intros predict Hi Hz truth sparseA sparseB opsA opsB n wA wB dA dB kindsA kindsB epsA epsB nspecA nspecB pA pB outsA outsB
         HwA HdA HcA HwB HdB HcB Hn HlA HlB HpA HpB HA HB.
  destruct (C01_confirmed_timeline_is_the_truth predict Hi Hz sparseA opsA n wA dA kindsA epsA nspecA pA outsA HwA HdA HcA Hn HlA HpA HA)
    as (gA & gsA & ExA & HQA & _ & HvA).
  destruct (C01_confirmed_timeline_is_the_truth predict Hi Hz sparseB opsB n wB dB kindsB epsB nspecB pB outsB HwB HdB HcB Hn HlB HpB HB)
    as (gB & gsB & ExB & HQB & _ & HvB).
  exists gA, gB, gsA, gsB. split; [exact ExA|]. split; [exact ExB|]. split; [exact HQA|]. split; [exact HQB|].
  intros HtA HtB h f HhA HhB HfA HcA' HfB HcB'.
  rewrite (HvA truth HtA h f HhA HfA HcA'), (HvB truth HtB h f HhB HfB HcB'). reflexivity.
Qed.

(* [mode_ok sparse w d] (SessionSystem.v): rollback mode - 1 <= w, w + d + 3 <= INPUT_QUEUE_LENGTH, either saving
   mode - or lockstep - w = 0, d + 4 <= INPUT_QUEUE_LENGTH.
   What leaves a session and what it does with what arrives (rollback with either saving mode, and lockstep).  After ANY run inside the space:
   every round of inputs handed to the remote players ([all_sends outs]: one entry per send_input call, a map
   handle -> (frame, value)) is a frame f together with, for EVERY local player, exactly the input the session
   holds for (f, that player) - the input its own game simulates frame f with (first conjunct: the input the
   player submitted, shifted by the input delay, the default input before the delay has elapsed:
   C01_held_inputs_step); every input (player, frame, value) that arrived is held as that player's input for that
   frame; and conversely every input held for a remote player arrived with an operation carrying that frame and
   value - nothing is made up, relabelled, or taken from a prediction.  Last conjunct [OB]: between calls nothing
   is left in outgoing_local_inputs, and every frame a local player's queue holds has been handed to the remote
   endpoints (last_sent_outgoing_input_frame + 1 = the number of frames held) - nothing is withheld or stranded. *)
Theorem C01_sent_inputs_are_the_simulated_inputs :
  forall (predict : Z -> Z), (forall x, predict (predict x) = predict x) -> predict 0 = 0 ->
  forall (sparse : bool) (ops : list sop) (n w d : Z) (kinds : list pkind) (eps : list (list Z)) (nspec : nat) (p : p2p) (outs : list (pout * apires)),
  mode_ok sparse w d -> 0 <= d -> 0 < n -> Z.of_nat (length kinds) = n -> players_only kinds ->
  srun_in predict (session_start n w sparse d kinds eps nspec) ops = Ok (p, outs) ->
  exists g gs, exec_outs w (game0 w) outs = Some g /\ QSg sparse w d p gs /\ gframe g = s_current (ps_sync p) /\
    (forall h hist low f, nth_error gs h = Some (hist, low) ->
       0 <= f <= s_last_confirmed (ps_sync p) -> f < s_current (ps_sync p) ->
       f < hlen hist /\ gvalL (g_hist g) f h = hval hist f) /\
    rounds_ok (local_handles p) gs (all_sends outs) /\
    (forall pl f v, In (SRemote pl f v) ops ->
      exists gh, nth_error gs (Z.to_nat pl) = Some gh /\ 0 <= f < hlen (fst gh) /\ hval (fst gh) f = v) /\
    (forall pl e gh f, 0 <= pl -> nth_error kinds (Z.to_nat pl) = Some (KRemote e) ->
      nth_error gs (Z.to_nat pl) = Some gh -> 0 <= f < hlen (fst gh) -> In (SRemote pl f (hval (fst gh) f)) ops) /\
    ps_kinds p = kinds /\ OB p gs /\ Forall (confirmed_ok gs) (all_adv_frames [] outs).
Proof. exact sends_and_receipts_any. Qed.

(* Two peers, no hypothesis about what they hold: A owns player h, B sees h as a remote player; each runs ANY
   operation sequence of the space, with its own window (rollback or lockstep), delay, saving mode and interleaving.  The one assumption
   is the link's integrity contract [delivered_was_sent]: every input of h that arrives at B (an SRemote
   operation: frame and value) was handed to the network by A in some round (loss, duplication, delay and
   reordering of packets are absorbed below this level: the endpoint delivers each frame once, in order -
   props/C05.v; the codec returns what was encoded - props/C14.v).  Then A's game and B's game used the same input
   for h at every frame that both have confirmed and simulated.  With every player owned by somebody, the games
   of all peers agree on every mutually confirmed frame. *)
Theorem C01_two_sessions_agree :
  forall (predict : Z -> Z), (forall x, predict (predict x) = predict x) -> predict 0 = 0 ->
  forall (sparseA sparseB : bool) (opsA opsB : list sop) (n wA wB dA dB : Z) (kindsA kindsB : list pkind)
         (epsA epsB : list (list Z)) (nspecA nspecB : nat) (pA pB : p2p) (outsA outsB : list (pout * apires)),
  mode_ok sparseA wA dA -> 0 <= dA -> mode_ok sparseB wB dB -> 0 <= dB ->
  0 < n -> Z.of_nat (length kindsA) = n -> Z.of_nat (length kindsB) = n -> players_only kindsA -> players_only kindsB ->
  srun_in predict (session_start n wA sparseA dA kindsA epsA nspecA) opsA = Ok (pA, outsA) ->
  srun_in predict (session_start n wB sparseB dB kindsB epsB nspecB) opsB = Ok (pB, outsB) ->
  exists gA gB, exec_outs wA (game0 wA) outsA = Some gA /\ exec_outs wB (game0 wB) outsB = Some gB /\
    forall h e, 0 <= h -> nth_error kindsA (Z.to_nat h) = Some KLocal -> nth_error kindsB (Z.to_nat h) = Some (KRemote e) ->
      delivered_was_sent h outsA opsB ->
      forall f, 0 <= f <= s_last_confirmed (ps_sync pA) -> f < s_current (ps_sync pA) ->
                0 <= f <= s_last_confirmed (ps_sync pB) -> f < s_current (ps_sync pB) ->
        gvalL (g_hist gA) f (Z.to_nat h) = gvalL (g_hist gB) f (Z.to_nat h).
Proof. exact two_sessions_agree. Qed.

(* The link contract from the endpoint theorems (coq/SystemGlue.v).  The session-core model and the endpoint model
   share no datatype; the two identities that join them are hypotheses here, everything between them is proved:
   [sender_fed]: every frame the sending endpoint was handed is a round of A's session serialised by send_input;
   [receiver_reads]: every SRemote operation of B's session is an Input event justified by the stream - which is what
   props/C05.v proves of every event the receiving endpoint hands out (C05_events_were_sent,
   C05_poll_hands_out_what_was_sent); [rounds_shaped]: every round names exactly the receiver's player handles [hs]
   with a real frame number and u32 values.  Then the link's integrity contract holds ... *)
Theorem C01_link_contract_from_endpoints : forall np hs outsA sent opsB h,
  hs <> [] -> sender_fed np outsA sent -> rounds_shaped np hs outsA -> receiver_reads hs sent opsB h ->
  delivered_was_sent h outsA opsB.
Proof. exact link_contract_from_endpoints. Qed.

(* ... and two peers agree, with no hypothesis above the two glue identities *)
Theorem C01_two_peers_agree_through_endpoints :
  forall (np : Z) (hs : list Z) (predict : Z -> Z), (forall x, predict (predict x) = predict x) -> predict 0 = 0 ->
  forall (sparseA sparseB : bool) (opsA opsB : list sop) (wA wB dA dB : Z) (kindsA kindsB : list pkind)
         (epsA epsB : list (list Z)) (nspecA nspecB : nat) (pA pB : p2p) (outsA outsB : list (pout * apires))
         (sent : list Endpoint.ibytes),
  mode_ok sparseA wA dA -> 0 <= dA -> mode_ok sparseB wB dB -> 0 <= dB ->
  0 < np -> Z.of_nat (length kindsA) = np -> Z.of_nat (length kindsB) = np -> players_only kindsA -> players_only kindsB ->
  srun_in predict (session_start np wA sparseA dA kindsA epsA nspecA) opsA = Ok (pA, outsA) ->
  srun_in predict (session_start np wB sparseB dB kindsB epsB nspecB) opsB = Ok (pB, outsB) ->
  hs <> [] -> sender_fed np outsA sent -> rounds_shaped np hs outsA ->
  exists gA gB, exec_outs wA (game0 wA) outsA = Some gA /\ exec_outs wB (game0 wB) outsB = Some gB /\
    forall h e, 0 <= h -> nth_error kindsA (Z.to_nat h) = Some KLocal -> nth_error kindsB (Z.to_nat h) = Some (KRemote e) ->
      receiver_reads hs sent opsB h ->
      forall f, 0 <= f <= s_last_confirmed (ps_sync pA) -> f < s_current (ps_sync pA) ->
                0 <= f <= s_last_confirmed (ps_sync pB) -> f < s_current (ps_sync pB) ->
        gvalL (g_hist gA) f (Z.to_nat h) = gvalL (g_hist gB) f (Z.to_nat h).
Proof. exact two_peers_agree_through_endpoints. Qed.

(* non-vacuity: peer A (player 0 local, input delay 1) and peer B (player 0 remote); B receives exactly what A's
   rounds carry (B saves sparsely, so its confirmed frame lags: 0 against A's 1); both simulated frames 0 and 1
   with A's delayed inputs 0 (the delay), 5 *)
Definition c01_sysA : list sop := [SLocal 0 5; SAdvance; SRemote 1 0 3; SLocal 0 6; SAdvance; SRemote 1 1 3; SLocal 0 7; SAdvance].
Definition c01_sysB : list sop := [SLocal 1 3; SAdvance; SRemote 0 0 0; SRemote 0 1 5; SLocal 1 3; SAdvance; SRemote 0 2 6; SLocal 1 3; SAdvance].
Example C01_system_demo :
  exists pA outsA gA pB outsB gB,
    srun_in (fun x => x) (session_start 2 3 false 1 [KLocal; KRemote 0] [[1]] 0) c01_sysA = Ok (pA, outsA) /\
    srun_in (fun x => x) (session_start 2 3 true 0 [KRemote 0; KLocal] [[0]] 0) c01_sysB = Ok (pB, outsB) /\
    exec_outs 3 (game0 3) outsA = Some gA /\ exec_outs 3 (game0 3) outsB = Some gB /\
    map (fun m => assoc_get m 0) (all_sends outsA) = [Some (mkpi 0 0); Some (mkpi 1 5); Some (mkpi 2 6); Some (mkpi 3 7)] /\
    s_last_confirmed (ps_sync pA) = 1 /\ s_last_confirmed (ps_sync pB) = 0 /\
    map (fun f => gvalL (g_hist gA) f 0) [0; 1] = [0; 5] /\ map (fun f => gvalL (g_hist gB) f 0) [0; 1] = [0; 5].
Proof.
  eexists. eexists. eexists. eexists. eexists. eexists.
  split; [vm_compute; reflexivity|]. split; [vm_compute; reflexivity|]. split; [vm_compute; reflexivity|]. split; [vm_compute; reflexivity|].
  split; [vm_compute; reflexivity|]. split; [vm_compute; reflexivity|]. split; [vm_compute; reflexivity|]. split; vm_compute; reflexivity.
Qed.

(* non-vacuity of the lockstep half of [mode_ok]: the same owner A, and a LOCKSTEP receiver (window 0) that gets A's
   first two rounds: it simulates frames 0 and 1 with A's inputs 0, 5 - only ever confirmed ones - and stalls at
   frame 2 (third call: nothing of A for frame 2 yet) while still sending its own input for that frame *)
Definition c01_sysL : list sop := [SRemote 0 0 0; SLocal 1 3; SAdvance; SRemote 0 1 5; SLocal 1 3; SAdvance; SLocal 1 3; SAdvance].
Example C01_system_demo_lockstep :
  mode_ok false 0 0 /\
  exists pB outsB gB,
    srun_in (fun x => x) (session_start 2 0 false 0 [KRemote 0; KLocal] [[0]] 0) c01_sysL = Ok (pB, outsB) /\
    exec_outs 0 (game0 0) outsB = Some gB /\ s_current (ps_sync pB) = 2 /\ s_last_confirmed (ps_sync pB) = 1 /\
    map (fun m => assoc_get m 1) (all_sends outsB) = [Some (mkpi 0 3); Some (mkpi 1 3); Some (mkpi 2 3)] /\
    map (fun f => gvalL (g_hist gB) f 0) [0; 1] = [0; 5].
Proof.
  split; [right; split; [reflexivity|split; [reflexivity|vm_compute; intro X; discriminate X]]|].
  eexists. eexists. eexists.
  split; [vm_compute; reflexivity|]. split; [vm_compute; reflexivity|]. split; [vm_compute; reflexivity|].
  split; [vm_compute; reflexivity|]. split; vm_compute; reflexivity.
Qed.

(* Remote players in closed form: every confirmed frame f that has been simulated was LAST simulated,
   for every remote player pl, with the f-th input delivered for pl during the run ([remote_vals pl ops]:
   the values of the SRemote pl operations, in order) - nothing lost, duplicated, reordered, altered,
   or replaced by a prediction that was never corrected. *)
Theorem C01_confirmed_frames_use_delivered_inputs :
  forall (predict : Z -> Z), (forall x, predict (predict x) = predict x) -> predict 0 = 0 ->
  forall (sparse : bool) (ops : list sop) (n w d : Z) (kinds : list pkind) (eps : list (list Z)) (nspec : nat) (p : p2p) (outs : list (pout * apires)),
  1 <= w -> 0 <= d -> w + d + 3 <= INPUT_QUEUE_LENGTH -> 0 < n -> Z.of_nat (length kinds) = n -> players_only kinds ->
  srun_in predict (session_start n w sparse d kinds eps nspec) ops = Ok (p, outs) ->
  exists g, exec_outs w (game0 w) outs = Some g /\ gframe g = s_current (ps_sync p) /\
    forall pl e f, 0 <= pl -> nth_error kinds (Z.to_nat pl) = Some (KRemote e) ->
      0 <= f <= s_last_confirmed (ps_sync p) -> f < s_current (ps_sync p) ->
      f < hlen (remote_vals pl ops) /\ gvalL (g_hist g) f (Z.to_nat pl) = hval (remote_vals pl ops) f.
Proof.
  intros predict Hi Hz [|].
  - exact (sparse_confirmed_frames_use_delivered_inputs predict Hi Hz).
  - exact (confirmed_frames_use_delivered_inputs predict Hi Hz).
Qed.

(* Local players, call by call (JI1 w p g = 1 <= w /\ JI w p g; the invariants QS, JI1, TI hold in every reachable state -
   SessionTimeline.run_timeline): an operation inside the space succeeds, re-establishes the invariants
   and changes the held histories exactly as [op_hist] says: add_local_input and gossip change none; an
   arriving remote input is appended to that player's history; advance_frame appends to the history of a
   local player at most that player's pending input - the value of the last add_local_input for it -
   preceded by d blank inputs (the input delay) when it is the player's first input, and touches no
   remote player's history (hist_step).  With C01_confirmed_frames_use_held_inputs: the confirmed
   timeline is the serial replay of the inputs really submitted, shifted by the delay. *)
Theorem C01_held_inputs_step :
  forall (predict : Z -> Z), (forall x, predict (predict x) = predict x) -> predict 0 = 0 ->
  forall (p : p2p) (gs : list ghost) (g : game) (w d : Z) (o : sop),
  QS w d p gs -> JI1 w p g -> TI predict p gs (g_hist g) -> op_ok p o = true ->
  exists s gs' g', sstep predict p o = Ok s /\ QS w d (sr_state s) gs' /\ JI1 w (sr_state s) g' /\
    TI predict (sr_state s) gs' (g_hist g') /\ op_hist d p o gs gs'.
Proof. exact held_inputs_step. Qed.

(* the same step theorem for sparse saving; the cells invariant there is CIs = JS (the cell of
   last_saved_frame holds that frame's state) with SXs (last confirmed <= last_saved <= current, last_saved
   not beyond what is held of any player, no misprediction flagged below it) *)
Theorem C01_held_inputs_step_sparse :
  forall (predict : Z -> Z), (forall x, predict (predict x) = predict x) -> predict 0 = 0 ->
  forall (p : p2p) (gs : list ghost) (g : game) (w d : Z) (o : sop),
  QSg true w d p gs -> CIs w p g -> TI predict p gs (g_hist g) -> op_ok p o = true ->
  exists s gs' g', sstep predict p o = Ok s /\ QSg true w d (sr_state s) gs' /\ CIs w (sr_state s) g' /\
    TI predict (sr_state s) gs' (g_hist g') /\ op_hist d p o gs gs'.
Proof. exact sparse_held_inputs_step. Qed.

(* non-vacuity for sparse saving: the demo run below with sparse saving on *)
Example C01_demo_sparse :
  exists p outs g, srun_in (fun x => x) (session_start 2 2 true 0 [KLocal; KRemote 0] [[1]] 0)
                     [SLocal 0 1; SAdvance; SLocal 0 1; SAdvance; SRemote 1 0 7; SRemote 1 1 7; SLocal 0 2; SAdvance] = Ok (p, outs) /\
    exec_outs 2 (game0 2) outs = Some g /\ s_last_confirmed (ps_sync p) = 1 /\
    map (fun f => (gvalL (g_hist g) f 0, gvalL (g_hist g) f 1)) [0; 1; 2] = [(1, 7); (1, 7); (2, 7)].
Proof. eexists. eexists. eexists. split; [vm_compute; reflexivity|]. split; [vm_compute; reflexivity|]. split; vm_compute; reflexivity. Qed.

(* the two predictors ggrs ships: PredictRepeatLast and PredictDefault (default input = 0 in the model) *)
Example C01_predictors_qualify :
  (forall x : Z, (fun y => y) ((fun y => y) x) = (fun y => y) x) /\ (fun y : Z => y) 0 = 0 /\
  (forall x : Z, (fun _ => 0) ((fun _ : Z => 0) x) = (fun _ : Z => 0) x) /\ (fun _ : Z => 0) 0 = 0.
Proof. repeat split. Qed.

(* non-vacuity: a run inside the space with a misprediction that is rolled back: player 1's inputs
   7, 7 arrive after two frames were simulated with the prediction 0; afterwards frames 0 and 1 carry
   7 for player 1 *)
Definition c01_demo_ops : list sop :=
  [SLocal 0 1; SAdvance; SLocal 0 1; SAdvance; SRemote 1 0 7; SRemote 1 1 7; SLocal 0 2; SAdvance].
Example C01_demo :
  exists p outs g, srun_in (fun x => x) (session_start 2 2 false 0 [KLocal; KRemote 0] [[1]] 0) c01_demo_ops = Ok (p, outs) /\
    exec_outs 2 (game0 2) outs = Some g /\ s_last_confirmed (ps_sync p) = 1 /\
    map (fun f => (gvalL (g_hist g) f 0, gvalL (g_hist g) f 1)) [0; 1; 2] = [(1, 7); (1, 7); (2, 7)].
Proof. eexists. eexists. eexists. split; [vm_compute; reflexivity|]. split; [vm_compute; reflexivity|]. split; vm_compute; reflexivity. Qed.

(* The hypothesis on the predictor cannot be dropped: with the custom predictor x -> (x + 1) mod 6
   (InputPredictor is a public extension point; not one of the two shipped predictors, so outside the
   property's space) the model - and the real code, replayed through the L4 simulation, DESIGN.md 0.3 -
   leaves a CONFIRMED frame simulated with a stale prediction for good: player 1's frames 2,3 are
   predicted 1; its input for frame 1 arrives and matches; a misprediction of player 2 at frame 3 rolls
   back to frame 3 only, and the prediction restarted there is predict(1) = 2; player 1's real input 2
   for frame 2 then matches the NEW prediction, so frame 2 - simulated with 1 - is never flagged. *)
Definition c01_inc (x : Z) : Z := (x + 1) mod 6.
Definition c01_inc_ops : list sop :=
  [SRemote 1 0 0; SRemote 2 0 0;
   SLocal 0 9; SAdvance; SLocal 0 9; SAdvance; SLocal 0 9; SAdvance; SLocal 0 9; SAdvance;
   SRemote 1 1 1; SRemote 2 1 1; SRemote 2 2 1; SRemote 2 3 5;
   SLocal 0 9; SAdvance;
   SRemote 1 2 2; SRemote 1 3 2; SRemote 1 4 2; SRemote 2 4 5;
   SLocal 0 9; SAdvance].
Theorem C01_idempotent_predictor_needed_refuted :
  exists p outs g, srun_in c01_inc (session_start 3 8 false 0 [KLocal; KRemote 0; KRemote 1] [[1]; [2]] 0) c01_inc_ops = Ok (p, outs) /\
    exec_outs 8 (game0 8) outs = Some g /\ s_last_confirmed (ps_sync p) = 4 /\
    gvalL (g_hist g) 2 1 = 1 /\                                  (* what the game last simulated for (frame 2, player 1) *)
    hval (nth 2 (map (fun o => match o with SRemote 1 _ v => v | _ => 0 end)
                     (filter (fun o => match o with SRemote 1 _ _ => true | _ => false end) c01_inc_ops)) 0 :: nil) 0 = 2.  (* its real input *)
Proof. eexists. eexists. eexists. split; [vm_compute; reflexivity|]. split; [vm_compute; reflexivity|]. split; [vm_compute; reflexivity|]. split; vm_compute; reflexivity. Qed.


(* non-vacuity of the glue hypotheses: the rounds of the run c01_sysA (player 0, delay 1), serialised as send_input
   serialises them (4 little-endian bytes per player), and the remote-input operations of c01_sysB *)
Definition c01_glue_outs : list (pout * apires) :=
  match srun_in (fun x => x) (session_start 2 3 false 1 [KLocal; KRemote 0] [[1]] 0) c01_sysA with Ok (_, o) => o | _ => [] end.
Definition c01_glue_sent : list Endpoint.ibytes :=
  [(0, [0; 0; 0; 0]%N); (1, [5; 0; 0; 0]%N); (2, [6; 0; 0; 0]%N); (3, [7; 0; 0; 0]%N)].
Lemma c01_glue_rounds : all_sends c01_glue_outs =
  [[(0, mkpi 0 0)]; [(0, mkpi 1 5)]; [(0, mkpi 2 6)]; [(0, mkpi 3 7)]].
Proof. vm_compute. reflexivity. Qed.
Example C01_glue_demo :
  sender_fed 2 c01_glue_outs c01_glue_sent /\ rounds_shaped 2 [0] c01_glue_outs /\ receiver_reads [0] c01_glue_sent c01_sysB 0.
Proof.
  split; [|split].
  - intros k b Hin. rewrite c01_glue_rounds. unfold c01_glue_sent in Hin. cbn [In] in Hin.
    destruct Hin as [X|[X|[X|[X|[]]]]]; injection X as <- <-.
    + exists [(0, mkpi 0 0)]. split; [left; reflexivity|vm_compute; reflexivity].
    + exists [(0, mkpi 1 5)]. split; [right; left; reflexivity|vm_compute; reflexivity].
    + exists [(0, mkpi 2 6)]. split; [right; right; left; reflexivity|vm_compute; reflexivity].
    + exists [(0, mkpi 3 7)]. split; [right; right; right; left; reflexivity|vm_compute; reflexivity].
  - intros m Hin. rewrite c01_glue_rounds in Hin. cbn [In] in Hin.
    destruct Hin as [<-|[<-|[<-|[<-|[]]]]]; (split; [vm_compute; reflexivity|]);
      (constructor; [|constructor]); cbn [snd pi_frame pi_val]; unfold NULL; lia.
  - intros f v Hin. unfold c01_sysB in Hin. cbn [In] in Hin.
    destruct Hin as [X|[X|[X|[X|[X|[X|[X|[X|[X|[]]]]]]]]]]; try discriminate X; injection X as <- <-;
      cbn [EndpointEvents.ev_justified length].
    + exists [0; 0; 0; 0]%N, [0], O. split; [left; reflexivity|]. split; [vm_compute; reflexivity|]. split; reflexivity.
    + exists [5; 0; 0; 0]%N, [5], O. split; [right; left; reflexivity|]. split; [vm_compute; reflexivity|]. split; reflexivity.
    + exists [6; 0; 0; 0]%N, [6], O. split; [right; right; left; reflexivity|]. split; [vm_compute; reflexivity|]. split; reflexivity.
Qed.
