(* C07 (timer half) — "When a remote stops responding, the session raises NetworkInterrupted after the notify
   delay and Disconnected after the disconnect timeout (not earlier, and once)".
   Statements only; every proof is `exact <lemma>`.  Model: Endpoint.v (src/network/protocol.rs, correspondence
   level `endpoint`), current code; the first three theorems restate for C07 what the C12 development
   (EndpointProofs.v) proves for all operation sequences; the silence theorems (EndpointSafety.v) describe the
   suffix of a run in which nothing is accepted any more. *)
From GGRS Require Import Base Consts TimeSync Endpoint EndpointSpec EndpointProofs EndpointSafety.
Open Scope Z_scope.

(* not earlier: for every operation sequence, a poll pushes NetworkInterrupted only if now > la + notify
   (with payload max 0 (timeout - notify)) and Disconnected only if now > la + timeout, where la is the time of
   the latest accepted packet; and a poll of a Running endpoint past a threshold does push the event unless it
   was pushed before  (= C12_no_early_timer) *)
Theorem C07_no_early_timer :
  forall now0 magic handles np lp mp timeout notify fps desync dbg ops s evs,
  let s0 := ep_new now0 magic handles np lp mp timeout notify fps desync in
  run dbg s0 ops = Ok (s, evs) ->
  let la := last_accept dbg s0 ops now0 in
  u_last_recv_time s = la /\
  forall now nonce cs s' out, step dbg (OPoll now nonce cs) s = Ok (s', out) ->
    exists pushed, out = u_event_queue s ++ pushed /\
      (forall t, ~ In (EvNetworkInterrupted t) (u_event_queue s)) /\
      (forall t, In (EvNetworkInterrupted t) pushed -> la + notify < now /\ t = Z.max 0 (timeout - notify)) /\
      (In EvDisconnected pushed -> la + timeout < now) /\
      (u_state s = PRunning -> u_notify_sent s = false -> u_event_sent s = false -> la + notify < now ->
         In (EvNetworkInterrupted (Z.max 0 (timeout - notify))) pushed) /\
      (u_state s = PRunning -> u_event_sent s = false -> la + timeout < now -> In EvDisconnected pushed).
Proof. exact no_early_timer. Qed.

(* once: at most one Disconnected in everything an endpoint ever reports  (= C12_at_most_one_disconnected);
   and by the event grammar (= C12_event_grammar) NetworkInterrupted alternates with NetworkResumed and nothing
   but Input events follows Disconnected *)
Theorem C07_at_most_one_disconnected :
  forall now0 magic handles np lp mp timeout notify fps desync dbg ops s evs,
  run dbg (ep_new now0 magic handles np lp mp timeout notify fps desync) ops = Ok (s, evs) ->
  event_grammar (without_disconnected evs) /\ (count_disconnected evs <= 1)%nat.
Proof. exact grammar_modulo_disconnected. Qed.

Theorem C07_event_grammar :
  forall now0 magic handles np lp mp timeout notify fps desync dbg ops s evs,
  run dbg (ep_new now0 magic handles np lp mp timeout notify fps desync) ops = Ok (s, evs) ->
  event_grammar evs /\ event_grammar (evs ++ u_event_queue s).
Proof. exact event_grammar_full. Qed.

(* Silence.  From ANY Running endpoint state [s] (T = last_recv_time s, the time of the last accepted packet by
   C07_no_early_timer), a suffix consisting only of polls - any clock readings, any nonces and connection
   statuses - returns exactly the queued events followed by [eps_silent_events]: per poll at time `now`,
   NetworkInterrupted(max 0 (timeout - notify)) iff not yet notified, not yet reported dead and now > T + notify;
   then Disconnected iff not yet reported dead and now > T + timeout.  The endpoint stays Running with the same T. *)
Theorem C07_silence_events : forall dbg polls s s' evs,
  u_state s = PRunning -> run dbg s (eps_poll_ops polls) = Ok (s', evs) ->
  evs = (match polls with [] => [] | _ => u_event_queue s end) ++
        eps_silent_events (u_last_recv_time s) (u_notify_start s) (u_timeout s) (u_notify_sent s) (u_event_sent s)
                          (eps_poll_times polls) /\
  u_state s' = PRunning /\ u_last_recv_time s' = u_last_recv_time s /\
  (polls <> [] -> u_event_queue s' = []).
Proof. exact eps_silence_run. Qed.

(* ... at most one of each in the whole suffix (none if already sent) *)
Theorem C07_silence_at_most_once : forall T ns to times n e,
  (eps_count_interrupted (eps_silent_events T ns to n e times) <= (if n || e then 0 else 1))%nat /\
  (count_disconnected (eps_silent_events T ns to n e times) <= (if e then 0 else 1))%nat.
Proof. exact eps_silent_at_most_once. Qed.

(* ... none while no poll is past the threshold *)
Theorem C07_silence_not_early : forall T ns to times n e,
  (Forall (fun now => now <= T + ns) times ->
   eps_count_interrupted (eps_silent_events T ns to n e times) = 0%nat) /\
  (Forall (fun now => now <= T + to) times ->
   count_disconnected (eps_silent_events T ns to n e times) = 0%nat).
Proof. exact eps_silent_not_early. Qed.

(* ... the first poll with now > T + notify pushes exactly one NetworkInterrupted with payload
   max 0 (timeout - notify) (provided no earlier poll was already past T + timeout: since 25d3021 nothing is
   reported after Disconnected; with notify <= timeout that cannot happen), and no later poll pushes another *)
Theorem C07_silence_interrupted_on_time : forall T ns to before now after,
  Forall (fun t => t <= T + ns /\ t <= T + to) before -> T + ns < now ->
  eps_silent_events T ns to false false (before ++ now :: after) =
    EvNetworkInterrupted (Z.max 0 (to - ns)) ::
    (if T + to <? now then [EvDisconnected] else []) ++
    eps_silent_events T ns to true (T + to <? now) after /\
  eps_count_interrupted (eps_silent_events T ns to true (T + to <? now) after) = 0%nat.
Proof. exact eps_silent_interrupted_on_time. Qed.

(* ... the first poll with now > T + timeout pushes Disconnected, none earlier, and nothing but nothing follows *)
Theorem C07_silence_disconnected_on_time : forall T ns to before now after n,
  Forall (fun t => t <= T + to) before -> T + to < now ->
  exists pre n', eps_silent_events T ns to n false (before ++ now :: after) =
    pre ++ EvDisconnected :: eps_silent_events T ns to n' true after /\
    count_disconnected pre = 0%nat /\
    count_disconnected (eps_silent_events T ns to n' true after) = 0%nat /\
    eps_count_interrupted (eps_silent_events T ns to n' true after) = 0%nat.
Proof. exact eps_silent_disconnected_on_time. Qed.

(* non-vacuity: default timers (500 / 2000), handshake finished at time 0, polls at 400, 500, 501, 1999, 2000,
   2001, 9000: NetworkInterrupted(1500) at 501 and Disconnected at 2001, nothing else *)
Example C07_silence_example :
  exists s evs, run true w_new (w_handshake ++ eps_poll_ops [(400, 0, w_status); (500, 0, w_status); (501, 0, w_status);
                                      (1999, 0, w_status); (2000, 0, w_status); (2001, 0, w_status); (9000, 0, w_status)])
                = Ok (s, evs) /\
    skipn 5 evs = [EvNetworkInterrupted 1500; EvDisconnected].
Proof. exact eps_silence_example. Qed.

Check C07_silence_events : forall dbg polls s s' evs,
  u_state s = PRunning -> run dbg s (eps_poll_ops polls) = Ok (s', evs) ->
  evs = (match polls with [] => [] | _ => u_event_queue s end) ++
        eps_silent_events (u_last_recv_time s) (u_notify_start s) (u_timeout s) (u_notify_sent s) (u_event_sent s)
                          (eps_poll_times polls) /\
  u_state s' = PRunning /\ u_last_recv_time s' = u_last_recv_time s /\
  (polls <> [] -> u_event_queue s' = []).
