(* C13 — SyncTestSession flags exactly the games that are not deterministic.
   This file holds statements only; every proof is `exact <lemma>` (vm_compute for the examples).
   Model: SyncTest.v (src/sessions/sync_test_session.rs on top of Sync.v / Queue.v).
   Reference semantics: SyncTestSpec.v — the game's state is the list of input vectors played on the
   current timeline, `st_exec` is the executable request contract (C02), `st_run` one user loop:
   add_local_input for every player, advance_frame, execute the requests (RunOk = no call panicked,
   mismatched or was refused, every request list was executable and moved the game by exactly one
   frame to current_frame). *)
From GGRS Require Import Base Consts Queue Sync SyncTest SyncTestSpec SyncTestProofs Builder BuilderSpec.
Open Scope Z_scope.

Lemma default_players_ok : 1 <= DEFAULT_PLAYERS.
Proof. vm_compute. discriminate. Qed.

(* (a) For EVERY player count >= 1, check distance < prediction window, input delay >= 0 with
   delay + check_distance + 2 <= INPUT_QUEUE_LENGTH, every predictor, every input sequence (any
   length, one vector of num_players values per frame) and every DETERMINISTIC game (checksum oracle
   that depends on the game state only): the run completes; the request list of the call made at
   frame c is exactly `st_expected_requests .. c` — [Load c-d, Advance, (Save, Advance)*] when
   0 < d < c, then Save c (when d > 0) and Advance — where every Advance of frame f carries, for
   player p, the value submitted at user frame f - delay (0 before) with status Confirmed; no
   MismatchedChecksum, no panic, no InvalidRequest; the game ends at frame = number of calls on the
   expected timeline, and every simulation step ever executed (first or repeated) used the expected
   inputs of its frame. *)
Theorem C13_no_false_alarm : forall predict ck np w d k ins,
  1 <= np -> 0 <= d < w -> 0 <= k -> k + d + 2 <= INPUT_QUEUE_LENGTH ->
  st_deterministic ck ->
  Forall (fun vs => Z.of_nat (length vs) = np) ins ->
  exists s0 s g,
    st_new np w d k = Ok s0 /\
    st_run predict ck s0 (st_game0 w) ins =
      RunOk s g (map (st_expected_requests np d k ins) (st_zrange 0 (length ins))) /\
    s_current (st_sync s) = Z.of_nat (length ins) /\
    sg_tl g = map (st_expected np ins k) (st_zrange 0 (length ins)) /\
    Forall (fun e => snd e = st_expected np ins k (fst e)) (sg_log g).
Proof. exact st_no_false_alarm. Qed.

(* (b) A game that is deterministic except that the saves of one frame F >= 2 never repeat a checksum,
   check distance >= 2: the calls made at frames 0 .. max(F,d)+1 succeed (with the same request lists
   as above) and the call made at current_frame = max(F, check_distance) + 2 returns
   MismatchedChecksum { current_frame, mismatched_frames = [F] }.  This is the exact frame; it is
   <= F + check_distance (hence within the "check_distance + 2 frames" of the property text). *)
Theorem C13_detection : forall predict ck np w d k ins F,
  1 <= np -> 2 <= d < w -> 0 <= k -> k + d + 2 <= INPUT_QUEUE_LENGTH -> 2 <= F ->
  st_noisy_at ck F ->
  Forall (fun vs => Z.of_nat (length vs) = np) ins ->
  Z.max F d + 3 <= Z.of_nat (length ins) ->
  exists s0 s,
    st_new np w d k = Ok s0 /\
    st_run predict ck s0 (st_game0 w) ins =
      RunStop (map (st_expected_requests np d k ins) (st_zrange 0 (Z.to_nat (Z.max F d + 2))))
              (CallMismatch s (Z.max F d + 2) [F]).
Proof. exact st_detection. Qed.

Theorem C13_detection_bound : forall F d, 2 <= F -> 2 <= d -> Z.max F d + 2 <= F + d /\ F + d <= F + d + 2.
Proof. exact st_detection_bound. Qed.

(* which nondeterminism is NOT caught (the model says so, and so does the code): a frame is saved a
   second time only by a resimulation, i.e. frames c-d+1 .. c-1 of a call made at c > d; frames 0 and 1
   are never among them, and with check distance 1 (or 0) nothing is.  For such a game the run
   completes without any MismatchedChecksum, whatever the inputs. *)
Theorem C13_blind_spot : forall predict ck np w d k ins F,
  1 <= np -> 0 <= d < w -> 0 <= k -> k + d + 2 <= INPUT_QUEUE_LENGTH ->
  st_noisy_at ck F -> d <= 1 \/ F <= 1 ->
  Forall (fun vs => Z.of_nat (length vs) = np) ins ->
  exists s0 s g,
    st_new np w d k = Ok s0 /\
    st_run predict ck s0 (st_game0 w) ins =
      RunOk s g (map (st_expected_requests np d k ins) (st_zrange 0 (length ins))).
Proof. exact st_blind_spot. Qed.

(* the bound on the delay is needed: 1 player, window 2, distance 1, delay 126 (126+1+2 = 129 > 128)
   panics in the input queue (`assert!(self.length <= INPUT_QUEUE_LENGTH)`) on the third call *)
Theorem C13_delay_bound_is_needed :
  st_new 1 2 1 126 = Ok (st_s0 1 2 1 126) /\
  st_run (fun x => x) (fun _ _ => None) (st_s0 1 2 1 126) (st_game0 2) [[1]; [1]; [1]] =
    RunStop [[RSave 0; RAdvance [(0, Confirmed)]]; [RSave 1; RAdvance [(0, Confirmed)]]] CallPanic.
Proof. exact st_delay_bound_needed_full. Qed.

(* (c) builder side: every call list (unsigned arguments) whose finisher start_synctest_session returns
   a session has check_distance < max_prediction, no sparse saving and >= 1 player; the session gets
   exactly the configured values *)
Theorem C13_builder_gate : forall cs n np w cd dl, Forall usize_call cs ->
  run_calls cs FSyncTest = (n, Ok (SSyncTest np w cd dl)) ->
  1 <= np /\ 0 <= cd < w /\ 0 <= dl /\ sparse_of cs = false /\
  np = np_of cs /\ w = window_of cs /\ cd = check_dist_of cs /\ dl = delay_of cs.
Proof. exact (st_builder_gate default_players_ok). Qed.

(* ... so (a) applies to every SyncTestSession the builder hands out (delay within the ring bound) *)
Theorem C13_accepted_sessions : forall cs n np w cd dl predict ck ins, Forall usize_call cs ->
  run_calls cs FSyncTest = (n, Ok (SSyncTest np w cd dl)) ->
  dl + cd + 2 <= INPUT_QUEUE_LENGTH -> st_deterministic ck ->
  Forall (fun vs => Z.of_nat (length vs) = np) ins ->
  exists s0 s g,
    st_new np w cd dl = Ok s0 /\
    st_run predict ck s0 (st_game0 w) ins =
      RunOk s g (map (st_expected_requests np cd dl ins) (st_zrange 0 (length ins))).
Proof. exact (st_accepted_sessions default_players_ok). Qed.

(* ---------- non-vacuity ---------- *)
(* a deterministic oracle and a clean 20-frame run: 2 players, window 5, check distance 3, delay 1 *)
Example C13_clean_run_example :
  st_deterministic ex_ck /\
  Forall (fun vs => Z.of_nat (length vs) = 2) ex_ins /\
  (exists s g, st_run (fun x => x) ex_ck (st_s0 2 5 3 1) (st_game0 5) ex_ins =
     RunOk s g (map (st_expected_requests 2 3 1 ex_ins) (st_zrange 0 20))) /\
  st_expected_requests 2 3 1 ex_ins 5 =
    [RLoad 2; RAdvance [(1, Confirmed); (3, Confirmed)];
     RSave 3; RAdvance [(2, Confirmed); (5, Confirmed)];
     RSave 4; RAdvance [(3, Confirmed); (7, Confirmed)];
     RSave 5; RAdvance [(4, Confirmed); (9, Confirmed)]].
Proof. exact ex_clean_run. Qed.

(* an oracle that is noisy at frame 6 only; with check distance 3 it is caught at current_frame 8 *)
Example C13_noisy_frame_caught_example :
  st_noisy_at (ex_ckn 6) 6 /\
  exists s, st_run (fun x => x) (ex_ckn 6) (st_s0 2 5 3 1) (st_game0 5) ex_ins =
    RunStop (map (st_expected_requests 2 3 1 ex_ins) (st_zrange 0 8)) (CallMismatch s 8 [6]).
Proof. exact ex_noisy_caught. Qed.

(* noisy at frame 1: never caught (20 frames shown here, all lengths by C13_blind_spot) *)
Example C13_noisy_frame_1_missed_example :
  st_noisy_at (ex_ckn 1) 1 /\
  exists s g, st_run (fun x => x) (ex_ckn 1) (st_s0 2 5 3 1) (st_game0 5) ex_ins =
    RunOk s g (map (st_expected_requests 2 3 1 ex_ins) (st_zrange 0 20)).
Proof. exact ex_noisy_1_missed. Qed.

Check C13_no_false_alarm : forall predict ck np w d k ins,
  1 <= np -> 0 <= d < w -> 0 <= k -> k + d + 2 <= INPUT_QUEUE_LENGTH ->
  st_deterministic ck ->
  Forall (fun vs => Z.of_nat (length vs) = np) ins ->
  exists s0 s g,
    st_new np w d k = Ok s0 /\
    st_run predict ck s0 (st_game0 w) ins =
      RunOk s g (map (st_expected_requests np d k ins) (st_zrange 0 (length ins))) /\
    s_current (st_sync s) = Z.of_nat (length ins) /\
    sg_tl g = map (st_expected np ins k) (st_zrange 0 (length ins)) /\
    Forall (fun e => snd e = st_expected np ins k (fst e)) (sg_log g).
Check C13_detection : forall predict ck np w d k ins F,
  1 <= np -> 2 <= d < w -> 0 <= k -> k + d + 2 <= INPUT_QUEUE_LENGTH -> 2 <= F ->
  st_noisy_at ck F ->
  Forall (fun vs => Z.of_nat (length vs) = np) ins ->
  Z.max F d + 3 <= Z.of_nat (length ins) ->
  exists s0 s,
    st_new np w d k = Ok s0 /\
    st_run predict ck s0 (st_game0 w) ins =
      RunStop (map (st_expected_requests np d k ins) (st_zrange 0 (Z.to_nat (Z.max F d + 2))))
              (CallMismatch s (Z.max F d + 2) [F]).
