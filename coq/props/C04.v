(* C04 — speculation is bounded by the prediction window; lockstep never speculates.
   Statements only (same model and conventions as props/C02.v). *)
From GGRS Require Import Base Consts Queue QueueProofs Sync P2P Session SessionProofs SessionProgress SessionSparse SessionSparse2 SessionTimeline SessionLockstep.
Open Scope Z_scope.

(* Every LoadGameState of every call names a frame at most max_prediction frames behind the frame
   the game is at, for every reachable state and every operation (no assert firing is the premise:
   sstep = Ok). *)
Theorem C04_loads_inside_window :
  forall (predict : Z -> Z) (p : p2p) (op : sop) (sr : sres) (g : game) (w : Z),
  sstep predict p op = Ok sr -> JI w p g ->
  forall f, In (RLoad f) (o_requests (sr_out sr)) -> s_current (ps_sync p) - w <= f < s_current (ps_sync p).
Proof.
  intros predict p op sr g w H J f Hin.
  destruct (sstep_exec predict p op sr g w H J) as (_ & _ & _ & _ & A & _).
  exact (A (RLoad f) Hin).
Qed.

(* A new frame c is simulated (current_frame() goes up) only as the last request of the call and only
   if it lies inside the window of the newest frame cf for which every connected player's input is
   held (cf = confirmed_frame of the connection statuses at that moment; cf = -1: nothing held):
     lockstep (w = 0):  c <= cf;      rollback:  c - cf < w   (c < w when nothing is held). *)
Theorem C04_speculation_bounded :
  forall (predict : Z -> Z) (p p' : p2p) (o : pout) (r : apires) (g : game) (w : Z),
  advance predict p = Ok (p', o, r) -> JI w p g ->
  s_current (ps_sync p') = s_current (ps_sync p) + 1 ->
  (exists ins R0, o_requests o = R0 ++ [RAdvance ins]) /\
  exists cf, (if w =? 0 then s_current (ps_sync p) <= cf
              else if cf <? 0 then s_current (ps_sync p) < w else s_current (ps_sync p) - cf < w) /\
             (exists q, confirmed_frame q = Ok cf /\ (w = 0 -> ps_status q = ps_status p')).
Proof.
  intros predict p p' o r g w H J Hadv.
  destruct (advance_exec predict p p' o r g w H J) as (_ & _ & _ & _ & _ & _ & _ & _ & A).
  exact (A Hadv).
Qed.

(* Lockstep: never SaveGameState / LoadGameState, every AdvanceFrame carries only Confirmed or
   Disconnected inputs, and a call either simulates exactly one frame or leaves current_frame()
   unchanged (a stalled call emits nothing). *)
Theorem C04_lockstep :
  forall (predict : Z -> Z) (p : p2p) (op : sop) (sr : sres) (g : game),
  sstep predict p op = Ok sr -> JI 0 p g ->
  no_save_load (o_requests (sr_out sr)) /\
  (s_current (ps_sync (sr_state sr)) = s_current (ps_sync p) \/
   (op = SAdvance /\ s_current (ps_sync (sr_state sr)) = s_current (ps_sync p) + 1)).
Proof.
  intros predict p op sr g H J.
  destruct (sstep_exec predict p op sr g 0 H J) as (_ & _ & _ & A & _ & B).
  split; [exact (B eq_refl)|exact A].
Qed.

Theorem C04_lockstep_stall_emits_nothing :
  forall (predict : Z -> Z) (p p' : p2p) (o : pout) (r : apires) (g : game),
  advance predict p = Ok (p', o, r) -> JI 0 p g ->
  (forall ins, ~ In (RAdvance ins) (o_requests o)) -> s_current (ps_sync p') = s_current (ps_sync p).
Proof.
  intros predict p p' o r g H J Hno.
  destruct (advance_exec predict p p' o r g 0 H J) as (_ & _ & _ & [A|A] & _ & _ & _ & _ & B); [exact A|].
  destruct (B A) as ((ins & R0 & E) & _). exfalso. apply (Hno ins). rewrite E. apply in_or_app. right. left. reflexivity.
Qed.

(* non-vacuity: a starved peer stops after w frames (window 2, remote silent) *)
Example C04_demo :
  exists p outs, srun (fun x => x) (session_start 2 2 false 0 [KLocal; KRemote 0] [[1]] 0)
                   [SLocal 0 1; SAdvance; SLocal 0 1; SAdvance; SLocal 0 1; SAdvance; SLocal 0 1; SAdvance] = Ok (p, outs) /\
                 s_current (ps_sync p) = 2.
Proof. eexists. eexists. split; vm_compute; reflexivity. Qed.

(* Unconditional in C01's space (see props/C02.v, C02_no_assert_fires_in_space): after ANY run inside
   the space the session has not run ahead of what it holds: current_frame() is at most
   max_prediction frames past the last confirmed frame (past frame 0 while nothing is confirmed),
   and the last confirmed frame never exceeds the frames held from any player. *)
Theorem C04_window_invariant_in_space :
  forall (predict : Z -> Z) (n w d : Z) (kinds : list pkind) (eps : list (list Z)) (nspec : nat) (ops : list sop) p outs,
  1 <= w -> 0 <= d -> w + d + 3 <= INPUT_QUEUE_LENGTH -> 0 < n -> Z.of_nat (length kinds) = n -> players_only kinds ->
  srun_in predict (session_start n w false d kinds eps nspec) ops = Ok (p, outs) ->
  s_current (ps_sync p) <= Z.max 0 (s_last_confirmed (ps_sync p)) + w /\
  Forall (fun st => s_last_confirmed (ps_sync p) <= cs_last st) (ps_status p).
Proof.
  intros predict n w d kinds eps nspec ops p outs Hw Hd Hcap Hn Hlen Hpl H.
  destruct (run_in_space predict ops _ _ (game0 w) w d (QS_start n w d kinds eps nspec Hw Hd Hcap Hn Hlen Hpl)
              (JI_start n w d kinds eps nspec ltac:(lia)) Hw) as [E|(p' & outs' & gs & g & E1 & _ & _ & HQS & _)]; [congruence|].
  rewrite H in E1. injection E1 as <- <-.
  split; [destruct (qs_frames _ _ _ _ HQS) as (_ & _ & X); rewrite (Z.max_r 1 w) in X by lia; exact X|].
  pose proof (qs_qs _ _ _ _ HQS) as HQ. pose proof (qs_last _ _ _ _ HQS) as HL.
  revert HQ HL. generalize (s_queues (ps_sync p)) as qs. generalize (ps_status p) as st. generalize gs as gs0.
  induction gs0 as [|g0 gs0 IH]; intros st qs HQ HL; inversion HL; subst; [constructor|].
  inversion HQ; subst. constructor; [|eapply IH; eassumption].
  match goal with H : QI _ _ _ _ _ |- _ => pose proof (qi_conf _ _ _ _ _ H) end. lia.
Qed.

(* The same for sparse saving, where the window also bounds how far the one saved state may fall behind:
   after ANY run inside the space, last_saved_frame is unset only before the first frame, and otherwise
   lies between the last confirmed frame and the current frame, at most max_prediction frames back -
   so the LoadGameState a rollback issues (always of last_saved_frame) is inside the window. *)
Theorem C04_window_invariant_in_space_sparse :
  forall (predict : Z -> Z) (n w d : Z) (kinds : list pkind) (eps : list (list Z)) (nspec : nat) (ops : list sop) p outs,
  1 <= w -> 0 <= d -> w + d + 3 <= INPUT_QUEUE_LENGTH -> 0 < n -> Z.of_nat (length kinds) = n -> players_only kinds ->
  srun_in predict (session_start n w true d kinds eps nspec) ops = Ok (p, outs) ->
  s_current (ps_sync p) <= Z.max 0 (s_last_confirmed (ps_sync p)) + w /\
  Forall (fun st => s_last_confirmed (ps_sync p) <= cs_last st) (ps_status p) /\
  ((s_last_saved (ps_sync p) = NULL /\ s_current (ps_sync p) = 0) \/
   (s_last_confirmed (ps_sync p) <= s_last_saved (ps_sync p) <= s_current (ps_sync p) /\
    0 <= s_last_saved (ps_sync p) /\ s_current (ps_sync p) - s_last_saved (ps_sync p) <= w)).
Proof.
  intros predict n w d kinds eps nspec ops p outs Hw Hd Hcap Hn Hlen Hpl H.
  destruct (sparse_run_in_space predict ops _ _ (game0 w) w d (QS_start_gen true n w d kinds eps nspec Hw Hd Hcap Hn Hlen Hpl)
              (JS_start n w d kinds eps nspec Hw) (SX_start n w d kinds eps nspec)) as [E|(p' & outs' & gs & g & E1 & _ & _ & HQS & _ & HSX)]; [congruence|].
  rewrite H in E1. injection E1 as <- <-.
  destruct (qs_frames _ _ _ _ HQS) as (F1 & F2 & F3). rewrite (Z.max_r 1 w) in F3 by lia. destruct HSX as [X1 X2 X3 X4 X5].
  split; [exact F3|]. split.
  - pose proof (qs_qs _ _ _ _ HQS) as HQ. pose proof (qs_last _ _ _ _ HQS) as HL.
    revert HQ HL. generalize (s_queues (ps_sync p)) as qs. generalize (ps_status p) as st. generalize gs as gs0.
    induction gs0 as [|g0 gs0 IH]; intros st qs HQ HL; inversion HL; subst; [constructor|].
    inversion HQ; subst. constructor; [|eapply IH; eassumption].
    match goal with H : QI _ _ _ _ _ |- _ => pose proof (qi_conf _ _ _ _ _ H) end. lia.
  - destruct (Z.eq_dec (s_last_saved (ps_sync p)) NULL) as [En|En]; [left; split; [exact En|exact (X2 En)]|right].
    unfold NULL in En. lia.
Qed.

(* non-vacuity: a starved sparse-saving peer stops after w frames, its saved frame still 0 *)
Example C04_demo_sparse :
  exists p outs, srun_in (fun x => x) (session_start 2 2 true 0 [KLocal; KRemote 0] [[1]] 0)
                   [SLocal 0 1; SAdvance; SLocal 0 1; SAdvance; SLocal 0 1; SAdvance; SLocal 0 1; SAdvance] = Ok (p, outs) /\
                 s_current (ps_sync p) = 2 /\ s_last_saved (ps_sync p) = 0.
Proof. eexists. eexists. split; [|split]; vm_compute; reflexivity. Qed.

(* LOCKSTEP, UNCONDITIONALLY (max_prediction = 0, any number of spectators; coq/SessionLockstep.v).  Inside the space - nobody
   disconnects, remote inputs arrive in frame order while the ring has room, local players share the input
   delay d - for EVERY operation sequence: no modelled assert fires (the run is Err only when it leaves the
   space), the request lists execute, every request of every call is an AdvanceFrame whose inputs are ALL
   Confirmed (no Save, no Load, no predicted or Disconnected input: lockstep never speculates), and every
   frame the game has simulated was simulated - once - with exactly the inputs held for it. *)
Theorem C04_lockstep_never_speculates :
  forall (predict : Z -> Z), (forall x, predict (predict x) = predict x) -> predict 0 = 0 ->
  forall (ops : list sop) (n d : Z) (kinds : list pkind) (eps : list (list Z)) (nspec : nat),
  0 <= d -> d + 4 <= INPUT_QUEUE_LENGTH -> 0 < n -> Z.of_nat (length kinds) = n -> players_only kinds ->
  let p0 := session_start n 0 false d kinds eps nspec in
  srun_in predict p0 ops = Err \/
  exists p outs g gs, srun_in predict p0 ops = Ok (p, outs) /\ srun predict p0 ops = Ok (p, outs) /\
    exec_outs 0 (game0 0) outs = Some g /\ gframe g = s_current (ps_sync p) /\ QSg false 0 d p gs /\
    Forall (fun o : pout * apires => all_confirmed (o_requests (fst o))) outs /\
    (forall h hist low f, nth_error gs h = Some (hist, low) -> 0 <= f < s_current (ps_sync p) ->
       f < hlen hist /\ gvalL (g_hist g) f h = hval hist f).
Proof. exact lockstep_from_start. Qed.

(* non-vacuity: a lockstep run inside the space; the session advances only once the remote input of the
   frame has arrived, and hands it out as Confirmed *)
Example C04_lockstep_demo :
  exists p outs, srun_in (fun x => x) (session_start 2 0 false 0 [KLocal; KRemote 0] [[1]] 0)
      [SLocal 0 1; SAdvance; SRemote 1 0 7; SLocal 0 1; SAdvance; SLocal 0 2; SAdvance] = Ok (p, outs) /\
    map (fun o => o_requests (fst o)) outs =
      [[]; []; []; []; [RAdvance [(1, Confirmed); (7, Confirmed)]]; []; []] /\ s_current (ps_sync p) = 1.
Proof. eexists. eexists. split; [vm_compute; reflexivity|]. split; vm_compute; reflexivity. Qed.
