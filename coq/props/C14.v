(* C14 — the input codec round-trips every input and decodes total.
   This file holds statements only; every proof is `exact <lemma>`. *)
From GGRS Require Import Base Varint Rle Codec Consts CodecProofs.
Open Scope N_scope.

(* side conditions on the constant generated from compression.rs:
   it is far below the u64/usize range the arithmetic lemmas need ... *)
Lemma cap_ok : MAX_DECODED_LEN < 2^61.
Proof. vm_compute. reflexivity. Qed.
(* ... it admits every legitimate packet (PENDING_OUTPUT_SIZE + 1 inputs of up to 65535 bytes,
   each with its 2-byte length prefix) and is no more than that: "a small multiple" = 1 *)
Theorem C14_cap_is_one_legitimate_packet :
  MAX_DECODED_LEN = (PENDING_OUTPUT_SIZE + 1) * (65535 + 2) /\
  PENDING_OUTPUT_SIZE + 1 <= MAX_DECODED_INPUTS <= 8 * (PENDING_OUTPUT_SIZE + 1).
Proof. vm_compute. intuition discriminate. Qed.

Theorem C14_roundtrip : forall dbg ref ins,
  Forall (fun i => N.of_nat (length i) <= 65535) ins ->
  N.of_nat (wire_size ins) <= MAX_DECODED_LEN ->
  N.of_nat (length ins) <= MAX_DECODED_INPUTS ->
  decode dbg ref (encode ref ins) = Ok ins.
Proof. exact (codec_roundtrip cap_ok). Qed.

Theorem C14_decode_total : forall dbg ref data, decode dbg ref data <> Panic.
Proof. exact (decode_total cap_ok). Qed.

Theorem C14_decode_bounded : forall dbg ref data outs,
  decode dbg ref data = Ok outs ->
  (exists buf, rleF dbg data = Ok buf /\ N.of_nat (length buf) <= MAX_DECODED_LEN) /\
  N.of_nat (wire_size outs) <= MAX_DECODED_LEN /\
  N.of_nat (length outs) <= MAX_DECODED_INPUTS.
Proof. exact (decode_bounded cap_ok). Qed.

(* the decoder without the validating pre-pass (the code before the repair) is not total *)
Theorem C14_unvalidated_refuted :
  decode_unvalidated true [0;0;0;0] [128] = Panic /\
  decode_unvalidated false [0;0;0;0] [128] = Panic /\
  decode_unvalidated true [] [255;255;255;255;255;255;255;255;255;255;1] = Panic.
Proof. exact decode_unvalidated_refuted. Qed.

Check C14_roundtrip : forall dbg ref ins,
  Forall (fun i => N.of_nat (length i) <= 65535) ins ->
  N.of_nat (wire_size ins) <= MAX_DECODED_LEN ->
  N.of_nat (length ins) <= MAX_DECODED_INPUTS ->
  decode dbg ref (encode ref ins) = Ok ins.
Check C14_decode_total : forall dbg ref data, decode dbg ref data <> Panic.
