(* C02 — the request list of every advance_frame call is executable and frame-consistent.
   Statements only.  Model: coq/P2P.v (session core), coq/Sync.v, coq/Queue.v; the user's game is
   the free game of SessionProofs.v (state = the list of input vectors it was advanced with; a cell
   holds the frame and state of the save that wrote it; exec fails on a Save that names another
   frame than the game's, on a Load that is not earlier, or whose cell does not hold the state saved
   for that frame on the current timeline). *)
From GGRS Require Import Base Consts Queue Sync P2P Session SessionProofs SessionProgress SessionSparse SessionSparse2.
Open Scope Z_scope.

(* For EVERY operation sequence (local inputs, remote inputs, gossip, endpoint disconnects,
   disconnect_player, set_input_delay, advance_frame in any order), any number of players, any
   player kinds, endpoints and spectators, any input delay, any prediction window w >= 0 (rollback
   and lockstep), both predictors: as long as no assert of the code fires, executing the request
   lists of all calls in order is well defined, and afterwards the game's frame is current_frame(). *)
Theorem C02_requests_executable :
  forall (predict : Z -> Z) (n w d : Z) (kinds : list pkind) (eps : list (list Z)) (nspec : nat)
         (ops : list sop) (p : p2p) (outs : list (pout * apires)),
  0 <= w ->
  srun predict (session_start n w false d kinds eps nspec) ops = Ok (p, outs) ->
  exists g, exec_outs w (game0 w) outs = Some g /\ gframe g = s_current (ps_sync p) /\ JI w p g.
Proof.
  intros predict n w d kinds eps nspec ops p outs Hw H.
  destruct (requests_executable predict ops _ _ w p outs (JI_start n w d kinds eps nspec Hw) H) as (g & A & B).
  exists g. split; [exact A|]. split; [apply (ji_frame _ _ _ B)|exact B].
Qed.

(* The same with SPARSE SAVING (only the state of the last saved frame is ever loaded; invariant JS of
   SessionSparse.v: the cell of last_saved_frame holds, in the sync layer's and in the game's view, the
   state the game has for that frame on its current timeline): for EVERY operation sequence of a
   sparse-saving session, as long as no assert fires, the request lists execute in order and the game
   ends at current_frame(); every LoadGameState is inside the prediction window. *)
Theorem C02_requests_executable_sparse :
  forall (predict : Z -> Z) (n w d : Z) (kinds : list pkind) (eps : list (list Z)) (nspec : nat)
         (ops : list sop) (p : p2p) (outs : list (pout * apires)),
  1 <= w ->
  srun predict (session_start n w true d kinds eps nspec) ops = Ok (p, outs) ->
  exists g, exec_outs w (game0 w) outs = Some g /\ gframe g = s_current (ps_sync p) /\ JS w p g.
Proof.
  intros predict n w d kinds eps nspec ops p outs Hw H.
  destruct (sp_requests_executable predict ops _ _ w p outs (JS_start n w d kinds eps nspec Hw) H) as (g & A & B).
  exists g. split; [exact A|]. split; [apply (js_frame _ _ _ B)|exact B].
Qed.

Theorem C02_one_call_sparse :
  forall (predict : Z -> Z) (p : p2p) (op : sop) (sr : sres) (g : game) (w : Z),
  sstep predict p op = Ok sr -> JS w p g ->
  exists g', exec w g (o_requests (sr_out sr)) = Some g' /\ JS w (sr_state sr) g' /\
    (s_current (ps_sync (sr_state sr)) = s_current (ps_sync p) \/
     (op = SAdvance /\ s_current (ps_sync (sr_state sr)) = s_current (ps_sync p) + 1)) /\
    loads_in_window w (s_current (ps_sync p)) (o_requests (sr_out sr)).
Proof. exact sp_sstep_exec. Qed.

(* One call, from any state that satisfies the invariant (every reachable state does, by the
   theorem above): its requests execute; the frame is unchanged or - only for advance_frame -
   exactly one higher; the invariant holds again. *)
Theorem C02_one_call :
  forall (predict : Z -> Z) (p : p2p) (op : sop) (sr : sres) (g : game) (w : Z),
  sstep predict p op = Ok sr -> JI w p g ->
  exists g', exec w g (o_requests (sr_out sr)) = Some g' /\ JI w (sr_state sr) g' /\
    (s_current (ps_sync (sr_state sr)) = s_current (ps_sync p) \/
     (op = SAdvance /\ s_current (ps_sync (sr_state sr)) = s_current (ps_sync p) + 1)) /\
    loads_in_window w (s_current (ps_sync p)) (o_requests (sr_out sr)) /\
    (w = 0 -> no_save_load (o_requests (sr_out sr))).
Proof. exact sstep_exec. Qed.

(* In rollback mode the first simulation of frame 0 is preceded by a save of frame 0. *)
Theorem C02_first_frame_saved :
  forall (predict : Z -> Z) (p p' : p2p) (o : pout) (g : game) (w : Z),
  advance predict p = Ok (p', o, AOk) -> JI w p g -> 1 <= w -> s_current (ps_sync p) = 0 ->
  exists R, o_requests o = RSave 0 :: R.
Proof.
  intros predict p p' o g w H J Hw Hc.
  destruct (advance_exec predict p p' o AOk g w H J) as (_ & _ & _ & _ & _ & _ & _ & A & _).
  exact (A Hw eq_refl Hc).
Qed.

(* non-vacuity: a concrete rollback with a misprediction (two players, window 2) *)
Definition c02_demo_ops : list sop :=
  [SLocal 0 1; SAdvance; SLocal 0 1; SAdvance; SRemote 1 0 7; SRemote 1 1 7; SLocal 0 2; SAdvance].
Example C02_demo :
  exists p outs, srun (fun x => x) (session_start 2 2 false 0 [KLocal; KRemote 0] [[1]] 0) c02_demo_ops = Ok (p, outs) /\
    map (fun o => map (fun r => match r with RSave f => (0, f) | RLoad f => (1, f) | RAdvance _ => (2, 0) end) (o_requests (fst o))) outs =
    [[]; [(0,0);(0,0);(2,0)]; []; [(0,1);(2,0)]; []; []; []; [(1,0);(2,0);(0,1);(2,0);(0,2);(2,0)]].
Proof. eexists. eexists. split; vm_compute; reflexivity. Qed.

(* Unconditional in the space of C01 (rollback mode, dense saving, any number of spectators, nobody disconnects;
   local players with one common input delay d, remote players whose inputs arrive in frame order
   while their ring has room; [op_ok] decides membership on the current state, [srun_in] is [srun]
   that answers Err at the first operation outside the space): for EVERY operation sequence NO assert
   of the session core fires - the run is not Panic - and when it stays inside the space the request
   lists of all its calls are executable one after the other, ending at current_frame(). *)
Theorem C02_no_assert_fires_in_space :
  forall (predict : Z -> Z) (n w d : Z) (kinds : list pkind) (eps : list (list Z)) (nspec : nat) (ops : list sop),
  1 <= w -> 0 <= d -> w + d + 3 <= INPUT_QUEUE_LENGTH -> 0 < n -> Z.of_nat (length kinds) = n -> players_only kinds ->
  let p0 := session_start n w false d kinds eps nspec in
  srun_in predict p0 ops = Err \/
  exists p outs g, srun_in predict p0 ops = Ok (p, outs) /\ srun predict p0 ops = Ok (p, outs) /\
    exec_outs w (game0 w) outs = Some g /\ gframe g = s_current (ps_sync p).
Proof.
  intros predict n w d kinds eps nspec ops Hw Hd Hcap Hn Hlen Hpl p0.
  destruct (run_in_space predict ops p0 _ (game0 w) w d (QS_start n w d kinds eps nspec Hw Hd Hcap Hn Hlen Hpl)
              (JI_start n w d kinds eps nspec ltac:(lia)) Hw) as [E|(p & outs & gs & g & E1 & E2 & Ex & _ & HJ)].
  - left. exact E.
  - right. exists p, outs, g. split; [exact E1|]. split; [exact E2|]. split; [exact Ex|apply (ji_frame _ _ _ HJ)].
Qed.

(* non-vacuity: the demo run above lies inside the space *)
Example C02_demo_in_space :
  exists r, srun_in (fun x => x) (session_start 2 2 false 0 [KLocal; KRemote 0] [[1]] 0) c02_demo_ops = Ok r.
Proof. eexists. vm_compute. reflexivity. Qed.

(* non-vacuity: the demo run with sparse saving on: a rollback loads the last saved frame (0) and the
   confirmed frame is saved on the way *)
Example C02_demo_sparse :
  exists p outs, srun (fun x => x) (session_start 2 2 true 0 [KLocal; KRemote 0] [[1]] 0) c02_demo_ops = Ok (p, outs) /\
    map (fun o => map (fun r => match r with RSave f => (0, f) | RLoad f => (1, f) | RAdvance _ => (2, 0) end) (o_requests (fst o))) outs =
    [[]; [(0,0);(2,0)]; []; [(2,0)]; []; []; []; [(1,0);(2,0);(0,1);(2,0);(2,0)]].
Proof. eexists. eexists. split; vm_compute; reflexivity. Qed.


(* The same, unconditionally, for SPARSE SAVING (SessionBuilder::with_sparse_saving_mode) - the mode whose
   rollback loads `last_saved_frame` instead of the first incorrect frame and which carries asserts of its
   own (first_incorrect >= frame_to_load, load inside the window, the saved cell holds that frame,
   last_saved == min(confirmed, current) after a forced save): inside C01's space NO assert of the session
   core fires for ANY operation sequence, and the request lists of the whole run execute one after the other. *)
Theorem C02_no_assert_fires_in_space_sparse :
  forall (predict : Z -> Z) (n w d : Z) (kinds : list pkind) (eps : list (list Z)) (nspec : nat) (ops : list sop),
  1 <= w -> 0 <= d -> w + d + 3 <= INPUT_QUEUE_LENGTH -> 0 < n -> Z.of_nat (length kinds) = n -> players_only kinds ->
  let p0 := session_start n w true d kinds eps nspec in
  srun_in predict p0 ops = Err \/
  exists p outs g, srun_in predict p0 ops = Ok (p, outs) /\ srun predict p0 ops = Ok (p, outs) /\
    exec_outs w (game0 w) outs = Some g /\ gframe g = s_current (ps_sync p).
Proof.
  intros predict n w d kinds eps nspec ops Hw Hd Hcap Hn Hlen Hpl p0.
  destruct (sparse_run_in_space predict ops p0 _ (game0 w) w d (QS_start_gen true n w d kinds eps nspec Hw Hd Hcap Hn Hlen Hpl)
              (JS_start n w d kinds eps nspec Hw) (SX_start n w d kinds eps nspec)) as [E|(p & outs & gs & g & E1 & E2 & Ex & _ & HJ & _)].
  - left. exact E.
  - right. exists p, outs, g. split; [exact E1|]. split; [exact E2|]. split; [exact Ex|apply (js_frame _ _ _ HJ)].
Qed.

(* non-vacuity: the sparse demo run above lies inside the space *)
Example C02_demo_sparse_in_space :
  exists r, srun_in (fun x => x) (session_start 2 2 true 0 [KLocal; KRemote 0] [[1]] 0) c02_demo_ops = Ok r.
Proof. eexists. vm_compute. reflexivity. Qed.
