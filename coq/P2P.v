(* Faithful model of the core of src/sessions/p2p_session.rs (P2PSession): what advance_frame,
   add_local_input, set_input_delay, disconnect_player and the handling of endpoint events do to the
   sync layer, the connection statuses, the spectator broadcast and the outgoing local inputs.
   The UDP endpoints are abstracted to what the session reads from them (is_running and the gossiped
   peer_connect_status) and to what it hands them (send_input calls); desync detection, wait
   recommendations and the event queue are not part of this model (see Endpoint.v / the C09 and C12
   checks).  Hash-map iterations are modelled in ascending key order. *)
From GGRS Require Import Base Consts Queue Sync.
Open Scope Z_scope.

Inductive pkind := KLocal | KRemote (ep : Z) | KSpectator (ep : Z).

Record epview := mkev { ev_running : bool; ev_status : list cstat; ev_handles : list Z }.

Record p2p := mkp {
  ps_nplayers : Z;
  ps_maxpred : Z;
  ps_sync : sync;
  ps_sparse : bool;
  ps_disc_frame : Z;
  ps_running : bool;                       (* SessionState::Running *)
  ps_status : list cstat;                  (* local_connect_status *)
  ps_kinds : list pkind;                   (* player handles 0..n-1 *)
  ps_spec_handles : list (Z * Z);          (* spectator handle -> spectator endpoint *)
  ps_remotes : list epview;                (* remote endpoints *)
  ps_spectators : list bool;               (* is_running of each spectator endpoint *)
  ps_next_spec : Z;
  ps_pending : list (Z * pinput);          (* pending_local_inputs *)
  ps_outgoing : list (Z * list (Z * pinput));   (* outgoing_local_inputs: frame -> handle -> input, ascending *)
  ps_last_sent_out : Z }.

(* what one API call hands to the outside *)
Record pout := mko {
  o_requests : list request;
  o_remote_sends : list (list (Z * pinput));      (* one entry per send_input round to the remotes *)
  o_spec_sends : list (Z * list pinput) }.         (* (frame, inputs) per send_input round to the spectators *)
Definition out0 : pout := mko [] [] [].
Definition add_req (o : pout) (r : request) : pout := mko (o_requests o ++ [r]) (o_remote_sends o) (o_spec_sends o).
Definition add_rsend (o : pout) (m : list (Z * pinput)) : pout := mko (o_requests o) (o_remote_sends o ++ [m]) (o_spec_sends o).
Definition add_ssend (o : pout) (f : Z) (m : list pinput) : pout := mko (o_requests o) (o_remote_sends o) (o_spec_sends o ++ [(f, m)]).

Inductive apires := AOk | ANotSynchronized | AInvalidRequest.

Definition I32MAX : Z := 2147483647.

(* ---------- small accessors ---------- *)
Definition stat_at (p : p2p) (h : Z) : cstat := nth (Z.to_nat h) (ps_status p) cs_default.
Definition set_stat (l : list cstat) (h : Z) (c : cstat) : list cstat := updz l (Z.to_nat h) c.
Definition kind_at (p : p2p) (h : Z) : option pkind :=
  if h <? 0 then None else
  if h <? ps_nplayers p then nth_error (ps_kinds p) (Z.to_nat h)
  else match (fix find (l : list (Z * Z)) := match l with [] => None | (k, e) :: r => if k =? h then Some e else find r end) (ps_spec_handles p) with
       | Some e => Some (KSpectator e)
       | None => None
       end.

Fixpoint zrange_from (a : Z) (n : nat) : list Z :=
  match n with O => [] | S k => a :: zrange_from (a + 1) k end.

Definition local_handles (p : p2p) : list Z :=
  filter (fun h => match kind_at p h with Some KLocal => true | _ => false end)
         (zrange_from 0 (length (ps_kinds p))).
Definition remote_handles (p : p2p) : list Z :=
  filter (fun h => match kind_at p h with Some (KRemote _) => true | _ => false end)
         (zrange_from 0 (length (ps_kinds p))).

Definition with_sync (p : p2p) (s : sync) : p2p :=
  mkp (ps_nplayers p) (ps_maxpred p) s (ps_sparse p) (ps_disc_frame p) (ps_running p) (ps_status p) (ps_kinds p) (ps_spec_handles p)
      (ps_remotes p) (ps_spectators p) (ps_next_spec p) (ps_pending p) (ps_outgoing p) (ps_last_sent_out p).
Definition with_status (p : p2p) (st : list cstat) : p2p :=
  mkp (ps_nplayers p) (ps_maxpred p) (ps_sync p) (ps_sparse p) (ps_disc_frame p) (ps_running p) st (ps_kinds p) (ps_spec_handles p)
      (ps_remotes p) (ps_spectators p) (ps_next_spec p) (ps_pending p) (ps_outgoing p) (ps_last_sent_out p).
Definition with_disc_frame (p : p2p) (f : Z) : p2p :=
  mkp (ps_nplayers p) (ps_maxpred p) (ps_sync p) (ps_sparse p) f (ps_running p) (ps_status p) (ps_kinds p) (ps_spec_handles p)
      (ps_remotes p) (ps_spectators p) (ps_next_spec p) (ps_pending p) (ps_outgoing p) (ps_last_sent_out p).
Definition with_remotes (p : p2p) (r : list epview) : p2p :=
  mkp (ps_nplayers p) (ps_maxpred p) (ps_sync p) (ps_sparse p) (ps_disc_frame p) (ps_running p) (ps_status p) (ps_kinds p) (ps_spec_handles p)
      r (ps_spectators p) (ps_next_spec p) (ps_pending p) (ps_outgoing p) (ps_last_sent_out p).
Definition with_spectators (p : p2p) (r : list bool) : p2p :=
  mkp (ps_nplayers p) (ps_maxpred p) (ps_sync p) (ps_sparse p) (ps_disc_frame p) (ps_running p) (ps_status p) (ps_kinds p) (ps_spec_handles p)
      (ps_remotes p) r (ps_next_spec p) (ps_pending p) (ps_outgoing p) (ps_last_sent_out p).
Definition with_running (p : p2p) (b : bool) : p2p :=
  mkp (ps_nplayers p) (ps_maxpred p) (ps_sync p) (ps_sparse p) (ps_disc_frame p) b (ps_status p) (ps_kinds p) (ps_spec_handles p)
      (ps_remotes p) (ps_spectators p) (ps_next_spec p) (ps_pending p) (ps_outgoing p) (ps_last_sent_out p).
Definition with_next_spec (p : p2p) (f : Z) : p2p :=
  mkp (ps_nplayers p) (ps_maxpred p) (ps_sync p) (ps_sparse p) (ps_disc_frame p) (ps_running p) (ps_status p) (ps_kinds p) (ps_spec_handles p)
      (ps_remotes p) (ps_spectators p) f (ps_pending p) (ps_outgoing p) (ps_last_sent_out p).
Definition with_pending (p : p2p) (l : list (Z * pinput)) : p2p :=
  mkp (ps_nplayers p) (ps_maxpred p) (ps_sync p) (ps_sparse p) (ps_disc_frame p) (ps_running p) (ps_status p) (ps_kinds p) (ps_spec_handles p)
      (ps_remotes p) (ps_spectators p) (ps_next_spec p) l (ps_outgoing p) (ps_last_sent_out p).
Definition with_outgoing (p : p2p) (l : list (Z * list (Z * pinput))) (last : Z) : p2p :=
  mkp (ps_nplayers p) (ps_maxpred p) (ps_sync p) (ps_sparse p) (ps_disc_frame p) (ps_running p) (ps_status p) (ps_kinds p) (ps_spec_handles p)
      (ps_remotes p) (ps_spectators p) (ps_next_spec p) (ps_pending p) l last.

(* association lists keyed by Z, kept sorted ascending (BTreeMap) / overwrite semantics (HashMap) *)
Fixpoint assoc_get {A} (l : list (Z * A)) (k : Z) : option A :=
  match l with [] => None | (k', v) :: r => if k' =? k then Some v else assoc_get r k end.
Fixpoint assoc_put {A} (l : list (Z * A)) (k : Z) (v : A) : list (Z * A) :=
  match l with
  | [] => [(k, v)]
  | (k', v') :: r => if k =? k' then (k, v) :: r else if k <? k' then (k, v) :: (k', v') :: r else (k', v') :: assoc_put r k v
  end.
Fixpoint assoc_del {A} (l : list (Z * A)) (k : Z) : list (Z * A) :=
  match l with [] => [] | (k', v) :: r => if k' =? k then r else (k', v) :: assoc_del r k end.

(* ---------- confirmed_frame ---------- *)
Definition confirmed_frame (p : p2p) : res Z :=
  let m := fold_left (fun acc c => if cs_disc c then acc else Z.min acc (cs_last c)) (ps_status p) I32MAX in
  if m <? I32MAX then Ok m else Panic.

(* ---------- check_initial_sync ---------- *)
(* is_synchronized of an endpoint is not part of this model's state once the session runs; while
   the session is still Synchronizing the environment tells it through the SetRunning op *)

(* ---------- outgoing local inputs ---------- *)
Definition queue_outgoing (p : p2p) (h : Z) (i : pinput) : res p2p :=
  if pi_frame i =? NULL then Panic else
  match ps_remotes p with
  | [] => Ok p
  | _ =>
    let cur := match assoc_get (ps_outgoing p) (pi_frame i) with Some m => m | None => [] end in
    Ok (with_outgoing p (assoc_put (ps_outgoing p) (pi_frame i) (assoc_put cur h i)) (ps_last_sent_out p))
  end.

Definition complete (locals : list Z) (m : list (Z * pinput)) : bool :=
  forallb (fun h => match assoc_get m h with Some _ => true | None => false end) locals.

Definition next_complete (p : p2p) (locals : list Z) : option Z :=
  if ps_last_sent_out p =? NULL then
    match find (fun e => complete locals (snd e)) (ps_outgoing p) with Some (f, _) => Some f | None => None end
  else
    match assoc_get (ps_outgoing p) (ps_last_sent_out p + 1) with
    | Some m => if complete locals m then Some (ps_last_sent_out p + 1) else None
    | None => None
    end.

Fixpoint send_ready_go (fuel : nat) (p : p2p) (locals : list Z) (o : pout) : res (p2p * pout) :=
  match fuel with
  | O => Ok (p, o)
  | S k =>
    match next_complete p locals with
    | None => Ok (p, o)
    | Some f =>
      match assoc_get (ps_outgoing p) f with
      | None => Panic
      | Some m =>
        (* endpoint.send_input returns early unless the endpoint is Running *)
        let o' := if existsb ev_running (ps_remotes p) then add_rsend o m else o in
        send_ready_go k (with_outgoing p (assoc_del (ps_outgoing p) f) f) locals o'
      end
    end
  end.

Definition send_ready_outgoing (p : p2p) (o : pout) : res (p2p * pout) :=
  match ps_remotes p with
  | [] => Ok (p, o)
  | _ =>
    let locals := local_handles p in
    match locals with
    | [] => Ok (p, o)
    | _ => send_ready_go (S (length (ps_outgoing p))) p locals o
    end
  end.

(* ---------- register_local_inputs ---------- *)
Fixpoint queue_blanks (fuel : nat) (p : p2p) (h : Z) (f : Z) : res p2p :=
  match fuel with
  | O => Ok p
  | S k => res_bind (queue_outgoing p h (blank f)) (fun p' => queue_blanks k p' h (f + 1))
  end.

Fixpoint register_go (p : p2p) (hs : list Z) : res p2p :=
  match hs with
  | [] => Ok p
  | h :: r =>
    match assoc_get (ps_pending p) h with
    | None => Panic                                  (* expect("Missing local input ...") *)
    | Some pi =>
      res_bind (add_local_input (ps_sync p) h (pi_frame pi) (pi_val pi)) (fun '(s', actual) =>
        let p1 := with_sync p s' in
        if actual =? NULL then register_go p1 r else
        res_bind (if cs_last (stat_at p1 h) =? NULL then queue_blanks (Z.to_nat actual) p1 h 0 else Ok p1) (fun p2 =>
          let p3 := with_status p2 (set_stat (ps_status p2) h (mkcs (cs_disc (stat_at p2 h)) actual)) in
          res_bind (queue_outgoing p3 h (mkpi actual (pi_val pi))) (fun p4 => register_go p4 r)))
    end
  end.

Definition register_local_inputs (p : p2p) (o : pout) : res (p2p * pout) :=
  res_bind (register_go p (local_handles p)) (fun p' => send_ready_outgoing p' o).

(* ---------- disconnects ---------- *)
Definition disconnect_player_at_frame (p : p2p) (h last_frame : Z) : res p2p :=
  match kind_at p h with
  | None => Panic                                    (* expect("Invalid player handle") *)
  | Some KLocal => Ok p
  | Some (KRemote ep) =>
    match nth_error (ps_remotes p) (Z.to_nat ep) with
    | None => Panic
    | Some e =>
      let st := fold_left (fun st h' => set_stat st h' (mkcs true (cs_last (nth (Z.to_nat h') st cs_default)))) (ev_handles e) (ps_status p) in
      let p1 := with_remotes (with_status p st) (updz (ps_remotes p) (Z.to_nat ep) (mkev false (ev_status e) (ev_handles e))) in
      (* 8c: several players can drop before the next rollback: keep the earliest frame *)
      Ok (if last_frame + 1 <? s_current (ps_sync p)
          then with_disc_frame p1 (if ps_disc_frame p =? NULL then last_frame + 1 else Z.min (ps_disc_frame p) (last_frame + 1))
          else p1)
    end
  | Some (KSpectator ep) =>
    match nth_error (ps_spectators p) (Z.to_nat ep) with
    | None => Panic
    | Some _ => Ok (with_spectators p (updz (ps_spectators p) (Z.to_nat ep) false))
    end
  end.

Definition update_player_disconnects (p : p2p) : res p2p :=
  fold_left (fun rp h =>
    res_bind rp (fun p =>
      let running := filter ev_running (ps_remotes p) in
      let queue_connected := forallb (fun e => negb (cs_disc (nth (Z.to_nat h) (ev_status e) cs_default))) running in
      let qmin0 := fold_left (fun acc e => Z.min acc (cs_last (nth (Z.to_nat h) (ev_status e) cs_default))) running I32MAX in
      let lc := negb (cs_disc (stat_at p h)) in
      let lmin := cs_last (stat_at p h) in
      let qmin := if lc then Z.min qmin0 lmin else qmin0 in
      if negb queue_connected && (lc || (qmin <? lmin)) then disconnect_player_at_frame p h qmin else Ok p))
    (zrange_from 0 (Z.to_nat (ps_nplayers p))) (Ok p).

(* ---------- spectator broadcast ---------- *)
Fixpoint spec_send_go (fuel : nat) (p : p2p) (confirmed : Z) (o : pout) : res (p2p * pout) :=
  match fuel with
  | O => Ok (p, o)
  | S k =>
    if confirmed <? ps_next_spec p then Ok (p, o) else
    res_bind (confirmed_inputs (ps_sync p) (ps_next_spec p) (ps_status p)) (fun ins =>
      if negb (Z.of_nat (length ins) =? ps_nplayers p) then Panic else
      if negb (forallb (fun i => (pi_frame i =? NULL) || (pi_frame i =? ps_next_spec p)) ins) then Panic else
      let o' := if existsb (fun b => b) (ps_spectators p) then add_ssend o (ps_next_spec p) ins else o in
      spec_send_go k (with_next_spec p (ps_next_spec p + 1)) confirmed o')
  end.

Definition send_confirmed_inputs_to_spectators (p : p2p) (confirmed : Z) (o : pout) : res (p2p * pout) :=
  match ps_spectators p with
  | [] => Ok (p, o)
  | _ => spec_send_go (Z.to_nat (confirmed - ps_next_spec p + 1)) p confirmed o
  end.

Section WithPredictor.
Variable predict : Z -> Z.

(* ---------- rollback ---------- *)
Fixpoint resim_go (n : nat) (i : Z) (p : p2p) (min_confirmed : Z) (o : pout) : res (p2p * pout) :=
  match n with
  | O => Ok (p, o)
  | S k =>
    res_bind (synchronized_inputs predict (ps_sync p) (ps_status p)) (fun '(s1, ins) =>
      res_bind
        (if ps_sparse p then
           (if s_current s1 =? min_confirmed then res_bind (save_current_state s1) (fun '(s2, r) => Ok (s2, add_req o r)) else Ok (s1, o))
         else
           (if 0 <? i then res_bind (save_current_state s1) (fun '(s2, r) => Ok (s2, add_req o r)) else Ok (s1, o)))
        (fun '(s2, o2) =>
           resim_go k (i + 1) (with_sync p (advance_frame s2)) min_confirmed (add_req o2 (RAdvance ins))))
  end.

Definition adjust_gamestate (p : p2p) (first_incorrect min_confirmed : Z) (o : pout) : res (p2p * pout) :=
  let current := s_current (ps_sync p) in
  let frame_to_load := if ps_sparse p then s_last_saved (ps_sync p) else first_incorrect in
  if first_incorrect <? frame_to_load then Panic else
  let count := current - frame_to_load in
  res_bind (load_frame (ps_sync p) frame_to_load) (fun '(s1, r) =>
    let p1 := with_sync p (reset_all s1) in
    res_bind (resim_go (Z.to_nat count) 0 p1 min_confirmed (add_req o r)) (fun '(p2, o2) =>
      if negb (s_current (ps_sync p2) =? current) then Panic else Ok (p2, o2))).

Definition check_last_saved_state (p : p2p) (last_saved confirmed : Z) (o : pout) : res (p2p * pout) :=
  if s_current (ps_sync p) - last_saved <? ps_maxpred p then Ok (p, o) else
  res_bind
    (if s_current (ps_sync p) <=? confirmed then
       res_bind (save_current_state (ps_sync p)) (fun '(s1, r) => Ok (with_sync p s1, add_req o r))
     else adjust_gamestate p last_saved confirmed o)
    (fun '(p1, o1) =>
       if negb ((confirmed =? NULL) || (s_last_saved (ps_sync p1) =? Z.min confirmed (s_current (ps_sync p1)))) then Panic
       else Ok (p1, o1)).

Definition handle_rollback_and_save (p : p2p) (confirmed : Z) (o : pout) : res (p2p * pout) :=
  let fi := check_simulation_consistency (ps_sync p) (ps_disc_frame p) in
  res_bind (if fi =? NULL then Ok (p, o)
            else res_bind (adjust_gamestate p fi confirmed o) (fun '(p1, o1) => Ok (with_disc_frame p1 NULL, o1)))
    (fun '(p1, o1) =>
       let last_saved := s_last_saved (ps_sync p1) in
       if ps_sparse p1 then check_last_saved_state p1 last_saved confirmed o1
       else res_bind (save_current_state (ps_sync p1)) (fun '(s2, r) => Ok (with_sync p1 s2, add_req o1 r))).

Definition advance_rollback_frame (p : p2p) (o : pout) : res (p2p * pout) :=
  res_bind (confirmed_frame p) (fun confirmed =>
  res_bind (handle_rollback_and_save p confirmed o) (fun '(p1, o1) =>
  res_bind (send_confirmed_inputs_to_spectators p1 confirmed o1) (fun '(p2, o2) =>
  res_bind (set_last_confirmed_frame (ps_sync p2) confirmed (ps_sparse p2)) (fun s3 =>
  res_bind (register_local_inputs (with_sync p2 s3) o2) (fun '(p4, o4) =>
    let s := ps_sync p4 in
    let frames_ahead := if s_last_confirmed s =? NULL then s_current s else s_current s - s_last_confirmed s in
    if frames_ahead <? ps_maxpred p4 then
      res_bind (synchronized_inputs predict s (ps_status p4)) (fun '(s5, ins) =>
        Ok (with_pending (with_sync p4 (advance_frame s5)) [], add_req o4 (RAdvance ins)))
    else Ok (p4, o4)))))).

Definition advance_lockstep_frame (p : p2p) (o : pout) : res (p2p * pout) :=
  res_bind (register_local_inputs p o) (fun '(p1, o1) =>
  let game_frame := s_current (ps_sync p1) in
  res_bind (confirmed_frame p1) (fun cf =>
  res_bind
    (if game_frame <=? cf then
       res_bind (confirmed_inputs (ps_sync p1) game_frame (ps_status p1)) (fun pis =>
         let ins := map (fun pi => if pi_frame pi =? NULL then (pi_val pi, Disconnected) else (pi_val pi, Confirmed)) pis in
         Ok (with_pending (with_sync p1 (advance_frame (ps_sync p1))) [], add_req o1 (RAdvance ins)))
     else Ok (p1, o1))
    (fun '(p2, o2) =>
       let consumed := s_current (ps_sync p2) - 1 in
       res_bind (confirmed_frame p2) (fun cf2 =>
       let bookkeeping := Z.min cf2 consumed in
       res_bind (send_confirmed_inputs_to_spectators p2 bookkeeping o2) (fun '(p3, o3) =>
       res_bind (set_last_confirmed_frame (ps_sync p3) bookkeeping (ps_sparse p3)) (fun s4 =>
         Ok (with_sync p3 s4, o3))))))).

(* advance_frame_after_poll *)
Definition advance (p : p2p) : res (p2p * pout * apires) :=
  if negb (ps_running p) then Ok (p, out0, ANotSynchronized) else
  if negb (forallb (fun h => match assoc_get (ps_pending p) h with Some _ => true | None => false end) (local_handles p))
  then Ok (p, out0, AInvalidRequest) else
  let lockstep := ps_maxpred p =? 0 in
  res_bind (if (s_current (ps_sync p) =? 0) && negb lockstep
            then res_bind (save_current_state (ps_sync p)) (fun '(s1, r) => Ok (with_sync p s1, add_req out0 r))
            else Ok (p, out0)) (fun '(p1, o1) =>
  res_bind (update_player_disconnects p1) (fun p2 =>
  res_bind (if lockstep then advance_lockstep_frame p2 o1 else advance_rollback_frame p2 o1) (fun '(p3, o3) =>
    Ok (p3, o3, AOk)))).

End WithPredictor.

(* ---------- the other API calls and the endpoint events ---------- *)
Definition api_add_local_input (p : p2p) (h v : Z) : p2p * apires :=
  match kind_at p h with
  | Some KLocal => (with_pending p (assoc_put (ps_pending p) h (mkpi (s_current (ps_sync p)) v)), AOk)
  | _ => (p, AInvalidRequest)
  end.

Definition api_disconnect_player (p : p2p) (h : Z) : res (p2p * apires) :=
  if h <? 0 then Ok (p, AInvalidRequest) else
  match kind_at p h with
  | None => Ok (p, AInvalidRequest)
  | Some KLocal => Ok (p, AInvalidRequest)
  | Some (KRemote _) =>
      if cs_disc (stat_at p h) then Ok (p, AInvalidRequest)
      else res_bind (disconnect_player_at_frame p h (cs_last (stat_at p h))) (fun p' => Ok (p', AOk))
  | Some (KSpectator _) => res_bind (disconnect_player_at_frame p h NULL) (fun p' => Ok (p', AOk))
  end.

Definition api_set_input_delay (p : p2p) (h d : Z) : res (p2p * pout * apires) :=
  if h <? 0 then Ok (p, out0, AInvalidRequest) else
  match kind_at p h with
  | Some KLocal =>
    res_bind (set_queue_delay (ps_sync p) h d) (fun '(s1, fills) =>
      res_bind (fold_left (fun rp f => res_bind rp (fun p =>
                   if pi_frame f =? NULL then Ok p else
                   queue_outgoing (with_status p (set_stat (ps_status p) h (mkcs (cs_disc (stat_at p h)) (pi_frame f)))) h f))
                 fills (Ok (with_sync p s1))) (fun p2 =>
        res_bind (send_ready_outgoing p2 out0) (fun '(p3, o3) => Ok (p3, o3, AOk))))
  | _ => Ok (p, out0, AInvalidRequest)
  end.

(* Event::Input { input, player } *)
Definition ev_input (p : p2p) (player frame v : Z) : res p2p :=
  if negb (player <? ps_nplayers p) then Panic else
  if cs_disc (stat_at p player) then Ok p else
  let cur := cs_last (stat_at p player) in
  if negb ((cur =? NULL) || (cur + 1 =? frame)) then Panic else
  res_bind (add_remote_input (ps_sync p) player frame v) (fun s' =>
    Ok (with_status (with_sync p s') (set_stat (ps_status p) player (mkcs false frame)))).

(* Event::Disconnected of the endpoint that carries `handles` (player handles or a spectator handle) *)
Definition ev_disconnected (p : p2p) (handles : list Z) : res p2p :=
  fold_left (fun rp h => res_bind rp (fun p =>
    disconnect_player_at_frame p h (if h <? ps_nplayers p then cs_last (stat_at p h) else NULL)))
    handles (Ok p).

(* ---------- construction (P2PSession::new) ---------- *)
Definition p2p_new (nplayers maxpred : Z) (sparse : bool) (delay : Z) (kinds : list pkind)
                   (spec_handles : list (Z * Z)) (remotes : list epview) (nspectators : nat) : p2p :=
  let s0 := sync_new nplayers maxpred in
  let qs := map (fun '(h, q) => match nth_error kinds (Z.to_nat h) with
                                | Some KLocal => with_delay q delay
                                | _ => q end)
                (combine (zrange_from 0 (Z.to_nat nplayers)) (s_queues s0)) in
  mkp nplayers maxpred (with_queues s0 qs)
      (if (maxpred =? 0) && sparse then false else sparse)
      NULL
      (match remotes, nspectators with [], O => true | _, _ => false end)
      (repeat cs_default (Z.to_nat nplayers)) kinds spec_handles remotes (repeat true nspectators)
      0 [] [] NULL.

(* merge of a gossiped peer_connect_status into an endpoint's view (on_input) *)
Definition gossip (p : p2p) (ep : Z) (st : list cstat) : p2p :=
  match nth_error (ps_remotes p) (Z.to_nat ep) with
  | None => p
  | Some e =>
    let merged := map (fun '(a, b) => mkcs (cs_disc b || cs_disc a) (Z.max (cs_last a) (cs_last b)))
                      (combine (ev_status e) st) in
    with_remotes p (updz (ps_remotes p) (Z.to_nat ep) (mkev (ev_running e) merged (ev_handles e)))
  end.
