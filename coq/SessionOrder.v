(* C17 on the session core model: what is done "for every endpoint" / "for every local player" - in
   the code an iteration over a HashMap - does not depend on the order of the iteration.
   Here: the Disconnected events of two different endpoints handled in either order give the same
   session state (after repair e6b12d3; before it the pending disconnect frame was the last one
   handled: SessionOrder.disconnect_order_mattered_refuted). *)
From GGRS Require Import Base Consts Queue Sync P2P Session.
From Coq Require Import ZifyBool ZifyNat ZifyN.
Open Scope Z_scope.

(* marking the players of an endpoint as disconnected, as a pointwise map *)
Definition mark (hs : list Z) (st : list cstat) : list cstat :=
  fold_left (fun st h' => set_stat st h' (mkcs true (cs_last (nth (Z.to_nat h') st cs_default)))) hs st.

Lemma updz_len {A} : forall (l : list A) i x, length (updz l i x) = length l.
Proof. induction l as [|y r IH]; intros [|k] x; cbn; auto. Qed.
Lemma nth_updz {A} : forall (l : list A) i j x d, nth j (updz l i x) d = if (Nat.eqb i j && Nat.ltb i (length l))%bool then x else nth j l d.
Proof.
  induction l as [|y r IH]; intros [|i] [|j] x d; cbn [updz nth length Nat.eqb Nat.ltb Nat.leb andb]; try reflexivity.
  - destruct (Nat.eqb i j); reflexivity.
  - rewrite IH. reflexivity.
Qed.

Lemma mark_len : forall hs st, length (mark hs st) = length st.
Proof. induction hs as [|h hs IH]; intros st; cbn [mark fold_left]; [reflexivity|]. unfold mark in IH. rewrite IH. unfold set_stat. apply updz_len. Qed.

Definition hit (hs : list Z) (j : nat) : bool := existsb (fun h => Nat.eqb (Z.to_nat h) j) hs.

Lemma mark_nth : forall hs st j, (j < length st)%nat ->
  nth j (mark hs st) cs_default = if hit hs j then mkcs true (cs_last (nth j st cs_default)) else nth j st cs_default.
Proof.
  induction hs as [|h hs IH]; intros st j Hj; cbn [mark fold_left hit existsb]; [reflexivity|].
  fold (mark hs (set_stat st h (mkcs true (cs_last (nth (Z.to_nat h) st cs_default))))).
  rewrite IH by (unfold set_stat; rewrite updz_len; exact Hj).
  unfold set_stat. rewrite nth_updz. fold (hit hs j).
  destruct (Nat.eqb_spec (Z.to_nat h) j) as [E|E]; cbn [orb andb].
  - subst j. assert (Nat.ltb (Z.to_nat h) (length st) = true) as -> by (apply Nat.ltb_lt; exact Hj).
    cbn [cs_last]. destruct (hit hs (Z.to_nat h)); reflexivity.
  - reflexivity.
Qed.

Lemma mark_comm : forall hs1 hs2 st, mark hs2 (mark hs1 st) = mark hs1 (mark hs2 st).
Proof.
  intros hs1 hs2 st. apply (nth_ext _ _ cs_default cs_default); [rewrite !mark_len; reflexivity|].
  intros j Hj. rewrite !mark_len in Hj.
  rewrite !mark_nth by (rewrite ?mark_len; exact Hj).
  destruct (hit hs1 j), (hit hs2 j); cbn [cs_last]; reflexivity.
Qed.

Lemma mark_last : forall hs st h, cs_last (nth h (mark hs st) cs_default) = cs_last (nth h st cs_default).
Proof.
  intros hs st h. destruct (Nat.lt_ge_cases h (length st)) as [Hl|Hl].
  - rewrite mark_nth by exact Hl. destruct (hit hs h); reflexivity.
  - rewrite !nth_overflow by (rewrite ?mark_len; lia). reflexivity.
Qed.

Lemma updz_comm {A} : forall (l : list A) i j x y, i <> j -> updz (updz l i x) j y = updz (updz l j y) i x.
Proof.
  induction l as [|a l IH]; intros [|i] [|j] x y H; cbn [updz]; try reflexivity; try congruence.
  rewrite IH by congruence. reflexivity.
Qed.
Lemma nth_error_updz_ne {A} : forall (l : list A) i j x, i <> j -> nth_error (updz l i x) j = nth_error l j.
Proof. induction l as [|y l IH]; intros [|i] [|j] x H; cbn; auto; try congruence. Qed.

Lemma nth_error_updz_eq {A} : forall (l : list A) i x y, nth_error l i = Some y -> nth_error (updz l i x) i = Some x.
Proof. induction l as [|a l IH]; intros [|i] x y H; cbn in *; try discriminate; [reflexivity|eapply IH; exact H]. Qed.

(* the pending disconnect frame keeps the earliest *)
Definition keep_min (a x : Z) : Z := if a =? NULL then x else Z.min a x.
Lemma keep_min_comm : forall a x y, 0 <= x -> 0 <= y -> keep_min (keep_min a x) y = keep_min (keep_min a y) x.
Proof. intros a x y Hx Hy. unfold keep_min, NULL. destruct (Z.eqb_spec a (-1)); destruct (Z.eqb_spec x (-1)); destruct (Z.eqb_spec y (-1)); try lia;
  repeat match goal with |- context [?u =? -1] => destruct (Z.eqb_spec u (-1)) end; lia. Qed.

(* the drop of one remote endpoint (what disconnect_player_at_frame does for any of its handles) *)
Definition drop_ep (ep : nat) (e : epview) (lf : Z) (p : p2p) : p2p :=
  let p1 := with_remotes (with_status p (mark (ev_handles e) (ps_status p)))
                         (updz (ps_remotes p) ep (mkev false (ev_status e) (ev_handles e))) in
  if lf + 1 <? s_current (ps_sync p) then with_disc_frame p1 (keep_min (ps_disc_frame p) (lf + 1)) else p1.

Lemma disconnect_is_drop : forall p h lf ep e,
  kind_at p h = Some (KRemote ep) -> nth_error (ps_remotes p) (Z.to_nat ep) = Some e ->
  disconnect_player_at_frame p h lf = Ok (drop_ep (Z.to_nat ep) e lf p).
Proof.
  intros p h lf ep e Hk He. unfold disconnect_player_at_frame, drop_ep. rewrite Hk, He. unfold mark, keep_min. reflexivity.
Qed.

(* ORDER INDEPENDENCE: two different endpoints dropped in either order *)
Theorem drop_two_endpoints_commute : forall p ep1 ep2 e1 e2 lf1 lf2,
  ep1 <> ep2 -> nth_error (ps_remotes p) ep1 = Some e1 -> nth_error (ps_remotes p) ep2 = Some e2 ->
  0 <= lf1 + 1 -> 0 <= lf2 + 1 ->
  drop_ep ep2 e2 lf2 (drop_ep ep1 e1 lf1 p) = drop_ep ep1 e1 lf1 (drop_ep ep2 e2 lf2 p).
Proof.
  intros p ep1 ep2 e1 e2 lf1 lf2 Hne H1 H2 Hl1 Hl2. unfold drop_ep.
  destruct (lf1 + 1 <? s_current (ps_sync p)) eqn:E1; destruct (lf2 + 1 <? s_current (ps_sync p)) eqn:E2;
    cbn [with_disc_frame with_remotes with_status ps_sync ps_status ps_remotes ps_disc_frame s_current];
    rewrite ?E1, ?E2; cbn [with_disc_frame with_remotes with_status ps_sync ps_status ps_remotes ps_disc_frame
                            ps_nplayers ps_maxpred ps_sparse ps_running ps_kinds ps_spec_handles ps_spectators ps_next_spec ps_pending ps_outgoing ps_last_sent_out];
    rewrite (mark_comm (ev_handles e1) (ev_handles e2)), (updz_comm (ps_remotes p) ep1 ep2) by exact Hne;
    try rewrite (keep_min_comm (ps_disc_frame p) (lf1 + 1) (lf2 + 1)) by lia; reflexivity.
Qed.

(* ---------- lifted to the Disconnected events of two endpoints ---------- *)
Definition drops (ep : nat) (lfs : list Z) (p : p2p) : p2p :=
  fold_left (fun p lf => match nth_error (ps_remotes p) ep with Some e => drop_ep ep e lf p | None => p end) lfs p.

Lemma drop_ep_fields : forall ep e lf p,
  ps_nplayers (drop_ep ep e lf p) = ps_nplayers p /\ ps_kinds (drop_ep ep e lf p) = ps_kinds p /\
  ps_spec_handles (drop_ep ep e lf p) = ps_spec_handles p /\ ps_sync (drop_ep ep e lf p) = ps_sync p /\
  ps_remotes (drop_ep ep e lf p) = updz (ps_remotes p) ep (mkev false (ev_status e) (ev_handles e)) /\
  ps_status (drop_ep ep e lf p) = mark (ev_handles e) (ps_status p).
Proof. intros. unfold drop_ep. destruct (_ <? _); cbn; repeat split. Qed.

Lemma kind_at_drop : forall ep e lf p h, kind_at (drop_ep ep e lf p) h = kind_at p h.
Proof.
  intros. destruct (drop_ep_fields ep e lf p) as (A & B & C & _). unfold kind_at. rewrite A, B, C. reflexivity.
Qed.

Lemma ev_disconnected_is_drops : forall hs p ep e,
  (forall h, In h hs -> kind_at p h = Some (KRemote (Z.of_nat ep))) ->
  nth_error (ps_remotes p) ep = Some e ->
  ev_disconnected p hs = Ok (drops ep (map (fun h => cs_last (stat_at p h)) hs) p).
Proof.
  induction hs as [|h hs IH]; intros p ep e Hk He; [reflexivity|].
  unfold ev_disconnected. cbn [fold_left]. cbn [res_bind].
  assert (Hkh : kind_at p h = Some (KRemote (Z.of_nat ep))) by (apply Hk; left; reflexivity).
  assert (Hlt : (h <? ps_nplayers p) = true).
  { unfold kind_at in Hkh. destruct (h <? 0); [discriminate|]. destruct (h <? ps_nplayers p); [reflexivity|].
    destruct ((fix find (l : list (Z * Z)) := match l with [] => None | (k, e0) :: r => if k =? h then Some e0 else find r end) (ps_spec_handles p)); discriminate. }
  rewrite Hlt. rewrite (disconnect_is_drop p h _ (Z.of_nat ep) e Hkh) by (rewrite Nat2Z.id; exact He). rewrite Nat2Z.id.
  set (p1 := drop_ep ep e (cs_last (stat_at p h)) p).
  destruct (drop_ep_fields ep e (cs_last (stat_at p h)) p) as (F1 & F2 & F3 & F4 & F5 & F6). fold p1 in F1, F2, F3, F4, F5, F6.
  assert (He1 : nth_error (ps_remotes p1) ep = Some (mkev false (ev_status e) (ev_handles e))).
  { rewrite F5. eapply nth_error_updz_eq. exact He. }
  fold (ev_disconnected p1 hs).
  change (fold_left _ hs (Ok p1)) with (ev_disconnected p1 hs).
  rewrite (IH p1 ep _ (fun h0 Hin => eq_trans (kind_at_drop ep e _ p h0) (Hk h0 (or_intror Hin))) He1).
  cbn [map drops fold_left]. rewrite He. fold p1. f_equal. unfold drops. f_equal.
  apply map_ext. intros h0. unfold stat_at. rewrite F6. apply mark_last.
Qed.

Lemma drops_fields : forall lfs ep p e, nth_error (ps_remotes p) ep = Some e ->
  ps_sync (drops ep lfs p) = ps_sync p /\ length (ps_remotes (drops ep lfs p)) = length (ps_remotes p) /\
  (forall ep', ep' <> ep -> nth_error (ps_remotes (drops ep lfs p)) ep' = nth_error (ps_remotes p) ep') /\
  (exists e', nth_error (ps_remotes (drops ep lfs p)) ep = Some e').
Proof.
  induction lfs as [|lf lfs IH]; intros ep p e He; cbn [drops fold_left].
  - repeat split. eauto.
  - rewrite He. fold (drops ep lfs (drop_ep ep e lf p)).
    destruct (drop_ep_fields ep e lf p) as (_ & _ & _ & F4 & F5 & _).
    assert (He1 : nth_error (ps_remotes (drop_ep ep e lf p)) ep = Some (mkev false (ev_status e) (ev_handles e))).
    { rewrite F5. eapply nth_error_updz_eq. exact He. }
    destruct (IH ep _ _ He1) as (A & B & C & D).
    split; [congruence|]. split; [rewrite B, F5, updz_len; reflexivity|]. split; [|exact D].
    intros ep' Hne. rewrite (C ep' Hne), F5. apply nth_error_updz_ne. congruence.
Qed.

Lemma drop_drops_commute : forall lfs2 ep1 ep2 e1 lf1 p e2,
  ep1 <> ep2 -> nth_error (ps_remotes p) ep1 = Some e1 -> nth_error (ps_remotes p) ep2 = Some e2 ->
  0 <= lf1 + 1 -> Forall (fun lf => 0 <= lf + 1) lfs2 ->
  drops ep2 lfs2 (drop_ep ep1 e1 lf1 p) = drop_ep ep1 e1 lf1 (drops ep2 lfs2 p).
Proof.
  induction lfs2 as [|lf2 lfs2 IH]; intros ep1 ep2 e1 lf1 p e2 Hne H1 H2 Hl1 Hl2; [reflexivity|].
  inversion Hl2 as [|? ? Hh Ht]; subst. cbn [drops fold_left].
  destruct (drop_ep_fields ep1 e1 lf1 p) as (_ & _ & _ & _ & F5 & _).
  assert (H2' : nth_error (ps_remotes (drop_ep ep1 e1 lf1 p)) ep2 = Some e2) by (rewrite F5, nth_error_updz_ne by exact Hne; exact H2).
  rewrite H2', H2. fold (drops ep2 lfs2 (drop_ep ep2 e2 lf2 (drop_ep ep1 e1 lf1 p))). fold (drops ep2 lfs2 (drop_ep ep2 e2 lf2 p)).
  rewrite (drop_two_endpoints_commute p ep1 ep2 e1 e2 lf1 lf2 Hne H1 H2 Hl1 Hh).
  destruct (drop_ep_fields ep2 e2 lf2 p) as (_ & _ & _ & _ & G5 & _).
  apply (IH ep1 ep2 e1 lf1 _ (mkev false (ev_status e2) (ev_handles e2))); try assumption.
  - rewrite G5, nth_error_updz_ne by congruence. exact H1.
  - rewrite G5. eapply nth_error_updz_eq. exact H2.
Qed.

Lemma drops_commute : forall lfs1 lfs2 ep1 ep2 p e1 e2,
  ep1 <> ep2 -> nth_error (ps_remotes p) ep1 = Some e1 -> nth_error (ps_remotes p) ep2 = Some e2 ->
  Forall (fun lf => 0 <= lf + 1) lfs1 -> Forall (fun lf => 0 <= lf + 1) lfs2 ->
  drops ep2 lfs2 (drops ep1 lfs1 p) = drops ep1 lfs1 (drops ep2 lfs2 p).
Proof.
  induction lfs1 as [|lf1 lfs1 IH]; intros lfs2 ep1 ep2 p e1 e2 Hne H1 H2 Hl1 Hl2; [reflexivity|].
  inversion Hl1 as [|? ? Hh Ht]; subst. cbn [drops fold_left]. rewrite H1.
  fold (drops ep1 lfs1 (drop_ep ep1 e1 lf1 p)).
  destruct (drops_fields lfs2 ep2 p e2 H2) as (_ & _ & C & _).
  rewrite (C ep1 Hne), H1. fold (drops ep1 lfs1 (drop_ep ep1 e1 lf1 (drops ep2 lfs2 p))).
  rewrite <- (drop_drops_commute lfs2 ep1 ep2 e1 lf1 p e2 Hne H1 H2 Hh Hl2).
  destruct (drop_ep_fields ep1 e1 lf1 p) as (_ & _ & _ & _ & F5 & _).
  apply (IH lfs2 ep1 ep2 _ (mkev false (ev_status e1) (ev_handles e1)) e2); try assumption.
  - rewrite F5. eapply nth_error_updz_eq. exact H1.
  - rewrite F5, nth_error_updz_ne by exact Hne. exact H2.
Qed.

(* the Disconnected events of two different remote endpoints, handled in either order, leave the same
   session state *)
Theorem disconnected_events_commute : forall p hs1 hs2 ep1 ep2 e1 e2,
  ep1 <> ep2 -> nth_error (ps_remotes p) ep1 = Some e1 -> nth_error (ps_remotes p) ep2 = Some e2 ->
  (forall h, In h hs1 -> kind_at p h = Some (KRemote (Z.of_nat ep1))) ->
  (forall h, In h hs2 -> kind_at p h = Some (KRemote (Z.of_nat ep2))) ->
  Forall (fun c => -1 <= cs_last c) (ps_status p) ->
  res_bind (ev_disconnected p hs1) (fun p1 => ev_disconnected p1 hs2) =
  res_bind (ev_disconnected p hs2) (fun p2 => ev_disconnected p2 hs1).
Proof.
  intros p hs1 hs2 ep1 ep2 e1 e2 Hne H1 H2 K1 K2 Hst.
  assert (Hlf : forall hs, Forall (fun lf => 0 <= lf + 1) (map (fun h => cs_last (stat_at p h)) hs)).
  { intros hs. apply Forall_forall. intros lf Hin. apply in_map_iff in Hin. destruct Hin as (h & <- & _).
    unfold stat_at. destruct (Nat.lt_ge_cases (Z.to_nat h) (length (ps_status p))) as [Hl|Hl].
    - rewrite Forall_forall in Hst. pose proof (Hst _ (nth_In _ cs_default Hl)). lia.
    - rewrite nth_overflow by lia. cbn. unfold NULL. lia. }
  rewrite (ev_disconnected_is_drops hs1 p ep1 e1 K1 H1), (ev_disconnected_is_drops hs2 p ep2 e2 K2 H2). cbn [res_bind].
  set (l1 := map (fun h => cs_last (stat_at p h)) hs1). set (l2 := map (fun h => cs_last (stat_at p h)) hs2).
  (* the second event reads the statuses of the state after the first: the last frames are unchanged *)
  assert (Hsame : forall ep e lfs q hs, nth_error (ps_remotes q) ep = Some e ->
            map (fun h => cs_last (stat_at (drops ep lfs q) h)) hs = map (fun h => cs_last (stat_at q h)) hs).
  { intros ep e lfs. revert e. induction lfs as [|lf lfs IH]; intros e q hs He; [reflexivity|].
    cbn [drops fold_left]. rewrite He. fold (drops ep lfs (drop_ep ep e lf q)).
    destruct (drop_ep_fields ep e lf q) as (_ & _ & _ & _ & F5 & F6).
    erewrite IH.
    - apply map_ext. intros h. unfold stat_at. rewrite F6. apply mark_last.
    - rewrite F5. eapply nth_error_updz_eq. exact He. }
  assert (Hkind : forall ep e lfs q h, nth_error (ps_remotes q) ep = Some e -> kind_at (drops ep lfs q) h = kind_at q h).
  { intros ep e lfs. revert e. induction lfs as [|lf lfs IH]; intros e q h He; [reflexivity|].
    cbn [drops fold_left]. rewrite He. fold (drops ep lfs (drop_ep ep e lf q)).
    destruct (drop_ep_fields ep e lf q) as (_ & _ & _ & _ & F5 & _).
    erewrite IH; [apply kind_at_drop|].
    rewrite F5. eapply nth_error_updz_eq. exact He. }
  destruct (drops_fields l1 ep1 p e1 H1) as (_ & _ & C1 & _). destruct (drops_fields l2 ep2 p e2 H2) as (_ & _ & C2 & _).
  rewrite (ev_disconnected_is_drops hs2 (drops ep1 l1 p) ep2 e2) by
    (first [intros h Hin; rewrite (Hkind ep1 e1 l1 p h H1); apply K2; exact Hin | rewrite (C1 ep2 (not_eq_sym Hne)); exact H2]).
  rewrite (ev_disconnected_is_drops hs1 (drops ep2 l2 p) ep1 e1) by
    (first [intros h Hin; rewrite (Hkind ep2 e2 l2 p h H2); apply K1; exact Hin | rewrite (C2 ep1 Hne); exact H1]).
  rewrite (Hsame ep1 e1 l1 p hs2 H1), (Hsame ep2 e2 l2 p hs1 H2). fold l1 l2. f_equal.
  apply (drops_commute l1 l2 ep1 ep2 p e1 e2 Hne H1 H2 (Hlf hs1) (Hlf hs2)).
Qed.

(* before repair e6b12d3 the pending disconnect frame was overwritten: the order mattered *)
Definition drop_ep_old (ep : nat) (e : epview) (lf : Z) (p : p2p) : p2p :=
  let p1 := with_remotes (with_status p (mark (ev_handles e) (ps_status p)))
                         (updz (ps_remotes p) ep (mkev false (ev_status e) (ev_handles e))) in
  if lf + 1 <? s_current (ps_sync p) then with_disc_frame p1 (lf + 1) else p1.
Theorem disconnect_order_mattered_refuted :
  exists p e1 e2, nth_error (ps_remotes p) 0 = Some e1 /\ nth_error (ps_remotes p) 1 = Some e2 /\
    ps_disc_frame (drop_ep_old 1 e2 3 (drop_ep_old 0 e1 1 p)) = 4 /\
    ps_disc_frame (drop_ep_old 0 e1 1 (drop_ep_old 1 e2 3 p)) = 2.
Proof.
  exists (with_sync (session_start 3 8 false 0 [KLocal; KRemote 0; KRemote 1] [[1]; [2]] 0)
            (with_current (ps_sync (session_start 3 8 false 0 [KLocal; KRemote 0; KRemote 1] [[1]; [2]] 0)) 6)).
  eexists. eexists. split; [reflexivity|]. split; [reflexivity|]. split; vm_compute; reflexivity.
Qed.

(* ---------- Input events of two different players ---------- *)
(* ev_input as a local update of one status entry and one queue *)
Definition input_effect (p : p2p) (pl f v : Z) : res (option (queue * cstat)) :=
  if negb (pl <? ps_nplayers p) then Panic else
  if cs_disc (stat_at p pl) then Ok None else
  let cur := cs_last (stat_at p pl) in
  if negb ((cur =? NULL) || (cur + 1 =? f)) then Panic else
  if (pl <? 0) || (Z.of_nat (length (s_queues (ps_sync p))) <=? pl) then Panic else
  res_bind (add_input (qnth (ps_sync p) pl) f v) (fun '(q', _) => Ok (Some (q', mkcs false f))).

Definition apply_effect (p : p2p) (pl : Z) (e : option (queue * cstat)) : p2p :=
  match e with
  | None => p
  | Some (q', st') => with_status (with_sync p (with_queues (ps_sync p) (updz (s_queues (ps_sync p)) (Z.to_nat pl) q')))
                                  (set_stat (ps_status p) pl st')
  end.

Lemma ev_input_effect : forall p pl f v,
  ev_input p pl f v = res_bind (input_effect p pl f v) (fun e => Ok (apply_effect p pl e)).
Proof.
  intros p pl f v. unfold ev_input, input_effect, add_remote_input.
  destruct (negb (pl <? ps_nplayers p)); [reflexivity|]. destruct (cs_disc (stat_at p pl)); [reflexivity|].
  destruct (negb _); [reflexivity|]. destruct ((pl <? 0) || _); [reflexivity|].
  destruct (add_input (qnth (ps_sync p) pl) f v) as [[q' r]| |]; reflexivity.
Qed.

Lemma effect_indep : forall p pl1 pl2 e f v, 0 <= pl1 -> 0 <= pl2 -> pl1 <> pl2 ->
  input_effect (apply_effect p pl1 e) pl2 f v = input_effect p pl2 f v.
Proof.
  intros p pl1 pl2 e f v H1 H2 Hne. destruct e as [[q' st']|]; [|reflexivity].
  unfold input_effect, apply_effect, stat_at, qnth, set_stat.
  cbn [with_status with_sync with_queues ps_nplayers ps_status ps_sync s_queues].
  rewrite !nth_updz, updz_len.
  assert (Nat.eqb (Z.to_nat pl1) (Z.to_nat pl2) = false) as -> by (apply Nat.eqb_neq; lia). cbn [andb]. reflexivity.
Qed.

Lemma apply_comm : forall p pl1 pl2 e1 e2, 0 <= pl1 -> 0 <= pl2 -> pl1 <> pl2 ->
  apply_effect (apply_effect p pl1 e1) pl2 e2 = apply_effect (apply_effect p pl2 e2) pl1 e1.
Proof.
  intros p pl1 pl2 e1 e2 H1 H2 Hne. destruct e1 as [[q1 s1]|], e2 as [[q2 s2]|]; try reflexivity.
  unfold apply_effect, set_stat. cbn [with_status with_sync with_queues ps_status ps_sync s_queues
    ps_nplayers ps_maxpred ps_sparse ps_disc_frame ps_running ps_kinds ps_spec_handles ps_remotes ps_spectators ps_next_spec ps_pending ps_outgoing ps_last_sent_out
    s_maxpred s_cells s_last_confirmed s_last_saved s_current].
  rewrite (updz_comm (s_queues (ps_sync p)) (Z.to_nat pl1) (Z.to_nat pl2)) by lia.
  rewrite (updz_comm (ps_status p) (Z.to_nat pl1) (Z.to_nat pl2)) by lia. reflexivity.
Qed.

(* the Input events of two different players, handled in either order, give the same result - the same
   session state, or a failure in both orders *)
Theorem input_events_commute : forall p pl1 f1 v1 pl2 f2 v2, 0 <= pl1 -> 0 <= pl2 -> pl1 <> pl2 ->
  (forall a b, res_bind (ev_input p pl1 f1 v1) (fun q => ev_input q pl2 f2 v2) = Ok a ->
               res_bind (ev_input p pl2 f2 v2) (fun q => ev_input q pl1 f1 v1) = Ok b -> a = b) /\
  ((exists a, res_bind (ev_input p pl1 f1 v1) (fun q => ev_input q pl2 f2 v2) = Ok a) <->
   (exists b, res_bind (ev_input p pl2 f2 v2) (fun q => ev_input q pl1 f1 v1) = Ok b)).
Proof.
  intros p pl1 f1 v1 pl2 f2 v2 H1 H2 Hne.
  rewrite !ev_input_effect.
  destruct (input_effect p pl1 f1 v1) as [e1| |] eqn:E1; destruct (input_effect p pl2 f2 v2) as [e2| |] eqn:E2; cbn [res_bind];
    rewrite ?ev_input_effect, ?effect_indep by (assumption || congruence); rewrite ?E1, ?E2; cbn [res_bind];
    (split; [intros a b A B; try discriminate|split; intros (x & X); try discriminate; eauto]).
  injection A as <-. injection B as <-. apply apply_comm; assumption.
Qed.
