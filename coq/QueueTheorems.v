(* Operation-sequence theorems about the InputQueue model:
   - a local player's queue under add / set_frame_delay / discard / input (C11, queue level)
   - a remote player's queue under add / input / reset / discard with a predictor (C03, queue level) *)
From GGRS Require Import Base Consts Queue QueueProofs.
From Coq Require Import ZifyBool ZifyNat ZifyN.
Ltac Zify.zify_post_hook ::= Z.div_mod_to_equations.
Open Scope Z_scope.

(* ================= local queue ================= *)
Inductive lop := LAdd (v : Z) | LDelay (d : Z) | LDiscard (f : Z) | LInput (f : Z).

Record lstate := mkls {
  ls_q : queue;
  ls_uf : Z;                    (* next user frame = the session's current frame *)
  ls_sent : list pinput;        (* what the session hands to the remotes, in order *)
  ls_used : list pinput }.      (* what the owner's own simulation was given *)

Definition ls_init : lstate := mkls q_new 0 [] [].

Definition tail_frame_of (q : queue) : Z := pi_frame (slot (q_inputs q) (q_tail q)).

(* blanks the session sends before a player's first input (frames 0 .. r-1) *)
Definition blanks (r : Z) : list pinput := fill_list 0 0 (Z.to_nat r).

Lemma tail_frame_of_inv : forall q hist low, RInv q hist low ->
  (if q_last_added q =? NULL then 0 else tail_frame_of q) = low.
Proof.
  intros q hist low I. unfold tail_frame_of. rewrite (tail_frame _ _ _ I), (ri_last _ _ _ I).
  destruct (ri_low _ _ _ I) as (L0 & L1 & L2). pose proof (hlen_nonneg hist).
  destruct (Z.eqb_spec (hlen hist) 0) as [E|E].
  - zbool. symmetry. apply L2. apply hlen_zero. exact E.
  - zbool. reflexivity.
Qed.

Section Local.
Variable predict : Z -> Z.
Variable MAXD : Z.   (* bound on delays considered: the property's "practical range" *)

(* Err = the operation is outside the claimed space (a precondition the session guarantees
   fails); Panic = an assert! of the code fires *)
Definition lstep (s : lstate) (o : lop) : res lstate :=
  let q := ls_q s in
  match o with
  | LAdd v =>
      (* the ring must have room for the frames this submission inserts *)
      if QLEN <? Z.max (q_last_added q + 1) (ls_uf s + q_delay q + 1) - (if q_last_added q =? NULL then 0 else tail_frame_of q)
      then Err else
      res_bind (add_input q (ls_uf s) v) (fun '(q', r) =>
        let out := if r =? NULL then [] else (if ls_sent s then blanks r else []) ++ [mkpi r v] in
        Ok (mkls q' (ls_uf s + 1) (ls_sent s ++ out) (ls_used s)))
  | LDelay d =>
      if (d <? 0) || (MAXD <? d) then Err else
      if QLEN <? Z.max (q_last_added q + 1) (q_last_user q + d + 1) - (if q_last_added q =? NULL then 0 else tail_frame_of q)
      then Err else
      res_bind (set_frame_delay q d) (fun '(q', fills) =>
        Ok (mkls q' (ls_uf s) (ls_sent s ++ fills) (ls_used s)))
  | LDiscard f =>
      if q_last_added q <=? f then Err else
      Ok (mkls (discard_confirmed_frames q f) (ls_uf s) (ls_sent s) (ls_used s))
  | LInput f =>
      if (f <? tail_frame_of q) || (q_last_added q <? f) || (f <? 0) then Err else
      res_bind (input predict q f) (fun '(q', (v, _)) =>
        Ok (mkls q' (ls_uf s) (ls_sent s) (ls_used s ++ [mkpi f v])))
  end.

Fixpoint lrun (s : lstate) (ops : list lop) : res lstate :=
  match ops with
  | [] => Ok s
  | o :: r => res_bind (lstep s o) (fun s' => lrun s' r)
  end.

(* frames 0 .. n-1 with the values of hist *)
Definition stream (hist : list Z) : list pinput :=
  map (fun i => mkpi (Z.of_nat i) (nth i hist 0)) (seq 0 (length hist)).

Record LInv (s : lstate) (hist : list Z) (low : Z) : Prop := {
  li_ring : RInv (ls_q s) hist low;
  li_pred : pi_frame (q_pred (ls_q s)) = NULL;
  li_fi : q_first_incorrect (ls_q s) = NULL;
  li_delay : 0 <= q_delay (ls_q s);
  li_user : (q_last_user (ls_q s) = NULL /\ ls_uf s = 0 /\ hist = []) \/
            (q_last_user (ls_q s) = ls_uf s - 1 /\ 0 < ls_uf s);
  li_full : hist <> [] -> ls_uf s + q_delay (ls_q s) <= hlen hist;
  li_sent : ls_sent s = stream hist;
  li_used : forall u, In u (ls_used s) -> In u (ls_sent s);
}.


Lemma fill_list_spec : forall n v from, fill_list v from n = map (fun i => mkpi (from + Z.of_nat i) v) (seq 0 n).
Proof.
  induction n as [|k IH]; intros v from; [reflexivity|].
  cbn [fill_list seq map]. rewrite Z.add_0_r. f_equal. rewrite IH.
  rewrite <- seq_shift, map_map. apply map_ext. intro i. f_equal. lia.
Qed.

Lemma seq_from : forall n a, seq a n = map (fun i => (a + i)%nat) (seq 0 n).
Proof.
  induction n as [|k IH]; intro a; [reflexivity|].
  cbn [seq map]. f_equal; [lia|]. rewrite (IH (S a)), (IH 1%nat), map_map.
  apply map_ext. intro i. lia.
Qed.

Lemma stream_app : forall hist l,
  stream (hist ++ l) = stream hist ++ map (fun i => mkpi (hlen hist + Z.of_nat i) (nth i l 0)) (seq 0 (length l)).
Proof.
  intros hist l. unfold stream. rewrite app_length, seq_app, map_app. f_equal.
  - apply map_ext_in. intros i Hi. apply in_seq in Hi. f_equal. apply app_nth1. lia.
  - cbn [plus]. rewrite (seq_from (length l) (length hist)), map_map.
    apply map_ext. intro i. unfold hlen. f_equal; [lia|].
    rewrite app_nth2 by lia. f_equal. lia.
Qed.

Lemma nth_repeat_in : forall (v : Z) n i, (i < n)%nat -> nth i (repeat v n) 0 = v.
Proof. induction n as [|k IH]; intros [|i] Hi; cbn in *; try lia; auto. apply IH. lia. Qed.

Lemma stream_app_repeat : forall hist v n,
  stream (hist ++ repeat v n) = stream hist ++ fill_list v (hlen hist) n.
Proof.
  intros hist v n. rewrite stream_app, fill_list_spec, repeat_length.
  f_equal. apply map_ext_in. intros i Hi. apply in_seq in Hi. f_equal.
  apply nth_repeat_in. lia.
Qed.

Lemma stream_snoc : forall hist v, stream (hist ++ [v]) = stream hist ++ [mkpi (hlen hist) v].
Proof.
  intros hist v. rewrite stream_app. cbn [length seq map nth]. rewrite Z.add_0_r. reflexivity.
Qed.


Lemma stream_nil_iff : forall hist, stream hist = [] <-> hist = [].
Proof.
  intro hist. unfold stream. destruct hist; cbn; split; intro H; try reflexivity; discriminate.
Qed.

Lemma stream_in : forall hist f, 0 <= f < hlen hist -> In (mkpi f (hval hist f)) (stream hist).
Proof.
  intros hist f Hf. unfold stream. apply in_map_iff. exists (Z.to_nat f). split.
  - unfold hval. f_equal. lia.
  - apply in_seq. unfold hlen in Hf. lia.
Qed.

Lemma LInv_init : LInv ls_init [] 0.
Proof.
  constructor; unfold ls_init, q_new;
    cbn [ls_q ls_uf ls_sent ls_used q_pred q_first_incorrect q_delay q_last_user pi_frame blank].
  - apply RInv_new.
  - reflexivity.
  - reflexivity.
  - lia.
  - left. auto.
  - congruence.
  - reflexivity.
  - intros u [].
Qed.

Lemma lstep_inv : forall s hist low o,
  LInv s hist low ->
  lstep s o <> Panic /\
  forall s', lstep s o = Ok s' -> exists hist' low', LInv s' hist' low' /\ exists ext, hist' = hist ++ ext.
Proof.
  intros s hist low o [I Hp Hfi Hd Hu Hfull Hsent Hused].
  pose proof QLEN_pos as HQ. pose proof (hlen_nonneg hist) as Hnn.
  pose proof (ri_last _ _ _ I) as Hla.
  destruct (ri_low _ _ _ I) as (L0 & L1 & L2).
  destruct o as [v|d|f|f]; unfold lstep.
  - (* LAdd *)
    rewrite (tail_frame_of_inv _ _ _ I), Hla.
    replace (hlen hist - 1 + 1) with (hlen hist) by lia.
    set (t := ls_uf s + q_delay (ls_q s)).
    destruct (Z.ltb_spec QLEN (Z.max (hlen hist) (t + 1) - low)) as [Hc|Hc]; [split; [discriminate|intros; discriminate]|].
    assert (Hseq : q_last_user (ls_q s) = NULL \/ ls_uf s = q_last_user (ls_q s) + 1) by (destruct Hu as [(A & _)|(A & _)]; [left; exact A|right; lia]).
    assert (Huf : 0 <= ls_uf s) by (destruct Hu as [(_ & A & _)|(_ & A)]; lia).
    destruct (add_input_ok (ls_q s) hist low (ls_uf s) v I Hp Hd Hseq Huf) as [Hdrop Hacc]. fold t in Hdrop, Hacc.
    destruct (Z.lt_ge_cases t (hlen hist)) as [Hlt|Hge].
    + rewrite (Hdrop Hlt). cbn [res_bind]. zbool. split; [discriminate|].
      intros s' E. inversion E; subst s'. clear E. rewrite app_nil_r.
      exists hist, low. split; [|exists []; rewrite app_nil_r; reflexivity].
      constructor; cbn [ls_q ls_uf ls_sent ls_used set_last_user q_pred q_first_incorrect q_delay q_last_user]; auto.
      * eapply RInv_ext; [exact I|reflexivity..].
      * right. lia.
      * intros _. fold t. lia.
    + destruct (Hacc Hge ltac:(lia)) as (q' & E & I' & D' & U' & R' & F' & P').
      rewrite E. cbn [res_bind]. assert ((t =? NULL) = false) as -> by (unfold NULL; lia).
      split; [discriminate|]. intros s' Es. inversion Es; subst s'. clear Es.
      set (hist' := hist ++ repeat (hlast hist) (Z.to_nat (t - hlen hist)) ++ [v]) in *.
      exists hist', low. split; [|eexists; reflexivity].
      constructor; cbn [ls_q ls_uf ls_sent ls_used].
      * exact I'.
      * congruence.
      * congruence.
      * rewrite D'. exact Hd.
      * right. rewrite U'. lia.
      * intros _. rewrite D'. subst hist'. rewrite (app_assoc hist (repeat _ _) [v]), hlen_app, hlen_repeat. fold t. lia.
      * (* what is handed to the remotes is exactly the stream *)
        subst hist'. rewrite (app_assoc hist (repeat _ _) [v]), stream_snoc, stream_app_repeat, hlen_repeat, Hsent.
        destruct hist as [|h0 hr] eqn:Eh.
        -- cbn [stream length seq map]. unfold blanks, hlast, hlen. cbn [length Z.of_nat last app].
           rewrite Z.sub_0_r. repeat f_equal; lia.
        -- rewrite <- Eh in *. assert (Hne : hist <> []) by (rewrite Eh; discriminate).
           specialize (Hfull Hne). fold t in Hfull. assert (t = hlen hist) by lia.
           replace (Z.to_nat (t - hlen hist)) with 0%nat by lia. cbn [fill_list]. rewrite app_nil_r.
           destruct (stream hist) eqn:Es; [apply stream_nil_iff in Es; congruence|].
           cbn [app]. repeat f_equal; lia.
      * intros u Hu'. apply in_or_app. left. apply Hused. exact Hu'.
  - (* LDelay *)
    destruct ((d <? 0) || (MAXD <? d)) eqn:Ed; [split; [discriminate|intros; discriminate]|].
    rewrite (tail_frame_of_inv _ _ _ I), Hla.
    replace (hlen hist - 1 + 1) with (hlen hist) by lia.
    destruct (Z.ltb_spec QLEN (Z.max (hlen hist) (q_last_user (ls_q s) + d + 1) - low)) as [Hc|Hc]; [split; [discriminate|intros; discriminate]|].
    assert (Hcap : hlen hist + Z.of_nat (delay_fills (ls_q s) hist d) - low <= QLEN).
    { unfold delay_fills. destruct ((hlen hist =? 0) || (q_last_user (ls_q s) =? NULL)); lia. }
    destruct (set_frame_delay_ok (ls_q s) hist low d I Hp Hcap) as (q' & E & I' & D' & U' & R' & F' & P').
    rewrite E. cbn [res_bind]. split; [discriminate|]. intros s' Es. inversion Es; subst s'. clear Es.
    eexists; exists low. split; [|eexists; reflexivity].
    constructor; cbn [ls_q ls_uf ls_sent ls_used].
    + exact I'.
    + congruence.
    + congruence.
    + rewrite D'. lia.
    + destruct Hu as [(A & B & C)|(A & B)]; [left|right]; rewrite U'; auto.
      repeat split; auto. subst hist. unfold delay_fills. cbn. reflexivity.
    + intro Hne'. rewrite D', hlen_repeat. unfold delay_fills in *.
      destruct Hu as [(A & B & C)|(A & B)].
      * subst hist. exfalso. apply Hne'. reflexivity.
      * destruct (Z.eqb_spec (hlen hist) 0) as [E0|E0].
        -- exfalso. apply Hne'. apply hlen_zero in E0. subst hist. reflexivity.
        -- assert ((q_last_user (ls_q s) =? NULL) = false) as -> by (unfold NULL; lia). cbn [orb]. lia.
    + rewrite stream_app_repeat, Hsent. reflexivity.
    + intros u Hu'. apply in_or_app. left. apply Hused. exact Hu'.
  - (* LDiscard *)
    destruct (Z.leb_spec (q_last_added (ls_q s)) f) as [Hc|Hc]; [split; [discriminate|intros; discriminate]|].
    split; [discriminate|]. intros s' Es. inversion Es; subst s'. clear Es.
    destruct (discard_ok (ls_q s) hist low f I ltac:(lia)) as (I' & D' & U' & R' & F' & P').
    exists hist; eexists. split; [|exists []; rewrite app_nil_r; reflexivity].
    constructor; cbn [ls_q ls_uf ls_sent ls_used].
    + exact I'.
    + congruence.
    + congruence.
    + rewrite D'. exact Hd.
    + rewrite U'. exact Hu.
    + rewrite D'. exact Hfull.
    + exact Hsent.
    + exact Hused.
  - (* LInput *)
    unfold tail_frame_of. rewrite (tail_frame _ _ _ I), Hla.
    destruct ((f <? (if hlen hist =? 0 then NULL else low)) || (hlen hist - 1 <? f) || (f <? 0)) eqn:Ec;
      [split; [discriminate|intros; discriminate]|].
    assert (Hf : low <= f < hlen hist).
    { destruct (Z.eqb_spec (hlen hist) 0); unfold NULL in *; lia. }
    rewrite (input_confirmed predict (ls_q s) hist low f I Hfi Hp Hf). cbn [res_bind].
    split; [discriminate|]. intros s' Es. inversion Es; subst s'. clear Es.
    exists hist, low. split; [|exists []; rewrite app_nil_r; reflexivity].
    constructor; cbn [ls_q ls_uf ls_sent ls_used set_last_requested q_pred q_first_incorrect q_delay q_last_user]; auto.
    + eapply RInv_ext; [exact I|reflexivity..].
    + intros u Hu'. apply in_app_or in Hu'. destruct Hu' as [Hu'|[<-|[]]]; [apply Hused; exact Hu'|].
      rewrite Hsent. apply stream_in. lia.
Qed.

(* C11, queue level: for every sequence of submissions, delay changes (any values in 0..=MAXD, any
   number of them between two submissions), discards and reads that stays inside the ring, no
   assert of the queue fires, the frames handed to the remotes are 0,1,2,.. without gap or repeat
   with exactly the values the queue holds, and every value the owner reads was handed out *)
Theorem local_queue_stream : forall ops s,
  lrun ls_init ops <> Panic /\
  (lrun ls_init ops = Ok s ->
   exists hist low, RInv (ls_q s) hist low /\ ls_sent s = stream hist /\
                    (forall u, In u (ls_used s) -> In u (ls_sent s))).
Proof.
  assert (G : forall ops s0 hist low, LInv s0 hist low ->
            lrun s0 ops <> Panic /\ forall s, lrun s0 ops = Ok s -> exists hist' low', LInv s hist' low').
  { induction ops as [|o r IH]; intros s0 hist low L.
    - cbn [lrun]. split; [discriminate|]. intros s E. inversion E; subst. eauto.
    - cbn [lrun]. destruct (lstep_inv s0 hist low o L) as [Np St].
      destruct (lstep s0 o) as [s1| |] eqn:E1; cbn [res_bind].
      + destruct (St s1 eq_refl) as (h1 & l1 & L1 & _). apply (IH s1 h1 l1 L1).
      + split; [discriminate|intros; discriminate].
      + congruence. }
  intros ops s. destruct (G ops ls_init [] 0 LInv_init) as [A B]. split; [exact A|].
  intro E. destruct (B s E) as (h & l & L). exists h, l.
  destruct L. auto.
Qed.

End Local.

(* ================= remote queue ================= *)
Inductive rop := RAdd (v : Z) | RInput (f : Z) | RReset | RDiscard (f : Z).

Record rstate := mkrs {
  rs_q : queue;
  rs_added : list Z;                                   (* real inputs received, frame = position *)
  rs_log : list (Z * Z * istatus * list Z) }.         (* (frame, value, status, inputs received at that time) *)

Definition rs_init : rstate := mkrs q_new [] [].

Lemma add_input_exact : forall q hist low v,
  RInv q hist low -> q_delay q = 0 ->
  (q_last_user q = NULL \/ hlen hist = q_last_user q + 1) ->
  pred_ok q (hlen hist) -> hlen hist + 1 - low <= QLEN ->
  exists q', add_input q (hlen hist) v = Ok (q', hlen hist) /\ RInv q' (hist ++ [v]) low /\
     q_delay q' = 0 /\ q_last_user q' = hlen hist /\ q_last_requested q' = q_last_requested q /\
     q_first_incorrect q' = fi_after q v (hlen hist) /\ q_pred q' = pred_after q v (hlen hist).
Proof.
  intros q hist low v I Hd Hs Hp Hcap. pose proof (hlen_nonneg hist) as Hnn.
  rewrite (add_input_seq q (hlen hist) v Hs Hnn).
  assert (I0 : RInv (set_last_user q (hlen hist)) hist low) by (eapply RInv_ext; [exact I|reflexivity..]).
  unfold advance_queue_head. rewrite (expected_frame _ _ _ I0). cbn [set_last_user q_delay]. rewrite Hd, Z.add_0_r.
  rewrite Z.ltb_irrefl, Z.sub_diag. cbn [Z.to_nat fill_to]. rewrite Z.leb_refl. cbn [res_bind].
  assert (A : (hlen hist =? 0) || (hlen hist =? pi_frame (slot (q_inputs (set_last_user q (hlen hist))) (prev_pos (q_head (set_last_user q (hlen hist))))) + 1) = true).
  { rewrite (prev_slot _ _ _ I0). destruct (Z.eqb_spec (hlen hist) 0); cbn; lia. }
  rewrite A. cbn [negb res_bind]. cbv beta iota.
  assert ((hlen hist =? NULL) = false) as -> by (unfold NULL; lia).
  assert (Hp0 : pred_ok (set_last_user q (hlen hist)) (hlen hist)) by exact Hp.
  destruct (add_by_frame_ok _ hist low v I0 ltac:(lia) Hp0) as (q2 & E2 & I2 & D2 & U2 & R2 & F2 & P2 & _).
  rewrite E2. cbn [res_bind]. exists q2. split; [reflexivity|]. refine (conj I2 _).
  repeat split.
  - rewrite D2. exact Hd.
  - rewrite U2. reflexivity.
  - rewrite R2. reflexivity.
  - rewrite F2. reflexivity.
  - rewrite P2. reflexivity.
Qed.

Section Remote.
Variable predict : Z -> Z.
Hypothesis predict_idem : forall x, predict (predict x) = predict x.
Hypothesis predict_default : predict 0 = 0.

Definition rstep (s : rstate) (o : rop) : res rstate :=
  let q := rs_q s in
  match o with
  | RAdd v =>
      if QLEN <? q_last_added q + 2 - (if q_last_added q =? NULL then 0 else tail_frame_of q) then Err else
      res_bind (add_input q (q_last_added q + 1) v) (fun '(q', _) => Ok (mkrs q' (rs_added s ++ [v]) (rs_log s)))
  | RInput f =>
      (* the session never reads a queue with a pending misprediction, never reads below the tail,
         and reads non-decreasing frames between two resets *)
      if negb (q_first_incorrect q =? NULL) || (f <? tail_frame_of q) || (f <? 0)
         || (negb (q_last_requested q =? NULL) && (f <? q_last_requested q)) then Err else
      res_bind (input predict q f) (fun '(q', (v, st)) => Ok (mkrs q' (rs_added s) (rs_log s ++ [(f, v, st, rs_added s)])))
  | RReset => Ok (mkrs (reset_prediction q) (rs_added s) (rs_log s))
  | RDiscard f =>
      if q_last_added q <=? f then Err else Ok (mkrs (discard_confirmed_frames q f) (rs_added s) (rs_log s))
  end.

Fixpoint rrun (s : rstate) (ops : list rop) : res rstate :=
  match ops with
  | [] => Ok s
  | o :: r => res_bind (rstep s o) (fun s' => rrun s' r)
  end.

(* what C03 promises about one handed-out input *)
Definition entry_ok (e : Z * Z * istatus * list Z) : Prop :=
  let '(f, v, st, hist) := e in
  match st with
  | Confirmed => 0 <= f < hlen hist /\ v = hval hist f
  | Predicted => hlen hist <= f /\ v = predval predict hist
  | Disconnected => False
  end.

Record PInv (s : rstate) (low : Z) : Prop := {
  pv_ring : RInv (rs_q s) (rs_added s) low;
  pv_delay : q_delay (rs_q s) = 0;
  pv_user : q_last_user (rs_q s) = hlen (rs_added s) - 1;
  pv_p1 : pi_frame (q_pred (rs_q s)) = NULL \/ pi_frame (q_pred (rs_q s)) = hlen (rs_added s);
  pv_p2 : pi_frame (q_pred (rs_q s)) <> NULL -> q_first_incorrect (rs_q s) = NULL ->
          pi_val (q_pred (rs_q s)) = predval predict (rs_added s) /\
          hlen (rs_added s) <= q_last_requested (rs_q s);
  pv_p4 : q_first_incorrect (rs_q s) <> NULL ->
          pi_frame (q_pred (rs_q s)) <> NULL /\ 0 <= q_first_incorrect (rs_q s) < hlen (rs_added s);
  pv_log : Forall entry_ok (rs_log s);
}.

Lemma predval_snoc_same : forall hist v, v = predval predict hist -> predval predict (hist ++ [v]) = predval predict hist.
Proof.
  intros hist v E. unfold predval. rewrite hlen_app, hlast_app. pose proof (hlen_nonneg hist).
  assert ((hlen hist + 1 =? 0) = false) as -> by lia.
  subst v. unfold predval. destruct (hlen hist =? 0); [apply predict_default|apply predict_idem].
Qed.

Lemma PInv_init : PInv rs_init 0.
Proof.
  constructor; unfold rs_init, q_new; cbn [rs_q rs_added rs_log q_pred q_first_incorrect q_delay q_last_user q_last_requested pi_frame blank].
  - apply RInv_new.
  - reflexivity.
  - reflexivity.
  - left. reflexivity.
  - intros H. congruence.
  - intros H. congruence.
  - constructor.
Qed.

Lemma rstep_inv : forall s low o,
  PInv s low ->
  rstep s o <> Panic /\ forall s', rstep s o = Ok s' -> exists low', PInv s' low'.
Proof.
  intros s low o [I Hd Hu P1 P2 P4 Hlog].
  pose proof QLEN_pos as HQ. pose proof (hlen_nonneg (rs_added s)) as Hnn.
  pose proof (ri_last _ _ _ I) as Hla.
  destruct (ri_low _ _ _ I) as (L0 & L1 & L2).
  destruct o as [v|f| |f]; unfold rstep.
  - (* RAdd *)
    rewrite (tail_frame_of_inv _ _ _ I), Hla.
    replace (hlen (rs_added s) - 1 + 2) with (hlen (rs_added s) + 1) by lia.
    replace (hlen (rs_added s) - 1 + 1) with (hlen (rs_added s)) by lia.
    destruct (Z.ltb_spec QLEN (hlen (rs_added s) + 1 - low)) as [Hc|Hc]; [split; [discriminate|intros; discriminate]|].
    assert (Hseq : q_last_user (rs_q s) = NULL \/ hlen (rs_added s) = q_last_user (rs_q s) + 1) by (right; lia).
    destruct (add_input_exact (rs_q s) (rs_added s) low v I Hd Hseq P1 Hc) as (q' & E & I' & D' & U' & R' & F' & P').
    rewrite E. cbn [res_bind]. split; [discriminate|]. intros s' Es. inversion Es; subst s'. clear Es.
    exists low. constructor; cbn [rs_q rs_added rs_log]; rewrite ?hlen_app.
    + exact I'.
    + exact D'.
    + rewrite U'. lia.
    + rewrite P'. unfold pred_after. destruct (Z.eqb_spec (pi_frame (q_pred (rs_q s))) NULL) as [En|En].
      * left. exact En.
      * destruct P1 as [P1|P1]; [congruence|]. rewrite P1.
        destruct ((hlen (rs_added s) =? q_last_requested (rs_q s)) && _); cbn [pi_frame]; [left|right]; reflexivity.
    + intros Hact Hfi0. rewrite P' in Hact |- *. rewrite F' in Hfi0. rewrite R'.
      destruct P1 as [P1|P1].
      { exfalso. apply Hact. unfold pred_after. rewrite P1. cbn. exact P1. }
      assert (En : (pi_frame (q_pred (rs_q s)) =? NULL) = false) by (unfold NULL; lia).
      assert (Hact0 : pi_frame (q_pred (rs_q s)) <> NULL) by (unfold NULL; lia).
      unfold pred_after in Hact |- *. unfold fi_after in Hfi0, Hact |- *. rewrite En in Hfi0, Hact |- *.
      destruct (Z.eqb_spec (q_first_incorrect (rs_q s)) NULL) as [Ef|Ef]; cbn [andb] in Hfi0, Hact |- *; [|congruence].
      destruct (Z.eqb_spec (pi_val (q_pred (rs_q s))) v) as [Ev|Ev]; cbn [negb] in Hfi0, Hact |- *; [|unfold NULL in *; lia].
      destruct (P2 Hact0 Ef) as [Pv Pl].
      rewrite Ef in Hact |- *. cbn [Z.eqb NULL] in Hact |- *. rewrite andb_true_r in Hact |- *.
      rewrite P1 in Hact |- *.
      destruct (Z.eqb_spec (hlen (rs_added s)) (q_last_requested (rs_q s))) as [El|El]; cbn [pi_frame pi_val] in Hact |- *.
      * exfalso. apply Hact. reflexivity.
      * split; [|lia]. rewrite predval_snoc_same; [exact Pv|]. rewrite <- Ev. exact Pv.
    + intros Hfi'. rewrite F' in Hfi' |- *. rewrite P'.
      unfold fi_after in Hfi' |- *. unfold pred_after, fi_after.
      destruct (Z.eqb_spec (pi_frame (q_pred (rs_q s))) NULL) as [En|En].
      * destruct (P4 Hfi') as [A B]. congruence.
      * destruct P1 as [P1|P1]; [congruence|].
        destruct (Z.eqb_spec (q_first_incorrect (rs_q s)) NULL) as [Ef|Ef]; cbn [andb] in Hfi' |- *.
        -- destruct (negb (pi_val (q_pred (rs_q s)) =? v)); [|congruence].
           assert ((hlen (rs_added s) =? NULL) = false) as Hn by (unfold NULL; lia).
           rewrite Hn, andb_false_r. cbn [pi_frame]. split; [unfold NULL; lia|lia].
        -- destruct (P4 Ef) as [A B]. assert ((q_first_incorrect (rs_q s) =? NULL) = false) as Hn by lia.
           rewrite Hn, andb_false_r. cbn [pi_frame]. split; [unfold NULL; lia|lia].
    + exact Hlog.
  - (* RInput *)
    unfold tail_frame_of. rewrite (tail_frame _ _ _ I).
    destruct (negb (q_first_incorrect (rs_q s) =? NULL) || (f <? (if hlen (rs_added s) =? 0 then NULL else low)) || (f <? 0)
              || (negb (q_last_requested (rs_q s) =? NULL) && (f <? q_last_requested (rs_q s)))) eqn:Ec;
      [split; [discriminate|intros; discriminate]|].
    apply orb_false_iff in Ec. destruct Ec as [Ec Ereq]. apply orb_false_iff in Ec. destruct Ec as [Ec E0].
    apply orb_false_iff in Ec. destruct Ec as [Efi Etail].
    assert (Hfi : q_first_incorrect (rs_q s) = NULL) by lia.
    assert (Hf0 : 0 <= f) by lia.
    assert (Htl : (if hlen (rs_added s) =? 0 then NULL else low) <= f) by lia.
    destruct P1 as [P1|P1].
    + destruct (Z.lt_ge_cases f (hlen (rs_added s))) as [Hlt|Hge].
      * assert (Hf : low <= f < hlen (rs_added s)) by (destruct (Z.eqb_spec (hlen (rs_added s)) 0); unfold NULL in *; lia).
        rewrite (input_confirmed predict _ _ low f I Hfi P1 Hf). cbn [res_bind].
        split; [discriminate|]. intros s' Es. inversion Es; subst s'. clear Es.
        exists low. constructor; cbn [rs_q rs_added rs_log set_last_requested q_pred q_first_incorrect q_delay q_last_user q_last_requested].
        -- eapply RInv_ext; [exact I|reflexivity..].
        -- exact Hd.
        -- exact Hu.
        -- left. exact P1.
        -- intros A. congruence.
        -- intros A. congruence.
        -- apply Forall_app. split; [exact Hlog|]. constructor; [|constructor]. cbn. split; [lia|reflexivity].
      * rewrite (input_predict_start predict _ _ low f I Hfi P1 Hge Hf0). cbn [res_bind].
        split; [discriminate|]. intros s' Es. inversion Es; subst s'. clear Es.
        exists low. constructor; cbn [rs_q rs_added rs_log set_requested_pred q_pred q_first_incorrect q_delay q_last_user q_last_requested pi_frame pi_val].
        -- eapply RInv_ext; [exact I|reflexivity..].
        -- exact Hd.
        -- exact Hu.
        -- right. reflexivity.
        -- intros _ _. split; [reflexivity|lia].
        -- intros A. congruence.
        -- apply Forall_app. split; [exact Hlog|]. constructor; [|constructor]. cbn. split; [lia|reflexivity].
    + assert (Hact : pi_frame (q_pred (rs_q s)) <> NULL) by (unfold NULL; lia).
      destruct (P2 Hact Hfi) as [Pv Pl].
      rewrite (input_predicting predict _ _ low f I Hfi P1 Htl). cbn [res_bind].
      split; [discriminate|]. intros s' Es. inversion Es; subst s'. clear Es.
      assert (Hreq : q_last_requested (rs_q s) <= f).
      { destruct (Z.eqb_spec (q_last_requested (rs_q s)) NULL) as [En|En]; [unfold NULL in *; lia|]. cbn [negb andb] in Ereq. lia. }
      exists low. constructor; cbn [rs_q rs_added rs_log set_last_requested q_pred q_first_incorrect q_delay q_last_user q_last_requested].
      * eapply RInv_ext; [exact I|reflexivity..].
      * exact Hd.
      * exact Hu.
      * right. exact P1.
      * intros _ _. split; [exact Pv|lia].
      * intros A. congruence.
      * apply Forall_app. split; [exact Hlog|]. constructor; [|constructor]. cbn. split; [lia|exact Pv].
  - (* RReset *)
    split; [discriminate|]. intros s' Es. inversion Es; subst s'. clear Es.
    exists low. constructor; cbn [rs_q rs_added rs_log reset_prediction q_pred q_first_incorrect q_delay q_last_user q_last_requested pi_frame].
    + apply reset_ok. exact I.
    + exact Hd.
    + exact Hu.
    + left. reflexivity.
    + intro A. congruence.
    + intro A. congruence.
    + exact Hlog.
  - (* RDiscard *)
    destruct (Z.leb_spec (q_last_added (rs_q s)) f) as [Hc|Hc]; [split; [discriminate|intros; discriminate]|].
    split; [discriminate|]. intros s' Es. inversion Es; subst s'. clear Es.
    destruct (discard_ok (rs_q s) (rs_added s) low f I ltac:(lia)) as (I' & D' & U' & R' & F' & P').
    eexists. constructor; cbn [rs_q rs_added rs_log]; rewrite ?D', ?U', ?R', ?F', ?P'.
    + exact I'.
    + exact Hd.
    + exact Hu.
    + exact P1.
    + exact P2.
    + exact P4.
    + exact Hlog.
Qed.

(* C03, queue level: for every sequence of arrivals, reads, resets and discards the session can
   issue, no assert of the queue fires and every input handed out is truthful: Confirmed = the real
   input that had been received for that frame, Predicted = the predictor applied to the newest
   received input (the default input if none), for a frame beyond everything received *)
Theorem remote_queue_truthful : forall ops s,
  rrun rs_init ops <> Panic /\ (rrun rs_init ops = Ok s -> Forall entry_ok (rs_log s)).
Proof.
  assert (G : forall ops s0 low, PInv s0 low ->
            rrun s0 ops <> Panic /\ forall s, rrun s0 ops = Ok s -> exists low', PInv s low').
  { induction ops as [|o r IH]; intros s0 low L.
    - cbn [rrun]. split; [discriminate|]. intros s E. inversion E; subst. eauto.
    - cbn [rrun]. destruct (rstep_inv s0 low o L) as [Np St].
      destruct (rstep s0 o) as [s1| |] eqn:E1; cbn [res_bind].
      + destruct (St s1 eq_refl) as (l1 & L1). apply (IH s1 l1 L1).
      + split; [discriminate|intros; discriminate].
      + congruence. }
  intros ops s. destruct (G ops rs_init 0 PInv_init) as [A B]. split; [exact A|].
  intro E. destruct (B s E) as (l & L). apply (pv_log _ _ L).
Qed.

End Remote.
