(* Reference validity predicate for sequences of SessionBuilder calls, transcribed from the
   documentation of src/sessions/builder.rs (doc comments of every method, `# Errors` sections) and of
   PlayerType / DesyncDetection in src/lib.rs.  It is declarative (a Prop over the call list) and does
   NOT use the model's builder functions: only the syntax of calls (types `call`, `ptype`, `finisher`)
   is shared with Builder.v. *)
From GGRS Require Import Base Consts Builder.
Open Scope Z_scope.

(* the value a setting has after a list of calls: the argument of the last call that sets it, the
   documented default if there is none *)
Fixpoint last_set {A : Type} (sel : call -> option A) (d : A) (cs : list call) : A :=
  match cs with
  | [] => d
  | c :: r => last_set sel (match sel c with Some v => v | None => d end) r
  end.

Definition np_of : list call -> Z :=           (* "Change number of total players. Default is 2." *)
  last_set (fun c => match c with CNumPlayers n => Some n | _ => None end) DEFAULT_PLAYERS.
Definition window_of : list call -> Z :=       (* "Change the maximum prediction window. Default is 8." *)
  last_set (fun c => match c with CMaxPrediction w => Some w | _ => None end) DEFAULT_MAX_PREDICTION_FRAMES.
Definition check_dist_of : list call -> Z :=   (* "Change the check distance ... Default is 2." *)
  last_set (fun c => match c with CCheckDistance d => Some d | _ => None end) DEFAULT_CHECK_DISTANCE.
Definition sparse_of : list call -> bool :=
  last_set (fun c => match c with CSparse s => Some s | _ => None end) false.
Definition desync_of : list call -> option Z :=
  last_set (fun c => match c with CDesync m => Some m | _ => None end) None.
Definition delay_of : list call -> Z :=        (* "... delay the inputs for local players. Default is 0." *)
  last_set (fun c => match c with CInputDelay d => Some d | _ => None end) DEFAULT_INPUT_DELAY.

(* "Local and remote player handles must be in `0..num_players`, while spectator handles must be
   `>= num_players`." *)
Definition handle_ok (t : ptype) (h np : Z) : Prop :=
  match t with
  | Local => 0 <= h < np
  | Remote _ => 0 <= h < np
  | Spectator _ => np <= h
  end.

(* is call c, issued after the calls `pre`, allowed by its documentation? *)
Definition call_ok (pre : list call) (c : call) : Prop :=
  match c with
  | CAddPlayer t h =>
      (* "InvalidRequest if a player with that handle has been added before";
         "InvalidRequest if the handle is invalid for the given PlayerType" *)
      handle_ok t h (np_of pre) /\ ~ (exists t', In (CAddPlayer t' h) pre)
  | CNumPlayers n =>
      (* "Must be at least 1."; "If called after add_player(), already-registered handles are
         revalidated against the new value." *)
      1 <= n /\ (forall t h, In (CAddPlayer t h) pre -> handle_ok t h n)
  | CFps f => 1 <= f                                        (* "InvalidRequest if the fps is 0" *)
  | CMaxFramesBehind m => 1 <= m < SPECTATOR_BUFFER_SIZE    (* "0 or >= SPECTATOR_BUFFER_SIZE" *)
  | CCatchupSpeed s => 1 <= s                               (* "InvalidRequest if catchup_speed is 0" *)
  | CMaxPrediction _ | CInputDelay _ | CSparse _ | CDesync _ | CDisconnectTimeout _
  | CNotifyDelay _ | CCheckDistance _ => True               (* no documented error *)
  end.

Definition fin_ok (cs : list call) (f : finisher) : Prop :=
  match f with
  | FP2P =>
      (* "InvalidRequest if insufficient players have been registered" (add_player "must be called for
         each player in the session"); "DesyncDetection::On requires an interval higher than 0 when
         starting a P2P session" *)
      (forall h, 0 <= h < np_of cs -> exists t, In (CAddPlayer t h) cs) /\
      desync_of cs <> Some 0
  | FSyncTest =>
      (* "InvalidRequest if check_distance is greater than or equal to max_prediction_window";
         "InvalidRequest if sparse saving is enabled" *)
      check_dist_of cs < window_of cs /\ sparse_of cs = false
  | FSpectator _ => True                                    (* returns a session, not a Result *)
  end.

(* every call is allowed where it stands *)
Definition calls_ok (cs : list call) : Prop :=
  forall pre c post, cs = pre ++ c :: post -> call_ok pre c.

Definition valid_calls (cs : list call) (f : finisher) : Prop :=
  calls_ok cs /\ fin_ok cs f.

(* n is the index of the first call the documentation rejects (the finisher has index `length cs`) *)
Definition first_invalid (cs : list call) (f : finisher) (n : nat) : Prop :=
  (n <= length cs)%nat /\
  calls_ok (firstn n cs) /\
  match nth_error cs n with
  | Some c => ~ call_ok (firstn n cs) c
  | None => ~ fin_ok cs f
  end.

(* the arguments are unsigned machine integers (usize, u32, Duration in ms): the only hypothesis of
   the specification theorem; there is no upper bound *)
Definition usize_call (c : call) : Prop :=
  match c with
  | CAddPlayer _ h => 0 <= h
  | CNumPlayers n => 0 <= n
  | CMaxPrediction w => 0 <= w
  | CInputDelay d => 0 <= d
  | CSparse _ => True
  | CDesync (Some i) => 0 <= i
  | CDesync None => True
  | CDisconnectTimeout ms => 0 <= ms
  | CNotifyDelay ms => 0 <= ms
  | CFps f => 0 <= f
  | CCheckDistance d => 0 <= d
  | CMaxFramesBehind m => 0 <= m
  | CCatchupSpeed s => 0 <= s
  end.
