(* C01 on the session core model: what the game has simulated, frame by frame and player by player,
   against the inputs the session holds.  The game's input history is followed through the request
   lists (replay_hist); the per-queue invariant GQ says that every simulated frame whose input is
   known and not flagged as mispredicted carries that input, and every other simulated frame carries
   the prediction the queue would make now. *)
From GGRS Require Import Base Consts Queue QueueProofs QueueTheorems Sync P2P Session SessionProofs SessionProgress.
From Coq Require Import ZifyBool ZifyNat ZifyN.
Ltac Zify.zify_post_hook ::= Z.div_mod_to_equations.
Open Scope Z_scope.

(* ---------- the game's input history as a function of the requests ---------- *)
Fixpoint replay_hist (G : ghist) (R : list request) : ghist :=
  match R with
  | [] => G
  | RSave _ :: r => replay_hist G r
  | RLoad f :: r => replay_hist (firstn (Z.to_nat f) G) r
  | RAdvance ins :: r => replay_hist (G ++ [ins]) r
  end.

Lemma replay_hist_app : forall R1 R2 G, replay_hist G (R1 ++ R2) = replay_hist (replay_hist G R1) R2.
Proof. induction R1 as [|[f|f|ins] R1 IH]; intros R2 G; cbn [app replay_hist]; auto. Qed.

(* the AdvanceFrame requests of a request list, each with the frame it simulates (the length of the game's
   history at that point: a Load truncates it, an Advance extends it) - first simulations and re-simulations alike *)
Fixpoint adv_frames (G : ghist) (R : list request) : list (Z * frame_inputs) :=
  match R with
  | [] => []
  | RSave _ :: r => adv_frames G r
  | RLoad f :: r => adv_frames (firstn (Z.to_nat f) G) r
  | RAdvance ins :: r => (Z.of_nat (length G), ins) :: adv_frames (G ++ [ins]) r
  end.
Lemma adv_frames_app : forall R1 R2 G, adv_frames G (R1 ++ R2) = adv_frames G R1 ++ adv_frames (replay_hist G R1) R2.
Proof.
  induction R1 as [|[f|f|ins] R1 IH]; intros R2 G; cbn [app replay_hist adv_frames]; auto.
  rewrite IH. reflexivity.
Qed.

Lemma fi_eqb_eq : forall a b, fi_eqb a b = true -> a = b.
Proof.
  induction a as [|[v s] a IH]; intros [|[v' s'] b] H; cbn [fi_eqb] in H; try discriminate; [reflexivity|].
  apply andb_prop in H. destruct H as [H H3]. apply andb_prop in H. destruct H as [H1 H2].
  f_equal; [|apply IH; exact H3]. f_equal; [lia|]. destruct s, s'; cbn in H2; congruence.
Qed.
Lemma gh_eqb_eq : forall a b, gh_eqb a b = true -> a = b.
Proof.
  induction a as [|x a IH]; intros [|y b] H; cbn [gh_eqb] in H; try discriminate; [reflexivity|].
  apply andb_prop in H. destruct H as [H1 H2]. f_equal; [apply fi_eqb_eq; exact H1|apply IH; exact H2].
Qed.

(* executing a request list leaves the game with exactly the replayed history *)
Lemma exec_hist : forall w R g g', exec w g R = Some g' -> g_hist g' = replay_hist (g_hist g) R.
Proof.
  induction R as [|r R IH]; intros g g' H; cbn [exec] in H; [injection H as <-; reflexivity|].
  destruct (exec_req w g r) as [g1|] eqn:E; [|discriminate]. rewrite (IH g1 g' H).
  destruct r as [f|f|ins]; cbn [exec_req replay_hist] in *.
  - destruct (f =? gframe g); [|discriminate]. injection E as <-. reflexivity.
  - destruct (nth _ (g_cells g) _) as [cf ch]. destruct (_ && _) eqn:Ec; [|discriminate]. injection E as <-. cbn [g_hist].
    apply andb_prop in Ec. destruct Ec as [_ Ec]. apply gh_eqb_eq in Ec. rewrite Ec. reflexivity.
  - injection E as <-. reflexivity.
Qed.

Lemma exec_outs_hist : forall w outs g g', exec_outs w g outs = Some g' ->
  g_hist g' = replay_hist (g_hist g) (concat (map (fun o => o_requests (fst o)) outs)).
Proof.
  induction outs as [|[o r] outs IH]; intros g g' H; cbn [exec_outs map concat fst] in *; [injection H as <-; reflexivity|].
  destruct (exec w g (o_requests o)) as [g1|] eqn:E; [|discriminate].
  rewrite replay_hist_app, <- (exec_hist _ _ _ _ E). apply IH. exact H.
Qed.

(* ---------- the value the game last simulated for (frame, player) ---------- *)
Definition fval (fi : frame_inputs) (h : nat) : Z := fst (nth h fi (0, Confirmed)).
Definition gvalL (G : ghist) (f : Z) (h : nat) : Z := fval (nth (Z.to_nat f) G []) h.
Definition glen (G : ghist) : Z := Z.of_nat (length G).

Lemma gvalL_app_old : forall G x f h, 0 <= f < glen G -> gvalL (G ++ [x]) f h = gvalL G f h.
Proof. intros G x f h Hf. unfold gvalL, glen in *. rewrite app_nth1 by lia. reflexivity. Qed.
Lemma gvalL_app_new : forall G x h, gvalL (G ++ [x]) (glen G) h = fval x h.
Proof. intros G x h. unfold gvalL, glen. rewrite Nat2Z.id, app_nth2, Nat.sub_diag by lia. reflexivity. Qed.
Lemma gvalL_firstn : forall G n f h, 0 <= f < n -> n <= glen G -> gvalL (firstn (Z.to_nat n) G) f h = gvalL G f h.
Proof.
  intros G n f h Hf Hn. unfold gvalL, glen in *.
  rewrite <- (firstn_skipn (Z.to_nat n) G) at 2. rewrite app_nth1; [reflexivity|].
  rewrite firstn_length. lia.
Qed.
Lemma glen_app : forall G x, glen (G ++ [x]) = glen G + 1.
Proof. intros. unfold glen. rewrite app_length. cbn. lia. Qed.
Lemma glen_firstn : forall G n, 0 <= n <= glen G -> glen (firstn (Z.to_nat n) G) = n.
Proof. intros G n H. unfold glen in *. rewrite firstn_length. lia. Qed.

Lemma Forall2_len {A B} (R : A -> B -> Prop) : forall l1 l2, Forall2 R l1 l2 -> length l1 = length l2.
Proof. intros l1 l2 H. induction H; cbn; congruence. Qed.

Section Timeline.
Variable predict : Z -> Z.
(* the shipped predictors (repeat the last input, or the default input) are idempotent and map the
   blank input to itself; a prediction made again after matching inputs arrived is then unchanged *)
Hypothesis predict_idem : forall x, predict (predict x) = predict x.
Hypothesis predict_zero : predict 0 = 0.

Record GQ (c : Z) (G : ghist) (h : nat) (q : queue) (hist : list Z) : Prop := {
  gq_known : forall f, 0 <= f < c -> f < hlen hist -> (q_first_incorrect q = NULL \/ f < q_first_incorrect q) ->
             gvalL G f h = hval hist f;
  gq_pred : q_first_incorrect q = NULL -> forall f, 0 <= f < c -> hlen hist <= f -> gvalL G f h = predval predict hist;
  gq_pv : pi_frame (q_pred q) <> NULL -> q_first_incorrect q = NULL -> pi_val (q_pred q) = predval predict hist;
}.

Definition GIl (c : Z) (G : ghist) (qs : list queue) (gs : list ghost) : Prop :=
  forall h q gh, nth_error qs h = Some q -> nth_error gs h = Some gh -> GQ c G h q (fst gh).

(* what one read of a queue at the current frame returns *)
Lemma input_value : forall c L q hist low q' v st,
  QI c L q hist low -> q_first_incorrect q = NULL -> 0 <= c -> L <= c ->
  (pi_frame (q_pred q) <> NULL -> pi_val (q_pred q) = predval predict hist) ->
  input predict q c = Ok (q', (v, st)) ->
  q_first_incorrect q' = NULL /\
  ((c < hlen hist /\ v = hval hist c /\ pi_frame (q_pred q') = NULL /\ st = Confirmed) \/
   (hlen hist <= c /\ v = predval predict hist /\ pi_val (q_pred q') = predval predict hist /\ st = Predicted)).
Proof.
  intros c L q hist low q' v st [I P1 P2 P4 Rq [Lw1 Lw2] Cf] Hfi Hc HL Hpv E.
  destruct (ri_low _ _ _ I) as (L0 & L1 & L2). pose proof (hlen_nonneg hist) as Hnn.
  destruct P1 as [P1|P1].
  - destruct (Z.lt_ge_cases c (hlen hist)) as [Hlt|Hge].
    + assert (Hf : low <= c < hlen hist) by lia.
      rewrite (input_confirmed predict q hist low c I Hfi P1 Hf) in E. injection E as <- <- <-.
      split; [exact Hfi|]. left. split; [exact Hlt|]. split; [reflexivity|]. split; [exact P1|reflexivity].
    + rewrite (input_predict_start predict q hist low c I Hfi P1 Hge Hc) in E. injection E as <- <- <-.
      split; [exact Hfi|]. right. split; [exact Hge|]. split; [reflexivity|]. split; reflexivity.
  - assert (Hact : pi_frame (q_pred q) <> NULL) by (unfold NULL; lia).
    pose proof (P2 Hact Hfi) as Pl.
    assert (Htl : (if hlen hist =? 0 then NULL else low) <= c) by (destruct (hlen hist =? 0); unfold NULL; lia).
    rewrite (input_predicting predict q hist low c I Hfi P1 Htl) in E. injection E as <- <- <-.
    assert (Hge : hlen hist <= c) by (destruct Rq as [Rq|Rq]; unfold NULL in *; lia).
    split; [exact Hfi|]. right. split; [exact Hge|]. split; [exact (Hpv Hact)|]. split; [exact (Hpv Hact)|reflexivity].
Qed.


(* one read of a queue at the game's frame, and the AdvanceFrame that carries its result *)
Lemma gq_read : forall c L G h q hist low q' ins st,
  QI c L q hist low -> q_first_incorrect q = NULL -> 0 <= c -> L <= c -> glen G = c ->
  GQ c G h q hist -> input predict q c = Ok (q', (fval ins h, st)) ->
  GQ (c + 1) (G ++ [ins]) h q' hist.
Proof.
  intros c L G h q hist low q' ins st Hqi Hfi Hc HL HG [Gk Gp Gv] E.
  destruct (input_value c L q hist low q' _ st Hqi Hfi Hc HL (fun A => Gv A Hfi) E) as (Hfi' & Hcase).
  constructor.
  - intros f Hf Hfl _.
    destruct (Z.eq_dec f c) as [->|Hne].
    + rewrite <- HG at 1. rewrite gvalL_app_new. destruct Hcase as [(A & B & _)|(A & _)]; [exact B|lia].
    + rewrite gvalL_app_old by lia. apply Gk; [lia|exact Hfl|left; exact Hfi].
  - intros _ f Hf Hfl.
    destruct (Z.eq_dec f c) as [->|Hne].
    + rewrite <- HG at 1. rewrite gvalL_app_new. destruct Hcase as [(A & _)|(_ & B & _)]; [lia|exact B].
    + rewrite gvalL_app_old by lia. apply Gp; [exact Hfi|lia|exact Hfl].
  - intros Hact _. destruct Hcase as [(_ & _ & A & _)|(_ & _ & A & _)]; [congruence|exact A].
Qed.

Lemma sync_inputs_pointwise : forall st qs c qs' ins,
  sync_inputs_go predict c qs st = Ok (qs', ins) -> connected st -> length st = length qs ->
  length qs' = length qs /\ length ins = length qs /\
  forall h q q' i, nth_error qs h = Some q -> nth_error qs' h = Some q' -> nth_error ins h = Some i ->
    input predict q c = Ok (q', i).
Proof.
  induction st as [|s st IH]; intros qs c qs' ins E Hcon Hlen.
  - destruct qs; [|discriminate]. cbn in E. injection E as <- <-. repeat split. intros [|h] ? ? ? A; discriminate A.
  - destruct qs as [|q qs]; [discriminate|]. inversion Hcon as [|? ? Hs Hcon']; subst.
    cbn [sync_inputs_go] in E. rewrite Hs in E. cbn [andb] in E.
    destruct (input predict q c) as [[q1 i1]| |] eqn:Ei; cbn [res_bind] in E; try discriminate.
    destruct (sync_inputs_go predict c qs st) as [[qs2 ins2]| |] eqn:Er; cbn [res_bind] in E; try discriminate.
    injection E as <- <-. destruct (IH qs c qs2 ins2 Er Hcon' ltac:(cbn in Hlen; lia)) as (A & B & C).
    split; [cbn; lia|]. split; [cbn; lia|].
    intros [|h] q0 q0' i0 X Y Z; cbn [nth_error] in X, Y, Z.
    + injection X as <-. injection Y as <-. injection Z as <-. exact Ei.
    + exact (C h q0 q0' i0 X Y Z).
Qed.

(* all queues are read at the game's frame and the resulting AdvanceFrame is executed *)
Lemma gi_read : forall st qs gs c L G qs' ins,
  sync_inputs_go predict c qs st = Ok (qs', ins) -> QsI c L qs gs -> all_clean qs ->
  connected st -> length st = length qs -> 0 <= c -> L <= c -> glen G = c ->
  GIl c G qs gs -> GIl (c + 1) (G ++ [ins]) qs' gs.
Proof.
  intros st qs gs c L G qs' ins E HQ Hcl Hcon Hlen Hc HL HG HGI h q' gh B C.
  destruct (sync_inputs_pointwise st qs c qs' ins E Hcon Hlen) as (L1 & L2 & Hpt).
  destruct (nth_error qs h) as [q|] eqn:Eq; [|apply nth_error_None in Eq; assert (nth_error qs' h <> None) as X by congruence; apply nth_error_Some in X; lia].
  destruct (nth_error ins h) as [[v stt]|] eqn:Ei; [|apply nth_error_None in Ei; assert (nth_error qs h <> None) as X by congruence; apply nth_error_Some in X; lia].
  pose proof (Forall2_nth _ _ _ _ _ _ HQ Eq C) as Hqi. cbv beta in Hqi.
  assert (Hfq : q_first_incorrect q = NULL).
  { unfold all_clean in Hcl. rewrite Forall_forall in Hcl. apply Hcl. eapply nth_error_In. exact Eq. }
  assert (Hv : fval ins h = v). { unfold fval. erewrite nth_error_nth; [|exact Ei]. reflexivity. }
  eapply gq_read; try eassumption.
  - apply HGI; assumption.
  - rewrite Hv. exact (Hpt h q q' (v, stt) Eq B Ei).
Qed.


Lemma hval_app_old : forall hist ext f, 0 <= f < hlen hist -> hval (hist ++ ext) f = hval hist f.
Proof. intros hist ext f Hf. unfold hval, hlen in *. rewrite app_nth1 by lia. reflexivity. Qed.

(* ---------- truthful requests (C03) ---------- *)
(* what an AdvanceFrame request for frame f says about one player, against the inputs held for that player:
   Confirmed = the frame is held and the value is the held input; Predicted = the frame lies beyond everything
   held and the value is the predictor applied to the newest held input (the default input if none) *)
Definition truthful1 (hist : list Z) (f : Z) (i : Z * istatus) : Prop :=
  (snd i = Confirmed /\ f < hlen hist /\ fst i = hval hist f) \/
  (snd i = Predicted /\ hlen hist <= f /\ fst i = predval predict hist).
Definition truthful (gs : list ghost) (fi : Z * frame_inputs) : Prop :=
  Forall2 (fun (g : ghost) i => truthful1 (fst g) (fst fi) i) gs (snd fi).
Definition truthful_lt (c : Z) (gs : list ghost) (fi : Z * frame_inputs) : Prop := 0 <= fst fi < c /\ truthful gs fi.

Lemma Forall2_pointwise {A B} (R : A -> B -> Prop) : forall l1 l2, length l1 = length l2 ->
  (forall i a b, nth_error l1 i = Some a -> nth_error l2 i = Some b -> R a b) -> Forall2 R l1 l2.
Proof.
  induction l1 as [|x l1 IH]; intros [|y l2] Hl Hp; try discriminate; constructor.
  - apply (Hp O); reflexivity.
  - apply IH; [cbn in Hl; lia|]. intros i a b Ha Hb. apply (Hp (S i)); assumption.
Qed.

Lemma read_truthful : forall st qs gs c L G qs' ins,
  sync_inputs_go predict c qs st = Ok (qs', ins) -> QsI c L qs gs -> all_clean qs ->
  connected st -> length st = length qs -> 0 <= c -> L <= c ->
  GIl c G qs gs -> truthful gs (c, ins).
Proof.
  intros st qs gs c L G qs' ins E HQ Hcl Hcon Hlen Hc HL HGI.
  destruct (sync_inputs_pointwise st qs c qs' ins E Hcon Hlen) as (L1 & L2 & Hpt).
  pose proof (QsI_length _ _ _ _ HQ) as Hlq.
  apply Forall2_pointwise; [cbn [snd]; lia|]. cbn [fst snd]. intros h gh i C Ei.
  destruct (nth_error qs h) as [q|] eqn:Eq; [|apply nth_error_None in Eq; assert (nth_error gs h <> None) as X by congruence; apply nth_error_Some in X; lia].
  destruct (nth_error qs' h) as [q'|] eqn:Eq'; [|apply nth_error_None in Eq'; assert (nth_error qs h <> None) as X by congruence; apply nth_error_Some in X; lia].
  pose proof (Forall2_nth _ _ _ _ _ _ HQ Eq C) as Hqi. cbv beta in Hqi.
  assert (Hfq : q_first_incorrect q = NULL).
  { unfold all_clean in Hcl. rewrite Forall_forall in Hcl. apply Hcl. eapply nth_error_In. exact Eq. }
  destruct i as [v stt]. pose proof (Hpt h q q' (v, stt) Eq Eq' Ei) as Ein.
  destruct (input_value c L q (fst gh) (snd gh) q' v stt Hqi Hfq Hc HL (fun A => gq_pv _ _ _ _ _ (HGI h q gh Eq C) A Hfq) Ein) as (_ & [(A1 & A2 & _ & A4)|(A1 & A2 & _ & A4)]).
  - left. cbn [fst snd]. repeat split; assumption.
  - right. cbn [fst snd]. repeat split; assumption.
Qed.

Lemma truthful_map_fst : forall gs gs' fi, map fst gs' = map fst gs -> truthful gs fi -> truthful gs' fi.
Proof.
  intros gs gs' fi Hm H. unfold truthful in *. revert gs' Hm.
  induction H as [|g i gs ins Hgi H IH]; intros [|g' gs'] Hm; try discriminate; constructor.
  - cbn in Hm. injection Hm as -> _. exact Hgi.
  - apply IH. cbn in Hm. injection Hm as _ ->. reflexivity.
Qed.

(* the histories only grow while the local inputs are registered, and only histories that already reach the
   current frame: what was said about an earlier frame stays true *)
Lemma truthful_grows_all : forall c qs gs qs' gs' fi,
  grows_all c qs gs qs' gs' -> length qs' = length gs' -> length gs' = length gs ->
  truthful_lt c gs fi -> truthful gs' fi.
Proof.
  intros c qs gs qs' gs' fi Hg Hl1 Hl2 (Hlt & H). unfold truthful in *.
  pose proof (Forall2_len _ _ _ H) as Hl3.
  apply Forall2_pointwise; [lia|]. intros h gh' i C Ei.
  destruct (nth_error qs' h) as [q'|] eqn:Eq'; [|apply nth_error_None in Eq'; assert (nth_error gs' h <> None) as X by congruence; apply nth_error_Some in X; lia].
  destruct (Hg h q' gh' Eq' C) as (q & gh & Eq & Cg & (_ & _ & Hh)).
  pose proof (Forall2_nth _ _ _ _ _ _ H Cg Ei) as T. cbv beta in T.
  destruct Hh as [->|(Hreach & _ & _ & ext & ->)]; [exact T|].
  destruct T as [(T1 & T2 & T3)|(T1 & T2 & T3)]; [|lia].
  left. split; [exact T1|]. split; [unfold hlen in *; rewrite app_length; lia|]. rewrite T3. symmetry. apply hval_app_old. lia.
Qed.

(* two readings of a truthful request *)
Lemma truthful_held : forall gs f ins h hist low v st,
  truthful gs (f, ins) -> nth_error gs h = Some (hist, low) -> nth_error ins h = Some (v, st) ->
  (st = Confirmed \/ st = Predicted) /\ (f < hlen hist -> st = Confirmed /\ v = hval hist f) /\
  (st = Predicted -> hlen hist <= f /\ v = predval predict hist).
Proof.
  clear predict_idem predict_zero.
  intros gs f ins h hist low v st H A B. unfold truthful in H. cbn [fst snd] in H.
  pose proof (Forall2_nth _ _ _ _ _ _ H A B) as T. cbv beta in T. unfold truthful1 in T. cbn [fst snd] in T.
  destruct T as [(T1 & T2 & T3)|(T1 & T2 & T3)].
  - split; [left; exact T1|]. split; [intros _; split; assumption|]. intros X. congruence.
  - split; [right; exact T1|]. split; [intros X; lia|]. intros _. split; assumption.
Qed.

Lemma truthful_local : forall sp w d p gs f ins h v st,
  QSg sp w d p gs -> truthful_lt (s_current (ps_sync p)) gs (f, ins) ->
  nth_error (ps_kinds p) h = Some KLocal -> nth_error ins h = Some (v, st) ->
  st = Confirmed /\ exists hist low, nth_error gs h = Some (hist, low) /\ f < hlen hist /\ v = hval hist f.
Proof.
  clear predict_idem predict_zero.
  intros sp w d p gs f ins h v st HQS ((Hf0 & Hfc) & H) Hk Hi. cbn [fst] in Hf0, Hfc.
  pose proof (Forall2_len _ _ _ H) as Hl. cbn [snd] in Hl.
  assert (exists gh, nth_error gs h = Some gh) as ([hist low] & Hg).
  { destruct (nth_error gs h) eqn:X; [eauto|]. exfalso. apply nth_error_None in X.
    assert (h < length ins)%nat by (apply nth_error_Some; congruence). unfold ghost in *. lia. }
  pose proof (qs_qs _ _ _ _ HQS) as HQ. pose proof (QsI_length _ _ _ _ HQ) as Hlq.
  destruct (nth_error_some_len (s_queues (ps_sync p)) gs h (hist, low) Hlq Hg) as (q & Hq).
  pose proof (qs_kinds _ _ _ _ HQS h KLocal q (hist, low) Hk Hq Hg) as HK. cbn [fst] in HK.
  destruct (qs_d _ _ _ _ HQS) as (Hd & _).
  pose proof (KI_local_reach _ _ _ _ Hd HK) as Hreach.
  destruct (truthful_held gs f ins h hist low v st H Hg Hi) as (_ & T & _).
  destruct (T ltac:(lia)) as (T1 & T2).
  split; [exact T1|]. exists hist, low. split; [exact Hg|]. split; [lia|exact T2].
Qed.

(* ---------- a queue that is not predicting has every simulated frame's input (at call boundaries) ---------- *)
Definition PNl (c : Z) (qs : list queue) (gs : list ghost) : Prop :=
  forall h q gh, nth_error qs h = Some q -> nth_error gs h = Some gh -> pi_frame (q_pred q) = NULL -> c <= hlen (fst gh).

Lemma input_pn : forall c L q hist low q' i,
  QI c L q hist low -> q_first_incorrect q = NULL -> 0 <= c -> L <= c ->
  input predict q c = Ok (q', i) -> pi_frame (q_pred q') = NULL -> c + 1 <= hlen hist.
Proof.
  intros c L q hist low q' i [I P1 P2 P4 Rq [Lw1 Lw2] Cf] Hfi Hc HL E Hn.
  destruct (ri_low _ _ _ I) as (L0 & L1 & L2). pose proof (hlen_nonneg hist) as Hnn.
  destruct P1 as [P1|P1].
  - destruct (Z.lt_ge_cases c (hlen hist)) as [Hlt|Hge]; [lia|].
    rewrite (input_predict_start predict q hist low c I Hfi P1 Hge Hc) in E. injection E as <- <-.
    cbn [set_requested_pred q_pred pi_frame] in Hn. unfold NULL in Hn. lia.
  - assert (Hact : pi_frame (q_pred q) <> NULL) by (unfold NULL; lia).
    pose proof (P2 Hact Hfi) as Pl.
    assert (Htl : (if hlen hist =? 0 then NULL else low) <= c) by (destruct (hlen hist =? 0); unfold NULL; lia).
    rewrite (input_predicting predict q hist low c I Hfi P1 Htl) in E. injection E as <- <-.
    cbn [set_last_requested q_pred] in Hn. congruence.
Qed.

Lemma pn_read : forall st qs gs c L qs' ins,
  sync_inputs_go predict c qs st = Ok (qs', ins) -> QsI c L qs gs -> all_clean qs ->
  connected st -> length st = length qs -> 0 <= c -> L <= c -> PNl (c + 1) qs' gs.
Proof.
  intros st qs gs c L qs' ins E HQ Hcl Hcon Hlen Hc HL h q' gh B C Hn.
  destruct (sync_inputs_pointwise st qs c qs' ins E Hcon Hlen) as (L1 & L2 & Hpt).
  destruct (nth_error qs h) as [q|] eqn:Eq; [|apply nth_error_None in Eq; assert (nth_error qs' h <> None) as X by congruence; apply nth_error_Some in X; lia].
  destruct (nth_error ins h) as [i|] eqn:Ei; [|apply nth_error_None in Ei; assert (nth_error qs h <> None) as X by congruence; apply nth_error_Some in X; lia].
  pose proof (Forall2_nth _ _ _ _ _ _ HQ Eq C) as Hqi. cbv beta in Hqi.
  assert (Hfq : q_first_incorrect q = NULL).
  { unfold all_clean in Hcl. rewrite Forall_forall in Hcl. apply Hcl. eapply nth_error_In. exact Eq. }
  eapply input_pn; try eassumption. exact (Hpt h q q' i Eq B Ei).
Qed.

Definition no_loads (R : list request) : Prop := forall f, ~ In (RLoad f) R.

(* re-simulation: n frames are read and advanced; the game history grows by the inputs read *)
Lemma resim_gi : forall n i p gs L mc o p' o' G,
  resim_go predict n i p mc o = Ok (p', o') ->
  connected (ps_status p) ->
  length (ps_status p) = length (s_queues (ps_sync p)) ->
  QsI (s_current (ps_sync p)) L (s_queues (ps_sync p)) gs -> all_clean (s_queues (ps_sync p)) ->
  0 <= s_current (ps_sync p) -> L <= s_current (ps_sync p) ->
  glen G = s_current (ps_sync p) -> GIl (s_current (ps_sync p)) G (s_queues (ps_sync p)) gs ->
  exists R, o_requests o' = o_requests o ++ R /\ no_loads R /\
    GIl (s_current (ps_sync p) + Z.of_nat n) (replay_hist G R) (s_queues (ps_sync p')) gs /\
    glen (replay_hist G R) = s_current (ps_sync p) + Z.of_nat n /\
    ((0 < n)%nat \/ PNl (s_current (ps_sync p)) (s_queues (ps_sync p)) gs ->
     PNl (s_current (ps_sync p) + Z.of_nat n) (s_queues (ps_sync p')) gs) /\
    Forall (truthful_lt (s_current (ps_sync p) + Z.of_nat n) gs) (adv_frames G R).
Proof.
  induction n as [|n IH]; intros i p gs L mc o p' o' G E Hcon Hlen HQ Hcl Hc HL HG HGI.
  - cbn [resim_go] in E. injection E as <- <-. exists []. rewrite app_nil_r, Z.add_0_r. cbn [replay_hist].
    split; [reflexivity|]. split; [intros f []|]. split; [exact HGI|]. split; [exact HG|].
    split; [intros [X|X]; [lia|exact X]|constructor].
  - cbn [resim_go] in E. unfold synchronized_inputs in E.
    destruct (sync_inputs_go_ok predict (ps_status p) (s_queues (ps_sync p)) gs (s_current (ps_sync p)) L HQ Hcl Hlen Hcon Hc HL)
      as (qs' & ins & E0 & HQ' & Hcl' & Hl' & _ & _ & _).
    rewrite E0 in E. cbn [res_bind] in E.
    pose proof (gi_read _ _ _ _ _ _ _ _ E0 HQ Hcl Hcon Hlen Hc HL HG HGI) as HGI1.
    pose proof (pn_read _ _ _ _ _ _ _ E0 HQ Hcl Hcon Hlen Hc HL) as HPN1.
    set (s1 := with_queues (ps_sync p) qs') in *.
    assert (Hsave : exists s2 o2 SV,
               (if ps_sparse p then
                  (if s_current s1 =? mc then res_bind (save_current_state s1) (fun '(s2, r) => Ok (s2, add_req o r)) else Ok (s1, o))
                else
                  (if 0 <? i then res_bind (save_current_state s1) (fun '(s2, r) => Ok (s2, add_req o r)) else Ok (s1, o))) = Ok (s2, o2) /\
                     s_queues s2 = qs' /\ s_current s2 = s_current (ps_sync p) /\
                     o_requests o2 = o_requests o ++ SV /\ no_loads SV /\ (forall G0, replay_hist G0 SV = G0) /\ (forall G0, adv_frames G0 SV = [])).
    { assert (Hsv : exists s2 o2 SV, res_bind (save_current_state s1) (fun '(s2, r) => Ok (s2, add_req o r)) = Ok (s2, o2) /\
                     s_queues s2 = qs' /\ s_current s2 = s_current (ps_sync p) /\
                     o_requests o2 = o_requests o ++ SV /\ no_loads SV /\ (forall G0, replay_hist G0 SV = G0) /\ (forall G0, adv_frames G0 SV = [])).
      { unfold save_current_state. subst s1. cbn [with_queues s_current].
        assert ((s_current (ps_sync p) <? 0) = false) as -> by lia. cbn [res_bind].
        eexists; eexists; exists [RSave (s_current (ps_sync p))]. split; [reflexivity|]. repeat split.
        intros f [A|[]]. discriminate A. }
      assert (Hns : exists s2 o2 SV, Ok (s1, o) = Ok (s2, o2) /\
                     s_queues s2 = qs' /\ s_current s2 = s_current (ps_sync p) /\
                     o_requests o2 = o_requests o ++ SV /\ no_loads SV /\ (forall G0, replay_hist G0 SV = G0) /\ (forall G0, adv_frames G0 SV = [])).
      { exists s1, o, []. split; [reflexivity|]. rewrite app_nil_r. repeat split. intros f []. }
      destruct (ps_sparse p); [destruct (s_current s1 =? mc)|destruct (0 <? i)]; assumption. }
    destruct Hsave as (s2 & o2 & SV & Es & Hq2 & Hc2 & Ho2 & HnS & HrS & HaS). rewrite Es in E. cbn [res_bind] in E.
    set (p1 := with_sync p (advance_frame s2)) in *.
    destruct (IH (i + 1) p1 gs L mc (add_req o2 (RAdvance ins)) p' o' (G ++ [ins]) E) as (R & Ho & HnR & HGI' & HG' & HPN' & HTR').
    + exact Hcon.
    + subst p1. cbn [with_sync ps_status ps_sync advance_frame with_current s_queues]. rewrite Hq2.
      pose proof (QsI_length _ _ _ _ HQ'). pose proof (QsI_length _ _ _ _ HQ). lia.
    + subst p1. cbn [with_sync ps_sync advance_frame with_current s_queues s_current]. rewrite Hq2, Hc2. exact HQ'.
    + subst p1. cbn [with_sync ps_sync advance_frame with_current s_queues]. rewrite Hq2. exact Hcl'.
    + subst p1. cbn [with_sync ps_sync advance_frame with_current s_current]. lia.
    + subst p1. cbn [with_sync ps_sync advance_frame with_current s_current]. lia.
    + subst p1. cbn [with_sync ps_sync advance_frame with_current s_current]. rewrite Hc2, glen_app. lia.
    + subst p1. cbn [with_sync ps_sync advance_frame with_current s_current s_queues]. rewrite Hc2, Hq2. exact HGI1.
    + subst p1. cbn [with_sync ps_sync advance_frame with_current s_current s_queues] in HGI', HG', HPN', HTR'. rewrite Hc2 in HGI', HG', HPN', HTR'. rewrite Hq2 in HPN'.
      exists (SV ++ RAdvance ins :: R). split.
      { rewrite Ho. cbn [add_req o_requests]. rewrite Ho2, <- !app_assoc. reflexivity. }
      split.
      { intros f Hin. apply in_app_or in Hin. destruct Hin as [Hin|[Hin|Hin]]; [exact (HnS f Hin)|discriminate Hin|exact (HnR f Hin)]. }
      rewrite replay_hist_app, HrS. cbn [replay_hist].
      replace (s_current (ps_sync p) + Z.of_nat (S n)) with (s_current (ps_sync p) + 1 + Z.of_nat n) by lia.
      split; [exact HGI'|]. split; [rewrite HG'; lia|]. split; [intros _; apply HPN'; right; exact HPN1|].
      rewrite adv_frames_app, HaS, HrS. cbn [app adv_frames]. constructor; [|exact HTR'].
      split; [cbn [fst]; unfold glen in HG; lia|].
      replace (Z.of_nat (length G)) with (s_current (ps_sync p)) by (unfold glen in HG; lia).
      eapply read_truthful; try eassumption; lia.
Qed.


(* loading frame fi and resetting the predictions keeps the invariant for the shortened history,
   provided fi is not later than any flagged misprediction *)
Lemma gi_load_reset : forall c L G qs gs fi,
  QsI c L qs gs -> GIl c G qs gs -> glen G = c -> 0 <= fi <= c ->
  Forall (fun q => q_first_incorrect q = NULL \/ fi <= q_first_incorrect q) qs ->
  GIl fi (firstn (Z.to_nat fi) G) (map reset_prediction qs) gs.
Proof.
  intros c L G qs gs fi HQ HGI HG Hfi Hmin h qr gh B C.
  rewrite nth_error_map in B. destruct (nth_error qs h) as [q|] eqn:Eq; [|discriminate]. injection B as <-.
  pose proof (HGI h q gh Eq C) as [Gk Gp Gv].
  pose proof (Forall2_nth _ _ _ _ _ _ HQ Eq C) as Hqi. cbv beta in Hqi.
  rewrite Forall_forall in Hmin. pose proof (Hmin q (nth_error_In _ _ Eq)) as Hm.
  constructor; cbn [reset_prediction q_first_incorrect q_pred pi_frame].
  - intros f Hf Hfl _. rewrite gvalL_firstn by lia. apply Gk; [lia|exact Hfl|]. destruct Hm as [Hm|Hm]; [left; exact Hm|right; lia].
  - intros _ f Hf Hfl. rewrite gvalL_firstn by lia.
    destruct (Z.eq_dec (q_first_incorrect q) NULL) as [En|En].
    + apply Gp; [exact En|lia|exact Hfl].
    + destruct (qi_p4 _ _ _ _ _ Hqi En) as (_ & (P1 & P2) & _). destruct Hm as [Hm|Hm]; [congruence|lia].
  - intros A. congruence.
Qed.

Lemma adjust_gi_gen : forall p gs L fi mc o p' o' G,
  adjust_gamestate predict p fi mc o = Ok (p', o') ->
  connected (ps_status p) ->
  length (ps_status p) = length (s_queues (ps_sync p)) ->
  QsI (s_current (ps_sync p)) L (s_queues (ps_sync p)) gs ->
  L <= (if ps_sparse p then s_last_saved (ps_sync p) else fi) -> -1 <= L ->
  Forall (fun q => q_first_incorrect q = NULL \/ (if ps_sparse p then s_last_saved (ps_sync p) else fi) <= q_first_incorrect q) (s_queues (ps_sync p)) ->
  glen G = s_current (ps_sync p) -> GIl (s_current (ps_sync p)) G (s_queues (ps_sync p)) gs ->
  exists R, o_requests o' = o_requests o ++ R /\
    GIl (s_current (ps_sync p)) (replay_hist G R) (s_queues (ps_sync p')) gs /\
    glen (replay_hist G R) = s_current (ps_sync p) /\
    PNl (s_current (ps_sync p)) (s_queues (ps_sync p')) gs /\
    Forall (truthful_lt (s_current (ps_sync p)) gs) (adv_frames G R).
Proof.
  intros p gs L fi mc o p' o' G E Hcon Hlen HQ HLfl HL Hmin HG HGI.
  unfold adjust_gamestate in E.
  set (fl := if ps_sparse p then s_last_saved (ps_sync p) else fi) in *.
  destruct (fi <? fl); [discriminate|].
  destruct (load_frame (ps_sync p) fl) as [[s1 r]| |] eqn:El; cbn [res_bind] in E; try discriminate.
  destruct (load_frame_inv _ _ _ _ El) as (Hfl0 & Hflc & _ & _ & Hs1 & Hr). subst s1 r.
  set (c := s_current (ps_sync p)) in *.
  set (p1 := with_sync p (reset_all (with_current (ps_sync p) fl))) in *.
  destruct (resim_go predict (Z.to_nat (c - fl)) 0 p1 mc (add_req o (RLoad fl))) as [[p2 o2]| |] eqn:Er; cbn [res_bind] in E; try discriminate.
  destruct (negb (s_current (ps_sync p2) =? c)); [discriminate|]. injection E as <- <-.
  destruct (resim_gi (Z.to_nat (c - fl)) 0 p1 gs L mc (add_req o (RLoad fl)) p2 o2 (firstn (Z.to_nat fl) G) Er) as (R & Ho & _ & HGI' & HG' & HPN' & HTR').
  - exact Hcon.
  - subst p1. cbn [with_sync ps_status ps_sync reset_all with_queues s_queues with_current]. rewrite map_length. exact Hlen.
  - subst p1. cbn [with_sync ps_sync reset_all with_queues s_queues s_current with_current]. eapply QsI_reset. exact HQ.
  - subst p1. cbn [with_sync ps_sync reset_all with_queues s_queues with_current]. apply all_clean_reset.
  - subst p1. cbn. lia.
  - subst p1. cbn. lia.
  - subst p1. cbn [with_sync ps_sync reset_all with_queues s_current with_current]. apply glen_firstn. lia.
  - subst p1. cbn [with_sync ps_sync reset_all with_queues s_current s_queues with_current].
    eapply gi_load_reset; try eassumption. lia.
  - subst p1. cbn [with_sync ps_sync reset_all with_queues s_current with_current] in HGI', HG', HPN', HTR'.
    replace (fl + Z.of_nat (Z.to_nat (c - fl))) with c in HGI', HG', HPN', HTR' by lia.
    exists (RLoad fl :: R). split; [rewrite Ho; cbn [add_req o_requests]; rewrite <- app_assoc; reflexivity|].
    cbn [replay_hist adv_frames]. split; [exact HGI'|]. split; [exact HG'|]. split; [apply HPN'; left; lia|exact HTR'].
Qed.

Lemma adjust_gi : forall p gs L fi mc o p' o' G,
  adjust_gamestate predict p fi mc o = Ok (p', o') ->
  ps_sparse p = false -> connected (ps_status p) ->
  length (ps_status p) = length (s_queues (ps_sync p)) ->
  QsI (s_current (ps_sync p)) L (s_queues (ps_sync p)) gs ->
  L < fi -> fi < s_current (ps_sync p) -> -1 <= L ->
  Forall (fun q => q_first_incorrect q = NULL \/ fi <= q_first_incorrect q) (s_queues (ps_sync p)) ->
  glen G = s_current (ps_sync p) -> GIl (s_current (ps_sync p)) G (s_queues (ps_sync p)) gs ->
  exists R, o_requests o' = o_requests o ++ R /\
    GIl (s_current (ps_sync p)) (replay_hist G R) (s_queues (ps_sync p')) gs /\
    glen (replay_hist G R) = s_current (ps_sync p) /\
    PNl (s_current (ps_sync p)) (s_queues (ps_sync p')) gs /\
    Forall (truthful_lt (s_current (ps_sync p)) gs) (adv_frames G R).
Proof.
  intros p gs L fi mc o p' o' G E Hsp Hcon Hlen HQ HLfi Hfic HL Hmin HG HGI.
  apply (adjust_gi_gen p gs L fi mc o p' o' G E Hcon Hlen HQ); rewrite ?Hsp; try assumption. lia.
Qed.


(* ---------- the rollback target is not later than any flagged misprediction ---------- *)
Lemma csc_min : forall qs acc,
  let r := fold_left (fun acc q => let inc := q_first_incorrect q in
                        if negb (inc =? NULL) && ((acc =? NULL) || (inc <? acc)) then inc else acc) qs acc in
  (acc = NULL \/ (r <> NULL /\ r <= acc)) /\
  Forall (fun q => q_first_incorrect q = NULL \/ (r <> NULL /\ r <= q_first_incorrect q)) qs.
Proof.
  induction qs as [|q qs IH]; intros acc; cbn [fold_left]; cbv zeta.
  - split; [|constructor]. destruct (Z.eq_dec acc NULL); [left; assumption|right; split; [assumption|lia]].
  - set (acc' := if negb (q_first_incorrect q =? NULL) && ((acc =? NULL) || (q_first_incorrect q <? acc)) then q_first_incorrect q else acc).
    destruct (IH acc') as (A & B). cbv zeta in A, B.
    set (r := fold_left _ qs acc') in *.
    assert (Hacc' : (acc = NULL \/ (acc' <> NULL /\ acc' <= acc)) /\ (q_first_incorrect q = NULL \/ (acc' <> NULL /\ acc' <= q_first_incorrect q))).
    { subst acc'. destruct (Z.eqb_spec (q_first_incorrect q) NULL) as [En|En]; cbn [negb andb].
      - split; [|left; exact En]. destruct (Z.eq_dec acc NULL); [left; assumption|right; split; [assumption|lia]].
      - destruct (Z.eqb_spec acc NULL) as [Ea|Ea]; cbn [orb].
        + split; [left; exact Ea|right; split; [exact En|lia]].
        + destruct (Z.ltb_spec (q_first_incorrect q) acc).
          * split; [right; split; [exact En|lia]|right; split; [exact En|lia]].
          * split; [right; split; [exact Ea|lia]|right; split; [exact Ea|lia]]. }
    destruct Hacc' as (C & D).
    split.
    + destruct C as [C|(C1 & C2)]; [left; exact C|]. right. destruct A as [A|(A1 & A2)]; [congruence|]. split; [exact A1|lia].
    + constructor; [|exact B].
      destruct D as [D|(D1 & D2)]; [left; exact D|]. right. destruct A as [A|(A1 & A2)]; [congruence|]. split; [exact A1|lia].
Qed.

(* ---------- GQ only looks at the misprediction flag, the prediction slot and the history ---------- *)
Lemma GQ_ext : forall c G h q q' hist,
  q_first_incorrect q' = q_first_incorrect q -> q_pred q' = q_pred q -> GQ c G h q hist -> GQ c G h q' hist.
Proof. intros c G h q q' hist F P [A B C]. constructor; rewrite ?F, ?P; assumption. Qed.


Lemma GQ_grows : forall c G h q q' hist hist',
  grows c q hist q' hist' -> GQ c G h q hist -> GQ c G h q' hist'.
Proof.
  intros c G h q q' hist hist' (F & (P & _) & [->|(Hr & Hpn & Hfn & ext & ->)]) HG; [eapply GQ_ext; eassumption|].
  destruct HG as [A B C]. pose proof (hlen_nonneg hist) as Hnn.
  constructor; rewrite ?F, ?P.
  - intros f Hf Hfl Hc. rewrite hval_app_old by lia. apply A; [exact Hf|lia|exact Hc].
  - intros _ f Hf Hfl. unfold hlen in *. rewrite app_length in Hfl. lia.
  - intros X. congruence.
Qed.


(* the rollback-and-save step of advance_frame, seen from the game's history *)
Lemma handle_rollback_ti : forall p gs cf o p1 o1 G,
  handle_rollback_and_save predict p cf o = Ok (p1, o1) ->
  ps_sparse p = false -> connected (ps_status p) ->
  length (ps_status p) = length (s_queues (ps_sync p)) -> ps_disc_frame p = NULL ->
  QsI (s_current (ps_sync p)) (s_last_confirmed (ps_sync p)) (s_queues (ps_sync p)) gs ->
  -1 <= s_last_confirmed (ps_sync p) -> 0 <= s_current (ps_sync p) ->
  glen G = s_current (ps_sync p) -> GIl (s_current (ps_sync p)) G (s_queues (ps_sync p)) gs ->
  PNl (s_current (ps_sync p)) (s_queues (ps_sync p)) gs ->
  exists R, o_requests o1 = o_requests o ++ R /\
    GIl (s_current (ps_sync p)) (replay_hist G R) (s_queues (ps_sync p1)) gs /\
    glen (replay_hist G R) = s_current (ps_sync p) /\ PNl (s_current (ps_sync p)) (s_queues (ps_sync p1)) gs /\
    Forall (truthful_lt (s_current (ps_sync p)) gs) (adv_frames G R).
Proof.
  intros p gs cf o p1 o1 G E Hsp Hcon Hlen Hdf HQ HL Hc HG HGI HPN.
  unfold handle_rollback_and_save, check_simulation_consistency in E. rewrite Hdf in E.
  pose proof (csc_spec predict (s_queues (ps_sync p)) gs _ _ NULL HQ (or_introl eq_refl)) as Hcsc. cbv zeta in Hcsc.
  pose proof (csc_min (s_queues (ps_sync p)) NULL) as (_ & Hmin). cbv zeta in Hmin.
  set (fi := fold_left _ _ NULL) in *.
  destruct Hcsc as [(Hr & _ & Hcl)|Hr].
  - rewrite Hr, Z.eqb_refl in E. cbn [res_bind] in E. rewrite Hsp in E.
    unfold save_current_state in E. destruct (s_current (ps_sync p) <? 0); [discriminate|]. cbn [res_bind] in E.
    injection E as <- <-. exists [RSave (s_current (ps_sync p))]. cbn [with_sync ps_sync s_queues replay_hist add_req o_requests].
    split; [reflexivity|]. split; [exact HGI|]. split; [exact HG|]. split; [exact HPN|constructor].
  - assert ((fi =? NULL) = false) as Hfn by (unfold NULL in *; lia). rewrite Hfn in E.
    destruct (adjust_gamestate predict p fi cf o) as [[p2 o2]| |] eqn:Ea; cbn [res_bind] in E; try discriminate.
    destruct (adjust_gi p gs (s_last_confirmed (ps_sync p)) fi cf o p2 o2 G Ea Hsp Hcon Hlen HQ) as (R & Ho & HGI' & HG' & HPN' & HTR'); try lia; try assumption.
    { eapply Forall_impl; [|exact Hmin]. cbv beta. intros q [A|(A & B)]; [left; exact A|right; exact B]. }
    cbn [with_disc_frame ps_sparse ps_sync] in E.
    assert (Hsp2 : ps_sparse p2 = false) by (rewrite (adjust_shape predict _ _ _ _ _ _ Ea); cbn; exact Hsp).
    rewrite Hsp2 in E. unfold save_current_state in E.
    destruct (s_current (ps_sync p2) <? 0); [discriminate|]. cbn [res_bind] in E. injection E as <- <-.
    exists (R ++ [RSave (s_current (ps_sync p2))]). cbn [with_sync ps_sync s_queues add_req o_requests].
    split; [rewrite Ho, <- app_assoc; reflexivity|]. rewrite replay_hist_app. cbn [replay_hist].
    split; [exact HGI'|]. split; [exact HG'|]. split; [exact HPN'|].
    rewrite adv_frames_app. cbn [adv_frames]. rewrite app_nil_r. exact HTR'.
Qed.


(* the rollback step hands nothing to the spectators (both saving modes) *)
Lemma resim_sends : forall n i p mc o p' o',
  resim_go predict n i p mc o = Ok (p', o') -> o_spec_sends o' = o_spec_sends o.
Proof.
  induction n as [|n IH]; intros i p mc o p' o' E; cbn [resim_go] in E.
  - injection E as <- <-. reflexivity.
  - apply res_bind_ok in E. destruct E as ([s1 ins] & _ & E).
    apply res_bind_ok in E. destruct E as ([s2 o2] & E2 & E).
    apply IH in E. cbn [add_req o_spec_sends] in E. rewrite E.
    assert (Hsv : forall s2' o2', res_bind (save_current_state s1) (fun '(s2, r) => Ok (s2, add_req o r)) = Ok (s2', o2') ->
                    o_spec_sends o2' = o_spec_sends o).
    { intros s2' o2' X. apply res_bind_ok in X. destruct X as ([s3 r] & _ & X). injection X as <- <-. reflexivity. }
    destruct (ps_sparse p).
    + destruct (s_current s1 =? mc); [exact (Hsv _ _ E2)|injection E2 as <- <-; reflexivity].
    + destruct (0 <? i); [exact (Hsv _ _ E2)|injection E2 as <- <-; reflexivity].
Qed.

Lemma adjust_sends : forall p fi mc o p' o',
  adjust_gamestate predict p fi mc o = Ok (p', o') -> o_spec_sends o' = o_spec_sends o.
Proof.
  intros p fi mc o p' o' E. unfold adjust_gamestate in E. destruct (_ <? _); [discriminate|].
  apply res_bind_ok in E. destruct E as ([s1 r] & _ & E).
  apply res_bind_ok in E. destruct E as ([p2 o2] & Er & E).
  destruct (negb _); [discriminate|]. injection E as <- <-.
  apply resim_sends in Er. exact Er.
Qed.

Lemma handle_rollback_sends : forall p cf o p1 o1,
  handle_rollback_and_save predict p cf o = Ok (p1, o1) -> o_spec_sends o1 = o_spec_sends o.
Proof.
  intros p cf o p1 o1 E. unfold handle_rollback_and_save in E.
  apply res_bind_ok in E. destruct E as ([p2 o2] & E2 & E).
  assert (H2 : o_spec_sends o2 = o_spec_sends o).
  { destruct (_ =? NULL); [injection E2 as <- <-; reflexivity|].
    apply res_bind_ok in E2. destruct E2 as ([p3 o3] & Ea & E2). injection E2 as <- <-. exact (adjust_sends _ _ _ _ _ _ Ea). }
  rewrite <- H2. destruct (ps_sparse p2).
  - unfold check_last_saved_state in E. destruct (_ <? ps_maxpred p2); [injection E as <- <-; reflexivity|].
    apply res_bind_ok in E. destruct E as ([p3 o3] & E3 & E). destruct (negb _); [discriminate|]. injection E as <- <-.
    destruct (_ <=? cf).
    + apply res_bind_ok in E3. destruct E3 as ([s3 r] & _ & E3). injection E3 as <- <-. reflexivity.
    + exact (adjust_sends _ _ _ _ _ _ E3).
  - apply res_bind_ok in E. destruct E as ([s3 r] & _ & E). injection E as <- <-. reflexivity.
Qed.

(* ... and nothing to the remote players *)
Lemma resim_rsends : forall n i p mc o p' o',
  resim_go predict n i p mc o = Ok (p', o') -> o_remote_sends o' = o_remote_sends o.
Proof.
  induction n as [|n IH]; intros i p mc o p' o' E; cbn [resim_go] in E.
  - injection E as <- <-. reflexivity.
  - apply res_bind_ok in E. destruct E as ([s1 ins] & _ & E).
    apply res_bind_ok in E. destruct E as ([s2 o2] & E2 & E).
    apply IH in E. cbn [add_req o_remote_sends] in E. rewrite E.
    assert (Hsv : forall s2' o2', res_bind (save_current_state s1) (fun '(s2, r) => Ok (s2, add_req o r)) = Ok (s2', o2') ->
                    o_remote_sends o2' = o_remote_sends o).
    { intros s2' o2' X. apply res_bind_ok in X. destruct X as ([s3 r] & _ & X). injection X as <- <-. reflexivity. }
    destruct (ps_sparse p).
    + destruct (s_current s1 =? mc); [exact (Hsv _ _ E2)|injection E2 as <- <-; reflexivity].
    + destruct (0 <? i); [exact (Hsv _ _ E2)|injection E2 as <- <-; reflexivity].
Qed.

Lemma adjust_rsends : forall p fi mc o p' o',
  adjust_gamestate predict p fi mc o = Ok (p', o') -> o_remote_sends o' = o_remote_sends o.
Proof.
  intros p fi mc o p' o' E. unfold adjust_gamestate in E. destruct (_ <? _); [discriminate|].
  apply res_bind_ok in E. destruct E as ([s1 r] & _ & E).
  apply res_bind_ok in E. destruct E as ([p2 o2] & Er & E).
  destruct (negb _); [discriminate|]. injection E as <- <-.
  apply resim_rsends in Er. exact Er.
Qed.

Lemma handle_rollback_rsends : forall p cf o p1 o1,
  handle_rollback_and_save predict p cf o = Ok (p1, o1) -> o_remote_sends o1 = o_remote_sends o.
Proof.
  intros p cf o p1 o1 E. unfold handle_rollback_and_save in E.
  apply res_bind_ok in E. destruct E as ([p2 o2] & E2 & E).
  assert (H2 : o_remote_sends o2 = o_remote_sends o).
  { destruct (_ =? NULL); [injection E2 as <- <-; reflexivity|].
    apply res_bind_ok in E2. destruct E2 as ([p3 o3] & Ea & E2). injection E2 as <- <-. exact (adjust_rsends _ _ _ _ _ _ Ea). }
  rewrite <- H2. destruct (ps_sparse p2).
  - unfold check_last_saved_state in E. destruct (_ <? ps_maxpred p2); [injection E as <- <-; reflexivity|].
    apply res_bind_ok in E. destruct E as ([p3 o3] & E3 & E). destruct (negb _); [discriminate|]. injection E as <- <-.
    destruct (_ <=? cf).
    + apply res_bind_ok in E3. destruct E3 as ([s3 r] & _ & E3). injection E3 as <- <-. reflexivity.
    + exact (adjust_rsends _ _ _ _ _ _ E3).
  - apply res_bind_ok in E. destruct E as ([s3 r] & _ & E). injection E as <- <-. reflexivity.
Qed.


Lemma spec_send_rsends : forall n p cf o p' o', spec_send_go n p cf o = Ok (p', o') ->
  o_remote_sends o' = o_remote_sends o /\ ps_outgoing p' = ps_outgoing p /\ ps_last_sent_out p' = ps_last_sent_out p.
Proof.
  induction n as [|n IH]; intros p cf o p' o' E; cbn [spec_send_go] in E.
  - injection E as <- <-. repeat split.
  - destruct (cf <? ps_next_spec p); [injection E as <- <-; repeat split|].
    apply res_bind_ok in E. destruct E as (ins & _ & E).
    destruct (negb _); [discriminate|]. destruct (negb _); [discriminate|].
    apply IH in E. destruct E as (E1 & E2 & E3). cbn [with_next_spec ps_outgoing ps_last_sent_out] in E2, E3.
    split; [|split; assumption]. rewrite E1. destruct (existsb _ _); reflexivity.
Qed.

(* what send_ready_outgoing_inputs_to_remotes sends: rounds of (frame, every local player's held input for it) *)
Lemma send_ready_outgoing_out : forall p o p' o' gs,
  send_ready_outgoing p o = Ok (p', o') -> OIg p gs ->
  (forall h, In h (local_handles p) -> exists gh, nth_error gs (Z.to_nat h) = Some gh) ->
  OIg p' gs /\ exists rounds, o_remote_sends o' = o_remote_sends o ++ rounds /\ rounds_ok (local_handles p) gs rounds.
Proof.
  intros p o p' o' gs E HO Hgs. unfold send_ready_outgoing in E.
  destruct (ps_remotes p) as [|e0 rest] eqn:Er.
  - injection E as <- <-. split; [exact HO|]. exists []. rewrite app_nil_r. split; [reflexivity|constructor].
  - assert (Hr : ps_remotes p <> []) by (rewrite Er; discriminate). specialize (HO Hr).
    destruct (local_handles p) as [|h0 hs] eqn:El.
    + injection E as <- <-. split; [intros _; exact HO|]. exists []. rewrite app_nil_r. split; [reflexivity|constructor].
    + rewrite <- El in E, Hgs |- *.
      destruct (send_ready_go_out _ _ _ _ _ gs E HO ltac:(rewrite El; discriminate) Hgs) as (HO' & _ & rounds & R1 & _ & _ & R4).
      split; [intros _; exact HO'|]. exists rounds. split; [exact R1|exact R4].
Qed.

(* the boundary half of the invariant: between calls nothing is queued for the remotes, and every local player
   holds exactly the frames up to the last one sent *)
Definition OB (p : p2p) (gs : list ghost) : Prop :=
  ps_remotes p <> [] -> local_handles p <> [] ->
  ps_outgoing p = [] /\
  forall h gh, In h (local_handles p) -> nth_error gs (Z.to_nat h) = Some gh -> hlen (fst gh) = ps_last_sent_out p + 1.
Definition OIb (p : p2p) (gs : list ghost) : Prop := OIg p gs /\ OB p gs.

Lemma OB_same : forall p p' gs gs', OB p gs -> ps_outgoing p' = ps_outgoing p -> ps_last_sent_out p' = ps_last_sent_out p ->
  local_handles p' = local_handles p -> (ps_remotes p' <> [] -> ps_remotes p <> []) ->
  (forall h, In h (local_handles p) ->
     option_map fst (nth_error gs' (Z.to_nat h)) = option_map fst (nth_error gs (Z.to_nat h))) -> OB p' gs'.
Proof.
  intros p p' gs gs' H E1 E2 E3 E4 E5 Hr Hl. rewrite E3 in Hl. destruct (H (E4 Hr) Hl) as (A & B).
  rewrite E1, E2, E3. split; [exact A|]. intros h gh' Hin Hg. pose proof (E5 h Hin) as X. unfold ghost in *. rewrite Hg in X.
  cbn [option_map] in X. destruct (nth_error gs (Z.to_nat h)) as [gh|] eqn:G0; [|discriminate]. cbn [option_map] in X.
  injection X as X. rewrite X. exact (B h gh Hin G0).
Qed.

Lemma map_fst_opt : forall (gs gs' : list ghost) n, map fst gs' = map fst gs ->
  option_map fst (nth_error gs' n) = option_map fst (nth_error gs n).
Proof.
  intros gs gs' n E. pose proof (f_equal (fun l => nth_error l n) E) as X. cbv beta in X. unfold ghost in *.
  rewrite !nth_error_map in X. exact X.
Qed.

Lemma OIb_same_local : forall p p' gs gs', OIb p gs -> ps_outgoing p' = ps_outgoing p ->
  ps_last_sent_out p' = ps_last_sent_out p -> local_handles p' = local_handles p ->
  (ps_remotes p' <> [] -> ps_remotes p <> []) ->
  (forall h, In h (local_handles p) ->
     option_map fst (nth_error gs' (Z.to_nat h)) = option_map fst (nth_error gs (Z.to_nat h))) -> OIb p' gs'.
Proof.
  intros p p' gs gs' (HO & HB) E1 E2 E3 E4 E5. split.
  - intros Hr. exact (OI_same_local p p' gs gs' (HO (E4 Hr)) E1 E2 E3 E5).
  - exact (OB_same p p' gs gs' HB E1 E2 E3 E4 E5).
Qed.

Lemma send_ready_outgoing_done : forall p o p' o' gs H,
  send_ready_outgoing p o = Ok (p', o') -> OIg p gs ->
  (forall h, In h (local_handles p) -> exists gh, nth_error gs (Z.to_nat h) = Some gh) ->
  (forall h gh, In h (local_handles p) -> nth_error gs (Z.to_nat h) = Some gh -> hlen (fst gh) = H) ->
  ps_remotes p <> [] -> local_handles p <> [] -> ps_outgoing p' = [] /\ ps_last_sent_out p' = H - 1.
Proof.
  intros p o p' o' gs H E HO Hgs Hall Hr Hl. unfold send_ready_outgoing in E.
  destruct (ps_remotes p) as [|e0 rest] eqn:Er; [congruence|].
  destruct (local_handles p) as [|h0 hs] eqn:El; [congruence|]. rewrite <- El in E, Hgs, Hall, Hl.
  apply (send_ready_go_done _ _ _ _ _ gs H E (HO ltac:(rewrite Er; discriminate)) Hl Hgs); [lia|exact Hall].
Qed.

(* the invariant between the game's history and the session, at call boundaries *)
Definition TI (p : p2p) (gs : list ghost) (G : ghist) : Prop :=
  glen G = s_current (ps_sync p) /\
  GIl (s_current (ps_sync p)) G (s_queues (ps_sync p)) gs /\
  PNl (s_current (ps_sync p)) (s_queues (ps_sync p)) gs.

Lemma GIl_grows : forall c G qs gs qs' gs', grows_all c qs gs qs' gs' -> GIl c G qs gs -> GIl c G qs' gs'.
Proof.
  intros c G qs gs qs' gs' Hg HGI h q' gh' B C. destruct (Hg h q' gh' B C) as (q & gh & B0 & C0 & Hgr).
  eapply GQ_grows; [exact Hgr|]. apply HGI; assumption.
Qed.
Lemma PNl_grows : forall c qs gs qs' gs', grows_all c qs gs qs' gs' -> PNl c qs gs -> PNl c qs' gs'.
Proof.
  intros c qs gs qs' gs' Hg HPN h q' gh' B C Hn. destruct (Hg h q' gh' B C) as (q & gh & B0 & C0 & (F & (P & _) & Hh)).
  rewrite P in Hn. pose proof (HPN h q gh B0 C0 Hn) as X.
  destruct Hh as [->|(_ & _ & _ & ext & ->)]; [exact X|]. unfold hlen in *. rewrite app_length. lia.
Qed.

(* what the rollback step must deliver, progress (HRpost) and timeline together *)
Definition HRti (p : p2p) (gs : list ghost) (cf : Z) (o : pout) (G : ghist) : Prop :=
  exists p1 o1 R, HRpost predict p gs cf o p1 o1 /\ o_requests o1 = o_requests o ++ R /\
    GIl (s_current (ps_sync p)) (replay_hist G R) (s_queues (ps_sync p1)) gs /\
    glen (replay_hist G R) = s_current (ps_sync p) /\ PNl (s_current (ps_sync p)) (s_queues (ps_sync p1)) gs /\
    Forall (truthful_lt (s_current (ps_sync p)) gs) (adv_frames G R).

Lemma QS_local_gs : forall sp w d p gs, QSg sp w d p gs ->
  forall h, In h (local_handles p) -> exists gh, nth_error gs (Z.to_nat h) = Some gh.
Proof.
  intros sp w d p gs HQS h Hin. apply (local_handles_spec p h (QS_nplayers _ _ _ _ _ HQS)) in Hin. destruct Hin as (Hr & _).
  destruct (qs_n _ _ _ _ HQS) as (Hn1 & _). destruct (nth_error gs (Z.to_nat h)) as [gh|] eqn:E; [eauto|]. apply nth_error_None in E. lia.
Qed.

Lemma local_handles_rest : forall p p', p_rest p p' -> local_handles p' = local_handles p.
Proof.
  intros p p' (A & _ & _ & _ & _ & B & C & _). unfold local_handles, kind_at. rewrite A, B, C. reflexivity.
Qed.

Lemma spec_sends_rsends : forall p cf o p' o', send_confirmed_inputs_to_spectators p cf o = Ok (p', o') ->
  o_remote_sends o' = o_remote_sends o.
Proof.
  intros p cf o p' o' E. unfold send_confirmed_inputs_to_spectators in E.
  destruct (ps_spectators p); [injection E as <- <-; reflexivity|]. apply spec_send_rsends in E. tauto.
Qed.

Lemma advance_rollback_timeline_gen : forall sp p gs w d o p' o' G,
  advance_rollback_frame predict p o = Ok (p', o') ->
  QSg sp w d p gs -> Forall (fun c => cs_last c < I32MAX) (ps_status p) ->
  (forall h, In h (local_handles p) -> exists pi, assoc_get (ps_pending p) h = Some pi) ->
  (forall cf, confirmed_frame p = Ok cf -> s_last_confirmed (ps_sync p) <= cf ->
     Forall (fun g : ghost => cf <= hlen (fst g) - 1) gs -> HRti p gs cf o G) ->
  TI p gs G ->
  exists gs' R, o_requests o' = o_requests o ++ R /\ QSg sp w d p' gs' /\ TI p' gs' (replay_hist G R) /\
    hist_step d (ps_pending p) (local_handles p) gs gs' /\ ps_kinds p' = ps_kinds p /\
    Forall (truthful_lt (s_current (ps_sync p')) gs') (adv_frames G R) /\
    exists cf, confirmed_frame p = Ok cf /\ o_spec_sends o' = o_spec_sends o ++ spec_sent p gs cf /\
               ps_next_spec p' = next_spec_after p cf /\ ps_spectators p' = ps_spectators p /\
               (OIg p gs -> OIg p' gs' /\ OB p' gs' /\ exists rounds, o_remote_sends o' = o_remote_sends o ++ rounds /\
                                                         rounds_ok (local_handles p) gs' rounds).
Proof.
  intros sp p gs w d o p' o' G E HQS Hbnd Hpend Hroll (HG & HGI & HPN).
  destruct (rollback_confirm_gen predict sp p gs w d o HQS Hbnd)
    as (cf & p1 & o1 & p2 & o2 & s3 & gs3 & Ecf & Er & Hshape & Es & Hp2 & Ho2 & Hsent & E3 & HQS3 & Hcl3 & Hmap3 & Hc3 & Hsame3 & Hc1 & _ & _ & HLcf & Hcfg).
  { intros cf0 A B C. destruct (Hroll cf0 A B C) as (pa & oa & _ & X & _). exists pa, oa. exact X. }
  pose proof HQS as [Hw Hd Hmode Hn Hconn Hgos HQ Hlast Hfr Hkinds Hpe Hsok].
  destruct Hmode as (Hrun & Hsp & Hdf). destruct Hn as (Hn1 & Hn2 & Hn3 & Hn4). destruct Hfr as (HfL & Hfc & Hfw).
  pose proof (QsI_length _ _ _ _ HQ) as Hlq.
  destruct (Hroll cf Ecf HLcf Hcfg) as (p1' & o1' & R1 & (Er' & _) & Ho1 & HGI1 & HG1 & HPN1 & HTR1).
  rewrite Er in Er'. injection Er' as <- <-.
  unfold advance_rollback_frame in E. rewrite Ecf in E. cbn [res_bind] in E. rewrite Er in E. cbn [res_bind] in E.
  rewrite Es in E. cbn [res_bind] in E.
  assert (Hf2 : ps_sparse p2 = sp /\ ps_sync p2 = ps_sync p1 /\ local_handles (with_sync p2 s3) = local_handles p /\
                ps_pending (with_sync p2 s3) = ps_pending p /\ ps_kinds (with_sync p2 s3) = ps_kinds p /\
                ps_next_spec (with_sync p2 s3) = next_spec_after p cf /\ ps_spectators (with_sync p2 s3) = ps_spectators p).
  { rewrite Hp2, Hshape. repeat split. exact Hsp. }
  destruct Hf2 as (Hsp2 & Hsy2 & Hlh3 & Hpe3 & Hkk3 & Hns3 & Hss3).
  rewrite Hsp2, Hsy2, E3 in E. cbn [res_bind] in E.
  pose proof (handle_rollback_sends _ _ _ _ _ Er) as Hspec_o1.
  set (p3 := with_sync p2 s3) in *.
  assert (Hpend3 : forall h, In h (local_handles p3) -> exists pi, assoc_get (ps_pending p3) h = Some pi).
  { intros h Hin. rewrite Hpe3. apply Hpend. rewrite <- Hlh3. exact Hin. }
  set (c := s_current (ps_sync p)) in *. set (G1 := replay_hist G R1) in *.
  (* the confirmation step changes neither the flags nor the histories *)
  assert (HGI3 : GIl c G1 (s_queues s3) gs3 /\ PNl c (s_queues s3) gs3).
  { split.
    - intros h q3 gh3 B C. destruct (map_fst_nth gs gs3 h gh3 Hmap3 C) as (gh & Cg & Efst). rewrite <- Efst.
      pose proof (Forall2_len _ _ _ Hsame3) as Hl13.
      destruct (nth_error_some_len (s_queues (ps_sync p1)) (s_queues s3) h q3 Hl13 B) as (q1 & B1).
      destruct (Forall2_nth _ _ _ _ _ _ Hsame3 B1 B) as (P & F).
      eapply GQ_ext; [exact F|exact P|]. apply HGI1; assumption.
    - intros h q3 gh3 B C Hnq3. destruct (map_fst_nth gs gs3 h gh3 Hmap3 C) as (gh & Cg & Efst). rewrite <- Efst.
      pose proof (Forall2_len _ _ _ Hsame3) as Hl13.
      destruct (nth_error_some_len (s_queues (ps_sync p1)) (s_queues s3) h q3 Hl13 B) as (q1 & B1).
      destruct (Forall2_nth _ _ _ _ _ _ Hsame3 B1 B) as (P & F).
      apply (HPN1 h q1 gh B1 Cg). congruence. }
  destruct HGI3 as (HGI3 & HPN3).
  (* register the local inputs *)
  pose proof (QS_nplayers _ _ _ _ _ HQS3) as Hnp3.
  assert (Hall : Forall (fun h => 0 <= h /\ nth_error (ps_kinds p3) (Z.to_nat h) = Some KLocal /\
                                   exists pi, assoc_get (ps_pending p3) h = Some pi) (local_handles p3)).
  { apply Forall_forall. intros h Hin. pose proof Hin as Hin2. apply (local_handles_spec p3 h Hnp3) in Hin2.
    destruct Hin2 as (Hr & Hk). split; [lia|]. split; [exact Hk|]. apply Hpend3. exact Hin. }
  destruct (register_go_progress sp (local_handles p3) w d p3 gs3 HQS3 Hcl3 (local_handles_nodup p3) Hall)
    as (p4 & gs4 & E4 & HQS4 & Hcl4 & Hrest4 & Hc4 & HL4 & Hdone4 & Hgrow4 & Hhist4 & HO4).
  rewrite Hpe3, Hlh3 in Hhist4.
  assert (Hhist : hist_step d (ps_pending p) (local_handles p) gs gs4).
  { intros h0 gh' A. destruct (Hhist4 h0 gh' A) as (gh3 & A3 & B3).
    destruct (map_fst_nth gs gs3 h0 gh3 Hmap3 A3) as (gh & Ag & Efst). exists gh. split; [exact Ag|]. rewrite Efst. exact B3. }
  unfold register_local_inputs in E. rewrite E4 in E. cbn [res_bind] in E.
  destruct (send_ready_outgoing_ok p4 o2) as (p5 & o5 & E5 & O5). rewrite E5 in E. cbn [res_bind] in E.
  pose proof (QS_out_only _ _ _ _ _ _ HQS4 O5) as HQS5.
  assert (Hs5 : ps_sync p5 = ps_sync p4) by (rewrite O5; reflexivity).
  (* what goes out to the remote players *)
  assert (HOUT : OIg p gs -> OIg p5 gs4 /\ OB p5 gs4 /\ exists rounds, o_remote_sends o5 = o_remote_sends o ++ rounds /\
                                                          rounds_ok (local_handles p) gs4 rounds).
  { intros HO.
    assert (HO3 : OIg p3 gs3).
    { intros Hr3. assert (Hr : ps_remotes p <> []) by (unfold p3 in Hr3; rewrite Hp2, Hshape in Hr3; exact Hr3).
      eapply OI_same; [exact (HO Hr)| | |exact Hlh3|exact Hmap3]; unfold p3; rewrite Hp2, Hshape; reflexivity. }
    pose proof (local_handles_rest _ _ Hrest4) as Hlh4. rewrite Hlh3 in Hlh4.
    destruct (send_ready_outgoing_out p4 o2 p5 o5 gs4 E5 (HO4 HO3) (QS_local_gs _ _ _ _ _ HQS4)) as (HO5 & rounds & Q1 & Q2).
    split; [exact HO5|]. split.
    { (* everything registered has been sent *)
      intros Hr5 Hl5.
      assert (Hr4 : ps_remotes p4 <> []) by (rewrite O5 in Hr5; exact Hr5).
      assert (Hl4 : local_handles p4 <> []) by (rewrite O5 in Hl5; exact Hl5).
      assert (Hall4 : forall h gh, In h (local_handles p4) -> nth_error gs4 (Z.to_nat h) = Some gh -> hlen (fst gh) = s_current (ps_sync p3) + d + 1).
      { intros h gh Hin Hg. rewrite (local_handles_rest _ _ Hrest4) in Hin.
        pose proof (Hdone4 h (local_handles_ge _ _ Hin) (or_introl Hin)) as Hdn. unfold Done in Hdn.
        pose proof (QsI_length _ _ _ _ (qs_qs _ _ _ _ HQS4)) as Hl44.
        destruct (nth_error_some_len (s_queues (ps_sync p4)) gs4 (Z.to_nat h) gh Hl44 Hg) as (q & Hq).
        destruct (Hdn q gh Hq Hg) as (X & _). exact X. }
      destruct (send_ready_outgoing_done p4 o2 p5 o5 gs4 _ E5 (HO4 HO3) (QS_local_gs _ _ _ _ _ HQS4) Hall4 Hr4 Hl4) as (Y1 & Y2).
      split; [exact Y1|]. intros h gh Hin Hg. rewrite Y2.
      assert (Hin4 : In h (local_handles p4)) by (rewrite O5 in Hin; exact Hin).
      rewrite (Hall4 h gh Hin4 Hg). lia. }
    exists rounds. rewrite Hlh4 in Q2. split; [|exact Q2].
    rewrite Q1, (spec_sends_rsends _ _ _ _ _ Es), (handle_rollback_rsends _ _ _ _ _ Er). reflexivity. }
  assert (Ho5 : o_requests o5 = o_requests o1 /\ o_spec_sends o5 = o_spec_sends o ++ spec_sent p gs cf).
  { destruct (send_ready_outgoing_frame _ _ _ _ E5) as (_ & _ & X1 & X2). split; [congruence|]. rewrite X2, Hsent, Hspec_o1. reflexivity. }
  destruct Ho5 as (Ho5 & Hsp5).
  assert (Hrest5 : ps_next_spec p5 = next_spec_after p cf /\ ps_spectators p5 = ps_spectators p).
  { rewrite O5. cbn [with_outgoing ps_next_spec ps_spectators].
    destruct Hrest4 as (_ & _ & _ & _ & _ & _ & _ & _ & X2 & _ & X1).
    split; congruence. }
  destruct Hrest5 as (Hns5 & Hss5).
  assert (Hmp5 : ps_maxpred p5 = w) by (destruct (qs_w _ _ _ _ HQS5) as (_ & X & _); exact X).
  rewrite Hmp5, Hs5 in E.
  assert (Hk5 : ps_kinds p5 = ps_kinds p3).
  { rewrite O5. cbn [with_outgoing ps_kinds]. destruct Hrest4 as (_ & _ & _ & _ & _ & X & _). exact X. }
  subst p3. cbn [with_sync ps_sync] in Hc4, Hgrow4, Hdone4. rewrite Hc3 in Hc4, Hgrow4, Hdone4. fold c in Hc4, Hgrow4, Hdone4. set (p3 := with_sync p2 s3) in *.
  pose proof (GIl_grows _ _ _ _ _ _ Hgrow4 HGI3) as HGI4. pose proof (PNl_grows _ _ _ _ _ Hgrow4 HPN3) as HPN4.
  assert (HTR4 : Forall (truthful_lt c gs4) (adv_frames G R1)).
  { pose proof (QsI_length _ _ _ _ (qs_qs _ _ _ _ HQS4)) as Hl44.
    assert (Hl43 : length gs4 = length gs3).
    { destruct (qs_n _ _ _ _ HQS4) as (_ & _ & A & _). destruct (qs_n _ _ _ _ HQS3) as (_ & _ & B & _).
      destruct Hrest4 as (_ & _ & _ & _ & _ & X & _). rewrite X in A. congruence. }
    eapply Forall_impl; [|exact HTR1]. intros fi (Hlt & Ht). split; [exact Hlt|].
    apply (truthful_grows_all c (s_queues s3) gs3 (s_queues (ps_sync p4)) gs4 fi Hgrow4 Hl44 Hl43).
    split; [exact Hlt|]. apply (truthful_map_fst gs gs3); [exact Hmap3|exact Ht]. }
  set (s4 := ps_sync p4) in *.
  set (L4 := s_last_confirmed s4) in *.
  set (fa := if L4 =? NULL then s_current s4 else s_current s4 - L4) in *.
  destruct (fa <? w) eqn:Eg.
  2:{ injection E as <- <-. exists gs4, R1. split; [rewrite Ho5; exact Ho1|]. split; [exact HQS5|]. split; [|split; [exact Hhist|split; [congruence|split; [rewrite Hs5; fold s4; rewrite Hc4; exact HTR4|exists cf; split; [exact Ecf|split; [exact Hsp5|split; [exact Hns5|split; [exact Hss5|exact HOUT]]]]]]]].
      unfold TI. rewrite Hs5. fold s4. rewrite Hc4. split; [exact HG1|]. split; [exact HGI4|exact HPN4]. }
  pose proof HQS5 as [Hw5 Hd5 Hmode5 Hn5 Hconn5 Hgos5 HQ5 Hlast5 Hfr5 Hkinds5 Hpe5 Hsok5].
  rewrite Hs5 in HQ5, Hfr5. fold s4 L4 in HQ5, Hfr5. rewrite Hc4 in HQ5, Hfr5.
  destruct Hn5 as (Hn51 & Hn52 & Hn53 & Hn54). destruct Hfr5 as (HfL5 & Hfc5 & Hfw5).
  pose proof (QsI_length _ _ _ _ HQ5) as Hlq5.
  destruct (sync_inputs_go_ok predict (ps_status p5) (s_queues s4) gs4 c L4 HQ5 Hcl4 ltac:(lia) Hconn5 Hfc5 ltac:(lia))
    as (qs' & ins & E0 & _).
  unfold synchronized_inputs in E. rewrite Hc4, E0 in E. cbn [res_bind] in E. injection E as <- <-.
  rewrite Hs5 in Hkinds5. fold s4 in Hkinds5. rewrite Hc4 in Hkinds5.
  destruct (sync_inputs_go_ok predict (ps_status p5) (s_queues s4) gs4 c L4 HQ5 Hcl4 ltac:(lia) Hconn5 Hfc5 ltac:(lia))
    as (qs'' & ins'' & E0' & HQ' & Hcl' & Hl' & Hst' & Hsu & Hkn).
  rewrite E0 in E0'. injection E0' as <- <-.
  exists gs4, (R1 ++ [RAdvance ins]). cbn [add_req o_requests].
  split; [rewrite Ho5, Ho1, <- app_assoc; reflexivity|].
  rewrite with_pending_sync.
  split.
  - apply (QS_resync _ w d (with_pending p5 []) gs4 _ gs4 (QS_no_pending _ _ _ _ _ HQS5)).
    + cbn. rewrite Hs5. reflexivity.
    + cbn [advance_frame with_current with_queues s_current s_last_confirmed s_queues]. fold L4. rewrite Hc4. exact HQ'.
    + reflexivity.
    + cbn [advance_frame with_current with_queues s_current s_last_confirmed]. fold L4. rewrite Hc4.
      subst fa. rewrite Hc4 in Eg. destruct (Z.eqb_spec L4 NULL); unfold NULL in *; lia.
    + cbn [advance_frame with_current with_queues s_current s_queues with_pending ps_kinds]. rewrite Hc4.
      intros h k q' gh A B C.
      destruct (nth_error_some_len (s_queues s4) gs4 h gh ltac:(lia) C) as (q & Bq).
      pose proof (Hkinds5 h k q gh A Bq C) as HK.
      destruct (Forall2_nth _ _ _ _ _ _ Hsu Bq B) as (D1 & U1).
      destruct k as [|e|e]; cbn [KI] in HK |- *.
      * destruct HK as (Hdel & Hpn & _).
        assert (Hin : In (Z.of_nat h) (local_handles p3)).
        { apply (local_handles_spec p3 _ Hnp3). rewrite Nat2Z.id. rewrite <- Hk5. split; [|exact A].
          assert (nth_error (ps_kinds p5) h <> None) as X by congruence. apply nth_error_Some in X.
          rewrite Hk5 in X. lia. }
        pose proof (Hdone4 (Z.of_nat h) ltac:(lia) (or_introl Hin)) as Hdn. unfold Done in Hdn.
        rewrite Nat2Z.id in Hdn. fold s4 in Hdn.
        destruct (Hdn q gh Bq C) as (Hh & Hu).
        split; [congruence|]. split.
        -- apply (Hkn h q gh q' Bq C B); [lia|exact Hpn].
        -- right. left. split; [lia|]. split; [lia|lia].
      * rewrite D1, U1. exact HK.
      * exact HK.
    + intros h pi X. discriminate X.
    + eapply spec_ok_grow; [exact Hsok5|reflexivity|reflexivity|cbn; rewrite Hs5; reflexivity|apply grow_refl].
  - split; [|split; [exact Hhist|split; [cbn [with_sync with_pending ps_kinds]; congruence|split; [|exists cf; split; [exact Ecf|split; [cbn [add_req o_spec_sends]; exact Hsp5|split; [cbn; exact Hns5|split; [cbn; exact Hss5|]]]]]]]].
    3:{ intros HO. destruct (HOUT HO) as (HO5 & HB5 & rounds & Q1 & Q2). split; [|split; [|exists rounds; split; [exact Q1|exact Q2]]].
        - intros Hr. eapply OI_same; [exact (HO5 Hr)|reflexivity|reflexivity|reflexivity|reflexivity].
        - eapply OB_same; [exact HB5|reflexivity|reflexivity|reflexivity|intros X; exact X|reflexivity]. }
    2:{ cbn [with_sync with_pending ps_sync advance_frame with_current with_queues s_current]. rewrite Hc4.
        rewrite adv_frames_app. cbn [adv_frames]. apply Forall_app. split.
        - eapply Forall_impl; [|exact HTR4]. intros fi (Hlt & Ht). split; [lia|exact Ht].
        - constructor; [|constructor]. fold G1. replace (Z.of_nat (length G1)) with c by (unfold glen in HG1; lia).
          split; [cbn [fst]; lia|]. eapply read_truthful; try eassumption; lia. }
    unfold TI. cbn [with_sync ps_sync advance_frame with_current with_queues s_current s_queues]. rewrite Hc4.
    rewrite replay_hist_app. cbn [replay_hist]. fold G1.
    split; [rewrite glen_app; lia|]. split.
    + eapply gi_read; try eassumption; lia.
    + eapply pn_read; try eassumption; lia.
Qed.



Lemma dense_rollback_ti : forall p gs g w d o cf G,
  QS w d p gs -> JI w p g -> 1 <= w -> s_last_confirmed (ps_sync p) <= cf -> TI p gs G -> HRti p gs cf o G.
Proof.
  intros p gs g w d o cf G HQS HJI Hw1p HLcf (HG & HGI & HPN).
  destruct (dense_rollback predict p gs g w d o cf HQS HJI Hw1p HLcf) as (p1 & o1 & HR).
  pose proof HR as (Er & _).
  pose proof HQS as [Hw Hd Hmode Hn Hconn Hgos HQ Hlast Hfr Hkinds Hpe Hsok].
  destruct Hmode as (Hrun & Hsp & Hdf). destruct Hn as (Hn1 & Hn2 & Hn3 & Hn4). destruct Hfr as (HfL & Hfc & Hfw).
  pose proof (QsI_length _ _ _ _ HQ) as Hlq.
  destruct (handle_rollback_ti p gs cf o p1 o1 G Er Hsp Hconn ltac:(lia) Hdf HQ ltac:(lia) Hfc HG HGI HPN)
    as (R1 & Ho1 & HGI1 & HG1 & HPN1 & HTR1).
  exists p1, o1, R1. split; [exact HR|]. split; [exact Ho1|]. split; [exact HGI1|]. split; [exact HG1|]. split; [exact HPN1|exact HTR1].
Qed.

Lemma advance_rollback_timeline : forall p gs g w d o p' o' G,
  advance_rollback_frame predict p o = Ok (p', o') ->
  QS w d p gs -> JI w p g -> 1 <= w -> Forall (fun c => cs_last c < I32MAX) (ps_status p) ->
  (forall h, In h (local_handles p) -> exists pi, assoc_get (ps_pending p) h = Some pi) ->
  TI p gs G ->
  exists gs' R, o_requests o' = o_requests o ++ R /\ QS w d p' gs' /\ TI p' gs' (replay_hist G R) /\
    hist_step d (ps_pending p) (local_handles p) gs gs' /\ ps_kinds p' = ps_kinds p /\
    Forall (truthful_lt (s_current (ps_sync p')) gs') (adv_frames G R) /\
    exists cf, confirmed_frame p = Ok cf /\ o_spec_sends o' = o_spec_sends o ++ spec_sent p gs cf /\
               ps_next_spec p' = next_spec_after p cf /\ ps_spectators p' = ps_spectators p /\
               (OIg p gs -> OIg p' gs' /\ OB p' gs' /\ exists rounds, o_remote_sends o' = o_remote_sends o ++ rounds /\
                                                         rounds_ok (local_handles p) gs' rounds).
Proof.
  intros p gs g w d o p' o' G E HQS HJI Hw1p Hbnd Hpend HTI.
  apply (advance_rollback_timeline_gen false p gs w d o p' o' G E HQS Hbnd Hpend); [|exact HTI].
  intros cf _ HLcf _. exact (dense_rollback_ti p gs g w d o cf G HQS HJI Hw1p HLcf HTI).
Qed.

(* what one call hands to the spectators: the next n frames after those already sent, consecutive,
   each with the inputs held for it (n = 0 for every call other than a successful advance_frame);
   every frame sent is one for which every player's input is already held *)
Definition grows_gs (gs gs' : list ghost) : Prop :=
  length gs' = length gs /\
  forall h g', nth_error gs' h = Some g' -> exists g ext, nth_error gs h = Some g /\ fst g' = fst g ++ ext.
Lemma grows_gs_refl : forall gs, grows_gs gs gs.
Proof. intros gs. split; [reflexivity|]. intros h g' H. exists g', []. rewrite app_nil_r. split; [exact H|reflexivity]. Qed.
Lemma grows_gs_trans : forall a b c, grows_gs a b -> grows_gs b c -> grows_gs a c.
Proof.
  intros a b c (L1 & H1) (L2 & H2). split; [congruence|]. intros h g' H.
  destruct (H2 h g' H) as (g1 & e1 & A1 & B1). destruct (H1 h g1 A1) as (g0 & e0 & A0 & B0).
  exists g0, (e0 ++ e1). split; [exact A0|]. rewrite B1, B0, app_assoc. reflexivity.
Qed.

Lemma held_at_stable : forall gs gs' f, grows_gs gs gs' -> 0 <= f ->
  Forall (fun g : ghost => f < hlen (fst g)) gs -> held_at gs' f = held_at gs f.
Proof.
  intros gs gs' f (Hl & Hg) Hf Hb. unfold held_at.
  apply (nth_ext _ _ (mkpi 0 0) (mkpi 0 0)); [rewrite !map_length; exact Hl|].
  intros n Hn. rewrite map_length in Hn.
  destruct (nth_error gs' n) as [g'|] eqn:E'; [|apply nth_error_None in E'; lia].
  destruct (Hg n g' E') as (g0 & ext & E0 & Ex).
  rewrite (nth_error_nth _ _ _ (map_nth_error _ _ _ E')), (nth_error_nth _ _ _ (map_nth_error _ _ _ E0)).
  f_equal. rewrite Ex. apply hval_app_old. rewrite Forall_forall in Hb. pose proof (Hb g0 (nth_error_In _ _ E0)). lia.
Qed.

Lemma hist_step_grows_gs : forall d pend t gs gs', hist_step d pend t gs gs' -> length gs' = length gs -> grows_gs gs gs'.
Proof.
  intros d pend t gs gs' H Hl. split; [exact Hl|]. intros h g' A. destruct (H h g' A) as (g & B & C). exists g.
  destruct C as [->|(_ & pi & k & _ & -> & _)]; [exists []; rewrite app_nil_r; split; [exact B|reflexivity]|].
  eexists. split; [exact B|reflexivity].
Qed.

(* gs = the histories held when the call returns (the broadcast of a lockstep call includes the frame whose
   local input that same call registered) *)
Definition spec_step (p : p2p) (gs : list ghost) (o : pout) (p' : p2p) : Prop :=
  ps_spectators p' = ps_spectators p /\
  exists n : nat,
    o_spec_sends o = (match ps_spectators p with [] => [] | _ =>
                        if existsb (fun b => b) (ps_spectators p)
                        then map (fun f => (f, held_at gs f)) (zrange_from (ps_next_spec p) n) else [] end) /\
    ps_next_spec p' = (match ps_spectators p with [] => ps_next_spec p | _ => ps_next_spec p + Z.of_nat n end) /\
    (ps_spectators p <> [] -> Forall (fun g : ghost => ps_next_spec p + Z.of_nat n <= hlen (fst g)) gs).

Lemma spec_step_none : forall p gs o p', spec_ok p gs -> ps_spectators p' = ps_spectators p -> ps_next_spec p' = ps_next_spec p ->
  o_spec_sends o = [] -> spec_step p gs o p'.
Proof.
  intros p gs o p' Hs A B C. split; [exact A|]. exists O. rewrite C, B. cbn [zrange_from map Z.of_nat].
  split; [destruct (ps_spectators p); [reflexivity|]; destruct (existsb _ _); reflexivity|].
  split; [destruct (ps_spectators p); [reflexivity|lia]|].
  intros Hne. destruct (Hs Hne) as (_ & _ & X). eapply Forall_impl; [|exact X]. cbv beta. intros g Hg. lia.
Qed.

Lemma cf_bound : forall sp w d p gs cf, QSg sp w d p gs -> confirmed_frame p = Ok cf -> Forall (fun g : ghost => cf + 1 <= hlen (fst g)) gs.
Proof.
  intros sp w d p gs cf HQS E. unfold confirmed_frame in E.
  destruct (cf_fold (ps_status p) I32MAX (qs_conn _ _ _ _ HQS)) as (_ & B & _).
  set (m := fold_left _ _ _) in *. destruct (m <? I32MAX); [|discriminate]. injection E as <-.
  pose proof (cf_le_all _ _ _ (qs_last _ _ _ _ HQS) B) as X. eapply Forall_impl; [|exact X]. cbv beta. intros g Hg. lia.
Qed.

Lemma spec_sent_step : forall p gs gs' cf o p', spec_ok p gs -> Forall (fun g : ghost => cf + 1 <= hlen (fst g)) gs ->
  grows_gs gs gs' -> ps_spectators p' = ps_spectators p ->
  o_spec_sends o = spec_sent p gs cf -> ps_next_spec p' = next_spec_after p cf -> spec_step p gs' o p'.
Proof.
  intros p gs gs' cf o p' Hs Hcf Hgr A B C. split; [exact A|]. exists (Z.to_nat (cf - ps_next_spec p + 1)).
  unfold spec_sent, next_spec_after in *. rewrite B, C.
  assert (Hbound : ps_spectators p <> [] -> Forall (fun g : ghost => ps_next_spec p + Z.of_nat (Z.to_nat (cf - ps_next_spec p + 1)) <= hlen (fst g)) gs).
  { intros Hne. destruct (Hs Hne) as (_ & _ & X). apply Forall_forall. intros g Hg. rewrite Forall_forall in X, Hcf.
    pose proof (X g Hg). pose proof (Hcf g Hg). lia. }
  split.
  - destruct (ps_spectators p) as [|b bs] eqn:Esp; [reflexivity|]. destruct (existsb _ _); [|reflexivity].
    apply map_ext_in. intros f Hf. apply zrange_in in Hf. f_equal. symmetry.
    destruct (Hs ltac:(rewrite Esp; discriminate)) as (S1 & _).
    apply held_at_stable; [exact Hgr|lia|].
    eapply Forall_impl; [|exact (Hbound ltac:(discriminate))]. cbv beta. intros g0 Hg0. lia.
  - split; [destruct (ps_spectators p); [reflexivity|lia]|].
    intros Hne. specialize (Hbound Hne). destruct Hgr as (Hl & Hg). apply Forall_forall. intros g' Hg'.
    apply In_nth_error in Hg'. destruct Hg' as (h & Hh). destruct (Hg h g' Hh) as (g0 & ext & E0 & Ex).
    rewrite Forall_forall in Hbound. pose proof (Hbound g0 (nth_error_In _ _ E0)). rewrite Ex. unfold hlen in *. rewrite app_length. lia.
Qed.

(* the cells invariant of dense saving in rollback mode (the window is at least one frame) *)
Definition JI1 (w : Z) (p : p2p) (g : game) : Prop := 1 <= w /\ JI w p g.

(* the save of frame 0 at the start of the first advance_frame leaves the outgoing bookkeeping alone *)
Lemma first_save_out : forall p (b : bool) p1 o1,
  (if b then res_bind (save_current_state (ps_sync p)) (fun '(s1, r) => Ok (with_sync p s1, add_req out0 r))
   else Ok (p, out0)) = Ok (p1, o1) ->
  ps_outgoing p1 = ps_outgoing p /\ ps_last_sent_out p1 = ps_last_sent_out p /\ o_remote_sends o1 = [].
Proof.
  intros p b p1 o1 E. destruct b.
  - apply res_bind_ok in E. destruct E as ([s1 r] & _ & E). injection E as <- <-. repeat split.
  - injection E as <- <-. repeat split.
Qed.

(* what one advance_frame sends to the remote players *)
Definition sends_adv (p : p2p) (gs gs' : list ghost) (p' : p2p) (o : pout) : Prop :=
  OIb p gs -> OIb p' gs' /\ rounds_ok (local_handles p) gs' (o_remote_sends o).

Lemma advance_timeline : forall p gs g w d p' o r G,
  advance predict p = Ok (p', o, r) ->
  QS w d p gs -> JI1 w p g -> Forall (fun c => cs_last c < I32MAX) (ps_status p) ->
  Forall (fun c => cs_last c + 1 < I32MAX) (ps_status p) -> TI p gs G ->
  exists gs', QS w d p' gs' /\ TI p' gs' (replay_hist G (o_requests o)) /\
    hist_step d (ps_pending p) (local_handles p) gs gs' /\ ps_kinds p' = ps_kinds p /\ spec_step p gs' o p' /\
    Forall (truthful_lt (s_current (ps_sync p')) gs') (adv_frames G (o_requests o)) /\ sends_adv p gs gs' p' o.
Proof.
  intros p gs g w d p' o r G E HQS (Hw1p & HJI) Hbnd _ HTI.
  pose proof HQS as [Hw Hd Hmode Hn Hconn Hgos HQ Hlast Hfr Hkinds Hpe Hsok].
  destruct Hw as (Hw1 & Hw2 & Hw3). destruct Hmode as (Hrun & Hsp & Hdf).
  unfold advance in E. rewrite Hrun in E. cbn [negb] in E.
  destruct (forallb _ (local_handles p)) eqn:Efa; cbn [negb] in E.
  2:{ injection E as <- <- <-. exists gs. split; [exact HQS|]. split; [exact HTI|]. split; [apply hist_step_refl|]. split; [reflexivity|]. split; [apply spec_step_none; [exact Hsok|reflexivity..]|split; [constructor|intros HO; split; [exact HO|constructor]]]. }
  assert (Hpend : forall h, In h (local_handles p) -> exists pi, assoc_get (ps_pending p) h = Some pi).
  { intros h Hin. rewrite forallb_forall in Efa. specialize (Efa h Hin).
    destruct (assoc_get (ps_pending p) h); [eauto|discriminate]. }
  assert ((ps_maxpred p =? 0) = false) as Hm0 by lia. rewrite Hm0 in E. cbn [negb] in E.
  assert (Hfirst : exists p1 o1, (if (s_current (ps_sync p) =? 0) && true
                     then res_bind (save_current_state (ps_sync p)) (fun '(s1, r) => Ok (with_sync p s1, add_req out0 r))
                     else Ok (p, out0)) = Ok (p1, o1) /\ QS w d p1 gs /\ JI w p1 g /\ ps_status p1 = ps_status p /\
                     local_handles p1 = local_handles p /\ ps_pending p1 = ps_pending p /\ ps_remotes p1 = ps_remotes p /\
                     TI p1 gs G /\ (forall G0, replay_hist G0 (o_requests o1) = G0) /\ ps_kinds p1 = ps_kinds p /\
                     ps_next_spec p1 = ps_next_spec p /\ ps_spectators p1 = ps_spectators p /\ o_spec_sends o1 = [] /\
                     (forall G0, adv_frames G0 (o_requests o1) = [])).
  { destruct (Z.eqb_spec (s_current (ps_sync p)) 0) as [Ec|Ec]; cbn [andb].
    - unfold save_current_state. rewrite Ec. cbn [Z.ltb Z.compare res_bind].
      eexists; eexists. split; [reflexivity|]. split; [|split; [|split; [reflexivity|split; [reflexivity|split; [reflexivity|split; [reflexivity|split; [|split; [|repeat split]]]]]]]].
      + apply (QS_same_queues false); [exact HQS|first [reflexivity|cbn; lia]..].
      + destruct HJI as [Jw Jmp Jfr Jcur Jroll]. constructor; cbn [with_sync ps_maxpred ps_sync ps_sparse s_current s_maxpred]; try assumption.
        * rewrite <- Ec. exact Jfr.
        * lia.
        * intros Hw'. destruct (Jroll Hw') as (J1 & J2 & J3). split; [exact J1|]. split; [exact J2|].
          destruct J3 as (K1 & K2 & K3 & K4). split; [exact K1|]. split; [|split; [exact K3|]].
          -- cbn [s_cells]. rewrite updz_length. exact K2.
          -- intros f Hf. lia.
      + unfold TI in *. cbn [with_sync ps_sync s_current s_queues]. rewrite Ec in HTI. exact HTI.
      + intros G0. reflexivity.
    - exists p, out0. split; [reflexivity|]. split; [exact HQS|]. split; [exact HJI|].
      split; [reflexivity|]. split; [reflexivity|]. split; [reflexivity|]. split; [reflexivity|]. split; [exact HTI|]. split; [intros G0; reflexivity|repeat split]. }
  destruct Hfirst as (p1 & o1 & E1 & HQS1 & HJI1 & Hst1 & Hlh1 & Hpe1 & Hrm1 & HTI1 & Hrep1 & Hkk1 & Hns1 & Hss1 & Hos1 & Hadv1).
  pose proof (first_save_out _ _ _ _ E1) as (Hog1 & Hls1 & Hrs1).
  rewrite E1 in E. cbn [res_bind] in E.
  rewrite (update_disconnects_noop p1) in E; [|rewrite Hst1; exact Hconn|rewrite Hrm1; exact Hgos]. cbn [res_bind] in E.
  destruct (advance_rollback_frame predict p1 o1) as [[p3 o3]| |] eqn:E3; cbn [res_bind] in E; try discriminate.
  injection E as <- <- <-.
  destruct (advance_rollback_timeline p1 gs g w d o1 p3 o3 G E3 HQS1 HJI1 Hw1p) as (gs' & R & Ho & HQS' & HTI' & Hh' & Hkk' & HTR' & cf & Ecf & Hsent & Hns' & Hss' & Hout'); [| |exact HTI1|].
  { rewrite Hst1. exact Hbnd. }
  { intros h Hin. rewrite Hpe1. apply Hpend. rewrite <- Hlh1. exact Hin. }
  exists gs'. split; [exact HQS'|]. split; [rewrite Ho, replay_hist_app, Hrep1; exact HTI'|]. split; [rewrite <- Hpe1, <- Hlh1; exact Hh'|]. split; [congruence|].
  split; [|split; [rewrite Ho, adv_frames_app, Hadv1, Hrep1; exact HTR'|]].
  2:{ intros (HO & _). destruct Hout' as (HO' & HB' & rounds & Q1 & Q2).
      { intros Hr1. rewrite Hrm1 in Hr1. eapply OI_same; [exact (HO Hr1)|exact Hog1|exact Hls1|exact Hlh1|reflexivity]. }
      split; [split; [exact HO'|exact HB']|]. rewrite Q1, Hrs1. cbn [app]. rewrite <- Hlh1. exact Q2. }
  apply (spec_sent_step p gs gs' cf); [exact Hsok| | |congruence| |].
  - apply (cf_bound _ w d p gs cf HQS). unfold confirmed_frame in *. rewrite <- Hst1. exact Ecf.
  - apply (hist_step_grows_gs _ _ _ _ _ Hh').
    destruct (qs_n _ _ _ _ HQS') as (_ & _ & A & _). destruct (qs_n _ _ _ _ HQS) as (_ & _ & B & _). congruence.
  - rewrite Hsent, Hos1. unfold spec_sent. rewrite Hss1, Hns1. reflexivity.
  - rewrite Hns'. unfold next_spec_after. rewrite Hss1, Hns1. reflexivity.
Qed.


(* ---------- an input of a remote player arrives ---------- *)
Lemma hval_app_new : forall hist v, hval (hist ++ [v]) (hlen hist) = v.
Proof. intros. unfold hval, hlen. rewrite Nat2Z.id, app_nth2, Nat.sub_diag by lia. reflexivity. Qed.
Lemma hlast_snoc : forall hist v, hlast (hist ++ [v]) = v.
Proof. intros. unfold hlast. apply last_last. Qed.
Lemma predval_fixed : forall hist, predict (predval predict hist) = predval predict hist.
Proof. intros hist. unfold predval. destruct (hlen hist =? 0); [exact predict_zero|apply predict_idem]. Qed.
Lemma predval_snoc : forall hist v, predval predict (hist ++ [v]) = predict v.
Proof.
  intros hist v. unfold predval. rewrite hlen_app. pose proof (hlen_nonneg hist).
  assert ((hlen hist + 1 =? 0) = false) as -> by lia. rewrite hlast_snoc. reflexivity.
Qed.

Lemma gq_remote_add : forall c L G h q hist low q' v,
  QI c L q hist low -> GQ c G h q hist -> (pi_frame (q_pred q) = NULL -> c <= hlen hist) ->
  q_first_incorrect q' = fi_after q v (hlen hist) -> q_pred q' = pred_after q v (hlen hist) ->
  GQ c G h q' (hist ++ [v]) /\ (pi_frame (q_pred q') = NULL -> c <= hlen (hist ++ [v])).
Proof.
  intros c L G h q hist low q' v Hqi [Gk Gp Gv] HPN F' P'.
  pose proof (hlen_nonneg hist) as Hnn. rewrite hlen_app.
  destruct Hqi as [I P1 P2 P4 Rq Lw Cf].
  unfold fi_after in F'. unfold pred_after, fi_after in P'.
  destruct (Z.eqb_spec (pi_frame (q_pred q)) NULL) as [En|En].
  - (* not predicting: every simulated frame is already known *)
    specialize (HPN En). split; [|intros _; lia].
    constructor; rewrite ?F', ?P'.
    + intros f Hf Hfl Hc. rewrite hval_app_old by lia. apply Gk; [exact Hf|lia|exact Hc].
    + intros _ f Hf Hfl. rewrite hlen_app in Hfl. lia.
    + intros A. congruence.
  - destruct P1 as [P1|P1]; [congruence|].
    destruct (Z.eqb_spec (q_first_incorrect q) NULL) as [Ef|Ef]; cbn [andb] in F', P'.
    + pose proof (P2 En Ef) as Hlr. pose proof (Gv En Ef) as Hpv.
      destruct (Z.eqb_spec (pi_val (q_pred q)) v) as [Ev|Ev]; cbn [negb] in F', P'.
      * (* the arriving input equals the prediction *)
        rewrite Ef in P'. cbn [Z.eqb NULL] in P'. rewrite andb_true_r in P'.
        assert (Hpvv : predval predict (hist ++ [v]) = predval predict hist).
        { rewrite predval_snoc, <- Ev, Hpv. apply predval_fixed. }
        split.
        -- constructor; rewrite ?F'.
           ++ intros f Hf Hfl _. rewrite hlen_app in Hfl.
              destruct (Z.eq_dec f (hlen hist)) as [->|Hne].
              ** rewrite hval_app_new. rewrite (Gp Ef (hlen hist) Hf ltac:(lia)). congruence.
              ** rewrite hval_app_old by lia. apply Gk; [exact Hf|lia|left; exact Ef].
           ++ intros _ f Hf Hfl. rewrite hlen_app in Hfl. rewrite Hpvv. apply Gp; [exact Ef|exact Hf|lia].
           ++ intros A _. rewrite Hpvv, <- Hpv. rewrite P'. destruct (pi_frame (q_pred q) =? q_last_requested q); reflexivity.
        -- intros A. rewrite P' in A.
           destruct (Z.eqb_spec (pi_frame (q_pred q)) (q_last_requested q)) as [El|El]; cbn [pi_frame] in A.
           ++ destruct Rq as [Rq|Rq]; unfold NULL in *; lia.
           ++ unfold NULL in *. lia.
      * (* misprediction: the frame is flagged *)
        split.
        -- constructor; rewrite ?F'.
           ++ intros f Hf Hfl [X|X]; [unfold NULL in X; lia|]. rewrite hval_app_old by lia. apply Gk; [exact Hf|lia|left; exact Ef].
           ++ intros X. unfold NULL in X. lia.
           ++ intros _ X. unfold NULL in X. lia.
        -- intros A. rewrite P' in A. assert ((hlen hist =? NULL) = false) as Hx by (unfold NULL; lia). rewrite Hx, andb_false_r in A.
           cbn [pi_frame] in A. unfold NULL in *. lia.
    + (* a misprediction is already flagged *)
      destruct (P4 Ef) as (_ & (Q1 & Q2) & _).
      split.
      -- constructor; rewrite ?F'.
         ++ intros f Hf Hfl [X|X]; [congruence|]. rewrite hval_app_old by lia. apply Gk; [exact Hf|lia|right; exact X].
         ++ intros X. congruence.
         ++ intros _ X. congruence.
      -- intros A. rewrite P' in A. assert ((q_first_incorrect q =? NULL) = false) as Hx by lia. rewrite Hx, andb_false_r in A.
         cbn [pi_frame] in A. unfold NULL in *. lia.
Qed.


(* an arriving remote input keeps the timeline invariant (the game's history is untouched) *)
Lemma remote_timeline : forall sp w d p gs pl f v e G,
  QSg sp w d p gs -> TI p gs G -> 0 <= pl < ps_nplayers p -> nth_error (ps_kinds p) (Z.to_nat pl) = Some (KRemote e) ->
  f = q_last_added (qnth (ps_sync p) pl) + 1 -> q_length (qnth (ps_sync p) pl) < QLEN ->
  exists p' hist low, ev_input p pl f v = Ok p' /\ nth_error gs (Z.to_nat pl) = Some (hist, low) /\
    QSg sp w d p' (updz gs (Z.to_nat pl) (hist ++ [v], low)) /\ TI p' (updz gs (Z.to_nat pl) (hist ++ [v], low)) G.
Proof.
  intros sp w d p gs pl f v e G HQS HTI Hpl Ek Hf Hcap.
  destruct (remote_progress _ w d p gs pl f v e HQS Hpl Ek Hf Hcap)
    as (p' & gs' & E & HQ' & q & hist & low & q' & Eq & Eg & -> & Hqs' & F' & P' & Hc' & _ & _ & _).
  exists p', hist, low. split; [exact E|]. split; [exact Eg|]. split; [exact HQ'|].
  destruct HTI as (HG & HGI & HPN). unfold TI. rewrite Hc', Hqs'.
  pose proof (Forall2_nth _ _ _ _ _ _ (qs_qs _ _ _ _ HQS) Eq Eg) as Hqi. cbn [fst snd] in Hqi.
  destruct (gq_remote_add _ _ G (Z.to_nat pl) q hist low q' v Hqi (HGI _ _ _ Eq Eg) (HPN _ _ _ Eq Eg) F' P') as (HGQ' & HPN').
  assert (Hl1 : (Z.to_nat pl < length (s_queues (ps_sync p)))%nat) by (apply nth_error_Some; congruence).
  assert (Hl2 : (Z.to_nat pl < length gs)%nat) by (apply nth_error_Some; congruence).
  split; [exact HG|]. split.
  + intros h0 q0 gh0 B C. destruct (Nat.eq_dec (Z.to_nat pl) h0) as [<-|Hne].
    * rewrite nth_error_updz_same in B by exact Hl1. rewrite nth_error_updz_same in C by exact Hl2.
      injection B as <-. injection C as <-. exact HGQ'.
    * rewrite nth_error_updz_other in B by exact Hne. rewrite nth_error_updz_other in C by exact Hne. apply HGI; assumption.
  + intros h0 q0 gh0 B C. destruct (Nat.eq_dec (Z.to_nat pl) h0) as [<-|Hne].
    * rewrite nth_error_updz_same in B by exact Hl1. rewrite nth_error_updz_same in C by exact Hl2.
      injection B as <-. injection C as <-. exact HPN'.
    * rewrite nth_error_updz_other in B by exact Hne. rewrite nth_error_updz_other in C by exact Hne. exact (HPN h0 q0 gh0 B C).
Qed.

(* ================= the run theorems, once for both saving modes =================
   sp = the saving mode; CI = the invariant that ties the session to the game's saved states in that mode
   (dense: SessionProofs.JI; sparse: SessionSparse.JS with SessionSparse2.SX).  What the mode has to supply:
   every operation inside the space succeeds and keeps CI (CI_step), and advance_frame keeps the timeline
   invariant TI (CI_adv). *)
(* ---------- what a run sends to the remote players ---------- *)


Lemma ev_input_out : forall p pl f v p', ev_input p pl f v = Ok p' ->
  ps_outgoing p' = ps_outgoing p /\ ps_last_sent_out p' = ps_last_sent_out p /\ local_handles p' = local_handles p /\
  ps_remotes p' = ps_remotes p.
Proof.
  intros p pl f v p' E. unfold ev_input in E. destruct (negb _); [discriminate|].
  destruct (cs_disc _); [injection E as <-; repeat split|]. destruct (negb _); [discriminate|].
  apply res_bind_ok in E. destruct E as (s' & _ & E). injection E as <-. repeat split.
Qed.

Lemma rounds_ok_grows : forall L gs gs' R, grows_gs gs gs' -> rounds_ok L gs R -> rounds_ok L gs' R.
Proof.
  intros L gs gs' R (_ & Hg) H. unfold rounds_ok in *. eapply Forall_impl; [|exact H].
  intros m (f & Hf & Hr). exists f. split; [exact Hf|]. intros h gh' Hin Hn.
  destruct (Hg _ _ Hn) as (gh & ext & A & B). destruct (Hr h gh Hin A) as (R1 & R2).
  rewrite B. split; [unfold hlen in *; rewrite app_length; lia|]. rewrite hval_app_l by lia. exact R2.
Qed.

Lemma local_handles_kinds : forall p p', ps_nplayers p = Z.of_nat (length (ps_kinds p)) ->
  ps_nplayers p' = Z.of_nat (length (ps_kinds p')) -> ps_kinds p' = ps_kinds p -> local_handles p' = local_handles p.
Proof.
  intros p p' Hn Hn' Hk. unfold local_handles. rewrite Hk. apply filter_ext_in. intros h Hin.
  apply zrange_in in Hin. unfold kind_at. rewrite Hk in Hn'.
  assert ((h <? 0) = false) as -> by lia. assert ((h <? ps_nplayers p') = true) as -> by lia.
  assert ((h <? ps_nplayers p) = true) as -> by lia. rewrite Hk. reflexivity.
Qed.

Lemma rounds_ok_ext : forall L gs gs' R, map fst gs' = map fst gs -> rounds_ok L gs R -> rounds_ok L gs' R.
Proof.
  intros L gs gs' R Hm H. apply (rounds_ok_grows L gs gs' R); [|exact H]. split.
  - pose proof (f_equal (@length _) Hm) as X. rewrite !map_length in X. exact X.
  - intros h g' Hn. destruct (map_fst_nth gs gs' h g' Hm Hn) as (g0 & A & B). exists g0, []. rewrite app_nil_r. split; [exact A|]. congruence.
Qed.

Lemma OI_start : forall sp n w d kinds eps nspec, OIg (session_start n w sp d kinds eps nspec) (repeat ([], 0) (Z.to_nat n)).
Proof.
  intros sp n w d kinds eps nspec _. constructor.
  - constructor.
  - cbn. unfold NULL. lia.
  - intros f m H. cbn in H. discriminate.
  - intros h gh _ Hg. apply nth_error_In, repeat_spec in Hg. subst gh. cbn [fst]. split; [cbn; unfold hlen, NULL; cbn; lia|].
    intros f Hf. cbn in Hf. assert ((f <? hlen []) = false) as -> by (unfold hlen, NULL in *; cbn in *; lia). unfold out_entry. cbn. reflexivity.
  - intros f m H. cbn in H. discriminate.
Qed.

Lemma OB_start : forall sp n w d kinds eps nspec, OB (session_start n w sp d kinds eps nspec) (repeat ([], 0) (Z.to_nat n)).
Proof.
  intros sp n w d kinds eps nspec _ _. split; [reflexivity|].
  intros h gh _ Hg. apply nth_error_In, repeat_spec in Hg. subst gh. reflexivity.
Qed.

(* an arriving remote input is labelled with the frame after the last one held for that player *)
Lemma remote_label : forall sp w d p gs pl f v hist low, QSg sp w d p gs -> op_ok p (SRemote pl f v) = true ->
  nth_error gs (Z.to_nat pl) = Some (hist, low) -> f = hlen hist /\ 0 <= pl /\
  exists e, nth_error (ps_kinds p) (Z.to_nat pl) = Some (KRemote e).
Proof.
  intros sp w d p gs pl f v hist low HQS Hok Eg. cbn [op_ok] in Hok.
  apply andb_prop in Hok. destruct Hok as [Hok _]. apply andb_prop in Hok. destruct Hok as [Hok H4].
  apply andb_prop in Hok. destruct Hok as [Hok H3]. apply andb_prop in Hok. destruct Hok as [H1 H2].
  pose proof (qs_qs _ _ _ _ HQS) as HQ. pose proof (QsI_length _ _ _ _ HQ) as Hlq.
  destruct (nth_error_some_len (s_queues (ps_sync p)) gs (Z.to_nat pl) (hist, low) Hlq Eg) as (q & Eq).
  pose proof (Forall2_nth _ _ _ _ _ _ HQ Eq Eg) as Hqi. cbn [fst snd] in Hqi.
  pose proof (ri_last _ _ _ (qi_ring _ _ _ _ _ Hqi)) as Hla.
  assert (Hqn : qnth (ps_sync p) pl = q) by (unfold qnth; erewrite nth_error_nth; [reflexivity|exact Eq]).
  rewrite Hqn in H4. split; [lia|]. split; [lia|].
  destruct (nth_error (ps_kinds p) (Z.to_nat pl)) as [[|e|e]|]; try discriminate. eauto.
Qed.

(* every AdvanceFrame request of a run, with the frame it simulates (first simulations and re-simulations alike) *)
Fixpoint all_adv_frames (G : ghist) (outs : list (pout * apires)) : list (Z * frame_inputs) :=
  match outs with
  | [] => []
  | o :: r => adv_frames G (o_requests (fst o)) ++ all_adv_frames (replay_hist G (o_requests (fst o))) r
  end.

(* an input handed out as Confirmed is the input held for that frame and player *)
Definition confirmed_ok (gs : list ghost) (fi : Z * frame_inputs) : Prop :=
  forall h v, nth_error (snd fi) h = Some (v, Confirmed) ->
    exists gh, nth_error gs h = Some gh /\ 0 <= fst fi < hlen (fst gh) /\ hval (fst gh) (fst fi) = v.

Lemma truthful_confirmed_ok : forall c gs fi, truthful_lt c gs fi -> confirmed_ok gs fi.
Proof.
  intros c gs [f ins] ((Hf & _) & Ht) h v Hn. cbn [fst snd] in *. unfold truthful in Ht. cbn [fst snd] in Ht.
  assert (Hl := Forall2_len _ _ _ Ht).
  destruct (nth_error gs h) as [gh|] eqn:Eg.
  2:{ apply nth_error_None in Eg. assert (h < length ins)%nat by (apply nth_error_Some; congruence). lia. }
  pose proof (Forall2_nth _ _ _ _ _ _ Ht Eg Hn) as T. cbv beta in T. unfold truthful1 in T. cbn [fst snd] in T.
  exists gh. split; [reflexivity|]. destruct T as [(_ & A & B)|(X & _)]; [|discriminate]. split; [lia|congruence].
Qed.

Lemma confirmed_ok_grows : forall gs gs' fi, grows_gs gs gs' -> confirmed_ok gs fi -> confirmed_ok gs' fi.
Proof.
  intros gs gs' fi (Hlen & Hg) H h v Hn. destruct (H h v Hn) as (gh & Eg & Hf & Hv).
  destruct (nth_error gs' h) as [gh'|] eqn:Eg'.
  2:{ apply nth_error_None in Eg'. assert (h < length gs)%nat by (apply nth_error_Some; congruence). lia. }
  destruct (Hg _ _ Eg') as (gh0 & ext & A & B). rewrite Eg in A. injection A as <-.
  exists gh'. split; [reflexivity|]. rewrite B. split; [unfold hlen in *; rewrite app_length; lia|].
  rewrite hval_app_l by lia. exact Hv.
Qed.

Section Generic.
Variable sp : bool.
Variable CI : Z -> p2p -> game -> Prop.
Hypothesis CI_step : forall p gs g w d o,
  QSg sp w d p gs -> CI w p g -> op_ok p o = true ->
  exists s g', sstep predict p o = Ok s /\ exec w g (o_requests (sr_out s)) = Some g' /\ CI w (sr_state s) g'.
Hypothesis CI_adv : forall p gs g w d p' o r G,
  advance predict p = Ok (p', o, r) ->
  QSg sp w d p gs -> CI w p g -> Forall (fun c => cs_last c < I32MAX) (ps_status p) ->
  Forall (fun c => cs_last c + 1 < I32MAX) (ps_status p) -> TI p gs G ->
  exists gs', QSg sp w d p' gs' /\ TI p' gs' (replay_hist G (o_requests o)) /\
    hist_step d (ps_pending p) (local_handles p) gs gs' /\ ps_kinds p' = ps_kinds p /\ spec_step p gs' o p' /\
    Forall (truthful_lt (s_current (ps_sync p')) gs') (adv_frames G (o_requests o)) /\ sends_adv p gs gs' p' o.
Hypothesis CI_frame : forall w p g, CI w p g -> gframe g = s_current (ps_sync p).
Hypothesis CI_start : forall n w d kinds eps nspec, 1 <= w -> CI w (session_start n w sp d kinds eps nspec) (game0 w).
(* every lemma of this section takes the first three hypotheses (and the predictor's laws), whether its proof
   uses them or not; the theorems about runs from the initial state take CI_start as well *)
Set Default Proof Using "CI_step CI_adv CI_frame predict_idem predict_zero".

Lemma TI_sync : forall p p' gs G, ps_sync p' = ps_sync p -> TI p gs G -> TI p' gs G.
Proof. clear CI_start. intros p p' gs G E H. unfold TI in *. rewrite E. exact H. Qed.

(* what one operation does to the input histories the session holds *)
Definition op_hist (d : Z) (p : p2p) (o : sop) (gs gs' : list ghost) : Prop :=
  match o with
  | SRemote pl _ v => exists hist low, nth_error gs (Z.to_nat pl) = Some (hist, low) /\
                                       gs' = updz gs (Z.to_nat pl) (hist ++ [v], low)
  | SAdvance => hist_step d (ps_pending p) (local_handles p) gs gs'
  | _ => gs' = gs
  end.

Lemma step_timeline_g : forall p gs g w d o,
  QSg sp w d p gs -> CI w p g -> TI p gs (g_hist g) -> op_ok p o = true ->
  exists s gs' g', sstep predict p o = Ok s /\ QSg sp w d (sr_state s) gs' /\
    exec w g (o_requests (sr_out s)) = Some g' /\ CI w (sr_state s) g' /\ TI (sr_state s) gs' (g_hist g') /\
    op_hist d p o gs gs' /\ ps_kinds (sr_state s) = ps_kinds p /\ spec_step p gs' (sr_out s) (sr_state s) /\
    Forall (truthful_lt (s_current (ps_sync (sr_state s))) gs') (adv_frames (g_hist g) (o_requests (sr_out s))).
Proof.
  clear CI_start.
  intros p gs g w d o HQS HJI HTI Hok.
  destruct o as [h v|pl f v|ep st|hs|h|h dd|]; cbn [op_ok] in Hok; try discriminate.
  - destruct (CI_step p gs g w d (SLocal h v) HQS HJI Hok) as (s & g' & Es & Ex & HJ').
    cbn [sstep] in Es. destruct (local_progress _ w d p gs h v HQS) as (HQl & Hs & _).
    destruct (api_add_local_input p h v) as [p1 r1] eqn:E1. injection Es as <-. cbn [sr_state sr_out out0 o_requests exec fst] in *.
    injection Ex as <-. exists (mksr p1 out0 r1), gs, g. cbn [sstep sr_state sr_out out0 o_requests exec]. rewrite E1.
    split; [reflexivity|]. split; [exact HQl|]. split; [reflexivity|]. split; [exact HJ'|]. split; [eapply TI_sync; [exact Hs|exact HTI]|].
    split; [reflexivity|]. unfold api_add_local_input in E1.
    split; [destruct (kind_at p h) as [[| |]|]; injection E1 as <- _; reflexivity|].
    split; [|constructor]. apply spec_step_none; [exact (qs_spec _ _ _ _ HQS)| | |reflexivity]; destruct (kind_at p h) as [[| |]|]; injection E1 as <- _; reflexivity.
  - destruct (CI_step p gs g w d (SRemote pl f v) HQS HJI Hok) as (s0 & g0 & Es0 & Ex0 & HJ0).
    apply andb_prop in Hok. destruct Hok as [Hok H5]. apply andb_prop in Hok. destruct Hok as [Hok H4].
    apply andb_prop in Hok. destruct Hok as [Hok H3]. apply andb_prop in Hok. destruct Hok as [H1 H2].
    destruct (nth_error (ps_kinds p) (Z.to_nat pl)) as [[|e|e]|] eqn:Ek; try discriminate.
    destruct (remote_progress _ w d p gs pl f v e HQS ltac:(lia) Ek ltac:(lia) ltac:(lia))
      as (p' & gs' & E & HQ' & q & hist & low & q' & Eq & Eg & -> & Hqs' & F' & P' & Hc' & _ & _ & _).
    cbn [sstep] in Es0. rewrite E in Es0. cbn [res_bind] in Es0. injection Es0 as <-. cbn [sr_state sr_out out0 o_requests exec] in Ex0, HJ0. injection Ex0 as <-.
    cbn [sstep]. rewrite E. cbn [res_bind].
    exists (mksr p' out0 AOk), (updz gs (Z.to_nat pl) (hist ++ [v], low)), g. cbn [sr_state sr_out out0 o_requests exec].
    split; [reflexivity|]. split; [exact HQ'|]. split; [reflexivity|].
    split; [exact HJ0|].
    split; [|split; [cbn [op_hist]; exists hist, low; split; [exact Eg|reflexivity]|]].
    2:{ assert (Hsk : spec_ok p (updz gs (Z.to_nat pl) (hist ++ [v], low))).
        { eapply spec_ok_grow; [exact (qs_spec _ _ _ _ HQS)|reflexivity|reflexivity|reflexivity|]. eapply grow_updz; [exact Eg|rewrite hlen_app; lia]. }
        clear - E Hsk. unfold ev_input in E. destruct (negb _); [discriminate|]. destruct (cs_disc _); [injection E as <-; split; [reflexivity|split; [apply spec_step_none; [exact Hsk|reflexivity..]|constructor]]|].
        destruct (negb _); [discriminate|]. destruct (add_remote_input _ _ _ _); cbn [res_bind] in E; try discriminate. injection E as <-.
        split; [reflexivity|split; [apply spec_step_none; [exact Hsk|reflexivity..]|constructor]]. }
    destruct HTI as (HG & HGI & HPN). unfold TI. rewrite Hc', Hqs'.
    pose proof (Forall2_nth _ _ _ _ _ _ (qs_qs _ _ _ _ HQS) Eq Eg) as Hqi. cbn [fst snd] in Hqi.
    destruct (gq_remote_add _ _ (g_hist g) (Z.to_nat pl) q hist low q' v Hqi (HGI _ _ _ Eq Eg) (HPN _ _ _ Eq Eg) F' P') as (HGQ' & HPN').
    assert (Hl1 : (Z.to_nat pl < length (s_queues (ps_sync p)))%nat) by (apply nth_error_Some; congruence).
    assert (Hl2 : (Z.to_nat pl < length gs)%nat) by (apply nth_error_Some; congruence).
    split; [exact HG|]. split.
    + intros h0 q0 gh0 B C. destruct (Nat.eq_dec (Z.to_nat pl) h0) as [<-|Hne].
      * rewrite nth_error_updz_same in B by exact Hl1. rewrite nth_error_updz_same in C by exact Hl2.
        injection B as <-. injection C as <-. exact HGQ'.
      * rewrite nth_error_updz_other in B by exact Hne. rewrite nth_error_updz_other in C by exact Hne. apply HGI; assumption.
    + intros h0 q0 gh0 B C. destruct (Nat.eq_dec (Z.to_nat pl) h0) as [<-|Hne].
      * rewrite nth_error_updz_same in B by exact Hl1. rewrite nth_error_updz_same in C by exact Hl2.
        injection B as <-. injection C as <-. exact HPN'.
      * rewrite nth_error_updz_other in B by exact Hne. rewrite nth_error_updz_other in C by exact Hne. exact (HPN h0 q0 gh0 B C).
  - destruct (CI_step p gs g w d (SGossip ep st) HQS HJI Hok) as (s & g' & Es & Ex & HJ').
    cbn [sstep] in Es. injection Es as <-. cbn [sr_state sr_out out0 o_requests exec] in *. injection Ex as <-.
    exists (mksr (gossip p ep st) out0 AOk), gs, g. cbn [sr_state sr_out out0 o_requests exec].
    split; [reflexivity|]. split.
    { apply gossip_progress; [exact HQS|]. apply Forall_forall. intros s0 Hs0. rewrite forallb_forall in Hok.
      specialize (Hok s0 Hs0). destruct (cs_disc s0); [discriminate|reflexivity]. }
    split; [reflexivity|]. split; [exact HJ'|]. split; [|split; [reflexivity|split; [unfold gossip; destruct (nth_error (ps_remotes p) (Z.to_nat ep)); reflexivity|split; [apply spec_step_none; [exact (qs_spec _ _ _ _ HQS)| | |reflexivity]; unfold gossip; destruct (nth_error (ps_remotes p) (Z.to_nat ep)); reflexivity|constructor]]]].
    eapply TI_sync; [|exact HTI]. unfold gossip. destruct (nth_error (ps_remotes p) (Z.to_nat ep)); reflexivity.
  - assert (Hbnd : Forall (fun c => cs_last c < I32MAX) (ps_status p)).
    { apply Forall_forall. intros s0 Hs0. rewrite forallb_forall in Hok. specialize (Hok s0 Hs0). lia. }
    assert (Hbnd1 : Forall (fun c => cs_last c + 1 < I32MAX) (ps_status p)).
    { apply Forall_forall. intros s0 Hs0. rewrite forallb_forall in Hok. specialize (Hok s0 Hs0). lia. }
    destruct (CI_step p gs g w d SAdvance HQS HJI Hok) as (s0 & g' & Es0 & Ex & HJ').
    cbn [sstep] in Es0. destruct (advance predict p) as [[[p' o] r]| |] eqn:E; cbn [res_bind] in Es0; try discriminate. injection Es0 as <-.
    cbn [sr_state sr_out] in Ex, HJ'.
    destruct (CI_adv p gs g w d p' o r (g_hist g) E HQS HJI Hbnd Hbnd1 HTI) as (gs' & HQ' & HTI' & Hh' & Hkk' & Hss' & HTR' & _).
    cbn [sstep]. rewrite ?E. cbn [res_bind].
    exists (mksr p' o r), gs', g'. cbn [sr_state sr_out]. split; [reflexivity|]. split; [exact HQ'|]. split; [exact Ex|].
    split; [exact HJ'|]. split; [rewrite (exec_hist _ _ _ _ Ex); exact HTI'|]. split; [exact Hh'|split; [exact Hkk'|split; [exact Hss'|exact HTR']]].
Qed.

(* the run theorem with the timeline invariant *)
Theorem run_timeline_g : forall ops p gs g w d,
  QSg sp w d p gs -> CI w p g -> TI p gs (g_hist g) ->
  srun_in predict p ops = Err \/
  exists p' outs gs' g', srun_in predict p ops = Ok (p', outs) /\ srun predict p ops = Ok (p', outs) /\
    exec_outs w g outs = Some g' /\ QSg sp w d p' gs' /\ CI w p' g' /\ TI p' gs' (g_hist g').
Proof.
  clear CI_start.
  induction ops as [|o ops IH]; intros p gs g w d HQS HJI HTI.
  - right. exists p, [], gs, g. cbn [srun_in srun exec_outs]. split; [reflexivity|]. split; [reflexivity|]. split; [reflexivity|].
    split; [exact HQS|]. split; [exact HJI|exact HTI].
  - cbn [srun_in srun]. destruct (op_ok p o) eqn:Hok; [|left; reflexivity].
    destruct (step_timeline_g p gs g w d o HQS HJI HTI Hok) as (s & gs1 & g1 & Es & HQ1 & Ex1 & HJ1 & HT1 & _ & _ & _ & _).
    rewrite Es. cbn [res_bind].
    destruct (IH (sr_state s) gs1 g1 w d HQ1 HJ1 HT1) as [Herr|(p' & outs & gs' & g' & E1 & E2 & Ex & HQ' & HJ' & HT')].
    + left. rewrite Herr. reflexivity.
    + right. rewrite E1, E2. cbn [res_bind].
      exists p', ((sr_out s, sr_api s) :: outs), gs', g'. split; [reflexivity|]. split; [reflexivity|].
      split; [cbn [exec_outs]; rewrite Ex1; exact Ex|]. split; [exact HQ'|]. split; [exact HJ'|exact HT'].
Qed.


(* the inputs of remote player pl delivered during a run, in order *)
Definition remote_vals (pl : Z) (ops : list sop) : list Z :=
  flat_map (fun o => match o with SRemote pl' _ v => if pl' =? pl then [v] else [] | _ => [] end) ops.

(* run_timeline_g, plus: the history held for a remote player is what was held before followed by exactly
   the inputs delivered for that player, in order (nothing lost, duplicated, reordered or altered) *)
Theorem run_timeline_streams_g : forall ops p gs g w d,
  QSg sp w d p gs -> CI w p g -> TI p gs (g_hist g) ->
  srun_in predict p ops = Err \/
  exists p' outs gs' g', srun_in predict p ops = Ok (p', outs) /\ srun predict p ops = Ok (p', outs) /\
    exec_outs w g outs = Some g' /\ QSg sp w d p' gs' /\ CI w p' g' /\ TI p' gs' (g_hist g') /\
    ps_kinds p' = ps_kinds p /\
    forall pl e hist low, 0 <= pl -> nth_error (ps_kinds p) (Z.to_nat pl) = Some (KRemote e) ->
      nth_error gs (Z.to_nat pl) = Some (hist, low) ->
      exists low', nth_error gs' (Z.to_nat pl) = Some (hist ++ remote_vals pl ops, low').
Proof.
  clear CI_start.
  induction ops as [|o ops IH]; intros p gs g w d HQS HJI HTI.
  - right. exists p, [], gs, g. cbn [srun_in srun exec_outs remote_vals flat_map]. split; [reflexivity|]. split; [reflexivity|]. split; [reflexivity|].
    split; [exact HQS|]. split; [exact HJI|]. split; [exact HTI|]. split; [reflexivity|].
    intros pl e hist low _ _ A. exists low. rewrite app_nil_r. exact A.
  - cbn [srun_in srun]. destruct (op_ok p o) eqn:Hok; [|left; reflexivity].
    destruct (step_timeline_g p gs g w d o HQS HJI HTI Hok) as (s & gs1 & g1 & Es & HQ1 & Ex1 & HJ1 & HT1 & Hop & Hk1 & _ & _).
    rewrite Es. cbn [res_bind].
    destruct (IH (sr_state s) gs1 g1 w d HQ1 HJ1 HT1) as [Herr|(p' & outs & gs' & g' & E1 & E2 & Ex & HQ' & HJ' & HT' & Hk' & Hst')].
    + left. rewrite Herr. reflexivity.
    + right. rewrite E1, E2. cbn [res_bind].
      exists p', ((sr_out s, sr_api s) :: outs), gs', g'. split; [reflexivity|]. split; [reflexivity|].
      split; [cbn [exec_outs]; rewrite Ex1; exact Ex|]. split; [exact HQ'|]. split; [exact HJ'|]. split; [exact HT'|].
      split; [congruence|].
      intros pl e hist low Hpl Hk A.
      (* the step *)
      assert (Hstep : exists low1, nth_error gs1 (Z.to_nat pl) = Some (hist ++ remote_vals pl [o], low1)).
      { destruct o as [h v|pl' f v|ep st|hs|h|h dd|]; cbn [op_ok] in Hok; try discriminate; cbn [op_hist] in Hop;
          cbn [remote_vals flat_map]; rewrite ?app_nil_r.
        - subst gs1. exists low. exact A.
        - destruct Hop as (hist' & low' & A' & ->).
          apply andb_prop in Hok. destruct Hok as [Hok _]. apply andb_prop in Hok. destruct Hok as [Hok _].
          apply andb_prop in Hok. destruct Hok as [Hok _]. apply andb_prop in Hok. destruct Hok as [H1 _].
          assert (Hl : (Z.to_nat pl' < length gs)%nat) by (apply nth_error_Some; congruence).
          destruct (Z.eqb_spec pl' pl) as [->|Hne].
          + rewrite A in A'. injection A' as <- <-. exists low. rewrite nth_error_updz_same by exact Hl. reflexivity.
          + exists low. rewrite nth_error_updz_other by lia. rewrite app_nil_r. exact A.
        - subst gs1. exists low. exact A.
        - assert (Hl : (Z.to_nat pl < length gs1)%nat).
          { pose proof (qs_n _ _ _ _ HQ1) as (X1 & _ & X3 & _). pose proof (qs_n _ _ _ _ HQS) as (Y1 & _ & Y3 & _).
            assert (nth_error gs (Z.to_nat pl) <> None) as Z1 by congruence. apply nth_error_Some in Z1. rewrite Hk1 in X3. lia. }
          destruct (nth_error gs1 (Z.to_nat pl)) as [[hist1 low1]|] eqn:A1; [|apply nth_error_None in A1; lia].
          destruct (Hop _ _ A1) as (gh & A0 & [B|(Hin & _)]).
          + rewrite A in A0. injection A0 as <-. cbn [fst] in B. exists low1. rewrite B. reflexivity.
          + exfalso. rewrite Z2Nat.id in Hin by lia.
            apply (local_handles_spec p pl (QS_nplayers _ _ _ _ _ HQS)) in Hin. destruct Hin as (_ & Hin). congruence. }
      destruct Hstep as (low1 & A1).
      destruct (Hst' pl e _ low1 Hpl ltac:(rewrite Hk1; exact Hk) A1) as (low' & A').
      exists low'. rewrite A'. f_equal. f_equal. rewrite <- app_assoc. f_equal.
      change (o :: ops) with ([o] ++ ops). unfold remote_vals. rewrite flat_map_app. reflexivity.
Qed.

(* ---------- the host's broadcast to its spectators over a whole run (C06, host half) ---------- *)
(* histories only grow, by appending *)
Lemma op_hist_grows_g : forall w d p o gs gs' p', QSg sp w d p gs -> QSg sp w d p' gs' -> ps_nplayers p' = ps_nplayers p ->
  op_hist d p o gs gs' -> grows_gs gs gs'.
Proof.
  clear CI_start.
  intros w d p o gs gs' p' HQ HQ' Hnp Hop.
  assert (Hlen : length gs' = length gs).
  { destruct (qs_n _ _ _ _ HQ) as (A & _). destruct (qs_n _ _ _ _ HQ') as (B & _). lia. }
  destruct o as [h v|pl f v|ep st|hs|h|h dd|]; cbn [op_hist] in Hop; try (subst gs'; apply grows_gs_refl).
  - destruct Hop as (hist & low & A & ->). split; [exact Hlen|]. intros h g' H.
    assert (Hl : (Z.to_nat pl < length gs)%nat) by (apply nth_error_Some; congruence).
    destruct (Nat.eq_dec (Z.to_nat pl) h) as [<-|Hne].
    + rewrite nth_error_updz_same in H by exact Hl. injection H as <-. exists (hist, low), [v]. split; [exact A|reflexivity].
    + rewrite nth_error_updz_other in H by exact Hne. exists g', []. rewrite app_nil_r. split; [exact H|reflexivity].
  - split; [exact Hlen|]. intros h g' H. destruct (Hop h g' H) as (g0 & A & [B|(_ & pi & k & _ & B & _)]).
    + exists g0, []. rewrite app_nil_r. split; [exact A|exact B].
    + exists g0, (repeat 0 k ++ [pi_val pi]). split; [exact A|exact B].
Qed.

Lemma zrange_app : forall n m a, zrange_from a (n + m) = zrange_from a n ++ zrange_from (a + Z.of_nat n) m.
Proof.
  clear CI_start.
  induction n as [|n IH]; intros m a; cbn [zrange_from plus app]; [f_equal; lia|].
  rewrite IH. f_equal. f_equal. f_equal. lia.
Qed.

Definition all_spec_sends (outs : list (pout * apires)) : list (Z * list pinput) :=
  concat (map (fun o => o_spec_sends (fst o)) outs).

(* run_timeline_g, plus: with at least one running spectator endpoint, everything the host hands to its
   spectators during the run is - concatenated - the frames from the old next_spectator_frame on, each
   exactly once, in order, each with the inputs held for it at the end (= when it was sent), and never
   a frame for which some player's input is not yet held *)
Theorem run_timeline_broadcast_g : forall ops p gs g w d,
  QSg sp w d p gs -> CI w p g -> TI p gs (g_hist g) ->
  ps_spectators p <> [] -> existsb (fun b => b) (ps_spectators p) = true ->
  srun_in predict p ops = Err \/
  exists p' outs gs' g', srun_in predict p ops = Ok (p', outs) /\
    exec_outs w g outs = Some g' /\ QSg sp w d p' gs' /\ CI w p' g' /\ TI p' gs' (g_hist g') /\
    grows_gs gs gs' /\ ps_spectators p' = ps_spectators p /\ ps_nplayers p' = ps_nplayers p /\
    ps_next_spec p <= ps_next_spec p' /\
    all_spec_sends outs = map (fun f => (f, held_at gs' f)) (zrange_from (ps_next_spec p) (Z.to_nat (ps_next_spec p' - ps_next_spec p))).
Proof.
  clear CI_start.
  induction ops as [|o ops IH]; intros p gs g w d HQS HJI HTI Hne Hex.
  - right. exists p, [], gs, g. cbn [srun_in exec_outs all_spec_sends map concat]. split; [reflexivity|]. split; [reflexivity|].
    split; [exact HQS|]. split; [exact HJI|]. split; [exact HTI|]. split; [apply grows_gs_refl|]. split; [reflexivity|]. split; [reflexivity|].
    split; [lia|]. rewrite Z.sub_diag. reflexivity.
  - cbn [srun_in]. destruct (op_ok p o) eqn:Hok; [|left; reflexivity].
    destruct (step_timeline_g p gs g w d o HQS HJI HTI Hok) as (s & gs1 & g1 & Es & HQ1 & Ex1 & HJ1 & HT1 & Hop & Hk1 & (Hss & n & Hsend & Hns & Hbound) & _).
    rewrite Es. cbn [res_bind].
    assert (Hnp1 : ps_nplayers (sr_state s) = ps_nplayers p).
    { destruct (qs_n _ _ _ _ HQ1) as (_ & _ & A & _). destruct (qs_n _ _ _ _ HQS) as (_ & _ & B & _).
      destruct (qs_n _ _ _ _ HQ1) as (C & _). destruct (qs_n _ _ _ _ HQS) as (D & _). rewrite Hk1 in A. lia. }
    pose proof (op_hist_grows_g w d p o gs gs1 (sr_state s) HQS HQ1 Hnp1 Hop) as Hg1.
    destruct (IH (sr_state s) gs1 g1 w d HQ1 HJ1 HT1 ltac:(rewrite Hss; exact Hne) ltac:(rewrite Hss; exact Hex))
      as [Herr|(p' & outs & gs' & g' & E1 & Ex & HQ' & HJ' & HT' & Hg' & Hss' & Hnp' & Hmono & Hall)].
    + left. rewrite Herr. reflexivity.
    + right. rewrite E1. cbn [res_bind].
      exists p', ((sr_out s, sr_api s) :: outs), gs', g'. split; [reflexivity|].
      split; [cbn [exec_outs]; rewrite Ex1; exact Ex|]. split; [exact HQ'|]. split; [exact HJ'|]. split; [exact HT'|].
      split; [eapply grows_gs_trans; eassumption|]. split; [congruence|]. split; [congruence|].
      destruct (ps_spectators p) as [|b bs] eqn:Esp; [congruence|]. rewrite Hex in Hsend.
      specialize (Hbound ltac:(discriminate)).
      split; [lia|].
      unfold all_spec_sends in *. cbn [map concat fst]. rewrite Hall, Hsend.
      replace (Z.to_nat (ps_next_spec p' - ps_next_spec p)) with (n + Z.to_nat (ps_next_spec p' - ps_next_spec (sr_state s)))%nat by lia.
      rewrite zrange_app, map_app, Hns. f_equal.
      apply map_ext_in. intros f Hf. apply zrange_in in Hf. f_equal. symmetry.
      apply held_at_stable; [exact Hg'| |].
      * destruct (qs_spec _ _ _ _ HQS ltac:(rewrite Esp; discriminate)) as (A & _). lia.
      * eapply Forall_impl; [|exact Hbound]. cbv beta. intros g0 Hg0. lia.
Qed.

Lemma TI_start_g : forall n w d kinds eps nspec, TI (session_start n w sp d kinds eps nspec) (repeat ([], 0) (Z.to_nat n)) [].
Proof.
  clear CI_start.
  intros n w d kinds eps nspec. unfold TI, session_start, p2p_new, sync_new.
  cbn [with_running with_queues ps_sync s_current s_queues glen length Z.of_nat].
  split; [reflexivity|]. split.
  - intros h q gh B C. apply nth_error_start_queues in B. apply nth_error_In, repeat_spec in C. subst gh. cbn [fst].
    constructor.
    + intros f Hf. lia.
    + intros _ f Hf. lia.
    + intros A. exfalso. apply A. subst q. cbn [Z.add]. destruct (nth_error kinds _) as [[| |]|]; reflexivity.
  - intros h q gh B C _. pose proof (hlen_nonneg (fst gh)). lia.
Qed.

(* C01 on one session, every run inside the space: every frame up to the last confirmed frame that
   the game has simulated was last simulated, for every player, with the input the session holds
   for that frame and player (the histories gs of the invariant QS) *)
Theorem confirmed_frames_use_held_inputs_g : forall ops n w d kinds eps nspec p outs,
  1 <= w -> 0 <= d -> w + d + 3 <= QLEN -> 0 < n -> Z.of_nat (length kinds) = n -> players_only kinds ->
  srun_in predict (session_start n w sp d kinds eps nspec) ops = Ok (p, outs) ->
  exists g gs, exec_outs w (game0 w) outs = Some g /\ QSg sp w d p gs /\ gframe g = s_current (ps_sync p) /\
    forall h hist low f, nth_error gs h = Some (hist, low) ->
      0 <= f <= s_last_confirmed (ps_sync p) -> f < s_current (ps_sync p) ->
      f < hlen hist /\ gvalL (g_hist g) f h = hval hist f.
Proof using All.
  intros ops n w d kinds eps nspec p outs Hw Hd Hcap Hn Hlen Hpl H.
  destruct (run_timeline_g ops _ _ (game0 w) w d (QS_start_gen sp n w d kinds eps nspec Hw Hd Hcap Hn Hlen Hpl)
              (CI_start n w d kinds eps nspec Hw) (TI_start_g n w d kinds eps nspec))
    as [E|(p' & outs' & gs & g & E1 & _ & Ex & HQS & HJ & (HG & HGI & _))]; [congruence|].
  rewrite H in E1. injection E1 as <- <-.
  exists g, gs. split; [exact Ex|]. split; [exact HQS|]. split; [exact (CI_frame _ _ _ HJ)|].
  intros h hist low f Eg Hf Hfc.
  pose proof (qs_qs _ _ _ _ HQS) as HQ. pose proof (QsI_length _ _ _ _ HQ) as Hlq.
  destruct (nth_error_some_len (s_queues (ps_sync p)) gs h (hist, low) Hlq Eg) as (q & Eq).
  pose proof (Forall2_nth _ _ _ _ _ _ HQ Eq Eg) as Hqi. cbn [fst snd] in Hqi.
  pose proof (qi_conf _ _ _ _ _ Hqi) as Hcf.
  split; [lia|].
  apply (gq_known _ _ _ _ _ (HGI h q (hist, low) Eq Eg)); [lia|cbn [fst]; lia|].
  destruct (Z.eq_dec (q_first_incorrect q) NULL) as [En|En]; [left; exact En|right].
  destruct (qi_p4 _ _ _ _ _ Hqi En) as (_ & (A & _) & _). lia.
Qed.


(* remote players in closed form: every confirmed, simulated frame f was last simulated with the f-th
   input delivered for that player during the run *)
Theorem confirmed_frames_use_delivered_inputs_g : forall ops n w d kinds eps nspec p outs,
  1 <= w -> 0 <= d -> w + d + 3 <= QLEN -> 0 < n -> Z.of_nat (length kinds) = n -> players_only kinds ->
  srun_in predict (session_start n w sp d kinds eps nspec) ops = Ok (p, outs) ->
  exists g, exec_outs w (game0 w) outs = Some g /\ gframe g = s_current (ps_sync p) /\
    forall pl e f, 0 <= pl -> nth_error kinds (Z.to_nat pl) = Some (KRemote e) ->
      0 <= f <= s_last_confirmed (ps_sync p) -> f < s_current (ps_sync p) ->
      f < hlen (remote_vals pl ops) /\ gvalL (g_hist g) f (Z.to_nat pl) = hval (remote_vals pl ops) f.
Proof using All.
  intros ops n w d kinds eps nspec p outs Hw Hd Hcap Hn Hlen Hpl H.
  destruct (run_timeline_streams_g ops _ _ (game0 w) w d (QS_start_gen sp n w d kinds eps nspec Hw Hd Hcap Hn Hlen Hpl)
              (CI_start n w d kinds eps nspec Hw) (TI_start_g n w d kinds eps nspec))
    as [E|(p' & outs' & gs & g & E1 & _ & Ex & HQS & HJ & (HG & HGI & _) & _ & Hst)]; [congruence|].
  rewrite H in E1. injection E1 as <- <-.
  exists g. split; [exact Ex|]. split; [exact (CI_frame _ _ _ HJ)|].
  intros pl e f Hp0 Hk Hf Hfc.
  assert (Hl : (Z.to_nat pl < length kinds)%nat) by (apply nth_error_Some; congruence).
  destruct (Hst pl e [] 0 Hp0) as (low' & Eg).
  { unfold session_start, p2p_new. cbn [with_running ps_kinds]. exact Hk. }
  { apply nth_error_repeat. lia. }
  cbn [app] in Eg.
  pose proof (qs_qs _ _ _ _ HQS) as HQ. pose proof (QsI_length _ _ _ _ HQ) as Hlq.
  destruct (nth_error_some_len (s_queues (ps_sync p)) gs _ _ Hlq Eg) as (q & Eq).
  pose proof (Forall2_nth _ _ _ _ _ _ HQ Eq Eg) as Hqi. cbn [fst snd] in Hqi.
  pose proof (qi_conf _ _ _ _ _ Hqi) as Hcf.
  split; [lia|].
  apply (gq_known _ _ _ _ _ (HGI _ q _ Eq Eg)); [lia|cbn [fst]; lia|].
  destruct (Z.eq_dec (q_first_incorrect q) NULL) as [En|En]; [left; exact En|right].
  destruct (qi_p4 _ _ _ _ _ Hqi En) as (_ & (A & _) & _). lia.
Qed.

(* local players, one call at a time: from any state satisfying the invariants (every reachable state
   does: run_timeline_g) an operation inside the space succeeds, re-establishes them, and changes the
   held histories exactly as op_hist says - in particular advance_frame appends to a local player's
   history at most its pending input (the value of the last add_local_input for it), preceded by the
   d blank inputs of the input delay when it is the player's first input, and nothing else *)
Theorem held_inputs_step_g : forall p gs g w d o,
  QSg sp w d p gs -> CI w p g -> TI p gs (g_hist g) -> op_ok p o = true ->
  exists s gs' g', sstep predict p o = Ok s /\ QSg sp w d (sr_state s) gs' /\ CI w (sr_state s) g' /\
    TI (sr_state s) gs' (g_hist g') /\ op_hist d p o gs gs'.
Proof.
  clear CI_start.
  intros p gs g w d o HQS HJI HTI Hok.
  destruct (step_timeline_g p gs g w d o HQS HJI HTI Hok) as (s & gs' & g' & A & B & _ & C & D & E & _ & _ & _).
  exists s, gs', g'. split; [exact A|]. split; [exact B|]. split; [exact C|]. split; [exact D|exact E].
Qed.


(* C06, host half, from the start of a session with spectators *)
Theorem host_broadcast_is_confirmed_timeline_g : forall ops n w d kinds eps nspec p outs,
  1 <= w -> 0 <= d -> w + d + 3 <= QLEN -> 0 < n -> Z.of_nat (length kinds) = n -> players_only kinds -> (0 < nspec)%nat ->
  srun_in predict (session_start n w sp d kinds eps nspec) ops = Ok (p, outs) ->
  exists gs, QSg sp w d p gs /\
    all_spec_sends outs = map (fun f => (f, held_at gs f)) (zrange_from 0 (Z.to_nat (ps_next_spec p))) /\
    0 <= ps_next_spec p /\ s_last_confirmed (ps_sync p) + 1 <= ps_next_spec p /\
    Forall (fun g : ghost => ps_next_spec p <= hlen (fst g)) gs.
Proof using All.
  intros ops n w d kinds eps nspec p outs Hw Hd Hcap Hn Hlen Hpl Hns H.
  assert (Hsp : ps_spectators (session_start n w sp d kinds eps nspec) = repeat true nspec) by reflexivity.
  destruct (run_timeline_broadcast_g ops _ _ (game0 w) w d (QS_start_gen sp n w d kinds eps nspec Hw Hd Hcap Hn Hlen Hpl)
              (CI_start n w d kinds eps nspec Hw) (TI_start_g n w d kinds eps nspec))
    as [E|(p' & outs' & gs & g & E1 & _ & HQS & _ & _ & _ & Hss & _ & Hmono & Hall)].
  - rewrite Hsp. destruct nspec; [lia|discriminate].
  - rewrite Hsp. destruct nspec; [lia|reflexivity].
  - congruence.
  - rewrite H in E1. injection E1 as <- <-. exists gs. split; [exact HQS|].
    change (ps_next_spec (session_start n w sp d kinds eps nspec)) with 0 in Hall, Hmono. rewrite Z.sub_0_r in Hall.
    split; [exact Hall|].
    assert (Hne : ps_spectators p <> []) by (rewrite Hss, Hsp; destruct nspec; [lia|discriminate]).
    exact (qs_spec _ _ _ _ HQS Hne).
Qed.

(* the same, together with the game: the frames handed to the spectators carry the inputs held, and those are the
   inputs the host's own game last simulated every confirmed frame with (one statement about one [gs]) *)
Theorem host_broadcast_and_game_g : forall ops n w d kinds eps nspec p outs,
  1 <= w -> 0 <= d -> w + d + 3 <= QLEN -> 0 < n -> Z.of_nat (length kinds) = n -> players_only kinds -> (0 < nspec)%nat ->
  srun_in predict (session_start n w sp d kinds eps nspec) ops = Ok (p, outs) ->
  exists g gs, exec_outs w (game0 w) outs = Some g /\ QSg sp w d p gs /\
    all_spec_sends outs = map (fun f => (f, held_at gs f)) (zrange_from 0 (Z.to_nat (ps_next_spec p))) /\
    0 <= ps_next_spec p /\ s_last_confirmed (ps_sync p) + 1 <= ps_next_spec p /\
    (forall h hist low f, nth_error gs h = Some (hist, low) ->
       0 <= f <= s_last_confirmed (ps_sync p) -> f < s_current (ps_sync p) ->
       f < hlen hist /\ gvalL (g_hist g) f h = hval hist f).
Proof using All.
  intros ops n w d kinds eps nspec p outs Hw Hd Hcap Hn Hlen Hpl Hns H.
  assert (Hsp : ps_spectators (session_start n w sp d kinds eps nspec) = repeat true nspec) by reflexivity.
  destruct (run_timeline_broadcast_g ops _ _ (game0 w) w d (QS_start_gen sp n w d kinds eps nspec Hw Hd Hcap Hn Hlen Hpl)
              (CI_start n w d kinds eps nspec Hw) (TI_start_g n w d kinds eps nspec))
    as [E|(p' & outs' & gs & g & E1 & Ex & HQS & _ & (HG & HGI & _) & _ & Hss & _ & Hmono & Hall)].
  - rewrite Hsp. destruct nspec; [lia|discriminate].
  - rewrite Hsp. destruct nspec; [lia|reflexivity].
  - congruence.
  - rewrite H in E1. injection E1 as <- <-. exists g, gs. split; [exact Ex|]. split; [exact HQS|].
    change (ps_next_spec (session_start n w sp d kinds eps nspec)) with 0 in Hall, Hmono. rewrite Z.sub_0_r in Hall.
    split; [exact Hall|].
    assert (Hne : ps_spectators p <> []) by (rewrite Hss, Hsp; destruct nspec; [lia|discriminate]).
    destruct (qs_spec _ _ _ _ HQS Hne) as (S1 & S2 & _). split; [exact S1|]. split; [exact S2|].
    intros h hist low f Eg Hf Hfc.
    pose proof (qs_qs _ _ _ _ HQS) as HQ. pose proof (QsI_length _ _ _ _ HQ) as Hlq.
    destruct (nth_error_some_len (s_queues (ps_sync p)) gs h (hist, low) Hlq Eg) as (q & Eq).
    pose proof (Forall2_nth _ _ _ _ _ _ HQ Eq Eg) as Hqi. cbn [fst snd] in Hqi.
    pose proof (qi_conf _ _ _ _ _ Hqi) as Hcf.
    split; [lia|].
    apply (gq_known _ _ _ _ _ (HGI h q (hist, low) Eq Eg)); [lia|cbn [fst]; lia|].
    destruct (Z.eq_dec (q_first_incorrect q) NULL) as [En|En]; [left; exact En|right].
    destruct (qi_p4 _ _ _ _ _ Hqi En) as (_ & (A & _) & _). lia.
Qed.

(* the invariants hold in every state a run inside the space reaches *)
Theorem invariants_reachable_g : forall ops n w d kinds eps nspec p outs,
  1 <= w -> 0 <= d -> w + d + 3 <= QLEN -> 0 < n -> Z.of_nat (length kinds) = n -> players_only kinds ->
  srun_in predict (session_start n w sp d kinds eps nspec) ops = Ok (p, outs) ->
  exists g gs, exec_outs w (game0 w) outs = Some g /\ QSg sp w d p gs /\ CI w p g /\ TI p gs (g_hist g).
Proof using All.
  intros ops n w d kinds eps nspec p outs Hw Hd Hcap Hn Hlen Hpl H.
  destruct (run_timeline_g ops _ _ (game0 w) w d (QS_start_gen sp n w d kinds eps nspec Hw Hd Hcap Hn Hlen Hpl)
              (CI_start n w d kinds eps nspec Hw) (TI_start_g n w d kinds eps nspec))
    as [E|(p' & outs' & gs & g & E1 & _ & Ex & HQS & HJ & HT)]; [congruence|].
  rewrite H in E1. injection E1 as <- <-. exists g, gs. split; [exact Ex|]. split; [exact HQS|]. split; [exact HJ|exact HT].
Qed.

(* C03 on one session, call by call: in every reachable state (the invariants hold there: run_timeline) an
   operation inside the space succeeds and EVERY AdvanceFrame request it emits - the first simulation of a
   new frame and every re-simulation after a Load alike - is truthful against the inputs the session holds
   when the call returns: for every player, Confirmed = that frame is held and the value is the held input,
   Predicted = the frame lies beyond everything held and the value is the predictor applied to the newest held
   input (the default input if there is none). *)
Theorem requests_truthful_step_g : forall p gs g w d o,
  QSg sp w d p gs -> CI w p g -> TI p gs (g_hist g) -> op_ok p o = true ->
  exists s gs' g', sstep predict p o = Ok s /\ QSg sp w d (sr_state s) gs' /\ CI w (sr_state s) g' /\
    TI (sr_state s) gs' (g_hist g') /\ op_hist d p o gs gs' /\
    Forall (truthful_lt (s_current (ps_sync (sr_state s))) gs') (adv_frames (g_hist g) (o_requests (sr_out s))).
Proof.
  clear CI_start.
  intros p gs g w d o HQS HJI HTI Hok.
  destruct (step_timeline_g p gs g w d o HQS HJI HTI Hok) as (s & gs' & g' & A & B & _ & C & D & E & _ & _ & F).
  exists s, gs', g'. split; [exact A|]. split; [exact B|]. split; [exact C|]. split; [exact D|]. split; [exact E|exact F].
Qed.

(* confirmed_frame() never decreases along a step inside the space *)
Theorem confirmed_frame_monotone_g : forall p gs g w d o s cf cf',
  QSg sp w d p gs -> CI w p g -> TI p gs (g_hist g) -> op_ok p o = true ->
  sstep predict p o = Ok s -> confirmed_frame p = Ok cf -> confirmed_frame (sr_state s) = Ok cf' -> cf <= cf'.
Proof.
  clear CI_start.
  intros p gs g w d o s cf cf' HQS HJI HTI Hok Es Ecf Ecf'.
  destruct (step_timeline_g p gs g w d o HQS HJI HTI Hok) as (s0 & gs' & g' & A & B & _ & _ & _ & E & K & _ & _).
  rewrite Es in A. injection A as <-.
  assert (Hnp : ps_nplayers (sr_state s) = ps_nplayers p).
  { destruct (qs_n _ _ _ _ B) as (A1 & _ & A3 & _). destruct (qs_n _ _ _ _ HQS) as (B1 & _ & B3 & _). rewrite K in A3. lia. }
  destruct (op_hist_grows_g w d p o gs gs' (sr_state s) HQS B Hnp E) as (Hl & Hg).
  unfold confirmed_frame in Ecf, Ecf'.
  destruct (cf_fold (ps_status p) I32MAX (qs_conn _ _ _ _ HQS)) as (_ & B1 & _).
  destruct (cf_fold (ps_status (sr_state s)) I32MAX (qs_conn _ _ _ _ B)) as (_ & _ & C2).
  set (m := fold_left _ (ps_status p) _) in *. set (m' := fold_left _ (ps_status (sr_state s)) _) in *.
  destruct (m <? I32MAX) eqn:Em; [|discriminate]. injection Ecf as <-.
  destruct (m' <? I32MAX) eqn:Em'; [|discriminate]. injection Ecf' as <-.
  destruct C2 as [C2|C2]; [lia|]. apply Exists_exists in C2. destruct C2 as (st' & Hin & ->).
  apply In_nth_error in Hin. destruct Hin as (h & Hh).
  pose proof (qs_last _ _ _ _ B) as HL'. pose proof (qs_last _ _ _ _ HQS) as HL.
  destruct (nth_error_some_len gs' (ps_status (sr_state s)) h st' (eq_sym (Forall2_len _ _ _ HL')) Hh) as (g1 & Hg1).
  pose proof (Forall2_nth _ _ _ _ _ _ HL' Hh Hg1) as R1. cbv beta in R1.
  destruct (Hg h g1 Hg1) as (g0 & ext & Hg0 & Hext).
  assert (exists st0, nth_error (ps_status p) h = Some st0) as (st0 & Hst0).
  { destruct (nth_error (ps_status p) h) eqn:X; [eauto|]. exfalso. apply nth_error_None in X.
    pose proof (Forall2_len _ _ _ HL) as Hl0. assert (h < length gs)%nat as Y by (apply nth_error_Some; congruence). unfold ghost in *. lia. }
  pose proof (Forall2_nth _ _ _ _ _ _ HL Hst0 Hg0) as R0. cbv beta in R0.
  rewrite Forall_forall in B1. pose proof (B1 st0 (nth_error_In _ _ Hst0)).
  rewrite R1, Hext. unfold hlen in *. rewrite app_length. lia.
Qed.


(* step_timeline_g, plus the rounds of local inputs the call hands to the remote players *)
Lemma step_sends_g : forall p gs g w d o,
  QSg sp w d p gs -> CI w p g -> TI p gs (g_hist g) -> op_ok p o = true ->
  exists s gs' g', sstep predict p o = Ok s /\ QSg sp w d (sr_state s) gs' /\
    exec w g (o_requests (sr_out s)) = Some g' /\ CI w (sr_state s) g' /\ TI (sr_state s) gs' (g_hist g') /\
    op_hist d p o gs gs' /\ ps_kinds (sr_state s) = ps_kinds p /\ sends_adv p gs gs' (sr_state s) (sr_out s) /\
    Forall (truthful_lt (s_current (ps_sync (sr_state s))) gs') (adv_frames (g_hist g) (o_requests (sr_out s))).
Proof.
  clear CI_start.
  intros p gs g w d o HQS HJI HTI Hok.
  destruct (match o with SAdvance => true | _ => false end) eqn:Eo.
  - destruct o; try discriminate. cbn [op_ok] in Hok.
    assert (Hbnd : Forall (fun c => cs_last c < I32MAX) (ps_status p)).
    { apply Forall_forall. intros s0 Hs0. rewrite forallb_forall in Hok. specialize (Hok s0 Hs0). lia. }
    assert (Hbnd1 : Forall (fun c => cs_last c + 1 < I32MAX) (ps_status p)).
    { apply Forall_forall. intros s0 Hs0. rewrite forallb_forall in Hok. specialize (Hok s0 Hs0). lia. }
    destruct (CI_step p gs g w d SAdvance HQS HJI Hok) as (s0 & g' & Es0 & Ex & HJ').
    cbn [sstep] in Es0. destruct (advance predict p) as [[[p' o] r]| |] eqn:E; cbn [res_bind] in Es0; try discriminate. injection Es0 as <-.
    cbn [sr_state sr_out] in Ex, HJ'.
    destruct (CI_adv p gs g w d p' o r (g_hist g) E HQS HJI Hbnd Hbnd1 HTI) as (gs' & HQ' & HTI' & Hh' & Hkk' & _ & HTR' & Hsd).
    cbn [sstep]. rewrite ?E. cbn [res_bind].
    exists (mksr p' o r), gs', g'. cbn [sr_state sr_out]. split; [reflexivity|]. split; [exact HQ'|]. split; [exact Ex|].
    split; [exact HJ'|]. split; [rewrite (exec_hist _ _ _ _ Ex); exact HTI'|]. split; [exact Hh'|split; [exact Hkk'|split; [exact Hsd|exact HTR']]].
  - destruct (step_timeline_g p gs g w d o HQS HJI HTI Hok) as (s & gs' & g' & Es & HQ' & Ex & HJ' & HT' & Hop & Hk & _ & HTR).
    exists s, gs', g'. split; [exact Es|]. split; [exact HQ'|]. split; [exact Ex|]. split; [exact HJ'|]. split; [exact HT'|].
    split; [exact Hop|]. split; [exact Hk|]. split; [|exact HTR].
    destruct o as [h v|pl f v|ep st|hs|h|h dd|]; cbn [op_ok] in Hok; try discriminate; cbn [op_hist] in Hop; cbn [sstep] in Es.
    + subst gs'. unfold api_add_local_input in Es. intros HO.
      destruct (kind_at p h) as [[| |]|]; injection Es as <-; cbn [sr_state sr_out out0 o_remote_sends];
        (split; [apply (OIb_same_local p _ gs gs HO); [reflexivity|reflexivity|reflexivity|intros X; exact X|reflexivity]|constructor]).
    + apply res_bind_ok in Es. destruct Es as (p' & Ee & Es). injection Es as <-. cbn [sr_state sr_out out0 o_remote_sends].
      destruct (ev_input_out _ _ _ _ _ Ee) as (X1 & X2 & X3 & X4).
      destruct Hop as (hist & low & Eg & ->). intros HO. split; [|constructor].
      apply (OIb_same_local p p' gs _ HO X1 X2 X3); [rewrite X4; intros X; exact X|].
      intros h0 Hin.
      apply (local_handles_spec p h0 (QS_nplayers _ _ _ _ _ HQS)) in Hin. destruct Hin as (Hr0 & Hk0).
      apply andb_prop in Hok. destruct Hok as [Hok _]. apply andb_prop in Hok. destruct Hok as [Hok _].
      apply andb_prop in Hok. destruct Hok as [Hok H3]. apply andb_prop in Hok. destruct Hok as [H1 H2].
      destruct (nth_error (ps_kinds p) (Z.to_nat pl)) as [[|e|e]|] eqn:Ek; try discriminate.
      assert (Z.to_nat pl <> Z.to_nat h0) by (intros Eq; rewrite Eq in Ek; congruence).
      rewrite nth_error_updz_other by assumption. reflexivity.
    + injection Es as <-. subst gs'. cbn [sr_state sr_out out0 o_remote_sends]. intros HO. split; [|constructor].
      apply (OIb_same_local p _ gs gs HO).
      * unfold gossip; destruct (nth_error (ps_remotes p) (Z.to_nat ep)); reflexivity.
      * unfold gossip; destruct (nth_error (ps_remotes p) (Z.to_nat ep)); reflexivity.
      * unfold gossip; destruct (nth_error (ps_remotes p) (Z.to_nat ep)); reflexivity.
      * intros Hr E0. apply Hr. unfold gossip. rewrite E0. destruct (Z.to_nat ep); cbn [nth_error]; exact E0.
      * intros h0 _. reflexivity.
Qed.

(* all the rounds of inputs a run hands to the remote players *)
Definition all_sends (outs : list (pout * apires)) : list (list (Z * pinput)) :=
  flat_map (fun oa => o_remote_sends (fst oa)) outs.

(* the run theorem for what leaves and what arrives: every round handed to the remote players is a frame together
   with, for every local player, the input the session holds (and simulates) for that player and frame; every
   remote input (player, frame, value) that arrived is held as that player's input for that frame *)
Theorem run_sends_g : forall ops p gs g w d,
  QSg sp w d p gs -> CI w p g -> TI p gs (g_hist g) -> OIb p gs ->
  srun_in predict p ops = Err \/
  exists p' outs gs' g', srun_in predict p ops = Ok (p', outs) /\ exec_outs w g outs = Some g' /\
    QSg sp w d p' gs' /\ CI w p' g' /\ TI p' gs' (g_hist g') /\ OIb p' gs' /\ grows_gs gs gs' /\
    ps_kinds p' = ps_kinds p /\ rounds_ok (local_handles p) gs' (all_sends outs) /\
    (forall pl f v, In (SRemote pl f v) ops ->
      exists gh, nth_error gs' (Z.to_nat pl) = Some gh /\ 0 <= f < hlen (fst gh) /\ hval (fst gh) f = v) /\
    (forall pl e gh gh' f, 0 <= pl -> nth_error (ps_kinds p) (Z.to_nat pl) = Some (KRemote e) ->
      nth_error gs (Z.to_nat pl) = Some gh -> nth_error gs' (Z.to_nat pl) = Some gh' ->
      hlen (fst gh) <= f < hlen (fst gh') -> In (SRemote pl f (hval (fst gh') f)) ops) /\
    Forall (confirmed_ok gs') (all_adv_frames (g_hist g) outs).
Proof.
  clear CI_start.
  induction ops as [|o ops IH]; intros p gs g w d HQS HJI HTI HO.
  - right. exists p, [], gs, g. cbn [srun_in exec_outs all_sends flat_map]. split; [reflexivity|]. split; [reflexivity|].
    split; [exact HQS|]. split; [exact HJI|]. split; [exact HTI|]. split; [exact HO|]. split; [apply grows_gs_refl|].
    split; [reflexivity|]. split; [constructor|]. split; [intros pl f v []|]. split; [|constructor].
    intros pl e gh gh' f _ _ A B Hf. rewrite A in B. injection B as <-. lia.
  - cbn [srun_in]. destruct (op_ok p o) eqn:Hok; [|left; reflexivity].
    destruct (step_sends_g p gs g w d o HQS HJI HTI Hok) as (s & gs1 & g1 & Es & HQ1 & Ex1 & HJ1 & HT1 & Hop & Hk1 & Hsd & HTR1).
    rewrite Es. cbn [res_bind]. destruct (Hsd HO) as (HO1 & Hr1).
    assert (Hnp1 : ps_nplayers (sr_state s) = ps_nplayers p).
    { rewrite (QS_nplayers _ _ _ _ _ HQ1), (QS_nplayers _ _ _ _ _ HQS), Hk1. reflexivity. }
    pose proof (op_hist_grows_g w d p o gs gs1 (sr_state s) HQS HQ1 Hnp1 Hop) as Hg1.
    pose proof (local_handles_kinds p (sr_state s) (QS_nplayers _ _ _ _ _ HQS) (QS_nplayers _ _ _ _ _ HQ1) Hk1) as Hlh1.
    destruct (IH (sr_state s) gs1 g1 w d HQ1 HJ1 HT1 HO1) as [Herr|(p' & outs & gs' & g' & E1 & Ex & HQ' & HJ' & HT' & HO' & Hg' & Hk' & Hr' & Hd' & Hc' & Hcf')].
    + left. rewrite Herr. reflexivity.
    + right. rewrite E1. cbn [res_bind].
      exists p', ((sr_out s, sr_api s) :: outs), gs', g'. split; [reflexivity|].
      split; [cbn [exec_outs]; rewrite Ex1; exact Ex|]. split; [exact HQ'|]. split; [exact HJ'|]. split; [exact HT'|].
      split; [exact HO'|]. split; [eapply grows_gs_trans; eassumption|]. split; [congruence|]. split; [|split; [|split]].
      * cbn [all_sends flat_map fst]. apply Forall_app. split.
        -- eapply rounds_ok_grows; [exact Hg'|exact Hr1].
        -- rewrite <- Hlh1. exact Hr'.
      * intros pl f v [->|Hin]; [|exact (Hd' pl f v Hin)].
        (* the input that arrived with this very operation *)
        cbn [op_hist] in Hop. destruct Hop as (hist & low & Eg & ->).
        destruct (remote_label _ _ _ _ _ _ _ _ _ _ HQS Hok Eg) as (Hf & _ & _).
        assert (Hl : (Z.to_nat pl < length gs)%nat) by (apply nth_error_Some; congruence).
        destruct Hg' as (Hlen' & Hg').
        destruct (nth_error gs' (Z.to_nat pl)) as [gh'|] eqn:En'; [|apply nth_error_None in En'; rewrite Hlen', updz_length in En'; lia].
        destruct (Hg' _ _ En') as (gh1 & ext & A & B). rewrite nth_error_updz_same in A by exact Hl. injection A as <-. cbn [fst] in B.
        exists gh'. split; [reflexivity|]. rewrite B, Hf. assert (0 <= hlen hist) by (unfold hlen; lia).
        split; [unfold hlen in *; rewrite !app_length; cbn [length]; lia|].
        rewrite hval_app_old by (rewrite hlen_app; lia). apply hval_app_new.
      * (* every input held for a remote player beyond those held at the start arrived with an operation of the run *)
        intros pl e gh gh' f Hpl Hkp Ag Ag' Hf.
        assert (Hkp1 : nth_error (ps_kinds (sr_state s)) (Z.to_nat pl) = Some (KRemote e)) by (rewrite Hk1; exact Hkp).
        assert (Hcase : (exists gh1, nth_error gs1 (Z.to_nat pl) = Some gh1 /\ fst gh1 = fst gh) \/
                        (exists v0 low, o = SRemote pl (hlen (fst gh)) v0 /\ nth_error gs1 (Z.to_nat pl) = Some (fst gh ++ [v0], low))).
        { pose proof Hok as Hok0.
          destruct o as [h v|pl' f0 v0|ep st|hs|h|h dd|]; cbn [op_ok] in Hok; try discriminate; cbn [op_hist] in Hop.
          - subst gs1. left. eauto.
          - destruct Hop as (hist & low & Eg & ->).
            destruct (remote_label _ _ _ _ _ _ _ _ _ _ HQS Hok0 Eg) as (Hf0 & Hpl' & _).
            destruct (Z.eq_dec pl' pl) as [->|Hne].
            + right. rewrite Ag in Eg. injection Eg as ->. cbn [fst]. exists v0, low. split; [rewrite Hf0; reflexivity|].
              apply nth_error_updz_same. apply nth_error_Some. congruence.
            + left. exists gh. split; [|reflexivity]. rewrite nth_error_updz_other by lia. exact Ag.
          - subst gs1. left. eauto.
          - destruct (nth_error gs1 (Z.to_nat pl)) as [gh1|] eqn:A1.
            2:{ apply nth_error_None in A1. destruct Hg1 as (L1 & _). assert (Z.to_nat pl < length gs)%nat by (apply nth_error_Some; congruence). lia. }
            left. exists gh1. split; [reflexivity|].
            destruct (Hop _ _ A1) as (gh0 & A0 & [B0|(Hin & _)]); [rewrite Ag in A0; injection A0 as <-; exact B0|].
            rewrite Z2Nat.id in Hin by lia.
            apply (local_handles_spec p pl (QS_nplayers _ _ _ _ _ HQS)) in Hin. destruct Hin as (_ & Hkl). congruence. }
        destruct Hcase as [(gh1 & A1 & B1)|(v0 & low & -> & A1)].
        -- right. apply (Hc' pl e gh1 gh' f Hpl Hkp1 A1 Ag'). rewrite B1. exact Hf.
        -- destruct (Z.eq_dec f (hlen (fst gh))) as [->|Hne].
           ++ left. f_equal. destruct Hg' as (_ & Hg'). destruct (Hg' _ _ Ag') as (gh1 & ext & A & B).
              rewrite A1 in A. injection A as <-. cbn [fst] in B. rewrite B.
              assert (0 <= hlen (fst gh)) by (unfold hlen; lia).
              rewrite hval_app_old by (rewrite hlen_app; lia). symmetry. apply hval_app_new.
           ++ right. apply (Hc' pl e _ gh' f Hpl Hkp1 A1 Ag'). cbn [fst]. rewrite hlen_app. lia.
      * (* the requests: those of this call were truthful against gs1, which only grows *)
        cbn [all_adv_frames fst]. apply Forall_app. split.
        -- eapply Forall_impl; [|exact HTR1]. intros fi Ht. eapply confirmed_ok_grows; [exact Hg'|].
           eapply truthful_confirmed_ok. exact Ht.
        -- rewrite <- (exec_hist _ _ _ _ Ex1). exact Hcf'.
Qed.

(* from the initial state: what a session sends for its local players is what it simulates for them, and what it
   received for a remote player is what it simulates for that player - at every confirmed, simulated frame *)
Theorem sends_and_receipts_g : forall ops n w d kinds eps nspec p outs,
  1 <= w -> 0 <= d -> w + d + 3 <= QLEN -> 0 < n -> Z.of_nat (length kinds) = n -> players_only kinds ->
  srun_in predict (session_start n w sp d kinds eps nspec) ops = Ok (p, outs) ->
  exists g gs, exec_outs w (game0 w) outs = Some g /\ QSg sp w d p gs /\ gframe g = s_current (ps_sync p) /\
    (forall h hist low f, nth_error gs h = Some (hist, low) ->
       0 <= f <= s_last_confirmed (ps_sync p) -> f < s_current (ps_sync p) ->
       f < hlen hist /\ gvalL (g_hist g) f h = hval hist f) /\
    rounds_ok (local_handles p) gs (all_sends outs) /\
    (forall pl f v, In (SRemote pl f v) ops ->
      exists gh, nth_error gs (Z.to_nat pl) = Some gh /\ 0 <= f < hlen (fst gh) /\ hval (fst gh) f = v) /\
    (forall pl e gh f, 0 <= pl -> nth_error kinds (Z.to_nat pl) = Some (KRemote e) ->
      nth_error gs (Z.to_nat pl) = Some gh -> 0 <= f < hlen (fst gh) -> In (SRemote pl f (hval (fst gh) f)) ops) /\
    ps_kinds p = kinds /\ OB p gs /\ Forall (confirmed_ok gs) (all_adv_frames [] outs).
Proof using All.
  intros ops n w d kinds eps nspec p outs Hw Hd Hcap Hn Hlen Hpl H.
  pose proof (QS_start_gen sp n w d kinds eps nspec Hw Hd Hcap Hn Hlen Hpl) as HQ0.
  destruct (run_sends_g ops _ _ (game0 w) w d HQ0 (CI_start n w d kinds eps nspec Hw) (TI_start_g n w d kinds eps nspec)
              (conj (OI_start sp n w d kinds eps nspec) (OB_start sp n w d kinds eps nspec)))
    as [E|(p' & outs' & gs & g & E1 & Ex & HQS & HJ & (HG & HGI & _) & (_ & HB) & _ & Hk & Hr & Hdl & Hcv & Hcok)]; [congruence|].
  rewrite H in E1. injection E1 as <- <-.
  exists g, gs. split; [exact Ex|]. split; [exact HQS|]. split; [exact (CI_frame _ _ _ HJ)|]. split; [|split; [|split; [exact Hdl|split; [|split; [exact Hk|split; [exact HB|exact Hcok]]]]]].
  3:{ intros pl e gh f Hpl0 Hkp Ag Hf.
      assert (Hl0 : (Z.to_nat pl < Z.to_nat n)%nat).
      { assert (nth_error kinds (Z.to_nat pl) <> None) as X by congruence. apply nth_error_Some in X. lia. }
      apply (Hcv pl e ([], 0) gh f Hpl0); [exact Hkp| |exact Ag|cbn [fst]; unfold hlen in *; cbn [length]; lia].
      apply nth_error_repeat. exact Hl0. }
  - intros h hist low f Eg Hf Hfc.
    pose proof (qs_qs _ _ _ _ HQS) as HQ. pose proof (QsI_length _ _ _ _ HQ) as Hlq.
    destruct (nth_error_some_len (s_queues (ps_sync p)) gs h (hist, low) Hlq Eg) as (q & Eq).
    pose proof (Forall2_nth _ _ _ _ _ _ HQ Eq Eg) as Hqi. cbn [fst snd] in Hqi.
    pose proof (qi_conf _ _ _ _ _ Hqi) as Hcf.
    split; [lia|].
    apply (gq_known _ _ _ _ _ (HGI h q (hist, low) Eq Eg)); [lia|cbn [fst]; lia|].
    destruct (Z.eq_dec (q_first_incorrect q) NULL) as [En|En]; [left; exact En|right].
    destruct (qi_p4 _ _ _ _ _ Hqi En) as (_ & (A & _) & _). lia.
  - rewrite (local_handles_kinds _ p (QS_nplayers _ _ _ _ _ HQ0) (QS_nplayers _ _ _ _ _ HQS) Hk). exact Hr.
Qed.

Unset Default Proof Using.
End Generic.

(* ---------- dense saving ---------- *)
Lemma dense_CI_step : forall p gs g w d o,
  QS w d p gs -> JI1 w p g -> op_ok p o = true ->
  exists s g', sstep predict p o = Ok s /\ exec w g (o_requests (sr_out s)) = Some g' /\ JI1 w (sr_state s) g'.
Proof.
  intros p gs g w d o HQS (Hw1p & HJI) Hok.
  destruct (step_in_space predict p gs g w d o HQS HJI Hw1p Hok) as (s & gs' & g' & Es & _ & Ex & HJ').
  exists s, g'. split; [exact Es|]. split; [exact Ex|]. split; [exact Hw1p|exact HJ'].
Qed.
Lemma dense_CI_start : forall n w d kinds eps nspec, 1 <= w -> JI1 w (session_start n w false d kinds eps nspec) (game0 w).
Proof. intros n w d kinds eps nspec Hw. split; [exact Hw|]. apply JI_start. lia. Qed.
Lemma JI1_frame : forall w p g, JI1 w p g -> gframe g = s_current (ps_sync p).
Proof. intros w p g (_ & H). exact (ji_frame _ _ _ H). Qed.

Definition step_timeline := step_timeline_g false JI1 dense_CI_step advance_timeline JI1_frame.
Definition run_timeline := run_timeline_g false JI1 dense_CI_step advance_timeline JI1_frame.
Definition host_broadcast_and_game := host_broadcast_and_game_g false JI1 dense_CI_step advance_timeline JI1_frame dense_CI_start.
Definition run_sends := run_sends_g false JI1 dense_CI_step advance_timeline JI1_frame.
Definition sends_and_receipts := sends_and_receipts_g false JI1 dense_CI_step advance_timeline JI1_frame dense_CI_start.
Definition confirmed_frames_use_held_inputs :=
  confirmed_frames_use_held_inputs_g false JI1 dense_CI_step advance_timeline JI1_frame dense_CI_start.
Definition confirmed_frames_use_delivered_inputs :=
  confirmed_frames_use_delivered_inputs_g false JI1 dense_CI_step advance_timeline JI1_frame dense_CI_start.
Definition held_inputs_step := held_inputs_step_g false JI1 dense_CI_step advance_timeline JI1_frame.
Definition host_broadcast_is_confirmed_timeline :=
  host_broadcast_is_confirmed_timeline_g false JI1 dense_CI_step advance_timeline JI1_frame dense_CI_start.
Definition TI_start := TI_start_g false JI1 dense_CI_step advance_timeline JI1_frame.
Definition invariants_reachable := invariants_reachable_g false JI1 dense_CI_step advance_timeline JI1_frame dense_CI_start.
Definition requests_truthful_step := requests_truthful_step_g false JI1 dense_CI_step advance_timeline JI1_frame.
Definition confirmed_frame_monotone := confirmed_frame_monotone_g false JI1 dense_CI_step advance_timeline JI1_frame.

(* C09's premise: at every call boundary of a run inside the space, the state saved for a confirmed
   frame F that is still inside the saved-state window is the serial replay of the held inputs of the
   frames before F - for every player.  (A checksum of that state is therefore the same on every peer
   that holds the same inputs.) *)
Theorem confirmed_saved_states_are_replays : forall ops n w d kinds eps nspec p outs,
  1 <= w -> 0 <= d -> w + d + 3 <= QLEN -> 0 < n -> Z.of_nat (length kinds) = n -> players_only kinds ->
  srun_in predict (session_start n w false d kinds eps nspec) ops = Ok (p, outs) ->
  exists g gs, exec_outs w (game0 w) outs = Some g /\ QS w d p gs /\
    forall F, Z.max 0 (s_current (ps_sync p) - w) <= F <= s_current (ps_sync p) - 1 -> F <= s_last_confirmed (ps_sync p) ->
      exists H, nth (Z.to_nat (F mod (w + 1))) (g_cells g) (NULL, []) = (F, H) /\ cell_frame (ps_sync p) F = F /\
        forall h hist low f, nth_error gs h = Some (hist, low) -> 0 <= f < F -> gvalL H f h = hval hist f.
Proof.
  intros ops n w d kinds eps nspec p outs Hw Hd Hcap Hn Hlen Hpl H.
  destruct (run_timeline ops _ _ (game0 w) w d (QS_start n w d kinds eps nspec Hw Hd Hcap Hn Hlen Hpl)
              (dense_CI_start n w d kinds eps nspec Hw) (TI_start n w d kinds eps nspec))
    as [E|(p' & outs' & gs & g & E1 & _ & Ex & HQS & (_ & HJ) & (HG & HGI & _))]; [congruence|].
  rewrite H in E1. injection E1 as <- <-.
  exists g, gs. split; [exact Ex|]. split; [exact HQS|].
  intros F HF HFL.
  destruct HJ as [Jw Jmp Jfr Jcur Jroll]. destruct (Jroll Hw) as (_ & _ & (_ & _ & _ & Hcells)).
  destruct (Hcells F HF) as (C1 & C2).
  exists (firstn (Z.to_nat F) (g_hist g)). split; [exact C2|]. split; [exact C1|].
  intros h hist low f Eg Hf.
  pose proof (qs_qs _ _ _ _ HQS) as HQ. pose proof (QsI_length _ _ _ _ HQ) as Hlq.
  destruct (nth_error_some_len (s_queues (ps_sync p)) gs h (hist, low) Hlq Eg) as (q & Eq).
  pose proof (Forall2_nth _ _ _ _ _ _ HQ Eq Eg) as Hqi. cbn [fst snd] in Hqi.
  pose proof (qi_conf _ _ _ _ _ Hqi) as Hcf.
  rewrite gvalL_firstn by (unfold glen in *; lia).
  apply (gq_known _ _ _ _ _ (HGI h q (hist, low) Eq Eg)); [lia|cbn [fst]; lia|].
  destruct (Z.eq_dec (q_first_incorrect q) NULL) as [En|En]; [left; exact En|right].
  destruct (qi_p4 _ _ _ _ _ Hqi En) as (_ & (A & _) & _). lia.
Qed.


End Timeline.
