#!/usr/bin/env python3
"""seed_record.py <tag> <property> "<what it needs to manifest>" "<what I ran / which checks caught it>" """
import json, sys, os
tag, prop, needs, ran = sys.argv[1:5]
d = "/verif/seeded/%s" % tag
os.makedirs(d, exist_ok=True)
json.dump({"tag": tag, "breaks_property": prop, "needs_to_manifest": needs, "confirmed": ran,
           "files": sorted(os.listdir(d))}, open(os.path.join(d, "meta.json"), "w"), indent=1)
print(open(os.path.join(d, "meta.json")).read())
