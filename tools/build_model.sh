#!/bin/sh
# Builds the Coq development (full .vo build) and the extracted OCaml model driver.
# usage: build_model.sh [make targets...]   (no targets: everything + driver)
set -e
ROOT=$(cd "$(dirname "$0")/.." && pwd)
cd "$ROOT/coq"
python3 "$ROOT/tools/consts.py" > "$ROOT/.cache/consts.out" 2>&1 || true
[ -f Makefile ] && [ Makefile -nt _CoqProject ] || coq_makefile -f _CoqProject -o Makefile > /dev/null
if [ $# -gt 0 ]; then
  timeout 1800 make -j16 "$@"
  exit $?
fi
# keep going: a proof file that does not compile must not stop the models from being extracted
MAKE_RC=0
timeout 3000 make -k -j16 || MAKE_RC=$?
mkdir -p "$ROOT/.cache/extract"
cd "$ROOT/.cache/extract"
# re-extract only when the models changed
STAMP=$(cat "$ROOT"/coq/*.vo "$ROOT/coq/extract/Extract.v" "$ROOT"/ocaml/*.ml 2>/dev/null | md5sum | cut -d' ' -f1)
if [ ! -x driver ] || [ "$(cat stamp 2>/dev/null)" != "$STAMP" ]; then
  timeout 600 coqc -Q "$ROOT/coq" GGRS "$ROOT/coq/extract/Extract.v" > extract.log 2>&1
  rm -f lvl_*.ml conv.ml driver.ml *.cmx *.cmi *.o
  cp "$ROOT"/ocaml/*.ml .
  timeout 900 ocamlfind ocamlopt -w -a model.mli model.ml conv.ml $(ls lvl_*.ml) driver.ml -o driver 2> ocaml.log || { cat ocaml.log; exit 1; }
  echo "$STAMP" > stamp
fi
exit $MAKE_RC
