#!/usr/bin/env python3
"""Rewrites the table of DESIGN.md section 11 from /verif/seeded/*/meta.json."""
import json, glob, os, re
rows = []
for m in sorted(glob.glob("/verif/seeded/*/meta.json")):
    d = json.load(open(m))
    esc = lambda t: t.replace("|", "\\|").replace("\n", " ")
    rows.append("| %s | %s | %s | %s |" % (d["tag"], d["breaks_property"], esc(d["needs_to_manifest"]), esc(d["confirmed"])))
p = "/verif/DESIGN.md"
s = open(p).read()
head = "| id | property | the change and what it needs to manifest | which checks catch it (after strengthening where noted) |\n|---|---|---|---|\n"
a = s.index(head) + len(head)
b = a
lines = s[a:].split("\n")
n = 0
while n < len(lines) and lines[n].startswith("|"):
    n += 1
b = a + sum(len(l) + 1 for l in lines[:n])
s = s[:a] + "\n".join(rows) + "\n" + s[b:]
open(p, "w").write(s)
print(len(rows), "rows")
