#!/bin/sh
# usage: seed_check.sh <tag> <check ids...> : applies seeded/<tag>/patch.diff to /repo, runs the checks, reverts
TAG=$1; shift
git -C /repo status --short | grep -q . && { echo "/repo not clean"; exit 2; }
git -C /repo apply /verif/seeded/$TAG/patch.diff || exit 2
for id in "$@"; do
  echo "=== $id"; /verif/tools/check $id quick 2>&1 | grep -E "VIOLATION|KNOWN|failing input|no longer|disagreement|done:" | cut -c1-330 | head -6
done
git -C /repo checkout -- .
git -C /repo status --short
